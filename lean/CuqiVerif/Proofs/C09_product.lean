import CuqiVerif.Model.C09
import CuqiVerif.Proofs.C09
import CuqiVerif.Proofs.C09_kernel
import CuqiVerif.Props.C09
import Mathlib.Probability.ProductMeasure
import Mathlib.MeasureTheory.Integral.Lebesgue.Countable
import Mathlib.Algebra.BigOperators.Group.Finset.Preimage

/-!
# C09 — randomised block samplers: the law of the model's sweep is the kernel sweep (helpers)

`Props/C09_kernel.lean` identifies the kernel-level Gibbs sweep `sweepK` with the executable
`sweep` of `Model/C09.lean` for *deterministic* transition functions only.  This file supplies the
missing Fubini step for randomised samplers.

* `iid P` — the law of an i.i.d. stream of seeds `ℕ → Ω` (`Measure.infinitePi`), with
  `iid_map_split`: (first seed, remaining stream) is distributed as `P.prod (iid P)`.
* `randKer P ψ` — the Markov kernel `x ↦ law of ψ (u, x)`, `u ~ P` (a randomised transition function).
* `Realises P F K` — the seed-consuming program `F : X × Seeds → X × Seeds` (state, remaining seeds)
  has, started with i.i.d. seeds, the law `K x ⊗ iid P` (new state ~ `K x`, *independent of the
  remaining seeds, which are again i.i.d.*).  This is closed under composition, iteration and the
  fold of a sweep, and holds for one randomised transition.
* the pathwise bridge: `RDrivenSteps/Sweep/Run` (every transition the model consumes at stream
  position `p` is the one the block's randomised transition function prescribes with seed `ω p`),
  `rstep`, `rsweepFn` (the point-level program), and the model's `sweep`/`sampleN` computed by it.
-/
namespace CuqiVerif.C09

open MeasureTheory ProbabilityTheory

set_option linter.unusedSectionVars false

/-! ## i.i.d. seed streams -/

section seeds
variable {Ω : Type*}

/-- the stream without its first seed -/
def seedTail (ω : ℕ → Ω) : ℕ → Ω := fun n => ω (n + 1)

/-- the stream from position `p` on -/
def seedDrop (p : ℕ) (ω : ℕ → Ω) : ℕ → Ω := fun n => ω (p + n)

/-- (first seed, remaining stream) -/
def seedSplit (ω : ℕ → Ω) : Ω × (ℕ → Ω) := (ω 0, seedTail ω)

/-- put a seed in front of a stream -/
def seedCons (p : Ω × (ℕ → Ω)) : ℕ → Ω
  | 0 => p.1
  | n + 1 => p.2 n

@[simp] lemma seedSplit_seedCons (p : Ω × (ℕ → Ω)) : seedSplit (seedCons p) = p := rfl

@[simp] lemma seedDrop_zero (ω : ℕ → Ω) : seedDrop 0 ω = ω := by
  funext n; simp [seedDrop]

lemma seedTail_seedDrop (p : ℕ) (ω : ℕ → Ω) : seedTail (seedDrop p ω) = seedDrop (p + 1) ω := by
  funext n
  simp only [seedTail, seedDrop]
  congr 1
  omega

lemma seedDrop_zero_apply (p : ℕ) (ω : ℕ → Ω) : seedDrop p ω 0 = ω p := rfl

variable [MeasurableSpace Ω]

lemma measurable_seedTail : Measurable (seedTail (Ω := Ω)) :=
  measurable_pi_iff.2 fun _ => measurable_pi_apply _

lemma measurable_seedDrop (p : ℕ) : Measurable (seedDrop (Ω := Ω) p) :=
  measurable_pi_iff.2 fun _ => measurable_pi_apply _

lemma measurable_seedSplit : Measurable (seedSplit (Ω := Ω)) :=
  (measurable_pi_apply 0).prodMk measurable_seedTail

lemma measurable_seedCons : Measurable (seedCons (Ω := Ω)) := by
  refine measurable_pi_iff.2 fun n => ?_
  cases n with
  | zero => exact measurable_fst
  | succ n => exact (measurable_pi_apply n).comp measurable_snd

/-- the law of an i.i.d. stream of seeds, each `~ P` -/
noncomputable def iid (P : Measure Ω) [IsProbabilityMeasure P] : Measure (ℕ → Ω) :=
  Measure.infinitePi (fun _ : ℕ => P)

instance (P : Measure Ω) [IsProbabilityMeasure P] : IsProbabilityMeasure (iid P) := by
  unfold iid; infer_instance

lemma seedCons_preimage_pi (s : Finset ℕ) (t : ℕ → Set Ω) :
    seedCons ⁻¹' (Set.pi (s : Set ℕ) t)
      = (if 0 ∈ s then t 0 else Set.univ) ×ˢ
        Set.pi ((s.preimage Nat.succ (Nat.succ_injective.injOn) : Finset ℕ) : Set ℕ)
          (fun n => t (n + 1)) := by
  ext ⟨a, ω⟩
  simp only [Set.mem_preimage, Set.mem_pi, Finset.mem_coe, Set.mem_prod, Finset.mem_preimage]
  constructor
  · intro h
    refine ⟨?_, fun n hn => h (n + 1) hn⟩
    split_ifs with h0
    · exact h 0 h0
    · trivial
  · rintro ⟨h0, h1⟩ n hn
    cases n with
    | zero =>
      show a ∈ t 0
      simpa [hn] using h0
    | succ n => exact h1 n hn

lemma prod_split_zero (s : Finset ℕ) (f : ℕ → ENNReal) :
    ∏ i ∈ s, f i = (if 0 ∈ s then f 0 else 1) *
      ∏ i ∈ s.preimage Nat.succ (Nat.succ_injective.injOn), f (i + 1) := by
  classical
  rw [Finset.prod_preimage' Nat.succ s Nat.succ_injective.injOn f,
    ← Finset.prod_filter_mul_prod_filter_not s (fun x => x ∈ Set.range Nat.succ) f, mul_comm]
  congr 1
  have : s.filter (fun x => x ∉ Set.range Nat.succ) = if 0 ∈ s then {0} else ∅ := by
    ext x
    cases x with
    | zero => by_cases h : 0 ∈ s <;> simp [h]
    | succ x => by_cases h : 0 ∈ s <;> simp [h]
  rw [this]
  split_ifs <;> simp

/-- putting a fresh seed in front of an i.i.d. stream gives an i.i.d. stream -/
lemma iid_map_cons (P : Measure Ω) [IsProbabilityMeasure P] :
    (P.prod (iid P)).map seedCons = iid P := by
  refine Measure.eq_infinitePi _ (fun s t ht => ?_)
  rw [Measure.map_apply measurable_seedCons
    (MeasurableSet.pi s.countable_toSet (fun i _ => ht i)), seedCons_preimage_pi,
    Measure.prod_prod, iid, Measure.infinitePi_pi _ (fun i _ => ht (i + 1)),
    prod_split_zero s (fun i => P (t i))]
  congr 1
  split_ifs <;> simp

/-- **(first seed, remaining stream)** of an i.i.d. stream: the first seed is `~ P`, independent of
    the remaining stream, which is again i.i.d. -/
lemma iid_map_split (P : Measure Ω) [IsProbabilityMeasure P] :
    (iid P).map seedSplit = P.prod (iid P) := by
  conv_lhs => rw [← iid_map_cons P]
  rw [Measure.map_map measurable_seedSplit measurable_seedCons]
  have : seedSplit ∘ seedCons (Ω := Ω) = id := funext seedSplit_seedCons
  rw [this, Measure.map_id]

lemma iid_map_tail (P : Measure Ω) [IsProbabilityMeasure P] : (iid P).map seedTail = iid P := by
  have : seedTail (Ω := Ω) = Prod.snd ∘ seedSplit := rfl
  rw [this, ← Measure.map_map measurable_snd measurable_seedSplit, iid_map_split]
  simp

/-- an i.i.d. stream read from any position on is an i.i.d. stream -/
lemma iid_map_drop (P : Measure Ω) [IsProbabilityMeasure P] (p : ℕ) :
    (iid P).map (seedDrop p) = iid P := by
  induction p with
  | zero =>
    have : seedDrop (Ω := Ω) 0 = id := funext seedDrop_zero
    rw [this, Measure.map_id]
  | succ p ih =>
    have : seedDrop (Ω := Ω) (p + 1) = seedTail ∘ seedDrop p :=
      funext fun ω => (seedTail_seedDrop p ω).symm
    rw [this, ← Measure.map_map measurable_seedTail (measurable_seedDrop p), ih, iid_map_tail]

end seeds

/-! ## randomised transition functions and seed-consuming programs -/

section realises
variable {Ω : Type*} [MeasurableSpace Ω] {X Y : Type*} [MeasurableSpace X] [MeasurableSpace Y]

/-- The Markov kernel of a randomised transition function: from `x`, the law of `ψ (u, x)` with a
    fresh seed `u ~ P`. -/
noncomputable def randKer (P : Measure Ω) (ψ : Ω × X → Y) : Kernel X Y :=
  (Kernel.const X P ×ₖ Kernel.id).map ψ

lemma randKer_apply (P : Measure Ω) [SFinite P] (ψ : Ω × X → Y) (hψ : Measurable ψ) (x : X) :
    randKer P ψ x = P.map (fun u => ψ (u, x)) := by
  rw [randKer, Kernel.map_apply _ hψ, Kernel.prod_apply, Kernel.const_apply, Kernel.id_apply,
    Measure.prod_dirac, Measure.map_map hψ measurable_prodMk_right]
  rfl

lemma isMarkov_randKer (P : Measure Ω) [IsProbabilityMeasure P] (ψ : Ω × X → Y)
    (hψ : Measurable ψ) : IsMarkovKernel (randKer P ψ) := by
  unfold randKer
  exact Kernel.IsMarkovKernel.map _ hψ

/-- The seed-consuming program `F` (state and remaining seeds in, state and remaining seeds out)
    *realises* the kernel `K`: started at `x` with an i.i.d. stream of seeds, the new state is
    `~ K x` and independent of the remaining stream, which is again i.i.d. -/
def Realises (P : Measure Ω) [IsProbabilityMeasure P] (F : X × (ℕ → Ω) → X × (ℕ → Ω))
    (K : Kernel X X) : Prop :=
  Measurable F ∧ ∀ x, (iid P).map (fun ω => F (x, ω)) = (K x).prod (iid P)

variable (P : Measure Ω) [IsProbabilityMeasure P]

lemma realises_id : Realises P (id : X × (ℕ → Ω) → X × (ℕ → Ω)) Kernel.id := by
  refine ⟨measurable_id, fun x => ?_⟩
  rw [Kernel.id_apply, Measure.dirac_prod]
  rfl

/-- one randomised transition, consuming the first seed -/
lemma realises_step (f : Ω × X → X) (hf : Measurable f) :
    Realises P (fun p : X × (ℕ → Ω) => (f (p.2 0, p.1), seedTail p.2)) (randKer P f) := by
  refine ⟨(hf.comp (((measurable_pi_apply 0).comp measurable_snd).prodMk measurable_fst)).prodMk
    (measurable_seedTail.comp measurable_snd), fun x => ?_⟩
  have hfx : Measurable (fun u => f (u, x)) := hf.comp measurable_prodMk_right
  have : (fun ω : ℕ → Ω => (f (ω 0, x), seedTail ω))
      = Prod.map (fun u => f (u, x)) id ∘ seedSplit := rfl
  rw [this, ← Measure.map_map (hfx.prodMap measurable_id) measurable_seedSplit, iid_map_split,
    ← Measure.map_prod_map _ _ hfx measurable_id, Measure.map_id, randKer_apply P f hf]

/-- sequential composition of programs realises the composition of the kernels -/
lemma realises_comp {F1 F2 : X × (ℕ → Ω) → X × (ℕ → Ω)} {K1 K2 : Kernel X X}
    [IsMarkovKernel K1] [IsMarkovKernel K2]
    (h1 : Realises P F1 K1) (h2 : Realises P F2 K2) : Realises P (F2 ∘ F1) (K2 ∘ₖ K1) := by
  refine ⟨h2.1.comp h1.1, fun x => ?_⟩
  have : (fun ω : ℕ → Ω => (F2 ∘ F1) (x, ω)) = F2 ∘ (fun ω => F1 (x, ω)) := rfl
  have hm : Measurable (fun ω : ℕ → Ω => F1 (x, ω)) := h1.1.comp measurable_prodMk_left
  rw [this, ← Measure.map_map h2.1 hm, h1.2 x]
  ext s hs
  rw [Measure.map_apply h2.1 hs, Measure.prod_apply (h2.1 hs), Measure.prod_apply hs,
    Kernel.lintegral_comp _ _ _ (measurable_measure_prodMk_left hs)]
  refine lintegral_congr fun y => ?_
  have hm2 : Measurable (fun ω : ℕ → Ω => F2 (y, ω)) := h2.1.comp measurable_prodMk_left
  rw [← Measure.prod_apply hs, ← h2.2 y, Measure.map_apply hm2 hs]
  rfl

lemma realises_iterate {F : X × (ℕ → Ω) → X × (ℕ → Ω)} {K : Kernel X X} [IsMarkovKernel K]
    (h : Realises P F K) (m : ℕ) : Realises P F^[m] (iterK K m) := by
  induction m with
  | zero => exact realises_id P
  | succ m ih =>
    rw [Function.iterate_succ']
    exact realises_comp P ih h

lemma realises_foldl {ι : Type*} (F : ι → X × (ℕ → Ω) → X × (ℕ → Ω)) (K : ι → Kernel X X)
    [∀ i, IsMarkovKernel (K i)] (h : ∀ i, Realises P (F i) (K i)) (steps : ι → ℕ) (l : List ι)
    (F0 : X × (ℕ → Ω) → X × (ℕ → Ω)) (K0 : Kernel X X) [IsMarkovKernel K0]
    (h0 : Realises P F0 K0) :
    Realises P (l.foldl (fun G i => (F i)^[steps i] ∘ G) F0)
      (l.foldl (fun acc i => iterK (K i) (steps i) ∘ₖ acc) K0) := by
  induction l generalizing F0 K0 with
  | nil => exact h0
  | cons i l ih =>
    rw [List.foldl_cons, List.foldl_cons]
    exact ih _ _ (realises_comp P h0 (realises_iterate P (h i) (steps i)))

lemma foldl_comp_apply {ι S : Type*} (F : ι → S → S) (steps : ι → ℕ) (l : List ι) (F0 : S → S)
    (p : S) :
    (l.foldl (fun G i => (F i)^[steps i] ∘ G) F0) p
      = l.foldl (fun z i => (F i)^[steps i] z) (F0 p) := by
  induction l generalizing F0 with
  | nil => rfl
  | cons i l ih => rw [List.foldl_cons, List.foldl_cons, ih]; rfl

/-- the program of a sweep: for each block of the list in turn, `steps i` runs of its program -/
def sweepProg {ι S : Type*} (F : ι → S → S) (steps : ι → ℕ) (l : List ι) (p : S) : S :=
  l.foldl (fun z i => (F i)^[steps i] z) p

/-- the sweep of programs realises the sweep of kernels (`sweepOf`) -/
lemma realises_sweepOf {ι : Type*} (F : ι → X × (ℕ → Ω) → X × (ℕ → Ω)) (K : ι → Kernel X X)
    [∀ i, IsMarkovKernel (K i)] (h : ∀ i, Realises P (F i) (K i)) (steps : ι → ℕ) (l : List ι) :
    Realises P (sweepProg F steps l) (sweepOf K steps l) := by
  have := realises_foldl P F K h steps l id Kernel.id (realises_id P)
  have e : sweepProg F steps l = l.foldl (fun G i => (F i)^[steps i] ∘ G) id :=
    funext fun p => (foldl_comp_apply F steps l id p).symm
  rw [e]
  exact this

/-- **law of the state after a program**: the first marginal of `Realises` -/
lemma realises_law {F : X × (ℕ → Ω) → X × (ℕ → Ω)} {K : Kernel X X} [IsMarkovKernel K]
    (h : Realises P F K) (x : X) : (iid P).map (fun ω => (F (x, ω)).1) = K x := by
  have : (fun ω : ℕ → Ω => (F (x, ω)).1) = Prod.fst ∘ (fun ω => F (x, ω)) := rfl
  have hm : Measurable (fun ω : ℕ → Ω => F (x, ω)) := h.1.comp measurable_prodMk_left
  rw [this, ← Measure.map_map measurable_fst hm, h.2 x]
  simp

/-- … also when the stream is read from position `p` on -/
lemma realises_law_drop {F : X × (ℕ → Ω) → X × (ℕ → Ω)} {K : Kernel X X} [IsMarkovKernel K]
    (h : Realises P F K) (x : X) (p : ℕ) :
    (iid P).map (fun ω => (F (x, seedDrop p ω)).1) = K x := by
  have : (fun ω : ℕ → Ω => (F (x, seedDrop p ω)).1) = (fun ω => (F (x, ω)).1) ∘ seedDrop p := rfl
  have hm : Measurable (fun ω : ℕ → Ω => (F (x, ω)).1) :=
    measurable_fst.comp (h.1.comp measurable_prodMk_left)
  rw [this, ← Measure.map_map hm (measurable_seedDrop p), iid_map_drop, realises_law P h]

/-- **two-time law** (Markov property): the state after a first program and the state after a
    second program run on the remaining seeds are distributed as `K1 x ⊗ₘ K2` -/
lemma realises_pair {F1 F2 : X × (ℕ → Ω) → X × (ℕ → Ω)} {K1 K2 : Kernel X X}
    [IsMarkovKernel K1] [IsMarkovKernel K2] (h1 : Realises P F1 K1) (h2 : Realises P F2 K2)
    (x : X) :
    (iid P).map (fun ω => ((F1 (x, ω)).1, (F2 (F1 (x, ω))).1)) = (K1 x) ⊗ₘ K2 := by
  have hm : Measurable (fun ω : ℕ → Ω => F1 (x, ω)) := h1.1.comp measurable_prodMk_left
  have hg : Measurable (fun q : X × (ℕ → Ω) => (q.1, (F2 q).1)) :=
    measurable_fst.prodMk (measurable_fst.comp h2.1)
  have : (fun ω : ℕ → Ω => ((F1 (x, ω)).1, (F2 (F1 (x, ω))).1))
      = (fun q : X × (ℕ → Ω) => (q.1, (F2 q).1)) ∘ (fun ω => F1 (x, ω)) := rfl
  rw [this, ← Measure.map_map hg hm, h1.2 x]
  ext s hs
  rw [Measure.map_apply hg hs, Measure.prod_apply (hg hs), Measure.compProd_apply hs]
  refine lintegral_congr fun y => ?_
  have hm2 : Measurable (fun ω : ℕ → Ω => (F2 (y, ω)).1) :=
    measurable_fst.comp (h2.1.comp measurable_prodMk_left)
  rw [← realises_law P h2 y, Measure.map_apply hm2 (measurable_prodMk_left hs)]
  rfl

lemma realises_pair_drop {F1 F2 : X × (ℕ → Ω) → X × (ℕ → Ω)} {K1 K2 : Kernel X X}
    [IsMarkovKernel K1] [IsMarkovKernel K2] (h1 : Realises P F1 K1) (h2 : Realises P F2 K2)
    (x : X) (p : ℕ) :
    (iid P).map (fun ω => ((F1 (x, seedDrop p ω)).1, (F2 (F1 (x, seedDrop p ω))).1))
      = (K1 x) ⊗ₘ K2 := by
  have hm : Measurable (fun ω : ℕ → Ω => ((F1 (x, ω)).1, (F2 (F1 (x, ω))).1)) :=
    (measurable_fst.comp (h1.1.comp measurable_prodMk_left)).prodMk
      (measurable_fst.comp (h2.1.comp (h1.1.comp measurable_prodMk_left)))
  have : (fun ω : ℕ → Ω => ((F1 (x, seedDrop p ω)).1, (F2 (F1 (x, seedDrop p ω))).1))
      = (fun ω => ((F1 (x, ω)).1, (F2 (F1 (x, ω))).1)) ∘ seedDrop p := rfl
  rw [this, ← Measure.map_map hm (measurable_seedDrop p), iid_map_drop, realises_pair P h1 h2]

/-! ### all finite-dimensional laws of the chain of states -/

/-- `P(X₁ ∈ A₁, …, X_k ∈ A_k)` for the Markov chain with kernel `K` started at `x`:
    `∫_{A₁} K(x, dx₁) ∫_{A₂} K(x₁, dx₂) … ∫_{A_k} K(x_{k-1}, dx_k)` -/
noncomputable def chainProb (K : Kernel X X) : List (Set X) → X → ENNReal
  | [], _ => 1
  | A :: As, x => ∫⁻ y in A, chainProb K As y ∂K x

/-- the event "the state after the `j`-th run of the program `F` is in `A_j`, for all `j`" -/
def chainEvent {S : Type*} (F : S → S) (proj : S → X) : List (Set X) → S → Prop
  | [], _ => True
  | A :: As, p => proj (F p) ∈ A ∧ chainEvent F proj As (F p)

lemma chainEvent_iff {S : Type*} (F : S → S) (proj : S → X) (As : List (Set X)) (p : S) :
    chainEvent F proj As p ↔ ∀ j (hj : j < As.length), proj (F^[j + 1] p) ∈ As[j] := by
  induction As generalizing p with
  | nil => simp [chainEvent]
  | cons A As ih =>
    rw [chainEvent, ih]
    constructor
    · rintro ⟨h0, h1⟩ j hj
      cases j with
      | zero => simpa using h0
      | succ j =>
        have := h1 j (by simpa using hj)
        simpa [Function.iterate_succ_apply] using this
    · intro h
      have h0 := h 0 (by simp)
      refine ⟨by simpa [List.getElem_cons_zero] using h0, fun j hj => ?_⟩
      have := h (j + 1) (by simpa using hj)
      simpa [Function.iterate_succ_apply] using this

lemma measurable_chainProb (K : Kernel X X) [IsSFiniteKernel K] (As : List (Set X))
    (hAs : ∀ A ∈ As, MeasurableSet A) : Measurable (chainProb K As) := by
  induction As with
  | nil => exact measurable_const
  | cons A As ih =>
    exact Measurable.setLIntegral_kernel (ih fun B hB => hAs B (List.mem_cons_of_mem _ hB))
      (hAs A List.mem_cons_self)

lemma measurableSet_chainEvent {F : X × (ℕ → Ω) → X × (ℕ → Ω)} (hF : Measurable F)
    (As : List (Set X)) (hAs : ∀ A ∈ As, MeasurableSet A) :
    MeasurableSet {p | chainEvent F Prod.fst As p} := by
  induction As with
  | nil => exact MeasurableSet.univ
  | cons A As ih =>
    have h1 : MeasurableSet {p : X × (ℕ → Ω) | (F p).1 ∈ A} :=
      (measurable_fst.comp hF) (hAs A List.mem_cons_self)
    have h2 : MeasurableSet {p : X × (ℕ → Ω) | chainEvent F Prod.fst As (F p)} :=
      hF (ih fun B hB => hAs B (List.mem_cons_of_mem _ hB))
    exact h1.inter h2

/-- **finite-dimensional laws**: the states after 1, 2, …, k runs of a program that realises `K`
    form the Markov chain with kernel `K` -/
lemma realises_chain {F : X × (ℕ → Ω) → X × (ℕ → Ω)} {K : Kernel X X} [IsMarkovKernel K]
    (h : Realises P F K) (As : List (Set X)) (hAs : ∀ A ∈ As, MeasurableSet A) (x : X) :
    iid P {ω | chainEvent F Prod.fst As (x, ω)} = chainProb K As x := by
  induction As generalizing x with
  | nil => simp [chainEvent, chainProb]
  | cons A As ih =>
    have hAs' : ∀ B ∈ As, MeasurableSet B := fun B hB => hAs B (List.mem_cons_of_mem _ hB)
    have hA : MeasurableSet A := hAs A List.mem_cons_self
    have hS : MeasurableSet {q : X × (ℕ → Ω) | q.1 ∈ A ∧ chainEvent F Prod.fst As q} :=
      (measurable_fst hA).inter (measurableSet_chainEvent h.1 As hAs')
    have hm : Measurable (fun ω : ℕ → Ω => F (x, ω)) := h.1.comp measurable_prodMk_left
    have e : {ω | chainEvent F Prod.fst (A :: As) (x, ω)}
        = (fun ω => F (x, ω)) ⁻¹' {q | q.1 ∈ A ∧ chainEvent F Prod.fst As q} := rfl
    rw [e, ← Measure.map_apply hm hS, h.2 x, Measure.prod_apply hS, chainProb,
      ← lintegral_indicator hA]
    refine lintegral_congr fun y => ?_
    by_cases hy : y ∈ A
    · rw [Set.indicator_of_mem hy, ← ih hAs' y]
      congr 1
      ext ω
      simp [hy]
    · rw [Set.indicator_of_notMem hy]
      have : Prod.mk y ⁻¹' {q : X × (ℕ → Ω) | q.1 ∈ A ∧ chainEvent F Prod.fst As q} = ∅ := by
        ext ω
        simp [hy]
      rw [this, measure_empty]

lemma realises_chain_drop {F : X × (ℕ → Ω) → X × (ℕ → Ω)} {K : Kernel X X} [IsMarkovKernel K]
    (h : Realises P F K) (As : List (Set X)) (hAs : ∀ A ∈ As, MeasurableSet A) (x : X) (p : ℕ) :
    iid P {ω | chainEvent F Prod.fst As (x, seedDrop p ω)} = chainProb K As x := by
  have hS : MeasurableSet {ω : ℕ → Ω | chainEvent F Prod.fst As (x, ω)} :=
    measurable_prodMk_left (measurableSet_chainEvent h.1 As hAs)
  have e : {ω | chainEvent F Prod.fst As (x, seedDrop p ω)}
      = seedDrop p ⁻¹' {ω | chainEvent F Prod.fst As (x, ω)} := rfl
  rw [e, ← Measure.map_apply (measurable_seedDrop p) hS, iid_map_drop, realises_chain P h As hAs]

end realises

/-! ## pathwise bridge to the executable model (`Model/C09.lean`) -/

section model
variable {Ω : Type*} {N V : Type} [DecidableEq N]

/-- The `k` transitions the model's `stepLoop` consumes from stream position `pos` on are those of
    the randomised transition function `ψ`, the transition at position `p` using seed `ω p`. -/
def RDrivenSteps (ψ : Ω → V → V) (ω : ℕ → Ω) (ds : Nat → Draw V) : Nat → Nat → Smp N V → Prop
  | 0, _, _ => True
  | k + 1, pos, s =>
    (ds pos).next s.currentPoint = ψ (ω pos) s.currentPoint
      ∧ RDrivenSteps ψ ω ds k (pos + 1) (s.step (ds pos))

/-- Every transition the model consumes while sweeping over the blocks `l` from state `g` is the
    one `Ψ n u tgt` prescribes — the transition function of block `n`'s sampler with seed `u` when
    handed the target with conditioning dictionary `tgt` — with `u = ω p`, `p` the position of the
    transition in the stream. -/
def RDrivenSweep (Ψ : N → Ω → List (N × V) → V → V) (ω : ℕ → Ω) (ds : Nat → Draw V) :
    List N → HG N V → Prop
  | [], _ => True
  | n :: l, g =>
    RDrivenSteps (fun u => Ψ n u (others g.names g.cur n)) ω ds (g.nsteps n) g.pos (startSmp g n)
      ∧ RDrivenSweep Ψ ω ds l (blockUpdate ds g n)

/-- the same for `k` sweeps of `sampleN` -/
def RDrivenRun (Ψ : N → Ω → List (N × V) → V → V) (ω : ℕ → Ω) (ds : Nat → Draw V) :
    Nat → HG N V → Prop
  | 0, _ => True
  | k + 1, g => RDrivenSweep Ψ ω ds g.names g ∧ RDrivenRun Ψ ω ds k (store (sweep ds g))

/-- one randomised transition on a block value, consuming the first seed -/
def vstep (ψ : Ω → V → V) (p : V × (ℕ → Ω)) : V × (ℕ → Ω) := (ψ (p.2 0) p.1, seedTail p.2)

/-- the new value of block `n` as a function of (seed, whole state): what is plugged into `blockK` -/
def rdraw (Ψ : N → Ω → List (N × V) → V → V) (names : List N) (n : N) (q : Ω × (N → V)) : V :=
  Ψ n q.1 (others names q.2 n) (q.2 n)

/-- one randomised transition of block `n` on the whole state, as a function of (seed, state) -/
def rmove (Ψ : N → Ω → List (N × V) → V → V) (names : List N) (n : N) (q : Ω × (N → V)) : N → V :=
  Function.update q.2 n (rdraw Ψ names n q)

/-- … as a seed-consuming program -/
def rstep (Ψ : N → Ω → List (N × V) → V → V) (names : List N) (n : N)
    (p : (N → V) × (ℕ → Ω)) : (N → V) × (ℕ → Ω) :=
  (rmove Ψ names n (p.2 0, p.1), seedTail p.2)

/-- the sweep as a seed-consuming program: the point-level fold -/
def rsweepFn (Ψ : N → Ω → List (N × V) → V → V) (names : List N) (steps : N → Nat) (l : List N) :
    (N → V) × (ℕ → Ω) → (N → V) × (ℕ → Ω) :=
  sweepProg (rstep Ψ names) steps l

lemma rstep_eq (Ψ : N → Ω → List (N × V) → V → V) (names : List N) (n : N) (y : N → V)
    (ω : ℕ → Ω) :
    rstep Ψ names n (y, ω) = (upd y n (Ψ n (ω 0) (others names y n) (y n)), seedTail ω) := by
  simp [rstep, rmove, rdraw, upd_eq_update]

lemma rstep_iterate (Ψ : N → Ω → List (N × V) → V → V) (names : List N) (n : N) (k : Nat)
    (y : N → V) (ω : ℕ → Ω) :
    (rstep Ψ names n)^[k] (y, ω)
      = (upd y n ((vstep (fun u => Ψ n u (others names y n)))^[k] (y n, ω)).1,
         ((vstep (fun u => Ψ n u (others names y n)))^[k] (y n, ω)).2) := by
  induction k generalizing y ω with
  | zero => simp [upd_self]
  | succ k ih =>
    rw [Function.iterate_succ_apply, Function.iterate_succ_apply, rstep_eq, ih]
    simp [others_upd, upd_upd, upd, vstep]

lemma vstep_of_rdriven (ψ : Ω → V → V) (ω : ℕ → Ω) (ds : Nat → Draw V) (k pos : Nat) (s : Smp N V)
    (h : RDrivenSteps ψ ω ds k pos s) :
    (vstep ψ)^[k] (s.currentPoint, seedDrop pos ω)
      = ((stepEnd ds k pos s).currentPoint, seedDrop (pos + k) ω) := by
  induction k generalizing pos s with
  | zero => rfl
  | succ k ih =>
    obtain ⟨h1, h2⟩ := h
    have e : vstep ψ (s.currentPoint, seedDrop pos ω)
        = ((s.step (ds pos)).currentPoint, seedDrop (pos + 1) ω) := by
      simp only [vstep, seedTail_seedDrop, seedDrop_zero_apply, step_currentPoint, h1]
    rw [Function.iterate_succ_apply, e, ih _ _ h2, stepEnd, Nat.add_assoc, Nat.add_comm 1 k]

lemma blockUpdate_of_rdriven (Ψ : N → Ω → List (N × V) → V → V) (ω : ℕ → Ω) (ds : Nat → Draw V)
    (g : HG N V) (n : N) (hs : Sync g)
    (h : RDrivenSteps (fun u => Ψ n u (others g.names g.cur n)) ω ds (g.nsteps n) g.pos
      (startSmp g n)) :
    (rstep Ψ g.names n)^[g.nsteps n] (g.cur, seedDrop g.pos ω)
      = ((blockUpdate ds g n).cur, seedDrop (blockUpdate ds g n).pos ω) := by
  have hp : (startSmp g n).currentPoint = g.cur n := by rw [startSmp, prologue_point, hs n]
  have := vstep_of_rdriven _ ω ds _ _ _ h
  rw [hp] at this
  rw [rstep_iterate, this, blockUpdate_cur, blockUpdate_pos]

lemma sweepL_of_rdriven (Ψ : N → Ω → List (N × V) → V → V) (ω : ℕ → Ω) (ds : Nat → Draw V)
    (l : List N) (g : HG N V) (hs : Sync g) (h : RDrivenSweep Ψ ω ds l g) :
    rsweepFn Ψ g.names g.nsteps l (g.cur, seedDrop g.pos ω)
      = ((sweepL ds l g).cur, seedDrop (sweepL ds l g).pos ω) := by
  induction l generalizing g with
  | nil => rfl
  | cons n l ih =>
    obtain ⟨h1, h2⟩ := h
    have := ih _ (sync_blockUpdate ds g n hs) h2
    rw [sweepL_cons, ← this, ← blockUpdate_of_rdriven Ψ ω ds g n hs h1]
    simp [rsweepFn, sweepProg]

@[simp] lemma store_pos (g : HG N V) : (store g).pos = g.pos := rfl

lemma sampleN_of_rdriven (Ψ : N → Ω → List (N × V) → V → V) (ω : ℕ → Ω) (ds : Nat → Draw V)
    (k : Nat) (g : HG N V) (hs : Sync g) (h : RDrivenRun Ψ ω ds k g) :
    (rsweepFn Ψ g.names g.nsteps g.names)^[k] (g.cur, seedDrop g.pos ω)
      = ((sampleN ds k g).cur, seedDrop (sampleN ds k g).pos ω) := by
  induction k generalizing g with
  | zero => rfl
  | succ k ih =>
    obtain ⟨h1, h2⟩ := h
    have hs' : Sync (store (sweep ds g)) := sync_store _ (sync_sweepL ds _ g hs)
    have := ih _ hs' h2
    rw [sampleN, ← this, Function.iterate_succ_apply, sweepL_of_rdriven Ψ ω ds g.names g hs h1]
    simp [sweep_eq_sweepL]

end model

/-! ## the kernels of the randomised block samplers -/

section modelKernel
variable {Ω : Type*} [MeasurableSpace Ω] {N V : Type} [DecidableEq N] [MeasurableSpace V]

lemma measurable_rmove (Ψ : N → Ω → List (N × V) → V → V) (names : List N) (n : N)
    (hΨ : Measurable (rdraw Ψ names n)) : Measurable (rmove Ψ names n) :=
  (measurable_update' (X := fun _ : N => V) (a := n)).comp (measurable_snd.prodMk hΨ)

/-- the block update by the randomised sampler `Ψ n` *is* `blockK` of its draw kernel -/
lemma blockK_randKer (P : Measure Ω) [IsProbabilityMeasure P] (Ψ : N → Ω → List (N × V) → V → V)
    (names : List N) (n : N) (hΨ : Measurable (rdraw Ψ names n)) :
    blockK (α := fun _ => V) n (randKer P (rdraw Ψ names n)) = randKer P (rmove Ψ names n) := by
  have := isMarkov_randKer P _ hΨ
  ext x : 1
  have hm : Measurable (fun u : Ω => rdraw Ψ names n (u, x)) := hΨ.comp measurable_prodMk_right
  rw [blockK_apply, randKer_apply P _ hΨ, randKer_apply P _ (measurable_rmove Ψ names n hΨ),
    Measure.map_map (measurable_update x) hm]
  rfl

lemma realises_rstep (P : Measure Ω) [IsProbabilityMeasure P] (Ψ : N → Ω → List (N × V) → V → V)
    (names : List N) (n : N) (hΨ : Measurable (rdraw Ψ names n)) :
    Realises P (rstep Ψ names n) (blockK (α := fun _ => V) n (randKer P (rdraw Ψ names n))) := by
  rw [blockK_randKer P Ψ names n hΨ]
  exact realises_step P _ (measurable_rmove Ψ names n hΨ)

lemma realises_rsweepFn (P : Measure Ω) [IsProbabilityMeasure P]
    (Ψ : N → Ω → List (N × V) → V → V) (names : List N)
    (hΨ : ∀ n, Measurable (rdraw Ψ names n)) (steps : N → ℕ) (l : List N) :
    Realises P (rsweepFn Ψ names steps l)
      (sweepK (α := fun _ => V) (fun n => randKer P (rdraw Ψ names n)) steps l) := by
  have : ∀ n, IsMarkovKernel (blockK (α := fun _ => V) n (randKer P (rdraw Ψ names n))) := by
    intro n
    have := isMarkov_randKer P _ (hΨ n)
    infer_instance
  exact realises_sweepOf P (rstep Ψ names) _ (fun n => realises_rstep P Ψ names n (hΨ n)) steps l

lemma isMarkov_sweepK_randKer (P : Measure Ω) [IsProbabilityMeasure P]
    (Ψ : N → Ω → List (N × V) → V → V) (names : List N)
    (hΨ : ∀ n, Measurable (rdraw Ψ names n)) (steps : N → ℕ) (l : List N) :
    IsMarkovKernel (sweepK (α := fun _ => V) (fun n => randKer P (rdraw Ψ names n)) steps l) := by
  have : ∀ n, IsMarkovKernel (blockK (α := fun _ => V) n (randKer P (rdraw Ψ names n))) := by
    intro n
    have := isMarkov_randKer P _ (hΨ n)
    infer_instance
  unfold sweepK
  infer_instance

end modelKernel

/-! ## every family of randomised samplers drives the model: existence of the stream -/

section exists_
variable {Ω : Type*} {N V : Type} [DecidableEq N]

lemma stepLoop_congr (ds ds' : Nat → Draw V) (n : N) (k pos : Nat) (s : Smp N V)
    (log : List (Ev N V)) (h : ∀ p, pos ≤ p → p < pos + k → ds p = ds' p) :
    stepLoop ds n k pos s log = stepLoop ds' n k pos s log := by
  induction k generalizing pos s log with
  | zero => rfl
  | succ k ih =>
    simp only [stepLoop]
    rw [h pos (Nat.le_refl _) (by omega)]
    exact ih _ _ _ (fun p hp hq => h p (by omega) (by omega))

lemma rdrivenSteps_congr (ψ : Ω → V → V) (ω : ℕ → Ω) (ds ds' : Nat → Draw V) (k pos : Nat)
    (s : Smp N V) (h : ∀ p, pos ≤ p → p < pos + k → ds p = ds' p)
    (hd : RDrivenSteps ψ ω ds k pos s) : RDrivenSteps ψ ω ds' k pos s := by
  induction k generalizing pos s with
  | zero => trivial
  | succ k ih =>
    obtain ⟨h1, h2⟩ := hd
    have e := h pos (Nat.le_refl _) (by omega)
    refine ⟨by rw [← e]; exact h1, ?_⟩
    rw [← e]
    exact ih _ _ (fun p hp hq => h p (by omega) (by omega)) h2

lemma blockUpdate_congr (ds ds' : Nat → Draw V) (g : HG N V) (n : N)
    (h : ∀ p, g.pos ≤ p → p < g.pos + g.nsteps n → ds p = ds' p) :
    blockUpdate ds g n = blockUpdate ds' g n := by
  simp only [blockUpdate]
  rw [stepLoop_congr ds ds' n (g.nsteps n) g.pos _ _ h]

lemma sweepL_congr (ds ds' : Nat → Draw V) (l : List N) (g : HG N V)
    (h : ∀ p, g.pos ≤ p → p < g.pos + (l.map g.nsteps).sum → ds p = ds' p) :
    sweepL ds l g = sweepL ds' l g := by
  induction l generalizing g with
  | nil => rfl
  | cons n l ih =>
    have e : blockUpdate ds g n = blockUpdate ds' g n :=
      blockUpdate_congr ds ds' g n (fun p hp hq => h p hp (by simp only [List.map_cons, List.sum_cons]; omega))
    rw [sweepL_cons, sweepL_cons, e]
    refine ih _ (fun p hp hq => h p ?_ ?_)
    · simp only [blockUpdate_pos] at hp; omega
    · simp only [blockUpdate_pos, blockUpdate_nsteps] at hq
      simp only [List.map_cons, List.sum_cons]; omega

lemma rdrivenSweep_congr (Ψ : N → Ω → List (N × V) → V → V) (ω : ℕ → Ω) (ds ds' : Nat → Draw V)
    (l : List N) (g : HG N V)
    (h : ∀ p, g.pos ≤ p → p < g.pos + (l.map g.nsteps).sum → ds p = ds' p)
    (hd : RDrivenSweep Ψ ω ds l g) : RDrivenSweep Ψ ω ds' l g := by
  induction l generalizing g with
  | nil => trivial
  | cons n l ih =>
    obtain ⟨h1, h2⟩ := hd
    have hn : ∀ p, g.pos ≤ p → p < g.pos + g.nsteps n → ds p = ds' p :=
      fun p hp hq => h p hp (by simp only [List.map_cons, List.sum_cons]; omega)
    refine ⟨rdrivenSteps_congr _ ω ds ds' _ _ _ hn h1, ?_⟩
    rw [← blockUpdate_congr ds ds' g n hn]
    refine ih _ (fun p hp hq => h p ?_ ?_) h2
    · simp only [blockUpdate_pos] at hp; omega
    · simp only [blockUpdate_pos, blockUpdate_nsteps] at hq
      simp only [List.map_cons, List.sum_cons]; omega

lemma rdrivenRun_congr (Ψ : N → Ω → List (N × V) → V → V) (ω : ℕ → Ω) (ds ds' : Nat → Draw V)
    (k : Nat) (g : HG N V) (h : ∀ p, g.pos ≤ p → ds p = ds' p)
    (hd : RDrivenRun Ψ ω ds k g) : RDrivenRun Ψ ω ds' k g := by
  induction k generalizing g with
  | zero => trivial
  | succ k ih =>
    obtain ⟨h1, h2⟩ := hd
    have e : sweep ds g = sweep ds' g := by
      rw [sweep_eq_sweepL, sweep_eq_sweepL]
      exact sweepL_congr ds ds' _ g (fun p hp _ => h p hp)
    refine ⟨rdrivenSweep_congr Ψ ω ds ds' _ g (fun p hp _ => h p hp) h1, ?_⟩
    rw [← e]
    refine ih _ (fun p hp => h p ?_) h2
    rw [store_pos, sweep_eq_sweepL, sweepL_pos] at hp
    omega

lemma rdrivenRun_prefix (Ψ : N → Ω → List (N × V) → V → V) (ω : ℕ → Ω) (ds : Nat → Draw V)
    (a b : Nat) (g : HG N V) (h : RDrivenRun Ψ ω ds (a + b) g) : RDrivenRun Ψ ω ds a g := by
  induction a generalizing g with
  | zero => trivial
  | succ a ih =>
    rw [Nat.add_right_comm] at h
    exact ⟨h.1, ih _ h.2⟩

lemma rdrivenSteps_exists (ψ : Ω → V → V) (ω : ℕ → Ω) (k pos : Nat) (s : Smp N V) :
    ∃ ds : Nat → Draw V, RDrivenSteps ψ ω ds k pos s := by
  induction k generalizing pos s with
  | zero => exact ⟨fun _ => ⟨s.currentPoint, false⟩, trivial⟩
  | succ k ih =>
    let d0 : Draw V := ⟨ψ (ω pos) s.currentPoint, true⟩
    obtain ⟨ds', h'⟩ := ih (pos + 1) (s.step d0)
    refine ⟨fun p => if p = pos then d0 else ds' p, ?_, ?_⟩
    · simp [d0, Draw.next]
    · simp only [if_true]
      exact rdrivenSteps_congr ψ ω ds' _ k (pos + 1) _
        (fun p hp _ => by have : p ≠ pos := by omega
                          simp [this]) h'

lemma rdrivenSweep_exists (Ψ : N → Ω → List (N × V) → V → V) (ω : ℕ → Ω) (l : List N)
    (g : HG N V) (v0 : V) : ∃ ds : Nat → Draw V, RDrivenSweep Ψ ω ds l g := by
  induction l generalizing g with
  | nil => exact ⟨fun _ => ⟨v0, false⟩, trivial⟩
  | cons n l ih =>
    obtain ⟨ds1, h1⟩ := rdrivenSteps_exists (fun u => Ψ n u (others g.names g.cur n)) ω
      (g.nsteps n) g.pos (startSmp g n)
    obtain ⟨ds2, h2⟩ := ih (blockUpdate ds1 g n)
    have hn : ∀ p, g.pos ≤ p → p < g.pos + g.nsteps n →
        ds1 p = (fun p => if p < g.pos + g.nsteps n then ds1 p else ds2 p) p :=
      fun p _ hq => by simp [hq]
    refine ⟨fun p => if p < g.pos + g.nsteps n then ds1 p else ds2 p,
      rdrivenSteps_congr _ ω ds1 _ _ _ _ hn h1, ?_⟩
    rw [← blockUpdate_congr ds1 _ g n hn]
    refine rdrivenSweep_congr Ψ ω ds2 _ l _ (fun p hp _ => ?_) h2
    simp only [blockUpdate_pos] at hp
    have : ¬ p < g.pos + g.nsteps n := by omega
    simp [this]

lemma rdrivenRun_exists (Ψ : N → Ω → List (N × V) → V → V) (ω : ℕ → Ω) (k : Nat)
    (g : HG N V) (v0 : V) : ∃ ds : Nat → Draw V, RDrivenRun Ψ ω ds k g := by
  induction k generalizing g with
  | zero => exact ⟨fun _ => ⟨v0, false⟩, trivial⟩
  | succ k ih =>
    obtain ⟨ds1, h1⟩ := rdrivenSweep_exists Ψ ω g.names g v0
    obtain ⟨ds2, h2⟩ := ih (store (sweep ds1 g))
    have hB : (store (sweep ds1 g)).pos = g.pos + (g.names.map g.nsteps).sum := by
      rw [store_pos, sweep_eq_sweepL, sweepL_pos]
    have hn : ∀ p, g.pos ≤ p → p < g.pos + (g.names.map g.nsteps).sum →
        ds1 p = (fun p => if p < g.pos + (g.names.map g.nsteps).sum then ds1 p else ds2 p) p :=
      fun p _ hq => by simp [hq]
    have e : sweep ds1 g
        = sweep (fun p => if p < g.pos + (g.names.map g.nsteps).sum then ds1 p else ds2 p) g := by
      rw [sweep_eq_sweepL, sweep_eq_sweepL]
      exact sweepL_congr ds1 _ _ g hn
    refine ⟨fun p => if p < g.pos + (g.names.map g.nsteps).sum then ds1 p else ds2 p,
      rdrivenSweep_congr Ψ ω ds1 _ _ g hn h1, ?_⟩
    rw [← e]
    refine rdrivenRun_congr Ψ ω ds2 _ k _ (fun p hp => ?_) h2
    rw [hB] at hp
    have : ¬ p < g.pos + (g.names.map g.nsteps).sum := by omega
    simp [this]

end exists_

/-! ## legacy `Gibbs` -/

section legacy
variable {Ω : Type*} {N V : Type} [DecidableEq N]

/-- every value the legacy model consumes while sweeping over `l` — at stream position `p` — is
    the one `Ψ n (ω p) tgt` prescribes for the fresh sampler built on the target `tgt`, started at
    the block's current value -/
def RLDrivenSweep (Ψ : N → Ω → List (N × V) → V → V) (ω : ℕ → Ω) (ds : Nat → V) (names : List N) :
    List N → LSt N V → Prop
  | [], _ => True
  | n :: l, st =>
    ds st.2.1 = Ψ n (ω st.2.1) (others names st.1 n) (st.1 n)
      ∧ RLDrivenSweep Ψ ω ds names l (lblock ds names st n)

lemma lsweepL_of_rdriven (Ψ : N → Ω → List (N × V) → V → V) (ω : ℕ → Ω) (ds : Nat → V)
    (names l : List N) (st : LSt N V) (h : RLDrivenSweep Ψ ω ds names l st) :
    rsweepFn Ψ names (fun _ => 1) l (st.1, seedDrop st.2.1 ω)
      = ((lsweepL ds names l st).1, seedDrop (lsweepL ds names l st).2.1 ω) := by
  induction l generalizing st with
  | nil => rfl
  | cons n l ih =>
    obtain ⟨h1, h2⟩ := h
    rw [lsweepL_cons, ← ih _ h2]
    simp only [rsweepFn, sweepProg, List.foldl_cons, Function.iterate_one, rstep_eq,
      seedTail_seedDrop, seedDrop_zero_apply, lblock, legacyKernel_eq, h1]

lemma lblock_congr (ds ds' : Nat → V) (names : List N) (st : LSt N V) (n : N)
    (h : ds st.2.1 = ds' st.2.1) : lblock ds names st n = lblock ds' names st n := by
  simp only [lblock, h]

lemma rldrivenSweep_congr (Ψ : N → Ω → List (N × V) → V → V) (ω : ℕ → Ω) (ds ds' : Nat → V)
    (names l : List N) (st : LSt N V) (h : ∀ p, st.2.1 ≤ p → ds p = ds' p)
    (hd : RLDrivenSweep Ψ ω ds names l st) : RLDrivenSweep Ψ ω ds' names l st := by
  induction l generalizing st with
  | nil => trivial
  | cons n l ih =>
    obtain ⟨h1, h2⟩ := hd
    have e := h st.2.1 (Nat.le_refl _)
    refine ⟨by rw [← e]; exact h1, ?_⟩
    rw [← lblock_congr ds ds' names st n e]
    refine ih _ (fun p hp => h p ?_) h2
    simp only [lblock] at hp
    omega

lemma rldrivenSweep_exists (Ψ : N → Ω → List (N × V) → V → V) (ω : ℕ → Ω) (names l : List N)
    (st : LSt N V) (v0 : V) : ∃ ds : Nat → V, RLDrivenSweep Ψ ω ds names l st := by
  induction l generalizing st with
  | nil => exact ⟨fun _ => v0, trivial⟩
  | cons n l ih =>
    let d0 : V := Ψ n (ω st.2.1) (others names st.1 n) (st.1 n)
    obtain ⟨ds', h'⟩ := ih (lblock (fun _ => d0) names st n)
    have e : lblock (fun _ => d0) names st n
        = lblock (fun p => if p = st.2.1 then d0 else ds' p) names st n :=
      lblock_congr _ _ names st n (by simp)
    refine ⟨fun p => if p = st.2.1 then d0 else ds' p, by simp [d0], ?_⟩
    rw [← e]
    refine rldrivenSweep_congr Ψ ω ds' _ names l _ (fun p hp => ?_) h'
    simp only [lblock] at hp
    have : p ≠ st.2.1 := by omega
    simp [this]

end legacy


/-! ## finite product spaces: the dictionary between `Props/C09.lean` (weights and transition
matrices, `gibbs_invariant_fintype`) and the kernel language (`gibbs_invariant_kernel`) -/

open scoped ENNReal NNReal

section fin
variable {X Y : Type} [Fintype X] [MeasurableSpace X] [MeasurableSingletonClass X]
  [Fintype Y] [MeasurableSpace Y] [MeasurableSingletonClass Y]

/-- the (finite) measure with weights `π` -/
noncomputable def wMeasure (π : X → ℝ≥0) : Measure X := ∑ x, (π x : ℝ≥0∞) • Measure.dirac x

lemma lintegral_wMeasure (π : X → ℝ≥0) (f : X → ℝ≥0∞) :
    ∫⁻ x, f x ∂wMeasure π = ∑ x, (π x : ℝ≥0∞) * f x := by
  simp only [wMeasure, lintegral_finsetSum_measure, lintegral_smul_measure, lintegral_dirac, smul_eq_mul]

lemma wMeasure_apply (π : X → ℝ≥0) (s : Set X) :
    wMeasure π s = ∑ x, (π x : ℝ≥0∞) * Set.indicator s 1 x := by
  rw [← lintegral_wMeasure, lintegral_indicator_one (Set.Finite.measurableSet (Set.toFinite s))]

lemma wMeasure_singleton (π : X → ℝ≥0) (y : X) : wMeasure π {y} = π y := by
  classical
  rw [wMeasure_apply]
  simp [Set.indicator_apply]

instance (π : X → ℝ≥0) : IsFiniteMeasure (wMeasure π) := by
  refine ⟨?_⟩
  rw [wMeasure_apply]
  exact ENNReal.sum_lt_top.2 fun x _ => by simp

/-- the (finite) kernel with transition weights `K` -/
noncomputable def wKernel (K : X → Y → ℝ≥0) : Kernel X Y where
  toFun x := wMeasure (K x)
  measurable' := measurable_of_countable _

lemma wKernel_apply (K : X → Y → ℝ≥0) (x : X) : wKernel K x = wMeasure (K x) := rfl

lemma wKernel_singleton (K : X → Y → ℝ≥0) (x : X) (y : Y) : wKernel K x {y} = K x y :=
  wMeasure_singleton (K x) y

instance (K : X → Y → ℝ≥0) : IsFiniteKernel (wKernel K) := by
  refine ⟨⟨((∑ x, ∑ y, K x y : ℝ≥0) : ℝ≥0∞), ENNReal.coe_lt_top, fun x => ?_⟩⟩
  rw [wKernel_apply, wMeasure_apply]
  simp only [Set.indicator_univ, Pi.one_apply, mul_one]
  rw [← ENNReal.ofNNReal_finsetSum, ENNReal.coe_le_coe]
  exact Finset.single_le_sum (f := fun x => ∑ y, K x y) (fun _ _ => bot_le) (Finset.mem_univ x)

lemma bind_wKernel_singleton (π : X → ℝ≥0) (K : X → Y → ℝ≥0) (y : Y) :
    ((wMeasure π).bind (wKernel K)) {y} = ∑ x, (π x : ℝ≥0∞) * K x y := by
  rw [Measure.bind_apply (measurableSet_singleton y) (Kernel.aemeasurable _), lintegral_wMeasure]
  simp [wKernel_singleton]

lemma kernel_invariant_iff (π : X → ℝ≥0) (K : X → X → ℝ≥0) :
    Kernel.Invariant (wKernel K) (wMeasure π) ↔ Invariant π K := by
  rw [Kernel.Invariant, Measure.ext_iff_singleton]
  simp only [bind_wKernel_singleton, wMeasure_singleton]
  refine forall_congr' fun y => ?_
  rw [← ENNReal.coe_inj]
  push_cast
  rfl

lemma wKernel_kid [DecidableEq X] : wKernel (kid : X → X → ℝ≥0) = Kernel.id := by
  ext x : 1
  refine Measure.ext_of_singleton fun y => ?_
  rw [wKernel_singleton, Kernel.id_apply, Measure.dirac_apply' _ (measurableSet_singleton y)]
  by_cases h : x = y <;> simp [kid, h]

lemma wKernel_kcomp (K L : X → X → ℝ≥0) : wKernel (kcomp K L) = wKernel L ∘ₖ wKernel K := by
  ext x : 1
  refine Measure.ext_of_singleton fun z => ?_
  rw [wKernel_singleton, Kernel.comp_apply' _ _ _ (measurableSet_singleton z)]
  show _ = ∫⁻ b, wKernel L b {z} ∂wMeasure (K x)
  rw [lintegral_wMeasure]
  simp [wKernel_singleton, kcomp]

end fin
section comm
variable {Z : Type*} [MeasurableSpace Z] {ι : Type*}

lemma iterK_comm (K : Kernel Z Z) (m : ℕ) : iterK K m ∘ₖ K = K ∘ₖ iterK K m := by
  induction m with
  | zero => simp [iterK, Kernel.id_comp, Kernel.comp_id]
  | succ m ih => rw [iterK, Kernel.comp_assoc, ih]

lemma foldl_sweep_comp (K : ι → Kernel Z Z) (steps : ι → ℕ) (l : List ι) (K0 : Kernel Z Z) :
    l.foldl (fun acc i => iterK (K i) (steps i) ∘ₖ acc) K0 = sweepOf K steps l ∘ₖ K0 := by
  induction l generalizing K0 with
  | nil => simp [sweepOf, Kernel.id_comp]
  | cons i l ih =>
    rw [sweepOf, List.foldl_cons, List.foldl_cons, ih, ih (iterK (K i) (steps i) ∘ₖ Kernel.id),
      Kernel.comp_id, Kernel.comp_assoc]

lemma sweepOf_cons (K : ι → Kernel Z Z) (steps : ι → ℕ) (i : ι) (l : List ι) :
    sweepOf K steps (i :: l) = sweepOf K steps l ∘ₖ iterK (K i) (steps i) := by
  rw [sweepOf, List.foldl_cons, foldl_sweep_comp, Kernel.comp_id]

end comm

section fin2
variable {X : Type} [Fintype X] [DecidableEq X] [MeasurableSpace X] [MeasurableSingletonClass X]

lemma wKernel_kpow (K : X → X → ℝ≥0) (m : ℕ) : wKernel (kpow K m) = iterK (wKernel K) m := by
  induction m with
  | zero => exact wKernel_kid
  | succ m ih => rw [kpow, wKernel_kcomp, ih, iterK_comm, iterK]

end fin2

section finpi
variable {ι : Type} [DecidableEq ι] [Fintype ι] {α : ι → Type} [∀ i, Fintype (α i)]
  [∀ i, DecidableEq (α i)] [∀ i, MeasurableSpace (α i)] [∀ i, MeasurableSingletonClass (α i)]

/-- the draw weights of a block sampler given as a matrix `k c a b` (context `c`, from `a` to `b`),
    as a function of the whole current state `x`: the context is `x` with block `i` at its new
    value (this is how `blockKernel` reads `k`) -/
def drawWeights (i : ι) (k : (∀ j, α j) → α i → α i → ℝ≥0) : (∀ j, α j) → α i → ℝ≥0 :=
  fun x b => k (Function.update x i b) (x i) b

lemma wKernel_blockKernel (i : ι) (k : (∀ j, α j) → α i → α i → ℝ≥0) :
    wKernel (blockKernel i k) = blockK i (wKernel (drawWeights i k)) := by
  ext x : 1
  refine Measure.ext_of_singleton fun y => ?_
  rw [wKernel_singleton, blockK_apply, Measure.map_apply (measurable_update x)
    (measurableSet_singleton y)]
  by_cases h : ∀ j, j ≠ i → x j = y j
  · have : Function.update x i ⁻¹' {y} = {y i} := by
      ext b
      simp only [Set.mem_preimage, Set.mem_singleton_iff]
      constructor
      · intro e; rw [← e]; simp
      · intro e
        funext j
        by_cases hj : j = i
        · subst hj; simp [e]
        · simp [Function.update_of_ne hj, h j hj]
    rw [this, wKernel_singleton]
    have hy : Function.update x i (y i) = y := by
      funext j
      by_cases hj : j = i
      · subst hj; simp
      · simp [Function.update_of_ne hj, h j hj]
    rw [blockKernel, if_pos h, drawWeights, hy]
  · have : Function.update x i ⁻¹' {y} = ∅ := by
      ext b
      simp only [Set.mem_preimage, Set.mem_singleton_iff, Set.mem_empty_iff_false, iff_false]
      intro e
      apply h
      intro j hj
      rw [← e, Function.update_of_ne hj]
    rw [this, measure_empty]
    simp [blockKernel, h]

lemma wKernel_sweepKernel (ks : ∀ i, (∀ j, α j) → α i → α i → ℝ≥0) (steps : ι → ℕ) (l : List ι) :
    wKernel (sweepKernel ks steps l)
      = sweepK (fun i => wKernel (drawWeights i (ks i))) steps l := by
  induction l with
  | nil => exact wKernel_kid
  | cons i l ih =>
    rw [sweepKernel, wKernel_kcomp, ih, wKernel_kpow, wKernel_blockKernel, sweepK, sweepK,
      sweepOf_cons]

end finpi
section finconv
variable {ι : Type} [DecidableEq ι] [Fintype ι] {α : ι → Type} [∀ i, Fintype (α i)]
  [∀ i, DecidableEq (α i)] [∀ i, MeasurableSpace (α i)] [∀ i, MeasurableSingletonClass (α i)]

/-- `(other blocks, block i)` as an equivalence -/
def splitEquiv (i : ι) : (∀ j, α j) ≃ Rest α i × α i :=
  ⟨split i, glue i, glue_split i, split_glue i⟩

/-- total weight of the fibre over the context `c` -/
def fibreWeight (π : (∀ j, α j) → ℝ≥0) (i : ι) (c : Rest α i) : ℝ≥0 := ∑ a, π (glue i (c, a))

/-- the normalised conditional weights of block `i` given the other blocks -/
noncomputable def condWeights (π : (∀ j, α j) → ℝ≥0) (i : ι) : Rest α i → α i → ℝ≥0 :=
  fun c b => π (glue i (c, b)) / fibreWeight π i c

lemma sum_split (i : ι) (F : (∀ j, α j) → ℝ≥0∞) :
    ∑ x, F x = ∑ c : Rest α i, ∑ a, F (glue i (c, a)) := by
  rw [← Fintype.sum_prod_type']
  exact Fintype.sum_equiv (splitEquiv i) _ _ (fun x => by simp [splitEquiv])

lemma fibre_mul_cond (π : (∀ j, α j) → ℝ≥0) (i : ι) (c : Rest α i) (b : α i) :
    fibreWeight π i c * condWeights π i c b = π (glue i (c, b)) := by
  unfold condWeights
  by_cases h : fibreWeight π i c = 0
  · have : π (glue i (c, b)) = 0 := by
      have := (Finset.sum_eq_zero_iff (s := Finset.univ) (f := fun a => π (glue i (c, a)))).1 h b
        (Finset.mem_univ b)
      exact this
    simp [h, this]
  · rw [mul_div_cancel₀ _ h]

lemma isFullConditional_wMeasure (π : (∀ j, α j) → ℝ≥0) (i : ι) :
    IsFullConditional (wMeasure π) i (wKernel (condWeights π i)) := by
  unfold IsFullConditional
  refine Measure.ext_of_singleton fun p => ?_
  obtain ⟨c, b⟩ := p
  have hpre : split i ⁻¹' {(c, b)} = {glue (α := α) i (c, b)} := by
    ext x
    simp only [Set.mem_preimage, Set.mem_singleton_iff]
    constructor
    · intro e; rw [← e, glue_split]
    · intro e; rw [e, split_glue]
  rw [Measure.map_apply (measurable_split i) (measurableSet_singleton _), hpre, wMeasure_singleton,
    Measure.compProd_apply (measurableSet_singleton _),
    lintegral_map (measurable_of_countable _) (measurable_rest i), lintegral_wMeasure,
    sum_split i]
  have : ∀ (c' : Rest α i) (a : α i),
      (π (glue i (c', a)) : ℝ≥0∞) * wKernel (condWeights π i) (rest i (glue i (c', a)))
          (Prod.mk (rest i (glue i (c', a))) ⁻¹' {(c, b)})
        = if c' = c then (π (glue i (c, a)) : ℝ≥0∞) * condWeights π i c b else 0 := by
    intro c' a
    rw [rest_glue]
    by_cases h : c' = c
    · subst h
      have : Prod.mk c' ⁻¹' {(c', b)} = {b} := by
        ext b'; simp
      rw [this, wKernel_singleton, if_pos rfl]
    · have : Prod.mk c' ⁻¹' {(c, b)} = (∅ : Set (α i)) := by
        ext b'; simp [h]
      rw [this, measure_empty, if_neg h, mul_zero]
  simp only [this]
  rw [Finset.sum_eq_single c (fun c' _ h => by simp [h]) (fun h => absurd (Finset.mem_univ c) h)]
  simp only [if_true]
  rw [← Finset.sum_mul, ← fibre_mul_cond π i c b, fibreWeight]
  push_cast
  rfl

lemma condInvariantK_of_condInvariant (π : (∀ j, α j) → ℝ≥0) (i : ι)
    (k : (∀ j, α j) → α i → α i → ℝ≥0) (hk : CondInvariant π i k) :
    CondInvariantK (wMeasure π) i (wKernel (condWeights π i)) (wKernel (drawWeights i k)) := by
  refine Filter.Eventually.of_forall fun c => ?_
  rw [Kernel.Invariant]
  refine Measure.ext_of_singleton fun b => ?_
  rw [Measure.bind_apply (measurableSet_singleton b) (Kernel.aemeasurable _), wKernel_apply,
    lintegral_wMeasure, wMeasure_singleton]
  simp only [Kernel.comap_apply, wKernel_singleton]
  have h := hk (glue i (c, b)) b
  simp only [update_glue] at h
  have e : ∀ a, drawWeights i k (glue i (c, a)) b = k (glue i (c, b)) a b := by
    intro a
    simp [drawWeights, update_glue]
  simp only [e]
  simp only [← ENNReal.coe_mul]
  rw [← ENNReal.ofNNReal_finsetSum, ENNReal.coe_inj]
  unfold condWeights
  simp only [div_mul_eq_mul_div]
  rw [← Finset.sum_div, h]

lemma glue_rest (i : ι) (x : ∀ j, α j) (b : α i) : glue i (rest i x, b) = Function.update x i b := by
  have := update_glue i (rest i x) (x i) b
  rw [← this]
  congr 1
  exact glue_split i x

lemma condWeights_rest (π : (∀ j, α j) → ℝ≥0) (i : ι) (x : ∀ j, α j) (b : α i) :
    condWeights π i (rest i x) b = π (Function.update x i b) / ∑ a, π (Function.update x i a) := by
  simp only [condWeights, fibreWeight, glue_rest]

lemma isMarkov_condWeights (π : (∀ j, α j) → ℝ≥0) (i : ι)
    (hpos : ∀ c, fibreWeight π i c ≠ 0) : IsMarkovKernel (wKernel (condWeights π i)) := by
  refine ⟨fun c => ⟨?_⟩⟩
  rw [wKernel_apply, wMeasure_apply]
  simp only [Set.indicator_univ, Pi.one_apply, mul_one]
  rw [← ENNReal.ofNNReal_finsetSum, ENNReal.coe_eq_one]
  simp only [condWeights]
  rw [← Finset.sum_div]
  exact div_self (hpos c)

end finconv

/-! ## data of the end-to-end example (two correlated bits, seeds in `Fin 3`) -/

section cex

/-- the weights of the example: two correlated bits -/
def cexW : (Fin 2 → Bool) → ℝ≥0 := fun x => if x 0 = x 1 then 2 else 1

/-- exact sampler with a uniform seed in `Fin 3`: the other block's value with probability 2/3 -/
def cexΨ : Fin 2 → Fin 3 → List (Fin 2 × Bool) → Bool → Bool :=
  fun _ u tgt _ => if u = 0 then !((tgt.map (·.2)).headD false) else (tgt.map (·.2)).headD false

lemma cex_hex (n : Fin 2) (x : Fin 2 → Bool) :
    (wMeasure (fun _ : Fin 3 => (1 / 3 : ℝ≥0))).map (fun u => rdraw cexΨ [0, 1] n (u, x))
      = wKernel (condWeights cexW n) (rest (α := fun _ => Bool) n x) := by
  refine Measure.ext_of_singleton fun b => ?_
  rw [Measure.map_apply (measurable_of_countable _) (measurableSet_singleton b), wMeasure_apply,
    wKernel_singleton, condWeights_rest, Fin.sum_univ_three, Fintype.sum_bool]
  fin_cases n <;> cases h0 : x 0 <;> cases h1 : x 1 <;> cases b <;>
    simp [rdraw, cexΨ, others, cexW, Function.update, h0, h1]
  all_goals (try norm_num)
  all_goals rw [div_eq_mul_inv, two_mul]

instance : IsProbabilityMeasure (wMeasure (fun _ : Fin 3 => (1 / 3 : ℝ≥0))) := by
  refine ⟨?_⟩
  rw [wMeasure_apply, Fin.sum_univ_three]
  simp only [Set.indicator_univ, Pi.one_apply, mul_one]
  rw [← ENNReal.coe_add, ← ENNReal.coe_add, ENNReal.coe_eq_one]
  norm_num

lemma cex_fibre_pos (n : Fin 2) (c : Rest (fun _ : Fin 2 => Bool) n) :
    fibreWeight cexW n c ≠ 0 := by
  have hpos : ∀ x, (0 : ℝ≥0) < cexW x := by intro x; simp only [cexW]; split <;> norm_num
  exact (Finset.sum_pos (fun a _ => hpos _) Finset.univ_nonempty).ne'

end cex

end CuqiVerif.C09
