import CuqiVerif.Model.C06_factor
import CuqiVerif.Proofs.C06_factor
import Mathlib.Algebra.Order.Field.Basic
import Mathlib.Tactic.FieldSimp
import Mathlib.Tactic.Ring
import Mathlib.Tactic.Linarith

/-!
# C06 — the Cholesky recursion of `Model/C06_factor.lean` is correct (helpers for `Props/C06_chol.lean`)
-/
open Finset

set_option linter.unusedSectionVars false
set_option linter.unusedVariables false

namespace CuqiVerif.C06

section
variable {F : Type} [Field F] [LinearOrder F] [IsStrictOrderedRing F]

/-- the invariant of `cholRows` after `i` rows: shape, upper-triangular, positive diagonal, and
    `Σ_{l ≤ k} U l k · U l j = P k j` for every finished row `k` and column `k ≤ j < n` -/
structure CholInv (n : ℕ) (P : Mat F) (i : ℕ) (rows : Array (Array F)) : Prop where
  size : rows.size = i
  upper : ∀ k j, k < i → j < k → ofRows rows k j = 0
  pos : ∀ k, k < i → 0 < ofRows rows k k
  part : ∀ k j, k < i → k ≤ j → j < n →
    sumTo (k + 1) (fun l => ofRows rows l k * ofRows rows l j) = P k j

lemma ofRows_push_lt (rows : Array (Array F)) (row : Array F) (k j : ℕ) (hk : k < rows.size) :
    ofRows (rows.push row) k j = ofRows rows k j := by
  unfold ofRows
  rw [Array.getElem?_push_lt hk]
  simp [Array.getElem?_eq_getElem hk]

lemma ofRows_push_eq (rows : Array (Array F)) (row : Array F) (j : ℕ) :
    ofRows (rows.push row) rows.size j = ofArr row j := by
  unfold ofRows ofArr
  rw [Array.getElem?_push_size]

/-- the row `cholRows` appends -/
def cholRowFn (P U : Mat F) (i : ℕ) (u : F) : Vec F := fun j =>
  if j < i then 0 else if j = i then u else (P i j - sumTo i fun k => U k i * U k j) / u

lemma rootChecked_pos (rt : F → Option F) (d u : F) (hd : 0 < d) (h : rootChecked rt d = some u) :
    u * u = d ∧ 0 < u := by
  have hsq := rootChecked_spec rt d u h
  refine ⟨hsq, ?_⟩
  unfold rootChecked at h
  split at h
  · split at h
    · rename_i hc
      cases h
      have hge : 0 ≤ u := not_lt.mp hc.2
      rcases hge.lt_or_eq with h1 | h1
      · exact h1
      · rw [← h1, mul_zero] at hsq; exact absurd hsq.symm (ne_of_gt hd)
    · cases h
  · cases h

/-- one more row keeps the invariant -/
lemma cholInv_step (n : ℕ) (P : Mat F) (i : ℕ) (hi : i < n) (rows : Array (Array F)) (u : F)
    (inv : CholInv n P i rows)
    (hu : u * u = P i i - sumTo i (fun k => ofRows rows k i * ofRows rows k i)) (hpos : 0 < u) :
    CholInv n P (i + 1) (rows.push (tabArr n (cholRowFn P (ofRows rows) i u))) := by
  have hsz := inv.size
  have hlt : ∀ k j, k < i → ofRows (rows.push (tabArr n (cholRowFn P (ofRows rows) i u))) k j = ofRows rows k j :=
    fun k j hk => ofRows_push_lt _ _ k j (hsz ▸ hk)
  have heq : ∀ j, j < n → ofRows (rows.push (tabArr n (cholRowFn P (ofRows rows) i u))) i j
      = cholRowFn P (ofRows rows) i u j := by
    intro j hj
    have := ofRows_push_eq rows (tabArr n (cholRowFn P (ofRows rows) i u)) j
    rw [hsz] at this
    rw [this, ofArr_tabArr n _ j hj]
  refine ⟨by rw [Array.size_push, hsz], ?_, ?_, ?_⟩
  · intro k j hk hjk
    rcases Nat.lt_succ_iff_lt_or_eq.mp hk with hk' | rfl
    · rw [hlt k j hk']; exact inv.upper k j hk' hjk
    · rw [heq j (by omega)]; simp [cholRowFn, hjk]
  · intro k hk
    rcases Nat.lt_succ_iff_lt_or_eq.mp hk with hk' | rfl
    · rw [hlt k k hk']; exact inv.pos k hk'
    · rw [heq k hi]; simpa [cholRowFn] using hpos
  · intro k j hk hkj hj
    rcases Nat.lt_succ_iff_lt_or_eq.mp hk with hk' | rfl
    · rw [← inv.part k j hk' hkj hj]
      refine sumTo_congr _ _ _ fun l hl => ?_
      rw [hlt l k (by omega), hlt l j (by omega)]
    · simp only [sumTo]
      have hs : sumTo k (fun l => ofRows (rows.push (tabArr n (cholRowFn P (ofRows rows) k u))) l k
            * ofRows (rows.push (tabArr n (cholRowFn P (ofRows rows) k u))) l j)
          = sumTo k (fun l => ofRows rows l k * ofRows rows l j) :=
        sumTo_congr _ _ _ fun l hl => by rw [hlt l k hl, hlt l j hl]
      rw [hs, heq k hi, heq j hj]
      have hune : u ≠ 0 := ne_of_gt hpos
      rcases Nat.eq_or_lt_of_le hkj with rfl | hlt'
      · simp only [cholRowFn, lt_irrefl, if_false, if_true]
        rw [hu]; ring
      · have h1 : ¬ j < k := by omega
        have h2 : ¬ j = k := by omega
        simp only [cholRowFn, lt_irrefl, if_false, if_true, h1, h2]
        field_simp
        ring

/-- `cholRows` started from an invariant state ends in one (when it delivers rows) -/
lemma cholRows_inv (rt : F → Option F) (n : ℕ) (P : Mat F) :
    ∀ fuel i rows out, i + fuel = n → CholInv n P i rows →
      cholRows rt n P fuel i rows = some (some out) → CholInv n P n out := by
  intro fuel
  induction fuel with
  | zero =>
    intro i rows out hn inv h
    simp only [cholRows, Option.some.injEq] at h
    subst h
    have : i = n := by omega
    exact this ▸ inv
  | succ fuel ih =>
    intro i rows out hn inv h
    simp only [cholRows] at h
    split at h
    · cases h
    · rename_i hd
      have hd' : 0 < P i i - sumTo i (fun k => ofRows rows k i * ofRows rows k i) := not_not.mp hd
      split at h
      · cases h
      · rename_i u hu
        obtain ⟨hsq, hpos⟩ := rootChecked_pos rt _ u hd' hu
        exact ih (i + 1) _ out (by omega)
          (cholInv_step n P i (by omega) rows u inv hsq hpos) h

lemma cholInv_empty (n : ℕ) (P : Mat F) : CholInv n P 0 (#[] : Array (Array F)) :=
  ⟨rfl, fun _ _ hk => absurd hk (Nat.not_lt_zero _), fun _ hk => absurd hk (Nat.not_lt_zero _),
    fun _ _ hk => absurd hk (Nat.not_lt_zero _)⟩

/-- from the invariant at `n` (and symmetry of `P`) to `UᵀU = P` on the block -/
lemma cholInv_gram (n : ℕ) (P : Mat F) (rows : Array (Array F)) (inv : CholInv n P n rows)
    (hsym : ∀ a b, a < n → b < n → P a b = P b a) :
    ∀ a b, a < n → b < n → gram n (ofRows rows) a b = P a b := by
  have key : ∀ a b, a ≤ b → b < n → gram n (ofRows rows) a b = P a b := by
    intro a b hab hb
    unfold gram
    have hn : n = (a + 1) + (n - (a + 1)) := by omega
    rw [hn, sumTo_add, inv.part a b (by omega) hab hb]
    have : sumTo (n - (a + 1)) (fun l => ofRows rows (a + 1 + l) a * ofRows rows (a + 1 + l) b) = 0 := by
      rw [← sumTo_zero (n - (a + 1))]
      refine sumTo_congr _ _ _ fun l hl => ?_
      rw [inv.upper (a + 1 + l) a (by omega) (by omega), zero_mul]
    rw [this, add_zero]
  intro a b ha hb
  rcases le_total a b with h | h
  · exact key a b h hb
  · have : gram n (ofRows rows) a b = gram n (ofRows rows) b a := by
      unfold gram; exact sumTo_congr _ _ _ fun l _ => mul_comm _ _
    rw [this, key b a h ha, hsym b a hb ha]

end
end CuqiVerif.C06
