import CuqiVerif.Props.C07
import CuqiVerif.Props.C13_dst
import Mathlib.Algebra.BigOperators.Group.Finset.Basic
import Mathlib.Algebra.BigOperators.Group.Finset.Piecewise
import Mathlib.Algebra.BigOperators.Ring.Finset
import Mathlib.Algebra.BigOperators.Field
import Mathlib.Algebra.Field.Basic
import Mathlib.Analysis.SpecialFunctions.Pow.Real
import Mathlib.Tactic.FieldSimp
import Mathlib.Tactic.Ring
import Mathlib.Tactic.Linarith
import Mathlib.Tactic.NormNum
import Mathlib.Tactic.Positivity

/-!
# C07 (expansions) — definitions and helper lemmas

* weighted-orthogonal geometries (`fun2par = diag(w) · par2funᵀ`), the "core" triple sum and the
  transposed matrix `E_Dᵀ Aᵀ F_Rᵀ`;
* the step expansion for an arbitrary node→step membership (`Geom.stepOf`; the executable
  `Geom.step n s` of `Model/C07.lean` is its instance at `inStep n s`, by `rfl`);
* the KL expansion as explicit real matrices (`klE`, `klF`) built from scipy's DST sums of
  `Props/C13_dst.lean`;
* the products the driver evaluates for `M.T`.
-/
open Finset

set_option linter.unusedSectionVars false
set_option linter.unusedVariables false

namespace CuqiVerif.C07

/-! ## shapes, weights, the core sum -/

section ring
variable {R : Type} [CommRing R]

/-- the two matrices of a geometry have the shapes `funDim × parDim` and `parDim × funDim` -/
structure Geom.Shaped (g : Geom R) : Prop where
  E_rows : g.E.rows = g.funDim
  E_cols : g.E.cols = g.parDim
  F_rows : g.F.rows = g.parDim
  F_cols : g.F.cols = g.funDim

/-- `fun2par = diag(w) · par2funᵀ`, i.e. `Fᵀ = E · diag(w)` -/
def Geom.Weighted (g : Geom R) (w : ℕ → R) : Prop :=
  ∀ p q, p < g.parDim → q < g.funDim → g.F.e p q = w p * g.E.e q p

/-- every column of `par2fun` has an entry that is not zero (no parameter is ignored) -/
def Geom.EColsNonzero (g : Geom R) : Prop :=
  ∀ p, p < g.parDim → ∃ q, q < g.funDim ∧ g.E.e q p ≠ 0

lemma orthogonal_iff_weighted_one (g : Geom R) : g.Orthogonal ↔ g.Weighted (fun _ => 1) := by
  simp [Geom.Orthogonal, Geom.Weighted]

lemma wellShaped_ofMatrix (A : LMat R) (D Rg : Geom R) (hD : D.Shaped) (hR : Rg.Shaped)
    (hr : A.rows = Rg.funDim) (hc : A.cols = D.funDim) : (LinModel.ofMatrix A D Rg).WellShaped where
  domE_rows := hD.E_rows
  domE_cols := hD.E_cols
  domF_rows := hD.F_rows
  domF_cols := hD.F_cols
  rngE_rows := hR.E_rows
  rngE_cols := hR.E_cols
  rngF_rows := hR.F_rows
  rngF_cols := hR.F_cols
  A_rows := hr
  A_cols := hc
  B_rows := hc
  B_cols := hr

lemma WellShaped.dom_shaped {M : LinModel R} (hs : M.WellShaped) : M.dom.Shaped :=
  ⟨hs.domE_rows, hs.domE_cols, hs.domF_rows, hs.domF_cols⟩

lemma WellShaped.rng_shaped {M : LinModel R} (hs : M.WellShaped) : M.rng.Shaped :=
  ⟨hs.rngE_rows, hs.rngE_cols, hs.rngF_rows, hs.rngF_cols⟩

lemma ident_shaped (n : ℕ) : (Geom.ident n : Geom R).Shaped := by constructor <;> rfl

lemma image_shaped (r c : ℕ) (o sq : Bool) : (Geom.image r c o sq : Geom R).Shaped := by
  constructor <;> rfl

/-- `Σ_b Σ_a E_R[b,i] · A[b,a] · E_D[a,j]` — the matrix `E_Rᵀ A E_D` -/
def LinModel.core (M : LinModel R) (i j : ℕ) : R :=
  ∑ b ∈ range M.rng.funDim, ∑ a ∈ range M.dom.funDim, M.rng.E.e b i * M.A.e b a * M.dom.E.e a j

lemma fwdMat_weighted (M : LinModel R) (hs : M.WellShaped) (wR : ℕ → R) (hR : M.rng.Weighted wR)
    (i j : ℕ) (hi : i < M.rng.parDim) : M.fwdMat.e i j = wR i * M.core i j := by
  rw [fwdMat_e, hs.rngF_cols, hs.A_cols, LinModel.core, Finset.mul_sum]
  refine sum_congr rfl fun b hb => ?_
  rw [Finset.mul_sum]
  refine sum_congr rfl fun a _ => ?_
  rw [hR i b hi (mem_range.mp hb)]; ring

lemma adjMat_weighted (M : LinModel R) (hs : M.WellShaped) (wD : ℕ → R) (hD : M.dom.Weighted wD)
    (hB : ∀ a b, a < M.dom.funDim → b < M.rng.funDim → M.B.e a b = M.A.e b a)
    (i j : ℕ) (hj : j < M.dom.parDim) : M.adjMat.e j i = wD j * M.core i j := by
  rw [adjMat_e, hs.domF_cols, hs.B_cols, LinModel.core, Finset.sum_comm, Finset.mul_sum]
  refine sum_congr rfl fun b hb => ?_
  rw [Finset.mul_sum]
  refine sum_congr rfl fun a ha => ?_
  rw [hD j a hj (mem_range.mp ha), hB a b (mem_range.mp ha) (mem_range.mp hb)]; ring

/-- the transposed forward matrix as the product `E_Dᵀ · Aᵀ · F_Rᵀ` -/
def LinModel.trueAdjMat (M : LinModel R) : LMat R :=
  M.dom.E.transpose.mul (M.A.transpose.mul M.rng.F.transpose)

lemma trueAdjMat_e (M : LinModel R) (hs : M.WellShaped) (i j : ℕ) :
    M.trueAdjMat.e j i = M.fwdMat.e i j := by
  rw [fwdMat_e]
  simp only [LinModel.trueAdjMat, mul_e, transpose_cols, transpose_e, Finset.mul_sum]
  rw [hs.domE_rows, hs.A_rows, hs.rngF_cols, hs.A_cols, Finset.sum_comm]
  exact sum_congr rfl fun b _ => sum_congr rfl fun a _ => by ring

/-- a matrix with a single entry `1` at `(b, a)` -/
def LMat.single (r c b a : ℕ) : LMat R where
  rows := r
  cols := c
  e := fun i j => if i = b ∧ j = a then 1 else 0

lemma core_single (D Rg : Geom R) (b a i j : ℕ) (hb : b < Rg.funDim) (ha : a < D.funDim) :
    (LinModel.ofMatrix (LMat.single Rg.funDim D.funDim b a) D Rg).core i j = Rg.E.e b i * D.E.e a j := by
  unfold LinModel.core
  simp only [LinModel.ofMatrix, LMat.single]
  rw [Finset.sum_eq_single b, Finset.sum_eq_single a]
  · simp
  · intro a' _ hne; simp [hne]
  · intro h; exact absurd (mem_range.mpr ha) h
  · intro b' _ hne
    exact Finset.sum_eq_zero fun a' _ => by simp [hne]
  · intro h; exact absurd (mem_range.mpr hb) h

lemma apply_smul_vec (A : LMat R) (w y : ℕ → R) (c : R) (j : ℕ) :
    c * A.apply (fun i => w i * y i) j = (⟨A.rows, A.cols, fun j i => c * A.e j i * w i⟩ : LMat R).apply y j := by
  simp only [apply_eq, Finset.mul_sum]
  exact sum_congr rfl fun i _ => by ring

lemma ident_ecols (n : ℕ) [Nontrivial R] : (Geom.ident n : Geom R).EColsNonzero := by
  intro p hp
  exact ⟨p, hp, by simp [Geom.ident, LMat.identity]⟩

lemma imagePos_lt (r c : ℕ) (o : Bool) (p : ℕ) (hp : p < r * c) : imagePos r c o p < r * c := by
  unfold imagePos
  split_ifs
  · have hr : 0 < r := by
      rcases Nat.eq_zero_or_pos r with h | h
      · subst h; simp at hp
      · exact h
    have h1 : p % r < r := Nat.mod_lt _ hr
    have h2 : p / r < c := Nat.div_lt_of_lt_mul hp
    have h3 : (p % r + 1) * c ≤ r * c := Nat.mul_le_mul_right c h1
    nlinarith
  · exact hp

lemma image_ecols (r c : ℕ) (o sq : Bool) [Nontrivial R] : (Geom.image r c o sq : Geom R).EColsNonzero := by
  intro p hp
  exact ⟨imagePos r c o p, imagePos_lt r c o p hp, by simp [Geom.image]⟩

end ring

/-! ## the weighted adjoint criterion over a field -/

section field
variable {K : Type} [Field K]

lemma weighted_adjoint_forward (D Rg : Geom K) (hDs : D.Shaped) (hRs : Rg.Shaped)
    (wD wR : ℕ → K) (hD : D.Weighted wD) (hR : Rg.Weighted wR)
    (h : ∀ A : LMat K, A.rows = Rg.funDim → A.cols = D.funDim → ∀ x y : ℕ → K,
      ip Rg.parDim ((LinModel.ofMatrix A D Rg).fwdPar x) y = ip D.parDim x ((LinModel.ofMatrix A D Rg).adjPar y))
    (i : ℕ) (hi : i < Rg.parDim) (j : ℕ) (hj : j < D.parDim) (b : ℕ) (hb : b < Rg.funDim)
    (a : ℕ) (ha : a < D.funDim) (hEb : Rg.E.e b i ≠ 0) (hEa : D.E.e a j ≠ 0) : wR i = wD j := by
  set M := LinModel.ofMatrix (LMat.single Rg.funDim D.funDim b a) D Rg with hM
  have hs : M.WellShaped := wellShaped_ofMatrix _ D Rg hDs hRs rfl rfl
  have h1 := (adjoint_iff M hs).mp (h _ rfl rfl) i hi j hj
  rw [fwdMat_weighted M hs wR hR i j hi,
    adjMat_weighted M hs wD hD (fun _ _ _ _ => rfl) i j hj, hM, core_single D Rg b a i j hb ha] at h1
  have hne : Rg.E.e b i * D.E.e a j ≠ 0 := mul_ne_zero hEb hEa
  exact (mul_right_cancel₀ hne h1).symm

lemma weighted_adjoint_backward (M : LinModel K) (hs : M.WellShaped)
    (wD wR : ℕ → K) (hD : M.dom.Weighted wD) (hR : M.rng.Weighted wR)
    (hB : ∀ a b, a < M.dom.funDim → b < M.rng.funDim → M.B.e a b = M.A.e b a)
    (h : ∀ i, i < M.rng.parDim → ∀ j, j < M.dom.parDim → ∀ b, b < M.rng.funDim → ∀ a, a < M.dom.funDim →
      M.rng.E.e b i ≠ 0 → M.dom.E.e a j ≠ 0 → wR i = wD j)
    (i : ℕ) (hi : i < M.rng.parDim) (j : ℕ) (hj : j < M.dom.parDim) : M.adjMat.e j i = M.fwdMat.e i j := by
  rw [fwdMat_weighted M hs wR hR i j hi, adjMat_weighted M hs wD hD hB i j hj]
  unfold LinModel.core
  rw [Finset.mul_sum, Finset.mul_sum]
  refine sum_congr rfl fun b hb => ?_
  rw [Finset.mul_sum, Finset.mul_sum]
  refine sum_congr rfl fun a ha => ?_
  by_cases h1 : M.rng.E.e b i = 0
  · simp [h1]
  by_cases h2 : M.dom.E.e a j = 0
  · simp [h2]
  rw [h i hi j hj b (mem_range.mp hb) a (mem_range.mp ha) h1 h2]

end field

/-! ## step expansion for an arbitrary membership relation -/

/-- number of grid nodes `k < n` with `mem i k` (size of step `i`) -/
def memCount (n : ℕ) (mem : ℕ → ℕ → Bool) (i : ℕ) : ℕ := sumTo n (fun k => if mem i k then 1 else 0)

/-- `StepExpansion` with the mean projection for an arbitrary node/step membership `mem i k`
    ("node `k` belongs to step `i`"); `Geom.step n s` is the instance `mem = inStep n s`. -/
def Geom.stepOf {R : Type} [Zero R] [One R] [Add R] [Mul R] [Div R] [NatCast R]
    (n s : ℕ) (mem : ℕ → ℕ → Bool) : Geom R where
  parDim := s
  funDim := n
  E := { rows := n, cols := s, e := fun k i => if mem i k then 1 else 0 }
  F := { rows := s, cols := n, e := fun i k => if mem i k then 1 / (memCount n mem i : R) else 0 }
  reshapeLike := false
  squeezes := true

section step
variable {K : Type} [Field K]

lemma step_eq_stepOf (n s : ℕ) : (Geom.step n s : Geom K) = Geom.stepOf n s (inStep n s) := rfl

lemma stepCount_eq_memCount (n s i : ℕ) : stepCount n s i = memCount n (inStep n s) i := rfl

lemma stepOf_shaped (n s : ℕ) (mem : ℕ → ℕ → Bool) : (Geom.stepOf n s mem : Geom K).Shaped := by
  constructor <;> rfl

lemma memCount_eq_card (n : ℕ) (mem : ℕ → ℕ → Bool) (i : ℕ) :
    memCount n mem i = ((range n).filter (fun k => mem i k = true)).card := by
  unfold memCount
  rw [sumTo_nat_eq, Finset.card_filter]

lemma memCount_pos_iff (n : ℕ) (mem : ℕ → ℕ → Bool) (i : ℕ) :
    0 < memCount n mem i ↔ ∃ k, k < n ∧ mem i k = true := by
  rw [memCount_eq_card, Finset.card_pos]
  constructor
  · rintro ⟨k, hk⟩
    rw [Finset.mem_filter, mem_range] at hk
    exact ⟨k, hk⟩
  · rintro ⟨k, hk⟩
    exact ⟨k, by rw [Finset.mem_filter, mem_range]; exact hk⟩

lemma stepOf_weighted (n s : ℕ) (mem : ℕ → ℕ → Bool) :
    (Geom.stepOf n s mem : Geom K).Weighted (fun i => 1 / (memCount n mem i : K)) := by
  intro p q _ _
  simp only [Geom.stepOf]
  split_ifs <;> simp

lemma stepOf_E_ne_zero (n s : ℕ) (mem : ℕ → ℕ → Bool) (k i : ℕ) :
    (Geom.stepOf n s mem : Geom K).E.e k i ≠ 0 ↔ mem i k = true := by
  simp only [Geom.stepOf]
  split_ifs with h <;> simp [h]

lemma one_div_cast_eq_iff [CharZero K] (a b : ℕ) : (1 / (a : K) = 1 / (b : K)) ↔ a = b := by
  rw [one_div, one_div, inv_inj, Nat.cast_inj]

end step

/-! ## the regular grid: every node lies in some step -/

lemma inStep_exists (n s k : ℕ) (hs : 0 < s) (hk : k < n) : ∃ i, i < s ∧ inStep n s i k = true := by
  by_cases h : k * s ≤ n - 1
  · exact ⟨0, hs, by simp [inStep, h]⟩
  · have h' : n - 1 < k * s := by omega
    have hn1 : 0 < n - 1 := by
      by_contra h0
      have hn : n = 1 := by omega
      subst hn
      have hk0 : k = 0 := by omega
      subst hk0
      simp at h'
    obtain ⟨q, hq⟩ : ∃ q, q = (k * s - 1) / (n - 1) := ⟨_, rfl⟩
    have hq1 : q * (n - 1) ≤ k * s - 1 := by rw [hq]; exact Nat.div_mul_le_self _ _
    have hq2 : k * s - 1 < q * (n - 1) + (n - 1) := by rw [hq]; exact Nat.lt_div_mul_add hn1
    have hq0 : q ≠ 0 := by
      intro h0; rw [h0] at hq2; omega
    have hks : k * s ≤ (n - 1) * s := Nat.mul_le_mul_right s (by omega)
    have hqs : q < s := by
      by_contra hge
      have : s * (n - 1) ≤ q * (n - 1) := Nat.mul_le_mul_right _ (by omega)
      have e : (n - 1) * s = s * (n - 1) := Nat.mul_comm _ _
      omega
    refine ⟨q, hqs, ?_⟩
    unfold inStep
    rw [if_neg hq0]
    simp only [Bool.and_eq_true, decide_eq_true_eq]
    have e2 : (q + 1) * (n - 1) = q * (n - 1) + (n - 1) := by ring
    constructor <;> omega

lemma n_le_sum_stepCount (n s : ℕ) (hs : 0 < s) : n ≤ ∑ i ∈ range s, stepCount n s i := by
  have h1 : ∀ i, stepCount n s i = ∑ k ∈ range n, if inStep n s i k = true then 1 else 0 := by
    intro i; unfold stepCount; rw [sumTo_nat_eq]
  simp only [h1]
  rw [Finset.sum_comm]
  calc n = ∑ k ∈ range n, 1 := by simp
    _ ≤ _ := by
      refine Finset.sum_le_sum fun k hk => ?_
      obtain ⟨i, hi, hik⟩ := inStep_exists n s k hs (mem_range.mp hk)
      calc 1 = (if inStep n s i k = true then 1 else 0) := by simp [hik]
        _ ≤ _ := Finset.single_le_sum (f := fun i => if inStep n s i k = true then 1 else 0)
            (fun _ _ => Nat.zero_le _) (mem_range.mpr hi)


/-! ## the products the driver evaluates for `M.T` -/

section tdriver
variable {R : Type} [CommRing R]

/-- the driver's expression for the matrix of `M.T.forward` (`Driver/C07.lean`, `tf`) -/
def LinModel.tFwdDriver (M : LinModel R) : LMat R :=
  (M.dom.reFMat.mul (LMat.mul3Forced M.dom.F M.B (M.rng.reEMat.mul M.rng.E).force)).force

/-- the driver's expression for the matrix of `M.T.adjoint` (`Driver/C07.lean`, `ta`) -/
def LinModel.tAdjDriver (M : LinModel R) : LMat R :=
  (M.rng.reFMat.mul (LMat.mul3Forced M.rng.F M.A (M.dom.reEMat.mul M.dom.E).force)).force

lemma reFMat_rows (g : Geom R) (h : g.Shaped) : g.reFMat.rows = g.parDim := by
  unfold Geom.reFMat; split_ifs
  · rfl
  · exact h.F_rows

lemma reFMat_cols (g : Geom R) (h : g.Shaped) (hok : g.reOk = true) : g.reFMat.cols = g.parDim := by
  unfold Geom.reFMat; split_ifs with hr
  · rfl
  · rw [h.F_cols]
    simp only [Geom.reOk, hr, Bool.false_or, beq_iff_eq] at hok
    exact hok.symm

lemma reEMat_rows (g : Geom R) (h : g.Shaped) : g.reEMat.rows = g.funDim := by
  unfold Geom.reEMat; split_ifs
  · rfl
  · exact h.E_rows

/-- generic form of both driver products: `(P · force(X · force(Y · force(Q · Z))))` tabulated has the
    entries of `P · (X · (Y · (Q · Z)))` -/
lemma driver_prod_e (P X Y Q Z : LMat R) (hPX : P.cols = X.rows) (hXY : X.cols = Y.rows)
    (hYQ : Y.cols = Q.rows) (i j : ℕ) (hi : i < P.rows) (hj : j < Z.cols) :
    (P.mul (LMat.mul3Forced X Y (Q.mul Z).force)).force.e i j = (P.mul (X.mul (Y.mul (Q.mul Z)))).e i j := by
  rw [force_e_aux (P.mul (LMat.mul3Forced X Y (Q.mul Z).force)) i j hi hj, mul_e, mul_e]
  refine sum_congr rfl fun k hk => ?_
  have hk' : k < X.rows := by rw [← hPX]; exact mem_range.mp hk
  rw [mul3Forced_e X Y (Q.mul Z).force hXY k j hk' hj, mul_e, mul_e]
  refine congrArg _ (sum_congr rfl fun l _ => ?_)
  rw [mul_e, mul_e]
  refine congrArg _ (sum_congr rfl fun p hp => ?_)
  have hp' : p < (Q.mul Z).rows := by show p < Q.rows; rw [← hYQ]; exact mem_range.mp hp
  rw [force_e_aux (Q.mul Z) p j hp' hj]

lemma tFwdDriver_e (M : LinModel R) (hs : M.WellShaped) (hok : M.tOk = true) (j i : ℕ)
    (hj : j < M.dom.parDim) (hi : i < M.rng.parDim) : M.tFwdDriver.e j i = M.tFwdMat.e j i := by
  have hdo : M.dom.reOk = true := by
    simp only [LinModel.tOk, Bool.and_eq_true] at hok; exact hok.2
  unfold LinModel.tFwdDriver LinModel.tFwdMat
  refine driver_prod_e _ _ _ _ _ ?_ ?_ ?_ j i ?_ ?_
  · rw [reFMat_cols _ (WellShaped.dom_shaped hs) hdo, hs.domF_rows]
  · rw [hs.domF_cols, hs.B_rows]
  · rw [hs.B_cols, reEMat_rows _ (WellShaped.rng_shaped hs)]
  · rw [reFMat_rows _ (WellShaped.dom_shaped hs)]; exact hj
  · rw [hs.rngE_cols]; exact hi

lemma tAdjDriver_e (M : LinModel R) (hs : M.WellShaped) (hok : M.tOk = true) (i j : ℕ)
    (hi : i < M.rng.parDim) (hj : j < M.dom.parDim) : M.tAdjDriver.e i j = M.tAdjMat.e i j := by
  have hro : M.rng.reOk = true := by
    simp only [LinModel.tOk, Bool.and_eq_true] at hok; exact hok.1
  unfold LinModel.tAdjDriver LinModel.tAdjMat
  refine driver_prod_e _ _ _ _ _ ?_ ?_ ?_ i j ?_ ?_
  · rw [reFMat_cols _ (WellShaped.rng_shaped hs) hro, hs.rngF_rows]
  · rw [hs.rngF_cols, hs.A_rows]
  · rw [hs.A_cols, reEMat_rows _ (WellShaped.dom_shaped hs)]
  · rw [reFMat_rows _ (WellShaped.rng_shaped hs)]; exact hi
  · rw [hs.domE_cols]; exact hj

end tdriver

/-! ## the KL expansion as explicit real matrices -/

section kl
open Real

/-- the sine `sin(π (i+1)(2n+1) / (2N))` (mode `i` at node `n`) -/
noncomputable def klS (N n i : ℕ) : ℝ := Real.sin (π * ((i : ℝ) + 1) * (2 * (n : ℝ) + 1) / (2 * (N : ℝ)))

/-- the weight scipy's `idst` (type 2) gives to coefficient `i`: `1` for the last one, else `2` -/
noncomputable def klOmega (N i : ℕ) : ℝ := if i + 1 = N then 1 else 2

/-- matrix of `KLExpansion.par2fun` (`N × m`): `E[n,i] = (ω_i/2) · (c_i/τ) · sin(π(i+1)(2n+1)/(2N))` -/
noncomputable def klE (N m : ℕ) (c : ℕ → ℝ) (τ : ℝ) : LMat ℝ where
  rows := N
  cols := m
  e := fun n i => klOmega N i / 2 * (c i / τ) * klS N n i

/-- matrix of `KLExpansion.fun2par` (`m × N`): `F[i,n] = 2τ/(N c_i) · sin(π(i+1)(2n+1)/(2N))` -/
noncomputable def klF (N m : ℕ) (c : ℕ → ℝ) (τ : ℝ) : LMat ℝ where
  rows := m
  cols := N
  e := fun i n => 2 * τ / ((N : ℝ) * c i) * klS N n i

/-- the diagonal weight relating the two: `4τ² / (N ω_i c_i²)` -/
noncomputable def klW (N : ℕ) (c : ℕ → ℝ) (τ : ℝ) (i : ℕ) : ℝ := 4 * τ ^ 2 / ((N : ℝ) * klOmega N i * c i ^ 2)

/-- `KLExpansion(grid of N nodes, num_modes = m, coefficients c, normalizer τ)` as a `Geom ℝ` -/
noncomputable def Geom.kl (N m : ℕ) (c : ℕ → ℝ) (τ : ℝ) : Geom ℝ :=
  Geom.leaf m N (klE N m c τ) (klF N m c τ) true

lemma kl_shaped (N m : ℕ) (c : ℕ → ℝ) (τ : ℝ) : (Geom.kl N m c τ).Shaped := by constructor <;> rfl

lemma klOmega_ne_zero (N i : ℕ) : klOmega N i ≠ 0 := by unfold klOmega; split_ifs <;> norm_num

lemma klOmega_pos (N i : ℕ) : 0 < klOmega N i := by unfold klOmega; split_ifs <;> norm_num

lemma klOmega_le_two (N i : ℕ) : klOmega N i ≤ 2 := by unfold klOmega; split_ifs <;> norm_num

lemma filter_lt_range (N m : ℕ) (h : m ≤ N) : (range N).filter (fun j => j < m) = range m := by
  ext j; simp only [Finset.mem_filter, mem_range]; omega

lemma klE_apply (N m : ℕ) (hN : 0 < N) (hm : m ≤ N) (c : ℕ → ℝ) (τ : ℝ) (p : ℕ → ℝ) (n : ℕ) :
    (klE N m c τ).apply p n = C13.klPar2funR N m c τ p n := by
  rw [apply_eq]
  unfold C13.klPar2funR
  rw [C13.idstII_eq_sum N hN]
  have h : ∀ j ∈ range N, (if j + 1 = N then (1 : ℝ) else 2) * C13.klPreK c τ m p j *
        Real.sin ((2 * (n : ℝ) + 1) * (π * ((j + 1 : ℕ) : ℝ) / (2 * (N : ℝ)))) =
      if j < m then klOmega N j * (c j * p j / τ) * klS N n j else 0 := by
    intro j _
    unfold C13.klPreK klOmega klS
    rw [C13.dst_angle_eq]
    split_ifs <;> simp
  rw [sum_congr rfl h, ← Finset.sum_filter, filter_lt_range N m hm, Finset.sum_div]
  show ∑ j ∈ range m, (klE N m c τ).e n j * p j = _
  refine sum_congr rfl fun j _ => ?_
  simp only [klE]; ring

lemma klF_apply (N m : ℕ) (c : ℕ → ℝ) (τ : ℝ) (f : ℕ → ℝ) (i : ℕ) :
    (klF N m c τ).apply f i = C13.klFun2parR N c τ f i := by
  rw [apply_eq]
  unfold C13.klFun2parR C13.klPostK C13.dstII
  have key : ∀ S : ℝ, (c i)⁻¹ * (2 * S) * τ / (2 * (N : ℝ)) = τ / ((N : ℝ) * c i) * S := by
    intro S; ring
  rw [key, Finset.mul_sum]
  show ∑ n ∈ range N, (klF N m c τ).e i n * f n = _
  refine sum_congr rfl fun n _ => ?_
  simp only [klF, klS]; ring

lemma kl_weighted (N m : ℕ) (hN : N ≠ 0) (c : ℕ → ℝ) (τ : ℝ) (hτ : τ ≠ 0) (hc : ∀ i, i < m → c i ≠ 0) :
    (Geom.kl N m c τ).Weighted (klW N c τ) := by
  intro p q hp _
  have hp' : p < m := hp
  have h1 := hc p hp'
  have h2 := klOmega_ne_zero N p
  have h3 : (N : ℝ) ≠ 0 := by exact_mod_cast hN
  simp only [Geom.kl, Geom.leaf, klE, klF, klW]
  field_simp
  ring

lemma klS_col_ne_zero (N i : ℕ) (hi : i < N) : ∃ n, n < N ∧ klS N n i ≠ 0 := by
  by_contra h
  have h : ∀ n, n < N → klS N n i = 0 := fun n hn => by
    by_contra hne; exact h ⟨n, hn, hne⟩
  have h1 := C13.dst_sine_orthogonality N i i hi hi
  have hz : ∑ n ∈ range N, Real.sin (π * ((i : ℝ) + 1) * (2 * (n : ℝ) + 1) / (2 * (N : ℝ))) *
        Real.sin (π * ((i : ℝ) + 1) * (2 * (n : ℝ) + 1) / (2 * (N : ℝ))) = 0 := by
    refine Finset.sum_eq_zero fun n hn => ?_
    have := h n (mem_range.mp hn)
    unfold klS at this
    rw [this]; ring
  rw [hz, if_pos rfl] at h1
  have hN : (N : ℝ) ≠ 0 := by
    have : 0 < N := by omega
    exact_mod_cast this.ne'
  split_ifs at h1
  · exact hN h1.symm
  · have : (N : ℝ) / 2 ≠ 0 := div_ne_zero hN (by norm_num)
    exact this h1.symm

lemma kl_ecols (N m : ℕ) (hm : m ≤ N) (c : ℕ → ℝ) (τ : ℝ) (hτ : τ ≠ 0) (hc : ∀ i, i < m → c i ≠ 0) :
    (Geom.kl N m c τ).EColsNonzero := by
  intro p hp
  have hp' : p < m := hp
  obtain ⟨n, hn, hne⟩ := klS_col_ne_zero N p (by omega)
  refine ⟨n, hn, ?_⟩
  simp only [Geom.kl, Geom.leaf, klE]
  exact mul_ne_zero (mul_ne_zero (div_ne_zero (klOmega_ne_zero N p) (by norm_num))
    (div_ne_zero (hc p hp') hτ)) hne

/-- the weights of modes 0 and 1 differ as soon as the coefficients decay -/
lemma klW_zero_ne_one (N : ℕ) (hN : 2 ≤ N) (c : ℕ → ℝ) (τ : ℝ) (hτ : τ ≠ 0) (h1 : 0 < c 1) (h01 : c 1 < c 0) :
    klW N c τ 0 ≠ klW N c τ 1 := by
  have hNr : (2 : ℝ) ≤ (N : ℝ) := by exact_mod_cast hN
  have hN0 : (0 : ℝ) < (N : ℝ) := by linarith
  have hw0 : klOmega N 0 = 2 := by
    unfold klOmega; rw [if_neg]; omega
  have hw1 := klOmega_pos N 1
  have hw1' := klOmega_le_two N 1
  have hc0 : 0 < c 0 := by linarith
  unfold klW
  rw [hw0]
  intro h
  have hd0 : (N : ℝ) * 2 * c 0 ^ 2 ≠ 0 := by positivity
  have hd1 : (N : ℝ) * klOmega N 1 * c 1 ^ 2 ≠ 0 := by positivity
  rw [div_eq_div_iff hd0 hd1] at h
  have hτ2 : 0 < τ ^ 2 := by positivity
  have h4 : (N : ℝ) * klOmega N 1 * c 1 ^ 2 = (N : ℝ) * 2 * c 0 ^ 2 := by
    have : 4 * τ ^ 2 * ((N : ℝ) * klOmega N 1 * c 1 ^ 2) = 4 * τ ^ 2 * ((N : ℝ) * 2 * c 0 ^ 2) := h
    exact mul_left_cancel₀ (by positivity) this
  have hsq : c 1 ^ 2 < c 0 ^ 2 := by nlinarith
  have : (N : ℝ) * klOmega N 1 * c 1 ^ 2 ≤ (N : ℝ) * 2 * c 1 ^ 2 := by
    have : klOmega N 1 * c 1 ^ 2 ≤ 2 * c 1 ^ 2 := by nlinarith [sq_nonneg (c 1)]
    nlinarith
  nlinarith

/-- the shipped coefficients `1/(i+1)^γ` (`np.float_power(eigvals, decay_rate)`), real decay rate -/
noncomputable def klCoefR (γ : ℝ) (i : ℕ) : ℝ := 1 / ((i : ℝ) + 1) ^ γ

lemma klCoefR_pos (γ : ℝ) (i : ℕ) : 0 < klCoefR γ i := by
  unfold klCoefR
  have : (0 : ℝ) < (i : ℝ) + 1 := by positivity
  exact one_div_pos.mpr (Real.rpow_pos_of_pos this γ)

lemma klCoefR_decay (γ : ℝ) (hγ : 0 < γ) : klCoefR γ 1 < klCoefR γ 0 := by
  unfold klCoefR
  have h0 : (0 : ℝ) ≤ ((0 : ℕ) : ℝ) + 1 := by norm_num
  have h01 : ((0 : ℕ) : ℝ) + 1 < ((1 : ℕ) : ℝ) + 1 := by norm_num
  have h := Real.rpow_lt_rpow h0 h01 hγ
  have hp : (0 : ℝ) < (((0 : ℕ) : ℝ) + 1) ^ γ := Real.rpow_pos_of_pos (by norm_num) γ
  exact one_div_lt_one_div_of_lt hp h

end kl

end CuqiVerif.C07
