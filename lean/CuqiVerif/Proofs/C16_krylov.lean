import CuqiVerif.Proofs.C16
import Mathlib.LinearAlgebra.Dimension.Finite
import Mathlib.LinearAlgebra.Dimension.Constructions
import Mathlib.LinearAlgebra.LinearIndependent.Defs
import Mathlib.Logic.Function.Iterate
import Mathlib.Algebra.BigOperators.Fin
import Mathlib.Algebra.Group.InjSurj

/-!
# C16 — helper lemmas for the Krylov (finite termination) theorems

Part 1 is about an abstract conjugate-gradient recurrence `CGRec` on a module `E` over a linearly
ordered field with a symmetric bilinear form `ip` and a linear operator `B` that is symmetric for
`ip`: orthogonality of residuals, conjugacy of directions, finite termination, energy decrease.
Part 2 relates `cglsLoop` / `cgls` of `Model/C16.lean` to the un-flagged iterates
`cglsIter k = cglsStep^[k] (cglsInit x0)`.  Part 3 shows that these iterates are an instance of
`CGRec` (`B = AᵀA + shift·I`, `ip = oV.dot`).
-/

set_option linter.unusedSectionVars false
set_option linter.unusedVariables false

namespace CuqiVerif.C16

open Finset

section Abstract
variable {K : Type} [Field K] [LinearOrder K] [IsStrictOrderedRing K]
variable {E : Type} [AddCommGroup E] [Module K E]

namespace IsIP
variable {ip : E → E → K} (h : IsIP ip)
include h

lemma add_right (a b c : E) : ip a (b + c) = ip a b + ip a c := by
  rw [h.comm, h.add_left, h.comm b, h.comm c]
lemma smul_right (t : K) (a c : E) : ip a (t • c) = t * ip a c := by
  rw [h.comm, h.smul_left, h.comm]
lemma zero_left (a : E) : ip 0 a = 0 := by
  have := h.smul_left 0 a a; rwa [zero_smul, zero_mul] at this
lemma zero_right (a : E) : ip a 0 = 0 := by rw [h.comm, h.zero_left]
lemma neg_left (a c : E) : ip (-a) c = - ip a c := by
  have := h.smul_left (-1) a c; rwa [neg_one_smul, neg_one_mul] at this
lemma neg_right (a c : E) : ip a (-c) = - ip a c := by rw [h.comm, h.neg_left, h.comm]
lemma sub_left (a b c : E) : ip (a - b) c = ip a c - ip b c := by
  rw [sub_eq_add_neg, h.add_left, h.neg_left]; ring
lemma sub_right (a b c : E) : ip a (b - c) = ip a b - ip a c := by
  rw [h.comm, h.sub_left, h.comm b, h.comm c]

lemma sum_smul_left {ι : Type} (t : Finset ι) (g : ι → K) (v : ι → E) (w : E) :
    ip (∑ i ∈ t, g i • v i) w = ∑ i ∈ t, g i * ip (v i) w := by
  classical
  induction t using Finset.induction_on with
  | empty => simp [h.zero_left]
  | insert a t ha ih => rw [Finset.sum_insert ha, Finset.sum_insert ha, h.add_left, h.smul_left, ih]

/-- pairwise `ip`-orthogonal vectors with non-zero squares are linearly independent -/
lemma linearIndependent_of_ortho {ι : Type} (v : ι → E)
    (hort : ∀ i j, i ≠ j → ip (v i) (v j) = 0) (hne : ∀ i, ip (v i) (v i) ≠ 0) :
    LinearIndependent K v := by
  classical
  rw [linearIndependent_iff']
  intro t g hsum j hj
  have h1 : ip (∑ i ∈ t, g i • v i) (v j) = 0 := by rw [hsum, h.zero_left]
  rw [h.sum_smul_left, Finset.sum_eq_single j] at h1
  · rcases mul_eq_zero.1 h1 with h2 | h2
    · exact h2
    · exact absurd h2 (hne j)
  · intro i _ hij; rw [hort i j hij, mul_zero]
  · intro hj'; exact absurd hj hj'

end IsIP

/-- the CGLS step length `γ / δ` with the code's `δ == 0 → eps` patch, `γ = ⟨s,s⟩`, `δ = ⟨p,Bp⟩` -/
def cgAlpha (ip : E → E → K) (B : E →ₗ[K] E) (eps : K) (s p : E) : K :=
  ip s s / (if ip p (B p) = 0 then eps else ip p (B p))

/-- **The generic conjugate-gradient recurrence** (no stopping test) for `B x = c`: `s` residuals
    (`s k = c − B (x k)` is a consequence, see `CGRec.resid`), `p` search directions. -/
structure CGRec (ip : E → E → K) (B : E →ₗ[K] E) (eps : K) (x s p : ℕ → E) : Prop where
  p0 : p 0 = s 0
  x_succ : ∀ k, x (k + 1) = x k + cgAlpha ip B eps (s k) (p k) • p k
  s_succ : ∀ k, s (k + 1) = s k - cgAlpha ip B eps (s k) (p k) • B (p k)
  p_succ : ∀ k, p (k + 1) = s (k + 1) + (ip (s (k + 1)) (s (k + 1)) / ip (s k) (s k)) • p k

/-- hypotheses on the form and the operator: `ip` symmetric bilinear and definite, `B` symmetric
    for `ip` and `⟨v, B v⟩ > 0` for `v ≠ 0` -/
structure SPD (ip : E → E → K) (B : E →ₗ[K] E) : Prop where
  isIP : IsIP ip
  defn : ∀ v, ip v v = 0 → v = 0
  symm : ∀ u v, ip u (B v) = ip (B u) v
  pos : ∀ v, v ≠ 0 → 0 < ip v (B v)

namespace CGRec
variable {ip : E → E → K} {B : E →ₗ[K] E} {eps : K} {x s p : ℕ → E}
variable (hS : SPD ip B) (hR : CGRec ip B eps x s p)
include hS hR

/-- once the residual is zero, the direction is zero as well -/
lemma p_zero_of_gamma_zero (k : ℕ) (hg : ip (s k) (s k) = 0) : s k = 0 ∧ p k = 0 := by
  have hs : s k = 0 := hS.defn _ hg
  refine ⟨hs, ?_⟩
  cases k with
  | zero => rw [hR.p0, hs]
  | succ k => rw [hR.p_succ, hg, zero_div, zero_smul, hs, add_zero]

/-- … and everything stays there -/
lemma dead_forever (k : ℕ) (hg : ip (s k) (s k) = 0) (j : ℕ) :
    s (k + j) = 0 ∧ p (k + j) = 0 ∧ x (k + j) = x k := by
  induction j with
  | zero => obtain ⟨a, b⟩ := p_zero_of_gamma_zero hS hR k hg; exact ⟨a, b, rfl⟩
  | succ j ih =>
    obtain ⟨a, b, c⟩ := ih
    have hs : s (k + (j + 1)) = 0 := by
      rw [← add_assoc, hR.s_succ, a, b, map_zero, smul_zero, sub_zero]
    refine ⟨hs, ?_, ?_⟩
    · rw [← add_assoc, hR.p_succ, b, smul_zero, add_zero]; rw [add_assoc]; exact hs
    · rw [← add_assoc, hR.x_succ, b, smul_zero, add_zero, c]

lemma gamma_ne_of_le (k i : ℕ) (hik : i ≤ k) (hg : ip (s k) (s k) ≠ 0) : ip (s i) (s i) ≠ 0 := by
  intro h0
  obtain ⟨j, rfl⟩ := Nat.exists_eq_add_of_le hik
  have := (dead_forever hS hR i h0 j).1
  rw [this, hS.isIP.zero_left] at hg
  exact hg rfl

/-- the invariant carried by the induction -/
def Inv (ip : E → E → K) (B : E →ₗ[K] E) (s p : ℕ → E) (k : ℕ) : Prop :=
  (∀ i, i < k → ip (s i) (s k) = 0 ∧ ip (p i) (B (p k)) = 0 ∧ ip (p i) (s k) = 0)
    ∧ ip (p k) (s k) = ip (s k) (s k)

/-- live iterate: `⟨p,s⟩ = γ ≠ 0` forces `δ ≠ 0`, so the patch is not used and `α δ = γ` -/
lemma alpha_live (k : ℕ) (hps : ip (p k) (s k) = ip (s k) (s k)) (hg : ip (s k) (s k) ≠ 0) :
    ip (p k) (B (p k)) ≠ 0 ∧
      cgAlpha ip B eps (s k) (p k) = ip (s k) (s k) / ip (p k) (B (p k)) ∧
      cgAlpha ip B eps (s k) (p k) ≠ 0 := by
  have hp : p k ≠ 0 := by
    intro h0; rw [h0, hS.isIP.zero_left] at hps; exact hg hps.symm
  have hd : ip (p k) (B (p k)) ≠ 0 := (hS.pos _ hp).ne'
  have ha : cgAlpha ip B eps (s k) (p k) = ip (s k) (s k) / ip (p k) (B (p k)) := by
    unfold cgAlpha; rw [if_neg hd]
  exact ⟨hd, ha, by rw [ha]; exact div_ne_zero hg hd⟩

/-- `α δ = γ` always (dead iterate: both sides zero) -/
lemma alpha_mul_delta (k : ℕ) (hps : ip (p k) (s k) = ip (s k) (s k)) :
    cgAlpha ip B eps (s k) (p k) * ip (p k) (B (p k)) = ip (s k) (s k) := by
  by_cases hg : ip (s k) (s k) = 0
  · unfold cgAlpha; rw [hg, zero_div, zero_mul]
  · obtain ⟨hd, ha, _⟩ := alpha_live hS hR k hps hg
    rw [ha, div_mul_cancel₀ _ hd]

lemma inv_zero : Inv ip B s p 0 := ⟨fun i hi => absurd hi (Nat.not_lt_zero i), by rw [hR.p0]⟩

/-- `⟨p i, s (k+1)⟩ = 0` for `i ≤ k` -/
lemma step_ps (k : ℕ) (ih : ∀ j, j ≤ k → Inv ip B s p j) (i : ℕ) (hi : i ≤ k) :
    ip (p i) (s (k + 1)) = 0 := by
  rw [hR.s_succ, hS.isIP.sub_right, hS.isIP.smul_right]
  rcases Nat.lt_or_eq_of_le hi with hlt | rfl
  · obtain ⟨_, h2, h3⟩ := (ih k le_rfl).1 i hlt
    rw [h2, h3]; ring
  · have := alpha_mul_delta hS hR i (ih i le_rfl).2
    rw [(ih i le_rfl).2]; linarith

/-- `⟨s i, s (k+1)⟩ = 0` for `i ≤ k` -/
lemma step_ss (k : ℕ) (ih : ∀ j, j ≤ k → Inv ip B s p j) (i : ℕ) (hi : i ≤ k) :
    ip (s i) (s (k + 1)) = 0 := by
  cases i with
  | zero => rw [← hR.p0]; exact step_ps hS hR k ih 0 hi
  | succ i =>
    have e : s (i + 1) = p (i + 1) - (ip (s (i + 1)) (s (i + 1)) / ip (s i) (s i)) • p i := by
      rw [hR.p_succ]; abel
    rw [e, hS.isIP.sub_left, hS.isIP.smul_left, step_ps hS hR k ih (i + 1) hi,
      step_ps hS hR k ih i (by omega)]
    ring

/-- `⟨p i, B p (k+1)⟩ = 0` for `i ≤ k`, live case -/
lemma step_pBp (k : ℕ) (ih : ∀ j, j ≤ k → Inv ip B s p j) (hg : ip (s k) (s k) ≠ 0)
    (i : ℕ) (hi : i ≤ k) : ip (p i) (B (p (k + 1))) = 0 := by
  have hgi := gamma_ne_of_le hS hR k i hi hg
  obtain ⟨hd, ha, hane⟩ := alpha_live hS hR i (ih i hi).2 hgi
  set a := cgAlpha ip B eps (s i) (p i) with ha_def
  -- `B (p i) = a⁻¹ • (s i − s (i+1))`
  have eB : B (p i) = a⁻¹ • (s i - s (i + 1)) := by
    rw [hR.s_succ, ← ha_def, sub_sub_cancel, smul_smul, inv_mul_cancel₀ hane, one_smul]
  have e1 : ip (B (p i)) (s (k + 1)) = a⁻¹ * (ip (s i) (s (k + 1)) - ip (s (i + 1)) (s (k + 1))) := by
    rw [eB, hS.isIP.smul_left, hS.isIP.sub_left]
  rw [hS.symm, hR.p_succ k, hS.isIP.add_right, hS.isIP.smul_right, e1, step_ss hS hR k ih i hi]
  rcases Nat.lt_or_eq_of_le hi with hlt | rfl
  · rw [step_ss hS hR k ih (i + 1) hlt, ← hS.symm, ((ih k le_rfl).1 i hlt).2.1]; ring
  · rw [← hS.symm, ha]
    field_simp
    ring

/-- the induction step -/
lemma inv_succ (k : ℕ) (ih : ∀ j, j ≤ k → Inv ip B s p j) : Inv ip B s p (k + 1) := by
  by_cases hg : ip (s k) (s k) = 0
  · obtain ⟨h1, h2, _⟩ := dead_forever hS hR k hg 1
    refine ⟨fun i _ => ?_, ?_⟩
    · simp only [h1, h2, map_zero, hS.isIP.zero_right, and_self]
    · rw [h1, h2]
  · refine ⟨fun i hi => ⟨step_ss hS hR k ih i (by omega), step_pBp hS hR k ih hg i (by omega),
      step_ps hS hR k ih i (by omega)⟩, ?_⟩
    rw [hR.p_succ k, hS.isIP.add_left, hS.isIP.smul_left, step_ps hS hR k ih k le_rfl]; ring

lemma inv_all (k : ℕ) : Inv ip B s p k := by
  induction k using Nat.strong_induction_on with
  | _ k ih =>
    cases k with
    | zero => exact inv_zero hS hR
    | succ k => exact inv_succ hS hR k (fun j hj => ih j (by omega))

/-- residuals are mutually orthogonal -/
lemma resid_ortho (i j : ℕ) (hij : i ≠ j) : ip (s i) (s j) = 0 := by
  rcases Nat.lt_or_gt_of_ne hij with h | h
  · exact ((inv_all hS hR j).1 i h).1
  · rw [hS.isIP.comm]; exact ((inv_all hS hR i).1 j h).1

/-- directions are `B`-conjugate -/
lemma dir_conj (i j : ℕ) (hij : i ≠ j) : ip (p i) (B (p j)) = 0 := by
  rcases Nat.lt_or_gt_of_ne hij with h | h
  · exact ((inv_all hS hR j).1 i h).2.1
  · rw [hS.symm, hS.isIP.comm]; exact ((inv_all hS hR i).1 j h).2.1

/-- a residual is orthogonal to all earlier directions -/
lemma dir_resid (i j : ℕ) (hij : i < j) : ip (p i) (s j) = 0 := ((inv_all hS hR j).1 i hij).2.2

lemma dir_resid_self (k : ℕ) : ip (p k) (s k) = ip (s k) (s k) := (inv_all hS hR k).2

/-- **finite termination**: in a space of dimension `n` the `n`-th residual vanishes -/
lemma resid_zero [Module.Finite K E] (k : ℕ) (hk : Module.finrank K E ≤ k) : s k = 0 := by
  by_contra hne
  have hg : ip (s k) (s k) ≠ 0 := fun h0 => hne (hS.defn _ h0)
  have hli : LinearIndependent K (fun i : Fin (k + 1) => s i) := by
    apply hS.isIP.linearIndependent_of_ortho
    · intro i j hij
      exact resid_ortho hS hR i j (fun h => hij (Fin.ext h))
    · intro i
      exact gamma_ne_of_le hS hR k i (by omega) hg
  have := hli.fintype_card_le_finrank
  rw [Fintype.card_fin] at this
  omega

/-- the residual recurrence keeps `s k = c − B (x k)` -/
lemma resid (c : E) (h0 : s 0 = c - B (x 0)) (k : ℕ) : s k = c - B (x k) := by
  induction k with
  | zero => exact h0
  | succ k ih => rw [hR.s_succ, hR.x_succ, ih, map_add, map_smul]; abel

/-- energy of the error: `⟨x − x⋆, B (x − x⋆)⟩` drops by `α γ` in each step -/
lemma energy_step (xs : E) (hres : ∀ k, s k = B (xs - x k)) (k : ℕ) :
    ip (x (k + 1) - xs) (B (x (k + 1) - xs))
      = ip (x k - xs) (B (x k - xs)) - cgAlpha ip B eps (s k) (p k) * ip (s k) (s k) := by
  have hps := dir_resid_self hS hR k
  have had := alpha_mul_delta hS hR k hps
  set a := cgAlpha ip B eps (s k) (p k)
  have e : x (k + 1) - xs = (x k - xs) + a • p k := by rw [hR.x_succ]; abel
  have hBe : B (x k - xs) = - s k := by
    rw [hres k, ← map_neg]; congr 1; abel
  have h1 : ip (p k) (B (x k - xs)) = - ip (s k) (s k) := by
    rw [hBe, hS.isIP.neg_right, hps]
  have h2 : ip (x k - xs) (B (p k)) = - ip (s k) (s k) := by
    rw [hS.symm, hS.isIP.comm, h1]
  rw [e, map_add, map_smul, hS.isIP.add_left, hS.isIP.add_right, hS.isIP.add_right, hS.isIP.smul_left,
    hS.isIP.smul_left, hS.isIP.smul_right, hS.isIP.smul_right, h1, h2]
  have : a * (a * ip (p k) (B (p k))) = a * ip (s k) (s k) := by rw [had]
  linarith

/-- the decrement `α γ` is non-negative, and positive while the residual is non-zero -/
lemma decrement_nonneg (k : ℕ) : 0 ≤ cgAlpha ip B eps (s k) (p k) * ip (s k) (s k) := by
  have hps := dir_resid_self hS hR k
  by_cases hg : ip (s k) (s k) = 0
  · rw [hg, mul_zero]
  · obtain ⟨hd, ha, _⟩ := alpha_live hS hR k hps hg
    have hp : p k ≠ 0 := by
      intro h0; rw [h0, hS.isIP.zero_left] at hd; exact hd rfl
    have := hS.pos _ hp
    rw [ha, div_mul_eq_mul_div]
    exact div_nonneg (mul_self_nonneg _) this.le

lemma decrement_pos (k : ℕ) (hne : s k ≠ 0) : 0 < cgAlpha ip B eps (s k) (p k) * ip (s k) (s k) := by
  have hps := dir_resid_self hS hR k
  have hg : ip (s k) (s k) ≠ 0 := fun h0 => hne (hS.defn _ h0)
  obtain ⟨hd, ha, _⟩ := alpha_live hS hR k hps hg
  have hp : p k ≠ 0 := by
    intro h0; rw [h0, hS.isIP.zero_left] at hd; exact hd rfl
  have := hS.pos _ hp
  rw [ha, div_mul_eq_mul_div]
  exact div_pos (mul_self_pos.2 hg) this

end CGRec
end Abstract

/-! ## Part 2: the `while` loop returns one of the un-flagged iterates -/
section Loop
variable {K V W : Type} [Field K] [LinearOrder K] [IsStrictOrderedRing K]
variable (oV : VOps K V) (oW : VOps K W) (fwd : V → W) (adj : W → V) (b : W) (shift tol eps : K)

lemma cglsLoop_eq_iterate (gamma0 : K) (fuel : ℕ) (st : CGState K V W) :
    ∃ j, j ≤ fuel ∧
      cglsLoop oV oW fwd adj shift tol eps gamma0 fuel st
        = (cglsStep oV oW fwd adj shift tol eps gamma0)^[j] st ∧
      (j < fuel → ((cglsStep oV oW fwd adj shift tol eps gamma0)^[j] st).flag = true) ∧
      (∀ i, i < j → ((cglsStep oV oW fwd adj shift tol eps gamma0)^[i] st).flag = false) := by
  induction fuel generalizing st with
  | zero => exact ⟨0, le_rfl, rfl, fun h => absurd h (lt_irrefl _), fun i hi => absurd hi (Nat.not_lt_zero i)⟩
  | succ n ih =>
    unfold cglsLoop
    by_cases hf : st.flag = true
    · rw [if_pos hf]
      exact ⟨0, Nat.zero_le _, rfl, fun _ => hf, fun i hi => absurd hi (Nat.not_lt_zero i)⟩
    · rw [if_neg hf]
      obtain ⟨j, hj, e, h1, h2⟩ := ih (cglsStep oV oW fwd adj shift tol eps gamma0 st)
      refine ⟨j + 1, by omega, ?_, ?_, ?_⟩
      · rw [Function.iterate_succ_apply]; exact e
      · intro hlt; rw [Function.iterate_succ_apply]; exact h1 (by omega)
      · intro i hi
        cases i with
        | zero => simpa using hf
        | succ i => rw [Function.iterate_succ_apply]; exact h2 i (by omega)

/-- the state after `k` passes of the CGLS loop body **without** looking at the flag:
    `cglsStep^[k] (cglsInit x0)`.  (`gamma0`, `tol` only enter the `flag` field.) -/
def cglsIter (gamma0 : K) (x0 : V) (k : ℕ) : CGState K V W :=
  (cglsStep oV oW fwd adj shift tol eps gamma0)^[k] (cglsInit oV oW fwd adj b shift x0)

lemma cglsIter_succ (gamma0 : K) (x0 : V) (k : ℕ) :
    cglsIter oV oW fwd adj b shift tol eps gamma0 x0 (k + 1)
      = cglsStep oV oW fwd adj shift tol eps gamma0 (cglsIter oV oW fwd adj b shift tol eps gamma0 x0 k) := by
  unfold cglsIter; rw [Function.iterate_succ_apply']

lemma cglsIter_k (gamma0 : K) (x0 : V) (k : ℕ) :
    (cglsIter oV oW fwd adj b shift tol eps gamma0 x0 k).k = k := by
  induction k with
  | zero => rfl
  | succ k ih => rw [cglsIter_succ]; show _ + 1 = _; rw [ih]

/-- what `cgls` returns is the un-flagged iterate number `k` (its own counter), all earlier
    iterates are un-flagged, and it stopped early only with the flag set -/
lemma cgls_eq_cglsIter (x0 : V) (maxit : ℕ) :
    let g0 := oV.nrm2 (oV.sub (adj (oW.sub b (fwd x0))) (oV.smul shift x0))
    let st := cgls oV oW fwd adj b shift tol eps x0 maxit
    st.k ≤ maxit ∧ st = cglsIter oV oW fwd adj b shift tol eps g0 x0 st.k ∧
      (st.k < maxit → st.flag = true) ∧
      (∀ i, i < st.k → (cglsIter oV oW fwd adj b shift tol eps g0 x0 i).flag = false) := by
  intro g0 st
  obtain ⟨j, hj, e, h1, h2⟩ := cglsLoop_eq_iterate oV oW fwd adj shift tol eps g0 maxit
    (cglsInit oV oW fwd adj b shift x0)
  have e' : st = cglsIter oV oW fwd adj b shift tol eps g0 x0 j := e
  have hk : st.k = j := by rw [e', cglsIter_k]
  rw [hk]
  exact ⟨hj, e', fun h => by rw [e']; exact h1 h, h2⟩

end Loop

/-! ## Part 3: the iterates of `Model/C16.lean` are an instance of `CGRec` -/
section Model
variable {K V W : Type} [Field K] [LinearOrder K] [IsStrictOrderedRing K]
  [AddCommGroup V] [Module K V] [AddCommGroup W] [Module K W]
variable (oV : VOps K V) (oW : VOps K W) (A : V →ₗ[K] W) (At : W →ₗ[K] V) (b : W) (shift tol eps : K)

/-- the operator of the shifted normal equations, `AᵀA + shift·I` -/
def normalOp : V →ₗ[K] V := At ∘ₗ A + shift • LinearMap.id

lemma normalOp_apply (v : V) : normalOp A At shift v = At (A v) + shift • v := by
  simp [normalOp]

/-- **Exact-arithmetic setting for CGLS**: the operation records are the module operations, both
    `dot`s are symmetric bilinear with non-negative squares, `oV.dot` is definite, `At` is the
    adjoint of `A`, and `AᵀA + shift·I` is positive definite: `‖A v‖² + shift·‖v‖² > 0` for `v ≠ 0`. -/
structure CGLSSetting : Prop where
  lawV : oV.Lawful
  lawW : oW.Lawful
  ipV : IsIP oV.dot
  ipW : IsIP oW.dot
  defn : ∀ v, oV.dot v v = 0 → v = 0
  adj : ∀ v w, oW.dot (A v) w = oV.dot v (At w)
  pos : ∀ v, v ≠ 0 → 0 < oW.dot (A v) (A v) + shift * oV.dot v v

variable {oV oW A At shift}

lemma CGLSSetting.energy (H : CGLSSetting oV oW A At shift) (u v : V) :
    oV.dot u (normalOp A At shift v) = oW.dot (A u) (A v) + shift * oV.dot u v := by
  rw [normalOp_apply, H.ipV.add_right, H.ipV.smul_right, H.adj]

lemma CGLSSetting.spd (H : CGLSSetting oV oW A At shift) : SPD oV.dot (normalOp A At shift) where
  isIP := H.ipV
  defn := H.defn
  symm u v := by
    rw [H.energy, H.ipV.comm (normalOp A At shift u) v, H.energy, H.ipW.comm (A v), H.ipV.comm v u]
  pos v hv := by rw [H.energy]; exact H.pos v hv

lemma cglsIter_inv (H : CGLSSetting oV oW A At shift) (gamma0 : K) (x0 : V) (k : ℕ) :
    CGInv oV A At b shift tol gamma0 (cglsIter oV oW A At b shift tol eps gamma0 x0 k) := by
  induction k with
  | zero => exact cglsInit_inv A At b shift tol H.lawV H.lawW gamma0 x0
  | succ k ih => rw [cglsIter_succ]; exact cglsStep_inv A At b shift tol eps H.lawV H.lawW gamma0 _ ih

/-- the model's step length is `cgAlpha` for `ip = oV.dot`, `B = AᵀA + shift·I` -/
lemma cglsStep_alpha (H : CGLSSetting oV oW A At shift) (st : CGState K V W)
    (hg : st.gamma = oV.dot st.s st.s) :
    st.gamma / (if oW.nrm2 (A st.p) + shift * oV.nrm2 st.p = 0 then eps
                  else oW.nrm2 (A st.p) + shift * oV.nrm2 st.p)
      = cgAlpha oV.dot (normalOp A At shift) eps st.s st.p := by
  unfold cgAlpha VOps.nrm2; rw [H.energy, hg]

/-- one pass of the loop body, written with module operations -/
lemma cglsStep_rec (H : CGLSSetting oV oW A At shift) (gamma0 : K) (st : CGState K V W)
    (hs : st.s = At st.r - shift • st.x) (hg : st.gamma = oV.dot st.s st.s) :
    let st' := cglsStep oV oW A At shift tol eps gamma0 st
    let a := cgAlpha oV.dot (normalOp A At shift) eps st.s st.p
    st'.x = st.x + a • st.p ∧ st'.s = st.s - a • normalOp A At shift st.p ∧
      st'.p = st'.s + (oV.dot st'.s st'.s / oV.dot st.s st.s) • st.p := by
  intro st' a
  have ha : st.gamma / (if oW.nrm2 (A st.p) + shift * oV.nrm2 st.p = 0 then eps
      else oW.nrm2 (A st.p) + shift * oV.nrm2 st.p) = a := cglsStep_alpha eps H st hg
  clear_value a
  have hx : st'.x = st.x + a • st.p := by
    show oV.add st.x (oV.smul _ st.p) = _
    rw [H.lawV.add, H.lawV.smul, ha]
  have hs' : st'.s = st.s - a • normalOp A At shift st.p := by
    show oV.sub (At (oW.sub st.r (oW.smul _ (A st.p)))) (oV.smul shift (oV.add st.x (oV.smul _ st.p))) = _
    rw [H.lawV.sub, H.lawV.smul, H.lawV.add, H.lawV.smul, H.lawW.sub, H.lawW.smul, ha, hs,
      normalOp_apply, map_sub, map_smul, smul_add, smul_add, smul_comm shift a]
    abel_nf
  refine ⟨hx, hs', ?_⟩
  show oV.add st'.s (oV.smul (oV.nrm2 st'.s / st.gamma) st.p) = _
  rw [H.lawV.add, H.lawV.smul, hg]; rfl

/-- **the un-flagged CGLS iterates satisfy the generic conjugate-gradient recurrence** -/
lemma cglsIter_rec (H : CGLSSetting oV oW A At shift) (gamma0 : K) (x0 : V) :
    CGRec oV.dot (normalOp A At shift) eps
      (fun k => (cglsIter oV oW A At b shift tol eps gamma0 x0 k).x)
      (fun k => (cglsIter oV oW A At b shift tol eps gamma0 x0 k).s)
      (fun k => (cglsIter oV oW A At b shift tol eps gamma0 x0 k).p) := by
  have hstep : ∀ k, _ := fun k =>
    cglsStep_rec tol eps H gamma0 (cglsIter oV oW A At b shift tol eps gamma0 x0 k)
      (cglsIter_inv b tol eps H gamma0 x0 k).2.1 (cglsIter_inv b tol eps H gamma0 x0 k).2.2.1
  refine ⟨rfl, fun k => ?_, fun k => ?_, fun k => ?_⟩
  · simp only [cglsIter_succ]; exact (hstep k).1
  · simp only [cglsIter_succ]; exact (hstep k).2.1
  · simp only [cglsIter_succ]; exact (hstep k).2.2

/-- the recurred `s` is the true residual of the shifted normal equations -/
lemma cglsIter_resid (H : CGLSSetting oV oW A At shift) (gamma0 : K) (x0 : V) (k : ℕ) :
    let st := cglsIter oV oW A At b shift tol eps gamma0 x0 k
    st.s = At (b - A st.x) - shift • st.x ∧ st.s = At b - normalOp A At shift st.x ∧
      st.gamma = oV.dot st.s st.s := by
  obtain ⟨h1, h2, h3, _⟩ := cglsIter_inv b tol eps H gamma0 x0 k
  intro st
  have e : st.s = At (b - A st.x) - shift • st.x := by rw [← h1]; exact h2
  refine ⟨e, ?_, h3⟩
  rw [e, normalOp_apply, map_sub]; abel

end Model


/-! ## Part 4: the executable array instance `vecOps n` on `Vector K n`, `mulVec M` / `mulVecT M`

`Vector K n` carries core Lean's componentwise `+ - • 0` (`Init/Data/Vector/Algebra.lean`); these
are literally the functions in the record `vecOps n`.  Here they are shown to form a `K`-module of
dimension `n`, `vdot` is a definite symmetric bilinear form, and `mulVecT M` is the adjoint of
`mulVec M`. -/
section Arrays
variable {K : Type} [Field K] [LinearOrder K] [IsStrictOrderedRing K]

/-- coordinates of an array -/
def vecFn {n : ℕ} (v : Vector K n) : Fin n → K := fun i => v[i]

lemma vecFn_injective {n : ℕ} : Function.Injective (vecFn (K := K) (n := n)) := by
  intro a b h
  apply Vector.ext
  intro i hi
  exact congrFun h ⟨i, hi⟩

instance vecAddCommGroup {n : ℕ} : AddCommGroup (Vector K n) :=
  Function.Injective.addCommGroup vecFn vecFn_injective
    (by funext i; simp [vecFn]) (fun x y => by funext i; simp [vecFn])
    (fun x => by funext i; simp [vecFn]) (fun x y => by funext i; simp [vecFn])
    (fun k x => by funext i; simp [vecFn]) (fun k x => by funext i; simp [vecFn])

/-- `vecFn` as an additive map -/
def vecFnAdd {n : ℕ} : Vector K n →+ (Fin n → K) where
  toFun := vecFn
  map_zero' := by funext i; simp [vecFn]
  map_add' x y := by funext i; simp [vecFn]

instance vecModule {n : ℕ} : Module K (Vector K n) :=
  Function.Injective.module K vecFnAdd vecFn_injective (fun c x => by funext i; simp [vecFnAdd, vecFn])

/-- arrays of length `n` are `Kⁿ` -/
def vecEquiv (n : ℕ) : Vector K n ≃ₗ[K] (Fin n → K) where
  toFun := vecFn
  invFun := Vector.ofFn
  map_add' x y := by funext i; simp [vecFn]
  map_smul' c x := by funext i; simp [vecFn]
  left_inv x := by apply Vector.ext; intro i hi; simp [vecFn]
  right_inv f := by funext i; simp [vecFn]

instance vecFinite {n : ℕ} : Module.Finite K (Vector K n) := Module.Finite.equiv (vecEquiv n).symm

lemma vec_finrank (n : ℕ) : Module.finrank K (Vector K n) = n := by
  rw [(vecEquiv (K := K) n).finrank_eq, Module.finrank_fin_fun]

/-- the record the driver uses consists of the module operations -/
lemma vecOps_lawful (n : ℕ) : (vecOps n : VOps K (Vector K n)).Lawful :=
  ⟨fun _ _ => rfl, fun _ _ => rfl, fun _ _ => rfl⟩

lemma vdot_eq_sum {n : ℕ} (a b : Vector K n) : vdot a b = ∑ i : Fin n, a[i] * b[i] := by
  unfold vdot; rw [List.sum_ofFn]

lemma vdot_isIP (n : ℕ) : IsIP (vdot : Vector K n → Vector K n → K) where
  add_left a b c := by
    simp only [vdot_eq_sum, Fin.getElem_fin, Vector.getElem_add, add_mul, Finset.sum_add_distrib]
  smul_left t a c := by
    simp only [vdot_eq_sum, Fin.getElem_fin, Vector.getElem_smul, smul_eq_mul, mul_assoc, Finset.mul_sum]
  comm a b := by
    simp only [vdot_eq_sum]; exact Finset.sum_congr rfl (fun i _ => mul_comm _ _)
  nonneg a := by
    rw [vdot_eq_sum]; exact Finset.sum_nonneg (fun i _ => mul_self_nonneg _)

lemma vdot_definite {n : ℕ} (v : Vector K n) (h : vdot v v = 0) : v = 0 := by
  rw [vdot_eq_sum] at h
  have h2 := (Finset.sum_eq_zero_iff_of_nonneg (fun i _ => mul_self_nonneg (v[i]))).1 h
  apply Vector.ext
  intro i hi
  have := h2 ⟨i, hi⟩ (Finset.mem_univ _)
  simpa using this

lemma mulVec_getElem {m n : ℕ} (M : Mat K m n) (x : Vector K n) (i : Fin m) :
    (mulVec M x)[i] = ∑ j : Fin n, M[i][j] * x[j] := by
  simp [mulVec, vdot_eq_sum]

lemma mulVecT_getElem {m n : ℕ} (M : Mat K m n) (r : Vector K m) (j : Fin n) :
    (mulVecT M r)[j] = ∑ i : Fin m, M[i][j] * r[i] := by
  simp [mulVecT, List.sum_ofFn]

/-- `x ↦ A @ x` as a linear map; its underlying function is `mulVec M` -/
def mulVecL {m n : ℕ} (M : Mat K m n) : Vector K n →ₗ[K] Vector K m where
  toFun := mulVec M
  map_add' x y := by
    apply Vector.ext; intro i hi
    have := mulVec_getElem M (x + y) ⟨i, hi⟩
    simp only [Fin.getElem_fin] at this
    rw [this, Vector.getElem_add]
    have h1 := mulVec_getElem M x ⟨i, hi⟩
    have h2 := mulVec_getElem M y ⟨i, hi⟩
    simp only [Fin.getElem_fin] at h1 h2
    rw [h1, h2, ← Finset.sum_add_distrib]
    exact Finset.sum_congr rfl (fun j _ => by rw [Vector.getElem_add]; ring)
  map_smul' c x := by
    apply Vector.ext; intro i hi
    have := mulVec_getElem M (c • x) ⟨i, hi⟩
    simp only [Fin.getElem_fin] at this
    rw [this, RingHom.id_apply, Vector.getElem_smul]
    have h1 := mulVec_getElem M x ⟨i, hi⟩
    simp only [Fin.getElem_fin] at h1
    rw [h1, smul_eq_mul, Finset.mul_sum]
    exact Finset.sum_congr rfl (fun j _ => by rw [Vector.getElem_smul, smul_eq_mul]; ring)

/-- `r ↦ A.T @ r` as a linear map; its underlying function is `mulVecT M` -/
def mulVecTL {m n : ℕ} (M : Mat K m n) : Vector K m →ₗ[K] Vector K n where
  toFun := mulVecT M
  map_add' x y := by
    apply Vector.ext; intro j hj
    have := mulVecT_getElem M (x + y) ⟨j, hj⟩
    simp only [Fin.getElem_fin] at this
    rw [this, Vector.getElem_add]
    have h1 := mulVecT_getElem M x ⟨j, hj⟩
    have h2 := mulVecT_getElem M y ⟨j, hj⟩
    simp only [Fin.getElem_fin] at h1 h2
    rw [h1, h2, ← Finset.sum_add_distrib]
    exact Finset.sum_congr rfl (fun i _ => by rw [Vector.getElem_add]; ring)
  map_smul' c x := by
    apply Vector.ext; intro j hj
    have := mulVecT_getElem M (c • x) ⟨j, hj⟩
    simp only [Fin.getElem_fin] at this
    rw [this, RingHom.id_apply, Vector.getElem_smul]
    have h1 := mulVecT_getElem M x ⟨j, hj⟩
    simp only [Fin.getElem_fin] at h1
    rw [h1, smul_eq_mul, Finset.mul_sum]
    exact Finset.sum_congr rfl (fun i _ => by rw [Vector.getElem_smul, smul_eq_mul]; ring)

/-- `⟨A v, w⟩ = ⟨v, Aᵀ w⟩` for the array functions -/
lemma mulVec_adjoint {m n : ℕ} (M : Mat K m n) (v : Vector K n) (w : Vector K m) :
    vdot (mulVec M v) w = vdot v (mulVecT M w) := by
  rw [vdot_eq_sum, vdot_eq_sum]
  simp only [mulVec_getElem, mulVecT_getElem, Finset.sum_mul, Finset.mul_sum]
  rw [Finset.sum_comm]
  exact Finset.sum_congr rfl (fun j _ => Finset.sum_congr rfl (fun i _ => by ring))

/-- the array instance of the exact-arithmetic setting -/
lemma arraySetting {m n : ℕ} (M : Mat K m n) (shift : K)
    (hpd : ∀ v : Vector K n, v ≠ 0 → 0 < vdot (mulVec M v) (mulVec M v) + shift * vdot v v) :
    CGLSSetting (vecOps n) (vecOps m) (mulVecL M) (mulVecTL M) shift :=
  ⟨vecOps_lawful n, vecOps_lawful m, vdot_isIP n, vdot_isIP m, vdot_definite,
    fun v w => mulVec_adjoint M v w, hpd⟩

end Arrays

end CuqiVerif.C16
