import CuqiVerif.Model.C19_access
import CuqiVerif.Props.C19_full

/-!
# C19 — helper lemmas for `Props/C19_access.lean`
(numpy integer indexing, `mapM` over `Option`, strictly increasing index lists give sublists,
chains of gathered samples)
-/

namespace CuqiVerif.C19
open List

/-! ## `normIndex` -/

lemma normIndex_of_inRange (n : ℕ) (k : ℤ) (h1 : -(n : ℤ) ≤ k) (h2 : k < n) :
    normIndex n k = some (k % (n : ℤ)).toNat := by
  unfold normIndex
  by_cases hk : 0 ≤ k
  · rw [if_pos ⟨hk, h2⟩, Int.emod_eq_of_lt hk h2]
  · have hk' : k < 0 := by omega
    rw [if_neg (by omega), if_pos ⟨h1, hk'⟩]
    have : k % (n : ℤ) = k + n := by
      rw [← Int.add_emod_right, Int.emod_eq_of_lt (by omega) (by omega)]
    rw [this]

lemma normIndex_of_outOfRange (n : ℕ) (k : ℤ) (h : k < -(n : ℤ) ∨ (n : ℤ) ≤ k) :
    normIndex n k = none := by
  unfold normIndex
  rw [if_neg (by omega), if_neg (by omega)]

lemma normIndex_eq_none_iff (n : ℕ) (k : ℤ) :
    normIndex n k = none ↔ (k < -(n : ℤ) ∨ (n : ℤ) ≤ k) := by
  constructor
  · intro h
    by_contra hc
    rw [normIndex_of_inRange n k (by omega) (by omega)] at h
    cases h
  · exact normIndex_of_outOfRange n k

lemma wrap_lt (n : ℕ) (k : ℤ) (h1 : -(n : ℤ) ≤ k) (h2 : k < n) : (k % (n : ℤ)).toNat < n := by
  have hn : (0 : ℤ) < n := by omega
  have := Int.emod_lt_of_pos k hn
  have := Int.emod_nonneg k (by omega : (n : ℤ) ≠ 0)
  omega

lemma wrap_natCast (n i : ℕ) (h : i < n) : (((i : ℤ)) % (n : ℤ)).toNat = i := by
  rw [Int.emod_eq_of_lt (by omega) (by omega)]; simp

lemma wrap_neg (n m : ℕ) (h1 : 1 ≤ m) (h2 : m ≤ n) : ((-(m : ℤ)) % (n : ℤ)).toNat = n - m := by
  have : (-(m : ℤ)) % (n : ℤ) = (n : ℤ) - m := by
    rw [← Int.add_emod_right, Int.emod_eq_of_lt (by omega) (by omega)]; ring
  rw [this]; omega

/-! ## `mapM` over `Option` -/

lemma mapM_normIndex_of_inRange (n : ℕ) :
    ∀ ks : List ℤ, (∀ k ∈ ks, -(n : ℤ) ≤ k ∧ k < n) →
      ks.mapM (normIndex n) = some (ks.map (fun k => (k % (n : ℤ)).toNat))
  | [], _ => rfl
  | k :: ks, h => by
    have hk := h k (by simp)
    rw [List.mapM_cons, normIndex_of_inRange n k hk.1 hk.2,
      mapM_normIndex_of_inRange n ks (fun k' hk' => h k' (by simp [hk']))]
    rfl

lemma mapM_normIndex_of_outOfRange (n : ℕ) :
    ∀ ks : List ℤ, (∃ k ∈ ks, k < -(n : ℤ) ∨ (n : ℤ) ≤ k) → ks.mapM (normIndex n) = none
  | [], h => by obtain ⟨k, hk, _⟩ := h; cases hk
  | k :: ks, h => by
    rw [List.mapM_cons]
    by_cases hk : k < -(n : ℤ) ∨ (n : ℤ) ≤ k
    · rw [normIndex_of_outOfRange n k hk]; rfl
    · have : ∃ k' ∈ ks, k' < -(n : ℤ) ∨ (n : ℤ) ≤ k' := by
        obtain ⟨k', hk', hr⟩ := h
        rcases List.mem_cons.mp hk' with rfl | hm
        · exact absurd hr hk
        · exact ⟨k', hm, hr⟩
      rw [mapM_normIndex_of_outOfRange n ks this]
      cases normIndex n k <;> rfl

/-! ## strictly increasing index lists select sublists -/

lemma map_getD_sublist_drop {α : Type} (xs : List α) (d : α) :
    ∀ (is : List ℕ) (off : ℕ), is.Pairwise (· < ·) → (∀ i ∈ is, off ≤ i ∧ i < xs.length) →
      (is.map (fun i => xs.getD i d)).Sublist (xs.drop off)
  | [], _, _, _ => List.nil_sublist _
  | i :: is, off, hp, hb => by
    have hi := hb i (by simp)
    have htail : (is.map (fun j => xs.getD j d)).Sublist (xs.drop (i + 1)) :=
      map_getD_sublist_drop xs d is (i + 1) (List.Pairwise.of_cons hp) (fun j hj =>
        ⟨(List.rel_of_pairwise_cons hp hj), (hb j (by simp [hj])).2⟩)
    have h1 : ((i :: is).map (fun j => xs.getD j d)).Sublist (xs.drop i) := by
      rw [List.map_cons, List.drop_eq_getElem_cons hi.2, List.getD_eq_getElem _ _ hi.2]
      exact htail.cons_cons _
    exact h1.trans (List.drop_sublist_drop_left xs hi.1)

lemma map_getD_sublist {α : Type} (xs : List α) (d : α) (is : List ℕ)
    (hp : is.Pairwise (· < ·)) (hlt : ∀ i ∈ is, i < xs.length) :
    (is.map (fun i => xs.getD i d)).Sublist xs := by
  simpa using map_getD_sublist_drop xs d is 0 hp (fun i hi => ⟨Nat.zero_le _, hlt i hi⟩)

end CuqiVerif.C19
