import CuqiVerif.Proofs.C15
import Mathlib.LinearAlgebra.Matrix.PosDef
import Mathlib.LinearAlgebra.Matrix.Rank
import Mathlib.LinearAlgebra.Matrix.NonsingularInverse
import Mathlib.Analysis.Calculus.FDeriv.Basic
import Mathlib.Analysis.Calculus.FDeriv.Comp
import Mathlib.Analysis.Calculus.FDeriv.Linear
import Mathlib.Analysis.Calculus.Gradient.Basic
import Mathlib.Analysis.InnerProductSpace.PiL2
import Mathlib.Analysis.Asymptotics.Lemmas
import Mathlib.Analysis.Convex.Function
import Mathlib.Order.Filter.Extr
import Mathlib.Tactic.Positivity

/-!
# C15 — helper lemmas for the analytic statements (`Props/C15_analysis.lean`)

* algebra of the Gaussian log-posterior `logPost` (Proofs/C15): curvature as the quadratic form of
  `H = AᵀWeA + Wx`, gradient as `rhs − H x`, the exact convex-combination identity;
* `Matrix.PosDef` over `ℝ`: symmetry, positivity of the quadratic form, `H` and `A Cx Aᵀ + Ce` are
  positive definite when the covariances are;
* calculus on `Fin n → ℝ` / `EuclideanSpace ℝ (Fin n)`: a function with an exact second-order
  expansion whose remainder is a quadratic form has the linear coefficient as Fréchet derivative;
* consistency of the weighted normal equations `AᵀWA x = AᵀW b` for every `A` (rank argument).
-/
open Finset Matrix

set_option linter.unusedSectionVars false
set_option linter.unusedVariables false

namespace CuqiVerif.C15

/-! ## algebra -/

section algebra
variable {K : Type} [Field K] [CharZero K] {m n : ℕ}

/-- the posterior precision `H = AᵀWeA + Wx` (the matrix `_sampleMapCholesky` inverts) -/
def precH (A : Matrix (Fin m) (Fin n) K) (We : Matrix (Fin m) (Fin m) K) (Wx : Matrix (Fin n) (Fin n) K) :
    Matrix (Fin n) (Fin n) K := Aᵀ * We * A + Wx

/-- the information-form right-hand side `AᵀWe b + Wx x0` -/
def rhsInfo (A : Matrix (Fin m) (Fin n) K) (We : Matrix (Fin m) (Fin m) K) (Wx : Matrix (Fin n) (Fin n) K)
    (x0 : Fin n → K) (b : Fin m → K) : Fin n → K := Aᵀ *ᵥ (We *ᵥ b) + Wx *ᵥ x0

lemma curv_eq_precH (A : Matrix (Fin m) (Fin n) K) (We : Matrix (Fin m) (Fin m) K)
    (Wx : Matrix (Fin n) (Fin n) K) (d : Fin n → K) :
    curv A We Wx d = d ⬝ᵥ (precH A We Wx *ᵥ d) := by
  unfold curv precH
  rw [Matrix.add_mulVec, dotProduct_add, ← Matrix.mulVec_mulVec, ← Matrix.mulVec_mulVec,
    Matrix.dotProduct_mulVec d Aᵀ, Matrix.vecMul_transpose]

lemma gradPost_eq_rhs_sub (A : Matrix (Fin m) (Fin n) K) (We : Matrix (Fin m) (Fin m) K)
    (Wx : Matrix (Fin n) (Fin n) K) (x0 : Fin n → K) (b : Fin m → K) (x : Fin n → K) :
    gradPost A We Wx x0 b x = rhsInfo A We Wx x0 b - precH A We Wx *ᵥ x := by
  unfold gradPost rhsInfo precH
  rw [Matrix.mulVec_sub, Matrix.mulVec_sub, Matrix.mulVec_sub, Matrix.add_mulVec,
    ← Matrix.mulVec_mulVec, ← Matrix.mulVec_mulVec]
  abel

lemma curv_smul (A : Matrix (Fin m) (Fin n) K) (We : Matrix (Fin m) (Fin m) K)
    (Wx : Matrix (Fin n) (Fin n) K) (t : K) (d : Fin n → K) :
    curv A We Wx (t • d) = t ^ 2 * curv A We Wx d := by
  simp only [curv, Matrix.mulVec_smul, smul_dotProduct, dotProduct_smul, smul_eq_mul]
  ring

/-- the log-posterior is an exact quadratic: on a convex combination it exceeds the combination
    of the values by `a c / 2 · (x−y)ᵀ H (x−y)` -/
lemma logPost_convex_comb (A : Matrix (Fin m) (Fin n) K) (We : Matrix (Fin m) (Fin m) K)
    (Wx : Matrix (Fin n) (Fin n) K) (hWe : Weᵀ = We) (hWx : Wxᵀ = Wx) (x0 : Fin n → K) (b : Fin m → K)
    (x y : Fin n → K) (a c : K) (hac : a + c = 1) :
    logPost A We Wx x0 b (a • x + c • y)
      = a * logPost A We Wx x0 b x + c * logPost A We Wx x0 b y + a * c / 2 * curv A We Wx (x - y) := by
  set z := a • x + c • y with hz
  have hx : x = z + c • (x - y) := by
    have : x = (a + c) • x := by rw [hac, one_smul]
    rw [hz, smul_sub]; conv_lhs => rw [this, add_smul]
    abel
  have hy : y = z + (-a) • (x - y) := by
    have : y = (a + c) • y := by rw [hac, one_smul]
    rw [hz, smul_sub, neg_smul, neg_smul]; conv_lhs => rw [this, add_smul]
    abel
  have e1 := logPost_expand A We Wx hWe hWx x0 b z (c • (x - y))
  have e2 := logPost_expand A We Wx hWe hWx x0 b z ((-a) • (x - y))
  rw [← hx] at e1
  rw [← hy] at e2
  rw [e1, e2, curv_smul, curv_smul, smul_dotProduct, smul_dotProduct, smul_eq_mul, smul_eq_mul]
  have ha : a = 1 - c := by rw [← hac]; ring
  rw [ha]
  ring

end algebra

/-! ## positive definite matrices over `ℝ` -/

section posdef
variable {m n : ℕ}

lemma posDef_transpose_eq {p : ℕ} {M : Matrix (Fin p) (Fin p) ℝ} (h : M.PosDef) : Mᵀ = M := by
  have := h.isHermitian
  rwa [Matrix.IsHermitian, Matrix.conjTranspose_eq_transpose_of_trivial] at this

lemma posSemidef_transpose_eq {p : ℕ} {M : Matrix (Fin p) (Fin p) ℝ} (h : M.PosSemidef) : Mᵀ = M := by
  have := h.isHermitian
  rwa [Matrix.IsHermitian, Matrix.conjTranspose_eq_transpose_of_trivial] at this

lemma posDef_quad_pos {p : ℕ} {M : Matrix (Fin p) (Fin p) ℝ} (h : M.PosDef) (d : Fin p → ℝ) (hd : d ≠ 0) :
    0 < d ⬝ᵥ (M *ᵥ d) := by
  simpa using h.dotProduct_mulVec_pos hd

lemma posSemidef_quad_nonneg {p : ℕ} {M : Matrix (Fin p) (Fin p) ℝ} (h : M.PosSemidef) (d : Fin p → ℝ) :
    0 ≤ d ⬝ᵥ (M *ᵥ d) := by
  simpa using h.dotProduct_mulVec_nonneg d

/-- `We ⪰ 0`, `Wx ≻ 0` ⇒ `H = AᵀWeA + Wx ≻ 0` -/
lemma precH_posDef (A : Matrix (Fin m) (Fin n) ℝ) {We : Matrix (Fin m) (Fin m) ℝ}
    {Wx : Matrix (Fin n) (Fin n) ℝ} (hWe : We.PosSemidef) (hWx : Wx.PosDef) :
    (precH A We Wx).PosDef := by
  unfold precH
  have h1 : (Aᵀ * We * A).PosSemidef := by
    have := hWe.conjTranspose_mul_mul_same A
    rwa [Matrix.conjTranspose_eq_transpose_of_trivial] at this
  exact Matrix.PosDef.posSemidef_add h1 hWx

/-- `Cx ⪰ 0`, `Ce ≻ 0` ⇒ the data-space system matrix `A Cx Aᵀ + Ce ≻ 0` (so `np.linalg.solve`
    cannot meet an exactly singular system) -/
lemma sysm_posDef (A : Matrix (Fin m) (Fin n) ℝ) {Ce : Matrix (Fin m) (Fin m) ℝ}
    {Cx : Matrix (Fin n) (Fin n) ℝ} (hCe : Ce.PosDef) (hCx : Cx.PosSemidef) :
    (A * Cx * Aᵀ + Ce).PosDef := by
  have h1 : (A * Cx * Aᵀ).PosSemidef := by
    have := hCx.mul_mul_conjTranspose_same A
    rwa [Matrix.conjTranspose_eq_transpose_of_trivial] at this
  exact Matrix.PosDef.posSemidef_add h1 hCe

lemma posDef_inv_mul_self {p : ℕ} {M : Matrix (Fin p) (Fin p) ℝ} (h : M.PosDef) : M⁻¹ * M = 1 :=
  Matrix.nonsing_inv_mul M ((Matrix.isUnit_iff_isUnit_det M).mp h.isUnit)

lemma posDef_mul_inv_self {p : ℕ} {M : Matrix (Fin p) (Fin p) ℝ} (h : M.PosDef) : M * M⁻¹ = 1 :=
  Matrix.mul_nonsing_inv M ((Matrix.isUnit_iff_isUnit_det M).mp h.isUnit)

end posdef

/-! ## calculus -/

section calculus
open Topology
variable {n : ℕ}

/-- the continuous linear functional `d ↦ d ⬝ᵥ g` on `Fin n → ℝ` (the Fréchet derivative whose
    Riesz representative is `g`) -/
noncomputable def dotCLM (g : Fin n → ℝ) : (Fin n → ℝ) →L[ℝ] ℝ :=
  ∑ i, g i • (ContinuousLinearMap.proj i : (Fin n → ℝ) →L[ℝ] ℝ)

lemma dotCLM_apply (g d : Fin n → ℝ) : dotCLM g d = d ⬝ᵥ g := by
  simp [dotCLM, dotProduct, mul_comm]

lemma quad_bound (H : Matrix (Fin n) (Fin n) ℝ) (d : Fin n → ℝ) :
    ‖d ⬝ᵥ (H *ᵥ d)‖ ≤ (∑ i, ∑ j, |H i j|) * ‖d‖ ^ 2 := by
  simp only [dotProduct, mulVec, Finset.mul_sum, Finset.sum_mul]
  refine (norm_sum_le _ _).trans (Finset.sum_le_sum fun i _ =>
    (norm_sum_le _ _).trans (Finset.sum_le_sum fun j _ => ?_))
  rw [norm_mul, norm_mul, Real.norm_eq_abs (H i j)]
  have hi := norm_le_pi_norm d i
  have hj := norm_le_pi_norm d j
  calc ‖d i‖ * (|H i j| * ‖d j‖) = |H i j| * (‖d i‖ * ‖d j‖) := by ring
    _ ≤ |H i j| * (‖d‖ * ‖d‖) :=
        mul_le_mul_of_nonneg_left (mul_le_mul hi hj (norm_nonneg _) (norm_nonneg _)) (abs_nonneg _)
    _ = |H i j| * ‖d‖ ^ 2 := by ring

/-- a function with an exact second-order expansion `f (x+d) = f x + d·g − ½ dᵀHd` is Fréchet
    differentiable at `x` with derivative `d ↦ d·g` -/
lemma hasFDerivAt_of_quad_expansion (f : (Fin n → ℝ) → ℝ) (x g : Fin n → ℝ)
    (H : Matrix (Fin n) (Fin n) ℝ)
    (hexp : ∀ d, f (x + d) = f x + d ⬝ᵥ g - (1/2) * (d ⬝ᵥ (H *ᵥ d))) :
    HasFDerivAt f (dotCLM g) x := by
  rw [hasFDerivAt_iff_isLittleO_nhds_zero]
  have h1 : (fun d : Fin n → ℝ => f (x + d) - f x - dotCLM g d)
      = fun d => -(1/2) * (d ⬝ᵥ (H *ᵥ d)) := by
    funext d; rw [hexp, dotCLM_apply]; ring
  rw [h1]
  have hO : (fun d : Fin n → ℝ => -(1/2) * (d ⬝ᵥ (H *ᵥ d))) =O[𝓝 0] fun d => ‖d‖ ^ 2 := by
    refine Asymptotics.IsBigO.of_bound ((1/2) * ∑ i, ∑ j, |H i j|)
      (Filter.Eventually.of_forall fun d => ?_)
    have hb := quad_bound H d
    rw [norm_mul, norm_neg, norm_pow, norm_norm]
    have : ‖(1/2 : ℝ)‖ = 1/2 := by rw [Real.norm_eq_abs]; norm_num
    rw [this]
    nlinarith [hb]
  exact hO.trans_isLittleO (Asymptotics.isLittleO_norm_pow_id one_lt_two)

/-- transport to `EuclideanSpace`: the gradient (Riesz representative for the `ℓ²` inner product)
    is the coefficient vector itself -/
lemma hasGradientAt_of_hasFDerivAt_pi (f : (Fin n → ℝ) → ℝ) (x : EuclideanSpace ℝ (Fin n))
    (g : Fin n → ℝ) (h : HasFDerivAt f (dotCLM g) x.ofLp) :
    HasGradientAt (fun y : EuclideanSpace ℝ (Fin n) => f y.ofLp) (WithLp.toLp 2 g) x := by
  rw [hasGradientAt_iff_hasFDerivAt]
  have hc := h.comp x
    ((EuclideanSpace.equiv (Fin n) ℝ : EuclideanSpace ℝ (Fin n) →L[ℝ] (Fin n → ℝ)).hasFDerivAt)
  have e : (InnerProductSpace.toDual ℝ (EuclideanSpace ℝ (Fin n))) (WithLp.toLp 2 g)
      = (dotCLM g).comp
          (EuclideanSpace.equiv (Fin n) ℝ : EuclideanSpace ℝ (Fin n) →L[ℝ] (Fin n → ℝ)) := by
    ext d
    simp [dotCLM_apply, EuclideanSpace.inner_eq_star_dotProduct, dotProduct_comm]
    rfl
  rw [e]
  exact hc

end calculus

/-! ## the weighted normal equations are always consistent -/

section normal
variable {m n : ℕ}

lemma quad_AtWA (A : Matrix (Fin m) (Fin n) ℝ) (W : Matrix (Fin m) (Fin m) ℝ) (x : Fin n → ℝ) :
    x ⬝ᵥ ((Aᵀ * W * A) *ᵥ x) = (A *ᵥ x) ⬝ᵥ (W *ᵥ (A *ᵥ x)) := by
  rw [← Matrix.mulVec_mulVec, ← Matrix.mulVec_mulVec, Matrix.dotProduct_mulVec x Aᵀ,
    Matrix.vecMul_transpose]

lemma AtWA_mulVec_eq_zero_iff (A : Matrix (Fin m) (Fin n) ℝ) {W : Matrix (Fin m) (Fin m) ℝ}
    (hW : W.PosDef) (x : Fin n → ℝ) : (Aᵀ * W * A) *ᵥ x = 0 ↔ A *ᵥ x = 0 := by
  constructor
  · intro h
    by_contra hne
    have := posDef_quad_pos hW (A *ᵥ x) hne
    rw [← quad_AtWA, h, dotProduct_zero] at this
    exact lt_irrefl _ this
  · intro h
    rw [← Matrix.mulVec_mulVec, h, Matrix.mulVec_zero]

lemma rank_AtWA (A : Matrix (Fin m) (Fin n) ℝ) {W : Matrix (Fin m) (Fin m) ℝ} (hW : W.PosDef) :
    (Aᵀ * W * A).rank = A.rank := by
  have hker : LinearMap.ker (Aᵀ * W * A).mulVecLin = LinearMap.ker A.mulVecLin := by
    ext x
    simp only [LinearMap.mem_ker, Matrix.mulVecLin_apply]
    exact AtWA_mulVec_eq_zero_iff A hW x
  dsimp only [Matrix.rank]
  refine add_left_injective (Module.finrank ℝ (LinearMap.ker A.mulVecLin)) ?_
  dsimp only
  trans Module.finrank ℝ (LinearMap.range (Aᵀ * W * A).mulVecLin) +
    Module.finrank ℝ (LinearMap.ker (Aᵀ * W * A).mulVecLin)
  · rw [hker]
  · simp only [LinearMap.finrank_range_add_finrank_ker]

/-- for every `A` (any rank) and positive definite weight `W` the normal equations
    `AᵀWA x = AᵀW b` have a solution -/
lemma normal_equations_consistent (A : Matrix (Fin m) (Fin n) ℝ) {W : Matrix (Fin m) (Fin m) ℝ}
    (hW : W.PosDef) (b : Fin m → ℝ) : ∃ x, (Aᵀ * W * A) *ᵥ x = Aᵀ *ᵥ (W *ᵥ b) := by
  have hle : LinearMap.range (Aᵀ * W * A).mulVecLin ≤ LinearMap.range Aᵀ.mulVecLin := by
    rintro _ ⟨x, rfl⟩
    refine ⟨W *ᵥ (A *ᵥ x), ?_⟩
    simp only [Matrix.mulVecLin_apply, Matrix.mulVec_mulVec, Matrix.mul_assoc]
  have hfin : Module.finrank ℝ (LinearMap.range (Aᵀ * W * A).mulVecLin)
      = Module.finrank ℝ (LinearMap.range Aᵀ.mulVecLin) := by
    have h1 := rank_AtWA A hW
    have h2 := Matrix.rank_transpose A
    dsimp only [Matrix.rank] at h1 h2
    rw [h1, h2]
  have heq := Submodule.eq_of_le_of_finrank_eq hle hfin
  have hmem : Aᵀ *ᵥ (W *ᵥ b) ∈ LinearMap.range (Aᵀ * W * A).mulVecLin := by
    rw [heq]; exact ⟨W *ᵥ b, rfl⟩
  obtain ⟨x, hx⟩ := hmem
  exact ⟨x, hx⟩

end normal

/-! ## rank and injectivity -/

section rank
variable {m n : ℕ}

/-- full column rank ⇔ `x ↦ A x` injective -/
lemma rank_eq_iff_mulVec_injective (A : Matrix (Fin m) (Fin n) ℝ) :
    A.rank = n ↔ Function.Injective A.mulVec := by
  have hrn := LinearMap.finrank_range_add_finrank_ker A.mulVecLin
  rw [Module.finrank_fintype_fun_eq_card, Fintype.card_fin] at hrn
  have hinj : Function.Injective A.mulVec ↔ LinearMap.ker A.mulVecLin = ⊥ := by
    rw [LinearMap.ker_eq_bot]; rfl
  rw [hinj, ← Submodule.finrank_eq_zero]
  dsimp only [Matrix.rank]
  omega

/-- rank-deficient ⇒ a non-zero null vector -/
lemma exists_null_of_not_injective (A : Matrix (Fin m) (Fin n) ℝ)
    (h : ¬ Function.Injective A.mulVec) : ∃ z, z ≠ 0 ∧ A *ᵥ z = 0 := by
  obtain ⟨a, c, hac, hne⟩ := Function.not_injective_iff.mp h
  exact ⟨a - c, sub_ne_zero.mpr hne, by rw [Matrix.mulVec_sub, hac, sub_self]⟩

lemma dotCLM_eq_zero_iff (g : Fin n → ℝ) : dotCLM g = 0 ↔ g = 0 := by
  constructor
  · intro h
    have := congrArg (fun L : (Fin n → ℝ) →L[ℝ] ℝ => L g) h
    simp only [dotCLM_apply, _root_.zero_apply] at this
    exact dotProduct_self_eq_zero.mp this
  · rintro rfl
    ext d
    simp [dotCLM_apply]

end rank

/-! ## the Gaussian log-likelihood (ML) -/

section lik
variable {K : Type} [Field K] [CharZero K] {m n : ℕ}

/-- un-normalised Gaussian log-likelihood `−½ (b−Ax)ᵀWe(b−Ax)` — what `ML` maximises for a
    linear model with Gaussian noise -/
def logLik (A : Matrix (Fin m) (Fin n) K) (We : Matrix (Fin m) (Fin m) K) (b : Fin m → K)
    (x : Fin n → K) : K :=
  -(1/2) * ((b - A *ᵥ x) ⬝ᵥ (We *ᵥ (b - A *ᵥ x)))

/-- its gradient `AᵀWe(b − Ax)` -/
def gradLik (A : Matrix (Fin m) (Fin n) K) (We : Matrix (Fin m) (Fin m) K) (b : Fin m → K)
    (x : Fin n → K) : Fin n → K :=
  Aᵀ *ᵥ (We *ᵥ (b - A *ᵥ x))

lemma logLik_eq_logPost (A : Matrix (Fin m) (Fin n) K) (We : Matrix (Fin m) (Fin m) K)
    (b : Fin m → K) : logLik A We b = logPost A We 0 0 b := by
  funext x
  simp [logLik, logPost]

lemma gradLik_eq_gradPost (A : Matrix (Fin m) (Fin n) K) (We : Matrix (Fin m) (Fin m) K)
    (b : Fin m → K) : gradLik A We b = gradPost A We 0 0 b := by
  funext x
  simp [gradLik, gradPost]

lemma gradLik_eq_zero_iff (A : Matrix (Fin m) (Fin n) K) (We : Matrix (Fin m) (Fin m) K)
    (b : Fin m → K) (x : Fin n → K) :
    gradLik A We b x = 0 ↔ (Aᵀ * We * A) *ᵥ x = Aᵀ *ᵥ (We *ᵥ b) := by
  unfold gradLik
  rw [Matrix.mulVec_sub, Matrix.mulVec_sub, ← Matrix.mulVec_mulVec, ← Matrix.mulVec_mulVec,
    sub_eq_zero]
  exact eq_comm

end lik

/-! ## entry functions of Mathlib matrices (to feed the executable model's hypotheses) -/

section back
variable {p q : ℕ}

/-- read a Mathlib matrix as an entry function on `ℕ × ℕ` (zero outside the shape) -/
noncomputable def ofM (M : Matrix (Fin p) (Fin q) ℝ) : ℕ → ℕ → ℝ :=
  fun i j => if h : i < p ∧ j < q then M ⟨i, h.1⟩ ⟨j, h.2⟩ else 0

lemma toM_ofM (M : Matrix (Fin p) (Fin q) ℝ) : toM p q (ofM M) = M := by
  ext i j
  simp [toM, ofM]

lemma leftInverse_entries (C : ℕ → ℕ → ℝ) (W : Matrix (Fin p) (Fin p) ℝ) (h : W * toM p p C = 1) :
    ∀ i j, i < p → j < p → sumTo p (fun k => ofM W i k * C k j) = if i = j then 1 else 0 := by
  have := toM_mmul p p p (ofM W) C
  rw [toM_ofM, h] at this
  exact (toM_eq_one_iff p _).mp this

end back

/-! ## the information-form point and concrete positive definite matrices for the examples -/

section point
variable {m n : ℕ}

/-- the information-form point `H⁻¹ (AᵀWe b + Wx x0)`, `H = AᵀWeA + Wx` -/
noncomputable def infoPoint (A : Matrix (Fin m) (Fin n) ℝ) (We : Matrix (Fin m) (Fin m) ℝ)
    (Wx : Matrix (Fin n) (Fin n) ℝ) (x0 : Fin n → ℝ) (b : Fin m → ℝ) : Fin n → ℝ :=
  (precH A We Wx)⁻¹ *ᵥ rhsInfo A We Wx x0 b

lemma gradPost_eq_zero_iff (A : Matrix (Fin m) (Fin n) ℝ) {We : Matrix (Fin m) (Fin m) ℝ}
    {Wx : Matrix (Fin n) (Fin n) ℝ} (hWe : We.PosSemidef) (hWx : Wx.PosDef)
    (x0 : Fin n → ℝ) (b : Fin m → ℝ) (x : Fin n → ℝ) :
    gradPost A We Wx x0 b x = 0 ↔ x = infoPoint A We Wx x0 b := by
  have hH := precH_posDef A hWe hWx
  rw [gradPost_eq_rhs_sub, sub_eq_zero, infoPoint]
  constructor
  · intro h
    rw [h, Matrix.mulVec_mulVec, posDef_inv_mul_self hH, Matrix.one_mulVec]
  · intro h
    rw [h, Matrix.mulVec_mulVec, posDef_mul_inv_self hH, Matrix.one_mulVec]

/-- `[[2,1],[1,2]]` is positive definite (a non-diagonal covariance for the examples) -/
lemma posDef_example : (!![2, 1; 1, 2] : Matrix (Fin 2) (Fin 2) ℝ).PosDef := by
  refine Matrix.PosDef.of_dotProduct_mulVec_pos ?_ fun x hx => ?_
  · ext i j; fin_cases i <;> fin_cases j <;> simp
  · have hne : x 0 ≠ 0 ∨ x 1 ≠ 0 := by
      by_contra h
      push Not at h
      exact hx (funext fun i => by fin_cases i <;> simp [h.1, h.2])
    simp only [star_trivial, dotProduct, Matrix.mulVec, Fin.sum_univ_two, Matrix.of_apply,
      Matrix.cons_val_zero, Matrix.cons_val_one, Matrix.cons_val', Matrix.cons_val_fin_one]
    rcases hne with h | h
    · nlinarith [sq_nonneg (x 0 + x 1), sq_nonneg (x 1), sq_pos_of_ne_zero h]
    · nlinarith [sq_nonneg (x 0 + x 1), sq_nonneg (x 0), sq_pos_of_ne_zero h]

end point

/-! ## the direct draw on `Fin n`-vectors -/

section drawV
variable {n : ℕ}

/-- a `Fin n`-vector (what `np.random.randn(n)` returns) as an entry function of the model -/
def ofV (ξ : Fin n → ℝ) : ℕ → ℝ := fun k => if h : k < n then ξ ⟨k, h⟩ else 0

lemma toV_ofV (ξ : Fin n → ℝ) : toV n (ofV ξ) = ξ := by
  funext i; simp [toV, ofV]

/-- the model's `draw` (`x_map + L@randn(n)`) on Mathlib vectors -/
lemma toV_draw (xmap : ℕ → ℝ) (L : ℕ → ℕ → ℝ) (ξ : Fin n → ℝ) :
    toV n (draw n xmap L (ofV ξ)) = toV n xmap + toM n n L *ᵥ ξ := by
  funext i
  simp only [toV, draw, sumTo_eq_univ, Pi.add_apply, Matrix.mulVec, dotProduct, toM]
  congr 1
  exact Finset.sum_congr rfl fun k _ => by simp [ofV]

lemma toM_mul_transpose_apply (L : ℕ → ℕ → ℝ) (i j : Fin n) :
    (toM n n L * (toM n n L)ᵀ) i j = sumTo n (fun k => L i k * L j k) := by
  simp [Matrix.mul_apply, toM, sumTo_eq_univ]

end drawV

end CuqiVerif.C15
