import CuqiVerif.Props.C13

/-!
# C13 (shapes) — definitions and helper lemmas for `Props/C13_shapes.lean`

Everything is about the executable definitions of `Model/C13.lean`.  This file holds
* the hypotheses under which reported shapes and produced shapes agree (`Geom.NoUnitFun`,
  `Geom.NoUnitPar`, `Geom.Squeezes`, `Geom.BatchFun2parOK`, `Geom.Valid`),
* `Arr.Eqv` ("the same numpy array": same shape, same entries at the flat positions `< size`),
* the conversion chains (`Conv`, `Samples.convert`, `Samples.chain`, `CConv`, `CArr.chain`) and the
  per-sample system of maps a geometry induces (`Sys`, `sysOf`),
* helper lemmas (named `lemma`; the property statements are the `theorem`s of the Props file).
-/

namespace CuqiVerif.C13

/-! ## arrays up to unread entries -/

/-- two models of the same numpy array: equal shapes and equal entries at all flat positions
    `< size` (positions `≥ size` do not exist in numpy; the model never reads them). -/
def Arr.Eqv (x y : Arr) : Prop := x.shape = y.shape ∧ ∀ t, t < x.size → x.get t = y.get t

lemma Arr.Eqv.refl (x : Arr) : x.Eqv x := ⟨rfl, fun _ _ => rfl⟩

lemma Arr.Eqv.size_eq {x y : Arr} (h : x.Eqv y) : x.size = y.size := by
  simp [Arr.size, h.1]

lemma Arr.Eqv.symm {x y : Arr} (h : x.Eqv y) : y.Eqv x :=
  ⟨h.1.symm, fun t ht => (h.2 t (by rw [h.size_eq]; exact ht)).symm⟩

lemma Arr.Eqv.trans {x y z : Arr} (h : x.Eqv y) (h' : y.Eqv z) : x.Eqv z :=
  ⟨h.1.trans h'.1, fun t ht => (h.2 t ht).trans (h'.2 t (by rw [← h.size_eq]; exact ht))⟩

lemma prod_single (n : ℕ) : prod [n] = n := by simp [prod]
lemma prod_two (a b : ℕ) : prod [a, b] = a * b := by simp [prod]
lemma prod_three (a b c : ℕ) : prod [a, b, c] = a * b * c := by simp [prod, Nat.mul_assoc]

lemma prod_append (l₁ l₂ : List ℕ) : prod (l₁ ++ l₂) = prod l₁ * prod l₂ := by
  induction l₁ with
  | nil => simp [prod]
  | cons d ds ih => simp [prod, ih, Nat.mul_assoc]

lemma prod_squeezeShape (s : List ℕ) : prod (squeezeShape s) = prod s := by
  induction s with
  | nil => rfl
  | cons d ds ih =>
    unfold squeezeShape at ih ⊢
    by_cases hd : d = 1
    · subst hd
      rw [List.filter_cons_of_neg (by simp), ih]; simp [prod]
    · rw [List.filter_cons_of_pos (by simp [hd])]
      simp only [prod, ih]

lemma squeezeShape_append_single (s : List ℕ) (ns : ℕ) (hns : ns ≠ 1) :
    squeezeShape (s ++ [ns]) = squeezeShape s ++ [ns] := by
  simp [squeezeShape, List.filter_append, List.filter, hns]

lemma squeezeShape_append_one (s : List ℕ) : squeezeShape (s ++ [1]) = squeezeShape s := by
  simp [squeezeShape, List.filter_append, List.filter]

/-! ## the unit-axis hypotheses -/

/-- no unit axis where the code's bare `squeeze()` would change the *function-value* shape:
    `Continuous2D` needs both grid axes `≠ 1`, `StepExpansion` a grid with `≠ 1` node
    (`MappedGeometry` infers its `fun_shape` from `par2fun`, so it needs nothing). -/
def Geom.NoUnitFun : Geom → Prop
  | .cont2D a b => a ≠ 1 ∧ b ≠ 1
  | .step grid _ _ _ => grid.length ≠ 1
  | _ => True

/-- no unit axis where `squeeze()` would change the *parameter* shape: `Continuous2D` with
    `par_dim ≠ 1`, `StepExpansion` with `n_steps ≠ 1`, and the same for the wrapped geometry. -/
def Geom.NoUnitPar : Geom → Prop
  | .cont2D a b => a * b ≠ 1
  | .step _ _ s _ => s ≠ 1
  | .mapped g _ _ _ => g.NoUnitPar
  | _ => True

/-- geometries whose maps end in a `squeeze` (a one-column batch loses its sample axis) -/
def Geom.Squeezes : Geom → Prop
  | .cont2D _ _ => True
  | .image _ _ _ v => v = false
  | .step _ _ _ _ => True
  | .mapped g _ _ _ => g.Squeezes
  | _ => False

/-- geometries whose `fun2par` keeps the sample axis of a batch: everything except a (non visual)
    `Image2D`, alone or wrapped -/
def Geom.BatchFun2parOK : Geom → Prop
  | .image _ _ _ v => v = true
  | .mapped g _ _ _ => g.BatchFun2parOK
  | _ => True

/-- the sizes for which the constructor/`par2fun` of the code work at all -/
def Geom.Valid : Geom → Prop
  | .cont2D a b => a * b ≠ 0
  | .image a b _ v => v = true ∨ a * b ≠ 0
  | .step _ _ s _ => s ≠ 0
  | .mapped g _ _ _ => g.Valid
  | _ => True

/-- `par_dim` -/
def Geom.parDim (g : Geom) : ℕ := prod g.parShape

lemma parShape_eq (g : Geom) : g.parShape = [g.parDim] := by
  unfold Geom.parDim
  induction g with
  | mapped g _ _ _ ih => simpa [Geom.parShape] using ih
  | _ => simp [Geom.parShape, prod]

lemma ones_shape (g : Geom) : (ones (prod g.parShape)).shape = g.parShape := by
  rw [show prod g.parShape = g.parDim from rfl, parShape_eq g]; rfl

/-! ## output shapes depend on input shapes only -/

lemma size_congr {x x' : Arr} (h : x.shape = x'.shape) : x.size = x'.size := by
  simp [Arr.size, h]

lemma imageVectorToImage_shape (a b : ℕ) (o : Bool) (x : Arr) :
    (imageVectorToImage a b o x).map (·.shape) =
      if a * b = 0 ∨ x.size % (a * b) ≠ 0 then none
      else some (if x.size / (a * b) = 1 then [a, b] else [a, b, x.size / (a * b)]) := by
  unfold imageVectorToImage
  simp only
  split_ifs <;> simp [Arr.gather, reshapeFgen]

lemma batchOf_congr (m : ℕ) {x x' : Arr} (h : x.shape = x'.shape) : batchOf m x = batchOf m x' := by
  unfold batchOf; rw [h]

lemma stepPar2fun_shape (b g : ℕ → ℚ) (n s : ℕ) (x : Arr) :
    (stepPar2fun b g n s x).map (·.shape) =
      (batchOf s x).bind fun ns => if s = 0 then none else some (squeezeShape [n, ns]) := by
  unfold stepPar2fun
  cases batchOf s x with
  | none => rfl
  | some ns => by_cases hs : s = 0 <;> simp [hs, Arr.squeeze]

lemma stepFun2par_shape (b g : ℕ → ℚ) (n s : ℕ) (pr : Proj) (x : Arr) :
    (stepFun2par b g n s pr x).map (·.shape) =
      match batchOf n x with
      | none => .error "raise"
      | some ns =>
        if s = 0 then .error "raise" else
        if ((List.range s).any fun i => (stepVals b g n (fun _ => 0) i).isEmpty) then
          (if pr = .mean then .error "nan" else .error "raise")
        else .ok (squeezeShape [s, ns]) := by
  unfold stepFun2par
  cases batchOf n x with
  | none => rfl
  | some ns =>
    simp only
    split_ifs <;> rfl

lemma par2fun_shape_congr (g : Geom) (x x' : Arr) (h : x.shape = x'.shape) :
    (g.par2fun x).map (·.shape) = (g.par2fun x').map (·.shape) := by
  induction g generalizing x x' with
  | cont1D n => simp [Geom.par2fun, h]
  | discrete n => simp [Geom.par2fun, h]
  | cont2D a b =>
    simp only [Geom.par2fun, cont2DPar2fun, size_congr h]
    split_ifs <;> simp [Arr.squeeze]
  | image a b o v =>
    cases v with
    | true => simp [Geom.par2fun, h]
    | false =>
      simp only [Geom.par2fun, Bool.false_eq_true, if_false]
      rw [imageVectorToImage_shape, imageVectorToImage_shape, size_congr h]
  | step grid bs s pr =>
    simp only [Geom.par2fun]
    rw [stepPar2fun_shape, stepPar2fun_shape, batchOf_congr s h]
  | mapped g sc sh inv ih =>
    simp only [Geom.par2fun, Option.map_map]
    exact ih x x' h

lemma imageRavel_shape (o : Bool) (x : Arr) : (imageRavel o x).shape = [x.size] := by
  unfold imageRavel
  cases o with
  | false => rfl
  | true =>
    simp only [Bool.not_true, Bool.false_eq_true, if_false]
    split <;> rfl

lemma fun2par_shape_congr (g : Geom) (x x' : Arr) (h : x.shape = x'.shape) :
    (g.fun2par x).map (·.shape) = (g.fun2par x').map (·.shape) := by
  induction g generalizing x x' with
  | cont1D n => simp [Geom.fun2par, Except.map, h]
  | discrete n => simp [Geom.fun2par, Except.map, h]
  | cont2D a b =>
    simp only [Geom.fun2par, cont2DFun2par, size_congr h]
    split_ifs <;> simp [Except.map, Arr.squeeze]
  | image a b o v =>
    cases v with
    | true => simp [Geom.fun2par, Except.map, h]
    | false => simp [Geom.fun2par, Except.map, imageRavel_shape, size_congr h]
  | step grid bs s pr =>
    simp only [Geom.fun2par]
    rw [stepFun2par_shape, stepFun2par_shape, batchOf_congr _ h]
  | mapped g sc sh inv ih =>
    simp only [Geom.fun2par]
    split_ifs
    · rfl
    · exact ih _ _ h

/-! ## the shape calculus of `par2fun` / `fun2par` -/

def batchOfShape (m : ℕ) : List ℕ → Option ℕ
  | [d] => if d = m then some 1 else none
  | [d, ns] => if d = m then some ns else none
  | _ => none

lemma batchOf_eq (m : ℕ) (x : Arr) : batchOf m x = batchOfShape m x.shape := by
  unfold batchOf batchOfShape; rfl

/-- shape of `g.par2fun x` as a function of `x.shape` -/
def p2fShape : Geom → List ℕ → Option (List ℕ)
  | .cont1D _, sh => some sh
  | .discrete _, sh => some sh
  | .cont2D a b, sh =>
      if a * b = 0 ∨ prod sh % (a * b) ≠ 0 then none else some (squeezeShape [a, b, prod sh / (a * b)])
  | .image a b _ v, sh =>
      if v then some sh else
      if a * b = 0 ∨ prod sh % (a * b) ≠ 0 then none
      else some (if prod sh / (a * b) = 1 then [a, b] else [a, b, prod sh / (a * b)])
  | .step grid _ s _, sh =>
      (batchOfShape s sh).bind fun ns => if s = 0 then none else some (squeezeShape [grid.length, ns])
  | .mapped g _ _ _, sh => p2fShape g sh

lemma par2fun_shape (g : Geom) (x : Arr) : (g.par2fun x).map (·.shape) = p2fShape g x.shape := by
  induction g generalizing x with
  | cont1D n => simp [Geom.par2fun, p2fShape]
  | discrete n => simp [Geom.par2fun, p2fShape]
  | cont2D a b =>
    simp only [Geom.par2fun, cont2DPar2fun, p2fShape]
    by_cases hc : a * b = 0 ∨ x.size % (a * b) ≠ 0
    · rw [if_pos hc, if_pos (show a * b = 0 ∨ prod x.shape % (a * b) ≠ 0 from hc)]; rfl
    · rw [if_neg hc, if_neg (show ¬ (a * b = 0 ∨ prod x.shape % (a * b) ≠ 0) from hc)]; rfl
  | image a b o v =>
    cases v with
    | true => simp [Geom.par2fun, p2fShape]
    | false =>
      simp only [Geom.par2fun, Bool.false_eq_true, if_false, p2fShape]
      rw [imageVectorToImage_shape]; rfl
  | step grid bs s pr =>
    simp only [Geom.par2fun, p2fShape]
    rw [stepPar2fun_shape, batchOf_eq]
  | mapped g sc sh inv ih =>
    simp only [Geom.par2fun, Option.map_map, p2fShape]
    exact ih x

lemma par2fun_shape_of_some {g : Geom} {x y : Arr} (h : g.par2fun x = some y) :
    p2fShape g x.shape = some y.shape := by
  rw [← par2fun_shape, h]; rfl

lemma par2fun_some_of_shape {g : Geom} {x : Arr} {sh : List ℕ} (h : p2fShape g x.shape = some sh) :
    ∃ y, g.par2fun x = some y ∧ y.shape = sh := by
  rw [← par2fun_shape] at h
  obtain ⟨y, hy, hs⟩ := Option.map_eq_some_iff.mp h
  exact ⟨y, hy, hs⟩

/-- single parameter vector: the produced shape, with the unit-axis cases visible -/
lemma p2fShape_single (g : Geom) (hv : g.Valid) :
    ∃ sh, p2fShape g g.parShape = some sh := by
  induction g with
  | cont1D n => exact ⟨_, rfl⟩
  | discrete n => exact ⟨_, rfl⟩
  | cont2D a b =>
    have hab : a * b ≠ 0 := hv
    simp [p2fShape, Geom.parShape, prod, hab]
  | image a b o v =>
    cases v with
    | true => exact ⟨_, rfl⟩
    | false =>
      have hab : a * b ≠ 0 := by
        rcases hv with h | h
        · cases h
        · exact h
      simp [p2fShape, Geom.parShape, prod, hab]
  | step grid bs s pr =>
    have hs : s ≠ 0 := hv
    simp [p2fShape, Geom.parShape, batchOfShape, hs]
  | mapped g sc sh inv ih => exact ih hv

lemma p2fShape_single_noUnit (g : Geom) (hg : g.NoUnitFun) (sh : List ℕ)
    (h : p2fShape g g.parShape = some sh) : g.funShape = some sh := by
  cases g with
  | cont1D n => simpa [p2fShape, Geom.parShape, Geom.funShape] using h
  | discrete n => simpa [p2fShape, Geom.parShape, Geom.funShape] using h
  | cont2D a b =>
    obtain ⟨ha, hb⟩ : a ≠ 1 ∧ b ≠ 1 := hg
    simp only [p2fShape, Geom.parShape, prod, Nat.mul_one] at h
    split_ifs at h with hc
    rw [not_or, not_not] at hc
    rw [Nat.div_self (Nat.pos_of_ne_zero hc.1)] at h
    simp [squeezeShape, List.filter, ha, hb] at h
    simp [Geom.funShape, h]
  | image a b o v =>
    cases v with
    | true => simpa [p2fShape, Geom.parShape, Geom.funShape] using h
    | false =>
      simp only [p2fShape, Geom.parShape, prod, Nat.mul_one, Bool.false_eq_true, if_false] at h
      split_ifs at h with hc h1
      · simpa [Geom.funShape] using h
      · rw [not_or, not_not] at hc
        exact absurd (Nat.div_self (Nat.pos_of_ne_zero hc.1)) h1
  | step grid bs s pr =>
    have hn : grid.length ≠ 1 := hg
    simp only [p2fShape, Geom.parShape, batchOfShape, if_true, Option.bind_some] at h
    split_ifs at h
    simp [squeezeShape, List.filter, hn] at h
    simp [Geom.funShape, h]
  | mapped g sc sh' inv =>
    simp only [Geom.funShape]
    rw [par2fun_shape, ones_shape]
    exact h

lemma p2fShape_batch (g : Geom) (ns : ℕ) (hns : ns ≠ 1) (s0 s1 : List ℕ)
    (h0 : p2fShape g g.parShape = some s0) (h1 : p2fShape g (g.parShape ++ [ns]) = some s1) :
    s1 = s0 ++ [ns] := by
  induction g with
  | cont1D n => simp [p2fShape, Geom.parShape] at h0 h1; simp [← h0, ← h1]
  | discrete n => simp [p2fShape, Geom.parShape] at h0 h1; simp [← h0, ← h1]
  | cont2D a b =>
    simp only [p2fShape, Geom.parShape, List.cons_append, List.nil_append, prod, Nat.mul_one] at h0 h1
    split_ifs at h0 h1 with hc0 hc1
    rw [not_or, not_not] at hc0
    rw [Nat.div_self (Nat.pos_of_ne_zero hc0.1)] at h0
    rw [Nat.mul_div_cancel_left _ (Nat.pos_of_ne_zero hc0.1)] at h1
    have e1 := squeezeShape_append_single [a, b] ns hns
    have e0 := squeezeShape_append_one [a, b]
    simp only [List.cons_append, List.nil_append] at e0 e1
    rw [e0] at h0; rw [e1] at h1
    cases h0; cases h1; rfl
  | image a b o v =>
    cases v with
    | true => simp [p2fShape, Geom.parShape] at h0 h1; simp [← h0, ← h1]
    | false =>
      simp only [p2fShape, Geom.parShape, List.cons_append, List.nil_append, prod, Nat.mul_one,
        Bool.false_eq_true, if_false] at h0 h1
      split_ifs at h0 h1 with hc0 hd0 hc1 hd1 hc1 hd1
      all_goals rw [not_or, not_not] at hc0
      all_goals have hpos := Nat.pos_of_ne_zero hc0.1
      · rw [Nat.mul_div_cancel_left _ hpos] at hd1; exact absurd hd1 hns
      · rw [Nat.mul_div_cancel_left _ hpos] at h1; cases h0; cases h1; rfl
      · exact absurd (Nat.div_self hpos) hd0
      · exact absurd (Nat.div_self hpos) hd0
  | step grid bs s pr =>
    simp only [p2fShape, Geom.parShape, List.cons_append, List.nil_append, batchOfShape, if_true,
      Option.bind_some] at h0 h1
    split_ifs at h0 h1
    have e1 := squeezeShape_append_single [grid.length] ns hns
    have e0 := squeezeShape_append_one [grid.length]
    simp only [List.cons_append, List.nil_append] at e0 e1
    rw [e0] at h0; rw [e1] at h1
    cases h0; cases h1; rfl
  | mapped g sc sh inv ih => exact ih h0 h1

lemma p2fShape_batch_one_squeezes (g : Geom) (hg : g.Squeezes) :
    p2fShape g (g.parShape ++ [1]) = p2fShape g g.parShape := by
  induction g with
  | cont1D n => exact absurd hg id
  | discrete n => exact absurd hg id
  | cont2D a b =>
    simp [p2fShape, Geom.parShape, prod]
  | image a b o v =>
    have hv : v = false := hg
    subst hv
    simp [p2fShape, Geom.parShape, prod]
  | step grid bs s pr =>
    simp [p2fShape, Geom.parShape, batchOfShape]
  | mapped g sc sh inv ih => exact ih hg

lemma p2fShape_batch_noSqueeze (g : Geom) (hg : ¬ g.Squeezes) (ns : ℕ) :
    p2fShape g (g.parShape ++ [ns]) = (p2fShape g g.parShape).map (· ++ [ns]) := by
  induction g with
  | cont1D n => rfl
  | discrete n => rfl
  | cont2D a b => exact absurd trivial hg
  | image a b o v =>
    cases v with
    | true => rfl
    | false => exact absurd rfl hg
  | step grid bs s pr => exact absurd trivial hg
  | mapped g sc sh inv ih => exact ih hg

/-- shape of `g.fun2par x` (when it succeeds) as a function of `x.shape` -/
def f2pShape : Geom → List ℕ → Option (List ℕ)
  | .cont1D _, sh => some sh
  | .discrete _, sh => some sh
  | .cont2D a b, sh =>
      if a * b = 0 ∨ prod sh % (a * b) ≠ 0 then none else some (squeezeShape [a * b, prod sh / (a * b)])
  | .image _ _ _ v, sh => if v then some sh else some [prod sh]
  | .step grid _ s _, sh =>
      (batchOfShape grid.length sh).bind fun ns => if s = 0 then none else some (squeezeShape [s, ns])
  | .mapped g _ _ _, sh => f2pShape g sh

lemma fun2par_shape_of_ok (g : Geom) (x z : Arr) (h : g.fun2par x = .ok z) :
    f2pShape g x.shape = some z.shape := by
  induction g generalizing x z with
  | cont1D n => simp only [Geom.fun2par] at h; cases h; rfl
  | discrete n => simp only [Geom.fun2par] at h; cases h; rfl
  | cont2D a b =>
    simp only [Geom.fun2par, cont2DFun2par] at h
    simp only [f2pShape]
    by_cases hc : a * b = 0 ∨ x.size % (a * b) ≠ 0
    · rw [if_pos hc] at h; cases h
    · rw [if_neg hc] at h
      rw [if_neg (show ¬ (a * b = 0 ∨ prod x.shape % (a * b) ≠ 0) from hc)]
      cases h; rfl
  | image a b o v =>
    cases v with
    | true => simp only [Geom.fun2par, if_true] at h; cases h; rfl
    | false =>
      simp only [Geom.fun2par, Bool.false_eq_true, if_false] at h
      cases h
      simp [f2pShape, imageRavel_shape, Arr.size]
  | step grid bs s pr =>
    have hs := stepFun2par_shape (stepB grid bs s) (lget grid) grid.length s pr x
    simp only [Geom.fun2par] at h
    rw [h, batchOf_eq] at hs
    simp only [f2pShape]
    cases hb : batchOfShape grid.length x.shape with
    | none => rw [hb] at hs; simp [Except.map] at hs
    | some ns =>
      rw [hb] at hs
      simp only [Except.map] at hs
      split_ifs at hs with h1 h2 h3
      · simp only [Option.bind_some, if_neg h1]
        have := Except.ok.inj hs
        rw [← this]
  | mapped g sc sh inv ih =>
    simp only [Geom.fun2par] at h
    split_ifs at h
    exact ih ⟨x.shape, fun t => (x.get t - sh) / sc⟩ z h

lemma f2pShape_single (g : Geom) (hg : g.NoUnitPar) (s0 sz : List ℕ)
    (h0 : p2fShape g g.parShape = some s0) (h : f2pShape g s0 = some sz) : sz = g.parShape := by
  induction g with
  | cont1D n => simp [p2fShape, Geom.parShape, f2pShape] at h0 h ⊢; rw [← h, ← h0]
  | discrete n => simp [p2fShape, Geom.parShape, f2pShape] at h0 h ⊢; rw [← h, ← h0]
  | cont2D a b =>
    have hab1 : a * b ≠ 1 := hg
    simp only [p2fShape, Geom.parShape, prod, Nat.mul_one] at h0
    split_ifs at h0 with hc0
    rw [not_or, not_not] at hc0
    have hpos := Nat.pos_of_ne_zero hc0.1
    cases h0
    simp only [f2pShape, prod_squeezeShape, prod_three, Nat.div_self hpos, Nat.mul_one,
      Nat.mod_self] at h
    simp [hc0.1, squeezeShape, List.filter, hab1] at h
    simp [Geom.parShape, h]
  | image a b o v =>
    cases v with
    | true => simp [p2fShape, Geom.parShape, f2pShape] at h0 h ⊢; rw [← h, ← h0]
    | false =>
      simp only [p2fShape, Geom.parShape, prod, Nat.mul_one, Bool.false_eq_true, if_false] at h0
      split_ifs at h0 with hc0 hd0
      · cases h0
        simp [f2pShape, prod] at h
        simp [Geom.parShape, ← h]
      · rw [not_or, not_not] at hc0
        exact absurd (Nat.div_self (Nat.pos_of_ne_zero hc0.1)) hd0
  | step grid bs s pr =>
    have hs1 : s ≠ 1 := hg
    simp only [p2fShape, Geom.parShape, batchOfShape, if_true, Option.bind_some] at h0
    split_ifs at h0 with hs0
    cases h0
    simp only [f2pShape] at h
    by_cases hn : grid.length = 1
    · simp [hn, squeezeShape, List.filter, batchOfShape] at h
    · simp [squeezeShape, List.filter, hn, batchOfShape, hs0, hs1] at h
      simp [Geom.parShape, h]
  | mapped g sc sh inv ih => exact ih hg h0 h

lemma f2pShape_batch (g : Geom) (hg : g.NoUnitPar) (hb : g.BatchFun2parOK) (ns : ℕ) (hns : ns ≠ 1)
    (s0 sz : List ℕ) (h0 : p2fShape g g.parShape = some s0) (h : f2pShape g (s0 ++ [ns]) = some sz) :
    sz = g.parShape ++ [ns] := by
  induction g with
  | cont1D n => simp [p2fShape, Geom.parShape, f2pShape] at h0 h ⊢; rw [← h, ← h0]; rfl
  | discrete n => simp [p2fShape, Geom.parShape, f2pShape] at h0 h ⊢; rw [← h, ← h0]; rfl
  | cont2D a b =>
    have hab1 : a * b ≠ 1 := hg
    simp only [p2fShape, Geom.parShape, prod, Nat.mul_one] at h0
    split_ifs at h0 with hc0
    rw [not_or, not_not] at hc0
    have hpos := Nat.pos_of_ne_zero hc0.1
    cases h0
    simp only [f2pShape, prod_append, prod_squeezeShape, prod_three, prod_single, Nat.div_self hpos,
      Nat.mul_one, Nat.mul_mod_right, Nat.mul_div_cancel_left _ hpos] at h
    simp [hc0.1, squeezeShape, List.filter, hab1, hns] at h
    simp [Geom.parShape, h]
  | image a b o v =>
    have hv : v = true := hb
    subst hv
    simp [p2fShape, Geom.parShape, f2pShape] at h0 h ⊢; rw [← h, ← h0]; rfl
  | step grid bs s pr =>
    have hs1 : s ≠ 1 := hg
    simp only [p2fShape, Geom.parShape, batchOfShape, if_true, Option.bind_some] at h0
    split_ifs at h0 with hs0
    cases h0
    simp only [f2pShape] at h
    by_cases hn : grid.length = 1
    · simp [hn, squeezeShape, List.filter, batchOfShape, hns] at h
    · simp [squeezeShape, List.filter, hn, batchOfShape, hs0, hs1, hns] at h
      simp [Geom.parShape, h]
  | mapped g sc sh inv ih => exact ih hg hb h0 h

/-- if a batch is accepted then so is a single vector -/
lemma p2fShape_single_of_batch (g : Geom) (ns : ℕ) (s1 : List ℕ)
    (h1 : p2fShape g (g.parShape ++ [ns]) = some s1) : ∃ s0, p2fShape g g.parShape = some s0 := by
  induction g with
  | cont1D n => exact ⟨_, rfl⟩
  | discrete n => exact ⟨_, rfl⟩
  | cont2D a b =>
    simp only [p2fShape, Geom.parShape, List.cons_append, List.nil_append, prod, Nat.mul_one] at h1 ⊢
    split_ifs at h1 with c1
    rw [not_or, not_not] at c1
    simp [c1.1]
  | image a b o v =>
    cases v with
    | true => exact ⟨_, rfl⟩
    | false =>
      simp only [p2fShape, Geom.parShape, List.cons_append, List.nil_append, prod, Nat.mul_one,
        Bool.false_eq_true, if_false] at h1 ⊢
      split_ifs at h1 with c1 c2
      all_goals rw [not_or, not_not] at c1
      all_goals simp [c1.1]
  | step grid bs s pr =>
    simp only [p2fShape, Geom.parShape, List.cons_append, List.nil_append, batchOfShape, if_true,
      Option.bind_some] at h1 ⊢
    split_ifs at h1 with c1
    simp [c1]
  | mapped g sc sh inv ih => exact ih h1

/-! ## `fun2vec` / `vec2fun` / `funvec_shape` -/

lemma fun2vec_cont1D (n : ℕ) (x : Arr) : (Geom.cont1D n).fun2vec x = .ok x := by
  simp [Geom.fun2vec, Geom.baseVec, Geom.funShape]
lemma fun2vec_discrete (n : ℕ) (x : Arr) : (Geom.discrete n).fun2vec x = .ok x := by
  simp [Geom.fun2vec, Geom.baseVec, Geom.funShape]
lemma fun2vec_step (grid : List ℚ) (bs : Option (List ℚ)) (s : ℕ) (pr : Proj) (x : Arr) :
    (Geom.step grid bs s pr).fun2vec x = .ok x := by
  simp [Geom.fun2vec, Geom.baseVec, Geom.funShape]
lemma fun2vec_cont2D (a b : ℕ) (x : Arr) : (Geom.cont2D a b).fun2vec x = .error "raise" := by
  simp [Geom.fun2vec, Geom.baseVec, Geom.funShape]
lemma vec2fun_cont1D (n : ℕ) (x : Arr) : (Geom.cont1D n).vec2fun x = some x := by
  simp [Geom.vec2fun, Geom.baseVec, Geom.funShape]
lemma vec2fun_discrete (n : ℕ) (x : Arr) : (Geom.discrete n).vec2fun x = some x := by
  simp [Geom.vec2fun, Geom.baseVec, Geom.funShape]
lemma vec2fun_step (grid : List ℚ) (bs : Option (List ℚ)) (s : ℕ) (pr : Proj) (x : Arr) :
    (Geom.step grid bs s pr).vec2fun x = some x := by
  simp [Geom.vec2fun, Geom.baseVec, Geom.funShape]
lemma vec2fun_cont2D (a b : ℕ) (x : Arr) : (Geom.cont2D a b).vec2fun x = none := by
  simp [Geom.vec2fun, Geom.baseVec, Geom.funShape]

lemma fun2vec_shape_congr (g : Geom) (x x' : Arr) (h : x.shape = x'.shape) :
    (g.fun2vec x).map (·.shape) = (g.fun2vec x').map (·.shape) := by
  induction g generalizing x x' with
  | cont1D n => simp [fun2vec_cont1D, Except.map, h]
  | discrete n => simp [fun2vec_discrete, Except.map, h]
  | cont2D a b => simp [fun2vec_cont2D, Except.map]
  | image a b o v => simp only [Geom.fun2vec]; exact fun2par_shape_congr _ x x' h
  | step grid bs s pr => simp [fun2vec_step, Except.map, h]
  | mapped g sc sh inv ih => simp only [Geom.fun2vec]; exact ih x x' h

lemma except_map_ok {α β : Type} {e : Except String α} {f : α → β} {b : β}
    (h : e.map f = .ok b) : ∃ a, e = .ok a ∧ f a = b := by
  cases e with
  | error _ => simp [Except.map] at h
  | ok a => exact ⟨a, rfl, by simpa [Except.map] using h⟩

/-- the generic inference of `funvec_shape` (for non-image geometries) returns the shape of
    `fun2vec(par2fun x)` for any `x` of the parameter shape -/
lemma funvecShape_generic (g : Geom) (x f v : Arr) (hx : x.shape = g.parShape)
    (hf : g.par2fun x = some f) (hv : g.fun2vec f = .ok v) (h1 : v.shape.length = 1) :
    (match g.par2fun (ones (prod g.parShape)) with
      | none => none
      | some f =>
        match g.fun2vec f with
        | .ok v => if v.shape.length = 1 then some v.shape else none
        | .error _ => none) = some v.shape := by
  have e := par2fun_shape_congr g (ones (prod g.parShape)) x (by rw [ones_shape, hx])
  rw [hf] at e
  obtain ⟨f', hf', hs'⟩ := Option.map_eq_some_iff.mp e
  have e2 := fun2vec_shape_congr g f' f hs'
  rw [hv] at e2
  obtain ⟨v', hv', hvs'⟩ := except_map_ok e2
  simp only at hvs'
  rw [hf']
  simp only [hv', hvs', h1, if_true]

lemma funvecShape_matches (g : Geom) (x f v : Arr) (hx : x.shape = g.parShape)
    (hf : g.par2fun x = some f) (hv : g.fun2vec f = .ok v) (h1 : v.shape.length = 1) :
    g.funvecShape = some v.shape := by
  cases g with
  | image a b o v' =>
    simp only [Geom.funvecShape]
    have hs := par2fun_shape_of_some hf
    rw [hx] at hs
    cases v' with
    | true =>
      simp only [Geom.par2fun, if_true] at hf
      simp only [Geom.fun2vec, Geom.fun2par, if_true] at hv
      cases hf; cases hv; rw [hx]; rfl
    | false =>
      simp only [Geom.fun2vec, Geom.fun2par, Bool.false_eq_true, if_false] at hv
      cases hv
      rw [imageRavel_shape]
      simp only [p2fShape, Geom.parShape, prod, Nat.mul_one, Bool.false_eq_true, if_false] at hs
      split_ifs at hs with hc hd
      · have := Option.some.inj hs
        simp [Arr.size, ← this, prod]
      · rw [not_or, not_not] at hc
        exact absurd (Nat.div_self (Nat.pos_of_ne_zero hc.1)) hd
  | cont1D n => simp only [Geom.funvecShape]; exact funvecShape_generic _ x f v hx hf hv h1
  | discrete n => simp only [Geom.funvecShape]; exact funvecShape_generic _ x f v hx hf hv h1
  | cont2D a b => simp only [Geom.funvecShape]; exact funvecShape_generic _ x f v hx hf hv h1
  | step grid bs s pr => simp only [Geom.funvecShape]; exact funvecShape_generic _ x f v hx hf hv h1
  | mapped g sc sh inv => simp only [Geom.funvecShape]; exact funvecShape_generic _ x f v hx hf hv h1

/-! ## broadcasting assignment of an array of the target's shape is a copy -/

lemma prod_pos_of_lt {sh : List ℕ} {t : ℕ} (h : t < prod sh) : 0 < prod sh := by omega

lemma bcast_index (sh : List ℕ) : ∀ t, t < prod sh →
    ravelC sh (List.zipWith (fun v i => if v = 1 then 0 else i) sh (unravelC sh t)) = t := by
  induction sh with
  | nil => intro t ht; simp [prod] at ht; simp [ravelC, ht]
  | cons d ds ih =>
    intro t ht
    simp only [prod] at ht
    have hP : 0 < prod ds := by
      rcases Nat.eq_zero_or_pos (prod ds) with h | h
      · rw [h] at ht; simp at ht
      · exact h
    simp only [unravelC, List.zipWith_cons_cons, ravelC]
    rw [ih (t % prod ds) (Nat.mod_lt _ hP)]
    by_cases hd : d = 1
    · subst hd
      simp only [if_true, Nat.zero_mul, Nat.zero_add]
      rw [Nat.one_mul] at ht
      exact Nat.mod_eq_of_lt ht
    · simp only [hd, if_false]
      exact Nat.div_add_mod' t (prod ds)

lemma zipWith_self_all (sh : List ℕ) :
    (List.zipWith (fun v t => decide (v = t ∨ v = 1)) sh sh).all id = true := by
  induction sh with
  | nil => rfl
  | cons d ds ih => simp

/-- `target[...] = y` with `y` of the target's shape: a copy -/
lemma broadcastTo_same (y : Arr) (sh : List ℕ) (h : y.shape = sh) :
    ∃ y', broadcastTo y sh = some y' ∧ y'.Eqv y := by
  unfold broadcastTo
  simp only [h, Nat.sub_self, List.take_zero, List.any_nil, Bool.false_eq_true, if_false,
    List.drop_zero, List.replicate_zero, List.nil_append, zipWith_self_all, if_true]
  refine ⟨_, rfl, h.symm, ?_⟩
  intro t ht
  simp only [Arr.size] at ht
  simp only
  rw [bcast_index sh t ht]

lemma arr_ext (x y : Arr) (hs : x.shape = y.shape) (hg : x.get = y.get) : x = y := by
  cases x; cases y; simp only at hs hg; rw [hs, hg]

/-- what `convertAll` returned, read column by column -/
lemma convertAll_cols (sh : List ℕ) (s : Samples) (conv : Arr → Option Arr) (out : Arr)
    (h : convertAll sh s conv = some out) :
    out.shape = sh ++ [s.ns] ∧
      ∀ i, i < s.ns → (conv (s.arr.col s.ns i)).bind (fun v => broadcastTo v sh) = some (out.col s.ns i) := by
  unfold convertAll at h
  simp only at h
  split_ifs at h with hall
  have hout := Option.some.inj h
  subst hout
  refine ⟨rfl, ?_⟩
  intro i hi
  rw [List.all_eq_true] at hall
  have hsome := hall i (List.mem_range.mpr hi)
  obtain ⟨w, hw⟩ := Option.isSome_iff_exists.mp hsome
  rw [hw]
  have hshape : w.shape = sh := by
    cases hc : conv (s.arr.col s.ns i) with
    | none => rw [hc] at hw; simp at hw
    | some v => rw [hc] at hw; exact broadcastTo_shape v sh w hw
  have hns : 0 < s.ns := by omega
  congr 1
  apply arr_ext
  · simp [Arr.col, assemble, hshape]
  · funext r
    have hd : (r * s.ns + i) / s.ns = r := by
      rw [Nat.mul_comm, Nat.mul_add_div hns, Nat.div_eq_of_lt hi, Nat.add_zero]
    have hm : (r * s.ns + i) % s.ns = i := by
      rw [Nat.mul_add_mod_self_right, Nat.mod_eq_of_lt hi]
    show w.get r = (((conv (s.arr.col s.ns ((r * s.ns + i) % s.ns))).bind fun v => broadcastTo v sh).getD
      ⟨[], fun _ => 0⟩).get ((r * s.ns + i) / s.ns)
    rw [hd, hm, hw]
    rfl

/-! ## conversion chains: the flag automaton on one sample -/

/-- one conversion request: `.parameters`, `.funvals`, `.vector` -/
inductive Conv | parameters | funvals | vector
  deriving DecidableEq, Repr

/-- the per-sample maps a geometry offers to the containers (`v2p` is `vec2fun` followed by `fun2par`,
    which `Samples.parameters` composes without an intermediate assignment); `oneD` says whether
    function values are flagged as vectors (`len(fun_shape) ≤ 1`, i.e. `funvals.ndim ≤ 2`). -/
structure Sys (X : Type) where
  p2f : X → Option X
  f2p : X → Option X
  f2v : X → Option X
  v2f : X → Option X
  v2p : X → Option X
  oneD : Bool

/-- one sample with the two flags of `Samples` -/
structure St (X : Type) where
  data : X
  isPar : Bool
  isVec : Bool

/-- the flag automaton of `Samples.funvals/.vector/.parameters` on one sample -/
def Sys.convert {X : Type} (M : Sys X) : Conv → St X → Option (St X)
  | .funvals, s =>
      if !s.isPar && !s.isVec then some s else
      ((if s.isPar then M.p2f else M.v2f) s.data).map fun d => ⟨d, false, M.oneD⟩
  | .vector, s =>
      if s.isVec || s.isPar then some s else (M.f2v s.data).map fun d => ⟨d, s.isPar, true⟩
  | .parameters, s =>
      if s.isPar then some s else
      ((if !s.isVec then M.f2p else M.v2p) s.data).map fun d => ⟨d, true, true⟩

/-- a chain of conversions of arbitrary length -/
def Sys.chain {X : Type} (M : Sys X) : List Conv → St X → Option (St X)
  | [], s => some s
  | c :: cs, s => (M.convert c s).bind (M.chain cs)

/-- "the maps are mutually inverse", stated with partial equivalence relations
    (`RP x x'`: `x` and `x'` are the same well-formed parameter value, …):
    all maps respect the relations, `f2p ∘ p2f ~ id`, `v2f ∘ f2v ~ id`, `v2p ~ f2p ∘ v2f`, and where
    function values are flagged as vectors `f2v` is the identity. -/
structure Sys.Lossless {X : Type} (M : Sys X) (RP RF RV : X → X → Prop) : Prop where
  symP : ∀ x y, RP x y → RP y x
  transP : ∀ x y z, RP x y → RP y z → RP x z
  symF : ∀ x y, RF x y → RF y x
  transF : ∀ x y z, RF x y → RF y z → RF x z
  symV : ∀ x y, RV x y → RV y x
  transV : ∀ x y z, RV x y → RV y z → RV x z
  hp2f : ∀ x x', RP x x' → ∃ y y', M.p2f x = some y ∧ M.p2f x' = some y' ∧ RF y y'
  hf2p : ∀ f f', RF f f' → ∃ z z', M.f2p f = some z ∧ M.f2p f' = some z' ∧ RP z z'
  hrt : ∀ x y z, RP x x → M.p2f x = some y → M.f2p y = some z → RP z x
  hf2v : ∀ f f' v, RF f f' → M.f2v f = some v → ∃ v', M.f2v f' = some v' ∧ RV v v'
  hv2f : ∀ v v', RV v v' → ∃ f f', M.v2f v = some f ∧ M.v2f v' = some f' ∧ RF f f'
  hvrt : ∀ f v f', RF f f → M.f2v f = some v → M.v2f v = some f' → RF f' f
  hv2p : ∀ v v' f, RV v v' → RF f f → M.f2v f = some v' →
    ∃ z z', M.v2p v = some z ∧ M.f2p f = some z' ∧ RP z z'
  h1D : M.oneD = true → ∀ f f', RF f f' → RV f f' ∧ ∃ v, M.f2v f' = some v ∧ RV v f'

/-- what a sample in a chain started from the parameter value `p` looks like -/
def Sys.Inv {X : Type} (M : Sys X) (RP RF RV : X → X → Prop) (p : X) (s : St X) : Prop :=
  if s.isPar then RP s.data p
  else if !s.isVec then ∃ f, M.p2f p = some f ∧ RF s.data f
  else ∃ f v, M.p2f p = some f ∧ M.f2v f = some v ∧ RV s.data v

section chain
variable {X : Type} {M : Sys X} {RP RF RV : X → X → Prop}

lemma Sys.Lossless.reflF_of_p2f (L : M.Lossless RP RF RV) {p f : X} (hp : RP p p)
    (hf : M.p2f p = some f) : RF f f := by
  obtain ⟨y, y', h1, h2, h3⟩ := L.hp2f p p hp
  rw [hf] at h1 h2
  cases h1; cases h2; exact h3

lemma Sys.Lossless.inv_fun (L : M.Lossless RP RF RV) {p f y : X} (_hp : RP p p)
    (hf : M.p2f p = some f) (hy : RF y f) : M.Inv RP RF RV p ⟨y, false, M.oneD⟩ := by
  unfold Sys.Inv
  simp only [Bool.false_eq_true, if_false]
  cases h1 : M.oneD with
  | false => simp only [Bool.not_false, if_true]; exact ⟨f, hf, hy⟩
  | true =>
    simp only [Bool.not_true, Bool.false_eq_true, if_false]
    obtain ⟨hyf, v, hv, hvf⟩ := L.h1D h1 y f hy
    exact ⟨f, v, hf, hv, L.transV _ _ _ hyf (L.symV _ _ hvf)⟩

lemma Sys.Lossless.convert_inv (L : M.Lossless RP RF RV) (p : X) (hp : RP p p) (c : Conv)
    (s s' : St X) (hI : M.Inv RP RF RV p s) (h : M.convert c s = some s') : M.Inv RP RF RV p s' := by
  cases c with
  | funvals =>
    simp only [Sys.convert] at h
    by_cases h0 : (!s.isPar && !s.isVec) = true
    · rw [if_pos h0] at h; cases h; exact hI
    · rw [if_neg h0] at h
      obtain ⟨d, hd, rfl⟩ := Option.map_eq_some_iff.mp h
      unfold Sys.Inv at hI
      cases hpar : s.isPar with
      | true =>
        simp only [hpar, if_true] at hI hd
        obtain ⟨y, y', h1, h2, h3⟩ := L.hp2f _ _ hI
        rw [hd] at h1; cases h1
        exact L.inv_fun hp h2 h3
      | false =>
        have hvec : s.isVec = true := by
          cases hv : s.isVec with
          | true => rfl
          | false => simp [hpar, hv] at h0
        simp only [hpar, hvec, Bool.false_eq_true, if_false, Bool.not_true] at hI hd
        obtain ⟨f, v, hf, hv, hr⟩ := hI
        obtain ⟨y, y', h1, h2, h3⟩ := L.hv2f _ _ hr
        rw [hd] at h1; cases h1
        have := L.hvrt f v y' (L.reflF_of_p2f hp hf) hv h2
        exact L.inv_fun hp hf (L.transF _ _ _ h3 this)
  | vector =>
    simp only [Sys.convert] at h
    by_cases h0 : (s.isVec || s.isPar) = true
    · rw [if_pos h0] at h; cases h; exact hI
    · rw [if_neg h0] at h
      obtain ⟨d, hd, rfl⟩ := Option.map_eq_some_iff.mp h
      have hpar : s.isPar = false := by
        cases hq : s.isPar with
        | false => rfl
        | true => simp [hq] at h0
      have hvec : s.isVec = false := by
        cases hq : s.isVec with
        | false => rfl
        | true => simp [hq] at h0
      unfold Sys.Inv at hI ⊢
      simp only [hpar, hvec, Bool.false_eq_true, if_false, Bool.not_false, if_true] at hI
      simp only [hpar, Bool.false_eq_true, if_false, Bool.not_true]
      obtain ⟨f, hf, hr⟩ := hI
      obtain ⟨v', hv', hr'⟩ := L.hf2v _ _ _ hr hd
      exact ⟨f, v', hf, hv', hr'⟩
  | parameters =>
    simp only [Sys.convert] at h
    by_cases h0 : s.isPar = true
    · rw [if_pos h0] at h; cases h; exact hI
    · rw [if_neg h0] at h
      obtain ⟨d, hd, rfl⟩ := Option.map_eq_some_iff.mp h
      have hpar : s.isPar = false := by simpa using h0
      unfold Sys.Inv at hI ⊢
      simp only [if_true]
      cases hvec : s.isVec with
      | false =>
        simp only [hpar, hvec, Bool.false_eq_true, if_false, Bool.not_false, if_true] at hI hd
        obtain ⟨f, hf, hr⟩ := hI
        obtain ⟨z, z', h1, h2, h3⟩ := L.hf2p _ _ hr
        rw [hd] at h1; cases h1
        exact L.transP _ _ _ h3 (L.hrt p f z' hp hf h2)
      | true =>
        simp only [hpar, hvec, Bool.false_eq_true, if_false, Bool.not_true] at hI hd
        obtain ⟨f, v, hf, hv, hr⟩ := hI
        obtain ⟨z, z', h1, h2, h3⟩ := L.hv2p _ _ f hr (L.reflF_of_p2f hp hf) hv
        rw [hd] at h1; cases h1
        exact L.transP _ _ _ h3 (L.hrt p f z' hp hf h2)

lemma Sys.Lossless.chain_inv (L : M.Lossless RP RF RV) (p : X) (hp : RP p p) :
    ∀ (cs : List Conv) (s s' : St X), M.Inv RP RF RV p s → M.chain cs s = some s' →
      M.Inv RP RF RV p s' := by
  intro cs
  induction cs with
  | nil => intro s s' hI h; simp only [Sys.chain] at h; cases h; exact hI
  | cons c cs ih =>
    intro s s' hI h
    simp only [Sys.chain] at h
    obtain ⟨s1, h1, h2⟩ := Option.bind_eq_some_iff.mp h
    exact ih s1 s' (L.convert_inv p hp c s s1 hI h1) h2

/-- in every state of the invariant, converting to parameters succeeds and returns `p` -/
lemma Sys.Lossless.inv_parameters (L : M.Lossless RP RF RV) (p : X) (hp : RP p p) (s : St X)
    (hI : M.Inv RP RF RV p s) :
    ∃ s'', M.convert .parameters s = some s'' ∧ s''.isPar = true ∧ RP s''.data p := by
  simp only [Sys.convert]
  unfold Sys.Inv at hI
  cases hpar : s.isPar with
  | true =>
    simp only [hpar, if_true] at hI ⊢
    exact ⟨s, rfl, hpar, hI⟩
  | false =>
    simp only [Bool.false_eq_true, if_false]
    cases hvec : s.isVec with
    | false =>
      simp only [hpar, hvec, Bool.false_eq_true, if_false, Bool.not_false, if_true] at hI ⊢
      obtain ⟨f, hf, hr⟩ := hI
      obtain ⟨z, z', h1, h2, h3⟩ := L.hf2p _ _ hr
      exact ⟨⟨z, true, true⟩, by rw [h1]; rfl, rfl, L.transP _ _ _ h3 (L.hrt p f z' hp hf h2)⟩
    | true =>
      simp only [hpar, hvec, Bool.false_eq_true, if_false, Bool.not_true] at hI ⊢
      obtain ⟨f, v, hf, hv, hr⟩ := hI
      obtain ⟨z, z', h1, h2, h3⟩ := L.hv2p _ _ f hr (L.reflF_of_p2f hp hf) hv
      exact ⟨⟨z, true, true⟩, by rw [h1]; rfl, rfl, L.transP _ _ _ h3 (L.hrt p f z' hp hf h2)⟩

end chain

/-! ## `Samples` / `CUQIarray` chains and the per-sample system of a geometry -/

def Samples.convert (g : Geom) : Conv → Samples → Option Samples
  | .parameters, s => s.parameters g
  | .funvals, s => s.funvals g
  | .vector, s => s.vector g

/-- `s.c₁.c₂. … .cₖ` for an arbitrary list of conversion requests -/
def Samples.chain (g : Geom) : List Conv → Samples → Option Samples
  | [], s => some s
  | c :: cs, s => (Samples.convert g c s).bind (Samples.chain g cs)

/-- the per-sample maps `Samples` applies for geometry `g`: the geometry's map followed by the
    broadcasting assignment into the slice of the pre-allocated result -/
def sysOf (g : Geom) : Sys Arr where
  p2f x := match g.funShape with
    | none => none
    | some fs => (g.par2fun x).bind (fun v => broadcastTo v fs)
  v2f x := match g.funShape with
    | none => none
    | some fs => (g.vec2fun x).bind (fun v => broadcastTo v fs)
  f2v x := match g.funvecShape with
    | none => none
    | some vs => (optOfExcept (g.fun2vec x)).bind (fun v => broadcastTo v [prod vs])
  f2p x := (optOfExcept (g.fun2par x)).bind (fun v => broadcastTo v [prod g.parShape])
  v2p x := ((g.vec2fun x).bind (fun f => optOfExcept (g.fun2par f))).bind
    (fun v => broadcastTo v [prod g.parShape])
  oneD := match g.funShape with
    | none => false
    | some fs => decide (fs.length ≤ 1)

/-- sample `i` of a collection, with the collection's flags -/
def Samples.colSt (s : Samples) (ns i : ℕ) : St Arr := ⟨s.arr.col ns i, s.isPar, s.isVec⟩

lemma Sys.convert_funvals_noop {X : Type} (M : Sys X) (s : St X) (h0 : (!s.isPar && !s.isVec) = true) :
    M.convert .funvals s = some s := by simp only [Sys.convert, if_pos h0]
lemma Sys.convert_funvals_conv {X : Type} (M : Sys X) (s : St X) (h0 : ¬ (!s.isPar && !s.isVec) = true) :
    M.convert .funvals s =
      ((if s.isPar then M.p2f else M.v2f) s.data).map fun d => ⟨d, false, M.oneD⟩ := by
  simp only [Sys.convert, if_neg h0]
lemma Sys.convert_vector_noop {X : Type} (M : Sys X) (s : St X) (h0 : (s.isVec || s.isPar) = true) :
    M.convert .vector s = some s := by simp only [Sys.convert, if_pos h0]
lemma Sys.convert_vector_conv {X : Type} (M : Sys X) (s : St X) (h0 : ¬ (s.isVec || s.isPar) = true) :
    M.convert .vector s = (M.f2v s.data).map fun d => ⟨d, s.isPar, true⟩ := by
  simp only [Sys.convert, if_neg h0]
lemma Sys.convert_parameters_noop {X : Type} (M : Sys X) (s : St X) (h0 : s.isPar = true) :
    M.convert .parameters s = some s := by simp only [Sys.convert, if_pos h0]
lemma Sys.convert_parameters_conv {X : Type} (M : Sys X) (s : St X) (h0 : ¬ s.isPar = true) :
    M.convert .parameters s =
      ((if !s.isVec then M.f2p else M.v2p) s.data).map fun d => ⟨d, true, true⟩ := by
  simp only [Sys.convert, if_neg h0]

lemma samples_convert_col (g : Geom) (c : Conv) (s s' : Samples)
    (h : Samples.convert g c s = some s') :
    s'.ns = s.ns ∧ ∀ i, i < s.ns → (sysOf g).convert c (s.colSt s.ns i) = some (s'.colSt s.ns i) := by
  cases c with
  | funvals =>
    simp only [Samples.convert, Samples.funvals] at h
    by_cases h0 : (!s.isPar && !s.isVec) = true
    · rw [if_pos h0] at h; cases h
      exact ⟨rfl, fun i _ => Sys.convert_funvals_noop _ (s.colSt s.ns i) h0⟩
    · rw [if_neg h0] at h
      cases hfs : g.funShape with
      | none => rw [hfs] at h; cases h
      | some fs =>
        rw [hfs] at h
        obtain ⟨out, hout, rfl⟩ := Option.map_eq_some_iff.mp h
        obtain ⟨hsh, hcols⟩ := convertAll_cols fs s _ out hout
        refine ⟨by simp [Samples.ns, hsh], ?_⟩
        intro i hi
        rw [Sys.convert_funvals_conv _ (s.colSt s.ns i) h0]
        have hflag : decide (out.shape.length ≤ 2) = (sysOf g).oneD := by
          simp [sysOf, hfs, hsh]
        have := hcols i hi
        show Option.map (fun d => (⟨d, false, (sysOf g).oneD⟩ : St Arr))
          ((if s.isPar then (sysOf g).p2f else (sysOf g).v2f) (s.arr.col s.ns i)) =
            some ⟨out.col s.ns i, false, decide (out.shape.length ≤ 2)⟩
        rw [hflag]
        cases hp : s.isPar with
        | true =>
          simp only [hp, if_true] at this ⊢
          simp only [sysOf, hfs, this, Option.map_some]
        | false =>
          simp only [hp, Bool.false_eq_true, if_false] at this ⊢
          simp only [sysOf, hfs, this, Option.map_some]
  | vector =>
    simp only [Samples.convert, Samples.vector] at h
    by_cases h0 : (s.isVec || s.isPar) = true
    · rw [if_pos h0] at h; cases h
      exact ⟨rfl, fun i _ => Sys.convert_vector_noop _ (s.colSt s.ns i) h0⟩
    · rw [if_neg h0] at h
      cases hvs : g.funvecShape with
      | none => rw [hvs] at h; cases h
      | some vs =>
        rw [hvs] at h
        obtain ⟨out, hout, rfl⟩ := Option.map_eq_some_iff.mp h
        obtain ⟨hsh, hcols⟩ := convertAll_cols _ s _ out hout
        refine ⟨by simp [Samples.ns, hsh], ?_⟩
        intro i hi
        rw [Sys.convert_vector_conv _ (s.colSt s.ns i) h0]
        have := hcols i hi
        show Option.map (fun d => (⟨d, s.isPar, true⟩ : St Arr)) ((sysOf g).f2v (s.arr.col s.ns i)) =
            some ⟨out.col s.ns i, s.isPar, true⟩
        simp only [sysOf, hvs, this, Option.map_some]
  | parameters =>
    simp only [Samples.convert, Samples.parameters] at h
    by_cases h0 : s.isPar = true
    · rw [if_pos h0] at h; cases h
      exact ⟨rfl, fun i _ => Sys.convert_parameters_noop _ (s.colSt s.ns i) h0⟩
    · rw [if_neg h0] at h
      obtain ⟨out, hout, rfl⟩ := Option.map_eq_some_iff.mp h
      obtain ⟨hsh, hcols⟩ := convertAll_cols _ s _ out hout
      refine ⟨by simp [Samples.ns, hsh], ?_⟩
      intro i hi
      rw [Sys.convert_parameters_conv _ (s.colSt s.ns i) h0]
      have := hcols i hi
      show Option.map (fun d => (⟨d, true, true⟩ : St Arr))
          ((if !s.isVec then (sysOf g).f2p else (sysOf g).v2p) (s.arr.col s.ns i)) =
            some ⟨out.col s.ns i, true, true⟩
      cases hv : s.isVec with
      | true =>
        simp only [hv, Bool.not_true, Bool.false_eq_true, if_false] at this ⊢
        simp only [sysOf, this, Option.map_some]
      | false =>
        simp only [hv, Bool.not_false, if_true] at this ⊢
        simp only [sysOf, this, Option.map_some]

lemma samples_chain_col (g : Geom) : ∀ (cs : List Conv) (s s' : Samples),
    Samples.chain g cs s = some s' →
    s'.ns = s.ns ∧ ∀ i, i < s.ns → (sysOf g).chain cs (s.colSt s.ns i) = some (s'.colSt s.ns i) := by
  intro cs
  induction cs with
  | nil =>
    intro s s' h
    simp only [Samples.chain] at h; cases h
    exact ⟨rfl, fun i _ => rfl⟩
  | cons c cs ih =>
    intro s s' h
    simp only [Samples.chain] at h
    obtain ⟨s1, h1, h2⟩ := Option.bind_eq_some_iff.mp h
    obtain ⟨e1, c1⟩ := samples_convert_col g c s s1 h1
    obtain ⟨e2, c2⟩ := ih s1 s' h2
    refine ⟨e2.trans e1, ?_⟩
    intro i hi
    simp only [Sys.chain, c1 i hi, Option.bind_some]
    rw [← e1]
    exact c2 i (by rw [e1]; exact hi)

/-! ## "the maps of `g` are mutually inverse" at the level of the model's arrays -/

/-- `φ` is defined on every array of shape `shIn`, returns shape `shOut`, and does not look at
    entries outside the array -/
def RespectsOn (φ : Arr → Option Arr) (shIn shOut : List ℕ) : Prop :=
  ∀ x x', x.shape = shIn → x.Eqv x' →
    ∃ y y', φ x = some y ∧ φ x' = some y' ∧ y.Eqv y' ∧ y.shape = shOut

/-- **The geometry's maps are mutually inverse** (on single vectors, for the reported shapes):
    `par2fun : par_shape → fun_shape` and `fun2par : fun_shape → par_shape` are defined and read only
    the entries of their argument, `fun2par (par2fun x) = x`, and — where a vector representation
    exists — the same for `fun2vec`/`vec2fun` with `vec2fun (fun2vec f) = f`; where function values
    are 1-D, `fun2vec` is the identity. -/
structure Geom.Lossless (g : Geom) (fs : List ℕ) : Prop where
  hfs : g.funShape = some fs
  p2f : RespectsOn g.par2fun g.parShape fs
  f2p : RespectsOn (fun f => optOfExcept (g.fun2par f)) fs g.parShape
  rt : ∀ x y z, x.shape = g.parShape → g.par2fun x = some y → g.fun2par y = .ok z → z.Eqv x
  f2v : ∀ vs, g.funvecShape = some vs → RespectsOn (fun f => optOfExcept (g.fun2vec f)) fs [prod vs]
  v2f : ∀ vs, g.funvecShape = some vs → RespectsOn g.vec2fun [prod vs] fs
  vrt : ∀ f v f', f.shape = fs → g.fun2vec f = .ok v → g.vec2fun v = some f' → f'.Eqv f
  oneD : fs.length ≤ 1 → ∃ vs, g.funvecShape = some vs ∧ [prod vs] = fs ∧
    ∀ f, f.shape = fs → g.fun2vec f = .ok f

lemma optOfExcept_eq_some {e : Except String Arr} {y : Arr} : optOfExcept e = some y ↔ e = .ok y := by
  cases e with
  | error s => simp [optOfExcept]
  | ok a => simp [optOfExcept]

lemma respects_bcast {φ : Arr → Option Arr} {shIn shOut : List ℕ} (h : RespectsOn φ shIn shOut)
    (x x' : Arr) (hx : x.shape = shIn) (hxx : x.Eqv x') :
    ∃ y y' w w', φ x = some y ∧ φ x' = some y' ∧ y.Eqv y' ∧ y.shape = shOut ∧
      (φ x).bind (fun v => broadcastTo v shOut) = some w ∧
      (φ x').bind (fun v => broadcastTo v shOut) = some w' ∧ w.Eqv y ∧ w'.Eqv y' := by
  obtain ⟨y, y', h1, h2, h3, h4⟩ := h x x' hx hxx
  obtain ⟨w, hw, hwy⟩ := broadcastTo_same y shOut h4
  obtain ⟨w', hw', hwy'⟩ := broadcastTo_same y' shOut (h3.1 ▸ h4)
  exact ⟨y, y', w, w', h1, h2, h3, h4, by rw [h1]; exact hw, by rw [h2]; exact hw', hwy, hwy'⟩

def Geom.RP (g : Geom) (x y : Arr) : Prop := x.shape = g.parShape ∧ x.Eqv y
def Geom.RF (fs : List ℕ) (x y : Arr) : Prop := x.shape = fs ∧ x.Eqv y
def Geom.RV (g : Geom) (x y : Arr) : Prop :=
  ∃ vs, g.funvecShape = some vs ∧ x.shape = [prod vs] ∧ x.Eqv y

lemma prod_parShape (g : Geom) : [prod g.parShape] = g.parShape := (parShape_eq g).symm

lemma Geom.Lossless.toSys {g : Geom} {fs : List ℕ} (L : g.Lossless fs) :
    (sysOf g).Lossless g.RP (Geom.RF fs) g.RV where
  symP := fun x y h => ⟨h.2.1 ▸ h.1, h.2.symm⟩
  transP := fun x y z h h' => ⟨h.1, h.2.trans h'.2⟩
  symF := fun x y h => ⟨h.2.1 ▸ h.1, h.2.symm⟩
  transF := fun x y z h h' => ⟨h.1, h.2.trans h'.2⟩
  symV := fun x y ⟨vs, h1, h2, h3⟩ => ⟨vs, h1, h3.1 ▸ h2, h3.symm⟩
  transV := fun x y z ⟨vs, h1, h2, h3⟩ ⟨_, _, _, h3'⟩ => ⟨vs, h1, h2, h3.trans h3'⟩
  hp2f := by
    intro x x' ⟨hx, hxx⟩
    obtain ⟨y, y', w, w', h1, h2, h3, h4, h5, h6, h7, h8⟩ := respects_bcast L.p2f x x' hx hxx
    refine ⟨w, w', by simp only [sysOf, L.hfs]; exact h5, by simp only [sysOf, L.hfs]; exact h6, ?_, ?_⟩
    · rw [h7.1, h4]
    · exact h7.trans (h3.trans h8.symm)
  hf2p := by
    intro f f' ⟨hf, hff⟩
    obtain ⟨y, y', w, w', h1, h2, h3, h4, h5, h6, h7, h8⟩ := respects_bcast L.f2p f f' hf hff
    rw [← prod_parShape g] at h5 h6
    refine ⟨w, w', h5, h6, ?_, ?_⟩
    · rw [h7.1, h4]
    · exact h7.trans (h3.trans h8.symm)
  hrt := by
    intro x w z ⟨hx, _⟩ hw hz
    obtain ⟨y, _, w0, _, h1, _, _, h4, h5, _, h7, _⟩ := respects_bcast L.p2f x x hx (Arr.Eqv.refl x)
    have hw' : (sysOf g).p2f x = some w0 := by simp only [sysOf, L.hfs]; exact h5
    rw [hw] at hw'; cases hw'
    obtain ⟨u, u', z0, _, g1, g2, g3, g4, g5, _, g7, _⟩ :=
      respects_bcast L.f2p w y (by rw [h7.1, h4]) h7
    rw [← prod_parShape g] at g5
    have hz' : (sysOf g).f2p w = some z0 := g5
    rw [hz] at hz'; cases hz'
    have := L.rt x y u' hx h1 (optOfExcept_eq_some.mp g2)
    exact ⟨by rw [g7.1, g4], g7.trans (g3.trans this)⟩
  hf2v := by
    intro f f' v ⟨hf, hff⟩ hv
    cases hvs : g.funvecShape with
    | none => simp [sysOf, hvs] at hv
    | some vs =>
      obtain ⟨y, y', w, w', h1, h2, h3, h4, h5, h6, h7, h8⟩ := respects_bcast (L.f2v vs hvs) f f' hf hff
      have hv' : (sysOf g).f2v f = some w := by simp only [sysOf, hvs]; exact h5
      rw [hv] at hv'; cases hv'
      exact ⟨w', by simp only [sysOf, hvs]; exact h6, vs, hvs, by rw [h7.1, h4], h7.trans (h3.trans h8.symm)⟩
  hv2f := by
    intro v v' ⟨vs, hvs, hv, hvv⟩
    obtain ⟨y, y', w, w', h1, h2, h3, h4, h5, h6, h7, h8⟩ := respects_bcast (L.v2f vs hvs) v v' hv hvv
    refine ⟨w, w', by simp only [sysOf, L.hfs]; exact h5, by simp only [sysOf, L.hfs]; exact h6, ?_, ?_⟩
    · rw [h7.1, h4]
    · exact h7.trans (h3.trans h8.symm)
  hvrt := by
    intro f v f' ⟨hf, _⟩ hv hf'
    cases hvs : g.funvecShape with
    | none => simp [sysOf, hvs] at hv
    | some vs =>
      obtain ⟨y, _, w, _, h1, _, _, h4, h5, _, h7, _⟩ :=
        respects_bcast (L.f2v vs hvs) f f hf (Arr.Eqv.refl f)
      have hv' : (sysOf g).f2v f = some w := by simp only [sysOf, hvs]; exact h5
      rw [hv] at hv'; cases hv'
      obtain ⟨u, u', z0, _, g1, g2, g3, g4, g5, _, g7, _⟩ :=
        respects_bcast (L.v2f vs hvs) v y (by rw [h7.1, h4]) h7
      have hz' : (sysOf g).v2f v = some z0 := by simp only [sysOf, L.hfs]; exact g5
      rw [hf'] at hz'; cases hz'
      have := L.vrt f y u' hf (optOfExcept_eq_some.mp h1) g2
      exact ⟨by rw [g7.1, g4], g7.trans (g3.trans this)⟩
  hv2p := by
    intro v v' f ⟨vs, hvs, hv, hvv⟩ ⟨hf, _⟩ hfv
    -- `v'` is the broadcast copy of `fun2vec f`
    obtain ⟨y, _, w, _, h1, _, _, h4, h5, _, h7, _⟩ :=
      respects_bcast (L.f2v vs hvs) f f hf (Arr.Eqv.refl f)
    have hv' : (sysOf g).f2v f = some w := by simp only [sysOf, hvs]; exact h5
    rw [hfv] at hv'; cases hv'
    -- vec2fun on `v ≈ v' ≈ y`
    obtain ⟨u, u', g1, g2, g3, g4⟩ := L.v2f vs hvs v y hv (hvv.trans h7)
    have huf : u'.Eqv f := L.vrt f y u' hf (optOfExcept_eq_some.mp h1) g2
    -- fun2par on `u ≈ f`
    obtain ⟨z, z', t, t', k1, k2, k3, k4, k5, k6, k7, k8⟩ :=
      respects_bcast L.f2p u f g4 (g3.trans huf)
    rw [← prod_parShape g] at k5 k6
    refine ⟨t, t', ?_, k6, ?_, ?_⟩
    · simp only [sysOf, g1, Option.bind_some]
      simp only [k1, Option.bind_some] at k5
      rw [k1]; exact k5
    · rw [k7.1, k4]
    · exact k7.trans (k3.trans k8.symm)
  h1D := by
    intro h1 f f' ⟨hf, hff⟩
    have hlen : fs.length ≤ 1 := by simpa [sysOf, L.hfs] using h1
    obtain ⟨vs, hvs, hpv, hid⟩ := L.oneD hlen
    refine ⟨⟨vs, hvs, by rw [hpv]; exact hf, hff⟩, ?_⟩
    have hf' : f'.shape = fs := hff.1 ▸ hf
    obtain ⟨w, hw, hwy⟩ := broadcastTo_same f' [prod vs] (by rw [hpv]; exact hf')
    refine ⟨w, ?_, vs, hvs, by rw [hwy.1, hpv]; exact hf', hwy⟩
    simp only [sysOf, hvs, hid f' hf', optOfExcept, Option.bind_some]
    exact hw

/-! ## the geometries, one by one -/

lemma eqv_of_get {sh : List ℕ} {f f' : ℕ → ℚ} (h : ∀ t, t < prod sh → f t = f' t) :
    (⟨sh, f⟩ : Arr).Eqv ⟨sh, f'⟩ := ⟨rfl, fun t ht => h t ht⟩

/-- identity-type geometries (`Continuous1D`, `Discrete`, the default 1-D geometry, visual-only images) -/
lemma lossless_of_identity (g : Geom) (n : ℕ) (hps : g.parShape = [n]) (hfs : g.funShape = some [n])
    (hp : ∀ x, g.par2fun x = some x) (hf : ∀ x, g.fun2par x = .ok x)
    (hv : ∀ x, g.fun2vec x = .ok x) (hw : ∀ x, g.vec2fun x = some x) : g.Lossless [n] := by
  have hvs : g.funvecShape = some [n] := by
    have := funvecShape_matches g (ones (prod g.parShape)) _ _ (ones_shape g) (hp _) (hv _)
      (by rw [ones_shape, hps]; rfl)
    rw [this, ones_shape, hps]
  have hid : ∀ sh : List ℕ, RespectsOn some sh sh := fun sh x x' hx hxx => ⟨x, x', rfl, rfl, hxx, hx⟩
  have hpn : [prod [n]] = [n] := by simp [prod]
  refine ⟨hfs, ?_, ?_, ?_, ?_, ?_, ?_, ?_⟩
  · rw [hps, show g.par2fun = some from funext hp]; exact hid _
  · rw [hps, show (fun f => optOfExcept (g.fun2par f)) = some from funext fun f => by rw [hf]; rfl]
    exact hid _
  · intro x y z _ h1 h2
    rw [hp] at h1; rw [hf] at h2; cases h1; cases h2; exact Arr.Eqv.refl _
  · intro vs h
    rw [hvs] at h; cases h
    rw [hpn, show (fun f => optOfExcept (g.fun2vec f)) = some from funext fun f => by rw [hv]; rfl]
    exact hid _
  · intro vs h
    rw [hvs] at h; cases h
    rw [hpn, show g.vec2fun = some from funext hw]; exact hid _
  · intro f v f' _ h1 h2
    rw [hv] at h1; rw [hw] at h2; cases h1; cases h2; exact Arr.Eqv.refl _
  · intro _
    exact ⟨[n], hvs, hpn, fun f _ => hv f⟩

lemma lossless_cont1D (n : ℕ) : (Geom.cont1D n).Lossless [n] :=
  lossless_of_identity _ n rfl rfl (fun _ => rfl) (fun _ => rfl) (fun x => fun2vec_cont1D n x)
    (fun x => vec2fun_cont1D n x)

lemma lossless_discrete (n : ℕ) : (Geom.discrete n).Lossless [n] :=
  lossless_of_identity _ n rfl rfl (fun _ => rfl) (fun _ => rfl) (fun x => fun2vec_discrete n x)
    (fun x => vec2fun_discrete n x)

lemma lossless_image_visual (a b : ℕ) (o : Bool) : (Geom.image a b o true).Lossless [a * b] :=
  lossless_of_identity _ (a * b) rfl rfl (fun _ => rfl) (fun _ => rfl) (fun _ => rfl) (fun _ => rfl)

/-! ### Image2D -/

lemma imgFtoVec_lt (a b r : ℕ) (hr : r < a * b) : imgFtoVec a b r < a * b := by
  have hb0 : 0 < b := Nat.pos_of_ne_zero (by rintro rfl; simp at hr)
  have hq : r / b < a := by rw [Nat.div_lt_iff_lt_mul hb0]; exact hr
  have hm : r % b + 1 ≤ b := Nat.mod_lt _ hb0
  unfold imgFtoVec
  calc r / b + a * (r % b) < a + a * (r % b) := by omega
    _ = a * (r % b + 1) := by ring
    _ ≤ a * b := Nat.mul_le_mul_left _ hm

/-- index map of the image maps: identity for order C -/
def imgP2F (a b : ℕ) (o : Bool) (t : ℕ) : ℕ := if o then imgFtoVec a b t else t
def imgF2P (a b : ℕ) (o : Bool) (m : ℕ) : ℕ := if o then vecToImgF a b m else m

lemma image_par2fun_single (a b : ℕ) (o : Bool) (x : Arr) (hx : x.shape = [a * b]) (hab : a * b ≠ 0) :
    (Geom.image a b o false).par2fun x = some ⟨[a, b], fun t => x.get (imgP2F a b o t)⟩ := by
  have hsize : x.size = a * b := by simp [Arr.size, hx, prod]
  have hns : a * b / (a * b) = 1 := Nat.div_self (Nat.pos_of_ne_zero hab)
  cases o with
  | false => simp [Geom.par2fun, imageVectorToImage, hsize, hab, hns, imgP2F]
  | true =>
    simp only [Geom.par2fun, imageVectorToImage, hsize, hab, hns, hx, Arr.gather, imgP2F]
    simp [liftBatch, Nat.mod_one]

lemma image_fun2par_single (a b : ℕ) (o : Bool) (f : Arr) (hf : f.shape = [a, b]) :
    (Geom.image a b o false).fun2par f = .ok ⟨[a * b], fun m => f.get (imgF2P a b o m)⟩ := by
  obtain ⟨fsh, fget⟩ := f
  simp only at hf
  subst hf
  cases o with
  | false => simp [Geom.fun2par, imageRavel, Arr.size, prod, imgF2P]
  | true => simp [Geom.fun2par, imageRavel, Arr.size, prod, imgF2P, Arr.gather]

lemma imgP2F_lt (a b : ℕ) (o : Bool) (t : ℕ) (h : t < a * b) : imgP2F a b o t < a * b := by
  unfold imgP2F; cases o
  · simpa using h
  · simpa using imgFtoVec_lt a b t h

lemma imgF2P_lt (a b : ℕ) (o : Bool) (t : ℕ) (h : t < a * b) : imgF2P a b o t < a * b := by
  unfold imgF2P; cases o
  · simpa using h
  · simpa using vecToImgF_lt a b t h

lemma imgP2F_F2P (a b : ℕ) (o : Bool) (m : ℕ) (h : m < a * b) : imgP2F a b o (imgF2P a b o m) = m := by
  unfold imgP2F imgF2P; cases o
  · simp
  · simpa using imgF_index_roundtrip a b m h

lemma imgF2P_P2F (a b : ℕ) (o : Bool) (t : ℕ) (h : t < a * b) : imgF2P a b o (imgP2F a b o t) = t := by
  unfold imgP2F imgF2P; cases o
  · simp
  · simpa using imgF_index_roundtrip_inv a b t h

lemma respects_image_par2fun (a b : ℕ) (o : Bool) (hab : a * b ≠ 0) :
    RespectsOn (Geom.image a b o false).par2fun [a * b] [a, b] := by
  intro x x' hx hxx
  have hx' : x'.shape = [a * b] := hxx.1 ▸ hx
  refine ⟨_, _, image_par2fun_single a b o x hx hab, image_par2fun_single a b o x' hx' hab, ?_, rfl⟩
  apply eqv_of_get
  intro t ht
  rw [prod_two] at ht
  exact hxx.2 _ (by simp only [Arr.size, hx, prod_single]; exact imgP2F_lt a b o t ht)

lemma respects_image_fun2par (a b : ℕ) (o : Bool) :
    RespectsOn (fun f => optOfExcept ((Geom.image a b o false).fun2par f)) [a, b] [a * b] := by
  intro f f' hf hff
  have hf' : f'.shape = [a, b] := hff.1 ▸ hf
  refine ⟨_, _, by simp only [image_fun2par_single a b o f hf]; rfl,
    by simp only [image_fun2par_single a b o f' hf']; rfl, ?_, rfl⟩
  apply eqv_of_get
  intro t ht
  rw [prod_single] at ht
  exact hff.2 _ (by simp only [Arr.size, hf, prod_two]; exact imgF2P_lt a b o t ht)

lemma lossless_image (a b : ℕ) (o : Bool) (hab : a * b ≠ 0) : (Geom.image a b o false).Lossless [a, b] := by
  have hpn : [prod [a * b]] = [a * b] := by simp [prod]
  refine ⟨rfl, respects_image_par2fun a b o hab, respects_image_fun2par a b o, ?_, ?_, ?_, ?_, ?_⟩
  · intro x y z hx h1 h2
    have hx' : x.shape = [a * b] := hx
    rw [image_par2fun_single a b o x hx' hab] at h1
    cases h1
    rw [image_fun2par_single a b o _ rfl] at h2
    cases h2
    refine ⟨hx'.symm, ?_⟩
    intro m hm
    simp only [Arr.size, prod_single] at hm
    simp only [imgP2F_F2P a b o m hm]
  · intro vs h
    simp only [Geom.funvecShape] at h
    cases h
    rw [hpn]
    exact respects_image_fun2par a b o
  · intro vs h
    simp only [Geom.funvecShape] at h
    cases h
    rw [hpn]
    exact respects_image_par2fun a b o hab
  · intro f v f' hf h1 h2
    simp only [Geom.fun2vec] at h1
    simp only [Geom.vec2fun] at h2
    rw [image_fun2par_single a b o f hf] at h1
    cases h1
    rw [image_par2fun_single a b o _ rfl hab] at h2
    cases h2
    refine ⟨hf.symm, ?_⟩
    intro t ht
    simp only [Arr.size, prod_two] at ht
    simp only [imgF2P_P2F a b o t ht]
  · intro h; simp at h

/-! ### Continuous2D -/

lemma cont2D_par2fun_single (a b : ℕ) (x : Arr) (hx : x.shape = [a * b]) (hab : a * b ≠ 0)
    (ha : a ≠ 1) (hb : b ≠ 1) : (Geom.cont2D a b).par2fun x = some ⟨[a, b], x.get⟩ := by
  have hsize : x.size = a * b := by simp [Arr.size, hx, prod]
  have h1 : a * b / (a * b) = 1 := Nat.div_self (Nat.pos_of_ne_zero hab)
  simp [Geom.par2fun, cont2DPar2fun, hsize, hab, h1, Arr.squeeze, squeezeShape, List.filter, ha, hb]

lemma cont2D_fun2par_single (a b : ℕ) (f : Arr) (hf : f.shape = [a, b]) (hab : a * b ≠ 0)
    (hab1 : a * b ≠ 1) : (Geom.cont2D a b).fun2par f = .ok ⟨[a * b], f.get⟩ := by
  obtain ⟨fsh, fget⟩ := f
  simp only at hf
  subst hf
  have h1 : a * b / (a * b) = 1 := Nat.div_self (Nat.pos_of_ne_zero hab)
  simp [Geom.fun2par, cont2DFun2par, Arr.size, prod, hab, h1, Arr.squeeze, squeezeShape,
    List.filter, hab1]

lemma funvecShape_cont2D (a b : ℕ) : (Geom.cont2D a b).funvecShape = none := by
  simp only [Geom.funvecShape]
  cases (Geom.cont2D a b).par2fun (ones (prod (Geom.cont2D a b).parShape)) with
  | none => rfl
  | some f => simp [fun2vec_cont2D]

lemma lossless_cont2D (a b : ℕ) (hab : a * b ≠ 0) (ha : a ≠ 1) (hb : b ≠ 1) :
    (Geom.cont2D a b).Lossless [a, b] := by
  have hab1 : a * b ≠ 1 := fun h => ha (Nat.eq_one_of_mul_eq_one_right h)
  refine ⟨rfl, ?_, ?_, ?_, ?_, ?_, ?_, ?_⟩
  · intro x x' hx0 hxx
    have hx : x.shape = [a * b] := hx0
    have hx' : x'.shape = [a * b] := hxx.1 ▸ hx
    refine ⟨_, _, cont2D_par2fun_single a b x hx hab ha hb, cont2D_par2fun_single a b x' hx' hab ha hb,
      ?_, rfl⟩
    apply eqv_of_get
    intro t ht
    rw [prod_two] at ht
    exact hxx.2 t (by simp only [Arr.size, hx, prod_single]; exact ht)
  · intro f f' hf hff
    have hf' : f'.shape = [a, b] := hff.1 ▸ hf
    refine ⟨_, _, by simp only [cont2D_fun2par_single a b f hf hab hab1]; rfl,
      by simp only [cont2D_fun2par_single a b f' hf' hab hab1]; rfl, ?_, rfl⟩
    apply eqv_of_get
    intro t ht
    rw [prod_single] at ht
    exact hff.2 t (by simp only [Arr.size, hf, prod_two]; exact ht)
  · intro x y z hx h1 h2
    have hx' : x.shape = [a * b] := hx
    rw [cont2D_par2fun_single a b x hx' hab ha hb] at h1
    cases h1
    rw [cont2D_fun2par_single a b _ rfl hab hab1] at h2
    cases h2
    exact ⟨hx'.symm, fun _ _ => rfl⟩
  · intro vs h; rw [funvecShape_cont2D] at h; cases h
  · intro vs h; rw [funvecShape_cont2D] at h; cases h
  · intro f v f' _ h1 _; rw [fun2vec_cont2D] at h1; cases h1
  · intro h; simp at h

/-! ### StepExpansion -/

lemma stepFill_congr (b : ℕ → ℚ) (p p' : ℕ → ℚ) (x : ℚ) :
    ∀ s, (∀ i, i < s → p i = p' i) → stepFill b s p x = stepFill b s p' x := by
  intro s
  induction s with
  | zero => intro _; rfl
  | succ s ih =>
    intro h
    rw [stepFill_succ, stepFill_succ, h s (by omega), ih (fun i hi => h i (by omega))]

lemma stepVals_congr (b g : ℕ → ℚ) (n : ℕ) (f f' : ℕ → ℚ) (i : ℕ) (h : ∀ k, k < n → f k = f' k) :
    stepVals b g n f i = stepVals b g n f' i := by
  unfold stepVals
  apply List.map_congr_left
  intro k hk
  exact h k (List.mem_range.mp (List.mem_filter.mp hk).1)

lemma step_no_empty (b g : ℕ → ℚ) (n s : ℕ) (hne : ∀ i, i < s → ∃ k, k < n ∧ inStep b (g k) i = true) :
    ((List.range s).any fun i => (stepVals b g n (fun _ => 0) i).isEmpty) = false := by
  rw [List.any_eq_false]
  intro i hi
  obtain ⟨k, hk, hin⟩ := hne i (List.mem_range.mp hi)
  have hmem : k ∈ (List.range n).filter fun k => inStep b (g k) i := by
    simp [List.mem_filter, hk, hin]
  unfold stepVals
  intro hc
  rw [List.isEmpty_iff, List.map_eq_nil_iff] at hc
  rw [hc] at hmem
  exact absurd hmem List.not_mem_nil

/-- the hypotheses under which a step geometry's maps are mutually inverse: the sizes the code
    accepts without meeting a unit axis, and the intervals partition the nodes -/
structure StepOK (grid : List ℚ) (bs : Option (List ℚ)) (s : ℕ) : Prop where
  hs0 : s ≠ 0
  hs1 : s ≠ 1
  hn1 : grid.length ≠ 1
  huniq : ∀ k, k < grid.length → ∀ i, i < s → ∀ j, j < s →
    inStep (stepB grid bs s) (lget grid k) i = true → inStep (stepB grid bs s) (lget grid k) j = true → j = i
  hne : ∀ i, i < s → ∃ k, k < grid.length ∧ inStep (stepB grid bs s) (lget grid k) i = true

lemma step_par2fun_single (grid : List ℚ) (bs : Option (List ℚ)) (s : ℕ) (pr : Proj) (x : Arr)
    (hx : x.shape = [s]) (hs0 : s ≠ 0) (hn1 : grid.length ≠ 1) :
    (Geom.step grid bs s pr).par2fun x =
      some ⟨[grid.length], fun t => stepFill (stepB grid bs s) s x.get (lget grid t)⟩ := by
  simp [Geom.par2fun, stepPar2fun, batchOf, hx, hs0, Arr.squeeze, squeezeShape, List.filter, hn1,
    Nat.mod_one]

lemma step_fun2par_single (grid : List ℚ) (bs : Option (List ℚ)) (s : ℕ) (pr : Proj) (f : Arr)
    (hf : f.shape = [grid.length]) (hs0 : s ≠ 0) (hs1 : s ≠ 1)
    (hne : ∀ i, i < s → ∃ k, k < grid.length ∧ inStep (stepB grid bs s) (lget grid k) i = true) :
    (Geom.step grid bs s pr).fun2par f =
      .ok ⟨[s], fun t => (project pr (stepVals (stepB grid bs s) (lget grid) grid.length f.get t)).getD 0⟩ := by
  have he := step_no_empty (stepB grid bs s) (lget grid) grid.length s hne
  simp only [Geom.fun2par, stepFun2par, batchOf, hf, if_true, hs0, if_false, he, Bool.false_eq_true]
  simp [Arr.squeeze, squeezeShape, List.filter, hs1, Nat.mod_one]

lemma funvecShape_step (grid : List ℚ) (bs : Option (List ℚ)) (s : ℕ) (pr : Proj)
    (hs0 : s ≠ 0) (hn1 : grid.length ≠ 1) :
    (Geom.step grid bs s pr).funvecShape = some [grid.length] := by
  have := funvecShape_matches (Geom.step grid bs s pr) (ones (prod [s])) _ _ (by simp [ones, prod, Geom.parShape])
    (step_par2fun_single grid bs s pr _ (by simp [ones, prod]) hs0 hn1) (fun2vec_step _ _ _ _ _) rfl
  exact this

lemma lossless_step (grid : List ℚ) (bs : Option (List ℚ)) (s : ℕ) (pr : Proj) (h : StepOK grid bs s) :
    (Geom.step grid bs s pr).Lossless [grid.length] := by
  have hvs := funvecShape_step grid bs s pr h.hs0 h.hn1
  have hid : ∀ sh : List ℕ, RespectsOn some sh sh := fun sh x x' hx hxx => ⟨x, x', rfl, rfl, hxx, hx⟩
  have hpn : [prod [grid.length]] = [grid.length] := by simp [prod]
  refine ⟨rfl, ?_, ?_, ?_, ?_, ?_, ?_, ?_⟩
  · intro x x' hx0 hxx
    have hx : x.shape = [s] := hx0
    have hx' : x'.shape = [s] := hxx.1 ▸ hx
    refine ⟨_, _, step_par2fun_single grid bs s pr x hx h.hs0 h.hn1,
      step_par2fun_single grid bs s pr x' hx' h.hs0 h.hn1, ?_, rfl⟩
    apply eqv_of_get
    intro t _
    exact stepFill_congr _ _ _ _ s
      (fun i hi => hxx.2 i (by simp only [Arr.size, hx, prod_single]; exact hi))
  · intro f f' hf hff
    have hf' : f'.shape = [grid.length] := hff.1 ▸ hf
    refine ⟨_, _, by simp only [step_fun2par_single grid bs s pr f hf h.hs0 h.hs1 h.hne]; rfl,
      by simp only [step_fun2par_single grid bs s pr f' hf' h.hs0 h.hs1 h.hne]; rfl, ?_, rfl⟩
    apply eqv_of_get
    intro t _
    rw [stepVals_congr _ _ _ f.get f'.get t
      (fun k hk => hff.2 k (by simp only [Arr.size, hf, prod_single]; exact hk))]
  · intro x y z hx h1 h2
    have hx' : x.shape = [s] := hx
    rw [step_par2fun_single grid bs s pr x hx' h.hs0 h.hn1] at h1
    cases h1
    rw [step_fun2par_single grid bs s pr _ rfl h.hs0 h.hs1 h.hne] at h2
    cases h2
    refine ⟨hx'.symm, ?_⟩
    intro i hi
    simp only [Arr.size, prod_single] at hi
    simp only
    rw [step_fun2par_par2fun (stepB grid bs s) (lget grid) grid.length s x.get pr i hi
      (fun k hk j hj hin hjin => h.huniq k hk i hi j hj hin hjin) (h.hne i hi)]
    rfl
  · intro vs h'
    rw [hvs] at h'; cases h'
    rw [hpn, show (fun f => optOfExcept ((Geom.step grid bs s pr).fun2vec f)) = some from
      funext fun f => by rw [fun2vec_step]; rfl]
    exact hid _
  · intro vs h'
    rw [hvs] at h'; cases h'
    rw [hpn, show (Geom.step grid bs s pr).vec2fun = some from funext (vec2fun_step _ _ _ _)]
    exact hid _
  · intro f v f' _ h1 h2
    rw [fun2vec_step] at h1; rw [vec2fun_step] at h2; cases h1; cases h2; exact Arr.Eqv.refl _
  · intro _
    exact ⟨[grid.length], hvs, hpn, fun f _ => fun2vec_step _ _ _ _ f⟩

/-! ### MappedGeometry -/

/-- the generic inference of `funvec_shape` -/
def inferVec (g : Geom) : Option (List ℕ) :=
  match g.par2fun (ones (prod g.parShape)) with
  | none => none
  | some f =>
    match g.fun2vec f with
    | .ok v => if v.shape.length = 1 then some v.shape else none
    | .error _ => none

/-- `map` / `imap` of the model's mapped geometry on arrays -/
def mapArr (sc sh : ℚ) (y : Arr) : Arr := ⟨y.shape, fun t => sc * y.get t + sh⟩
def imapArr (sc sh : ℚ) (y : Arr) : Arr := ⟨y.shape, fun t => (y.get t - sh) / sc⟩

lemma imapArr_mapArr (sc sh : ℚ) (hsc : sc ≠ 0) (y : Arr) : imapArr sc sh (mapArr sc sh y) = y := by
  apply arr_ext
  · rfl
  · funext t; simp only [imapArr, mapArr]; field_simp; ring

lemma mapped_par2fun_eq (g : Geom) (sc sh : ℚ) (inv : Bool) (x : Arr) :
    (Geom.mapped g sc sh inv).par2fun x = (g.par2fun x).map (mapArr sc sh) := rfl

lemma mapped_fun2par_eq (g : Geom) (sc sh : ℚ) (x : Arr) :
    (Geom.mapped g sc sh true).fun2par x = g.fun2par (imapArr sc sh x) := by
  simp [Geom.fun2par, imapArr]

lemma inferVec_mapped (g : Geom) (sc sh : ℚ) (inv : Bool) :
    inferVec (Geom.mapped g sc sh inv) = inferVec g := by
  unfold inferVec
  rw [mapped_par2fun_eq]
  show (match (g.par2fun (ones (prod g.parShape))).map (mapArr sc sh) with
    | none => none
    | some f => match g.fun2vec f with
      | .ok v => if v.shape.length = 1 then some v.shape else none
      | .error _ => none) = _
  cases g.par2fun (ones (prod g.parShape)) with
  | none => rfl
  | some y =>
    simp only [Option.map_some]
    have e := fun2vec_shape_congr g (mapArr sc sh y) y rfl
    cases h1 : g.fun2vec (mapArr sc sh y) with
    | error e1 =>
      cases h2 : g.fun2vec y with
      | error e2 => rfl
      | ok v2 => rw [h1, h2] at e; simp [Except.map] at e
    | ok v1 =>
      cases h2 : g.fun2vec y with
      | error e2 => rw [h1, h2] at e; simp [Except.map] at e
      | ok v2 =>
        rw [h1, h2] at e
        have : v1.shape = v2.shape := by simpa [Except.map] using e
        simp only [this]

lemma funvecShape_eq_inferVec (g : Geom) (hv : g.Valid) : g.funvecShape = inferVec g := by
  cases g with
  | image a b o v =>
    cases v with
    | true =>
      simp [Geom.funvecShape, inferVec, Geom.par2fun, Geom.fun2vec, Geom.fun2par, ones, Geom.parShape, prod]
    | false =>
      have hab : a * b ≠ 0 := by
        rcases hv with h | h
        · cases h
        · exact h
      have := funvecShape_generic (Geom.image a b o false) (ones (prod [a * b])) _ _
        (by simp [ones, prod, Geom.parShape])
        (image_par2fun_single a b o _ (by simp [ones, prod]) hab)
        (by simp only [Geom.fun2vec]; exact image_fun2par_single a b o _ rfl) rfl
      unfold inferVec
      rw [this]
      rfl
  | cont1D n => rfl
  | discrete n => rfl
  | cont2D a b => rfl
  | step grid bs s pr => rfl
  | mapped g sc sh inv => rfl

lemma funvecShape_mapped (g : Geom) (hv : g.Valid) (sc sh : ℚ) (inv : Bool) :
    (Geom.mapped g sc sh inv).funvecShape = g.funvecShape := by
  rw [funvecShape_eq_inferVec g hv, ← inferVec_mapped g sc sh inv]
  rfl

lemma mapArr_eqv (sc sh : ℚ) {y y' : Arr} (h : y.Eqv y') : (mapArr sc sh y).Eqv (mapArr sc sh y') :=
  ⟨h.1, fun t ht => by simp only [mapArr]; rw [h.2 t ht]⟩

lemma imapArr_eqv (sc sh : ℚ) {y y' : Arr} (h : y.Eqv y') : (imapArr sc sh y).Eqv (imapArr sc sh y') :=
  ⟨h.1, fun t ht => by simp only [imapArr]; rw [h.2 t ht]⟩

lemma lossless_mapped (g : Geom) (fs : List ℕ) (L : g.Lossless fs) (hv : g.Valid) (sc sh : ℚ)
    (hsc : sc ≠ 0) : (Geom.mapped g sc sh true).Lossless fs := by
  have hvs := funvecShape_mapped g hv sc sh true
  refine ⟨?_, ?_, ?_, ?_, ?_, ?_, ?_, ?_⟩
  · obtain ⟨y, _, h1, _, _, h4⟩ := L.p2f (ones (prod g.parShape)) _ (ones_shape g) (Arr.Eqv.refl _)
    simp only [Geom.funShape]
    rw [mapped_par2fun_eq, h1]
    simp [mapArr, h4]
  · intro x x' hx hxx
    obtain ⟨y, y', h1, h2, h3, h4⟩ := L.p2f x x' hx hxx
    exact ⟨mapArr sc sh y, mapArr sc sh y', by rw [mapped_par2fun_eq, h1]; rfl,
      by rw [mapped_par2fun_eq, h2]; rfl, mapArr_eqv sc sh h3, h4⟩
  · intro f f' hf hff
    obtain ⟨y, y', h1, h2, h3, h4⟩ := L.f2p (imapArr sc sh f) (imapArr sc sh f') hf (imapArr_eqv sc sh hff)
    exact ⟨y, y', by simp only [mapped_fun2par_eq]; exact h1, by simp only [mapped_fun2par_eq]; exact h2,
      h3, h4⟩
  · intro x y z hx h1 h2
    rw [mapped_par2fun_eq] at h1
    obtain ⟨y0, hy0, rfl⟩ := Option.map_eq_some_iff.mp h1
    rw [mapped_fun2par_eq, imapArr_mapArr sc sh hsc] at h2
    exact L.rt x y0 z hx hy0 h2
  · intro vs h; rw [hvs] at h; exact L.f2v vs h
  · intro vs h; rw [hvs] at h; exact L.v2f vs h
  · intro f v f' hf h1 h2; exact L.vrt f v f' hf h1 h2
  · intro h
    obtain ⟨vs, h1, h2, h3⟩ := L.oneD h
    exact ⟨vs, by rw [hvs]; exact h1, h2, h3⟩

/-! ## CUQIarray chains -/

inductive CConv | parameters | funvals
  deriving DecidableEq, Repr

def CArr.convert (g : Geom) : CConv → CArr → Option CArr
  | .parameters, c => c.parameters g
  | .funvals, c => c.funvals g

/-- `a.c₁.c₂. … .cₖ` on a `CUQIarray` -/
def CArr.chain (g : Geom) : List CConv → CArr → Option CArr
  | [], c => some c
  | cv :: cs, c => (CArr.convert g cv c).bind (CArr.chain g cs)

/-- what a `CUQIarray` in a chain started from the parameter vector `p` looks like -/
def CArr.Inv (g : Geom) (fs : List ℕ) (p : Arr) (c : CArr) : Prop :=
  if c.isPar then c.arr.shape = g.parShape ∧ c.arr.Eqv p
  else ∃ f, g.par2fun p = some f ∧ c.arr.shape = fs ∧ c.arr.Eqv f

lemma carr_mk_false (v : Arr) : CArr.mk? v false = some ⟨v, false⟩ := by simp [CArr.mk?]
lemma carr_mk_true (g : Geom) (v : Arr) (h : v.shape = g.parShape) : CArr.mk? v true = some ⟨v, true⟩ := by
  simp [CArr.mk?, h, parShape_eq g]

lemma carr_convert_inv {g : Geom} {fs : List ℕ} (L : g.Lossless fs) (p : Arr) (hp : p.shape = g.parShape)
    (cv : CConv) (c : CArr) (hI : CArr.Inv g fs p c) :
    ∃ c', CArr.convert g cv c = some c' ∧ CArr.Inv g fs p c' := by
  obtain ⟨arr, isPar⟩ := c
  cases isPar with
  | true =>
    have hI' : arr.shape = g.parShape ∧ arr.Eqv p := by simpa [CArr.Inv] using hI
    cases cv with
    | parameters =>
      refine ⟨⟨arr, true⟩, ?_, hI⟩
      simp [CArr.convert, CArr.parameters, carr_mk_true g arr hI'.1]
    | funvals =>
      obtain ⟨y, y', h1, h2, h3, h4⟩ := L.p2f arr p hI'.1 hI'.2
      refine ⟨⟨y, false⟩, ?_, ?_⟩
      · simp [CArr.convert, CArr.funvals, h1, carr_mk_false]
      · simp only [CArr.Inv, Bool.false_eq_true, if_false]
        exact ⟨y', h2, h4, h3⟩
  | false =>
    have hI' : ∃ f, g.par2fun p = some f ∧ arr.shape = fs ∧ arr.Eqv f := by simpa [CArr.Inv] using hI
    cases cv with
    | funvals =>
      refine ⟨⟨arr, false⟩, ?_, hI⟩
      simp [CArr.convert, CArr.funvals, carr_mk_false]
    | parameters =>
      obtain ⟨f, hf, hs, he⟩ := hI'
      obtain ⟨z, z', h1, h2, h3, h4⟩ := L.f2p arr f hs he
      have := L.rt p f z' hp hf (optOfExcept_eq_some.mp h2)
      refine ⟨⟨z, true⟩, ?_, ?_⟩
      · simp only [CArr.convert, CArr.parameters, Bool.not_false, if_true]
        simp only at h1
        rw [h1, Option.bind_some, carr_mk_true g z h4]
      · simp only [CArr.Inv, if_true]
        exact ⟨h4, h3.trans this⟩

lemma carr_chain_inv {g : Geom} {fs : List ℕ} (L : g.Lossless fs) (p : Arr) (hp : p.shape = g.parShape) :
    ∀ (cs : List CConv) (c : CArr), CArr.Inv g fs p c →
      ∃ c', CArr.chain g cs c = some c' ∧ CArr.Inv g fs p c' := by
  intro cs
  induction cs with
  | nil => intro c hI; exact ⟨c, rfl, hI⟩
  | cons cv cs ih =>
    intro c hI
    obtain ⟨c1, h1, hI1⟩ := carr_convert_inv L p hp cv c hI
    obtain ⟨c2, h2, hI2⟩ := ih c1 hI1
    exact ⟨c2, by simp only [CArr.chain, h1, Option.bind_some]; exact h2, hI2⟩

/-! ## batches are column-wise, geometry by geometry -/

lemma div_mod_col (r ns k : ℕ) (hk : k < ns) : (r * ns + k) / ns = r ∧ (r * ns + k) % ns = k := by
  have hns : 0 < ns := by omega
  constructor
  · rw [Nat.mul_comm, Nat.mul_add_div hns, Nat.div_eq_of_lt hk, Nat.add_zero]
  · rw [Nat.mul_add_mod_self_right, Nat.mod_eq_of_lt hk]

/-- column `k` of `y` is (as a numpy array) `yk` -/
def ColIs (y : Arr) (ns k : ℕ) (yk : Arr) : Prop :=
  (y.col ns k).shape = yk.shape ∧ ∀ r, (y.col ns k).get r = yk.get r

lemma dropLast_squeeze_append (sh : List ℕ) (ns : ℕ) (hns : ns ≠ 1) :
    (squeezeShape (sh ++ [ns])).dropLast = squeezeShape sh := by
  rw [squeezeShape_append_single sh ns hns, List.dropLast_concat]

lemma par2fun_batch_cols (g : Geom) (ns : ℕ) (hns : 2 ≤ ns) (x y : Arr)
    (hx : x.shape = g.parShape ++ [ns]) (h : g.par2fun x = some y) :
    ∀ k, k < ns → ∃ yk, g.par2fun (x.col ns k) = some yk ∧ ColIs y ns k yk := by
  have hns1 : ns ≠ 1 := by omega
  induction g generalizing x y with
  | cont1D n =>
    intro k _; simp only [Geom.par2fun] at h ⊢; cases h
    exact ⟨_, rfl, rfl, fun _ => rfl⟩
  | discrete n =>
    intro k _; simp only [Geom.par2fun] at h ⊢; cases h
    exact ⟨_, rfl, rfl, fun _ => rfl⟩
  | cont2D a b =>
    intro k _
    have hx' : x.shape = [a * b, ns] := hx
    have hsize : x.size = a * b * ns := by simp [Arr.size, hx', prod]
    have hab : a * b ≠ 0 := by
      intro h0; simp [Geom.par2fun, cont2DPar2fun, h0] at h
    have hpos := Nat.pos_of_ne_zero hab
    have hcs : (x.col ns k).size = a * b := by simp [Arr.size, Arr.col, hx', prod]
    simp only [Geom.par2fun, cont2DPar2fun, hsize, hab, Nat.mul_mod_right, ne_eq, not_true_eq_false,
      or_self, if_false, Nat.mul_div_cancel_left _ hpos] at h
    cases h
    refine ⟨Arr.squeeze ⟨[a, b, 1], (x.col ns k).get⟩, by simp only [Geom.par2fun, cont2DPar2fun, hcs,
      hab, Nat.mod_self, ne_eq, not_true_eq_false, or_self, if_false, Nat.div_self hpos], ?_, fun _ => rfl⟩
    show (squeezeShape ([a, b] ++ [ns])).dropLast = squeezeShape ([a, b] ++ [1])
    rw [dropLast_squeeze_append _ _ hns1, squeezeShape_append_one]
  | image a b o v =>
    cases v with
    | true =>
      intro k _; simp only [Geom.par2fun, if_true] at h ⊢; cases h
      exact ⟨_, rfl, rfl, fun _ => rfl⟩
    | false =>
      have hab : a * b ≠ 0 := by
        intro h0; simp [Geom.par2fun, imageVectorToImage, h0] at h
      obtain ⟨y', hy', _, hcols⟩ := image_par2fun_batch_columnwise a b ns o x hx hab hns
      rw [h] at hy'; cases hy'
      intro k hk
      obtain ⟨yk, h1, h2, h3⟩ := hcols k hk
      refine ⟨yk, h1, ?_, h3⟩
      rw [h2]
      have := par2fun_shape_of_some h
      rw [hx] at this
      simp only [p2fShape, Geom.parShape, List.cons_append, List.nil_append, prod, Nat.mul_one,
        Bool.false_eq_true, if_false, hab, Nat.mul_mod_right, ne_eq, not_true_eq_false, or_self,
        Nat.mul_div_cancel_left _ (Nat.pos_of_ne_zero hab), hns1] at this
      have := Option.some.inj this
      simp [Arr.col, ← this]
  | step grid bs s pr =>
    intro k hk
    have hx' : x.shape = [s, ns] := hx
    have hcx : (x.col ns k).shape = [s] := by simp [Arr.col, hx']
    have hs0 : s ≠ 0 := by
      intro h0; simp [Geom.par2fun, stepPar2fun, batchOf, hx', h0] at h
    simp only [Geom.par2fun, stepPar2fun, batchOf, hx', if_true, hs0, if_false] at h
    cases h
    refine ⟨Arr.squeeze ⟨[grid.length, 1], fun t => stepFill (stepB grid bs s) s
        (fun i => (x.col ns k).get (i * 1 + t % 1)) (lget grid (t / 1))⟩,
      by simp only [Geom.par2fun, stepPar2fun, batchOf, hcx, if_true, hs0, if_false], ?_, ?_⟩
    · show (squeezeShape ([grid.length] ++ [ns])).dropLast = squeezeShape ([grid.length] ++ [1])
      rw [dropLast_squeeze_append _ _ hns1, squeezeShape_append_one]
    · intro r
      obtain ⟨e1, e2⟩ := div_mod_col r ns k hk
      simp only [Arr.col, Arr.squeeze, e1, e2, Nat.mod_one, Nat.div_one, Nat.mul_one, Nat.add_zero]
  | mapped g sc sh inv ih =>
    intro k hk
    rw [mapped_par2fun_eq] at h
    obtain ⟨y0, hy0, rfl⟩ := Option.map_eq_some_iff.mp h
    obtain ⟨yk, h1, h2, h3⟩ := ih x y0 hx hy0 k hk
    refine ⟨mapArr sc sh yk, by rw [mapped_par2fun_eq, h1]; rfl, h2, ?_⟩
    intro r
    have := h3 r
    simp only [Arr.col, mapArr] at this ⊢
    rw [this]

lemma fun2par_batch_cols (g : Geom) (hb : g.BatchFun2parOK) (ns : ℕ) (hns : 2 ≤ ns) (f z : Arr)
    (s0 : List ℕ) (h0 : p2fShape g g.parShape = some s0) (hf : f.shape = s0 ++ [ns])
    (h : g.fun2par f = .ok z) :
    ∀ k, k < ns → ∃ zk, g.fun2par (f.col ns k) = .ok zk ∧ ColIs z ns k zk := by
  have hns1 : ns ≠ 1 := by omega
  induction g generalizing f z with
  | cont1D n =>
    intro k _; simp only [Geom.fun2par] at h ⊢; cases h
    exact ⟨_, rfl, rfl, fun _ => rfl⟩
  | discrete n =>
    intro k _; simp only [Geom.fun2par] at h ⊢; cases h
    exact ⟨_, rfl, rfl, fun _ => rfl⟩
  | cont2D a b =>
    intro k _
    simp only [p2fShape, Geom.parShape, prod, Nat.mul_one] at h0
    split_ifs at h0 with hc0
    rw [not_or, not_not] at hc0
    have hab := hc0.1
    have hpos := Nat.pos_of_ne_zero hab
    cases h0
    have hsize : f.size = a * b * ns := by
      simp only [Arr.size, hf, prod_append, prod_squeezeShape, prod_three, prod_single,
        Nat.div_self hpos, Nat.mul_one]
    have hcs : (f.col ns k).size = a * b := by
      simp only [Arr.size, Arr.col, hf, List.dropLast_concat, prod_squeezeShape, prod_three,
        Nat.div_self hpos, Nat.mul_one]
    simp only [Geom.fun2par, cont2DFun2par, hsize, hab, Nat.mul_mod_right, ne_eq, not_true_eq_false,
      or_self, if_false, Nat.mul_div_cancel_left _ hpos] at h
    cases h
    refine ⟨Arr.squeeze ⟨[a * b, 1], (f.col ns k).get⟩, by simp only [Geom.fun2par, cont2DFun2par, hcs,
      hab, Nat.mod_self, ne_eq, not_true_eq_false, or_self, if_false, Nat.div_self hpos], ?_, fun _ => rfl⟩
    show (squeezeShape ([a * b] ++ [ns])).dropLast = squeezeShape ([a * b] ++ [1])
    rw [dropLast_squeeze_append _ _ hns1, squeezeShape_append_one]
  | image a b o v =>
    have hv : v = true := hb
    subst hv
    intro k _; simp only [Geom.fun2par, if_true] at h ⊢; cases h
    exact ⟨_, rfl, rfl, fun _ => rfl⟩
  | step grid bs s pr =>
    intro k hk
    simp only [p2fShape, Geom.parShape, batchOfShape, if_true, Option.bind_some] at h0
    split_ifs at h0 with hs0
    cases h0
    have hn1 : grid.length ≠ 1 := by
      intro h1
      have hf' : f.shape = [ns] := by simpa [h1, squeezeShape, List.filter] using hf
      simp [Geom.fun2par, stepFun2par, batchOf, hf', h1, hns1] at h
    have hf' : f.shape = [grid.length, ns] := by simpa [squeezeShape, List.filter, hn1] using hf
    have hcf : (f.col ns k).shape = [grid.length] := by simp [Arr.col, hf']
    simp only [Geom.fun2par, stepFun2par, batchOf, hf', if_true, hs0, if_false] at h
    simp only [Geom.fun2par, stepFun2par, batchOf, hcf, if_true, hs0, if_false]
    split_ifs at h ⊢ with he
    have := Except.ok.inj h
    subst this
    refine ⟨_, rfl, ?_, ?_⟩
    · show (squeezeShape ([s] ++ [ns])).dropLast = squeezeShape ([s] ++ [1])
      rw [dropLast_squeeze_append _ _ hns1, squeezeShape_append_one]
    · intro r
      obtain ⟨e1, e2⟩ := div_mod_col r ns k hk
      simp only [Arr.col, Arr.squeeze, e1, e2, Nat.mod_one, Nat.div_one, Nat.mul_one, Nat.add_zero]
  | mapped g sc sh inv ih =>
    intro k hk
    cases inv with
    | false => simp [Geom.fun2par] at h
    | true =>
      rw [mapped_fun2par_eq] at h ⊢
      exact ih hb (imapArr sc sh f) z h0 hf h k hk

end CuqiVerif.C13
