import CuqiVerif.Props.C12_full
import CuqiVerif.Model.C12_linear

/-!
# C12 — helper lemmas for `Props/C12_linear.lean`

About the definitions of `Model/C12_linear.lean` (`LinObj.forward`, `adjoint`, `getMatrix`, `T`).
Only `lemma`s: the audited statements are the `theorem`s of `Props/C12_linear.lean`.
-/

namespace CuqiVerif.C12

/-! ## `List.mapM` in `Except` -/

lemma mapM_ok_spec {γ δ : Type} (f : γ → Except Err δ) :
    ∀ (l : List γ) (outs : List δ), l.mapM f = .ok outs →
      outs.length = l.length ∧ ∀ j (hj : j < l.length) (hj' : j < outs.length), f l[j] = .ok outs[j] := by
  intro l
  induction l with
  | nil =>
    intro outs h
    simp [List.mapM_nil] at h
    cases h
    exact ⟨rfl, by intro j hj; simp at hj⟩
  | cons c cs ih =>
    intro outs h
    rw [List.mapM_cons] at h
    obtain ⟨p, hp, h⟩ := bind_eq_ok h
    obtain ⟨ps, hps, h⟩ := bind_eq_ok h
    cases h
    obtain ⟨h1, h2⟩ := ih ps hps
    refine ⟨by simp [h1], ?_⟩
    intro j hj hj'
    cases j with
    | zero => simpa using hp
    | succ k => simpa using h2 k (by simpa using hj) (by simpa using hj')

set_option linter.unusedSectionVars false

variable {K : Type} [Add K] [Mul K] [OfNat K 0] [OfNat K 1]

/-! ## argument parsing of a one-argument model -/

lemma parseArgs_one_pos (a : String) : parseArgs [a] 1 [] = .ok [a] := by
  simp [parseArgs, sameNameSet]

/-- `forward` with the input given positionally is `_apply_func` (one-argument models) -/
lemma LinObj.forward_pos (m : LinObj K) (a : String) (ha : m.args = [a]) (x : Input (List K)) (b : Bool) :
    m.forward 1 [] x b = applyFunc m.fwd m.R m.D x b := by
  simp only [LinObj.forward, C12.forward, LinObj.toModel, ha, parseArgs_one_pos, ok_bind]
  cases applyFunc m.fwd m.R m.D x b <;> rfl

/-- the bound method `self.forward` on one array -/
lemma LinObj.forwardBound_eq (m : LinObj K) (a : String) (ha : m.args = [a]) (v : Val (List K)) :
    m.forwardBound v = applyOne m.fwd m.R m.D v true := by
  simp only [LinObj.forwardBound, m.forward_pos a ha, applyFunc]
  cases applyOne m.fwd m.R m.D v true <;> rfl

/-- what the calls of a `LinearModel` return depends on `_forward_func`, `_adjoint_func`, the two
    geometries and the argument names only — not on `_matrix` -/
lemma LinObj.forward_congr (m m' : LinObj K) (h1 : m'.fwd = m.fwd) (h3 : m'.R = m.R) (h4 : m'.D = m.D)
    (h5 : m'.args = m.args) : m'.forward = m.forward := by
  funext nPos kw x b
  simp only [LinObj.forward, C12.forward, LinObj.toModel, h1, h3, h4, h5]

lemma LinObj.adjoint_congr (m m' : LinObj K) (h2 : m'.adj = m.adj) (h3 : m'.R = m.R) (h4 : m'.D = m.D) :
    m'.adjoint = m.adjoint := by
  funext y b
  simp only [LinObj.adjoint, h2, h3, h4]

/-- `Model.gradient` reads `_gradient_func` and the two geometries only -/
lemma gradient_congr_model {α β : Type} (a b : ModelObj α β) (h1 : a.gradientFunc = b.gradientFunc)
    (h2 : a.rangeGeom = b.rangeGeom) (h3 : a.domainGeom = b.domainGeom) : C12.gradient a = C12.gradient b := by
  obtain ⟨f, g, R, D, args, ex⟩ := a
  obtain ⟨f', g', R', D', args', ex'⟩ := b
  simp only at h1 h2 h3
  subst h1 h2 h3
  funext dir wrt b1 b2
  simp only [C12.gradient, gradientOne, checkGradient]

lemma LinObj.gradient_congr (m m' : LinObj K) (h2 : m'.adj = m.adj) (h3 : m'.R = m.R) (h4 : m'.D = m.D) :
    m'.gradient = m.gradient := by
  funext dir wrt b1 b2
  simp only [LinObj.gradient]
  rw [gradient_congr_model m'.toModel m.toModel (by simp [LinObj.toModel, h2]) (by simp [LinObj.toModel, h3])
    (by simp [LinObj.toModel, h4])]

/-- `get_matrix` changes nothing but `_matrix` -/
lemma LinObj.getMatrix_fields (m m' : LinObj K) (M : List (List K)) (h : m.getMatrix = .ok (M, m')) :
    m'.fwd = m.fwd ∧ m'.adj = m.adj ∧ m'.R = m.R ∧ m'.D = m.D ∧ m'.args = m.args ∧ m'.matrix = some M := by
  unfold LinObj.getMatrix at h
  cases hm : m.matrix with
  | some M0 =>
    simp only [hm] at h
    cases h
    exact ⟨rfl, rfl, rfl, rfl, rfl, hm⟩
  | none =>
    simp only [hm] at h
    obtain ⟨cols, _, h⟩ := bind_eq_ok h
    cases h
    exact ⟨rfl, rfl, rfl, rfl, rfl, rfl⟩

lemma LinObj.afterGetMatrix_fields (m : LinObj K) :
    m.afterGetMatrix.fwd = m.fwd ∧ m.afterGetMatrix.adj = m.adj ∧ m.afterGetMatrix.R = m.R
      ∧ m.afterGetMatrix.D = m.D ∧ m.afterGetMatrix.args = m.args := by
  unfold LinObj.afterGetMatrix
  cases h : m.getMatrix with
  | error e => exact ⟨rfl, rfl, rfl, rfl, rfl⟩
  | ok p =>
    obtain ⟨M, m'⟩ := p
    obtain ⟨h1, h2, h3, h4, h5, _⟩ := m.getMatrix_fields m' M h
    exact ⟨h1, h2, h3, h4, h5⟩

lemma LinObj.iterate_afterGetMatrix_fields (m : LinObj K) (n : Nat) :
    (LinObj.afterGetMatrix^[n] m).fwd = m.fwd ∧ (LinObj.afterGetMatrix^[n] m).adj = m.adj
      ∧ (LinObj.afterGetMatrix^[n] m).R = m.R ∧ (LinObj.afterGetMatrix^[n] m).D = m.D
      ∧ (LinObj.afterGetMatrix^[n] m).args = m.args := by
  induction n generalizing m with
  | zero => exact ⟨rfl, rfl, rfl, rfl, rfl⟩
  | succ n ih =>
    rw [Function.iterate_succ_apply]
    obtain ⟨a1, a2, a3, a4, a5⟩ := m.afterGetMatrix_fields
    obtain ⟨b1, b2, b3, b4, b5⟩ := ih m.afterGetMatrix
    exact ⟨b1.trans a1, b2.trans a2, b3.trans a3, b4.trans a4, b5.trans a5⟩

/-! ## the bound method `self.adjoint` as a callable -/

/-- on a plain array: `par2fun_R`, the raw adjoint callable, `fun2par_D`; plain result -/
lemma LinObj.adjointBound_plain (m : LinObj K) (B₀ : List K → Except Err (List K)) (hf : FuncLikeE m.adj B₀)
    (y : List K) :
    m.adjointBound ⟨y, none⟩ = B₀ (m.R.p2f y) >>= fun w => outOf m.D w none := by
  have := forward_representation_invariant m.R m.D m.adj B₀ hf .plainPar (by intro h; cases h) (by intro h; cases h) y
  simpa [LinObj.adjointBound, RepKind.val, RepKind.flag, RepKind.isArr, wrapTag] using this

/-- on function values carrying the range geometry (what `_2fun` of the transposed model hands over for
    a CUQIarray input): no second `par2fun`; CUQIarray result flagged parameters on the domain geometry -/
lemma LinObj.adjointBound_funarr (m : LinObj K) (B₀ : List K → Except Err (List K)) (hf : FuncLikeE m.adj B₀)
    (hs : SelfOK m.R) (hc : CrossOK m.R.gid m.D) (y : List K) :
    m.adjointBound ⟨m.R.p2f y, some ⟨false, m.R.gid⟩⟩
      = B₀ (m.R.p2f y) >>= fun w => outOf m.D w (some ⟨true, m.D.gid⟩) := by
  have := forward_representation_invariant m.R m.D m.adj B₀ hf (.arrFun true) (fun _ => hs) (fun _ => hc) y
  simpa [LinObj.adjointBound, RepKind.val, RepKind.flag, RepKind.isArr, wrapTag] using this

end CuqiVerif.C12
