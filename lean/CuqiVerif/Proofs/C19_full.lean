import CuqiVerif.Props.C19
import Std.Data.String.ToNat
import Mathlib.Data.List.Sort
import Mathlib.Data.List.Perm.Basic
import Mathlib.Algebra.BigOperators.Group.Finset.Basic

/-!
# C19 — helper lemmas for the second-pass ("full") theorems

Sorting (uniqueness of the sorted permutation, behaviour under monotone / antitone maps),
reflection of numpy's linear interpolation, affine maps of mean / variance / percentile,
min / max as 0-th / 100-th percentile, the thinned chain as a list over the index set,
key-distinctness of Python dictionaries, default variable names, Python slices with negative
start / step.
-/
namespace CuqiVerif.C19
open List

/-! ## sorting: the sorted chain is THE sorted permutation -/

lemma sorted_perm (xs : List ℚ) : (sorted xs).Perm xs := by
  unfold sorted; exact List.mergeSort_perm _ _

lemma sorted_unique (xs l : List ℚ) (hp : l.Perm xs) (hs : l.Pairwise (· ≤ ·)) : sorted xs = l :=
  List.Perm.eq_of_pairwise (le := (· ≤ ·)) (fun _ _ _ _ h1 h2 => le_antisymm h1 h2)
    (sorted_pairwise xs) hs ((sorted_perm xs).trans hp.symm)

lemma sorted_congr {xs ys : List ℚ} (h : xs.Perm ys) : sorted xs = sorted ys :=
  sorted_unique xs (sorted ys) ((sorted_perm ys).trans h.symm) (sorted_pairwise ys)

lemma sorted_ne_nil {xs : List ℚ} (hne : xs ≠ []) : sorted xs ≠ [] := by
  intro h
  have := congrArg List.length h
  rw [sorted_length] at this
  exact hne (List.length_eq_zero_iff.mp this)

lemma sorted_map_mono (xs : List ℚ) (f : ℚ → ℚ) (hf : Monotone f) :
    sorted (xs.map f) = (sorted xs).map f := by
  apply sorted_unique
  · exact (sorted_perm xs).map f
  · rw [List.pairwise_map]
    exact (sorted_pairwise xs).imp (fun h => hf h)

lemma sorted_map_anti (xs : List ℚ) (f : ℚ → ℚ) (hf : Antitone f) :
    sorted (xs.map f) = ((sorted xs).reverse).map f := by
  apply sorted_unique
  · exact ((List.reverse_perm _).trans (sorted_perm xs)).map f
  · rw [List.pairwise_map, List.pairwise_reverse]
    exact (sorted_pairwise xs).imp (fun h => hf h)

/-! ## the virtual index stays inside the chain -/

lemma floor_toNat_le (v : ℚ) (hv : 0 ≤ v) (M : ℕ) (hle : v ≤ (M : ℚ)) : v.floor.toNat ≤ M := by
  obtain ⟨hb, _⟩ := floor_toNat_bounds v hv
  have : ((v.floor.toNat : ℕ) : ℚ) ≤ (M : ℚ) := le_trans hb hle
  exact_mod_cast this

lemma vindex_bounds (N : ℕ) (q : ℚ) (h0 : 0 ≤ q) (h100 : q ≤ 100) :
    0 ≤ ((N - 1 : ℕ) : ℚ) * (q / 100) ∧ ((N - 1 : ℕ) : ℚ) * (q / 100) ≤ ((N - 1 : ℕ) : ℚ) := by
  have hc : (0 : ℚ) ≤ ((N - 1 : ℕ) : ℚ) := Nat.cast_nonneg _
  constructor
  · exact mul_nonneg hc (by linarith)
  · calc ((N - 1 : ℕ) : ℚ) * (q / 100) ≤ ((N - 1 : ℕ) : ℚ) * 1 :=
          mul_le_mul_of_nonneg_left (by linarith) hc
      _ = _ := mul_one _

/-- `interp` commutes with an elementwise affine map (any slope) as long as the virtual index
    lies inside a non-empty list -/
lemma interp_map_affine (s : List ℚ) (hne : s ≠ []) (a b v : ℚ) (hv : 0 ≤ v)
    (hle : v ≤ ((s.length - 1 : ℕ) : ℚ)) :
    interp (s.map (fun x => a * x + b)) v = a * interp s v + b := by
  have hn : 1 ≤ s.length := List.length_pos_iff.mpr hne
  have hk := floor_toNat_le v hv _ hle
  unfold interp
  simp only [List.length_map]
  have h1 : v.floor.toNat < s.length := by omega
  have h2 : min (v.floor.toNat + 1) (s.length - 1) < s.length := by omega
  rw [List.getD_eq_getElem _ 0 (by simpa using h1), List.getD_eq_getElem _ 0 (by simpa using h2),
    List.getD_eq_getElem _ 0 h1, List.getD_eq_getElem _ 0 h2, List.getElem_map, List.getElem_map]
  ring


/-! ## reflection of a linear interpolation -/

/-- linear interpolation of the reflected sequence `i ↦ a (M - i)` at `v` is the linear
    interpolation of `a` at `M - v` -/
lemma lerp_reflect (a : ℕ → ℚ) (M : ℕ) (v : ℚ) (hv : 0 ≤ v) (hle : v ≤ (M : ℚ)) :
    a (M - v.floor.toNat) + (a (M - (v.floor.toNat + 1)) - a (M - v.floor.toNat)) * (v - (v.floor.toNat : ℚ))
      = a ((M : ℚ) - v).floor.toNat
        + (a (((M : ℚ) - v).floor.toNat + 1) - a ((M : ℚ) - v).floor.toNat)
          * (((M : ℚ) - v) - ((((M : ℚ) - v).floor.toNat : ℕ) : ℚ)) := by
  obtain ⟨hb1, hb2⟩ := floor_toNat_bounds v hv
  have hk : v.floor.toNat ≤ M := floor_toNat_le v hv M hle
  set k := v.floor.toNat with hkdef
  by_cases hg : v = (k : ℚ)
  · -- integer virtual index
    have hfl : ((M : ℚ) - v).floor.toNat = M - k := by
      apply floor_toNat_eq
      · rw [hg, Nat.cast_sub hk]
      · rw [hg, Nat.cast_sub hk]; linarith
    rw [hfl, Nat.cast_sub hk, hg]
    ring
  · have hlt : (k : ℚ) < v := lt_of_le_of_ne hb1 (Ne.symm hg)
    have hk1 : k + 1 ≤ M := by
      have : (k : ℚ) < (M : ℚ) := lt_of_lt_of_le hlt hle
      have : k < M := by exact_mod_cast this
      omega
    have hfl : ((M : ℚ) - v).floor.toNat = M - (k + 1) := by
      apply floor_toNat_eq
      · rw [Nat.cast_sub hk1]; push_cast; linarith
      · rw [Nat.cast_sub hk1]; push_cast; linarith
    have e : M - (k + 1) + 1 = M - k := by omega
    rw [hfl, e, Nat.cast_sub hk1]
    push_cast
    ring

lemma seqOf_reverse (s : List ℚ) (i : ℕ) : seqOf s.reverse i = seqOf s (s.length - 1 - i) := by
  unfold seqOf
  by_cases hn : s.length = 0
  · have : s = [] := List.length_eq_zero_iff.mp hn
    subst this; simp
  · simp only [List.length_reverse]
    have h1 : min i (s.length - 1) < s.reverse.length := by simp; omega
    have h2 : min (s.length - 1 - i) (s.length - 1) < s.length := by omega
    rw [List.getD_eq_getElem _ 0 h1, List.getD_eq_getElem _ 0 h2, List.getElem_reverse]
    congr 1
    omega

/-- interpolating the reversed list at `v` = interpolating the list at `(N-1) - v` -/
lemma interp_reverse (s : List ℚ) (v : ℚ) (hv : 0 ≤ v) (hle : v ≤ ((s.length - 1 : ℕ) : ℚ)) :
    interp s.reverse v = interp s (((s.length - 1 : ℕ) : ℚ) - v) := by
  rw [interp_eq s.reverse v hv (by simpa using hle),
    interp_eq s _ (by linarith) (by linarith)]
  simp only [seqOf_reverse]
  have := lerp_reflect (seqOf s) (s.length - 1) v hv hle
  simpa [Nat.sub_sub] using this


/-! ## percentile: affine maps -/

lemma percentile_map_affine_nonneg (xs : List ℚ) (hne : xs ≠ []) (a b q : ℚ) (ha : 0 ≤ a)
    (h0 : 0 ≤ q) (h100 : q ≤ 100) :
    percentile (xs.map (fun x => a * x + b)) q = a * percentile xs q + b := by
  unfold percentile
  rw [sorted_map_mono xs (fun x => a * x + b)
    (fun x y h => by simp only; nlinarith [mul_le_mul_of_nonneg_left h ha])]
  simp only [List.length_map]
  obtain ⟨h1, h2⟩ := vindex_bounds (sorted xs).length q h0 h100
  exact interp_map_affine (sorted xs) (sorted_ne_nil hne) a b _ h1 h2

lemma percentile_map_affine_nonpos (xs : List ℚ) (hne : xs ≠ []) (a b q : ℚ) (ha : a ≤ 0)
    (h0 : 0 ≤ q) (h100 : q ≤ 100) :
    percentile (xs.map (fun x => a * x + b)) q = a * percentile xs (100 - q) + b := by
  unfold percentile
  rw [sorted_map_anti xs (fun x => a * x + b)
    (fun x y h => by simp only; nlinarith [mul_le_mul_of_nonpos_left h ha])]
  simp only [List.length_map, List.length_reverse]
  obtain ⟨h1, h2⟩ := vindex_bounds (sorted xs).length q h0 h100
  rw [interp_map_affine (sorted xs).reverse (by simpa using sorted_ne_nil hne) a b _ h1
    (by simpa using h2), interp_reverse _ _ h1 h2]
  congr 3
  ring

/-! ## mean / variance: affine maps -/

lemma sum_map_affine (xs : List ℚ) (a b : ℚ) :
    (xs.map (fun x => a * x + b)).sum = a * xs.sum + (xs.length : ℚ) * b := by
  induction xs with
  | nil => simp
  | cons x xs ih => simp only [List.map_cons, List.sum_cons, List.length_cons, Nat.cast_succ, ih]; ring

lemma mean_map_affine (xs : List ℚ) (hne : xs ≠ []) (a b : ℚ) :
    mean (xs.map (fun x => a * x + b)) = a * mean xs + b := by
  have hn : (xs.length : ℚ) ≠ 0 := by
    have := List.length_pos_iff.mpr hne
    positivity
  unfold mean
  rw [sum_map_affine, List.length_map]
  field_simp

lemma sum_map_mul_left (xs : List ℚ) (c : ℚ) (g : ℚ → ℚ) :
    (xs.map (fun x => c * g x)).sum = c * (xs.map g).sum := by
  induction xs with
  | nil => simp
  | cons x xs ih => simp only [List.map_cons, List.sum_cons, ih]; ring

lemma variance_map_affine (xs : List ℚ) (a b : ℚ) :
    variance (xs.map (fun x => a * x + b)) = a * a * variance xs := by
  by_cases hne : xs = []
  · subst hne; simp [variance, mean]
  · unfold variance
    rw [mean_map_affine xs hne a b, List.map_map]
    have : ((fun x => (x - (a * mean xs + b)) * (x - (a * mean xs + b))) ∘ fun x => a * x + b)
        = fun x => (a * a) * ((x - mean xs) * (x - mean xs)) := by
      funext x; simp only [Function.comp]; ring
    rw [this]
    unfold mean
    rw [sum_map_mul_left, List.length_map, List.length_map]
    ring

/-! ## minimum and maximum are the 0-th and 100-th percentile -/

lemma percentile_zero (xs : List ℚ) : percentile xs 0 = (sorted xs).getD 0 0 := by
  unfold percentile interp
  have hfl : ((((sorted xs).length - 1 : ℕ) : ℚ) * (0 / 100)).floor.toNat = 0 :=
    floor_toNat_eq _ 0 (by simp) (by simp)
  simp only [hfl]
  simp

lemma percentile_hundred (xs : List ℚ) :
    percentile xs 100 = (sorted xs).getD ((sorted xs).length - 1) 0 := by
  unfold percentile interp
  have e : (((sorted xs).length - 1 : ℕ) : ℚ) * (100 / 100) = (((sorted xs).length - 1 : ℕ) : ℚ) := by
    norm_num
  have hfl : ((((sorted xs).length - 1 : ℕ) : ℚ)).floor.toNat = (sorted xs).length - 1 :=
    floor_toNat_eq _ _ le_rfl (by linarith)
  simp only [e, hfl]
  simp

lemma sorted_head_le (xs : List ℚ) (x : ℚ) (hx : x ∈ xs) : (sorted xs).getD 0 0 ≤ x := by
  have hx' : x ∈ sorted xs := (sorted_perm xs).mem_iff.mpr hx
  have hp := sorted_pairwise xs
  cases hs : sorted xs with
  | nil => rw [hs] at hx'; cases hx'
  | cons h tl =>
    rw [hs] at hx' hp
    simp only [List.getD_cons_zero]
    rcases List.mem_cons.mp hx' with rfl | hm
    · exact le_rfl
    · exact (List.pairwise_cons.mp hp).1 x hm

lemma le_sorted_last (xs : List ℚ) (x : ℚ) (hx : x ∈ xs) :
    x ≤ (sorted xs).getD ((sorted xs).length - 1) 0 := by
  have hx' : x ∈ sorted xs := (sorted_perm xs).mem_iff.mpr hx
  have hp := sorted_pairwise xs
  obtain ⟨i, hi, rfl⟩ := List.getElem_of_mem hx'
  have hl : (sorted xs).length - 1 < (sorted xs).length := by omega
  rw [List.getD_eq_getElem _ 0 hl]
  rcases Nat.lt_or_ge i ((sorted xs).length - 1) with h | h
  · exact (List.pairwise_iff_getElem.mp hp) _ _ hi hl h
  · have : i = (sorted xs).length - 1 := by omega
    subst this; exact le_rfl

lemma sorted_head_mem (xs : List ℚ) (hne : xs ≠ []) : (sorted xs).getD 0 0 ∈ xs := by
  have h := sorted_ne_nil hne
  have hl : 0 < (sorted xs).length := List.length_pos_iff.mpr h
  rw [List.getD_eq_getElem _ 0 hl]
  exact (sorted_perm xs).mem_iff.mp (List.getElem_mem hl)

lemma sorted_last_mem (xs : List ℚ) (hne : xs ≠ []) :
    (sorted xs).getD ((sorted xs).length - 1) 0 ∈ xs := by
  have h := sorted_ne_nil hne
  have hl : (sorted xs).length - 1 < (sorted xs).length := by
    have := List.length_pos_iff.mpr h; omega
  rw [List.getD_eq_getElem _ 0 hl]
  exact (sorted_perm xs).mem_iff.mp (List.getElem_mem hl)


/-! ## the thinned chain as a list over the index set `{b + i·t}` -/

lemma natSlice_eq_map_range {α : Type} (xs : List α) (b t : ℕ) (ht : 1 ≤ t) (d : α) :
    natSlice xs b t
      = (List.range ((xs.length - b + t - 1) / t)).map (fun i => xs.getD (b + i * t) d) := by
  apply List.ext_getElem?
  intro i
  rw [natSlice_getElem? _ _ _ ht, List.getElem?_map]
  by_cases hi : i < (xs.length - b + t - 1) / t
  · have h2 := (lt_ceilDiv_iff _ _ _ ht).mp hi
    have h3 : b + i * t < xs.length := by omega
    rw [List.getElem?_range hi]
    simp [h3]
  · have h2 : ¬ (i * t < xs.length - b) := fun h => hi ((lt_ceilDiv_iff _ _ _ ht).mpr h)
    have h3 : xs.length ≤ b + i * t := by omega
    rw [List.getElem?_eq_none h3, List.getElem?_eq_none (by simpa using Nat.le_of_not_lt hi)]
    rfl

lemma list_sum_map_range_eq_finset (f : ℕ → ℚ) (n : ℕ) :
    ((List.range n).map f).sum = ∑ i ∈ Finset.range n, f i := by
  induction n with
  | zero => simp
  | succ n ih => rw [List.range_succ, List.map_append, List.sum_append, ih, Finset.sum_range_succ]; simp

/-! ## Python dictionaries: keys stay distinct -/

lemma dictInsert_keys_nodup {β : Type} (d : List (String × β)) (k : String) (v : β)
    (h : (d.map Prod.fst).Nodup) : ((dictInsert d k v).map Prod.fst).Nodup := by
  unfold dictInsert
  split
  · have : (d.map (fun kv => if (kv.1 == k) = true then (k, v) else kv)).map Prod.fst = d.map Prod.fst := by
      rw [List.map_map]
      apply List.map_congr_left
      intro kv _
      simp only [Function.comp]
      split
      · rename_i hk; simpa using (beq_iff_eq.mp hk).symm
      · rfl
    rw [this]; exact h
  · rename_i hany
    rw [List.map_append, List.map_singleton]
    apply List.Nodup.append h (List.nodup_singleton _)
    intro x hx1 hx2
    rw [List.mem_singleton] at hx2
    subst hx2
    apply hany
    rw [List.any_eq_true]
    obtain ⟨kv, hkv, rfl⟩ := List.mem_map.mp hx1
    exact ⟨kv, hkv, by simp⟩

lemma foldl_dictInsert_keys_nodup {β : Type} (l : List (String × β)) :
    ∀ (acc : List (String × β)), (acc.map Prod.fst).Nodup →
      ((l.foldl (fun d kv => dictInsert d kv.1 kv.2) acc).map Prod.fst).Nodup := by
  induction l with
  | nil => intro acc h; simpa using h
  | cons kv l ih =>
    intro acc h
    simp only [List.foldl_cons]
    exact ih _ (dictInsert_keys_nodup acc kv.1 kv.2 h)

lemma dictOfZip_keys_nodup {β : Type} (ks : List String) (vs : List β) :
    ((dictOfZip ks vs).map Prod.fst).Nodup := by
  unfold dictOfZip
  exact foldl_dictInsert_keys_nodup _ [] (by simp)

/-! ## default variable names -/

/-- `Geometry.variables` when no names were given (`cuqi/geometry/_geometry.py` l. 78-97):
    `[name + str(i) for i in range(n)] if n != 1 else [name]`; the driver's `defaultVars n` is
    `defaultNames "v" n`. -/
def defaultNames (name : String) (n : ℕ) : List String :=
  if n = 1 then [name] else (List.range n).map (fun i => name ++ toString i)

lemma name_append_inj (name : String) (i j : ℕ) (h : name ++ toString i = name ++ toString j) : i = j :=
  Nat.repr_injective ((String.append_right_inj name).mp h)


/-! ## Python slices with a negative start and/or a negative step -/

lemma filterMap_getElem?_map_of_lt {α : Type} (xs : List α) (d : α) (g : ℕ → ℕ) (l : List ℕ)
    (h : ∀ i ∈ l, g i < xs.length) :
    (l.map g).filterMap (fun i => xs[i]?) = l.map (fun i => xs.getD (g i) d) := by
  induction l with
  | nil => rfl
  | cons i l ih =>
    have hi := h i (by simp)
    rw [List.map_cons, List.filterMap_cons_some (List.getElem?_eq_getElem hi), List.map_cons,
      ih (fun j hj => h j (by simp [hj])), List.getD_eq_getElem _ d hi]

/-- `[-m::t]`, `m ≥ 1`, `t ≥ 1`: the start is `max(N - m, 0)` -/
lemma sliceIdx_negstart (n m t : ℕ) (hm : 1 ≤ m) (ht : 1 ≤ t) :
    sliceIdx n (-(m : ℤ)) (t : ℤ) =
      some ((List.range ((n - (n - m) + t - 1) / t)).map (fun i => (n - m) + i * t)) := by
  unfold sliceIdx
  have h0 : ¬ ((t : ℤ) = 0) := by omega
  have h1 : (t : ℤ) > 0 := by omega
  have h2 : (-(m : ℤ) < 0) := by omega
  have h3 : (-(m : ℤ) + (n : ℤ)).toNat = n - m := by omega
  simp only [h0, h1, h2, h3, if_false, if_true, Int.toNat_natCast]

lemma pySlice_negstart {α : Type} (xs : List α) (m t : ℕ) (hm : 1 ≤ m) (ht : 1 ≤ t) :
    pySlice xs (-(m : ℤ)) (t : ℤ) = some (natSlice xs (xs.length - m) t) := by
  unfold pySlice natSlice
  rw [sliceIdx_negstart _ _ _ hm ht]
  have : min (xs.length - m) xs.length = xs.length - m := by omega
  rw [this]
  rfl

/-- `[b::-u]`, `b ≥ 0`, `u ≥ 1`: walk down from `min(b, N-1)` -/
lemma sliceIdx_negstep (n b u : ℕ) (hu : 1 ≤ u) :
    sliceIdx n (b : ℤ) (-(u : ℤ)) =
      if n = 0 then some []
      else some ((List.range (min b (n - 1) / u + 1)).map (fun i => min b (n - 1) - i * u)) := by
  unfold sliceIdx
  have h0 : ¬ (-(u : ℤ) = 0) := by omega
  have h1 : ¬ (-(u : ℤ) > 0) := by omega
  have h2 : ¬ ((b : ℤ) < 0) := by omega
  have h4 : (- -(u : ℤ)).toNat = u := by omega
  simp only [h0, h1, h2, h4, if_false]
  by_cases hn : n = 0
  · subst hn
    simp
  · by_cases hb : (b : ℤ) ≥ (n : ℤ)
    · have e : ¬ ((n : ℤ) - 1 < 0) := by omega
      have e2 : ((n : ℤ) - 1).toNat = min b (n - 1) := by omega
      simp only [hb, if_true, e, if_false, e2, hn]
    · have e : ¬ ((b : ℤ) < 0) := by omega
      have e2 : (b : ℤ).toNat = min b (n - 1) := by omega
      simp only [hb, if_false, e, e2, hn]

/-- `[-m::-u]`, `m, u ≥ 1`: empty if `m > N`, else walk down from `N - m` -/
lemma sliceIdx_negstart_negstep (n m u : ℕ) (hm : 1 ≤ m) (hu : 1 ≤ u) :
    sliceIdx n (-(m : ℤ)) (-(u : ℤ)) =
      if n < m then some []
      else some ((List.range ((n - m) / u + 1)).map (fun i => (n - m) - i * u)) := by
  unfold sliceIdx
  have h0 : ¬ (-(u : ℤ) = 0) := by omega
  have h1 : ¬ (-(u : ℤ) > 0) := by omega
  have h2 : (-(m : ℤ) < 0) := by omega
  have h4 : (- -(u : ℤ)).toNat = u := by omega
  simp only [h0, h1, h2, h4, if_false, if_true]
  by_cases hn : n < m
  · have e : (-(m : ℤ) + (n : ℤ) < 0) := by omega
    simp [e, hn]
  · have e : ¬ (-(m : ℤ) + (n : ℤ) < 0) := by omega
    have e2 : (-(m : ℤ) + (n : ℤ)).toNat = n - m := by omega
    simp only [e, if_false, e2, hn]

lemma pySlice_negstep {α : Type} (xs : List α) (d : α) (b u : ℕ) (hu : 1 ≤ u) :
    pySlice xs (b : ℤ) (-(u : ℤ)) =
      if xs = [] then some []
      else some ((List.range (min b (xs.length - 1) / u + 1)).map
        (fun i => xs.getD (min b (xs.length - 1) - i * u) d)) := by
  unfold pySlice
  rw [sliceIdx_negstep _ _ _ hu]
  by_cases hn : xs = []
  · subst hn; simp
  · have hl : xs.length ≠ 0 := fun h => hn (List.length_eq_zero_iff.mp h)
    simp only [hl, hn, if_false, Option.map_some]
    rw [filterMap_getElem?_map_of_lt xs d]
    intro i _
    omega

lemma pySlice_negstart_negstep {α : Type} (xs : List α) (d : α) (m u : ℕ) (hm : 1 ≤ m) (hu : 1 ≤ u) :
    pySlice xs (-(m : ℤ)) (-(u : ℤ)) =
      if xs.length < m then some []
      else some ((List.range ((xs.length - m) / u + 1)).map
        (fun i => xs.getD (xs.length - m - i * u) d)) := by
  unfold pySlice
  rw [sliceIdx_negstart_negstep _ _ _ hm hu]
  by_cases hn : xs.length < m
  · simp [hn]
  · simp only [hn, if_false, Option.map_some]
    rw [filterMap_getElem?_map_of_lt xs d]
    intro i _
    omega

lemma map_range_getD_reverse {α : Type} (xs : List α) (d : α) :
    (List.range xs.length).map (fun i => xs.getD (xs.length - 1 - i) d) = xs.reverse := by
  apply List.ext_getElem
  · simp
  · intro i h1 h2
    simp only [List.length_map, List.length_range] at h1
    rw [List.getElem_map, List.getElem_range, List.getElem_reverse,
      List.getD_eq_getElem _ d (by omega)]

lemma zipWith_sub_swap : ∀ (l₁ l₂ : List ℚ),
    List.zipWith (· - ·) l₁ l₂ = (List.zipWith (· - ·) l₂ l₁).map (fun x => -x)
  | [], _ => by simp
  | _ :: _, [] => by simp
  | a :: l₁, b :: l₂ => by
    simp only [List.zipWith_cons_cons, List.map_cons, zipWith_sub_swap l₁ l₂]
    congr 1
    ring

/-! ## default names, dictionaries: lengths and prefixes -/

lemma defaultNames_length (name : String) (n : ℕ) : (defaultNames name n).length = n := by
  unfold defaultNames
  split
  · rename_i h; simp [h]
  · simp

lemma zip_take_left {α β : Type} : ∀ (ks : List α) (vs : List β), ks.zip vs = (ks.take vs.length).zip vs
  | [], _ => by simp
  | _ :: _, [] => by simp
  | k :: ks, v :: vs => by simp [zip_take_left ks vs]

lemma dictInsert_length_le {β : Type} (d : List (String × β)) (k : String) (v : β) :
    (dictInsert d k v).length ≤ d.length + 1 := by
  unfold dictInsert
  split <;> simp

lemma foldl_dictInsert_length_le {β : Type} (l : List (String × β)) :
    ∀ acc : List (String × β),
      (l.foldl (fun d kv => dictInsert d kv.1 kv.2) acc).length ≤ acc.length + l.length := by
  induction l with
  | nil => intro acc; simp
  | cons kv l ih =>
    intro acc
    simp only [List.foldl_cons, List.length_cons]
    have := ih (dictInsert acc kv.1 kv.2)
    have := dictInsert_length_le acc kv.1 kv.2
    omega

lemma dictOfZip_length_le {β : Type} (ks : List String) (vs : List β) :
    (dictOfZip ks vs).length ≤ ks.length := by
  unfold dictOfZip
  have := foldl_dictInsert_length_le (ks.zip vs) []
  simp only [List.length_nil, List.length_zip, zero_add] at this
  omega

lemma dictOfZip_take {β : Type} (ks : List String) (vs : List β) :
    dictOfZip ks vs = dictOfZip (ks.take vs.length) vs := by
  unfold dictOfZip
  rw [← zip_take_left]

lemma range_map_getD_eq_take (names : List String) (d : ℕ) (hd : d ≤ names.length) :
    (List.range d).map (fun i => names.getD i "") = names.take d := by
  apply List.ext_getElem
  · simp [hd]
  · intro i h1 h2
    simp only [List.length_map, List.length_range] at h1
    have hi : i < names.length := by omega
    rw [List.getElem_map, List.getElem_range, List.getD_eq_getElem _ _ hi, List.getElem_take]

/-! ## `ci_width` in closed form -/

lemma ciWidth_eq (s : Samples) (p : ℚ) (h0 : 0 ≤ p) (h100 : p ≤ 100) :
    s.ciWidth p = .ok ((List.range s.dim).map (fun k =>
      percentile (s.chain k) (100 - (100 - p) / 2) - percentile (s.chain k) ((100 - p) / 2))) := by
  unfold Samples.ciWidth Samples.computeCi
  rw [ciLevels_ok p h0 h100]
  show Except.ok _ = Except.ok _
  unfold Samples.stat
  rw [List.zipWith_map, List.zipWith_self]

/-! ## entrywise affine map of a Samples object -/

/-- the stored samples mapped entrywise by `x ↦ a·x + b` (what `funvals` produces under the driver's
    geometry kind `map:<a>:<b>:aff` = `Conv.affine a b`) -/
def Samples.affine (s : Samples) (a b : ℚ) : Samples :=
  { s with cols := s.cols.map (fun c => c.map (fun x => a * x + b)) }

lemma affine_chain (s : Samples) (hwf : ∀ c ∈ s.cols, c.length = s.dim) (a b : ℚ) (k : ℕ) (hk : k < s.dim) :
    (s.affine a b).chain k = (s.chain k).map (fun x => a * x + b) := by
  unfold Samples.affine Samples.chain
  simp only [List.map_map]
  apply List.map_congr_left
  intro c hc
  have h1 : k < c.length := by rw [hwf c hc]; exact hk
  simp only [Function.comp]
  rw [List.getD_eq_getElem _ 0 (by simpa using h1), List.getD_eq_getElem _ 0 h1, List.getElem_map]

lemma stat_affine (s : Samples) (hwf : ∀ c ∈ s.cols, c.length = s.dim) (hN : s.cols ≠ []) (a b : ℚ)
    (g g' : List ℚ → ℚ) (h : ℚ → ℚ)
    (hg : ∀ xs : List ℚ, xs ≠ [] → g (xs.map (fun x => a * x + b)) = h (g' xs)) :
    (s.affine a b).stat g = (s.stat g').map h := by
  unfold Samples.stat
  rw [List.map_map]
  show (List.range s.dim).map _ = _
  apply List.map_congr_left
  intro k hk
  rw [List.mem_range] at hk
  have hne : s.chain k ≠ [] := by
    unfold Samples.chain
    intro h'
    exact hN (List.map_eq_nil_iff.mp h')
  simp only [Function.comp]
  rw [affine_chain s hwf a b k hk, hg _ hne]

/-! ## `Forall₂` by position -/

lemma forall₂_getElem? {α β : Type} {R : α → β → Prop} {l₁ : List α} {l₂ : List β}
    (h : List.Forall₂ R l₁ l₂) : ∀ (j : ℕ) (a : α), l₁[j]? = some a → ∃ b, l₂[j]? = some b ∧ R a b := by
  induction h with
  | nil => intro j a ha; simp at ha
  | cons hab _ ih =>
    intro j a ha
    cases j with
    | zero => simp only [List.getElem?_cons_zero, Option.some.injEq] at ha; subst ha; exact ⟨_, by simp, hab⟩
    | succ j => simp only [List.getElem?_cons_succ] at ha ⊢; exact ih j a ha

end CuqiVerif.C19
