import CuqiVerif.Model.C11
import Mathlib.Tactic.Lemma

/-!
# C11 — frame lemmas for the heap model

`Step n s s'` says that going from state `s` to state `s'` respects the watermark `n`
(`n ≤ s.size`): the heap only grows, class tags of existing objects never change, no
non-benign field of an object older than `n` changes, and every write logged in between targets
an object at or above `n` or an exempt field (a benign cache, or the content of an array-typed
`_constant`, which `ndarray += x` mutates in place — see `St.addConst`).  Every modelled operation is a `Step` for every
watermark below the heap size at its start.
-/
namespace CuqiVerif.C11

/-! ## primitives -/

theorem St.obj_eq (s : St) (a : Nat) : s.obj a = (s.heap[a]?).getD (Obj.empty .geom) := by
  unfold St.obj; rw [Array.getD_eq_getD_getElem?]

lemma alloc_size (s : St) (o : Obj) : (s.alloc o).1.size = s.size + 1 := by
  simp [St.alloc, St.size]

lemma alloc_addr (s : St) (o : Obj) : (s.alloc o).2 = s.size := rfl

lemma alloc_log (s : St) (o : Obj) : (s.alloc o).1.log = s.log := rfl

lemma alloc_obj_old (s : St) (o : Obj) (a : Nat) (h : a < s.size) : (s.alloc o).1.obj a = s.obj a := by
  rw [St.obj_eq, St.obj_eq]
  simp only [St.alloc, Array.getElem?_push]
  have : a ≠ s.heap.size := by unfold St.size at h; omega
  rw [if_neg this]

lemma alloc_obj_new (s : St) (o : Obj) : (s.alloc o).1.obj s.size = o := by
  rw [St.obj_eq]
  simp [St.alloc, St.size]

lemma write_size (s : St) (a : Nat) (f : Fld) (v : Val) : (s.write a f v).size = s.size := by
  simp [St.write, St.size]

lemma write_log (s : St) (a : Nat) (f : Fld) (v : Val) : (s.write a f v).log = (a, f) :: s.log := rfl

lemma write_obj_ne (s : St) (a a' : Nat) (f : Fld) (v : Val) (h : a' ≠ a) : (s.write a f v).obj a' = s.obj a' := by
  rw [St.obj_eq, St.obj_eq]
  simp only [St.write, Array.getElem?_setIfInBounds]
  rw [if_neg (Ne.symm h)]

lemma write_cls (s : St) (a a' : Nat) (f : Fld) (v : Val) : (s.write a f v).cls a' = s.cls a' := by
  unfold St.cls
  by_cases h : a' = a
  · subst h
    rw [St.obj_eq, St.obj_eq]
    simp only [St.write, Array.getElem?_setIfInBounds, if_true]
    by_cases hb : a' < s.heap.size
    · rw [if_pos hb]
      simp [Obj.set, St.obj_eq, Array.getElem?_eq_getElem hb]
    · rw [if_neg hb]
      simp [Array.getElem?_eq_none (Nat.le_of_not_lt hb)]
  · rw [write_obj_ne s a a' f v h]

lemma write_get_other (s : St) (a a' : Nat) (f f' : Fld) (v : Val) (h : a' ≠ a ∨ f' ≠ f) :
    (s.write a f v).get a' f' = s.get a' f' := by
  unfold St.get
  by_cases ha : a' = a
  · subst ha
    have hf : f' ≠ f := by
      rcases h with h | h
      · exact absurd rfl h
      · exact h
    rw [St.obj_eq, St.obj_eq]
    simp only [St.write, Array.getElem?_setIfInBounds, if_true]
    by_cases hb : a' < s.heap.size
    · rw [if_pos hb]
      simp [Obj.set, hf, St.obj_eq, Array.getElem?_eq_getElem hb]
    · rw [if_neg hb]
      simp [Array.getElem?_eq_none (Nat.le_of_not_lt hb)]
  · rw [write_obj_ne s a a' f v ha]

lemma write_get_same (s : St) (a : Nat) (f : Fld) (v : Val) (h : a < s.size) :
    (s.write a f v).get a f = v := by
  unfold St.get
  rw [St.obj_eq]
  unfold St.size at h
  simp [St.write, h, Obj.set]

/-! ## the frame relation -/

structure Step (n : Nat) (s s' : St) : Prop where
  hn : n ≤ s.size
  size : s.size ≤ s'.size
  cls : ∀ a, a < s.size → s'.cls a = s.cls a
  get : ∀ a f, a < n → f.exempt = false → s'.get a f = s.get a f
  log : ∀ w, w ∈ s'.log → w ∈ s.log ∨ n ≤ w.1 ∨ w.2.exempt = true

lemma Step.refl {n : Nat} {s : St} (h : n ≤ s.size) : Step n s s :=
  ⟨h, Nat.le_refl _, fun _ _ => rfl, fun _ _ _ _ => rfl, fun _ hw => Or.inl hw⟩

lemma Step.trans {n : Nat} {s s' s'' : St} (h1 : Step n s s') (h2 : Step n s' s'') : Step n s s'' where
  hn := h1.hn
  size := Nat.le_trans h1.size h2.size
  cls := fun a ha => by rw [h2.cls a (Nat.lt_of_lt_of_le ha h1.size), h1.cls a ha]
  get := fun a f ha hf => by rw [h2.get a f ha hf, h1.get a f ha hf]
  log := fun w hw => by
    rcases h2.log w hw with h | h
    · exact h1.log w h
    · exact Or.inr h

lemma Step.le {n : Nat} {s s' : St} (h : Step n s s') : n ≤ s'.size := Nat.le_trans h.hn h.size

lemma step_alloc {n : Nat} {s : St} (h : n ≤ s.size) (o : Obj) : Step n s (s.alloc o).1 where
  hn := h
  size := by rw [alloc_size]; omega
  cls := fun a ha => by unfold St.cls; rw [alloc_obj_old s o a ha]
  get := fun a f ha _ => by unfold St.get; rw [alloc_obj_old s o a (Nat.lt_of_lt_of_le ha h)]
  log := fun w hw => Or.inl hw

lemma step_write {n : Nat} {s : St} (h : n ≤ s.size) (a : Nat) (f : Fld) (v : Val)
    (ha : n ≤ a ∨ f.exempt = true) : Step n s (s.write a f v) where
  hn := h
  size := by rw [write_size]; exact Nat.le_refl _
  cls := fun a' _ => write_cls s a a' f v
  get := fun a' f' ha' hf' => by
    apply write_get_other
    rcases ha with ha | ha
    · left; omega
    · right; intro e; subst e; rw [ha] at hf'; exact absurd hf' (by decide)
  log := fun w hw => by
    rw [write_log] at hw
    rcases List.mem_cons.1 hw with e | e
    · subst e; exact Or.inr ha
    · exact Or.inl e

/-- conditional write -/
lemma step_ite_write {n : Nat} {s : St} (h : n ≤ s.size) (c : Prop) [Decidable c] (a : Nat) (f : Fld) (v : Val)
    (ha : n ≤ a ∨ f.exempt = true) : Step n s (if c then s else s.write a f v) := by
  split
  · exact Step.refl h
  · exact step_write h a f v ha

/-! ## building blocks -/

lemma resync_step {n : Nat} {s : St} (h : n ≤ s.size) (a : Nat) : Step n s (s.resync a) := by
  unfold St.resync
  split
  · next g _ _ =>
    have h1 := step_ite_write h (s.get g .cmean = s.get a (.slot 0)) g .cmean (s.get a (.slot 0)) (Or.inr rfl)
    exact h1.trans (step_ite_write h1.le _ g .ccov _ (Or.inr rfl))
  · exact Step.refl h

lemma syncInner_step {n : Nat} {s : St} (h : n ≤ s.size) (a : Nat) : Step n s (s.syncInner a) := by
  unfold St.syncInner
  split
  · exact step_write h _ .syncName _ (Or.inr rfl)
  · exact Step.refl h

lemma makeCopy_addr (s : St) (a : Nat) : (s.makeCopy a).2 = s.size := rfl

lemma makeCopy_step {n : Nat} {s : St} (h : n ≤ s.size) (a : Nat) : Step n s (s.makeCopy a).1 := by
  unfold St.makeCopy
  have h1 := step_alloc h (s.obj a)
  exact h1.trans (step_write h1.le _ .orig _ (Or.inl (by rw [alloc_addr]; exact h)))

lemma condSlot_step {n : Nat} {s : St} (h : n ≤ s.size) (o : Obj) (kw : Kw) (b i : Nat) (hb : n ≤ b) :
    Step n s (condSlot o kw s b i) := by
  unfold condSlot
  split
  · split
    · exact step_write h _ _ _ (Or.inl hb)
    · exact Step.refl h
  · dsimp only
    split
    · exact step_write h _ _ _ (Or.inl hb)
    · split
      · exact step_write h _ _ _ (Or.inl hb)
      · exact Step.refl h
  · exact Step.refl h

lemma foldl_step {n : Nat} (g : St → Nat → St) (hg : ∀ s i, n ≤ s.size → Step n s (g s i)) :
    ∀ (l : List Nat) (s : St), n ≤ s.size → Step n s (l.foldl g s) := by
  intro l
  induction l with
  | nil => intro s h; exact Step.refl h
  | cons i l ih =>
    intro s h
    have h1 := hg s i h
    exact h1.trans (ih _ h1.le)

lemma condSlots_step {n : Nat} {s : St} (h : n ≤ s.size) (o : Obj) (kw : Kw) (b : Nat) (hb : n ≤ b) :
    Step n s (condSlots o kw s b) := by
  unfold condSlots
  exact foldl_step _ (fun s i hs => condSlot_step hs o kw b i hb) _ s h

lemma condNormalSlot_step {n : Nat} {s : St} (h : n ≤ s.size) (a b : Nat) (_hb : n ≤ b) :
    Step n s (s.condNormalSlot a b) := by
  unfold St.condNormalSlot
  split
  · next g _ _ =>
    have h1 := resync_step h a
    have h2 := makeCopy_step h1.le g
    exact (h1.trans h2).trans (step_write (h1.trans h2).le _ .cacheG _ (Or.inr rfl))
  · exact Step.refl h

/-- an address returned by an operation started in `s`: fresh, or the receiver itself when the
    receiver is an evaluated density -/
def FreshOr (s : St) (a : Nat) : Res → Prop
  | .obj b => s.size ≤ b ∨ (b = a ∧ s.cls a = .eval)
  | _ => True

lemma toLikelihood_step {n : Nat} {s : St} (h : n ≤ s.size) (b : Nat) (data : Int) :
    Step n s (s.toLikelihood b data).1 := by
  unfold St.toLikelihood
  split <;> exact step_alloc h _

lemma toLikelihood_fresh (s : St) (b : Nat) (data : Int) :
    ∀ r, (s.toLikelihood b data).2 = .obj r → s.size ≤ r := by
  intro r hr
  unfold St.toLikelihood at hr
  split at hr <;> · simp only [alloc_addr, Res.obj.injEq] at hr; omega

lemma condDist_step {n : Nat} {s : St} (h : n ≤ s.size) (a : Nat) (kw : Kw) : Step n s (s.condDist a kw).1 := by
  unfold St.condDist
  have h1 := makeCopy_step h a
  have hb : n ≤ (s.makeCopy a).2 := by rw [makeCopy_addr]; exact h
  have h2 := condSlots_step h1.le (s.obj a) kw _ hb
  have h3 := condNormalSlot_step (h1.trans h2).le a _ hb
  have h123 := (h1.trans h2).trans h3
  dsimp only
  split
  · exact h123
  · split
    · split
      · exact h123.trans (toLikelihood_step h123.le _ _)
      · exact h123
    · exact h123

lemma condDist_fresh (s : St) (a : Nat) (kw : Kw) : ∀ r, (s.condDist a kw).2 = .obj r → s.size ≤ r := by
  intro r hr
  have h0 : s.size ≤ s.size := Nat.le_refl _
  have h1 := makeCopy_step h0 a
  have hb : s.size ≤ (s.makeCopy a).2 := by rw [makeCopy_addr]; exact h0
  have h2 := condSlots_step h1.le (s.obj a) kw _ hb
  have h3 := condNormalSlot_step (h1.trans h2).le a _ hb
  have h123 := (h1.trans h2).trans h3
  unfold St.condDist at hr
  dsimp only at hr
  split at hr
  · simp only [Res.obj.injEq] at hr; rw [← hr, makeCopy_addr]; exact h0
  · split at hr
    · split at hr
      · exact Nat.le_trans h123.le (toLikelihood_fresh _ _ _ r hr)
      · exact absurd hr (by simp)
    · exact absurd hr (by simp)

/-- a pair (state, result) produced from `s`: a `Step`, and an object result is fresh -/
structure Good (n : Nat) (s : St) (p : St × Res) : Prop where
  step : Step n s p.1
  fresh : ∀ r, p.2 = .obj r → s.size ≤ r

lemma Good.mono {n : Nat} {s s0 : St} {p : St × Res} (h0 : Step n s0 s) (h : Good n s p) : Good n s0 p :=
  ⟨h0.trans h.step, fun r hr => Nat.le_trans h0.size (h.fresh r hr)⟩

lemma good_err {n : Nat} {s s' : St} (h : Step n s s') : Good n s (s', .err) :=
  ⟨h, fun r hr => absurd hr (by simp)⟩

lemma condDist_good {n : Nat} {s : St} (h : n ≤ s.size) (a : Nat) (kw : Kw) : Good n s (s.condDist a kw) :=
  ⟨condDist_step h a kw, condDist_fresh s a kw⟩

lemma toLikelihood_good {n : Nat} {s : St} (h : n ≤ s.size) (b : Nat) (data : Int) : Good n s (s.toLikelihood b data) :=
  ⟨toLikelihood_step h b data, toLikelihood_fresh s b data⟩

lemma condReg_good {n : Nat} {s : St} (h : n ≤ s.size) (a : Nat) (kw : Kw) : Good n s (s.condReg a kw) := by
  unfold St.condReg
  split
  · next g _ =>
    dsimp only
    have h1 := makeCopy_step h a
    have hb : n ≤ (s.makeCopy a).2 := by rw [makeCopy_addr]; exact h
    have h2 := syncInner_step h1.le a
    have h12 := h1.trans h2
    have h3' := fun kw' => condDist_good h12.le g kw'
    split
    · next s3 g' heq =>
      have h3 : Good n ((s.makeCopy a).1.syncInner a) (s3, .obj g') := by rw [← heq]; exact h3' _
      have h123 := h12.trans h3.step
      have h4 := step_write h123.le (s.makeCopy a).2 .gauss (.ref g') (Or.inl hb)
      have h1234 := h123.trans h4
      split
      · exact (toLikelihood_good h1234.le _ _).mono h1234
      · exact ⟨h1234, fun r hr => by simp only [Res.obj.injEq] at hr; rw [← hr, makeCopy_addr]; exact Nat.le_refl _⟩
    · next s3 r _ heq =>
      have h3 : Good n ((s.makeCopy a).1.syncInner a) (s3, r) := by rw [← heq]; exact h3' _
      exact good_err (h12.trans h3.step)
  · exact good_err (Step.refl h)

lemma condDistOrReg_good {n : Nat} {s : St} (h : n ≤ s.size) (d : Nat) (kw : Kw) :
    Good n s (if s.cls d = .reggauss then s.condReg d kw else s.condDist d kw) := by
  split
  · exact condReg_good h d kw
  · exact condDist_good h d kw

lemma condLik_good {n : Nat} {s : St} (h : n ≤ s.size) (a : Nat) (kw : Kw) : Good n s (s.condLik a kw) := by
  unfold St.condLik
  split
  · next d data _ _ =>
    dsimp only
    have h1 := step_alloc h (s.obj a)
    have hb : n ≤ (s.alloc (s.obj a)).2 := by rw [alloc_addr]; exact h
    have h2 := condDistOrReg_good h1.le d kw
    split
    · next s2 d' heq =>
      rw [heq] at h2
      have h12 := h1.trans h2.step
      split
      · exact good_err h12
      · have h3 := step_write h12.le (s.alloc (s.obj a)).2 .distr (.ref d') (Or.inl hb)
        have h123 := h12.trans h3
        split
        · exact (toLikelihood_good h123.le _ _).mono h123
        · exact ⟨h123, fun r hr => by simp only [Res.obj.injEq] at hr; rw [← hr, alloc_addr]; exact Nat.le_refl _⟩
    · next s2 r _ heq =>
      rw [heq] at h2
      exact good_err (h1.trans h2.step)
  · exact good_err (Step.refl h)

/-- conditioning a density held by a joint: a `Step`; the result is fresh or the evaluated density itself -/
lemma condDens_step {n : Nat} {s : St} (h : n ≤ s.size) (a : Nat) (kw : Kw) : Step n s (s.condDens a kw).1 := by
  unfold St.condDens
  split
  · exact (condDist_good h a kw).step
  · exact (condDist_good h a kw).step
  · exact (condReg_good h a kw).step
  · exact (condLik_good h a kw).step
  · exact Step.refl h
  · exact Step.refl h

lemma condDens_res (s : St) (a : Nat) (kw : Kw) :
    ∀ r, (s.condDens a kw).2 = .obj r → s.size ≤ r ∨ (r = a ∧ s.cls a = .eval) := by
  intro r hr
  have h0 : s.size ≤ s.size := Nat.le_refl _
  unfold St.condDens at hr
  split at hr
  · exact Or.inl ((condDist_good h0 a kw).fresh r hr)
  · exact Or.inl ((condDist_good h0 a kw).fresh r hr)
  · exact Or.inl ((condReg_good h0 a kw).fresh r hr)
  · exact Or.inl ((condLik_good h0 a kw).fresh r hr)
  · next he => simp only [Res.obj.injEq] at hr; exact Or.inr ⟨hr.symm, he⟩
  · exact absurd hr (by simp)

/-! ## joint conditioning -/

/-- invariant on the entries already replaced: fresh (≥ n) or an evaluated density -/
def EntryOk (n : Nat) (s : St) (d : Nat) : Prop := n ≤ d ∨ (d < s.size ∧ s.cls d = .eval)

lemma EntryOk.mono {n : Nat} {s s' : St} {d : Nat} (h : Step n s s') (hd : EntryOk n s d) : EntryOk n s' d := by
  rcases hd with hd | ⟨h1, h2⟩
  · exact Or.inl hd
  · exact Or.inr ⟨Nat.lt_of_lt_of_le h1 h.size, by rw [h.cls d h1]; exact h2⟩

lemma cls_ne_geom_lt (s : St) (d : Nat) (h : s.cls d ≠ .geom) : d < s.size := by
  apply Classical.byContradiction
  intro hlt
  apply h
  unfold St.cls
  rw [St.obj_eq, Array.getElem?_eq_none (by unfold St.size at hlt; omega)]
  rfl

lemma condList_spec {n : Nat} (kw : Kw) (j : Nat) (hj : n ≤ j) :
    ∀ (rest : List Nat) (s : St) (pre : List Nat), n ≤ s.size →
      (∀ d ∈ pre, EntryOk n s d) →
      Step n s (condList kw j s pre rest).1 ∧
      ∀ ds, (condList kw j s pre rest).2 = some ds → ∀ d ∈ ds, EntryOk n (condList kw j s pre rest).1 d := by
  intro rest
  induction rest with
  | nil =>
    intro s pre h hpre
    refine ⟨Step.refl h, ?_⟩
    intro ds hds d hd
    simp only [condList, Option.some.injEq] at hds
    subst hds
    exact hpre d hd
  | cons d0 rest ih =>
    intro s pre h hpre
    unfold condList
    have h1 := condDens_step h d0 (restrictKw kw (s.parNamesDens d0))
    have hres := condDens_res s d0 (restrictKw kw (s.parNamesDens d0))
    split
    · next s1 d' heq =>
      rw [heq] at h1
      have hres' := hres d' (by rw [heq])
      have h2 := step_write h1.le j .dens (.refs (pre ++ d' :: rest)) (Or.inl hj)
      have h12 := h1.trans h2
      have hpre' : ∀ d ∈ pre ++ [d'], EntryOk n (s1.write j .dens (.refs (pre ++ d' :: rest))) d := by
        intro d hd
        rcases List.mem_append.1 hd with hd | hd
        · exact (hpre d hd).mono h12
        · simp only [List.mem_singleton] at hd
          subst hd
          rcases hres' with hf | ⟨he, hc⟩
          · exact Or.inl (Nat.le_trans h hf)
          · subst he
            have hlt : d < s.size := cls_ne_geom_lt s d (by rw [hc]; decide)
            exact EntryOk.mono h12 (Or.inr ⟨hlt, hc⟩)
      have := ih (s1.write j .dens (.refs (pre ++ d' :: rest))) (pre ++ [d']) h12.le hpre'
      exact ⟨h12.trans this.1, this.2⟩
    · next s1 r _ heq =>
      rw [heq] at h1
      exact ⟨h1, fun ds hds => absurd hds (by simp)⟩

/-- `density._constant += x` on a fresh density `d`: the field is re-bound on `d` (fresh); an
    array-typed constant is additionally mutated in place (exempt field `cval` of a possibly old,
    shared array object). -/
lemma addConst_step {n : Nat} {s : St} (h : n ≤ s.size) (d : Nat) (ds : List Nat) (hd : n ≤ d) :
    Step n s (s.addConst d ds) := by
  unfold St.addConst
  split
  · next cell _ =>
    dsimp only
    have h1 : Step n s (if s.hasEvals ds = true then s.write cell .cval (.num (s.constOf d + s.sumEvals ds)) else s) := by
      split
      · exact step_write h cell .cval _ (Or.inr rfl)
      · exact Step.refl h
    exact h1.trans (step_write h1.le d .const _ (Or.inl hd))
  · split
    · have h1 := step_alloc h (Obj.ofList .arr [(.cval, .num (s.constOf d + s.sumEvals ds))])
      exact h1.trans (step_write h1.le d .const _ (Or.inl hd))
    · exact step_write h d .const _ (Or.inl hd)

lemma reduce_good {n : Nat} {s : St} (h : n ≤ s.size) (j : Nat) (hj : n ≤ j) (ds : List Nat)
    (hds : ∀ d ∈ ds, EntryOk n s d) :
    Step n s (s.reduce j ds).1 ∧ ∀ r, (s.reduce j ds).2 = .obj r → n ≤ r := by
  have hdist : ∀ d, d ∈ ds.filter (fun d => (s.cls d).isDist) → n ≤ d := by
    intro d hd
    rcases List.mem_filter.1 hd with ⟨hm, hc⟩
    rcases hds d hm with hh | ⟨_, he⟩
    · exact hh
    · rw [he] at hc; exact absurd hc (by decide)
  have hlik : ∀ d, d ∈ ds.filter (fun d => decide (s.cls d = .lik)) → n ≤ d := by
    intro d hd
    rcases List.mem_filter.1 hd with ⟨hm, hc⟩
    rcases hds d hm with hh | ⟨_, he⟩
    · exact hh
    · rw [he] at hc; exact absurd hc (by decide)
  unfold St.reduce
  dsimp only
  split
  · exact ⟨Step.refl h, fun r hr => by simp only [Res.obj.injEq] at hr; omega⟩
  · exact ⟨step_alloc h _, fun r hr => by simp only [alloc_addr, Res.obj.injEq] at hr; omega⟩
  · next d l hd hl =>
    split
    · have h1 := step_alloc h (Obj.ofList .post [(.lik, .ref l), (.prior, .ref d), (.const, .num 0)])
      refine ⟨h1.trans (addConst_step h1.le _ ds (by rw [alloc_addr]; exact h)), ?_⟩
      intro r hr
      simp only [alloc_addr, Res.obj.injEq] at hr
      omega
    · exact ⟨Step.refl h, fun r hr => by simp only [Res.obj.injEq] at hr; omega⟩
  · next d hd hl =>
    have hdn : n ≤ d := hdist d (by rw [hd]; simp)
    exact ⟨addConst_step h d ds hdn, fun r hr => by simp only [Res.obj.injEq] at hr; omega⟩
  · next l hd hl =>
    have hln : n ≤ l := hlik l (by rw [hl]; simp)
    exact ⟨Step.refl h, fun r hr => by simp only [Res.obj.injEq] at hr; omega⟩
  · exact ⟨Step.refl h, fun r hr => by simp only [Res.obj.injEq] at hr; omega⟩

lemma condJoint_good {n : Nat} {s : St} (h : n ≤ s.size) (a : Nat) (kw : Kw) :
    Step n s (s.condJoint a kw).1 ∧ ∀ r, (s.condJoint a kw).2 = .obj r → n ≤ r := by
  unfold St.condJoint
  split
  · next ds _ =>
    dsimp only
    have h1 := step_alloc h (s.obj a)
    have hj : n ≤ (s.alloc (s.obj a)).2 := by rw [alloc_addr]; exact h
    have h2 := step_write h1.le (s.alloc (s.obj a)).2 .dens (.refs ds) (Or.inl hj)
    have h12 := h1.trans h2
    have h3 := condList_spec kw (s.alloc (s.obj a)).2 hj ds _ [] h12.le (fun d hd => absurd hd (by simp))
    split
    · next s3 ds' heq =>
      rw [heq] at h3
      have h123 := h12.trans h3.1
      have h4 := reduce_good h123.le (s.alloc (s.obj a)).2 hj ds' (h3.2 ds' rfl)
      exact ⟨h123.trans h4.1, h4.2⟩
    · next s3 heq =>
      rw [heq] at h3
      exact ⟨h12.trans h3.1, fun r hr => absurd hr (by simp)⟩
  · exact ⟨Step.refl h, fun r hr => absurd hr (by simp)⟩

lemma condPost_step {n : Nat} {s : St} (h : n ≤ s.size) (a : Nat) (kw : Kw) : Step n s (s.condPost a kw).1 := by
  unfold St.condPost
  split
  · next l p _ _ =>
    dsimp only
    have h1 := makeCopy_step h a
    have hb : n ≤ (s.makeCopy a).2 := by rw [makeCopy_addr]; exact h
    have h2 := condLik_good h1.le l []
    split
    · next s2 l' heq =>
      rw [heq] at h2
      have h12 := h1.trans h2.step
      have h3 := step_write h12.le (s.makeCopy a).2 .lik (.ref l') (Or.inl hb)
      have h123 := h12.trans h3
      have h4 := condDens_step h123.le p []
      split
      · next s4 p' heq4 =>
        rw [heq4] at h4
        exact (h123.trans h4).trans (step_write (h123.trans h4).le _ .prior _ (Or.inl hb))
      · next s4 r _ heq4 =>
        rw [heq4] at h4
        exact h123.trans h4
    · next s2 r _ heq =>
      rw [heq] at h2
      exact h1.trans h2.step
  · exact Step.refl h

lemma condAny_step {n : Nat} {s : St} (h : n ≤ s.size) (a : Nat) (kw : Kw) : Step n s (s.condAny a kw).1 := by
  unfold St.condAny
  split
  · exact (condJoint_good h a kw).1
  · exact (condJoint_good h a kw).1
  · exact condPost_step h a kw
  all_goals first | exact condDens_step h a kw | exact Step.refl h

/-! ## evaluation -/

lemma logdDist_step {n : Nat} {s : St} (h : n ≤ s.size) (a : Nat) (kw : Kw) : Step n s (s.logdDist a kw).1 := by
  unfold St.logdDist
  dsimp only
  split
  · exact Step.refl h
  · split
    · exact Step.refl h
    · split
      · exact Step.refl h
      · split
        · exact resync_step h a
        · have h1 := condDistOrReg_good (s := s) h a (restrictKw kw (s.condVars a))
          split
          · next s1 b heq =>
            rw [heq] at h1
            exact h1.step.trans (resync_step h1.step.le b)
          · next s1 r _ heq =>
            rw [heq] at h1
            exact h1.step

lemma logdLik_step {n : Nat} {s : St} (h : n ≤ s.size) (a : Nat) (kw : Kw) : Step n s (s.logdLik a kw).1 := by
  unfold St.logdLik
  split
  · next d data _ _ =>
    split
    · exact Step.refl h
    · have h1 := condDistOrReg_good (s := s) h d kw
      split
      · next s1 b heq =>
        rw [heq] at h1
        exact h1.step.trans (resync_step h1.step.le b)
      · next s1 r _ heq =>
        rw [heq] at h1
        exact h1.step
  · exact Step.refl h

lemma logdDens_step {n : Nat} {s : St} (h : n ≤ s.size) (a : Nat) (kw : Kw) : Step n s (s.logdDens a kw).1 := by
  unfold St.logdDens
  split
  · exact logdDist_step h a kw
  · exact logdDist_step h a kw
  · exact logdDist_step h a kw
  · exact logdLik_step h a kw
  · split <;> exact Step.refl h
  · exact Step.refl h

lemma logdList_step {n : Nat} (kw : Kw) :
    ∀ (ds : List Nat) (s : St) (acc : Int), n ≤ s.size → Step n s (logdList kw s acc ds).1 := by
  intro ds
  induction ds with
  | nil => intro s acc h; exact Step.refl h
  | cons d rest ih =>
    intro s acc h
    unfold logdList
    have h1 := logdDens_step h d (restrictKw kw (s.parNamesDens d))
    split
    · next s1 v heq =>
      rw [heq] at h1
      exact h1.trans (ih s1 (acc + v) h1.le)
    · next s1 r _ heq =>
      rw [heq] at h1
      exact h1

lemma logdJoint_step {n : Nat} {s : St} (h : n ≤ s.size) (a : Nat) (kw : Kw) : Step n s (s.logdJoint a kw).1 := by
  unfold St.logdJoint
  split
  · split
    · exact Step.refl h
    · exact logdList_step kw _ s 0 h
  · exact Step.refl h

lemma logdPost_step {n : Nat} {s : St} (h : n ≤ s.size) (a : Nat) (kw : Kw) : Step n s (s.logdPost a kw).1 := by
  unfold St.logdPost
  split
  · next l p _ _ =>
    have h1 := logdLik_step h l kw
    split
    · next s1 v1 heq =>
      rw [heq] at h1
      have h2 := logdDist_step h1.le p kw
      split
      · next s2 v2 heq2 => rw [heq2] at h2; exact h1.trans h2
      · next s2 r _ heq2 => rw [heq2] at h2; exact h1.trans h2
    · next s1 r _ heq =>
      rw [heq] at h1
      exact h1
  · exact Step.refl h

lemma logdAny_step {n : Nat} {s : St} (h : n ≤ s.size) (a : Nat) (kw : Kw) : Step n s (s.logdAny a kw).1 := by
  unfold St.logdAny
  split
  · exact logdJoint_step h a kw
  · exact logdJoint_step h a kw
  · exact logdPost_step h a kw
  all_goals first | exact logdDens_step h a kw | exact Step.refl h

lemma touch_step {n : Nat} {s : St} (h : n ≤ s.size) (a : Nat) : Step n s (s.touch a) := by
  unfold St.touch
  split
  · exact resync_step h a
  · exact syncInner_step h a
  · split
    · next d _ => exact (resync_step h d).trans (syncInner_step (resync_step h d).le d)
    · exact Step.refl h
  · split
    · next l p _ _ =>
      dsimp only
      have h1 : Step n s (match s.get l .distr with | .ref d => (s.resync d).syncInner d | _ => s) := by
        split
        · next d _ => exact (resync_step h d).trans (syncInner_step (resync_step h d).le d)
        · exact Step.refl h
      exact (h1.trans (resync_step h1.le p)).trans (syncInner_step (h1.trans (resync_step h1.le p)).le p)
    · exact Step.refl h
  · exact Step.refl h

lemma gradAny_step {n : Nat} {s : St} (h : n ≤ s.size) (a : Nat) : Step n s (s.gradAny a).1 := by
  unfold St.gradAny
  split
  all_goals first
    | exact touch_step h a
    | exact Step.refl h
    | (split <;> first | exact touch_step h a | exact Step.refl h)

lemma sampleAny_step {n : Nat} {s : St} (h : n ≤ s.size) (a : Nat) : Step n s (s.sampleAny a).1 := by
  unfold St.sampleAny
  split
  all_goals first
    | exact Step.refl h
    | (split <;> first | exact touch_step h a | exact Step.refl h)

lemma toLikAny_step {n : Nat} {s : St} (h : n ≤ s.size) (a : Nat) (data : Int) : Step n s (s.toLikAny a data).1 := by
  unfold St.toLikAny
  split
  all_goals first | exact toLikelihood_step h a data | exact Step.refl h

lemma applyModel_step {n : Nat} {s : St} (h : n ≤ s.size) (m d : Nat) : Step n s (s.applyModel m d).1 := by
  unfold St.applyModel
  split
  · have h1 := step_alloc h (s.obj m)
    exact h1.trans (step_write h1.le _ .args _ (Or.inl (by rw [alloc_addr]; exact h)))
  · exact Step.refl h

lemma mkJoint_step {n : Nat} {s : St} (h : n ≤ s.size) (ds : List Nat) : Step n s (s.mkJoint ds).1 := by
  unfold St.mkJoint
  dsimp only
  split
  · exact step_alloc h _
  · exact Step.refl h

lemma run_step {n : Nat} {s : St} (h : n ≤ s.size) (op : Op) : Step n s (s.run op).1 := by
  cases op with
  | cond a kw => exact condAny_step h a kw
  | logd a kw => exact logdAny_step h a kw
  | grad a => exact gradAny_step h a
  | sample a => exact sampleAny_step h a
  | tolik a data => exact toLikAny_step h a data
  | apply m d => exact applyModel_step h m d
  | mkjoint ds => exact mkJoint_step h ds

lemma runAll_step {n : Nat} : ∀ (ops : List Op) (s : St), n ≤ s.size → Step n s (s.runAll ops) := by
  intro ops
  induction ops with
  | nil => intro s h; exact Step.refl h
  | cons op ops ih =>
    intro s h
    unfold St.runAll
    have h1 := run_step h op
    exact h1.trans (ih _ h1.le)

/-! ## fingerprints and names read only non-benign fields of old objects -/

lemma fpFields_nonbenign : ∀ f ∈ fpFields, f.exempt = false := by decide

lemma fp_congr (n : Nat) (s s' : St)
    (h : ∀ a, a < n → s'.cls a = s.cls a ∧ ∀ f, f.exempt = false → s'.get a f = s.get a f) :
    ∀ (fuel a : Nat), fp n fuel s' a = fp n fuel s a := by
  intro fuel
  induction fuel with
  | zero => intro a; rfl
  | succ k ih =>
    intro a
    unfold fp
    by_cases ha : a < n
    · rw [if_pos ha, if_pos ha, (h a ha).1]
      congr 1
      apply List.map_congr_left
      intro f hf
      rw [(h a ha).2 f (fpFields_nonbenign f hf)]
      split
      · exact ih _
      · congr 1
        apply List.map_congr_left
        intro b _
        exact ih b
      · rfl
    · rw [if_neg ha, if_neg ha]

lemma Step.fp_eq {n : Nat} {s s' : St} (h : Step n s s') (fuel a : Nat) : fp n fuel s' a = fp n fuel s a :=
  fp_congr n s s' (fun a ha => ⟨h.cls a (Nat.lt_of_lt_of_le ha h.hn), fun f hf => h.get a f ha hf⟩) fuel a

lemma nameOf_congr (n : Nat) (s s' : St) (h : ∀ a f, a < n → f.exempt = false → s'.get a f = s.get a f) :
    ∀ a, a < n → s'.nameOf a = s.nameOf a := by
  intro a
  induction a using Nat.strongRecOn with
  | _ a ih =>
    intro ha
    rw [St.nameOf, St.nameOf, h a .orig ha rfl, h a .name ha rfl]
    split
    · next o _ =>
      split
      · next ho => exact ih o ho (Nat.lt_trans ho ha)
      · rfl
    · rfl

end CuqiVerif.C11
