import CuqiVerif.Props.C03
import Mathlib.Analysis.InnerProductSpace.PiL2
import Mathlib.Analysis.InnerProductSpace.Adjoint
import Mathlib.Analysis.InnerProductSpace.Calculus
import Mathlib.Analysis.Calculus.Gradient.Basic
import Mathlib.Analysis.Calculus.FDeriv.Comp
import Mathlib.Analysis.Calculus.FDeriv.Add
import Mathlib.Analysis.Calculus.FDeriv.Linear
import Mathlib.Algebra.BigOperators.Fin
import Mathlib.Data.Matrix.Mul
import Mathlib.Analysis.Calculus.Deriv.Slope

/-!
# C03 — helper lemmas for the chain-rule theorems (`Props/C03_chain.lean`)

* bridge between the model's `ℕ`-indexed vectors / matrices (`ℕ → ℝ`, `ℕ → ℕ → ℝ`, explicit sizes) and
  Mathlib's `EuclideanSpace ℝ (Fin n)` / continuous linear maps / `Matrix`:
  `coords`, `toE`, `jac`, `toCLM`, `toMat`, `toVec`;
* `hasGradientAt_neg_half_quad` — the abstract statement in real Hilbert spaces: for a self-adjoint `A`
  and `u` with Fréchet derivative `U` at `x`, `y ↦ -½⟪d - u y, A (d - u y)⟫` has gradient `U† (A (d - u x))`;
* `adjoint_comp_quad_coords` / `adjoint_quad_coords` — the coordinates of `G† (J† (A w))` are exactly the
  model's `likGrad` (the executable definition at `ℝ`).
-/
open Finset
open scoped InnerProductSpace
namespace CuqiVerif.C03

/-- `ℝⁿ` with the Euclidean inner product -/
abbrev E (n : ℕ) := EuclideanSpace ℝ (Fin n)

/-- coordinates of a Euclidean vector as a model vector `ℕ → ℝ` (zero beyond the length) -/
def coords {n : ℕ} (v : E n) : ℕ → ℝ := fun j => if h : j < n then v ⟨j, h⟩ else 0

/-- the first `n` entries of a model vector as a Euclidean vector -/
noncomputable def toE (n : ℕ) (f : ℕ → ℝ) : E n := WithLp.toLp 2 (fun i : Fin n => f i)

/-- the matrix of a continuous linear map in the standard bases, as a model matrix:
    `jac J a l = (J e_l)_a` (zero outside `m × p`) -/
noncomputable def jac {p m : ℕ} (J : E p →L[ℝ] E m) : ℕ → ℕ → ℝ := fun a l =>
  if h : l < p then coords (J (EuclideanSpace.single ⟨l, h⟩ 1)) a else 0

/-- the `m × p` block of a model matrix as a Mathlib matrix -/
def toMat {K : Type} (m p : ℕ) (A : ℕ → ℕ → K) : Matrix (Fin m) (Fin p) K := Matrix.of fun a l => A a l

/-- the first `n` entries of a model vector as a Mathlib vector -/
def toVec {K : Type} (n : ℕ) (f : ℕ → K) : Fin n → K := fun i => f i

/-- the continuous linear map `ℝᵖ → ℝᵐ` of the `m × p` block of a model matrix -/
noncomputable def toCLM (m p : ℕ) (A : ℕ → ℕ → ℝ) : E p →L[ℝ] E m :=
  LinearMap.toContinuousLinearMap (Matrix.toEuclideanLin (toMat m p A))

@[simp] lemma coords_lt {n : ℕ} (v : E n) (j : Fin n) : coords v j = v j := by
  simp [coords]

lemma coords_of_lt {n : ℕ} (v : E n) (j : ℕ) (h : j < n) : coords v j = v ⟨j, h⟩ := by
  simp [coords, h]

@[simp] lemma toE_apply (n : ℕ) (f : ℕ → ℝ) (i : Fin n) : toE n f i = f i := rfl

lemma coords_toE (n : ℕ) (f : ℕ → ℝ) (j : ℕ) (h : j < n) : coords (toE n f) j = f j := by
  simp [coords, h]

@[simp] lemma toE_coords {n : ℕ} (v : E n) : toE n (coords v) = v := by
  ext i; simp

lemma toCLM_apply (m p : ℕ) (A : ℕ → ℕ → ℝ) (v : E p) (a : Fin m) :
    toCLM m p A v a = ∑ l : Fin p, A a l * v l := by
  simp [toCLM, toMat, Matrix.toLpLin_apply, Matrix.mulVec, dotProduct]

lemma jac_toCLM (m p : ℕ) (A : ℕ → ℕ → ℝ) (a l : ℕ) (ha : a < m) (hl : l < p) :
    jac (toCLM m p A) a l = A a l := by
  simp only [jac, hl, dite_true, coords_of_lt _ a ha, toCLM_apply]
  rw [Finset.sum_eq_single ⟨l, hl⟩]
  · simp
  · intro b _ hb; simp [hb]
  · simp

section sumsFin
variable {K : Type} [CommRing K]

lemma sumTo_eq_sum_fin (n : ℕ) (f : ℕ → K) : sumTo n f = ∑ k : Fin n, f k := by
  rw [sumTo_eq_sum, Finset.sum_range]

end sumsFin

/-! ## the abstract statement -/
section abstract
variable {E' H : Type*} [NormedAddCommGroup E'] [InnerProductSpace ℝ E'] [CompleteSpace E']
  [NormedAddCommGroup H] [InnerProductSpace ℝ H] [CompleteSpace H]

open ContinuousLinearMap in
/-- **Gaussian log-likelihood in Hilbert spaces.**  `A` self-adjoint, `u` Fréchet differentiable at `x`
    with derivative `U`: the gradient of `y ↦ -½⟪d - u y, A (d - u y)⟫` at `x` is `U† (A (d - u x))`. -/
lemma hasGradientAt_neg_half_quad (A : H →L[ℝ] H) (hA : ∀ u v : H, ⟪A u, v⟫_ℝ = ⟪u, A v⟫_ℝ) (d : H)
    (u : E' → H) (U : E' →L[ℝ] H) (x : E') (hu : HasFDerivAt u U x) :
    HasGradientAt (fun y => -(⟪d - u y, A (d - u y)⟫_ℝ) / 2) (adjoint U (A (d - u x))) x := by
  have hdev : HasFDerivAt (fun y => d - u y) (-U) x := hu.const_sub d
  have hAdev : HasFDerivAt (fun y => A (d - u y)) (A ∘L (-U)) x := A.hasFDerivAt.comp x hdev
  have hin := (hdev.inner ℝ hAdev).const_mul (-(1 / 2 : ℝ))
  rw [hasGradientAt_iff_hasFDerivAt]
  have e : (fun y => -(⟪d - u y, A (d - u y)⟫_ℝ) / 2) = fun y => -(1 / 2 : ℝ) * ⟪d - u y, A (d - u y)⟫_ℝ := by
    funext y; ring
  rw [e]
  refine hin.congr_fderiv ?_
  ext h
  simp only [FunLike.coe_smul, Pi.smul_apply, ContinuousLinearMap.coe_comp,
    Function.comp_apply, fderivInnerCLM_apply, ContinuousLinearMap.prod_apply,
    neg_apply, map_neg, inner_neg_right, inner_neg_left, smul_eq_mul,
    InnerProductSpace.toDual_apply_apply, adjoint_inner_left]
  rw [← hA (d - u x) (U h), real_inner_comm (U h) (A (d - u x))]
  ring

end abstract

/-! ## coordinates -/

lemma inner_eq_sum {n : ℕ} (v w : E n) : ⟪v, w⟫_ℝ = ∑ i : Fin n, v i * w i := by
  simp [PiLp.inner_apply, mul_comm]

/-- `(G† v)_i = Σ_l v_l (G e_i)_l` -/
lemma adjoint_apply_coord {n p : ℕ} (G : E n →L[ℝ] E p) (v : E p) (i : Fin n) :
    (ContinuousLinearMap.adjoint G v) i = ∑ l : Fin p, v l * (G (EuclideanSpace.single i 1)) l := by
  have h1 : (ContinuousLinearMap.adjoint G v) i
      = ⟪EuclideanSpace.single i (1:ℝ), ContinuousLinearMap.adjoint G v⟫_ℝ := by
    rw [EuclideanSpace.inner_single_left]; simp
  rw [h1, ContinuousLinearMap.adjoint_inner_right, inner_eq_sum]
  apply Finset.sum_congr rfl; intro l _; ring

/-- the model's vector–Jacobian product is the adjoint, in coordinates -/
lemma adjoint_eq_vjp {n p : ℕ} (G : E n →L[ℝ] E p) (v : E p) (i : Fin n) :
    (ContinuousLinearMap.adjoint G v) i = vjp p (jac G) (coords v) i := by
  rw [adjoint_apply_coord, vjp_eq, Finset.sum_range]
  apply Finset.sum_congr rfl; intro l _
  simp [jac]

/-- the model's `matVec` is the matrix CLM, in coordinates -/
lemma toCLM_eq_matVec (m p : ℕ) (A : ℕ → ℕ → ℝ) (v : E p) (a : Fin m) :
    toCLM m p A v a = matVec p A (coords v) a := by
  rw [toCLM_apply, matVec_eq, Finset.sum_range]
  apply Finset.sum_congr rfl; intro l _
  simp

lemma vjp_congr {K : Type} [CommRing K] (m : ℕ) (J : ℕ → ℕ → K) (dir dir' : ℕ → K)
    (h : ∀ j < m, dir j = dir' j) (l : ℕ) : vjp m J dir l = vjp m J dir' l := by
  simp only [vjp_eq]
  apply Finset.sum_congr rfl; intro j hj
  rw [h j (Finset.mem_range.mp hj)]

lemma matVec_congr {K : Type} [CommRing K] (n : ℕ) (M : ℕ → ℕ → K) (z z' : ℕ → K)
    (h : ∀ j < n, z j = z' j) (k : ℕ) : matVec n M z k = matVec n M z' k := by
  simp only [matVec_eq]
  apply Finset.sum_congr rfl; intro j hj
  rw [h j (Finset.mem_range.mp hj)]

/-- symmetric model matrix ⇒ self-adjoint CLM -/
lemma toCLM_selfAdjoint (m : ℕ) (P : ℕ → ℕ → ℝ) (hP : ∀ a < m, ∀ b < m, P a b = P b a) (u v : E m) :
    ⟪toCLM m m P u, v⟫_ℝ = ⟪u, toCLM m m P v⟫_ℝ := by
  simp only [inner_eq_sum, toCLM_apply, Finset.sum_mul, Finset.mul_sum]
  rw [Finset.sum_comm]
  apply Finset.sum_congr rfl; intro a _
  apply Finset.sum_congr rfl; intro b _
  rw [hP a a.2 b b.2]; ring

/-- the model's quadratic form is `⟪d - w, P (d - w)⟫` -/
lemma gaussQuad_eq_inner (m : ℕ) (P : ℕ → ℕ → ℝ) (d : ℕ → ℝ) (w : E m) :
    gaussQuad m P d (coords w) = ⟪toE m d - w, toCLM m m P (toE m d - w)⟫_ℝ := by
  rw [gaussQuad_eq, inner_eq_sum, Finset.sum_range]
  apply Finset.sum_congr rfl; intro a _
  rw [toCLM_apply, Finset.sum_range]
  simp

/-- **coordinates of `J† (P w)`** = the model's `likGrad … none` -/
lemma adjoint_quad_coords (m p : ℕ) (P : ℕ → ℕ → ℝ) (dev : ℕ → ℝ) (J : E p →L[ℝ] E m) (i : Fin p) :
    (ContinuousLinearMap.adjoint J (toCLM m m P (toE m dev))) i
      = likGrad m p p P dev (jac J) none i := by
  rw [adjoint_eq_vjp]
  simp only [likGrad]
  apply vjp_congr
  intro a ha
  rw [coords_of_lt _ a ha, toCLM_eq_matVec]
  apply matVec_congr
  intro b hb
  exact coords_toE m dev b hb

/-- **coordinates of `G† (J† (P w))`** = the model's `likGrad … (some G)` -/
lemma adjoint_comp_quad_coords (m p n : ℕ) (P : ℕ → ℕ → ℝ) (dev : ℕ → ℝ) (J : E p →L[ℝ] E m)
    (G : E n →L[ℝ] E p) (i : Fin n) :
    (ContinuousLinearMap.adjoint (J ∘L G) (toCLM m m P (toE m dev))) i
      = likGrad m p n P dev (jac J) (some (jac G)) i := by
  rw [ContinuousLinearMap.adjoint_comp, ContinuousLinearMap.comp_apply, adjoint_eq_vjp]
  simp only [likGrad]
  apply vjp_congr
  intro l hl
  rw [coords_of_lt _ l hl]
  exact adjoint_quad_coords m p P dev J ⟨l, hl⟩

lemma toE_sub_coords (m : ℕ) (d : ℕ → ℝ) (w : E m) :
    toE m d - w = toE m (fun a => d a - coords w a) := by
  ext a; simp

/-! ## congruence of the coded gradient in the entries it reads -/

lemma likGrad_congr {K : Type} [CommRing K] (m p n : ℕ) (P : ℕ → ℕ → K) (dev : ℕ → K)
    (J J' G G' : ℕ → ℕ → K) (hJ : ∀ a < m, ∀ l < p, J a l = J' a l)
    (hG : ∀ l < p, ∀ i < n, G l i = G' l i) (i : ℕ) (hi : i < n) :
    likGrad m p n P dev J (some G) i = likGrad m p n P dev J' (some G') i := by
  simp only [likGrad, vjp_eq]
  apply Finset.sum_congr rfl; intro l hl
  rw [hG l (Finset.mem_range.mp hl) i hi]
  congr 1
  apply Finset.sum_congr rfl; intro a ha
  rw [hJ a (Finset.mem_range.mp ha) l (Finset.mem_range.mp hl)]

lemma likGrad_none_congr {K : Type} [CommRing K] (m p : ℕ) (P : ℕ → ℕ → K) (dev : ℕ → K)
    (J J' : ℕ → ℕ → K) (hJ : ∀ a < m, ∀ l < p, J a l = J' a l) (i : ℕ) (hi : i < p) :
    likGrad m p p P dev J none i = likGrad m p p P dev J' none i := by
  simp only [likGrad, vjp_eq]
  apply Finset.sum_congr rfl; intro a ha
  rw [hJ a (Finset.mem_range.mp ha) i hi]

lemma toE_congr (n : ℕ) (f g : ℕ → ℝ) (h : ∀ i < n, f i = g i) : toE n f = toE n g := by
  ext i; simp [h i i.2]

/-! ## sums of gradients -/

lemma toE_add (n : ℕ) (a b : ℕ → ℝ) : toE n (fun i => a i + b i) = toE n a + toE n b := by
  ext i; simp

lemma toE_zero (n : ℕ) : toE n (fun _ => 0) = 0 := by
  ext i; simp

section gradAlgebra
variable {V : Type*} [NormedAddCommGroup V] [InnerProductSpace ℝ V] [CompleteSpace V]

lemma hasGradientAt_add {f g : V → ℝ} {f' g' x : V} (hf : HasGradientAt f f' x)
    (hg : HasGradientAt g g' x) : HasGradientAt (fun y => f y + g y) (f' + g') x := by
  rw [hasGradientAt_iff_hasFDerivAt] at *
  rw [map_add]
  exact hf.add hg

lemma hasGradientAt_add_const {f : V → ℝ} {f' x : V} (hf : HasGradientAt f f' x) (c : ℝ) :
    HasGradientAt (fun y => f y + c) f' x := by
  rw [hasGradientAt_iff_hasFDerivAt] at *
  exact hf.add_const c

lemma hasGradientAt_const' (c : ℝ) (x : V) : HasGradientAt (fun _ : V => c) 0 x := by
  rw [hasGradientAt_iff_hasFDerivAt, map_zero]
  exact hasFDerivAt_const c x
end gradAlgebra

/-! ## coordinate lines (for the finite-difference option) -/

lemma toE_update_coords {n : ℕ} (x : E n) (i : ℕ) (hi : i < n) (t : ℝ) :
    toE n (Function.update (coords x) i t) = x + (t - x ⟨i, hi⟩) • EuclideanSpace.single ⟨i, hi⟩ (1:ℝ) := by
  ext j
  by_cases h : (j : ℕ) = i
  · have hj : j = ⟨i, hi⟩ := Fin.ext h
    subst hj
    simp
  · have hj : j ≠ ⟨i, hi⟩ := fun e => h (by rw [e])
    simp [Function.update_of_ne h, hj]

/-- the partial derivative along the `i`-th coordinate line is the `i`-th gradient component -/
lemma hasDerivAt_line_of_hasGradientAt {n : ℕ} (φ : E n → ℝ) (gr : E n) (x : E n)
    (h : HasGradientAt φ gr x) (i : ℕ) (hi : i < n) :
    HasDerivAt (fun t => φ (toE n (Function.update (coords x) i t))) (gr ⟨i, hi⟩) (coords x i) := by
  have hline : HasDerivAt (fun t : ℝ => x + (t - x ⟨i, hi⟩) • EuclideanSpace.single ⟨i, hi⟩ (1:ℝ))
      (EuclideanSpace.single ⟨i, hi⟩ (1:ℝ)) (coords x i) := by
    have h1 : HasDerivAt (fun t : ℝ => t - x ⟨i, hi⟩) 1 (coords x i) := (hasDerivAt_id' _).sub_const _
    have h2 := (h1.smul_const (EuclideanSpace.single ⟨i, hi⟩ (1:ℝ))).const_add x
    simpa using h2
  have hx : x + (coords x i - x ⟨i, hi⟩) • EuclideanSpace.single ⟨i, hi⟩ (1:ℝ) = x := by
    simp [coords_of_lt x i hi]
  have hφ : HasFDerivAt φ (InnerProductSpace.toDual ℝ (E n) gr)
      (x + (coords x i - x ⟨i, hi⟩) • EuclideanSpace.single ⟨i, hi⟩ (1:ℝ)) := by
    rw [hx]; exact h.hasFDerivAt
  have hc := hφ.comp_hasDerivAt (coords x i) hline
  have e : (fun t => φ (toE n (Function.update (coords x) i t)))
      = φ ∘ (fun t : ℝ => x + (t - x ⟨i, hi⟩) • EuclideanSpace.single ⟨i, hi⟩ (1:ℝ)) := by
    funext t; simp [toE_update_coords x i hi t]
  rw [e]
  refine hc.congr_deriv ?_
  rw [InnerProductSpace.toDual_apply_apply, EuclideanSpace.inner_single_right]
  simp

/-! ## Gaussian prior -/

lemma gaussQuad_swap {K : Type} [CommRing K] (n : ℕ) (P : ℕ → ℕ → K) (x μ : ℕ → K) :
    gaussQuad n P x μ = gaussQuad n P μ x := by
  simp only [gaussQuad_eq]
  apply Finset.sum_congr rfl; intro a _
  have : ∑ b ∈ range n, P a b * (x b - μ b) = -∑ b ∈ range n, P a b * (μ b - x b) := by
    rw [← Finset.sum_neg_distrib]
    apply Finset.sum_congr rfl; intro b _; ring
  rw [this]; ring

lemma toCLM_coord_gaussGrad (n : ℕ) (P : ℕ → ℕ → ℝ) (μ : ℕ → ℝ) (x : E n) (i : Fin n) :
    toCLM n n P (toE n μ - x) i = gaussGrad n P (coords x) μ i := by
  rw [toCLM_apply, gaussGrad_eq, Finset.sum_range, ← Finset.sum_neg_distrib]
  apply Finset.sum_congr rfl; intro b _
  simp only [PiLp.sub_apply, toE_apply, coords_lt]
  ring

/-! ## the coordinate form of the chain rule (the hypothesis of `Props/C03.lik_grad_geometry_chain`) -/

/-- derivative of a vector-valued map along the `i`-th coordinate line -/
lemma hasDerivAt_line_of_hasFDerivAt {n : ℕ} {W : Type*} [NormedAddCommGroup W] [NormedSpace ℝ W]
    (u : E n → W) (U : E n →L[ℝ] W) (x : E n) (h : HasFDerivAt u U x) (i : ℕ) (hi : i < n) :
    HasDerivAt (fun t => u (toE n (Function.update (coords x) i t)))
      (U (EuclideanSpace.single ⟨i, hi⟩ (1:ℝ))) (coords x i) := by
  have hline : HasDerivAt (fun t : ℝ => x + (t - x ⟨i, hi⟩) • EuclideanSpace.single ⟨i, hi⟩ (1:ℝ))
      (EuclideanSpace.single ⟨i, hi⟩ (1:ℝ)) (coords x i) := by
    have h1 : HasDerivAt (fun t : ℝ => t - x ⟨i, hi⟩) 1 (coords x i) := (hasDerivAt_id' _).sub_const _
    have h2 := (h1.smul_const (EuclideanSpace.single ⟨i, hi⟩ (1:ℝ))).const_add x
    simpa using h2
  have hx : x + (coords x i - x ⟨i, hi⟩) • EuclideanSpace.single ⟨i, hi⟩ (1:ℝ) = x := by
    simp [coords_of_lt x i hi]
  have hφ : HasFDerivAt u U (x + (coords x i - x ⟨i, hi⟩) • EuclideanSpace.single ⟨i, hi⟩ (1:ℝ)) := by
    rw [hx]; exact h
  have hc := hφ.comp_hasDerivAt (coords x i) hline
  have e : (fun t => u (toE n (Function.update (coords x) i t)))
      = u ∘ (fun t : ℝ => x + (t - x ⟨i, hi⟩) • EuclideanSpace.single ⟨i, hi⟩ (1:ℝ)) := by
    funext t; simp [toE_update_coords x i hi t]
  rw [e]
  exact hc

/-- every Euclidean vector is the combination of the standard basis with its coordinates -/
lemma eq_sum_single {p : ℕ} (v : E p) : v = ∑ l : Fin p, v l • EuclideanSpace.single l (1:ℝ) := by
  ext j
  simp [Finset.sum_apply, Pi.single_apply]

/-- `(J (G e_i))_a = Σ_l (J e_l)_a (G e_i)_l` -/
lemma comp_apply_coord {n p m : ℕ} (J : E p →L[ℝ] E m) (G : E n →L[ℝ] E p) (i : Fin n) (a : Fin m) :
    (J (G (EuclideanSpace.single i 1))) a
      = ∑ l : Fin p, (J (EuclideanSpace.single l 1)) a * (G (EuclideanSpace.single i 1)) l := by
  conv_lhs => rw [eq_sum_single (G (EuclideanSpace.single i 1))]
  simp [map_sum, mul_comm]

end CuqiVerif.C03
