import CuqiVerif.Props.C16_krylov
import Mathlib.LinearAlgebra.Span.Basic

/-!
# C16 — helper lemmas for `Props/C16_precond.lean`

Part 1: the PCGLS `while` loop returns an un-flagged iterate; PCGLS iterates are CGLS iterates for
`A P⁻¹`.  Part 2: Krylov spaces of the generic conjugate-gradient recurrence `CGRec` and the
optimality of `x_k` over `x₀ + K_k`.  Part 3: proximal points (strong form, uniqueness), the
descent lemma of the proximal-gradient step, the three concrete regularisers on arrays.  Part 4:
Levenberg–Marquardt: the accept test and the sum of squares.
-/

set_option linter.unusedSectionVars false
set_option linter.unusedVariables false

namespace CuqiVerif.C16

open Finset

/-! ## Part 1: PCGLS -/
section PCGLoop
variable {K V W : Type} [Field K] [LinearOrder K] [IsStrictOrderedRing K]
variable (oV : VOps K V) (oW : VOps K W) (fwd : V → W) (adj : W → V) (b : W) (tol eps : K)
  (pinv pinvT : V → V)

lemma pcglsLoop_eq_iterate (gamma0 : K) (fuel : ℕ) (st : CGState K V W) :
    ∃ j, j ≤ fuel ∧
      pcglsLoop oV oW fwd adj tol eps pinv pinvT gamma0 fuel st
        = (pcglsStep oV oW fwd adj tol eps pinv pinvT gamma0)^[j] st ∧
      (j < fuel → ((pcglsStep oV oW fwd adj tol eps pinv pinvT gamma0)^[j] st).flag = true) ∧
      (∀ i, i < j → ((pcglsStep oV oW fwd adj tol eps pinv pinvT gamma0)^[i] st).flag = false) := by
  induction fuel generalizing st with
  | zero => exact ⟨0, le_rfl, rfl, fun h => absurd h (lt_irrefl _), fun i hi => absurd hi (Nat.not_lt_zero i)⟩
  | succ n ih =>
    unfold pcglsLoop
    by_cases hf : st.flag = true
    · rw [if_pos hf]
      exact ⟨0, Nat.zero_le _, rfl, fun _ => hf, fun i hi => absurd hi (Nat.not_lt_zero i)⟩
    · rw [if_neg hf]
      obtain ⟨j, hj, e, h1, h2⟩ := ih (pcglsStep oV oW fwd adj tol eps pinv pinvT gamma0 st)
      refine ⟨j + 1, by omega, ?_, ?_, ?_⟩
      · rw [Function.iterate_succ_apply]; exact e
      · intro hlt; rw [Function.iterate_succ_apply]; exact h1 (by omega)
      · intro i hi
        cases i with
        | zero => simpa using hf
        | succ i => rw [Function.iterate_succ_apply]; exact h2 i (by omega)

/-- the state after `k` passes of the PCGLS loop body **without** looking at the flag:
    `pcglsStep^[k] (pcglsInit x0)` -/
def pcglsIter (gamma0 : K) (x0 : V) (k : ℕ) : CGState K V W :=
  (pcglsStep oV oW fwd adj tol eps pinv pinvT gamma0)^[k] (pcglsInit oV oW fwd adj b pinvT x0)

lemma pcglsIter_succ (gamma0 : K) (x0 : V) (k : ℕ) :
    pcglsIter oV oW fwd adj b tol eps pinv pinvT gamma0 x0 (k + 1)
      = pcglsStep oV oW fwd adj tol eps pinv pinvT gamma0
          (pcglsIter oV oW fwd adj b tol eps pinv pinvT gamma0 x0 k) := by
  unfold pcglsIter; rw [Function.iterate_succ_apply']

lemma pcglsIter_k (gamma0 : K) (x0 : V) (k : ℕ) :
    (pcglsIter oV oW fwd adj b tol eps pinv pinvT gamma0 x0 k).k = k := by
  induction k with
  | zero => rfl
  | succ k ih => rw [pcglsIter_succ]; show _ + 1 = _; rw [ih]

lemma pcgls_eq_pcglsIter (shift : K) (x0 : V) (maxit : ℕ) :
    let g0 := (pcglsInit oV oW fwd adj b pinvT x0).gamma
    let st := pcgls oV oW fwd adj b tol eps pinv pinvT shift x0 maxit
    st.k ≤ maxit ∧ st = pcglsIter oV oW fwd adj b tol eps pinv pinvT g0 x0 st.k ∧
      (st.k < maxit → st.flag = true) ∧
      (∀ i, i < st.k → (pcglsIter oV oW fwd adj b tol eps pinv pinvT g0 x0 i).flag = false) := by
  intro g0 st
  obtain ⟨j, hj, e, h1, h2⟩ := pcglsLoop_eq_iterate oV oW fwd adj tol eps pinv pinvT g0 maxit
    (pcglsInit oV oW fwd adj b pinvT x0)
  have e' : st = pcglsIter oV oW fwd adj b tol eps pinv pinvT g0 x0 j := e
  have hk : st.k = j := by rw [e', pcglsIter_k]
  rw [hk]
  exact ⟨hj, e', fun h => by rw [e']; exact h1 h, h2⟩

end PCGLoop

section PCGSetting
variable {K V W : Type} [Field K] [LinearOrder K] [IsStrictOrderedRing K]
  [AddCommGroup V] [Module K V] [AddCommGroup W] [Module K W]
variable (oV : VOps K V) (oW : VOps K W) (A : V →ₗ[K] W) (At : W →ₗ[K] V) (P Pi PiT : V →ₗ[K] V)

/-- **Exact-arithmetic setting for PCGLS**: lawful records, symmetric bilinear `dot`s with
    non-negative squares, `oV.dot` definite, `At` the adjoint of `A`, `PiT` the adjoint of `Pi`,
    `Pi` is the inverse of an (invertible) preconditioner `P` (`Pi (P v) = v`), and `A P⁻¹` has full
    column rank: `‖A P⁻¹ v‖² > 0` for `v ≠ 0`. -/
structure PCGLSSetting : Prop where
  lawV : oV.Lawful
  lawW : oW.Lawful
  ipV : IsIP oV.dot
  ipW : IsIP oW.dot
  defn : ∀ v, oV.dot v v = 0 → v = 0
  adj : ∀ v w, oW.dot (A v) w = oV.dot v (At w)
  padj : ∀ v w, oV.dot (Pi v) w = oV.dot v (PiT w)
  inv : ∀ v, Pi (P v) = v
  pos : ∀ v, v ≠ 0 → 0 < oW.dot (A (Pi v)) (A (Pi v))

variable {oV oW A At P Pi PiT}

/-- PCGLS's setting is CGLS's setting for the operator `A P⁻¹`, adjoint `P⁻ᵀAᵀ`, shift `0` -/
lemma PCGLSSetting.toCGLS (H : PCGLSSetting oV oW A At P Pi PiT) :
    CGLSSetting oV oW (A ∘ₗ Pi) (PiT ∘ₗ At) 0 :=
  ⟨H.lawV, H.lawW, H.ipV, H.ipW, H.defn,
    fun v w => by simp only [LinearMap.coe_comp, Function.comp_apply]; rw [H.adj, H.padj],
    fun v hv => by
      simp only [LinearMap.coe_comp, Function.comp_apply, zero_mul, add_zero]; exact H.pos v hv⟩

/-- `P⁻ᵀ` is injective (because `P⁻¹` is onto) -/
lemma PCGLSSetting.pinvT_inj (H : PCGLSSetting oV oW A At P Pi PiT) (w : V) (h : PiT w = 0) : w = 0 := by
  apply H.defn
  have : oV.dot (Pi (P w)) w = oV.dot (P w) (PiT w) := H.padj _ _
  rw [H.inv, h, H.ipV.zero_right] at this
  exact this

/-- `A` itself has full column rank -/
lemma PCGLSSetting.A_pos (H : PCGLSSetting oV oW A At P Pi PiT) (v : V) (hv : v ≠ 0) :
    0 < oW.dot (A v) (A v) := by
  have hP : P v ≠ 0 := by
    intro h0; apply hv; rw [← H.inv v, h0, map_zero]
  have := H.pos (P v) hP
  rwa [H.inv] at this

/-- `AᵀA x = Aᵀb` has at most one solution -/
lemma PCGLSSetting.unique (H : PCGLSSetting oV oW A At P Pi PiT) (c x y : V)
    (hx : At (A x) = c) (hy : At (A y) = c) : y = x := by
  by_contra hne
  have h0 : At (A (y - x)) = 0 := by rw [map_sub, map_sub, hx, hy, sub_self]
  have := H.A_pos (y - x) (sub_ne_zero.2 hne)
  rw [H.adj, h0, H.ipV.zero_right] at this
  exact lt_irrefl _ this

variable (b : W) (tol eps : K)

/-- the un-flagged PCGLS iterates are the un-flagged CGLS iterates for `A P⁻¹` started at `P x0` -/
lemma pcglsIter_rel (H : PCGLSSetting oV oW A At P Pi PiT) (gamma0 : K) (x0 : V) (j : ℕ) :
    PCRel Pi (pcglsIter oV oW A At b tol eps Pi PiT gamma0 x0 j)
      (cglsIter oV oW (A ∘ₗ Pi) (PiT ∘ₗ At) b 0 tol eps gamma0 (P x0) j) :=
  pcgls_eq_cgls_on_APinv A At b tol eps Pi PiT H.lawV H.lawW gamma0 x0 (P x0) (H.inv x0).symm j

/-- from iterate `n = finrank` on: `s = 0`, `γ = 0`, and `x` solves the **unshifted** normal equations -/
lemma pcglsIter_vanishes [Module.Finite K V] (H : PCGLSSetting oV oW A At P Pi PiT) (gamma0 : K)
    (x0 : V) (k : ℕ) (hk : Module.finrank K V ≤ k) :
    let st := pcglsIter oV oW A At b tol eps Pi PiT gamma0 x0 k
    st.s = 0 ∧ st.gamma = 0 ∧ At (A st.x) = At b := by
  intro st
  obtain ⟨h1, _, h3, _, h5, _⟩ := pcglsIter_rel b tol eps H gamma0 x0 k
  obtain ⟨hs, hg, hx, _⟩ := cgls_residual_vanishes b tol eps H.toCGLS gamma0 (P x0) k hk
  refine ⟨by rw [h3]; exact hs, by rw [h5]; exact hg, ?_⟩
  have hx : PiT (At (A (Pi (cglsIter oV oW (A ∘ₗ Pi) (PiT ∘ₗ At) b 0 tol eps gamma0 (P x0) k).x)))
      + (0 : K) • (cglsIter oV oW (A ∘ₗ Pi) (PiT ∘ₗ At) b 0 tol eps gamma0 (P x0) k).x = PiT (At b) := hx
  rw [zero_smul, add_zero, ← h1] at hx
  have : PiT (At (A st.x) - At b) = 0 := by rw [map_sub, hx, sub_self]
  exact sub_eq_zero.1 (H.pinvT_inj _ this)

lemma pcglsInit_gamma_nonneg (H : PCGLSSetting oV oW A At P Pi PiT) (x0 : V) :
    0 ≤ (pcglsInit oV oW A At b PiT x0).gamma := H.ipV.nonneg _

end PCGSetting

/-! ## Part 2: Krylov spaces of the generic recurrence and optimality of `x_k` -/
section KrylovOpt
variable {K : Type} [Field K] [LinearOrder K] [IsStrictOrderedRing K]
variable {E : Type} [AddCommGroup E] [Module K E]

/-- the Krylov space `K_k(B, v) = span{v, B v, …, B^{k-1} v}` -/
def krylov (B : E →ₗ[K] E) (v : E) (k : ℕ) : Submodule K E :=
  Submodule.span K ((fun i : ℕ => (⇑B)^[i] v) '' {i | i < k})

/-- the span of the first `k` members of a sequence -/
def spanUpTo (p : ℕ → E) (k : ℕ) : Submodule K E := Submodule.span K (p '' {i | i < k})

lemma spanUpTo_mono (p : ℕ → E) {k l : ℕ} (h : k ≤ l) : spanUpTo (K := K) p k ≤ spanUpTo p l :=
  Submodule.span_mono (Set.image_mono (fun i (hi : i < k) => lt_of_lt_of_le hi h))

lemma mem_spanUpTo (p : ℕ → E) {i k : ℕ} (h : i < k) : p i ∈ spanUpTo (K := K) p k :=
  Submodule.subset_span ⟨i, h, rfl⟩

lemma krylov_eq (B : E →ₗ[K] E) (v : E) (k : ℕ) : krylov B v k = spanUpTo (fun i => (⇑B)^[i] v) k := rfl

lemma krylov_mono (B : E →ₗ[K] E) (v : E) {k l : ℕ} (h : k ≤ l) : krylov B v k ≤ krylov B v l :=
  spanUpTo_mono _ h

lemma mem_krylov (B : E →ₗ[K] E) (v : E) {i k : ℕ} (h : i < k) : (⇑B)^[i] v ∈ krylov B v k :=
  mem_spanUpTo (fun i => (⇑B)^[i] v) h

/-- `B` maps `K_k` into `K_{k+1}` -/
lemma krylov_map (B : E →ₗ[K] E) (v : E) (k : ℕ) {w : E} (hw : w ∈ krylov B v k) :
    B w ∈ krylov B v (k + 1) := by
  unfold krylov at hw
  induction hw using Submodule.span_induction with
  | mem x hx =>
    obtain ⟨i, hi, rfl⟩ := hx
    have : B ((⇑B)^[i] v) = (⇑B)^[i + 1] v := (Function.iterate_succ_apply' _ _ _).symm
    rw [this]
    exact mem_krylov B v (Nat.succ_lt_succ hi)
  | zero => rw [map_zero]; exact Submodule.zero_mem _
  | add x y _ _ hx hy => rw [map_add]; exact Submodule.add_mem _ hx hy
  | smul c x _ hx => rw [map_smul]; exact Submodule.smul_mem _ c hx

namespace CGRec
variable {ip : E → E → K} {B : E →ₗ[K] E} {eps : K} {x s p : ℕ → E}
variable (hS : SPD ip B) (hR : CGRec ip B eps x s p)
include hR

/-- residual and direction number `k` lie in `K_{k+1}(B, s₀)` -/
lemma s_p_mem_krylov (k : ℕ) : s k ∈ krylov B (s 0) (k + 1) ∧ p k ∈ krylov B (s 0) (k + 1) := by
  induction k with
  | zero =>
    have : s 0 ∈ krylov B (s 0) 1 := mem_krylov B (s 0) (i := 0) Nat.zero_lt_one
    exact ⟨this, by rw [hR.p0]; exact this⟩
  | succ k ih =>
    have hs : s (k + 1) ∈ krylov B (s 0) (k + 2) := by
      rw [hR.s_succ]
      exact Submodule.sub_mem _ (krylov_mono B _ (Nat.le_succ _) ih.1)
        (Submodule.smul_mem _ _ (krylov_map B _ _ ih.2))
    refine ⟨hs, ?_⟩
    rw [hR.p_succ]
    exact Submodule.add_mem _ hs (Submodule.smul_mem _ _ (krylov_mono B _ (Nat.le_succ _) ih.2))

/-- `x_k ∈ x₀ + K_k(B, s₀)` -/
lemma x_mem_krylov (k : ℕ) : x k - x 0 ∈ krylov B (s 0) k := by
  induction k with
  | zero => rw [sub_self]; exact Submodule.zero_mem _
  | succ k ih =>
    have e : x (k + 1) - x 0 = (x k - x 0) + cgAlpha ip B eps (s k) (p k) • p k := by
      rw [hR.x_succ]; abel
    rw [e]
    exact Submodule.add_mem _ (krylov_mono B _ (Nat.le_succ _) ih)
      (Submodule.smul_mem _ _ (s_p_mem_krylov hR k).2)

/-- residual number `i` lies in the span of the directions `p_0 … p_i` -/
lemma s_mem_dirs (i : ℕ) : s i ∈ spanUpTo (K := K) p (i + 1) := by
  cases i with
  | zero => rw [← hR.p0]; exact mem_spanUpTo p Nat.zero_lt_one
  | succ i =>
    have e : s (i + 1) = p (i + 1) - (ip (s (i + 1)) (s (i + 1)) / ip (s i) (s i)) • p i := by
      rw [hR.p_succ]; abel
    rw [e]
    exact Submodule.sub_mem _ (mem_spanUpTo p (Nat.lt_succ_self _))
      (Submodule.smul_mem _ _ (mem_spanUpTo p (by omega)))

include hS

/-- while the iteration is live, `B p_i` lies in the span of `p_0 … p_{i+1}` -/
lemma B_p_mem_dirs (i : ℕ) (hg : ip (s i) (s i) ≠ 0) : B (p i) ∈ spanUpTo (K := K) p (i + 2) := by
  obtain ⟨_, _, hane⟩ := alpha_live hS hR i (dir_resid_self hS hR i) hg
  set a := cgAlpha ip B eps (s i) (p i) with ha_def
  have eB : B (p i) = a⁻¹ • (s i - s (i + 1)) := by
    rw [hR.s_succ, ← ha_def, sub_sub_cancel, smul_smul, inv_mul_cancel₀ hane, one_smul]
  rw [eB]
  exact Submodule.smul_mem _ _ (Submodule.sub_mem _ (spanUpTo_mono p (by omega) (s_mem_dirs hR i))
    (s_mem_dirs hR (i + 1)))

/-- live for `i < k`: `B` maps `span{p_0..p_{k-1}}` into `span{p_0..p_k}` -/
lemma B_dirs (k : ℕ) (hlive : ∀ i, i < k → ip (s i) (s i) ≠ 0) {w : E}
    (hw : w ∈ spanUpTo (K := K) p k) : B w ∈ spanUpTo (K := K) p (k + 1) := by
  unfold spanUpTo at hw
  induction hw using Submodule.span_induction with
  | mem y hy =>
    obtain ⟨i, hi, rfl⟩ := hy
    exact spanUpTo_mono p (by have : i < k := hi; omega) (B_p_mem_dirs hS hR i (hlive i hi))
  | zero => rw [map_zero]; exact Submodule.zero_mem _
  | add y z _ _ hy hz => rw [map_add]; exact Submodule.add_mem _ hy hz
  | smul c y _ hy => rw [map_smul]; exact Submodule.smul_mem _ c hy

/-- live for `i < k`: the Krylov space `K_{k+1}` is contained in the span of `p_0 … p_k` -/
lemma krylov_le_dirs (k : ℕ) (hlive : ∀ i, i < k → ip (s i) (s i) ≠ 0) :
    krylov B (s 0) (k + 1) ≤ spanUpTo (K := K) p (k + 1) := by
  induction k with
  | zero =>
    apply Submodule.span_le.2
    rintro _ ⟨i, hi, rfl⟩
    have : i = 0 := by have : i < 1 := hi; omega
    subst this
    show s 0 ∈ spanUpTo (K := K) p (0 + 1)
    rw [← hR.p0]
    exact mem_spanUpTo p Nat.zero_lt_one
  | succ k ih =>
    have ih' := ih (fun i hi => hlive i (by omega))
    apply Submodule.span_le.2
    rintro _ ⟨i, hi, rfl⟩
    cases i with
    | zero =>
      show s 0 ∈ spanUpTo (K := K) p (k + 1 + 1)
      rw [← hR.p0]
      exact mem_spanUpTo p (by omega)
    | succ i =>
      show (⇑B)^[i + 1] (s 0) ∈ spanUpTo (K := K) p (k + 1 + 1)
      rw [Function.iterate_succ_apply']
      have hi' : i < k + 1 := by have : i + 1 < k + 1 + 1 := hi; omega
      exact B_dirs hS hR (k + 1) hlive (ih' (mem_krylov B (s 0) hi'))

/-- every vector of `span{p_0..p_{k-1}}` is orthogonal to the residual `s_k` -/
lemma dirs_ortho_resid (k : ℕ) {w : E} (hw : w ∈ spanUpTo (K := K) p k) : ip w (s k) = 0 := by
  unfold spanUpTo at hw
  induction hw using Submodule.span_induction with
  | mem y hy => obtain ⟨i, hi, rfl⟩ := hy; exact dir_resid hS hR i k hi
  | zero => exact hS.isIP.zero_left _
  | add y z _ _ hy hz => rw [hS.isIP.add_left, hy, hz, add_zero]
  | smul c y _ hy => rw [hS.isIP.smul_left, hy, mul_zero]

/-- **the residual `s_k` is orthogonal to the Krylov space `K_k(B, s₀)`** -/
lemma krylov_ortho_resid (k : ℕ) {w : E} (hw : w ∈ krylov B (s 0) k) : ip w (s k) = 0 := by
  cases k with
  | zero =>
    have : w = 0 := by
      have h : krylov B (s 0) 0 = ⊥ := by
        unfold krylov
        have : {i : ℕ | i < 0} = ∅ := by ext i; simp
        rw [this, Set.image_empty, Submodule.span_empty]
      rw [h] at hw; exact (Submodule.mem_bot K).1 hw
    rw [this]; exact hS.isIP.zero_left _
  | succ k =>
    by_cases hg : ip (s k) (s k) = 0
    · rw [(dead_forever hS hR k hg 1).1]; exact hS.isIP.zero_right _
    · exact dirs_ortho_resid hS hR (k + 1)
        (krylov_le_dirs hS hR k (fun i hi => gamma_ne_of_le hS hR k i (by omega) hg) hw)

/-- **Krylov optimality**: for `x⋆` with `s_k = B (x⋆ − x_k)` (i.e. `B x⋆ = c`), every point
    `x₀ + z`, `z ∈ K_k(B, s₀)`, has energy error `⟨·−x⋆, B(·−x⋆)⟩` at least that of `x_k`, the
    difference being the energy of `x₀ + z − x_k` -/
lemma energy_opt (xs : E) (hres : ∀ k, s k = B (xs - x k)) (k : ℕ) {z : E}
    (hz : z ∈ krylov B (s 0) k) :
    ip (x 0 + z - xs) (B (x 0 + z - xs))
      = ip (x k - xs) (B (x k - xs)) + ip (x 0 + z - x k) (B (x 0 + z - x k)) := by
  set w := x 0 + z - x k with hw
  have hwm : w ∈ krylov B (s 0) k := by
    have e : w = z - (x k - x 0) := by rw [hw]; abel
    rw [e]; exact Submodule.sub_mem _ hz (x_mem_krylov hR k)
  have hort := krylov_ortho_resid hS hR k hwm
  have e : x 0 + z - xs = (x k - xs) + w := by rw [hw]; abel
  have hBe : B (x k - xs) = - s k := by
    rw [hres k, ← map_neg]; congr 1; abel
  have h1 : ip w (B (x k - xs)) = 0 := by rw [hBe, hS.isIP.neg_right, hort, neg_zero]
  have h2 : ip (x k - xs) (B w) = 0 := by rw [hS.symm, hS.isIP.comm, h1]
  rw [e, map_add, hS.isIP.add_left, hS.isIP.add_right, hS.isIP.add_right, h1, h2]
  ring

/-- energy is non-negative, and zero only at zero -/
lemma energy_nonneg (w : E) : 0 ≤ ip w (B w) := by
  by_cases h : w = 0
  · rw [h, hS.isIP.zero_left]
  · exact (hS.pos w h).le

end CGRec
end KrylovOpt

/-! ## Part 3: proximal points, the descent lemma, the three shipped regularisers -/
section ProxGeneric
variable {K : Type} [Field K] [LinearOrder K] [IsStrictOrderedRing K]
variable {E F : Type} [AddCommGroup E] [Module K E] [AddCommGroup F] [Module K F]
variable (ipE : E → E → K) (ipF : F → F → K) (A : E →ₗ[K] F) (At : F →ₗ[K] E) (b : F)

lemma ConvexData.scale {C : Set E} {g : E → K} (hCg : ConvexData C g) (t : K) (ht : 0 ≤ t) :
    ConvexData C (fun z => t * g z) :=
  ⟨hCg.seg, fun x hx z hz θ h0 h1 => by
    have := mul_le_mul_of_nonneg_left (hCg.conv x hx z hz θ h0 h1) ht
    show t * g (x + θ • (z - x)) ≤ t * g x + θ * (t * g z - t * g x)
    linarith⟩

variable {ipE}

/-- a proximal point satisfies the strong (quadratic growth) inequality -/
lemma IsProxPoint.strong (hE : IsIP ipE) {C : Set E} {g : E → K} (hCg : ConvexData C g) {t : K}
    (ht : 0 ≤ t) {v p : E} (hp : IsProxPoint ipE C g t v p) (z : E) (hz : z ∈ C) :
    ipE (p - v) (p - v) / 2 + t * g p + ipE (z - p) (z - p) / 2 ≤ ipE (z - v) (z - v) / 2 + t * g z := by
  have hvi := (min_iff_vi C (fun z => t * g z) (hCg.scale t ht)
    (fun z => ipE (z - v) (z - v) / 2) p hp.1 (fun d => ipE (p - v) d) (fun d => ipE d d / 2)
    (fun d => by have := hE.nonneg d; positivity) (fun d θ => sq_expand ipE hE v p d θ)).1 hp.2 z hz
  have e := sq_expand ipE hE v p (z - p) 1
  have e1 : p + (1 : K) • (z - p) - v = z - v := by rw [one_smul]; abel
  rw [e1] at e
  rw [e]; linarith

/-- the proximal point is unique (definite form) -/
lemma IsProxPoint.unique (hE : IsIP ipE) (hdef : ∀ v, ipE v v = 0 → v = 0) {C : Set E} {g : E → K}
    (hCg : ConvexData C g) {t : K} (ht : 0 ≤ t) {v p q : E}
    (hp : IsProxPoint ipE C g t v p) (hq : IsProxPoint ipE C g t v q) : q = p := by
  have h1 := hp.strong hE hCg ht q hq.1
  have h2 := hq.2 p hp.1
  have h3 : ipE (q - p) (q - p) ≤ 0 := by linarith
  exact sub_eq_zero.1 (hdef _ (le_antisymm h3 (hE.nonneg _)))

variable {ipF A At}

/-- **descent lemma of the proximal-gradient step**: `t > 0`, `‖A d‖² ≤ L‖d‖²`, `t L ≤ 1`, `x ∈ C`,
    `p` the proximal point of `x − t Aᵀ(Ax − b)`: `F(p) + ‖p − x‖²/(2t) ≤ F(x)` for
    `F = ½‖A·−b‖² + g` -/
lemma proxgrad_descent (hE : IsIP ipE) (hF : IsIP ipF) (hadj : ∀ d w, ipF (A d) w = ipE d (At w))
    {C : Set E} {g : E → K} (hCg : ConvexData C g) {t L : K} (ht : 0 < t)
    (hL : ∀ d, ipF (A d) (A d) ≤ L * ipE d d) (htL : t * L ≤ 1) {x p : E} (hx : x ∈ C)
    (hp : IsProxPoint ipE C g t (x - t • lsqGrad A At b x) p) :
    lsq ipF A b p + g p + ipE (p - x) (p - x) / (2 * t) ≤ lsq ipF A b x + g x := by
  set G := lsqGrad A At b x with hG
  set d := p - x with hd
  have hs := hp.strong hE hCg ht.le x hx
  have e1 : p - (x - t • G) = d + t • G := by rw [hd]; abel
  have e2 : x - (x - t • G) = t • G := by abel
  have e3 : ipE (x - p) (x - p) = ipE d d := by
    have : x - p = -d := by rw [hd]; abel
    rw [this, hE.neg_left, hE.neg_right, neg_neg]
  have e4 : ipE (t • G) (t • G) = t ^ 2 * ipE G G := by rw [hE.smul_left, hE.smul_right]; ring
  rw [e1, e2, e3, hE.expand, e4] at hs
  have e5 : p = x + (1 : K) • d := by rw [one_smul, hd]; abel
  have hl := lsq_expand ipE ipF A At b hF hadj hE x d 1
  rw [← e5, ← hG] at hl
  have hLd := hL d
  have hdd := hE.nonneg d
  have hc : ipE G d = ipE d G := hE.comm _ _
  have key : t * (lsq ipF A b p + g p + ipE d d / (2 * t)) ≤ t * (lsq ipF A b x + g x) := by
    have h6 : t * (ipE d d / (2 * t)) = ipE d d / 2 := by field_simp
    have h7 : t * (L * ipE d d) ≤ ipE d d := by
      have := mul_le_mul_of_nonneg_right htL hdd
      linarith
    have h8 : t * ipF (A d) (A d) ≤ ipE d d := le_trans (mul_le_mul_of_nonneg_left hLd ht.le) h7
    rw [hl, mul_add, mul_add, h6]
    nlinarith
  exact le_of_mul_le_mul_left key ht


/-- **three-point inequality of the proximal-gradient step** (`t L ≤ 1`): for every `y` (not
    necessarily in `C`), `p` the proximal point of `y − t Aᵀ(Ay − b)` and every `z ∈ C`:
    `2t (F(p) − F(z)) ≤ ‖z − y‖² − ‖z − p‖²` -/
lemma proxgrad_three_point (hE : IsIP ipE) (hF : IsIP ipF) (hadj : ∀ d w, ipF (A d) w = ipE d (At w))
    {C : Set E} {g : E → K} (hCg : ConvexData C g) {t L : K} (ht : 0 < t)
    (hL : ∀ d, ipF (A d) (A d) ≤ L * ipE d d) (htL : t * L ≤ 1) {y p z : E} (hz : z ∈ C)
    (hp : IsProxPoint ipE C g t (y - t • lsqGrad A At b y) p) :
    2 * t * ((lsq ipF A b p + g p) - (lsq ipF A b z + g z)) ≤ ipE (z - y) (z - y) - ipE (z - p) (z - p) := by
  set G := lsqGrad A At b y with hG
  set d := p - y with hd
  have hs := hp.strong hE hCg ht.le z hz
  have e1 : p - (y - t • G) = d + t • G := by rw [hd]; abel
  have e2 : z - (y - t • G) = (z - y) + t • G := by abel
  rw [e1, e2, hE.expand, hE.expand] at hs
  have e5 : p = y + (1 : K) • d := by rw [one_smul, hd]; abel
  have e6 : z = y + (1 : K) • (z - y) := by rw [one_smul]; abel
  have hlp := lsq_expand ipE ipF A At b hF hadj hE y d 1
  rw [← e5, ← hG] at hlp
  have hlz := lsq_expand ipE ipF A At b hF hadj hE y (z - y) 1
  rw [← e6, ← hG] at hlz
  have hLd := hL d
  have hdd := hE.nonneg d
  have hAz := hF.nonneg (A (z - y))
  have hc1 : ipE G d = ipE d G := hE.comm _ _
  have hc2 : ipE G (z - y) = ipE (z - y) G := hE.comm _ _
  have h7 : t * (L * ipE d d) ≤ ipE d d := by
    have := mul_le_mul_of_nonneg_right htL hdd
    linarith
  have h8 : t * ipF (A d) (A d) ≤ ipE d d := le_trans (mul_le_mul_of_nonneg_left hLd ht.le) h7
  have h9 : 0 ≤ t * ipF (A (z - y)) (A (z - y)) := mul_nonneg ht.le hAz
  rw [hlp, hlz, hc1, hc2]
  nlinarith

end ProxGeneric

/-! ### ISTA (`adaptive = false`) returns an iterate of the proximal-gradient map -/
section IstaLoop
variable {K V W : Type} [Field K] [LinearOrder K] [IsStrictOrderedRing K]
variable (oV : VOps K V) (oW : VOps K W) (fwd : V → W) (adj : W → V) (b : W)
  (prox : V → K → V) (t abstol : K) (maxit : ℕ)

lemma fistaGo_ista (fuel : ℕ) (x : V) (k : ℕ) :
    ∃ j, j ≤ fuel ∧ fistaGo oV oW fwd adj b prox t abstol maxit false fuel x k
      = ((proxGradStep oV oW fwd adj b prox t)^[j + 1] x, k + j + 1) := by
  induction fuel generalizing x k with
  | zero => exact ⟨0, le_rfl, rfl⟩
  | succ n ih =>
    unfold fistaGo
    simp only [Bool.false_eq_true, if_false]
    split_ifs with hstop
    · exact ⟨0, Nat.zero_le _, rfl⟩
    · obtain ⟨j, hj, e⟩ := ih (proxGradStep oV oW fwd adj b prox t x) (k + 1)
      refine ⟨j + 1, by omega, ?_⟩
      rw [e, Function.iterate_succ_apply (f := proxGradStep oV oW fwd adj b prox t) (n := j + 1)]
      congr 1; omega

/-- ISTA returns `(T^[k] x0, k)` for its own counter `k ≥ 1` (`T` the proximal-gradient map) -/
lemma ista_returns_iterate (x0 : V) :
    ∃ k, 1 ≤ k ∧ fista oV oW fwd adj b prox t abstol maxit false x0
      = ((proxGradStep oV oW fwd adj b prox t)^[k] x0, k) := by
  obtain ⟨j, _, e⟩ := fistaGo_ista oV oW fwd adj b prox t abstol maxit (maxit - 1) x0 0
  refine ⟨j + 1, by omega, ?_⟩
  unfold fista; rw [e]; congr 1; omega

end IstaLoop

/-! ### The three shipped regularisers on arrays -/
section ArrayProx
variable {K : Type} [Field K] [LinearOrder K] [IsStrictOrderedRing K]

/-- the non-negative orthant -/
def nonnegSet (n : ℕ) : Set (Vector K n) := {z | ∀ i : Fin n, 0 ≤ z[i]}
/-- the box `l ≤ z ≤ u` -/
def boxSet {n : ℕ} (l u : Vector K n) : Set (Vector K n) := {z | ∀ i : Fin n, l[i] ≤ z[i] ∧ z[i] ≤ u[i]}
/-- `‖z‖₁` -/
def l1norm {n : ℕ} (z : Vector K n) : K := ∑ i : Fin n, |z[i]|
/-- `½‖M z − b‖²` with the record's operations -/
def lsqArr {m n : ℕ} (M : Mat K m n) (b : Vector K m) (z : Vector K n) : K :=
  vdot ((vecOps m).sub (mulVec M z) b) ((vecOps m).sub (mulVec M z) b) / 2

lemma lsqArr_eq {m n : ℕ} (M : Mat K m n) (b : Vector K m) (z : Vector K n) :
    lsqArr M b z = lsq vdot (mulVecL M) b z := rfl

lemma seg_getElem {n : ℕ} (x z : Vector K n) (θ : K) (i : Fin n) :
    (x + θ • (z - x))[i] = x[i] + θ * (z[i] - x[i]) := by
  simp only [Fin.getElem_fin, Vector.getElem_add, Vector.getElem_smul, Vector.getElem_sub, smul_eq_mul]

lemma nonneg_convexData (n : ℕ) : ConvexData (K := K) (nonnegSet (K := K) n) (fun _ => 0) :=
  ⟨fun x hx z hz θ h0 h1 i => by
      rw [seg_getElem]
      have e : x[i] + θ * (z[i] - x[i]) = (1 - θ) * x[i] + θ * z[i] := by ring
      rw [e]
      exact add_nonneg (mul_nonneg (sub_nonneg.2 h1) (hx i)) (mul_nonneg h0 (hz i)),
    fun _ _ _ _ _ _ _ => by simp⟩

lemma box_convexData {n : ℕ} (l u : Vector K n) : ConvexData (K := K) (boxSet l u) (fun _ => 0) :=
  ⟨fun x hx z hz θ h0 h1 i => by
      rw [seg_getElem]
      have e : x[i] + θ * (z[i] - x[i]) = (1 - θ) * x[i] + θ * z[i] := by ring
      have h2 : 0 ≤ 1 - θ := sub_nonneg.2 h1
      rw [e]
      constructor
      · have := add_le_add (mul_le_mul_of_nonneg_left (hx i).1 h2) (mul_le_mul_of_nonneg_left (hz i).1 h0)
        linarith
      · have := add_le_add (mul_le_mul_of_nonneg_left (hx i).2 h2) (mul_le_mul_of_nonneg_left (hz i).2 h0)
        linarith,
    fun _ _ _ _ _ _ _ => by simp⟩

lemma l1_convexData (n : ℕ) (lam : K) (hlam : 0 ≤ lam) :
    ConvexData (K := K) (Set.univ : Set (Vector K n)) (fun z => lam * l1norm z) :=
  ⟨fun _ _ _ _ _ _ _ => trivial, fun x _ z _ θ h0 h1 => by
    have h2 : 0 ≤ 1 - θ := sub_nonneg.2 h1
    have key : l1norm (x + θ • (z - x)) ≤ (1 - θ) * l1norm x + θ * l1norm z := by
      unfold l1norm
      rw [Finset.mul_sum, Finset.mul_sum, ← Finset.sum_add_distrib]
      apply Finset.sum_le_sum
      intro i _
      rw [seg_getElem]
      have e : x[i] + θ * (z[i] - x[i]) = (1 - θ) * x[i] + θ * z[i] := by ring
      rw [e]
      calc |(1 - θ) * x[i] + θ * z[i]| ≤ |(1 - θ) * x[i]| + |θ * z[i]| := abs_add_le _ _
        _ = (1 - θ) * |x[i]| + θ * |z[i]| := by rw [abs_mul, abs_mul, abs_of_nonneg h2, abs_of_nonneg h0]
    have := mul_le_mul_of_nonneg_left key hlam
    show lam * l1norm (x + θ • (z - x)) ≤ lam * l1norm x + θ * (lam * l1norm z - lam * l1norm x)
    linarith⟩

lemma vdot_sub_self {n : ℕ} (p v : Vector K n) : vdot (p - v) (p - v) = ∑ i : Fin n, (p[i] - v[i]) ^ 2 := by
  rw [vdot_eq_sum]
  exact Finset.sum_congr rfl (fun i _ => by
    simp only [Fin.getElem_fin, Vector.getElem_sub]; ring)

end ArrayProx

/-! ## Part 4: Levenberg–Marquardt — the accept test and the sum of squares -/
section LMmono
variable {K V W M : Type} [Field K] [LinearOrder K] [IsStrictOrderedRing K]
variable (oV : VOps K V) (oW : VOps K W) (res : V → W) (jac : V → M) (jtv : M → W → V)
  (insolve : M → K → V → V) (nu0 gradtol : K)

lemma half_pos' : (0 : K) < half := by unfold half; simp
lemma two_pos'' : (0 : K) < two := by unfold two; simp

/-- the trial point `xtemp = x - s`, `s = insolve J nu g` -/
def lmTrial (st : LMState K V W M) : V := oV.sub st.x (insolve st.J st.nu st.g)
/-- `den = (xtemp - x)ᵀ g` -/
def lmDen (st : LMState K V W M) : K := oV.dot (oV.sub (lmTrial oV insolve st) st.x) st.g
/-- `ftemp = ½‖r(xtemp)‖²` -/
def lmFtemp (st : LMState K V W M) : K := half * oW.nrm2 (res (lmTrial oV insolve st))
/-- the gain ratio of the accept test -/
def lmRatio (st : LMState K V W M) : K :=
  if st.f - lmFtemp oV oW res insolve st ≠ 0 ∧ lmDen oV insolve st ≠ 0
  then -(two * ((st.f - lmFtemp oV oW res insolve st) / lmDen oV insolve st)) else 0

/-- what one pass does to `x` and `f`: rejected (`ratio < 0`) — unchanged; accepted — the trial point -/
lemma lmStep_x_f (st : LMState K V W M) :
    let st' := lmStep oV oW res jac jtv insolve nu0 st
    (lmRatio oV oW res insolve st < 0 → st'.x = st.x ∧ st'.f = st.f ∧ st'.r = st.r) ∧
    (¬ lmRatio oV oW res insolve st < 0 →
      st'.x = lmTrial oV insolve st ∧ st'.f = lmFtemp oV oW res insolve st ∧
        st'.r = res (lmTrial oV insolve st)) := by
  intro st'
  constructor
  · intro h
    have h' : (if st.f - half * oW.nrm2 (res (oV.sub st.x (insolve st.J st.nu st.g))) ≠ 0 ∧
        oV.dot (oV.sub (oV.sub st.x (insolve st.J st.nu st.g)) st.x) st.g ≠ 0
      then -(two * ((st.f - half * oW.nrm2 (res (oV.sub st.x (insolve st.J st.nu st.g)))) /
        oV.dot (oV.sub (oV.sub st.x (insolve st.J st.nu st.g)) st.x) st.g)) else (0 : K)) < 0 := h
    show (lmStep oV oW res jac jtv insolve nu0 st).x = st.x ∧ (lmStep oV oW res jac jtv insolve nu0 st).f = st.f ∧
      (lmStep oV oW res jac jtv insolve nu0 st).r = st.r
    unfold lmStep
    simp only
    rw [if_pos h']
    exact ⟨rfl, rfl, rfl⟩
  · intro h
    have h' : ¬ (if st.f - half * oW.nrm2 (res (oV.sub st.x (insolve st.J st.nu st.g))) ≠ 0 ∧
        oV.dot (oV.sub (oV.sub st.x (insolve st.J st.nu st.g)) st.x) st.g ≠ 0
      then -(two * ((st.f - half * oW.nrm2 (res (oV.sub st.x (insolve st.J st.nu st.g)))) /
        oV.dot (oV.sub (oV.sub st.x (insolve st.J st.nu st.g)) st.x) st.g)) else (0 : K)) < 0 := h
    show (lmStep oV oW res jac jtv insolve nu0 st).x = _ ∧ (lmStep oV oW res jac jtv insolve nu0 st).f = _ ∧
      (lmStep oV oW res jac jtv insolve nu0 st).r = _
    unfold lmStep
    simp only
    rw [if_neg h']
    exact ⟨rfl, rfl, rfl⟩

/-- **the accept test**: an accepted step along a descent direction (`den < 0`) does not increase `f` -/
lemma lm_accept_le (st : LMState K V W M) (hden : lmDen oV insolve st < 0)
    (hacc : ¬ lmRatio oV oW res insolve st < 0) : lmFtemp oV oW res insolve st ≤ st.f := by
  by_contra hlt
  rw [not_le] at hlt
  apply hacc
  unfold lmRatio
  have hnum : st.f - lmFtemp oV oW res insolve st < 0 := by linarith
  rw [if_pos ⟨hnum.ne, hden.ne⟩]
  have : 0 < (st.f - lmFtemp oV oW res insolve st) / lmDen oV insolve st := div_pos_of_neg_of_neg hnum hden
  have := mul_pos (two_pos'' (K := K)) this
  linarith

/-- one pass never increases `f` when the trial direction is a descent direction -/
lemma lmStep_f_le (st : LMState K V W M) (hden : lmDen oV insolve st < 0) :
    (lmStep oV oW res jac jtv insolve nu0 st).f ≤ st.f := by
  obtain ⟨h1, h2⟩ := lmStep_x_f oV oW res jac jtv insolve nu0 st
  by_cases h : lmRatio oV oW res insolve st < 0
  · rw [(h1 h).2.1]
  · rw [(h2 h).2.1]; exact lm_accept_le oV oW res insolve st hden h

/-- the damping parameter stays non-negative -/
lemma lmStep_nu_nonneg (st : LMState K V W M) (h : 0 ≤ st.nu) :
    0 ≤ (lmStep oV oW res jac jtv insolve nu0 st).nu := by
  have hmax : 0 ≤ maxK (two * st.nu) nu0 := by
    rw [maxK_eq]; exact le_trans (mul_nonneg two_pos''.le h) (le_max_left _ _)
  unfold lmStep
  simp only
  split_ifs <;> first | exact hmax | exact le_rfl | exact mul_nonneg half_pos'.le h | exact h

lemma lmStep_i (st : LMState K V W M) : (lmStep oV oW res jac jtv insolve nu0 st).i = st.i + 1 := by
  unfold lmStep; simp only; split_ifs <;> rfl

end LMmono

section LMdescent
variable {K V W M : Type} [Field K] [LinearOrder K] [IsStrictOrderedRing K]
  [AddCommGroup V] [Module K V] [AddCommGroup W] [Module K W]
variable (oV : VOps K V) (oW : VOps K W) (res : V → W) (jac : V → M) (jtv : M → W → V) (jv : M → V → W)
  (insolve : M → K → V → V) (nu0 gradtol : K)

/-- **the leaf does its job**: `oV`, `oW` lawful with definite symmetric bilinear `dot`s, `jtv J` the
    adjoint of `jv J` (`J.T @ ·` and `J @ ·`), and at every point `x` and damping `ν ≥ 0` the linear
    solve returns an `s` with `(JᵀJ + ν I) s = Jᵀ r` for `J = jacfun(x)`, `r = A(x)` -/
structure LMSetting : Prop where
  lawV : oV.Lawful
  ipV : IsIP oV.dot
  ipW : IsIP oW.dot
  defV : ∀ v, oV.dot v v = 0 → v = 0
  defW : ∀ w, oW.dot w w = 0 → w = 0
  adj : ∀ J v w, oW.dot (jv J v) w = oV.dot v (jtv J w)
  solve : ∀ x ν, 0 ≤ ν →
    jtv (jac x) (jv (jac x) (insolve (jac x) ν (jtv (jac x) (res x))))
      + ν • insolve (jac x) ν (jtv (jac x) (res x)) = jtv (jac x) (res x)

variable {oV oW res jac jtv jv insolve}

lemma LMSetting.jtv_zero (H : LMSetting oV oW res jac jtv jv insolve) (J : M) : jtv J 0 = 0 := by
  apply H.defV
  rw [← H.adj, H.ipW.zero_right]

/-- with a correct linear solve and a non-zero gradient the trial direction is a descent direction -/
lemma LMSetting.den_neg (H : LMSetting oV oW res jac jtv jv insolve) (st : LMState K V W M)
    (hinv : LMInv oV oW res jac jtv st) (hnu : 0 ≤ st.nu) (hg : st.g ≠ 0) :
    lmDen oV insolve st < 0 := by
  obtain ⟨h1, h2, h3, _, _⟩ := hinv
  set s := insolve st.J st.nu st.g with hs
  have hsol : jtv st.J (jv st.J s) + st.nu • s = st.g := by
    have := H.solve st.x st.nu hnu
    rw [← h2, ← h1, ← h3] at this
    exact this
  have hden : lmDen oV insolve st = - oV.dot s st.g := by
    unfold lmDen lmTrial
    rw [H.lawV.sub, H.lawV.sub, ← hs]
    have : st.x - s - st.x = -s := by abel
    rw [this, H.ipV.neg_left]
  have hsg : oV.dot s st.g = oW.dot (jv st.J s) (jv st.J s) + st.nu * oV.dot s s := by
    conv_lhs => rw [← hsol]
    rw [H.ipV.add_right, H.ipV.smul_right, ← H.adj]
  have ha := H.ipW.nonneg (jv st.J s)
  have hb := mul_nonneg hnu (H.ipV.nonneg s)
  rw [hden, neg_lt_zero, hsg]
  rcases (add_nonneg ha hb).lt_or_eq with h | h
  · exact h
  · exfalso
    apply hg
    have ha0 : oW.dot (jv st.J s) (jv st.J s) = 0 := by linarith
    have hb0 : st.nu * oV.dot s s = 0 := by linarith
    have hJs : jv st.J s = 0 := H.defW _ ha0
    have hns : st.nu • s = 0 := by
      rcases mul_eq_zero.1 hb0 with h0 | h0
      · rw [h0, zero_smul]
      · rw [H.defV _ h0, smul_zero]
    rw [← hsol, hJs, H.jtv_zero, hns, add_zero]

/-- the loop: invariant, non-negative damping and `f` never above its value at loop entry -/
lemma lmLoop_f_le (H : LMSetting oV oW res jac jtv jv insolve) (hgt : 0 ≤ gradtol) (ng02 : K)
    (h02 : 0 ≤ ng02) (fuel : ℕ) (st : LMState K V W M) (hinv : LMInv oV oW res jac jtv st)
    (hnu : 0 ≤ st.nu) :
    (lmLoop oV oW res jac jtv insolve nu0 gradtol ng02 fuel st).f ≤ st.f := by
  induction fuel generalizing st with
  | zero => exact le_rfl
  | succ n ih =>
    unfold lmLoop
    split_ifs with hc
    · have hg : st.g ≠ 0 := by
        intro h0
        unfold lmCont at hc
        split_ifs at hc with h1 h2
        · exact absurd h2 (not_lt.2 hgt)
        · have : st.ng2 = 0 := by rw [hinv.2.2.2.1]; unfold VOps.nrm2; rw [h0, H.ipV.zero_left]
          rw [this] at hc
          have := mul_nonneg (mul_self_nonneg gradtol) h02
          simp only [decide_eq_true_eq] at hc
          linarith
      have hden := H.den_neg st hinv hnu hg
      exact le_trans (ih _ (lmStep_inv oV oW res jac jtv insolve nu0 st hinv)
        (lmStep_nu_nonneg oV oW res jac jtv insolve nu0 st hnu))
        (lmStep_f_le oV oW res jac jtv insolve nu0 st hden)
    · exact le_rfl

end LMdescent

end CuqiVerif.C16
