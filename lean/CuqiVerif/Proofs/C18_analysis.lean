import CuqiVerif.Model.C18
import CuqiVerif.Proofs.C18
import Mathlib.Algebra.BigOperators.Fin
import Mathlib.Algebra.BigOperators.Ring.Finset
import Mathlib.Algebra.BigOperators.Intervals
import Mathlib.Data.Matrix.Mul
import Mathlib.LinearAlgebra.Matrix.NonsingularInverse
import Mathlib.Tactic.Ring
import Mathlib.Tactic.Linarith
import Mathlib.Tactic.NormNum
import Mathlib.Tactic.LinearCombination
import Mathlib.Tactic.FieldSimp
import Mathlib.Analysis.Calculus.Deriv.Slope
import Mathlib.Analysis.Calculus.Deriv.Mul
import Mathlib.Analysis.Calculus.Deriv.Add
import Mathlib.Topology.Instances.Matrix
import Mathlib.Topology.Algebra.GroupWithZero

/-!
# C18 — helper lemmas for the analysis theorems (`Props/C18_analysis.lean`)

* the bridge from the model's function matrices/vectors (`Nat → Nat → R`, `Nat → R`, of which the
  first `n` entries are read) to Mathlib's `Matrix (Fin n) (Fin n) R`, `Fin n → R`;
* the closed forms of the two affine recurrences `u_{k+1} = M u_k + c` and `M u_{k+1} = u_k + c`;
* list algebra for the observation maps (`ldot` is a sum; linear in its second argument).
-/
open Finset Matrix Filter Topology

set_option linter.unusedSectionVars false
set_option linter.unusedVariables false
set_option linter.unusedSimpArgs false

namespace CuqiVerif.C18

variable {R : Type} [CommRing R]

/-! ## bridge to Mathlib matrices -/

/-- the leading `n × n` block of a model matrix as a Mathlib matrix -/
def toM (n : ℕ) (A : Mat R) : Matrix (Fin n) (Fin n) R := Matrix.of fun i j => A i j

/-- the first `n` entries of a model vector as a Mathlib vector -/
def toV (n : ℕ) (v : Vec R) : Fin n → R := fun i => v i

/-- a Mathlib matrix / vector read as a model matrix / vector (zero outside) -/
def ofM {n : ℕ} (A : Matrix (Fin n) (Fin n) R) : Mat R :=
  fun i j => if h : i < n ∧ j < n then A ⟨i, h.1⟩ ⟨j, h.2⟩ else 0

def ofV {n : ℕ} (v : Fin n → R) : Vec R := fun i => if h : i < n then v ⟨i, h⟩ else 0

@[simp] lemma toM_apply (n : ℕ) (A : Mat R) (i j : Fin n) : toM n A i j = A i j := rfl
@[simp] lemma toV_apply (n : ℕ) (v : Vec R) (i : Fin n) : toV n v i = v i := rfl

@[simp] lemma toM_ofM {n : ℕ} (A : Matrix (Fin n) (Fin n) R) : toM n (ofM A) = A := by
  ext i j; simp [toM, ofM, i.isLt, j.isLt]

@[simp] lemma toV_ofV {n : ℕ} (v : Fin n → R) : toV n (ofV v) = v := by
  ext i; simp [toV, ofV, i.isLt]

lemma ofM_apply {n : ℕ} (A : Matrix (Fin n) (Fin n) R) (i j : Fin n) : ofM A i j = A i j := by
  simp [ofM, i.isLt, j.isLt]

lemma ofV_apply {n : ℕ} (v : Fin n → R) (i : Fin n) : ofV v i = v i := by
  simp [ofV, i.isLt]

lemma sum_range_eq_mulVec (n : ℕ) (A : Mat R) (x : Vec R) (i : Fin n) :
    ∑ j ∈ range n, A i j * x j = (toM n A *ᵥ toV n x) i := by
  simp only [Matrix.mulVec, dotProduct, toM_apply, toV_apply]
  exact (Fin.sum_univ_eq_sum_range (fun j => A i j * x j) n).symm

lemma sum_range_eq_mulVec' (n : ℕ) (A : Mat R) (x : Vec R) (i : ℕ) (hi : i < n) :
    ∑ j ∈ range n, A i j * x j = (toM n A *ᵥ toV n x) ⟨i, hi⟩ :=
  sum_range_eq_mulVec n A x ⟨i, hi⟩

/-! ## closed forms of affine recurrences (any module over a ring of operators) -/

section rec
variable {n : ℕ}

/-- explicit recurrence `u_{k+1} = M u_k + c` for `k < N` ⇒ `u_k = M^k u_0 + Σ_{j<k} M^j c` for `k ≤ N` -/
lemma affine_rec_closed (M : Matrix (Fin n) (Fin n) R) (c : Fin n → R) (u : ℕ → Fin n → R) (N : ℕ)
    (h : ∀ k, k < N → u (k + 1) = M *ᵥ u k + c) :
    ∀ k, k ≤ N → u k = (M ^ k) *ᵥ u 0 + ∑ j ∈ range k, (M ^ j) *ᵥ c := by
  intro k
  induction k with
  | zero => intro _; simp
  | succ k ih =>
    intro hk
    rw [h k (by omega), ih (by omega), Matrix.mulVec_add, Matrix.mulVec_mulVec, ← pow_succ',
      Finset.sum_range_succ', Matrix.mulVec_sum]
    simp only [Matrix.mulVec_mulVec, ← pow_succ', pow_zero, Matrix.one_mulVec]
    rw [add_assoc]

/-- implicit recurrence `M u_{k+1} = u_k + c` for `k < N` ⇒ `M^k u_k = u_0 + Σ_{j<k} M^j c` for `k ≤ N` -/
lemma implicit_rec_closed (M : Matrix (Fin n) (Fin n) R) (c : Fin n → R) (u : ℕ → Fin n → R) (N : ℕ)
    (h : ∀ k, k < N → M *ᵥ u (k + 1) = u k + c) :
    ∀ k, k ≤ N → (M ^ k) *ᵥ u k = u 0 + ∑ j ∈ range k, (M ^ j) *ᵥ c := by
  intro k
  induction k with
  | zero => intro _; simp
  | succ k ih =>
    intro hk
    rw [pow_succ, ← Matrix.mulVec_mulVec, h k (by omega), Matrix.mulVec_add, ih (by omega),
      Finset.sum_range_succ, add_assoc]

end rec

/-! ## `ldot`, `vecL` -/

section lists
variable {S : Type} [CommRing S]

/-- the first `n` entries of a model vector as a list (the driver's `vecL`) -/
def vecL (n : ℕ) (v : Vec S) : List S := (List.range n).map v

@[simp] lemma vecL_length (n : ℕ) (v : Vec S) : (vecL n v).length = n := by simp [vecL]

lemma vecL_getD (n : ℕ) (v : Vec S) (i : ℕ) (hi : i < n) : (vecL n v).getD i 0 = v i := by
  simp [vecL, List.getD_eq_getElem?_getD, hi]

lemma foldl_add_eq (l : List S) (a : S) : l.foldl (· + ·) a = a + l.sum := by
  induction l generalizing a with
  | nil => simp
  | cons x l ih => simp [ih, add_assoc]

lemma ldot_eq_sum (a b : List S) : ldot a b = (List.zipWith (· * ·) a b).sum := by
  simp [ldot, foldl_add_eq]

/-- `ldot r ·` is linear on lists of equal length -/
lemma ldot_lincomb (r : List S) (c : S) :
    ∀ (a b : List S), a.length = b.length →
      ldot r (List.zipWith (fun x y => c * x + y) a b) = c * ldot r a + ldot r b := by
  simp only [ldot_eq_sum]
  induction r with
  | nil => intro a b _; simp
  | cons x r ih =>
    intro a b hab
    cases a with
    | nil => cases b with
      | nil => simp
      | cons y b => simp at hab
    | cons xa a => cases b with
      | nil => simp at hab
      | cons y b =>
        have hab' : a.length = b.length := by simpa using hab
        simp only [List.zipWith_cons_cons, List.sum_cons, ih a b hab']
        ring

lemma vecL_lincomb (n : ℕ) (c : S) (x y : Vec S) :
    vecL n (fun i => c * x i + y i) = List.zipWith (fun a b => c * a + b) (vecL n x) (vecL n y) := by
  simp [vecL, List.zipWith_map]

lemma vecL_congr (n : ℕ) (x y : Vec S) (h : ∀ i, i < n → x i = y i) : vecL n x = vecL n y := by
  simp only [vecL]
  exact List.map_congr_left fun i hi => h i (List.mem_range.mp hi)

end lists

/-! ## implicit differentiation of a linear system -/

/-- implicit differentiation of a linear system (pure Mathlib statement) -/
lemma hasDerivAt_linear_solve {n : ℕ} (A : ℝ → Matrix (Fin n) (Fin n) ℝ) (b u : ℝ → Fin n → ℝ)
    (A' : Matrix (Fin n) (Fin n) ℝ) (b' : Fin n → ℝ) (s0 : ℝ)
    (hA : ∀ i j, HasDerivAt (fun s => A s i j) (A' i j) s0)
    (hb : ∀ i, HasDerivAt (fun s => b s i) (b' i) s0)
    (hcert : ∀ᶠ s in 𝓝 s0, A s *ᵥ u s = b s) (hdet : (A s0).det ≠ 0) (i : Fin n) :
    HasDerivAt (fun s => u s i) (((A s0)⁻¹ *ᵥ (b' - A' *ᵥ u s0)) i) s0 := by
  -- continuity of `A` at `s0`
  have hAc : ContinuousAt A s0 := by
    refine tendsto_pi_nhds.mpr fun i => tendsto_pi_nhds.mpr fun j => ?_
    exact (hA i j).continuousAt
  have hdetc : ContinuousAt (fun s => (A s).det) s0 :=
    (continuous_id.matrix_det.continuousAt (x := A s0)).comp hAc
  have hdet_ev : ∀ᶠ s in 𝓝 s0, (A s).det ≠ 0 := hdetc.eventually_ne hdet
  have hinvc : ContinuousAt (fun s => (A s)⁻¹) s0 := by
    have h1 : ContinuousAt Ring.inverse (A s0).det := by
      rw [Ring.inverse_eq_inv']
      exact continuousAt_inv₀ hdet
    exact (continuousAt_matrix_inv (A s0) h1).comp hAc
  -- the slope of `u` near `s0`
  let G : ℝ → Fin n → ℝ := fun s =>
    (A s)⁻¹ *ᵥ ((fun j => slope (fun s => b s j) s0 s) - (Matrix.of fun j k => slope (fun s => A s j k) s0 s) *ᵥ u s0)
  have hG : Tendsto (fun s => G s i) (𝓝[≠] s0) (𝓝 (((A s0)⁻¹ *ᵥ (b' - A' *ᵥ u s0)) i)) := by
    simp only [G, Matrix.mulVec, dotProduct, Pi.sub_apply, Matrix.of_apply]
    refine tendsto_finsetSum _ fun j _ => Tendsto.mul ?_ (Tendsto.sub ?_ ?_)
    · have : Tendsto (fun s => (A s)⁻¹) (𝓝[≠] s0) (𝓝 (A s0)⁻¹) := hinvc.tendsto.mono_left nhdsWithin_le_nhds
      exact (tendsto_pi_nhds.mp (tendsto_pi_nhds.mp this i) j)
    · exact hasDerivAt_iff_tendsto_slope.mp (hb j)
    · refine tendsto_finsetSum _ fun k _ => Tendsto.mul ?_ tendsto_const_nhds
      exact hasDerivAt_iff_tendsto_slope.mp (hA j k)
  rw [hasDerivAt_iff_tendsto_slope]
  refine hG.congr' ?_
  have hev : ∀ᶠ s in 𝓝[≠] s0, A s *ᵥ u s = b s ∧ (A s).det ≠ 0 :=
    (hcert.and hdet_ev).filter_mono nhdsWithin_le_nhds
  have h0 : A s0 *ᵥ u s0 = b s0 := hcert.self_of_nhds
  filter_upwards [hev, self_mem_nhdsWithin] with s hs hne
  obtain ⟨hc, hd⟩ := hs
  have hne' : s - s0 ≠ 0 := sub_ne_zero.mpr hne
  -- `A s (u s - u s0) = (s - s0) • (Sb - SA u s0)`
  have key : u s - u s0 = (s - s0) • G s := by
    have hunit : IsUnit (A s).det := isUnit_iff_ne_zero.mpr hd
    have : A s *ᵥ (u s - u s0) = (s - s0) •
        ((fun j => slope (fun s => b s j) s0 s) - (Matrix.of fun j k => slope (fun s => A s j k) s0 s) *ᵥ u s0) := by
      rw [Matrix.mulVec_sub, hc]
      funext j
      simp only [Pi.sub_apply, Pi.smul_apply, smul_eq_mul, Matrix.mulVec, dotProduct, Matrix.of_apply,
        slope_def_field]
      have h0j : b s0 j = ∑ k, A s0 j k * u s0 k := by
        rw [← h0]; simp [Matrix.mulVec, dotProduct]
      rw [h0j, mul_sub, mul_div_cancel₀ _ hne', Finset.mul_sum]
      have e : ∀ k, (s - s0) * ((A s j k - A s0 j k) / (s - s0) * u s0 k)
          = A s j k * u s0 k - A s0 j k * u s0 k := by
        intro k
        field_simp
      simp only [e, Finset.sum_sub_distrib]
      ring
    simp only [G]
    rw [← Matrix.mulVec_smul, ← this, Matrix.mulVec_mulVec, Matrix.nonsing_inv_mul _ hunit, Matrix.one_mulVec]
  have := congrFun key i
  simp only [Pi.sub_apply, Pi.smul_apply, smul_eq_mul] at this
  rw [slope_def_field, this, mul_div_cancel_left₀ _ hne']

end CuqiVerif.C18
