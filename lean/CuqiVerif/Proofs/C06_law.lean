import CuqiVerif.Proofs.C06
import CuqiVerif.Props.C05_law
import CuqiVerif.Props.C16_krylov
import Mathlib.LinearAlgebra.Matrix.DotProduct
import Mathlib.LinearAlgebra.Matrix.ToLin
import Mathlib.Analysis.Matrix.Order
import Mathlib.Probability.Kernel.Composition.MeasureCompProd

/-!
# C06 — helper lemmas for the law theorems (`Props/C06_law.lean`)

* Part A (any field): `ofFin` (a `Fin N`-indexed vector read as a model vector), an adjoint pair of
  function handles *is* a matrix and its transpose (`adjoint_pair_matrix`), UGLA's two actions are those
  of `Ugla.Mmat`.
* Part B (ordered field): the CGLS of `Model/C06.lean` (functions `ℕ → K`, tabulated) computes, field by
  field, what the CGLS of `Model/C16.lean` computes on `V = Fin n → K`, `W = Fin N → K` with the module
  operations and `dotProduct` (`cgls_sim`): the Krylov theorems of `Props/C16_krylov.lean` transfer.
* Part C (ℝ): the law of a least-squares solution with a standard normal perturbation of the right-hand
  side, its density, the constant kernel.
-/
open Finset Matrix

set_option linter.unusedSectionVars false
set_option linter.unusedVariables false

namespace CuqiVerif.C06

/-! ## Part A -/
section A
variable {K : Type} [Field K]

/-- a `Fin N`-indexed vector as a model vector (zero outside) -/
def ofFin {N : ℕ} (e : Fin N → K) : Vec K := fun i => if h : i < N then e ⟨i, h⟩ else 0

lemma toV_ofFin {N : ℕ} (e : Fin N → K) : toV N (ofFin e) = e := by
  funext i
  simp [toV, ofFin, i.isLt]

lemma ofFin_toV (N : ℕ) (v : Vec K) (i : ℕ) (hi : i < N) : ofFin (toV N v) i = v i := by
  simp [ofFin, toV, hi]

lemma toV_tab (n : ℕ) (v : Vec K) : toV n (ofArr (tabArr n v)) = toV n v := by
  funext i
  exact ofArr_tabArr n v i i.isLt

lemma toV_congr (n : ℕ) (x y : Vec K) (h : toV n x = toV n y) (A : Mat K) (i : ℕ) :
    mulVec n A x i = mulVec n A y i :=
  mulVec_congr n A x y ((toV_ext_iff n x y).mpr h) i

lemma dot_comm (n : ℕ) (x y : Vec K) : dot n x y = dot n y x :=
  sumTo_congr _ _ _ fun i _ => mul_comm _ _

lemma dot_unit_right (n j : ℕ) (hj : j < n) (v : Vec K) : dot n v (unit j) = v j := by
  rw [dot_comm, dot_unit_left n j hj]

/-- **An adjoint pair of function handles is a matrix and its transpose.**  If
    `⟨fwd u, v⟩ = ⟨u, adj v⟩` for all `u`, `v` (sizes `N`, `n`), then `fwd` acts (on the entries `< N`)
    as the matrix `Mᵢⱼ = fwd(eⱼ)ᵢ` and `adj` (entries `< n`) as its transpose — in particular both are
    linear and read only the leading entries of their argument. -/
lemma adjoint_pair_matrix (N n : ℕ) (fwd adj : Vec K → Vec K)
    (h : ∀ u v, dot N (fwd u) v = dot n u (adj v)) :
    (∀ v i, i < N → fwd v i = mulVec n (fun i j => fwd (unit j) i) v i) ∧
    (∀ w j, j < n → adj w j = tmulVec N (fun i j => fwd (unit j) i) w j) := by
  have hadj : ∀ w j, j < n → adj w j = tmulVec N (fun i j => fwd (unit j) i) w j := by
    intro w j hj
    rw [← dot_unit_left n j hj (adj w), ← h]
    rfl
  refine ⟨fun v i hi => ?_, hadj⟩
  rw [← dot_unit_right N i hi (fwd v), h]
  refine sumTo_congr _ _ _ fun j hj => ?_
  rw [hadj (unit i) j hj, mul_comm]
  congr 1
  show dot N (fun k => fwd (unit j) k) (unit i) = _
  exact dot_unit_right N i hi _

/-- the matrix of the stacked operator of a problem given by function handles: column `j` is `M(eⱼ, 1)` -/
def opMat (P : Problem K) : Mat K := fun i j => Mfwd P (unit j) i

lemma opMat_spec (P : Problem K)
    (hadj : ∀ l ∈ P.liks, ∀ u v : Vec K, dot l.m (l.fwd u) v = dot P.n u (l.adj v)) :
    (∀ v i, i < rowsM P → Mfwd P v i = mulVec P.n (opMat P) v i) ∧
    (∀ w j, j < P.n → Madj P w j = tmulVec (rowsM P) (opMat P) w j) :=
  adjoint_pair_matrix (rowsM P) P.n (Mfwd P) (Madj P) (adjoint_stack P hadj)

lemma mulVec_unit (n : ℕ) (A : Mat K) (j : ℕ) (hj : j < n) (i : ℕ) : mulVec n A (unit j) i = A i j := by
  have : mulVec n A (unit j) i = dot n (fun k => A i k) (unit j) := rfl
  rw [this, dot_unit_right n j hj]

/-- for matrix-backed models the matrix of the function-handle operator is `Mmat` (columns `< n`) -/
lemma opMat_problemOf (n : ℕ) (ls : List (MatLik K)) (pr : Prior K) (i j : ℕ) (hj : j < n) :
    opMat (problemOf n ls pr) i j = Mmat ls pr i j := by
  unfold opMat
  rw [Mfwd_eq_mulVec, mulVec_unit n _ j hj]

/-! ### UGLA: the two actions are those of `Ugla.Mmat` -/

lemma ugla_Mfwd_eq_mulVec (U : Ugla K) (x : Vec K) (i : ℕ) :
    U.Mfwd x i = mulVec U.n U.Mmat x i := by
  by_cases h1 : i < U.lik.m
  · have e1 : U.Mfwd x i = mulVec U.lik.m U.lik.L (mulVec U.n U.lik.A x) i := by
      simp [Ugla.Mfwd, hcat, h1]
    have e2 : mulVec U.n U.Mmat x i = mulVec U.n (mul U.lik.m U.lik.L U.lik.A) x i := by
      simp [Ugla.Mmat, mulVec, hcat, h1]
    rw [e1, e2, mulVec_mul]
  · by_cases h2 : i - U.lik.m < U.p
    · have e1 : U.Mfwd x i = U.s * mulVec U.n U.L2 x (i - U.lik.m) := by
        simp [Ugla.Mfwd, hcat, h1, h2]
      have e2 : mulVec U.n U.Mmat x i = sumTo U.n fun j => U.s * U.L2 (i - U.lik.m) j * x j := by
        simp [Ugla.Mmat, mulVec, hcat, h1, h2]
      rw [e1, e2, mulVec, ← sumTo_mul_left]
      exact sumTo_congr _ _ _ fun j _ => by ring
    · have e1 : U.Mfwd x i = 0 := by simp [Ugla.Mfwd, hcat, h1, h2]
      have e2 : mulVec U.n U.Mmat x i = 0 := by
        simp [Ugla.Mmat, mulVec, hcat, h1, h2, sumTo_zero]
      rw [e1, e2]

lemma ugla_Madj_eq_tmulVec (U : Ugla K) (y : Vec K) (j : ℕ) :
    U.Madj y j = tmulVec U.rows U.Mmat y j := by
  have hrows : U.rows = U.lik.m + U.p := rfl
  unfold Ugla.Madj
  rw [hrows]
  simp only [tmulVec]
  rw [sumTo_add]
  congr 1
  · have : ∀ i, i < U.lik.m → U.Mmat i j * y i = mul U.lik.m U.lik.L U.lik.A i j * y i := by
      intro i hi; simp [Ugla.Mmat, hcat, hi]
    rw [sumTo_congr _ _ _ this]
    simp only [mul, sumTo_eq_sum, Finset.mul_sum, Finset.sum_mul]
    rw [Finset.sum_comm]
    refine Finset.sum_congr rfl fun a _ => Finset.sum_congr rfl fun b _ => ?_
    ring
  · have : ∀ i, i < U.p → U.Mmat (U.lik.m + i) j * y (U.lik.m + i) = U.s * (U.L2 i j * drop U.lik.m y i) := by
      intro i hi; simp [Ugla.Mmat, hcat, hi, drop]; ring
    rw [sumTo_congr _ _ _ this, sumTo_mul_left]

end A

/-! ## Part B — the two CGLS models compute the same thing -/
section B
variable {K : Type} [Field K] [LinearOrder K] [IsStrictOrderedRing K]

/-- module operations and `dotProduct` on `Fin n → K` as a `C16.VOps` record -/
def dotOps (n : ℕ) : C16.VOps K (Fin n → K) := C16.VOps.ofModule K (Fin n → K) (· ⬝ᵥ ·)

lemma dotOps_isIP (n : ℕ) : C16.IsIP (dotOps (K := K) n).dot where
  add_left a b c := add_dotProduct a b c
  smul_left t a c := by show (t • a) ⬝ᵥ c = t * (a ⬝ᵥ c); rw [smul_dotProduct, smul_eq_mul]
  comm a b := dotProduct_comm a b
  nonneg a := by
    show 0 ≤ a ⬝ᵥ a
    exact Finset.sum_nonneg fun i _ => mul_self_nonneg (a i)

lemma dotOps_defn (n : ℕ) (v : Fin n → K) (h : (dotOps (K := K) n).dot v v = 0) : v = 0 :=
  dotProduct_self_eq_zero.mp h

/-- the exact-arithmetic setting of `Props/C16_krylov.lean` for a matrix with invertible Gram matrix -/
lemma matSetting {N n : ℕ} (A : Matrix (Fin N) (Fin n) K) (Cm : Matrix (Fin n) (Fin n) K)
    (hC : Cm * (Aᵀ * A) = 1) :
    C16.CGLSSetting (dotOps n) (dotOps N) (Matrix.mulVecLin A) (Matrix.mulVecLin Aᵀ) (0 : K) where
  lawV := C16.VOps.ofModule_lawful _ _ _
  lawW := C16.VOps.ofModule_lawful _ _ _
  ipV := dotOps_isIP n
  ipW := dotOps_isIP N
  defn := dotOps_defn n
  adj v w := by
    show (A *ᵥ v) ⬝ᵥ w = v ⬝ᵥ (Aᵀ *ᵥ w)
    rw [Matrix.mulVec_transpose, dotProduct_comm, dotProduct_mulVec, dotProduct_comm]
  pos v hv := by
    have hne : A *ᵥ v ≠ 0 := by
      intro h0
      apply hv
      have : v = Cm *ᵥ (Aᵀ *ᵥ (A *ᵥ v)) := by
        rw [Matrix.mulVec_mulVec, Matrix.mulVec_mulVec, Matrix.mul_assoc, hC, Matrix.one_mulVec]
      rw [this, h0, Matrix.mulVec_zero, Matrix.mulVec_zero]
    have h1 : 0 ≤ (A *ᵥ v) ⬝ᵥ (A *ᵥ v) := (dotOps_isIP N).nonneg _
    have h2 : (A *ᵥ v) ⬝ᵥ (A *ᵥ v) ≠ 0 := fun h => hne (dotProduct_self_eq_zero.mp h)
    show 0 < (A *ᵥ v) ⬝ᵥ (A *ᵥ v) + 0 * (v ⬝ᵥ v)
    rw [zero_mul, add_zero]
    exact lt_of_le_of_ne h1 (Ne.symm h2)

/-- the simulation relation between a state of `C06.cgls` and a state of `C16.cgls` -/
def Sim (N n : ℕ) (a : CglsState K) (c : C16.CGState K (Fin n → K) (Fin N → K)) : Prop :=
  toV n a.x = c.x ∧ toV N a.r = c.r ∧ toV n a.s = c.s ∧ toV n a.p = c.p ∧ a.gamma = c.gamma ∧
    a.k = c.k ∧ a.flag = c.flag

variable (N n : ℕ) (M : Mat K) (fwd adj : Vec K → Vec K)
  (hf : ∀ v i, i < N → fwd v i = mulVec n M v i) (ha : ∀ v j, j < n → adj v j = tmulVec N M v j)

include hf in
lemma toV_fwd (v : Vec K) : toV N (fwd v) = toM N n M *ᵥ toV n v := by
  rw [← toV_mulVec]
  exact (toV_ext_iff N _ _).mp fun i hi => hf v i hi

include ha in
lemma toV_adj (w : Vec K) : toV n (adj w) = (toM N n M)ᵀ *ᵥ toV N w := by
  rw [← toV_tmulVec]
  exact (toV_ext_iff n _ _).mp fun j hj => ha w j hj

include hf ha in
lemma sim_init (b x0 : Vec K) :
    Sim N n (cglsInit fwd adj N n b x0)
      (C16.cglsInit (dotOps n) (dotOps N) (Matrix.mulVecLin (toM N n M)) (Matrix.mulVecLin (toM N n M)ᵀ)
        (toV N b) 0 (toV n x0)) := by
  have hx : toV n (ofArr (tabArr n x0)) = toV n x0 := toV_tab n x0
  have hr : toV N (ofArr (tabArr N fun i => b i - fwd (ofArr (tabArr n x0)) i))
      = toV N b - toM N n M *ᵥ toV n x0 := by
    rw [toV_tab, toV_sub, toV_fwd N n M fwd hf, hx]
  have hs : toV n (ofArr (tabArr n (adj (ofArr (tabArr N fun i => b i - fwd (ofArr (tabArr n x0)) i)))))
      = (toM N n M)ᵀ *ᵥ (toV N b - toM N n M *ᵥ toV n x0) - (0 : K) • toV n x0 := by
    rw [toV_tab, toV_adj N n M adj ha, hr, zero_smul, sub_zero]
  refine ⟨hx, hr, hs, hs, ?_, rfl, rfl⟩
  show dot n _ _ = _
  rw [dot_eq, hs]
  rfl

include hf ha in
lemma sim_step (g0 tol eps : K) (htol : 0 ≤ tol) (a : CglsState K)
    (c : C16.CGState K (Fin n → K) (Fin N → K)) (h : Sim N n a c) :
    Sim N n (cglsIter fwd adj N n g0 (tol * tol) eps a)
      (C16.cglsStep (dotOps n) (dotOps N) (Matrix.mulVecLin (toM N n M)) (Matrix.mulVecLin (toM N n M)ᵀ)
        0 tol eps g0 c) := by
  obtain ⟨hx, hr, hs, hp, hg, hk, hfl⟩ := h
  -- the quantities of the C16 step
  set q : Fin N → K := toM N n M *ᵥ c.p with hq
  set delta0 : K := q ⬝ᵥ q with hd0
  set delta : K := if delta0 = 0 then eps else delta0 with hd
  set alpha : K := c.gamma / delta with hal
  -- the C06 side, field by field
  have hq6 : toV N (ofArr (tabArr N (fwd a.p))) = q := by
    rw [toV_tab, toV_fwd N n M fwd hf, hp]
  have hd6 : dot N (ofArr (tabArr N (fwd a.p))) (ofArr (tabArr N (fwd a.p))) = delta0 := by
    rw [dot_eq, hq6]
  have hx6 : ∀ al : K, toV n (ofArr (tabArr n fun i => a.x i + al * a.p i)) = c.x + al • c.p := by
    intro al; rw [toV_tab, ← hx, ← hp]; rfl
  have hr6 : ∀ al : K, toV N (ofArr (tabArr N fun i => a.r i - al * ofArr (tabArr N (fwd a.p)) i))
      = c.r - al • q := by
    intro al; rw [toV_tab, ← hr, ← hq6]; rfl
  unfold cglsIter C16.cglsStep
  simp only [hd6, hg]
  have hs6 : toV n (ofArr (tabArr n (adj (ofArr (tabArr N fun i => a.r i - alpha * ofArr (tabArr N (fwd a.p)) i)))))
      = (toM N n M)ᵀ *ᵥ (c.r - alpha • q) - (0 : K) • (c.x + alpha • c.p) := by
    rw [toV_tab, toV_adj N n M adj ha, hr6, zero_smul, sub_zero]
  have hd' : (dotOps N).nrm2 ((Matrix.mulVecLin (toM N n M)) c.p) + 0 * (dotOps n).nrm2 c.p = delta0 := by
    show q ⬝ᵥ q + 0 * _ = _
    rw [zero_mul, add_zero]
  simp only [hd']
  refine ⟨hx6 alpha, hr6 alpha, hs6, ?_, ?_, ?_, ?_⟩
  · -- p
    rw [toV_tab]
    show toV n (fun i => _ + _ * a.p i) = _
    have : ∀ (u : Vec K) (t : K), toV n (fun i => u i + t * a.p i) = toV n u + t • c.p := by
      intro u t; rw [← hp]; rfl
    rw [this, hs6, dot_eq, hs6]
    rfl
  · show dot n _ _ = _
    rw [dot_eq, hs6]; rfl
  · show a.k + 1 = c.k + 1
    rw [hk]
  · show (decide _ || decide _) = C16.cgFlag _ _ _ _
    unfold C16.cgFlag
    rw [if_neg (not_lt.mpr htol), dot_eq, hs6, dot_eq, hx6]
    rfl

include hf ha in
lemma sim_loop (g0 tol eps : K) (htol : 0 ≤ tol) (fuel : ℕ) :
    ∀ (a : CglsState K) (c : C16.CGState K (Fin n → K) (Fin N → K)), Sim N n a c →
    Sim N n (cglsLoop fwd adj N n g0 (tol * tol) eps fuel a)
      (C16.cglsLoop (dotOps n) (dotOps N) (Matrix.mulVecLin (toM N n M)) (Matrix.mulVecLin (toM N n M)ᵀ)
        0 tol eps g0 fuel c) := by
  induction fuel with
  | zero => intro a c h; exact h
  | succ k ih =>
    intro a c h
    unfold cglsLoop C16.cglsLoop
    rw [← h.2.2.2.2.2.2]
    split
    · exact h
    · exact ih _ _ (sim_step N n M fwd adj hf ha g0 tol eps htol a c h)

include hf ha in
/-- **`C06.cgls` = `C16.cgls`** on `Fin n → K` / `Fin N → K` with the matrix's `mulVec` and its transpose,
    `shift = 0`, for every `tol ≥ 0` (`tol2 = tol²`), start, right-hand side, `maxit`, `eps`. -/
lemma cgls_sim (b x0 : Vec K) (maxit : ℕ) (tol eps : K) (htol : 0 ≤ tol) :
    Sim N n (cgls fwd adj N n b x0 maxit (tol * tol) eps)
      (C16.cgls (dotOps n) (dotOps N) (Matrix.mulVecLin (toM N n M)) (Matrix.mulVecLin (toM N n M)ᵀ)
        (toV N b) 0 tol eps (toV n x0) maxit) := by
  unfold cgls C16.cgls
  have h0 := sim_init N n M fwd adj hf ha b x0
  simp only
  rw [h0.2.2.2.2.1]
  exact sim_loop N n M fwd adj hf ha _ tol eps htol maxit _ _ h0

end B

/-! ## Part C — laws (ℝ) -/
section C
open MeasureTheory ProbabilityTheory WithLp Real CuqiVerif.C05
open scoped ENNReal MatrixOrder

variable {N n : ℕ}

/-- the density of `N(m, H⁻¹)` w.r.t. Lebesgue measure on `ℝⁿ`, written with the precision `H`:
    `(2π)^(-n/2) det(H)^(1/2) exp(−½ (x−m)ᵀ H (x−m))` -/
noncomputable def gaussPrecPdf (m : Fin n → ℝ) (H : Matrix (Fin n) (Fin n) ℝ) (x : Fin n → ℝ) : ℝ :=
  Real.exp (-(1 / 2) * (n * Real.log (2 * π) - Real.log H.det) - 1 / 2 * ((x - m) ⬝ᵥ H *ᵥ (x - m)))

/-- `N(m, H⁻¹)` as a measure on `ℝⁿ`: Lebesgue measure with density `gaussPrecPdf m H` -/
noncomputable def gaussPrec (m : Fin n → ℝ) (H : Matrix (Fin n) (Fin n) ℝ) : Measure (Fin n → ℝ) :=
  (volume : Measure (Fin n → ℝ)).withDensity (fun x => ENNReal.ofReal (gaussPrecPdf m H x))

/-- a solution map of the perturbed normal equations is the affine map `e ↦ C Aᵀ b + (C Aᵀ) e` -/
lemma lsq_step_affine (A : Matrix (Fin N) (Fin n) ℝ) (Cm : Matrix (Fin n) (Fin n) ℝ) (b : Fin N → ℝ)
    (g : (Fin N → ℝ) → Fin n → ℝ) (hC : Cm * (Aᵀ * A) = 1)
    (hg : ∀ e, (Aᵀ * A) *ᵥ g e = Aᵀ *ᵥ (b + e)) :
    g = fun e => Cm *ᵥ (Aᵀ *ᵥ b) + (Cm * Aᵀ) *ᵥ e :=
  funext fun e => mat_affine A Cm b e (g e) hC (hg e)

/-- … hence with `e ~ N(0, I_N)` its law is `N(C Aᵀ b, C)`, `C = (AᵀA)⁻¹` -/
lemma lsq_step_law_mvg (A : Matrix (Fin N) (Fin n) ℝ) (Cm : Matrix (Fin n) (Fin n) ℝ) (b : Fin N → ℝ)
    (g : (Fin N → ℝ) → Fin n → ℝ) (h1 : (Aᵀ * A) * Cm = 1) (h2 : Cm * (Aᵀ * A) = 1)
    (hg : ∀ e, (Aᵀ * A) *ᵥ g e = Aᵀ *ᵥ (b + e)) :
    ((stdNormalVec (Fin N)).map g).map (toLp 2)
      = multivariateGaussian (toLp 2 (Cm *ᵥ (Aᵀ *ᵥ b))) Cm := by
  rw [lsq_step_affine A Cm b g h2 hg, gauss_rect_draw_law_eq_multivariateGaussian, mat_cov A Cm h1 h2]

/-- a measure on `ℝⁿ` that reads as `multivariateGaussian m C` in `EuclideanSpace`, with `C` the inverse of a
    positive semidefinite `H`, is Lebesgue measure with density `gaussPrecPdf m H` -/
lemma eq_gaussPrec_of_map_toLp (μ : Measure (Fin n → ℝ)) (m : Fin n → ℝ) (H Cm : Matrix (Fin n) (Fin n) ℝ)
    (hH : H.PosSemidef) (h1 : H * Cm = 1)
    (hμ : μ.map (toLp 2) = multivariateGaussian (toLp 2 m) Cm) : μ = gaussPrec m H := by
  obtain ⟨R, hR⟩ := CStarAlgebra.nonneg_iff_eq_star_mul_self.mp hH.nonneg
  have hR' : H = Rᵀ * R := by
    rw [hR, Matrix.star_eq_conjTranspose, conjTranspose_eq_transpose_of_trivial]
  have hdetH : H.det ≠ 0 := by
    have : H.det * Cm.det = 1 := by rw [← det_mul, h1, det_one]
    exact left_ne_zero_of_mul_eq_one this
  have hdetR : IsUnit R.det := by
    rw [isUnit_iff_ne_zero]
    intro h0
    apply hdetH
    rw [hR', det_mul, det_transpose, h0, mul_zero]
  have hRB : R * R⁻¹ = 1 := Matrix.mul_nonsing_inv R hdetR
  have hcov : R⁻¹ * (R⁻¹)ᵀ = Cm := by
    have e1 := (gauss_cov_eq_inv_precision R R⁻¹ hRB).1
    rw [← hR'] at e1
    calc R⁻¹ * (R⁻¹)ᵀ = R⁻¹ * (R⁻¹)ᵀ * (H * Cm) := by rw [h1, Matrix.mul_one]
      _ = (R⁻¹ * (R⁻¹)ᵀ * H) * Cm := by rw [Matrix.mul_assoc, Matrix.mul_assoc, Matrix.mul_assoc]
      _ = Cm := by rw [e1, Matrix.one_mul]
  have hlaw : μ = gaussDrawLaw m R⁻¹ := by
    have e : μ.map (toLp 2) = (gaussDrawLaw m R⁻¹).map (toLp 2) := by
      rw [hμ, gauss_draw_law_eq_multivariateGaussian, hcov]
    have := congrArg (fun ν : Measure (EuclideanSpace ℝ (Fin n)) => ν.map ofLp) e
    simp only at this
    rwa [Measure.map_map (by fun_prop) (by fun_prop), Measure.map_map (by fun_prop) (by fun_prop),
      show (ofLp ∘ toLp 2 : (Fin n → ℝ) → Fin n → ℝ) = id from rfl, Measure.map_id, Measure.map_id] at this
  rw [hlaw, gauss_draw_law_density m R R⁻¹ hRB _ rfl, gaussPrec]
  congr 1
  ext x
  unfold gaussPrecPdf
  congr 2
  have hquad : (x - m) ⬝ᵥ H *ᵥ (x - m) = ∑ i, (R *ᵥ (x - m)) i ^ 2 := by
    rw [hR', ← mulVec_mulVec, dotProduct_mulVec, vecMul_transpose, dotProduct]
    exact Finset.sum_congr rfl fun i _ => (sq _).symm
  rw [gaussLogpdf, hquad, ← hR', Fintype.card_fin]
  ring

/-- the Gram matrix is positive semidefinite -/
lemma gram_posSemidef (A : Matrix (Fin N) (Fin n) ℝ) : (Aᵀ * A).PosSemidef := by
  simpa using Matrix.posSemidef_conjTranspose_mul_self A

/-- the law of a least-squares solution with standard normal perturbation of the right-hand side has the density
    of `N((AᵀA)⁻¹Aᵀb, (AᵀA)⁻¹)` -/
lemma lsq_step_law_density (A : Matrix (Fin N) (Fin n) ℝ) (Cm : Matrix (Fin n) (Fin n) ℝ) (b : Fin N → ℝ)
    (g : (Fin N → ℝ) → Fin n → ℝ) (h1 : (Aᵀ * A) * Cm = 1) (h2 : Cm * (Aᵀ * A) = 1)
    (hg : ∀ e, (Aᵀ * A) *ᵥ g e = Aᵀ *ᵥ (b + e)) :
    (stdNormalVec (Fin N)).map g = gaussPrec (Cm *ᵥ (Aᵀ *ᵥ b)) (Aᵀ * A) :=
  eq_gaussPrec_of_map_toLp _ _ _ Cm (gram_posSemidef A) h1 (lsq_step_law_mvg A Cm b g h1 h2 hg)

lemma gaussPrec_isProbability_of (A : Matrix (Fin N) (Fin n) ℝ) (Cm : Matrix (Fin n) (Fin n) ℝ)
    (m : Fin n → ℝ) (h1 : (Aᵀ * A) * Cm = 1) : IsProbabilityMeasure (gaussPrec m (Aᵀ * A)) := by
  have hmvg : IsProbabilityMeasure (multivariateGaussian (toLp 2 m) Cm) := inferInstance
  have e := eq_gaussPrec_of_map_toLp ((multivariateGaussian (toLp 2 m) Cm).map ofLp) m (Aᵀ * A) Cm
    (gram_posSemidef A) h1 (by
      rw [Measure.map_map (by fun_prop) (by fun_prop),
        show (toLp 2 ∘ ofLp : EuclideanSpace ℝ (Fin n) → EuclideanSpace ℝ (Fin n)) = id from rfl, Measure.map_id])
  rw [← e]
  exact Measure.isProbabilityMeasure_map (by fun_prop)

/-! ### model-level forms -/

lemma quad_eq (n : ℕ) (P : Mat ℝ) (v : Vec ℝ) : quad n P v = toV n v ⬝ᵥ toM n n P *ᵥ toV n v := by
  unfold quad
  rw [dot_eq, toV_mulVec n n]

/-- the offset `C Mᵀ b` solves the normal equations -/
lemma normalEq_of_inv {K : Type} [Field K] (N n : ℕ) (M C : Mat K) (b : Vec K) (hC : IsInv n (gram N M) C) :
    NormalEq N n M b (mulVec n C (tmulVec N M b)) := by
  rw [isInv_iff, toM_gram] at hC
  rw [normalEq_iff, toV_mulVec n n, toV_tmulVec, Matrix.mulVec_mulVec, hC.1, Matrix.one_mulVec]

/-- a probability measure with density `c · f` is the normalisation of the measure with density `f` -/
lemma withDensity_normalize {α : Type*} [MeasurableSpace α] (μ : Measure α) (f : α → ℝ) (c : ℝ)
    (hc : 0 ≤ c) (hf : Measurable f)
    (hp : IsProbabilityMeasure (μ.withDensity fun x => ENNReal.ofReal (c * f x))) :
    μ.withDensity (fun x => ENNReal.ofReal (c * f x))
      = (∫⁻ x, ENNReal.ofReal (f x) ∂μ)⁻¹ • μ.withDensity (fun x => ENNReal.ofReal (f x)) := by
  have hmeas : Measurable fun x => ENNReal.ofReal (f x) := ENNReal.measurable_ofReal.comp hf
  have e : (fun x => ENNReal.ofReal (c * f x)) = ENNReal.ofReal c • fun x => ENNReal.ofReal (f x) := by
    funext x; rw [Pi.smul_apply, smul_eq_mul, ENNReal.ofReal_mul hc]
  have h1 : (μ.withDensity fun x => ENNReal.ofReal (c * f x)) Set.univ = 1 := measure_univ
  rw [e, withDensity_smul _ hmeas] at h1 ⊢
  rw [Measure.smul_apply, withDensity_apply _ MeasurableSet.univ, Measure.restrict_univ, smul_eq_mul] at h1
  rw [ENNReal.eq_inv_of_mul_eq_one_left h1]

lemma continuous_gaussPrecPdf (m : Fin n → ℝ) (H : Matrix (Fin n) (Fin n) ℝ) : Continuous (gaussPrecPdf m H) := by
  unfold gaussPrecPdf
  refine Real.continuous_exp.comp (continuous_const.sub (continuous_const.mul ?_))
  have h1 : Continuous fun x : Fin n → ℝ => x - m := continuous_id.sub continuous_const
  exact Continuous.dotProduct h1 (Continuous.matrix_mulVec continuous_const h1)

/-- **"density ∝ exp(−½·objective)" determines the law**: if `objective x = (x−m)ᵀ H (x−m) + objective m` for all
    `x`, the probability measure `N(m, H⁻¹)` is the normalisation of Lebesgue measure with density
    `exp(−½ objective)` -/
lemma gaussPrec_eq_normalized (m : Fin n → ℝ) (H : Matrix (Fin n) (Fin n) ℝ)
    (hp : IsProbabilityMeasure (gaussPrec m H)) (obj : (Fin n → ℝ) → ℝ) (om : ℝ)
    (hobj : ∀ x, obj x = (x - m) ⬝ᵥ H *ᵥ (x - m) + om) :
    gaussPrec m H
      = (∫⁻ x, ENNReal.ofReal (Real.exp (-(1 / 2) * obj x)))⁻¹ •
          (volume : Measure (Fin n → ℝ)).withDensity (fun x => ENNReal.ofReal (Real.exp (-(1 / 2) * obj x))) := by
  set c : ℝ := Real.exp (-(1 / 2) * (n * Real.log (2 * π) - Real.log H.det) + 1 / 2 * om) with hc
  have hpdf : ∀ x, gaussPrecPdf m H x = c * Real.exp (-(1 / 2) * obj x) := by
    intro x
    rw [hc, ← Real.exp_add, hobj x, gaussPrecPdf]
    congr 1
    ring
  have hfm : Measurable fun x : Fin n → ℝ => Real.exp (-(1 / 2) * obj x) := by
    have : (fun x : Fin n → ℝ => Real.exp (-(1 / 2) * obj x)) = fun x => c⁻¹ * gaussPrecPdf m H x := by
      funext x; rw [hpdf x, ← mul_assoc, inv_mul_cancel₀ (Real.exp_pos _).ne', one_mul]
    rw [this]
    exact ((continuous_gaussPrecPdf m H).measurable).const_mul _
  have e : gaussPrec m H
      = (volume : Measure (Fin n → ℝ)).withDensity (fun x => ENNReal.ofReal (c * Real.exp (-(1 / 2) * obj x))) := by
    unfold gaussPrec; congr 1; funext x; rw [hpdf x]
  rw [e] at hp ⊢
  exact withDensity_normalize volume _ c (Real.exp_pos _).le hfm hp

/-- model form of the previous lemma -/
lemma gaussPrec_model_eq_normalized (N n : ℕ) (M : Mat ℝ) (m : Vec ℝ)
    (hp : IsProbabilityMeasure (gaussPrec (toV n m) (toM n n (gram N M)))) (obj : Vec ℝ → ℝ)
    (hobj : ∀ x, obj x = quad n (gram N M) (fun j => x j - m j) + obj m) :
    gaussPrec (toV n m) (toM n n (gram N M))
      = (∫⁻ x : Fin n → ℝ, ENNReal.ofReal (Real.exp (-(1 / 2) * obj (ofFin x))))⁻¹ •
          (volume : Measure (Fin n → ℝ)).withDensity
            (fun x => ENNReal.ofReal (Real.exp (-(1 / 2) * obj (ofFin x)))) := by
  refine gaussPrec_eq_normalized _ _ hp (fun x => obj (ofFin x)) (obj m) fun x => ?_
  rw [hobj (ofFin x), quad_eq]
  congr 2 <;> (rw [toV_sub, toV_ofFin])

/-- the model-level `N(C Mᵀ b, (MᵀM)⁻¹)` is a probability measure -/
lemma gaussPrec_model_isProbability (N n : ℕ) (M C : Mat ℝ) (hC : IsInv n (gram N M) C) (m : Fin n → ℝ) :
    IsProbabilityMeasure (gaussPrec m (toM n n (gram N M))) := by
  rw [isInv_iff, toM_gram] at hC
  rw [toM_gram]
  exact gaussPrec_isProbability_of (toM N n M) (toM n n C) m hC.1

/-- a model-level solution map of the perturbed normal equations is affine in the perturbation -/
lemma model_step_affine (N n : ℕ) (M C : Mat ℝ) (b : Vec ℝ) (hC : IsInv n (gram N M) C)
    (step : (Fin N → ℝ) → Vec ℝ)
    (hstep : ∀ e, NormalEq N n M (fun i => b i + ofFin e i) (step e)) :
    (fun e : Fin N → ℝ => toV n (step e))
      = fun e => toM n n C *ᵥ ((toM N n M)ᵀ *ᵥ toV N b) + (toM n n C * (toM N n M)ᵀ) *ᵥ e := by
  rw [isInv_iff, toM_gram] at hC
  refine lsq_step_affine (toM N n M) (toM n n C) (toV N b) _ hC.2 fun e => ?_
  have := (normalEq_iff N n M _ _).mp (hstep e)
  rwa [toV_add, toV_ofFin] at this

lemma measurable_rect_affine {N n : ℕ} (m : Fin n → ℝ) (B : Matrix (Fin n) (Fin N) ℝ) :
    Measurable fun e : Fin N → ℝ => m + B *ᵥ e :=
  (continuous_const.add (Continuous.matrix_mulVec continuous_const continuous_id)).measurable

end C

end CuqiVerif.C06
