import CuqiVerif.Model.C01
import Mathlib.Algebra.BigOperators.Group.List.Basic
import Mathlib.Data.List.Perm.Subperm
import Mathlib.Tactic.Ring

/-!
# C01 — helper lemmas

`st σ F` is the canonical state of the factor `F` after the assignment `σ` (an ordered keyword
list) has been passed to a joint distribution containing it.  The lemmas show that the
transcribed conditioning code moves from `st σ₁ F` to `st (σ₁ ++ σ₂) F` and that the transcribed
evaluation code returns `F.f (kwGet (σ ++ τ))` on `st σ F`.
-/
namespace CuqiVerif.C01

variable {V K : Type}

/-! ### keyword lists -/

lemma kwGet_append (a b : Kw V) (n : Name) :
    kwGet (a ++ b) n = match kwGet a n with | some v => some v | none => kwGet b n := by
  induction a with
  | nil => simp [kwGet]
  | cons kv r ih =>
    obtain ⟨k, v⟩ := kv
    simp only [List.cons_append, kwGet]
    split_ifs <;> simp [ih]

lemma restrict_eq (kw : Kw V) (names : List Name) :
    restrict kw names = kw.filter (fun kv => decide (kv.1 ∈ names)) := by
  simp [restrict]

lemma kwGet_restrict (kw : Kw V) (names : List Name) (n : Name) :
    kwGet (restrict kw names) n = if n ∈ names then kwGet kw n else none := by
  rw [restrict_eq]
  induction kw with
  | nil => simp [kwGet]
  | cons kv r ih =>
    obtain ⟨k, v⟩ := kv
    simp only [List.filter_cons]
    by_cases hk : k ∈ names
    · simp only [hk, decide_true, if_true, kwGet]
      by_cases hkn : k = n
      · subst hkn; simp [hk]
      · simp [hkn, ih]
    · simp only [hk, decide_false, kwGet]
      by_cases hkn : k = n
      · subst hkn; simp [hk, ih]
      · simp [hkn, ih]

lemma kwGet_eq_none_iff (kw : Kw V) (n : Name) : kwGet kw n = none ↔ n ∉ kwKeys kw := by
  induction kw with
  | nil => simp [kwGet, kwKeys]
  | cons kv r ih =>
    obtain ⟨k, v⟩ := kv
    simp only [kwGet, kwKeys, List.map_cons, List.mem_cons, not_or] at ih ⊢
    by_cases hkn : k = n
    · subst hkn; simp
    · simp [hkn, ih, Ne.symm hkn]

lemma kwGet_isSome_iff (kw : Kw V) (n : Name) : (kwGet kw n).isSome ↔ n ∈ kwKeys kw := by
  rw [← not_iff_not, ← kwGet_eq_none_iff]; cases kwGet kw n <;> simp

lemma kwKeys_restrict_subset (kw : Kw V) (names : List Name) : ∀ k ∈ kwKeys (restrict kw names), k ∈ names := by
  intro k hk
  simp only [kwKeys, restrict, List.mem_map, List.mem_filter, List.contains_iff_mem] at hk
  obtain ⟨kv, ⟨_, h⟩, rfl⟩ := hk
  simpa using h

lemma mem_kwKeys_restrict (kw : Kw V) (names : List Name) (k : Name) :
    k ∈ kwKeys (restrict kw names) ↔ k ∈ kwKeys kw ∧ k ∈ names := by
  simp only [kwKeys, restrict, List.mem_map, List.mem_filter, List.contains_iff_mem]
  constructor
  · rintro ⟨kv, ⟨h1, h2⟩, rfl⟩; exact ⟨⟨kv, h1, rfl⟩, by simpa using h2⟩
  · rintro ⟨⟨kv, h1, rfl⟩, h2⟩; exact ⟨kv, ⟨h1, by simpa using h2⟩, rfl⟩


/-! ### canonical state of a factor under an assignment -/

/-- side conditions on one factor: it does not condition on itself, no name is the reserved
    `_main_parameter`, and its log-density reads only its own variable and its conditioning variables -/
structure FOK (F : Factor V K) : Prop where
  noself : F.name ∉ F.params
  nomain : mainKey ∉ F.name :: F.params
  loc : ∀ ρ ρ' : Name → Option V, (∀ n ∈ F.name :: F.params, ρ n = ρ' n) → F.f ρ = F.f ρ'

/-- values the assignment `σ` gives to the conditioning variables of `F` -/
def penv (F : Factor V K) (σ : Kw V) : Name → Option V :=
  fun n => if n ∈ F.params then kwGet σ n else none

section
variable [AddCommMonoid K]

/-- the density object that stands for `F` in a joint after the assignment `σ` -/
def st (σ : Kw V) (F : Factor V K) : Dens V K :=
  match kwGet σ F.name with
  | none => .dist F (penv F σ) 0
  | some d => toLik F (penv F σ) 0 d

lemma free_penv (F : Factor V K) (σ : Kw V) :
    free F (penv F σ) = F.params.filter (fun p => decide (p ∉ kwKeys σ)) := by
  unfold free penv
  apply List.filter_congr
  intro p hp
  simp only [hp, if_true]
  have := kwGet_eq_none_iff σ p
  cases h : kwGet σ p <;> simp_all

lemma mem_free_penv (F : Factor V K) (σ : Kw V) (n : Name) :
    n ∈ free F (penv F σ) ↔ n ∈ F.params ∧ n ∉ kwKeys σ := by
  rw [free_penv]; simp

lemma st_fresh (F : Factor V K) : st [] F = fresh F := by
  have : penv F [] = fun _ => none := by funext n; simp [penv, kwGet]
  simp [st, kwGet, fresh, this]

/-- binding the free conditioning variables of `st σ₁ F` with the keywords of `σ₂` that the
    density accepts gives the environment of `st (σ₁ ++ σ₂) F` -/
lemma bindEnv_penv (F : Factor V K) (σ₁ σ₂ : Kw V) (extra : List Name) :
    bindEnv (penv F σ₁) (free F (penv F σ₁)) (restrict σ₂ (free F (penv F σ₁) ++ extra))
      = penv F (σ₁ ++ σ₂) := by
  funext n
  simp only [bindEnv, List.contains_iff_mem, mem_free_penv, penv, kwGet_restrict, List.mem_append,
    kwGet_append]
  by_cases hp : n ∈ F.params
  · by_cases hk : n ∈ kwKeys σ₁
    · have : (kwGet σ₁ n).isSome := (kwGet_isSome_iff σ₁ n).2 hk
      cases h : kwGet σ₁ n <;> simp_all
    · have := (kwGet_eq_none_iff σ₁ n).2 hk
      simp [hp, hk, this]
  · simp [hp]


lemma parseDist_nil (cv : List Name) (kw : Kw V) : parseDist cv ([] : List V) kw = .ok kw := by
  simp [parseDist]

lemma kwGet_restrict_main (F : Factor V K) (hF : FOK F) (σ₁ σ₂ : Kw V) (extra : List Name)
    (hex : ∀ e ∈ extra, e = F.name) :
    kwGet (restrict σ₂ (free F (penv F σ₁) ++ extra)) mainKey = none := by
  rw [kwGet_restrict]
  have : mainKey ∉ free F (penv F σ₁) ++ extra := by
    intro h
    rcases List.mem_append.1 h with h | h
    · exact hF.nomain (List.mem_cons_of_mem _ ((mem_free_penv F σ₁ _).1 h).1)
    · exact hF.nomain (by rw [hex _ h]; exact List.mem_cons_self)
  simp [this]

/-- the keywords a density does not consume as conditioning variables -/
lemma unused_isEmpty (F : Factor V K) (hF : FOK F) (σ₁ σ₂ : Kw V) (extra : List Name)
    (hex : ∀ e ∈ extra, e = F.name) :
    ((restrict σ₂ (free F (penv F σ₁) ++ extra)).filter
        (fun kv => !(free F (penv F σ₁)).contains kv.1)).isEmpty
      = (kwGet (restrict σ₂ (free F (penv F σ₁) ++ extra)) F.name).isNone := by
  have hname : F.name ∉ free F (penv F σ₁) := fun h => hF.noself ((mem_free_penv F σ₁ _).1 h).1
  set kw := restrict σ₂ (free F (penv F σ₁) ++ extra) with hkw
  have hsub : ∀ k ∈ kwKeys kw, k ∈ free F (penv F σ₁) ∨ k = F.name := by
    intro k hk
    rcases List.mem_append.1 (kwKeys_restrict_subset _ _ k hk) with h | h
    · exact Or.inl h
    · exact Or.inr (hex _ h)
  rw [Bool.eq_iff_iff]
  simp only [List.isEmpty_iff, List.filter_eq_nil_iff, Option.isNone_iff_eq_none, kwGet_eq_none_iff]
  constructor
  · intro h hmem
    obtain ⟨kv, hkv, hk⟩ := List.mem_map.1 hmem
    have := h kv hkv
    simp only [Bool.not_eq_true', hk] at this
    exact hname (by simpa [hk] using this)
  · intro h kv hkv
    have hk : kv.1 ∈ kwKeys kw := List.mem_map.2 ⟨kv, hkv, rfl⟩
    rcases hsub _ hk with h1 | h1
    · simp [h1]
    · exact absurd (h1 ▸ hk) h

/-- **Conditioning composes (density level).**  Passing `σ₂` to the object that stands for `F`
    after `σ₁` gives the object that stands for `F` after `σ₁ ++ σ₂` — for a distribution, a
    likelihood and an evaluated density alike.  Keys of `σ₂` that the object no longer has as
    parameters are the ones the joint filters away. -/
lemma condDens_st (F : Factor V K) (hF : FOK F) (σ₁ σ₂ : Kw V) :
    condDens (st σ₁ F) [] (restrict σ₂ (st σ₁ F).paramNames) = .ok (st (σ₁ ++ σ₂) F) := by
  have hname : F.name ∉ free F (penv F σ₁) := fun h => hF.noself ((mem_free_penv F σ₁ _).1 h).1
  cases h1 : kwGet σ₁ F.name with
  | none =>
    -- a distribution
    have hst : st σ₁ F = .dist F (penv F σ₁) 0 := by simp [st, h1]
    rw [hst]
    simp only [Dens.paramNames, condDens, condDist, parseDist_nil]
    have hex : ∀ e ∈ [F.name], e = F.name := by simp
    rw [kwGet_restrict_main F hF σ₁ σ₂ _ hex, unused_isEmpty F hF σ₁ σ₂ _ hex, bindEnv_penv]
    have hget : kwGet (restrict σ₂ (free F (penv F σ₁) ++ [F.name])) F.name = kwGet σ₂ F.name := by
      rw [kwGet_restrict]; simp
    rw [hget]
    have h12 : kwGet (σ₁ ++ σ₂) F.name = kwGet σ₂ F.name := by rw [kwGet_append, h1]
    cases h2 : kwGet σ₂ F.name with
    | none => simp [st, h12, h2]
    | some d => simp [st, h12, h2]
  | some d =>
    have h12 : kwGet (σ₁ ++ σ₂) F.name = some d := by rw [kwGet_append, h1]
    by_cases hfree : (free F (penv F σ₁)).isEmpty
    · -- already an evaluated density
      have hst : st σ₁ F = .eval (some F.name) (F.f (envWith (penv F σ₁) F.name d) + 0) 0 := by
        simp [st, h1, toLik, hfree]
      have henv : penv F (σ₁ ++ σ₂) = penv F σ₁ := by
        funext n
        simp only [penv, kwGet_append]
        by_cases hp : n ∈ F.params
        · have : n ∈ kwKeys σ₁ := by
            by_contra hn
            have : n ∈ free F (penv F σ₁) := (mem_free_penv F σ₁ n).2 ⟨hp, hn⟩
            simp [List.isEmpty_iff.1 hfree] at this
          have := (kwGet_isSome_iff σ₁ n).2 this
          cases h : kwGet σ₁ n <;> simp_all
        · simp [hp]
      rw [hst]
      simp [condDens, st, h12, toLik, henv, hfree]
    · -- a likelihood
      have hst : st σ₁ F = .lik F (penv F σ₁) d 0 := by simp [st, h1, toLik, hfree]
      rw [hst]
      simp only [Dens.paramNames, condDens, condLik, condDist, parseDist_nil]
      have hex : ∀ e ∈ ([] : List Name), e = F.name := by simp
      have hm := kwGet_restrict_main F hF σ₁ σ₂ [] hex
      have hu := unused_isEmpty F hF σ₁ σ₂ [] hex
      have hb := bindEnv_penv F σ₁ σ₂ []
      simp only [List.append_nil] at hm hu hb
      rw [hm, hu, hb]
      have hget : kwGet (restrict σ₂ (free F (penv F σ₁))) F.name = none := by
        rw [kwGet_restrict]; simp [hname]
      simp [hget, st, h12]


/-! ### evaluation of the canonical state -/

lemma penv_append_of_free_empty (F : Factor V K) (σ τ : Kw V) (hfree : free F (penv F σ) = []) :
    penv F (σ ++ τ) = penv F σ := by
  funext n
  simp only [penv, kwGet_append]
  by_cases hp : n ∈ F.params
  · have : n ∈ kwKeys σ := by
      by_contra hn
      have : n ∈ free F (penv F σ) := (mem_free_penv F σ n).2 ⟨hp, hn⟩
      simp [hfree] at this
    have := (kwGet_isSome_iff σ n).2 this
    cases h : kwGet σ n <;> simp_all
  · simp [hp]

omit [AddCommMonoid K] in
/-- the factor reads its environment only at its own name and its conditioning variables -/
lemma f_env (F : Factor V K) (hF : FOK F) (ρ : Kw V) (x : V) (hx : kwGet ρ F.name = some x) :
    F.f (envWith (penv F ρ) F.name x) = F.f (kwGet ρ) := by
  apply hF.loc
  intro n hn
  rcases List.mem_cons.1 hn with rfl | hn
  · simp [envWith, hx]
  · have : n ≠ F.name := fun h => hF.noself (h ▸ hn)
    simp [envWith, this, penv, hn]

omit [AddCommMonoid K] in
/-- `Density.logd`'s keyword front end for a single parameter name -/
lemma front_single (n : Name) (kw : Kw V) (x : V) (hne : kw ≠ []) (hall : ∀ k ∈ kwKeys kw, k = n)
    (hx : kwGet kw n = some x) : front [n] ([] : List V) kw = .ok [x] := by
  have h1 : kw.isEmpty = false := by cases kw <;> simp_all
  have hmem : n ∈ kwKeys kw := (kwGet_isSome_iff kw n).1 (by simp [hx])
  have h2 : setEq [n] (kwKeys kw) = true := by
    simp only [setEq, List.all_cons, List.all_nil, Bool.and_true, Bool.and_eq_true, List.contains_iff_mem,
      List.all_eq_true, List.mem_singleton]
    exact ⟨hmem, hall⟩
  simp [front, h1, h2, hx]

omit [AddCommMonoid K] in
lemma bindEnv_congr (env : Name → Option V) (cv : List Name) (kw kw' : Kw V)
    (h : ∀ n ∈ cv, kwGet kw n = kwGet kw' n) : bindEnv env cv kw = bindEnv env cv kw' := by
  funext n
  simp only [bindEnv, List.contains_iff_mem]
  by_cases hn : n ∈ cv <;> simp [hn, h]

omit [AddCommMonoid K] in
lemma kwGet_zip_filterMap (cv : List Name) (g : Name → Option V) (hall : ∀ p ∈ cv, (g p).isSome)
    (n : Name) (hn : n ∈ cv) : kwGet (cv.zip (cv.filterMap g)) n = g n := by
  induction cv with
  | nil => simp at hn
  | cons c r ih =>
    have hc := hall c List.mem_cons_self
    obtain ⟨v, hv⟩ := Option.isSome_iff_exists.1 hc
    simp only [List.filterMap_cons, hv, List.zip_cons_cons, kwGet]
    by_cases hcn : c = n
    · simp [hcn, ← hv]
    · simp only [hcn, if_false]
      exact ih (fun p hp => hall p (List.mem_cons_of_mem _ hp)) (by simpa [Ne.symm hcn] using hn)

omit [AddCommMonoid K] in
lemma length_filterMap_all (cv : List Name) (g : Name → Option V) (hall : ∀ p ∈ cv, (g p).isSome) :
    (cv.filterMap g).length = cv.length := by
  induction cv with
  | nil => simp
  | cons c r ih =>
    obtain ⟨v, hv⟩ := Option.isSome_iff_exists.1 (hall c List.mem_cons_self)
    simp [hv, ih (fun p hp => hall p (List.mem_cons_of_mem _ hp))]

omit [AddCommMonoid K] in
lemma kwKeys_zip_subset (cv : List Name) (a : List V) : ∀ k ∈ kwKeys (cv.zip a), k ∈ cv := by
  intro k hk
  simp only [kwKeys, List.mem_map] at hk
  obtain ⟨kv, h, rfl⟩ := hk
  exact (List.of_mem_zip h).1


omit [AddCommMonoid K] in
lemma kwKeys_append (a b : Kw V) : kwKeys (a ++ b) = kwKeys a ++ kwKeys b := by simp [kwKeys]

/-- `Distribution._condition(*a)` with exactly one positional argument per conditioning variable -/
lemma condDist_pos (F : Factor V K) (env : Name → Option V) (c : K) (a : List V)
    (hal : a.length = (free F env).length) (hmain : mainKey ∉ free F env) :
    condDist F env c a [] = .ok (.dist F (bindEnv env (free F env) ((free F env).zip a)) c) := by
  unfold condDist
  generalize free F env = cv at *
  have hzip : (cv ++ [mainKey]).zip a = cv.zip a := by
    have := List.zip_append (l₁ := cv) (r₁ := [mainKey]) (l₂ := a) (r₂ := []) hal.symm
    simpa using this
  have hparse : parseDist cv a ([] : Kw V) = .ok (cv.zip a) := by
    simp [parseDist, hal, hzip, kwKeys]
  have hmz : kwGet (cv.zip a) mainKey = none := by
    rw [kwGet_eq_none_iff]; exact fun h => hmain (kwKeys_zip_subset cv a _ h)
  have hfz : (List.filter (fun kv => !cv.contains kv.1) (cv.zip a)).isEmpty = true := by
    simp only [List.isEmpty_iff, List.filter_eq_nil_iff]
    intro kv hkv; simpa using (List.of_mem_zip hkv).1
  simp only [hparse, hmz, hfz, if_true]

/-- `Distribution.logd(x)` of a distribution without conditioning variables -/
lemma logdDist_plain (F : Factor V K) (env : Name → Option V) (c : K) (x : V) (h : free F env = []) :
    logdDist F env c [x] [] = .ok (F.f (envWith env F.name x) + c) := by
  simp [logdDist, h, logdPlain, front]

/-- `Distribution.logd(**kw)` of a conditional distribution whose conditioning variables and own
    name are all given by keyword -/
lemma logdDist_kwargs (F : Factor V K) (env : Name → Option V) (c : K) (kw : Kw V) (x : V)
    (hne : free F env ≠ []) (hlen : (free F env).length + 1 ≤ kw.length)
    (hall : ∀ p ∈ free F env, p ∈ kwKeys kw) (hm : kwGet kw mainKey = none)
    (hfil : front [F.name] ([] : List V) (kw.filter (fun kv => !(free F env).contains kv.1)) = .ok [x]) :
    logdDist F env c [] kw = .ok (F.f (envWith (bindEnv env (free F env) kw) F.name x) + c) := by
  unfold logdDist
  generalize free F env = cv at *
  have h0 : cv.isEmpty = false := by cases cv <;> simp_all
  have hl : ¬ kw.length < cv.length + 1 := by omega
  have ha : cv.all (fun p => (kwKeys kw).contains p) = true := by
    simpa [List.all_eq_true] using hall
  simp only [h0, Bool.false_eq_true, if_false, parseDist_nil, hl, ha, Bool.not_true, hm, logdPlain, hfil]

/-- **Evaluation of the canonical state.**  If `τ` names every parameter the object still has,
    the object that stands for `F` after `σ` evaluates (through the joint's keyword filter) to the
    original factor's log-density at the combined assignment. -/
lemma logdDens_st (F : Factor V K) (hF : FOK F) (hpn : F.params.Nodup) (σ τ : Kw V)
    (hτ : ∀ p ∈ (st σ F).paramNames, p ∈ kwKeys τ) :
    logdDens (st σ F) [] (restrict τ (st σ F).paramNames) = .ok (F.f (kwGet (σ ++ τ))) := by
  have hname : F.name ∉ free F (penv F σ) := fun h => hF.noself ((mem_free_penv F σ _).1 h).1
  have hmain : mainKey ∉ free F (penv F σ) := fun h =>
    hF.nomain (List.mem_cons_of_mem _ ((mem_free_penv F σ _).1 h).1)
  cases h1 : kwGet σ F.name with
  | none =>
    have hst : st σ F = .dist F (penv F σ) 0 := by simp [st, h1]
    rw [hst] at hτ ⊢
    simp only [Dens.paramNames] at hτ ⊢
    have hnτ : F.name ∈ kwKeys τ := hτ _ (by simp)
    obtain ⟨x, hx⟩ := Option.isSome_iff_exists.1 ((kwGet_isSome_iff τ F.name).2 hnτ)
    have hxx : kwGet (σ ++ τ) F.name = some x := by rw [kwGet_append, h1]; exact hx
    have hex : ∀ e ∈ [F.name], e = F.name := by simp
    have hu := unused_isEmpty F hF σ τ [F.name] hex
    have hb := bindEnv_penv F σ τ [F.name]
    have hm := kwGet_restrict_main F hF σ τ [F.name] hex
    simp only [logdDens]
    generalize hcv : free F (penv F σ) = cv at *
    generalize hkw : restrict τ (cv ++ [F.name]) = kw at *
    have hkx : kwGet kw F.name = some x := by rw [← hkw, kwGet_restrict]; simp [hx]
    have hksub : ∀ k ∈ kwKeys kw, k ∈ cv ++ [F.name] := by
      intro k hk; rw [← hkw] at hk; exact kwKeys_restrict_subset τ _ _ hk
    -- the keywords left after removing the conditioning variables: only the own name
    have hfil_ne : kw.filter (fun kv => !cv.contains kv.1) ≠ [] := by
      intro h
      have : (kw.filter (fun kv => !cv.contains kv.1)).isEmpty = true := by rw [h]; rfl
      rw [hu, hkx] at this; simp at this
    have hfil_keys : ∀ k ∈ kwKeys (kw.filter (fun kv => !cv.contains kv.1)), k = F.name := by
      intro k hk
      simp only [kwKeys, List.mem_map, List.mem_filter] at hk
      obtain ⟨kv, ⟨hkv, hnc⟩, rfl⟩ := hk
      have : kv.1 ∈ cv ++ [F.name] := hksub _ (List.mem_map.2 ⟨kv, hkv, rfl⟩)
      rcases List.mem_append.1 this with h | h
      · simp [h] at hnc
      · simpa using h
    have hfil_get : kwGet (kw.filter (fun kv => !cv.contains kv.1)) F.name = some x := by
      have : kw.filter (fun kv => !cv.contains kv.1) = restrict kw (kwKeys kw |>.filter (fun k => !cv.contains k)) := by
        simp only [restrict]
        apply List.filter_congr
        intro kv hkv
        have : kv.1 ∈ kwKeys kw := List.mem_map.2 ⟨kv, hkv, rfl⟩
        simp [this]
      rw [this, kwGet_restrict]
      have hmem : F.name ∈ (kwKeys kw).filter (fun k => !cv.contains k) := by
        rw [List.mem_filter]
        exact ⟨(kwGet_isSome_iff kw F.name).1 (by simp [hkx]), by simpa using hname⟩
      rw [if_pos hmem]; exact hkx
    by_cases hfree : cv = []
    · -- no conditioning variables left: `Density.logd`
      have henv : penv F (σ ++ τ) = penv F σ := penv_append_of_free_empty F σ τ (by rw [hcv]; exact hfree)
      have hkne : kw ≠ [] := by intro h; rw [h] at hkx; simp [kwGet] at hkx
      have hkall : ∀ k ∈ kwKeys kw, k = F.name := by
        intro k hk; simpa [hfree] using hksub k hk
      simp only [logdDist, hcv, hfree, List.isEmpty_nil, if_true, logdPlain,
        front_single F.name kw x hkne hkall hkx]
      rw [← henv, f_env F hF (σ ++ τ) x hxx]; simp
    · -- conditioning variables are given by keyword together with the own name
      have hlen : cv.length + 1 ≤ kw.length := by
        have hnd : (cv ++ [F.name]).Nodup := by
          rw [List.nodup_append]
          refine ⟨?_, by simp, ?_⟩
          · rw [← hcv, free]; exact hpn.filter _
          · intro a ha b hb; simp at hb; subst hb; exact fun h => hname (h ▸ ha)
        have hsub : cv ++ [F.name] ⊆ kwKeys kw := by
          intro k hk
          rw [← hkw, mem_kwKeys_restrict]
          exact ⟨hτ _ hk, hk⟩
        have := (List.subperm_of_subset hnd hsub).length_le
        simp [kwKeys] at this
        omega
      have hall : ∀ p ∈ cv, p ∈ kwKeys kw := by
        intro p hp
        rw [← hkw, mem_kwKeys_restrict]
        exact ⟨hτ _ (List.mem_append_left _ hp), List.mem_append_left _ hp⟩
      have := logdDist_kwargs F (penv F σ) 0 kw x (by rw [hcv]; exact hfree) (by rw [hcv]; exact hlen)
        (by rw [hcv]; exact hall) hm (by rw [hcv]; exact front_single F.name _ x hfil_ne hfil_keys hfil_get)
      rw [this, hcv, hb, f_env F hF (σ ++ τ) x hxx]; simp
  | some d =>
    have hxx : kwGet (σ ++ τ) F.name = some d := by rw [kwGet_append, h1]
    by_cases hfree : (free F (penv F σ)).isEmpty
    · have hst : st σ F = .eval (some F.name) (F.f (envWith (penv F σ) F.name d) + 0) 0 := by
        simp [st, h1, toLik, hfree]
      have henv : penv F (σ ++ τ) = penv F σ := penv_append_of_free_empty F σ τ (List.isEmpty_iff.1 hfree)
      rw [hst]
      simp only [Dens.paramNames, restrict, List.contains_nil, List.filter_false, logdDens, logdEval, front,
        List.isEmpty_nil, if_true]
      rw [← henv, f_env F hF (σ ++ τ) d hxx]; simp
    · have hst : st σ F = .lik F (penv F σ) d 0 := by simp [st, h1, toLik, hfree]
      rw [hst] at hτ ⊢
      simp only [Dens.paramNames] at hτ ⊢
      have hb := bindEnv_penv F σ τ []
      simp only [List.append_nil] at hb
      have hfree' : free F (penv F (σ ++ τ)) = [] := by
        rw [List.eq_nil_iff_forall_not_mem]
        intro n hn
        have h2 := (mem_free_penv F (σ ++ τ) n).1 hn
        rw [kwKeys_append, List.mem_append, not_or] at h2
        exact h2.2.2 (hτ n ((mem_free_penv F σ n).2 ⟨h2.1, h2.2.1⟩))
      have hcvne : free F (penv F σ) ≠ [] := fun h => hfree (by simp [h])
      have hsome : ∀ p ∈ free F (penv F σ), (kwGet (restrict τ (free F (penv F σ))) p).isSome := by
        intro p hp
        rw [kwGet_isSome_iff, mem_kwKeys_restrict]; exact ⟨hτ p hp, hp⟩
      have hkne : (restrict τ (free F (penv F σ))).isEmpty = false := by
        obtain ⟨p, hp⟩ := List.exists_mem_of_ne_nil _ hcvne
        have := (kwGet_isSome_iff _ p).1 (hsome p hp)
        cases hk : restrict τ (free F (penv F σ)) with
        | nil => simp [hk, kwKeys] at this
        | cons _ _ => simp
      have hset : setEq (free F (penv F σ)) (kwKeys (restrict τ (free F (penv F σ)))) = true := by
        simp only [setEq, Bool.and_eq_true, List.all_eq_true, List.contains_iff_mem]
        exact ⟨fun p hp => (kwGet_isSome_iff _ p).1 (hsome p hp), fun k hk => kwKeys_restrict_subset τ _ k hk⟩
      have hal := length_filterMap_all _ _ hsome
      have hbz : bindEnv (penv F σ) (free F (penv F σ))
          ((free F (penv F σ)).zip ((free F (penv F σ)).filterMap (kwGet (restrict τ (free F (penv F σ))))))
          = penv F (σ ++ τ) := by
        rw [← hb]
        apply bindEnv_congr
        intro n hn
        rw [kwGet_zip_filterMap _ _ hsome n hn]
      simp only [logdDens, front, hkne, hset, List.isEmpty_nil, Bool.not_true, Bool.false_eq_true, if_false,
        condDist_pos F (penv F σ) 0 _ hal hmain, hbz, logdDist_plain F _ 0 d hfree']
      rw [f_env F hF (σ ++ τ) d hxx]; simp

end

end CuqiVerif.C01
