import CuqiVerif.Model.C05_mhn
import Mathlib.Data.List.Basic
import Mathlib.Data.Rat.Defs
import Mathlib.Order.Basic
/-
  helper lemmas for `Props/C05_mhn.lean`
-/
namespace CuqiVerif.C05
namespace MhnRun

variable {τ υ χ σ ε : Type}

lemma rejLoop_some_iff' (point : τ → χ) (accept : τ → υ → Bool) (s : List (τ × υ)) (x : χ) (rest : List (τ × υ)) :
    rejLoop point accept s = some (x, rest) ↔
      ∃ pre t u, s = pre ++ (t, u) :: rest ∧ (∀ p ∈ pre, accept p.1 p.2 = false) ∧ accept t u = true ∧ x = point t := by
  induction s with
  | nil =>
    constructor
    · intro h; simp [rejLoop] at h
    · rintro ⟨pre, t, u, h, _⟩
      cases pre <;> simp at h
  | cons p s ih =>
    obtain ⟨t0, u0⟩ := p
    by_cases ha : accept t0 u0 = true
    · constructor
      · intro h
        simp only [rejLoop, ha, if_true, Option.some.injEq, Prod.mk.injEq] at h
        exact ⟨[], t0, u0, by simp [h.2], by simp, ha, h.1.symm⟩
      · rintro ⟨pre, t, u, hs, hrej, hacc, hx⟩
        cases pre with
        | nil =>
          simp only [List.nil_append, List.cons.injEq, Prod.mk.injEq] at hs
          obtain ⟨⟨rfl, rfl⟩, rfl⟩ := hs
          simp [rejLoop, ha, hx]
        | cons q pre =>
          simp only [List.cons_append, List.cons.injEq] at hs
          have := hrej q (by simp)
          rw [← hs.1] at this
          simp [ha] at this
    · have ha' : accept t0 u0 = false := by simpa using ha
      simp only [rejLoop, ha', Bool.false_eq_true, if_false]
      rw [ih]
      constructor
      · rintro ⟨pre, t, u, hs, hrej, hacc, hx⟩
        refine ⟨(t0, u0) :: pre, t, u, by simp [hs], ?_, hacc, hx⟩
        intro p hp
        rcases List.mem_cons.mp hp with rfl | hp
        · exact ha'
        · exact hrej p hp
      · rintro ⟨pre, t, u, hs, hrej, hacc, hx⟩
        cases pre with
        | nil =>
          simp only [List.nil_append, List.cons.injEq, Prod.mk.injEq] at hs
          obtain ⟨⟨rfl, rfl⟩, rfl⟩ := hs
          simp [ha'] at hacc
        | cons q pre =>
          simp only [List.cons_append, List.cons.injEq] at hs
          exact ⟨pre, t, u, hs.2, fun p hp => hrej p (by simp [hp]), hacc, hx⟩

lemma drawsFrom_length' (draw : ℕ → List σ → Except ε (χ × List σ)) (i n : ℕ) (s s' : List σ) (xs : List χ)
    (h : drawsFrom draw i n s = .ok (xs, s')) : xs.length = n := by
  induction n generalizing i s s' xs with
  | zero => simp only [drawsFrom, Except.ok.injEq, Prod.mk.injEq] at h; simp [← h.1]
  | succ n ih =>
    simp only [drawsFrom] at h
    cases hd : draw i s with
    | error e => simp [hd] at h
    | ok r =>
      obtain ⟨x, s1⟩ := r
      simp only [hd] at h
      cases hr : drawsFrom draw (i + 1) n s1 with
      | error e => simp [hr] at h
      | ok r2 =>
        obtain ⟨ys, s2⟩ := r2
        simp only [hr, Except.ok.injEq, Prod.mk.injEq] at h
        rw [← h.1]
        simp [ih (i + 1) s1 s2 ys hr]

lemma drawsFrom_add' (draw : ℕ → List σ → Except ε (χ × List σ)) (i n m : ℕ) (s : List σ) :
    drawsFrom draw i (n + m) s =
      match drawsFrom draw i n s with
      | .error e => .error e
      | .ok (xs, s') =>
        match drawsFrom draw (i + n) m s' with
        | .error e => .error e
        | .ok (ys, s'') => .ok (xs ++ ys, s'') := by
  induction n generalizing i s with
  | zero =>
    simp only [Nat.zero_add, drawsFrom, Nat.add_zero]
    cases drawsFrom draw i m s with
    | error e => rfl
    | ok r => obtain ⟨ys, s2⟩ := r; simp
  | succ n ih =>
    have e1 : n + 1 + m = (n + m) + 1 := by omega
    rw [e1]
    simp only [drawsFrom]
    cases hd : draw i s with
    | error e => simp
    | ok r =>
      obtain ⟨x, s1⟩ := r
      simp only []
      rw [ih (i + 1) s1]
      have e2 : i + 1 + n = i + (n + 1) := by omega
      rw [e2]
      cases h1 : drawsFrom draw (i + 1) n s1 with
      | error e => simp
      | ok r1 =>
        obtain ⟨xs, s2⟩ := r1
        simp only []
        cases h2 : drawsFrom draw (i + (n + 1)) m s2 with
        | error e => simp
        | ok r2 => obtain ⟨ys, s3⟩ := r2; simp

lemma drawsFrom_append' (draw : ℕ → List σ → Except ε (χ × List σ))
    (hdraw : ∀ i s x r s', draw i s = .ok (x, r) → draw i (s ++ s') = .ok (x, r ++ s'))
    (i n : ℕ) (s s' r : List σ) (xs : List χ) (h : drawsFrom draw i n s = .ok (xs, r)) :
    drawsFrom draw i n (s ++ s') = .ok (xs, r ++ s') := by
  induction n generalizing i s xs with
  | zero =>
    simp only [drawsFrom, Except.ok.injEq, Prod.mk.injEq] at h ⊢
    exact ⟨h.1, by rw [h.2]⟩
  | succ n ih =>
    simp only [drawsFrom] at h ⊢
    cases hd : draw i s with
    | error e => simp [hd] at h
    | ok q =>
      obtain ⟨x, s1⟩ := q
      simp only [hd] at h
      rw [hdraw i s x s1 s' hd]
      simp only []
      cases hr : drawsFrom draw (i + 1) n s1 with
      | error e => simp [hr] at h
      | ok r2 =>
        obtain ⟨ys, s2⟩ := r2
        simp only [hr, Except.ok.injEq, Prod.mk.injEq] at h
        rw [ih (i + 1) s1 ys (by rw [hr, h.2])]
        simp [h.1]

lemma Loop.run_append (A : Arith) (L : Loop) (s s' r : List (ℚ × ℚ)) (x : RExpr)
    (h : L.run A s = .ok (x, r)) : L.run A (s ++ s') = .ok (x, r ++ s') := by
  unfold Loop.run at h ⊢
  cases hl : rejLoop (fun t => L.point (RExpr.const t)) (L.accept A) s with
  | none => simp [hl] at h
  | some q =>
    obtain ⟨x1, r1⟩ := q
    simp only [hl, Except.ok.injEq, Prod.mk.injEq] at h
    have hl' : rejLoop (fun t => L.point (RExpr.const t)) (L.accept A) s = some (x, r) := by rw [hl, h.1, h.2]
    have : rejLoop (fun t => L.point (RExpr.const t)) (L.accept A) (s ++ s') = some (x, r ++ s') := by
      rw [rejLoop_some_iff'] at hl' ⊢
      obtain ⟨pre, t, u, hs, hrej, hacc, hx⟩ := hl'
      exact ⟨pre, t, u, by simp [hs], hrej, hacc, hx⟩
    simp [this]

lemma sampleDraw_append' (A : Arith) (a b c : PVal) (i : ℕ) (s s' r : List (ℚ × ℚ)) (x : RExpr)
    (h : sampleDraw A a b c i s = .ok (x, r)) : sampleDraw A a b c i (s ++ s') = .ok (x, r ++ s') := by
  unfold sampleDraw at h ⊢
  cases hp : paramsAt a b c i with
  | error e => simp [hp] at h
  | ok q =>
    obtain ⟨α, β, γ⟩ := q
    simp only [hp] at h ⊢
    unfold mhnSample1 at h ⊢
    cases hd : mhnDispatch A (RExpr.const α) (RExpr.const β) (RExpr.const γ) MArg.none with
    | error e => simp [hd] at h
    | ok L =>
      simp only [hd] at h ⊢
      exact Loop.run_append A L s s' r x h

lemma sampleDraw_pyfloat_index (A : Arith) (v : ℚ) (b c : PVal) (i j : ℕ) (s : List (ℚ × ℚ)) :
    sampleDraw A (.pyfloat v) b c i s = sampleDraw A (.pyfloat v) b c j s := rfl

lemma drawsFrom_congr_index (draw : ℕ → List σ → Except ε (χ × List σ)) (hd : ∀ i j s, draw i s = draw j s)
    (i j n : ℕ) (s : List σ) : drawsFrom draw i n s = drawsFrom draw j n s := by
  induction n generalizing i j s with
  | zero => rfl
  | succ n ih =>
    simp only [drawsFrom]
    rw [hd i j s]
    cases draw j s with
    | error e => rfl
    | ok q => obtain ⟨x, s1⟩ := q; simp only []; rw [ih (i + 1) (j + 1) s1]

lemma sampleN_add_pyfloat' (A : Arith) (v : ℚ) (b c : PVal) (N M : ℕ) (s : List (ℚ × ℚ)) :
    sampleN A (.pyfloat v) b c (N + M) s =
      match sampleN A (.pyfloat v) b c N s with
      | .error e => .error e
      | .ok (xs, s') =>
        match sampleN A (.pyfloat v) b c M s' with
        | .error e => .error e
        | .ok (ys, s'') => .ok (xs ++ ys, s'') := by
  unfold sampleN
  rw [drawsFrom_add']
  cases drawsFrom (sampleDraw A (.pyfloat v) b c) 0 N s with
  | error e => rfl
  | ok q =>
    obtain ⟨xs, s1⟩ := q
    simp only []
    rw [drawsFrom_congr_index _ (fun i j s => sampleDraw_pyfloat_index A v b c i j s) (0 + N) 0 M s1]
    cases drawsFrom (sampleDraw A (.pyfloat v) b c) 0 M s1 with
    | error e => rfl
    | ok q2 => obtain ⟨ys, s2⟩ := q2; rfl

lemma sampleDraw_seq_indexError (A : Arith) (vs : List ℚ) (b c : PVal) (i : ℕ) (h : vs.length ≤ i) (s : List (ℚ × ℚ)) :
    sampleDraw A (.seq vs) b c i s = .error .indexError := by
  have hn : vs[i]? = none := List.getElem?_eq_none h
  simp [sampleDraw, paramsAt, PVal.indexable, PVal.index, hn]

lemma sampleN_seq_raises' (A : Arith) (vs : List ℚ) (b c : PVal) (N : ℕ) (hN : vs.length < N)
    (s : List (ℚ × ℚ)) : ∃ e, sampleN A (.seq vs) b c N s = .error e := by
  obtain ⟨k, rfl⟩ : ∃ k, N = vs.length + (k + 1) := ⟨N - vs.length - 1, by omega⟩
  unfold sampleN
  rw [drawsFrom_add']
  cases drawsFrom (sampleDraw A (.seq vs) b c) 0 vs.length s with
  | error e => exact ⟨e, rfl⟩
  | ok q =>
    obtain ⟨xs, s1⟩ := q
    refine ⟨.indexError, ?_⟩
    simp only [drawsFrom]
    rw [sampleDraw_seq_indexError A vs b c (0 + vs.length) (by omega) s1]

/-- a comparison structure with undefined values (`nan`-like): exact rationals where `evalQ` succeeds, every
    comparison `false` otherwise — used to show that the hypothesis of `mhnDispatch_never_raises` is satisfiable -/
def floatArithLike : Arith :=
  ⟨fun a b => match RExpr.evalQ (fun _ => 0) a, RExpr.evalQ (fun _ => 0) b with
              | some x, some y => decide (x < y) | _, _ => false,
   fun a b => match RExpr.evalQ (fun _ => 0) a, RExpr.evalQ (fun _ => 0) b with
              | some x, some y => decide (x ≤ y) | _, _ => false⟩

lemma floatArithLike_law : ∀ a b, floatArithLike.lt a b = true → floatArithLike.le b a = false := by
  intro a b h
  simp only [floatArithLike] at h ⊢
  cases ha : RExpr.evalQ (fun _ => 0) a with
  | none => simp [ha] at h
  | some x =>
    cases hb : RExpr.evalQ (fun _ => 0) b with
    | none => simp [ha, hb] at h
    | some y =>
      simp only [ha, hb, decide_eq_true_eq] at h
      simp only [decide_eq_false_iff_not]
      exact Rat.not_le.mpr h

end MhnRun
end CuqiVerif.C05
