import CuqiVerif.Model.C10_weighted
import CuqiVerif.Proofs.C10
import Mathlib.Probability.Distributions.Gaussian.Real
import Mathlib.Analysis.SpecialFunctions.Pow.Real
import Mathlib.Analysis.SpecialFunctions.Sqrt

/-! helper lemmas for `Props/C10_weighted.lean` -/

open Finset Real ProbabilityTheory

namespace CuqiVerif.C10

lemma quadDiag_eq (n : ℕ) (w v : ℕ → ℚ) : quadDiag n w v = ∑ i ∈ range n, w i * v i ^ 2 := by
  unfold quadDiag; rw [sumTo_eq_sum]
  exact Finset.sum_congr rfl fun i _ => by rw [sq_eq]

lemma quadForm_eq (n : ℕ) (P : ℕ → ℕ → ℚ) (v : ℕ → ℚ) :
    quadForm n P v = ∑ i ∈ range n, v i * ∑ j ∈ range n, P i j * v j := by
  unfold quadForm; rw [sumTo_eq_sum]
  exact Finset.sum_congr rfl fun i _ => by rw [sumTo_eq_sum]

lemma quadDiag_nonneg (n : ℕ) (w v : ℕ → ℚ) (hw : ∀ i, 0 ≤ w i) : 0 ≤ quadDiag n w v := by
  rw [quadDiag_eq]; exact Finset.sum_nonneg fun i _ => mul_nonneg (hw i) (sq_nonneg _)

lemma allTo_iff (n : ℕ) (p : ℕ → Bool) : allTo n p = true ↔ ∀ i, i < n → p i = true := by
  simp [allTo, List.all_eq_true]

lemma isDiagonal_entry (n : ℕ) (P : ℕ → ℕ → ℚ) (h : isDiagonal n P = true) (i j : ℕ) (hi : i < n) (hj : j < n)
    (hij : i ≠ j) : P i j = 0 := by
  unfold isDiagonal at h
  rw [allTo_iff] at h
  have h2 := h i hi
  rw [allTo_iff] at h2
  have h3 := h2 j hj
  simpa [hij] using h3

/-- one component: `N(μ, 1/(w s))` at `x` -/
lemma gaussianPDFReal_precision (w μ x s : ℝ) (hw : 0 < w) (hs : 0 < s) :
    gaussianPDFReal μ (Real.toNNReal (1 / (w * s))) x
      = √(w / (2 * π)) * (s ^ ((1 : ℝ) / 2) * Real.exp (-(s * (w * (x - μ) ^ 2)) / 2)) := by
  have hv : (0 : ℝ) ≤ 1 / (w * s) := by positivity
  unfold gaussianPDFReal
  rw [Real.coe_toNNReal _ hv]
  have e1 : 2 * π * (1 / (w * s)) = (w / (2 * π) * s)⁻¹ := by
    field_simp
  have e2 : -(x - μ) ^ 2 / (2 * (1 / (w * s))) = -(s * (w * (x - μ) ^ 2)) / 2 := by
    field_simp
  rw [e1, e2, Real.sqrt_inv, inv_inv, Real.sqrt_mul (by positivity), ← Real.sqrt_eq_rpow]
  ring

lemma gaussDiag_likelihood_aux (n : ℕ) (w μ x : ℕ → ℝ) (s : ℝ) (hw : ∀ i, 0 < w i) (hs : 0 < s) :
    ∏ i ∈ range n, gaussianPDFReal (μ i) (Real.toNNReal (1 / (w i * s))) (x i)
      = (∏ i ∈ range n, √(w i / (2 * π))) *
          (s ^ ((n : ℝ) / 2) * Real.exp (-(s * ∑ i ∈ range n, w i * (x i - μ i) ^ 2) / 2)) := by
  induction n with
  | zero => simp
  | succ n ih =>
    rw [Finset.prod_range_succ, Finset.prod_range_succ, Finset.sum_range_succ, ih,
      gaussianPDFReal_precision _ _ _ _ (hw n) hs]
    have hpow : s ^ (((n + 1 : ℕ) : ℝ) / 2) = s ^ ((n : ℝ) / 2) * s ^ ((1 : ℝ) / 2) := by
      rw [← Real.rpow_add hs]; congr 1; push_cast; ring
    have hexp : Real.exp (-(s * (∑ i ∈ range n, w i * (x i - μ i) ^ 2 + w n * (x n - μ n) ^ 2)) / 2)
        = Real.exp (-(s * ∑ i ∈ range n, w i * (x i - μ i) ^ 2) / 2)
          * Real.exp (-(s * (w n * (x n - μ n) ^ 2)) / 2) := by
      rw [← Real.exp_add]; congr 1; ring
    rw [hpow, hexp]
    ring

end CuqiVerif.C10
