import CuqiVerif.Model.C06
import Mathlib.Algebra.BigOperators.Fin
import Mathlib.Algebra.BigOperators.Ring.Finset
import Mathlib.Algebra.BigOperators.Intervals
import Mathlib.Data.Matrix.Mul
import Mathlib.Tactic.Ring
import Mathlib.Tactic.Linarith
import Mathlib.Tactic.FieldSimp

/-!
# C06 — helper lemmas

All statements are about the executable definitions of `CuqiVerif/Model/C06.lean` instantiated at
an arbitrary field `K` (the driver runs `K = Rat`).  `toM`/`toV` view a model matrix / vector as a
Mathlib `Matrix (Fin m) (Fin n) K` / `Fin n → K`; the model's operations become the Mathlib ones.
-/
open Finset Matrix

set_option linter.unusedSectionVars false
set_option linter.unusedVariables false

namespace CuqiVerif.C06

variable {K : Type} [Field K]

/-! ## sums -/

lemma sumTo_eq_sum (n : ℕ) (f : ℕ → K) : sumTo n f = ∑ k ∈ range n, f k := by
  induction n with
  | zero => simp [sumTo]
  | succ n ih => simp [sumTo, ih, Finset.sum_range_succ]

lemma sumTo_eq_sum_fin (n : ℕ) (f : ℕ → K) : sumTo n f = ∑ k : Fin n, f k := by
  rw [sumTo_eq_sum, Fin.sum_univ_eq_sum_range]

lemma sumTo_add (a b : ℕ) (f : ℕ → K) : sumTo (a + b) f = sumTo a f + sumTo b (fun i => f (a + i)) := by
  simp only [sumTo_eq_sum]
  exact Finset.sum_range_add f a b

lemma sumTo_congr (n : ℕ) (f g : ℕ → K) (h : ∀ i, i < n → f i = g i) : sumTo n f = sumTo n g := by
  simp only [sumTo_eq_sum]
  exact Finset.sum_congr rfl fun i hi => h i (mem_range.mp hi)

lemma sumTo_add_distrib (n : ℕ) (f g : ℕ → K) : sumTo n (fun i => f i + g i) = sumTo n f + sumTo n g := by
  simp only [sumTo_eq_sum, Finset.sum_add_distrib]

lemma sumTo_mul_left (n : ℕ) (c : K) (f : ℕ → K) : sumTo n (fun i => c * f i) = c * sumTo n f := by
  simp only [sumTo_eq_sum, Finset.mul_sum]

lemma sumTo_zero (n : ℕ) : sumTo n (fun _ => (0 : K)) = 0 := by
  simp [sumTo_eq_sum]

lemma sumTo_comm (m n : ℕ) (f : ℕ → ℕ → K) :
    sumTo m (fun i => sumTo n (fun j => f i j)) = sumTo n (fun j => sumTo m (fun i => f i j)) := by
  simp only [sumTo_eq_sum]
  exact Finset.sum_comm

/-! ## the Mathlib view -/

def toM (m n : ℕ) (A : Mat K) : Matrix (Fin m) (Fin n) K := fun i j => A i j
def toV (n : ℕ) (x : Vec K) : Fin n → K := fun i => x i

lemma toV_ext_iff (n : ℕ) (x y : Vec K) : (∀ j, j < n → x j = y j) ↔ toV n x = toV n y := by
  constructor
  · intro h; funext i; exact h i i.isLt
  · intro h j hj; exact congrFun h ⟨j, hj⟩

lemma toM_ext_iff (m n : ℕ) (A B : Mat K) : (∀ i j, i < m → j < n → A i j = B i j) ↔ toM m n A = toM m n B := by
  constructor
  · intro h; funext i j; exact h i j i.isLt j.isLt
  · intro h i j hi hj; exact congrFun (congrFun h ⟨i, hi⟩) ⟨j, hj⟩

lemma toV_mulVec (m n : ℕ) (A : Mat K) (x : Vec K) : toV m (mulVec n A x) = toM m n A *ᵥ toV n x := by
  funext i
  simp [toV, toM, mulVec, Matrix.mulVec, dotProduct, sumTo_eq_sum_fin]

lemma toV_tmulVec (m n : ℕ) (A : Mat K) (y : Vec K) : toV n (tmulVec m A y) = (toM m n A)ᵀ *ᵥ toV m y := by
  funext j
  simp [toV, toM, tmulVec, Matrix.mulVec, dotProduct, sumTo_eq_sum_fin]

lemma toM_mul (m k n : ℕ) (A B : Mat K) : toM m n (mul k A B) = toM m k A * toM k n B := by
  funext i j
  simp [toM, mul, Matrix.mul_apply, sumTo_eq_sum_fin]

lemma toM_tr (m n : ℕ) (A : Mat K) : toM n m (tr A) = (toM m n A)ᵀ := rfl

lemma toM_gram (N n : ℕ) (M : Mat K) : toM n n (gram N M) = (toM N n M)ᵀ * toM N n M := by
  funext i j
  simp [toM, gram, Matrix.mul_apply, sumTo_eq_sum_fin]

lemma toM_ident (n : ℕ) : toM n n (ident : Mat K) = 1 := by
  funext i j
  simp [toM, ident, Matrix.one_apply, Fin.ext_iff]

lemma dot_eq (n : ℕ) (x y : Vec K) : dot n x y = toV n x ⬝ᵥ toV n y := by
  simp [dot, dotProduct, toV, sumTo_eq_sum_fin]

lemma toV_add (n : ℕ) (x y : Vec K) : toV n (fun i => x i + y i) = toV n x + toV n y := rfl
lemma toV_sub (n : ℕ) (x y : Vec K) : toV n (fun i => x i - y i) = toV n x - toV n y := rfl

/-- `C` is a two-sided inverse of `H` on the leading `n × n` block (the certificate the driver checks) -/
def IsInv (n : ℕ) (H C : Mat K) : Prop :=
  ∀ i j, i < n → j < n → mul n H C i j = ident i j ∧ mul n C H i j = ident i j

lemma isInv_iff (n : ℕ) (H C : Mat K) :
    IsInv n H C ↔ toM n n H * toM n n C = 1 ∧ toM n n C * toM n n H = 1 := by
  rw [← toM_mul, ← toM_mul, ← toM_ident, ← toM_ext_iff, ← toM_ext_iff]
  constructor
  · intro h; exact ⟨fun i j hi hj => (h i j hi hj).1, fun i j hi hj => (h i j hi hj).2⟩
  · intro h i j hi hj; exact ⟨h.1 i j hi hj, h.2 i j hi hj⟩

/-- `x` solves the normal equations `MᵀM x = Mᵀ y` (entries `< n`) -/
def NormalEq (N n : ℕ) (M : Mat K) (y x : Vec K) : Prop :=
  ∀ j, j < n → mulVec n (gram N M) x j = tmulVec N M y j

lemma normalEq_iff (N n : ℕ) (M : Mat K) (y x : Vec K) :
    NormalEq N n M y x ↔ ((toM N n M)ᵀ * toM N n M) *ᵥ toV n x = (toM N n M)ᵀ *ᵥ toV N y := by
  unfold NormalEq
  rw [toV_ext_iff, toV_mulVec n n, toM_gram, toV_tmulVec]

/-! ## layer 1: least squares with a certified inverse (Mathlib matrices) -/

section layer1
variable {N n : ℕ}

lemma mat_affine (M : Matrix (Fin N) (Fin n) K) (C : Matrix (Fin n) (Fin n) K) (b e : Fin N → K) (x : Fin n → K)
    (hC : C * (Mᵀ * M) = 1) (hx : (Mᵀ * M) *ᵥ x = Mᵀ *ᵥ (b + e)) :
    x = C *ᵥ (Mᵀ *ᵥ b) + (C * Mᵀ) *ᵥ e := by
  have h1 : x = C *ᵥ ((Mᵀ * M) *ᵥ x) := by rw [Matrix.mulVec_mulVec, hC, Matrix.one_mulVec]
  rw [h1, hx, Matrix.mulVec_add, Matrix.mulVec_add, Matrix.mulVec_mulVec, Matrix.mulVec_mulVec]

lemma mat_inv_symm (H C : Matrix (Fin n) (Fin n) K) (hH : Hᵀ = H) (h1 : H * C = 1) (h2 : C * H = 1) : Cᵀ = C := by
  have : Cᵀ * H = 1 := by
    have := congrArg Matrix.transpose h1
    rwa [Matrix.transpose_mul, hH, Matrix.transpose_one] at this
  calc Cᵀ = Cᵀ * (H * C) := by rw [h1, Matrix.mul_one]
    _ = (Cᵀ * H) * C := by rw [Matrix.mul_assoc]
    _ = C := by rw [this, Matrix.one_mul]

lemma mat_cov (M : Matrix (Fin N) (Fin n) K) (C : Matrix (Fin n) (Fin n) K)
    (h1 : (Mᵀ * M) * C = 1) (h2 : C * (Mᵀ * M) = 1) :
    (C * Mᵀ) * (C * Mᵀ)ᵀ = C := by
  have hs : Cᵀ = C := mat_inv_symm (Mᵀ * M) C (by rw [Matrix.transpose_mul, Matrix.transpose_transpose]) h1 h2
  rw [Matrix.transpose_mul, Matrix.transpose_transpose, hs]
  calc C * Mᵀ * (M * C) = C * ((Mᵀ * M) * C) := by simp only [Matrix.mul_assoc]
    _ = C := by rw [h1, Matrix.mul_one]

lemma mat_unique (H C : Matrix (Fin n) (Fin n) K) (g : Fin n → K) (x x' : Fin n → K)
    (h2 : C * H = 1) (hx : H *ᵥ x = g) (hx' : H *ᵥ x' = g) : x = x' := by
  have e1 : x = C *ᵥ (H *ᵥ x) := by rw [Matrix.mulVec_mulVec, h2, Matrix.one_mulVec]
  have e2 : x' = C *ᵥ (H *ᵥ x') := by rw [Matrix.mulVec_mulVec, h2, Matrix.one_mulVec]
  rw [e1, e2, hx, hx']

/-- `|Mx − b|² = (x−m)ᵀ MᵀM (x−m) + |Mm − b|²` whenever `MᵀM m = Mᵀ b` -/
lemma mat_complete_square (M : Matrix (Fin N) (Fin n) K) (b : Fin N → K) (m x : Fin n → K)
    (hm : (Mᵀ * M) *ᵥ m = Mᵀ *ᵥ b) :
    (M *ᵥ x - b) ⬝ᵥ (M *ᵥ x - b)
      = (x - m) ⬝ᵥ ((Mᵀ * M) *ᵥ (x - m)) + (M *ᵥ m - b) ⬝ᵥ (M *ᵥ m - b) := by
  have hsplit : M *ᵥ x - b = M *ᵥ (x - m) + (M *ᵥ m - b) := by
    rw [Matrix.mulVec_sub, sub_add_sub_cancel]
  have hcross : (M *ᵥ (x - m)) ⬝ᵥ (M *ᵥ m - b) = 0 := by
    have h0 : Mᵀ *ᵥ (M *ᵥ m - b) = 0 := by
      rw [Matrix.mulVec_sub, Matrix.mulVec_mulVec, hm, sub_self]
    rw [dotProduct_comm, Matrix.dotProduct_mulVec, ← Matrix.mulVec_transpose, h0, zero_dotProduct]
  have hquad : (M *ᵥ (x - m)) ⬝ᵥ (M *ᵥ (x - m)) = (x - m) ⬝ᵥ ((Mᵀ * M) *ᵥ (x - m)) := by
    rw [← Matrix.mulVec_mulVec, Matrix.dotProduct_mulVec (x - m) Mᵀ, Matrix.vecMul_transpose]
  rw [hsplit, add_dotProduct, dotProduct_add, dotProduct_add, hcross, dotProduct_comm (M *ᵥ m - b) (M *ᵥ (x - m)),
    hcross, hquad]
  ring

end layer1

/-! ## layer 2: the stacked operator -/

lemma dot_mulVec_tmulVec (m n : ℕ) (A : Mat K) (x y : Vec K) :
    dot m (mulVec n A x) y = dot n x (tmulVec m A y) := by
  simp only [dot, mulVec, tmulVec, sumTo_eq_sum, Finset.sum_mul, Finset.mul_sum]
  rw [Finset.sum_comm]
  refine Finset.sum_congr rfl fun j _ => Finset.sum_congr rfl fun i _ => ?_
  ring

lemma dot_add_right (n : ℕ) (x a b : Vec K) : dot n x (fun j => a j + b j) = dot n x a + dot n x b := by
  simp only [dot, ← sumTo_add_distrib]
  exact sumTo_congr _ _ _ fun i _ => by ring

lemma dot_congr (n : ℕ) (x x' y y' : Vec K) (hx : ∀ i, i < n → x i = x' i) (hy : ∀ i, i < n → y i = y' i) :
    dot n x y = dot n x' y' :=
  sumTo_congr _ _ _ fun i hi => by rw [hx i hi, hy i hi]

lemma mulVec_mul (k n : ℕ) (A B : Mat K) (x : Vec K) (i : ℕ) :
    mulVec n (mul k A B) x i = mulVec k A (mulVec n B x) i := by
  simp only [mulVec, mul, sumTo_eq_sum, Finset.sum_mul, Finset.mul_sum]
  rw [Finset.sum_comm]
  refine Finset.sum_congr rfl fun j _ => Finset.sum_congr rfl fun l _ => ?_
  ring

lemma mulVec_sub_right (n : ℕ) (A : Mat K) (x y : Vec K) (i : ℕ) :
    mulVec n A (fun j => x j - y j) i = mulVec n A x i - mulVec n A y i := by
  simp only [mulVec, sumTo_eq_sum, ← Finset.sum_sub_distrib]
  exact Finset.sum_congr rfl fun j _ => by ring

/-- the blocks of `M(x, 1)` -/
def blocksFwd (n : ℕ) (liks : List (Lik K)) (pr : Prior K) (x : Vec K) : List (ℕ × Vec K) :=
  liks.map (fun l => (l.m, mulVec l.m l.L (l.fwd x))) ++ [(pr.p, mulVec n pr.L2 x)]

/-- the blocks of `b_tild` -/
def blocksB (liks : List (Lik K)) (pr : Prior K) : List (ℕ × Vec K) :=
  liks.map (fun l => (l.m, mulVec l.m l.L l.d)) ++ [(pr.p, pr.L2mu)]

lemma Mfwd_eq (P : Problem K) (x : Vec K) : Mfwd P x = hcat 0 (blocksFwd P.n P.liks P.prior x) := rfl
lemma bTilde_eq (P : Problem K) : bTilde P = hcat 0 (blocksB P.liks P.prior) := rfl
lemma rowsM_eq (P : Problem K) : rowsM P = total (blocksB P.liks P.prior) := rfl

lemma total_blocks (n : ℕ) (liks : List (Lik K)) (pr : Prior K) (x : Vec K) :
    total (blocksFwd n liks pr x) = total (blocksB liks pr) := by
  induction liks with
  | nil => rfl
  | cons l rest ih =>
    simp only [blocksFwd, blocksB, List.map_cons, List.cons_append, total] at ih ⊢
    rw [ih]

lemma hcat_cons_lt {α : Type} (d : α) (k : ℕ) (v : ℕ → α) (rest : List (ℕ × (ℕ → α))) (i : ℕ) (h : i < k) :
    hcat d ((k, v) :: rest) i = v i := by simp [hcat, h]

lemma hcat_cons_add {α : Type} (d : α) (k : ℕ) (v : ℕ → α) (rest : List (ℕ × (ℕ → α))) (i : ℕ) :
    hcat d ((k, v) :: rest) (k + i) = hcat d rest i := by simp [hcat]

/-- **adjointness of the stacked operator, with a running start index** -/
lemma adjoint_aux (n : ℕ) (liks : List (Lik K)) (pr : Prior K)
    (hadj : ∀ l ∈ liks, ∀ u v : Vec K, dot l.m (l.fwd u) v = dot n u (l.adj v)) (x : Vec K) :
    ∀ (s : ℕ) (y : Vec K),
      sumTo (total (blocksFwd n liks pr x)) (fun i => hcat 0 (blocksFwd n liks pr x) i * y (s + i))
        = dot n x (fun j => (adjLoop liks s y).1 j + tmulVec pr.p pr.L2 (drop (adjLoop liks s y).2 y) j) := by
  induction liks with
  | nil =>
    intro s y
    have h1 : total (blocksFwd n [] pr x) = pr.p := by simp [blocksFwd, total]
    rw [h1]
    have h2 : sumTo pr.p (fun i => hcat 0 (blocksFwd n [] pr x) i * y (s + i))
        = dot pr.p (mulVec n pr.L2 x) (drop s y) := by
      refine sumTo_congr _ _ _ fun i hi => ?_
      simp [blocksFwd, hcat, hi, drop]
    rw [h2, dot_mulVec_tmulVec]
    exact dot_congr _ _ _ _ _ (fun _ _ => rfl) fun j _ => by simp [adjLoop]
  | cons l rest ih =>
    intro s y
    have hrest : ∀ l' ∈ rest, ∀ u v : Vec K, dot l'.m (l'.fwd u) v = dot n u (l'.adj v) :=
      fun l' hl' => hadj l' (List.mem_cons_of_mem _ hl')
    have hb : blocksFwd n (l :: rest) pr x = (l.m, mulVec l.m l.L (l.fwd x)) :: blocksFwd n rest pr x := rfl
    rw [hb]
    simp only [total]
    rw [sumTo_add]
    have h1 : sumTo l.m (fun i => hcat 0 ((l.m, mulVec l.m l.L (l.fwd x)) :: blocksFwd n rest pr x) i * y (s + i))
        = dot n x (l.adj (tmulVec l.m l.L (drop s y))) := by
      rw [← hadj l (List.mem_cons_self ..), ← dot_mulVec_tmulVec]
      refine sumTo_congr _ _ _ fun i hi => ?_
      rw [hcat_cons_lt _ _ _ _ _ hi]; rfl
    have h2 : sumTo (total (blocksFwd n rest pr x))
          (fun i => hcat 0 ((l.m, mulVec l.m l.L (l.fwd x)) :: blocksFwd n rest pr x) (l.m + i) * y (s + (l.m + i)))
        = sumTo (total (blocksFwd n rest pr x)) (fun i => hcat 0 (blocksFwd n rest pr x) i * y (s + l.m + i)) := by
      refine sumTo_congr _ _ _ fun i _ => ?_
      rw [hcat_cons_add, Nat.add_assoc]
    rw [h1, h2, ih hrest (s + l.m) y, ← dot_add_right]
    refine dot_congr _ _ _ _ _ (fun _ _ => rfl) fun j _ => ?_
    simp only [adjLoop]
    ring

lemma adjoint_stack (P : Problem K)
    (hadj : ∀ l ∈ P.liks, ∀ u v : Vec K, dot l.m (l.fwd u) v = dot P.n u (l.adj v)) (x y : Vec K) :
    dot (rowsM P) (Mfwd P x) y = dot P.n x (Madj P y) := by
  have := adjoint_aux P.n P.liks P.prior hadj x 0 y
  rw [total_blocks] at this
  simp only [Nat.zero_add] at this
  exact this

/-- matrix-backed likelihoods: `forward`/`adjoint` are an adjoint pair -/
lemma matLik_adjoint (n : ℕ) (l : MatLik K) (u v : Vec K) :
    dot (l.toLik n).m ((l.toLik n).fwd u) v = dot n u ((l.toLik n).adj v) :=
  dot_mulVec_tmulVec _ _ _ _ _

/-- the function branch acts as the matrix of the matrix branch (every row index) -/
lemma Mfwd_eq_mulVec (n : ℕ) (ls : List (MatLik K)) (pr : Prior K) (x : Vec K) :
    ∀ i, Mfwd (problemOf n ls pr) x i = mulVec n (Mmat ls pr) x i := by
  induction ls with
  | nil =>
    intro i
    by_cases h : i < pr.p
    · simp [Mfwd, problemOf, Mmat, hcat, h, mulVec]
    · simp [Mfwd, problemOf, Mmat, hcat, h, mulVec, sumTo_zero]
  | cons l rest ih =>
    intro i
    have e1 : Mfwd (problemOf n (l :: rest) pr) x
        = hcat 0 ((l.m, mulVec l.m l.L (mulVec n l.A x)) :: blocksFwd n (rest.map (MatLik.toLik n)) pr x) := rfl
    have e2 : Mmat (l :: rest) pr = hcat (fun _ => 0) ((l.m, mul l.m l.L l.A) :: (rest.map (fun l => (l.m, mul l.m l.L l.A)) ++ [(pr.p, pr.L2)])) := rfl
    by_cases h : i < l.m
    · rw [e1, hcat_cons_lt _ _ _ _ _ h]
      have : mulVec n (Mmat (l :: rest) pr) x i = mulVec n (mul l.m l.L l.A) x i := by
        simp only [mulVec, e2, hcat_cons_lt _ _ _ _ _ h]
      rw [this, mulVec_mul]
    · obtain ⟨t, rfl⟩ : ∃ t, i = l.m + t := ⟨i - l.m, by omega⟩
      rw [e1, hcat_cons_add]
      have : mulVec n (Mmat (l :: rest) pr) x (l.m + t) = mulVec n (Mmat rest pr) x t := by
        simp only [mulVec, e2, hcat_cons_add]; rfl
      rw [this, ← ih t]; rfl

lemma rowsM_problemOf (n : ℕ) (ls : List (MatLik K)) (pr : Prior K) :
    rowsM (problemOf n ls pr) = total (ls.map (fun l => (l.m, mul l.m l.L l.A)) ++ [(pr.p, pr.L2)]) := by
  induction ls with
  | nil => rfl
  | cons l rest ih =>
    simp only [rowsM, problemOf, List.map_cons, List.cons_append, total] at ih ⊢
    rw [ih]
    rfl

lemma dot_unit_left (n j : ℕ) (hj : j < n) (v : Vec K) : dot n (unit j) v = v j := by
  simp [dot, unit, sumTo_eq_sum, hj]

/-- flag 2 is the transpose action of the matrix branch -/
lemma Madj_eq_tmulVec (n : ℕ) (ls : List (MatLik K)) (pr : Prior K) (y : Vec K) (j : ℕ) (hj : j < n) :
    Madj (problemOf n ls pr) y j = tmulVec (rowsM (problemOf n ls pr)) (Mmat ls pr) y j := by
  have hadj : ∀ l ∈ (problemOf n ls pr).liks, ∀ u v : Vec K,
      dot l.m (l.fwd u) v = dot (problemOf n ls pr).n u (l.adj v) := by
    intro l hl u v
    simp only [problemOf, List.mem_map] at hl
    obtain ⟨ml, _, rfl⟩ := hl
    exact matLik_adjoint n ml u v
  have h := adjoint_stack (problemOf n ls pr) hadj (unit j) y
  rw [show (problemOf n ls pr).n = n from rfl, dot_unit_left n j hj] at h
  rw [← h]
  simp only [tmulVec, dot]
  refine sumTo_congr _ _ _ fun i _ => ?_
  rw [Mfwd_eq_mulVec]
  simp [mulVec, unit, sumTo_eq_sum, hj]

/-! ## the least-squares objective is `−2 log posterior` -/

/-- squared norm of one likelihood block of `M x − b_tild` -/
def likSq (x : Vec K) (l : Lik K) : K :=
  sumTo l.m (fun i => (mulVec l.m l.L (l.fwd x) i - mulVec l.m l.L l.d i) ^ 2)

lemma resid_sq_aux (n : ℕ) (liks : List (Lik K)) (pr : Prior K) (x : Vec K) :
    sumTo (total (blocksB liks pr)) (fun i => (hcat 0 (blocksFwd n liks pr x) i - hcat 0 (blocksB liks pr) i) ^ 2)
      = (liks.map (likSq x)).sum + sumTo pr.p (fun i => (mulVec n pr.L2 x i - pr.L2mu i) ^ 2) := by
  induction liks with
  | nil =>
    have h1 : total (blocksB [] pr) = pr.p := by simp [blocksB, total]
    rw [h1]
    simp only [List.map_nil, List.sum_nil, zero_add]
    refine sumTo_congr _ _ _ fun i hi => ?_
    simp [blocksFwd, blocksB, hcat, hi]
  | cons l rest ih =>
    have hb1 : blocksFwd n (l :: rest) pr x = (l.m, mulVec l.m l.L (l.fwd x)) :: blocksFwd n rest pr x := rfl
    have hb2 : blocksB (l :: rest) pr = (l.m, mulVec l.m l.L l.d) :: blocksB rest pr := rfl
    rw [hb1, hb2]
    simp only [total, List.map_cons, List.sum_cons]
    rw [sumTo_add, add_assoc, ← ih]
    congr 1
    · refine sumTo_congr _ _ _ fun i hi => ?_
      rw [hcat_cons_lt _ _ _ _ _ hi, hcat_cons_lt _ _ _ _ _ hi]
    · refine sumTo_congr _ _ _ fun i _ => ?_
      rw [hcat_cons_add, hcat_cons_add]

lemma sq_mulVec_eq_quad (m : ℕ) (L : Mat K) (v : Vec K) :
    sumTo m (fun i => (mulVec m L v i) ^ 2) = quad m (gram m L) v := by
  have : sumTo m (fun i => (mulVec m L v i) ^ 2) = dot m (mulVec m L v) (mulVec m L v) :=
    sumTo_congr _ _ _ fun i _ => by ring
  rw [this, dot_mulVec_tmulVec]
  unfold quad
  refine dot_congr _ _ _ _ _ (fun _ _ => rfl) fun j _ => ?_
  simp only [tmulVec, mulVec, gram, sumTo_eq_sum, Finset.mul_sum, Finset.sum_mul]
  rw [Finset.sum_comm]
  refine Finset.sum_congr rfl fun a _ => Finset.sum_congr rfl fun b _ => ?_
  ring

/-- rectangular version: `|L v|² = vᵀ (LᵀL) v` for `L` of size `p × n` -/
lemma sq_mulVec_eq_quad_rect (p n : ℕ) (L : Mat K) (v : Vec K) :
    sumTo p (fun i => (mulVec n L v i) ^ 2) = quad n (gram p L) v := by
  have : sumTo p (fun i => (mulVec n L v i) ^ 2) = dot p (mulVec n L v) (mulVec n L v) :=
    sumTo_congr _ _ _ fun i _ => by ring
  rw [this, dot_mulVec_tmulVec]
  unfold quad
  refine dot_congr _ _ _ _ _ (fun _ _ => rfl) fun j _ => ?_
  simp only [tmulVec, mulVec, gram, sumTo_eq_sum, Finset.mul_sum, Finset.sum_mul]
  rw [Finset.sum_comm]
  refine Finset.sum_congr rfl fun a _ => Finset.sum_congr rfl fun b _ => ?_
  ring

/-! ## explicit posterior precision / right-hand side of the stacked system -/

lemma gram_hcat_cons (k : ℕ) (B : Mat K) (rest : List (ℕ × Mat K)) (i j : ℕ) :
    gram (total ((k, B) :: rest)) (hcat (fun _ => 0) ((k, B) :: rest)) i j
      = gram k B i j + gram (total rest) (hcat (fun _ => 0) rest) i j := by
  simp only [gram, total]
  rw [sumTo_add]
  congr 1
  · exact sumTo_congr _ _ _ fun a ha => by rw [hcat_cons_lt _ _ _ _ _ ha]
  · exact sumTo_congr _ _ _ fun a _ => by rw [hcat_cons_add]

lemma tmulVec_hcat_cons (k : ℕ) (B : Mat K) (v : Vec K) (rest : List (ℕ × Mat K)) (restv : List (ℕ × Vec K)) (j : ℕ) :
    tmulVec (total ((k, B) :: rest)) (hcat (fun _ => 0) ((k, B) :: rest)) (hcat 0 ((k, v) :: restv)) j
      = tmulVec k B v j + tmulVec (total rest) (hcat (fun _ => 0) rest) (hcat 0 restv) j := by
  simp only [tmulVec, total]
  rw [sumTo_add]
  congr 1
  · exact sumTo_congr _ _ _ fun a ha => by rw [hcat_cons_lt _ _ _ _ _ ha, hcat_cons_lt _ _ _ _ _ ha]
  · exact sumTo_congr _ _ _ fun a _ => by rw [hcat_cons_add, hcat_cons_add]

/-- `MᵀM = Σ (LᵢAᵢ)ᵀ(LᵢAᵢ) + L₂ᵀL₂` -/
lemma gram_Mmat (ls : List (MatLik K)) (pr : Prior K) (i j : ℕ) :
    gram (total (ls.map (fun l => (l.m, mul l.m l.L l.A)) ++ [(pr.p, pr.L2)])) (Mmat ls pr) i j
      = (ls.map fun l => gram l.m (mul l.m l.L l.A) i j).sum + gram pr.p pr.L2 i j := by
  induction ls with
  | nil =>
    simp only [Mmat, List.map_nil, List.nil_append, List.sum_nil, zero_add]
    rw [gram_hcat_cons]
    simp [gram, total, sumTo]
  | cons l rest ih =>
    simp only [Mmat, List.map_cons, List.cons_append, List.sum_cons] at ih ⊢
    rw [gram_hcat_cons, ih, add_assoc]

/-- `Mᵀ b̃ = Σ (LᵢAᵢ)ᵀ Lᵢdᵢ + L₂ᵀ (L₂μ)` -/
lemma tmulVec_Mmat_bTilde (n : ℕ) (ls : List (MatLik K)) (pr : Prior K) (j : ℕ) :
    tmulVec (total (ls.map (fun l => (l.m, mul l.m l.L l.A)) ++ [(pr.p, pr.L2)])) (Mmat ls pr)
        (bTilde (problemOf n ls pr)) j
      = (ls.map fun l => tmulVec l.m (mul l.m l.L l.A) (mulVec l.m l.L l.d) j).sum + tmulVec pr.p pr.L2 pr.L2mu j := by
  induction ls with
  | nil =>
    simp only [Mmat, bTilde, problemOf, List.map_nil, List.nil_append, List.sum_nil, zero_add]
    rw [tmulVec_hcat_cons]
    simp [tmulVec, total, sumTo]
  | cons l rest ih =>
    simp only [Mmat, bTilde, problemOf, List.map_cons, List.cons_append, List.sum_cons, List.map_map] at ih ⊢
    refine (tmulVec_hcat_cons l.m (mul l.m l.L l.A) (mulVec l.m l.L l.d) _ _ j).trans ?_
    rw [ih, add_assoc]

/-! ## tabulation and CGLS -/

lemma ofArr_tabArr (n : ℕ) (v : Vec K) (i : ℕ) (hi : i < n) : ofArr (tabArr n v) i = v i := by
  simp [ofArr, tabArr, hi]

lemma ofRows_tabRows (m n : ℕ) (A : Mat K) (i j : ℕ) (hi : i < m) (hj : j < n) : ofRows (tabRows m n A) i j = A i j := by
  simp [ofRows, tabRows, hi, hj]

lemma mulVec_congr (n : ℕ) (A : Mat K) (x x' : Vec K) (h : ∀ j, j < n → x j = x' j) (i : ℕ) :
    mulVec n A x i = mulVec n A x' i :=
  sumTo_congr _ _ _ fun j hj => by rw [h j hj]

lemma tmulVec_congr (m : ℕ) (A : Mat K) (y y' : Vec K) (h : ∀ i, i < m → y i = y' i) (j : ℕ) :
    tmulVec m A y j = tmulVec m A y' j :=
  sumTo_congr _ _ _ fun i hi => by rw [h i hi]

lemma mulVec_tab (n : ℕ) (A : Mat K) (v : Vec K) (i : ℕ) :
    mulVec n A (ofArr (tabArr n v)) i = mulVec n A v i :=
  mulVec_congr n A _ _ (fun j hj => ofArr_tabArr n v j hj) i

lemma mulVec_add_smul (n : ℕ) (A : Mat K) (x p : Vec K) (a : K) (i : ℕ) :
    mulVec n A (fun j => x j + a * p j) i = mulVec n A x i + a * mulVec n A p i := by
  simp only [mulVec, ← sumTo_mul_left, ← sumTo_add_distrib]
  exact sumTo_congr _ _ _ fun j _ => by ring

lemma tmulVec_sub_right (m : ℕ) (A : Mat K) (y z : Vec K) (j : ℕ) :
    tmulVec m A (fun i => y i - z i) j = tmulVec m A y j - tmulVec m A z j := by
  simp only [tmulVec, sumTo_eq_sum, ← Finset.sum_sub_distrib]
  exact Finset.sum_congr rfl fun i _ => by ring

lemma tmulVec_mulVec_gram (N n : ℕ) (M : Mat K) (x : Vec K) (j : ℕ) :
    tmulVec N M (mulVec n M x) j = mulVec n (gram N M) x j := by
  simp only [tmulVec, mulVec, gram, sumTo_eq_sum, Finset.mul_sum, Finset.sum_mul]
  rw [Finset.sum_comm]
  refine Finset.sum_congr rfl fun a _ => Finset.sum_congr rfl fun b _ => ?_
  ring

section cgls
variable [LT K] [LE K] [DecidableEq K] [DecidableLT K] [DecidableLE K]

/-- what every CGLS state satisfies: `r = b − M x`, `s = Mᵀ r`, `gamma = ‖s‖²` -/
def CglsInv (N n : ℕ) (M : Mat K) (b : Vec K) (st : CglsState K) : Prop :=
  (∀ i, i < N → st.r i = b i - mulVec n M st.x i) ∧ (∀ j, j < n → st.s j = tmulVec N M st.r j) ∧
  st.gamma = dot n st.s st.s

lemma cglsInit_inv (N n : ℕ) (M : Mat K) (fwd adj : Vec K → Vec K)
    (hf : ∀ v i, i < N → fwd v i = mulVec n M v i) (ha : ∀ v j, j < n → adj v j = tmulVec N M v j)
    (b x0 : Vec K) : CglsInv N n M b (cglsInit fwd adj N n b x0) := by
  refine ⟨fun i hi => ?_, fun j hj => ?_, rfl⟩
  · simp only [cglsInit]
    rw [ofArr_tabArr _ _ _ hi, hf _ _ hi]
  · simp only [cglsInit]
    rw [ofArr_tabArr _ _ _ hj, ha _ _ hj]

lemma cglsIter_inv (N n : ℕ) (M : Mat K) (fwd adj : Vec K → Vec K)
    (hf : ∀ v i, i < N → fwd v i = mulVec n M v i) (ha : ∀ v j, j < n → adj v j = tmulVec N M v j)
    (b : Vec K) (g0 tol2 eps : K) (st : CglsState K) (h : CglsInv N n M b st) :
    CglsInv N n M b (cglsIter fwd adj N n g0 tol2 eps st) := by
  refine ⟨fun i hi => ?_, fun j hj => ?_, rfl⟩
  · simp only [cglsIter]
    rw [ofArr_tabArr _ _ _ hi, ofArr_tabArr _ _ _ hi, hf _ _ hi, h.1 i hi]
    rw [mulVec_tab, mulVec_add_smul]
    ring
  · simp only [cglsIter]
    rw [ofArr_tabArr _ _ _ hj, ha _ _ hj]

lemma cglsLoop_inv (N n : ℕ) (M : Mat K) (fwd adj : Vec K → Vec K)
    (hf : ∀ v i, i < N → fwd v i = mulVec n M v i) (ha : ∀ v j, j < n → adj v j = tmulVec N M v j)
    (b : Vec K) (g0 tol2 eps : K) (fuel : ℕ) :
    ∀ st, CglsInv N n M b st → CglsInv N n M b (cglsLoop fwd adj N n g0 tol2 eps fuel st) := by
  induction fuel with
  | zero => intro st h; exact h
  | succ k ih =>
    intro st h
    simp only [cglsLoop]
    split
    · exact h
    · exact ih _ (cglsIter_inv N n M fwd adj hf ha b g0 tol2 eps st h)

end cgls

end CuqiVerif.C06
