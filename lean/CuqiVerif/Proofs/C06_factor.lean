import CuqiVerif.Model.C06_factor
import CuqiVerif.Proofs.C06
import Mathlib.Tactic.FieldSimp
import Mathlib.Tactic.Ring

/-!
# C06 — helper lemmas for `Props/C06_factor.lean`
(what `sqrtprecOf` of `Model/C06_factor.lean` returns, branch by branch)
-/
open Finset

set_option linter.unusedSectionVars false
set_option linter.unusedVariables false

namespace CuqiVerif.C06

variable {K : Type} [Field K] [LT K] [DecidableEq K] [DecidableLT K]

/-- `Λ` is the precision matrix of the Gaussian whose specification stands for the matrix `S`
    (`isCov`: `S` is the covariance, `Λ S = I`; else `S` is the precision, `Λ = S`), on the
    leading `n × n` block. -/
def IsPrec (n : ℕ) (isCov : Bool) (S Lam : Mat K) : Prop :=
  if isCov then ∀ i j, i < n → j < n → mul n Lam S i j = ident i j
  else ∀ i j, i < n → j < n → Lam i j = S i j

/-- the diagonal entry of `specMat` for a parameter with diagonal entry `v` -/
def kindDiag (k : Kind) (v : K) : K :=
  match k with
  | .cov | .prec => v
  | .sqrtcov | .sqrtprec => v * v

lemma sumTo_single (n : ℕ) (f : ℕ → K) (i : ℕ) (hi : i < n) (h : ∀ l, l < n → l ≠ i → f l = 0) :
    sumTo n f = f i := by
  rw [sumTo_eq_sum]
  exact Finset.sum_eq_single i (fun l hl hne => h l (Finset.mem_range.mp hl) hne)
    (fun hni => absurd (Finset.mem_range.mpr hi) hni)

lemma rootChecked_spec (rt : K → Option K) (a b : K) (h : rootChecked rt a = some b) : b * b = a := by
  unfold rootChecked at h
  split at h
  · split at h
    · rename_i hc; cases h; exact hc.1
    · cases h
  · cases h

lemma diagEntry_spec (rt : K → Option K) (k : Kind) (v e : K) (h : diagEntry rt k v = some e) :
    if k.isCov then e * e * kindDiag k v = 1 else e * e = kindDiag k v := by
  cases k <;> simp only [diagEntry, Kind.isCov, kindDiag] at h ⊢
  · -- cov
    split at h
    · cases h
    · rename_i hv
      have := rootChecked_spec rt _ _ h
      simp only [if_true]; rw [this]; field_simp
  · simp only [Bool.false_eq_true, if_false]; exact rootChecked_spec rt _ _ h
  · split at h
    · cases h
    · rename_i hv
      cases h
      simp only [if_true]; field_simp
  · cases h; simp

lemma diagEntries_spec (rt : K → Option K) (k : Kind) (v : Vec K) :
    ∀ n l, diagEntries rt k v n = some l →
      l.length = n ∧ ∀ i, i < n → ∃ e, l[i]? = some e ∧ diagEntry rt k (v i) = some e := by
  intro n
  induction n with
  | zero =>
    intro l h
    simp only [diagEntries] at h
    cases h
    exact ⟨rfl, fun i hi => absurd hi (Nat.not_lt_zero i)⟩
  | succ n ih =>
    intro l h
    simp only [diagEntries] at h
    split at h
    · rename_i l' e hl' he
      cases h
      obtain ⟨hlen, hent⟩ := ih l' hl'
      refine ⟨by simp [hlen], fun i hi => ?_⟩
      rcases Nat.lt_succ_iff_lt_or_eq.mp hi with hlt | heq
      · obtain ⟨e', h1, h2⟩ := hent i hlt
        exact ⟨e', by rw [List.getElem?_append_left (by omega)]; exact h1, h2⟩
      · subst heq
        exact ⟨e, by rw [List.getElem?_append_right (by omega)]; simp [hlen], he⟩
    · cases h

/-- what the scalar / vector / diagonal branches return -/
lemma facDiag_spec (rt : K → Option K) (k : Kind) (b b' : Branch) (sz sz' : ℕ) (v : Vec K) (L : Mat K)
    (h : facDiag rt k b sz v = .ok b' sz' L) :
    b' = b ∧ sz' = sz ∧ ∃ d : Vec K, L = diagM d ∧
      ∀ i, i < sz → if k.isCov then d i * d i * kindDiag k (v i) = 1 else d i * d i = kindDiag k (v i) := by
  unfold facDiag at h
  split at h
  · rename_i l hl
    simp only [Fac.ok.injEq] at h
    obtain ⟨hb, hs, hL⟩ := h
    refine ⟨hb.symm, hs.symm, ofArr l.toArray, hL.symm, fun i hi => ?_⟩
    obtain ⟨_, hent⟩ := diagEntries_spec rt k v sz l hl
    obtain ⟨e, h1, h2⟩ := hent i hi
    have : ofArr l.toArray i = e := by
      unfold ofArr
      rw [List.getElem?_toArray, h1]
    rw [this]
    exact diagEntry_spec rt k _ _ h2
  · cases h

lemma gram_diagM (n : ℕ) (d : Vec K) (i j : ℕ) (hi : i < n) (hj : j < n) :
    gram n (diagM d) i j = if i = j then d i * d i else 0 := by
  unfold gram
  rw [sumTo_single n _ i hi]
  · simp only [diagM, if_true]
    by_cases hij : i = j
    · subst hij; simp
    · simp [hij]
  · intro l _ hne
    simp [diagM, hne]

/-- a factor `diag(d)` against a specification whose matrix is `diag(D)` on the block -/
lemma isPrec_diag (n : ℕ) (isCov : Bool) (S : Mat K) (d D : Vec K)
    (hS : ∀ i j, i < n → j < n → S i j = if i = j then D i else 0)
    (hd : ∀ i, i < n → if isCov then d i * d i * D i = 1 else d i * d i = D i) :
    IsPrec n isCov S (gram n (diagM d)) := by
  unfold IsPrec
  cases isCov
  · simp only [Bool.false_eq_true, if_false] at hd ⊢
    intro i j hi hj
    rw [gram_diagM n d i j hi hj, hS i j hi hj]
    by_cases hij : i = j
    · subst hij; simp [hd i hi]
    · simp [hij]
  · simp only [if_true] at hd ⊢
    intro i j hi hj
    unfold mul
    rw [sumTo_single n _ i hi]
    · rw [gram_diagM n d i i hi hi, hS i j hi hj]
      by_cases hij : i = j
      · subst hij; simp [ident, hd i hi]
      · simp [ident, hij]
    · intro l hl hne
      rw [gram_diagM n d i l hi hl]
      simp [Ne.symm hne]

lemma allLt_spec (n : ℕ) (p : ℕ → ℕ → Bool) (h : allLt n p = true) : ∀ i j, i < n → j < n → p i j = true := by
  intro i j hi hj
  unfold allLt at h
  rw [List.all_eq_true] at h
  have := h i (List.mem_range.mpr hi)
  rw [List.all_eq_true] at this
  exact this j (List.mem_range.mpr hj)

lemma isDiag_spec (x : Arr K) (h : x.isDiag = true) :
    ∀ i j, i < x.rows → j < x.cols → i ≠ j → x.a i j = 0 := by
  intro i j hi hj hne
  unfold Arr.isDiag at h
  rw [List.all_eq_true] at h
  have := h i (List.mem_range.mpr hi)
  rw [List.all_eq_true] at this
  have := this j (List.mem_range.mpr hj)
  simp only [Bool.or_eq_true, beq_iff_eq] at this
  rcases this with h1 | h1
  · exact absurd h1 hne
  · exact h1

lemma invChecked_spec (inv : ℕ → Mat K → Option (Mat K)) (n : ℕ) (P C : Mat K) (h : invChecked inv n P = some C) :
    ∀ i j, i < n → j < n → mul n P C i j = ident i j ∧ mul n C P i j = ident i j := by
  unfold invChecked at h
  split at h
  · simp only at h
    split at h
    · rename_i hc
      cases h
      intro i j hi hj
      have := allLt_spec n _ hc i j hi hj
      simp only [Bool.and_eq_true, beq_iff_eq] at this
      exact this
    · cases h
  · cases h

lemma cholUpper_spec (rt : K → Option K) (n : ℕ) (P U : Mat K) (h : cholUpper rt n P = .ok U) :
    ∀ i j, i < n → j < n → gram n U i j = P i j := by
  unfold cholUpper at h
  split at h
  · cases h
  · cases h
  · simp only at h
    split at h
    · rename_i hc
      cases h
      intro i j hi hj
      have := allLt_spec n _ hc i j hi hj
      simpa using this
    · cases h

lemma facChol_spec (rt : K → Option K) (n : ℕ) (P : Mat K) (b : Branch) (sz : ℕ) (L : Mat K)
    (h : facChol rt n P = .ok b sz L) :
    b = .full ∧ sz = n ∧ ∀ i j, i < n → j < n → gram n L i j = P i j := by
  unfold facChol at h
  split at h
  · rename_i U hU
    simp only [Fac.ok.injEq] at h
    obtain ⟨hb, hs, hL⟩ := h
    subst hL
    exact ⟨hb.symm, hs.symm, cholUpper_spec rt n P U hU⟩
  · cases h
  · cases h

lemma mul_congr_left (n : ℕ) (A A' B : Mat K) (i j : ℕ) (h : ∀ l, l < n → A i l = A' i l) :
    mul n A B i j = mul n A' B i j := by
  unfold mul
  exact sumTo_congr _ _ _ fun l hl => by rw [h l hl]

lemma mul_congr_right (n : ℕ) (A B B' : Mat K) (i j : ℕ) (h : ∀ l, l < n → B l j = B' l j) :
    mul n A B i j = mul n A B' i j := by
  unfold mul
  exact sumTo_congr _ _ _ fun l hl => by rw [h l hl]

/-- the full-matrix branches -/
lemma facFull_spec (rt : K → Option K) (inv : ℕ → Mat K → Option (Mat K)) (k : Kind) (n : ℕ) (A : Mat K)
    (b : Branch) (sz : ℕ) (L : Mat K) (h : facFull rt inv k n A = .ok b sz L) :
    b = .full ∧ sz = n ∧ IsPrec n k.isCov (specMat true n k (.matrix A)) (gram n L) := by
  cases k
  · -- cov
    simp only [facFull] at h
    split at h
    · cases h
    · split at h
      · cases h
      · rename_i C hC
        obtain ⟨hb, hs, hg⟩ := facChol_spec rt n C b sz L h
        refine ⟨hb, hs, ?_⟩
        simp only [IsPrec, Kind.isCov, if_true, specMat]
        intro i j hi hj
        rw [mul_congr_left n _ C A i j (fun l hl => hg i l hi hl)]
        exact (invChecked_spec inv n A C hC i j hi hj).2
  · -- prec
    simp only [facFull] at h
    split at h
    · cases h
    · obtain ⟨hb, hs, hg⟩ := facChol_spec rt n A b sz L h
      refine ⟨hb, hs, ?_⟩
      simp only [IsPrec, Kind.isCov, Bool.false_eq_true, if_false, specMat]
      exact hg
  · -- sqrtcov
    simp only [facFull] at h
    split at h
    · cases h
    · rename_i C hC
      obtain ⟨hb, hs, hg⟩ := facChol_spec rt n C b sz L h
      refine ⟨hb, hs, ?_⟩
      simp only [IsPrec, Kind.isCov, if_true, specMat]
      intro i j hi hj
      rw [mul_congr_left n _ C _ i j (fun l hl => hg i l hi hl)]
      rw [← (invChecked_spec inv n _ C hC i j hi hj).2]
      exact mul_congr_right n C _ _ i j fun l hl => (ofRows_tabRows n n _ l j hl hj).symm
  · -- sqrtprec
    simp only [facFull, Fac.ok.injEq] at h
    obtain ⟨hb, hs, hL⟩ := h
    subst hL
    refine ⟨hb.symm, hs.symm, ?_⟩
    simp only [IsPrec, Kind.isCov, Bool.false_eq_true, if_false, specMat]
    intro i j _ _
    rfl

/-- `specMat` of a scalar / vector / diagonal-matrix parameter is diagonal with entries `kindDiag` -/
lemma specMat_scalar_diag (n : ℕ) (k : Kind) (c : K) (i j : ℕ) :
    specMat true n k (.scalar c) i j = if i = j then kindDiag k c else 0 := by
  cases k <;> rfl

lemma specMat_vector_diag (n : ℕ) (k : Kind) (v : Vec K) (i j : ℕ) :
    specMat true n k (.vector v) i j = if i = j then kindDiag k (v i) else 0 := by
  cases k <;> simp only [specMat, diagM, kindDiag]

lemma specMat_matrix_diag (n : ℕ) (k : Kind) (A : Mat K)
    (hA : ∀ i j, i < n → j < n → i ≠ j → A i j = 0) (i j : ℕ) (hi : i < n) (hj : j < n) :
    specMat true n k (.matrix A) i j = if i = j then kindDiag k (A i i) else 0 := by
  cases k <;> simp only [specMat, kindDiag, if_true]
  · by_cases hij : i = j
    · subst hij; simp
    · simp [hij, hA i j hi hj hij]
  · by_cases hij : i = j
    · subst hij; simp
    · simp [hij, hA i j hi hj hij]
  · unfold mul tr
    rw [sumTo_single n _ i hi]
    · by_cases hij : i = j
      · subst hij; simp
      · simp [hij, hA j i hj hi (Ne.symm hij)]
    · intro l hl hne
      simp [hA i l hi hl (Ne.symm hne)]
  · unfold mul tr
    rw [sumTo_single n _ i hi]
    · by_cases hij : i = j
      · subst hij; simp
      · simp [hij, hA i j hi hj hij]
    · intro l hl hne
      simp [hA l i hl hi hne]

end CuqiVerif.C06
