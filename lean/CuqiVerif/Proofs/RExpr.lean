import CuqiVerif.Model.RExpr
import Mathlib.Analysis.Calculus.Deriv.Abs
import Mathlib.Analysis.Calculus.Deriv.Pow
import Mathlib.Analysis.Calculus.Deriv.Inv
import Mathlib.Analysis.SpecialFunctions.Log.Deriv
import Mathlib.Analysis.SpecialFunctions.ExpDeriv
import Mathlib.Analysis.SpecialFunctions.Sqrt
import Mathlib.Analysis.SpecialFunctions.Gamma.Basic

/-!
# RExpr over the reals: `eval`, `Safe`, and the master derivative theorem

Shared by C03 and C04.  API (namespace `CuqiVerif.RExpr`):

* `eval ρ e : ℝ` — the real value of `e` in the environment `ρ : ℕ → ℝ`
  (`log = Real.log`, `sqrt = Real.sqrt`, `pi = Real.pi`, `lgamma a = Real.log (Real.Gamma a)`,
  `const q = (q : ℝ)`).  Simp lemmas `eval_add … eval_ofNat` rewrite `eval` through the
  arithmetic *notation* (`a + b`, `a ^ n`, numerals) used by the models, so
  `simp [myFormula, eval]` turns `eval ρ (myFormula …)` into the ordinary real formula.
* `Safe i ρ e : Prop` — every partial operation inside `e` is applied inside its domain at `ρ`
  (denominators `≠ 0`, arguments of `log`/`sqrt` `> 0`, of `abs` `≠ 0`) and `lgamma` is only
  applied to sub-expressions that do not contain the variable `i`.
* `hasDerivAt_deriv : Safe i ρ e → HasDerivAt (fun t => eval (Function.update ρ i t) e)
     (eval ρ (deriv i e)) (ρ i)` — **master theorem**: the symbolic derivative is the derivative.
* `eval_update_of_hasVar_false` — expressions not containing `i` do not depend on `ρ i`.

Typical use: to show that a closed-form gradient `g` is the derivative of a closed-form
log-density `f`, prove the algebraic identity `eval ρ (deriv i f) = eval ρ g`
(`simp [f, g, deriv, eval]; field_simp; ring`) and conclude with
`(hasDerivAt_deriv h).congr_deriv`.
-/

namespace CuqiVerif.RExpr

/-- real interpretation -/
noncomputable def eval (ρ : ℕ → ℝ) : RExpr → ℝ
  | const q => (q : ℝ)
  | var i => ρ i
  | add a b => eval ρ a + eval ρ b
  | sub a b => eval ρ a - eval ρ b
  | mul a b => eval ρ a * eval ρ b
  | div a b => eval ρ a / eval ρ b
  | neg a => -(eval ρ a)
  | pow a n => (eval ρ a) ^ n
  | log a => Real.log (eval ρ a)
  | exp a => Real.exp (eval ρ a)
  | sqrt a => Real.sqrt (eval ρ a)
  | abs a => |eval ρ a|
  | pi => Real.pi
  | lgamma a => Real.log (Real.Gamma (eval ρ a))

@[simp] lemma eval_add (ρ : ℕ → ℝ) (a b : RExpr) : eval ρ (a + b) = eval ρ a + eval ρ b := rfl
@[simp] lemma eval_sub (ρ : ℕ → ℝ) (a b : RExpr) : eval ρ (a - b) = eval ρ a - eval ρ b := rfl
@[simp] lemma eval_mul (ρ : ℕ → ℝ) (a b : RExpr) : eval ρ (a * b) = eval ρ a * eval ρ b := rfl
@[simp] lemma eval_div (ρ : ℕ → ℝ) (a b : RExpr) : eval ρ (a / b) = eval ρ a / eval ρ b := rfl
@[simp] lemma eval_neg (ρ : ℕ → ℝ) (a : RExpr) : eval ρ (-a) = -(eval ρ a) := rfl
@[simp] lemma eval_pow (ρ : ℕ → ℝ) (a : RExpr) (n : ℕ) : eval ρ (a ^ n) = (eval ρ a) ^ n := rfl
@[simp] lemma eval_ofNat (ρ : ℕ → ℝ) (n : ℕ) : eval ρ (no_index (OfNat.ofNat n : RExpr)) = (n : ℝ) := by
  show ((n : ℚ) : ℝ) = (n : ℝ)
  simp
@[simp] lemma eval_ofRat (ρ : ℕ → ℝ) (q : ℚ) : eval ρ (ofRat q) = (q : ℝ) := rfl
@[simp] lemma eval_const (ρ : ℕ → ℝ) (q : ℚ) : eval ρ (const q) = (q : ℝ) := rfl
@[simp] lemma eval_var (ρ : ℕ → ℝ) (i : ℕ) : eval ρ (var i) = ρ i := rfl

/-- every partial operation of `e` is used inside its domain at `ρ`; `lgamma` only on
    sub-expressions free of variable `i` -/
def Safe (i : ℕ) (ρ : ℕ → ℝ) : RExpr → Prop
  | const _ => True
  | var _ => True
  | add a b => Safe i ρ a ∧ Safe i ρ b
  | sub a b => Safe i ρ a ∧ Safe i ρ b
  | mul a b => Safe i ρ a ∧ Safe i ρ b
  | div a b => Safe i ρ a ∧ Safe i ρ b ∧ eval ρ b ≠ 0
  | neg a => Safe i ρ a
  | pow a _ => Safe i ρ a
  | log a => Safe i ρ a ∧ 0 < eval ρ a
  | exp a => Safe i ρ a
  | sqrt a => Safe i ρ a ∧ 0 < eval ρ a
  | abs a => Safe i ρ a ∧ eval ρ a ≠ 0
  | pi => True
  | lgamma a => hasVar i a = false ∧ 0 < eval ρ a

/-! `Safe`, `deriv`, `hasVar` through the arithmetic notation (all by `rfl`) -/
section notation_lemmas
variable (i : ℕ) (ρ : ℕ → ℝ) (a b : RExpr) (n : ℕ)
@[simp] lemma safe_add : Safe i ρ (a + b) ↔ Safe i ρ a ∧ Safe i ρ b := Iff.rfl
@[simp] lemma safe_sub : Safe i ρ (a - b) ↔ Safe i ρ a ∧ Safe i ρ b := Iff.rfl
@[simp] lemma safe_mul : Safe i ρ (a * b) ↔ Safe i ρ a ∧ Safe i ρ b := Iff.rfl
@[simp] lemma safe_div : Safe i ρ (a / b) ↔ Safe i ρ a ∧ Safe i ρ b ∧ eval ρ b ≠ 0 := Iff.rfl
@[simp] lemma safe_neg : Safe i ρ (-a) ↔ Safe i ρ a := Iff.rfl
@[simp] lemma safe_pow : Safe i ρ (a ^ n) ↔ Safe i ρ a := Iff.rfl
@[simp] lemma safe_ofNat : Safe i ρ (no_index (OfNat.ofNat n : RExpr)) ↔ True := Iff.rfl
@[simp] lemma safe_const (q : ℚ) : Safe i ρ (const q) ↔ True := Iff.rfl
@[simp] lemma safe_var (j : ℕ) : Safe i ρ (var j) ↔ True := Iff.rfl
@[simp] lemma safe_pi : Safe i ρ pi ↔ True := Iff.rfl
@[simp] lemma safe_log : Safe i ρ (log a) ↔ Safe i ρ a ∧ 0 < eval ρ a := Iff.rfl
@[simp] lemma safe_exp : Safe i ρ (exp a) ↔ Safe i ρ a := Iff.rfl
@[simp] lemma safe_sqrt : Safe i ρ (sqrt a) ↔ Safe i ρ a ∧ 0 < eval ρ a := Iff.rfl
@[simp] lemma safe_abs : Safe i ρ (abs a) ↔ Safe i ρ a ∧ eval ρ a ≠ 0 := Iff.rfl
@[simp] lemma safe_lgamma : Safe i ρ (lgamma a) ↔ hasVar i a = false ∧ 0 < eval ρ a := Iff.rfl
@[simp] lemma deriv_add : RExpr.deriv i (a + b) = RExpr.deriv i a + RExpr.deriv i b := rfl
@[simp] lemma deriv_sub : RExpr.deriv i (a - b) = RExpr.deriv i a - RExpr.deriv i b := rfl
@[simp] lemma deriv_mul : RExpr.deriv i (a * b) = RExpr.deriv i a * b + a * RExpr.deriv i b := rfl
@[simp] lemma deriv_div :
    RExpr.deriv i (a / b) = (RExpr.deriv i a * b - a * RExpr.deriv i b) / (b ^ 2) := rfl
@[simp] lemma deriv_neg : RExpr.deriv i (-a) = -(RExpr.deriv i a) := rfl
@[simp] lemma deriv_pow :
    RExpr.deriv i (a ^ n) = (const (n : ℚ) * a ^ (n - 1)) * RExpr.deriv i a := rfl
@[simp] lemma deriv_ofNat : RExpr.deriv i (no_index (OfNat.ofNat n : RExpr)) = const 0 := rfl
@[simp] lemma deriv_const (q : ℚ) : RExpr.deriv i (const q) = const 0 := rfl
@[simp] lemma deriv_var_self : RExpr.deriv i (var i) = const 1 := by simp [RExpr.deriv]
lemma deriv_var_ne (j : ℕ) (h : j ≠ i) : RExpr.deriv i (var j) = const 0 := by simp [RExpr.deriv, h]
@[simp] lemma deriv_pi : RExpr.deriv i pi = const 0 := rfl
@[simp] lemma deriv_log : RExpr.deriv i (log a) = RExpr.deriv i a / a := rfl
@[simp] lemma deriv_exp : RExpr.deriv i (exp a) = exp a * RExpr.deriv i a := rfl
@[simp] lemma deriv_sqrt : RExpr.deriv i (sqrt a) = RExpr.deriv i a / (const 2 * sqrt a) := rfl
@[simp] lemma deriv_abs : RExpr.deriv i (abs a) = (a / abs a) * RExpr.deriv i a := rfl
@[simp] lemma deriv_lgamma : RExpr.deriv i (lgamma a) = const 0 := rfl
@[simp] lemma hasVar_add : hasVar i (a + b) = (hasVar i a || hasVar i b) := rfl
@[simp] lemma hasVar_sub : hasVar i (a - b) = (hasVar i a || hasVar i b) := rfl
@[simp] lemma hasVar_mul : hasVar i (a * b) = (hasVar i a || hasVar i b) := rfl
@[simp] lemma hasVar_div : hasVar i (a / b) = (hasVar i a || hasVar i b) := rfl
@[simp] lemma hasVar_neg : hasVar i (-a) = hasVar i a := rfl
@[simp] lemma hasVar_pow : hasVar i (a ^ n) = hasVar i a := rfl
@[simp] lemma hasVar_ofNat : hasVar i (no_index (OfNat.ofNat n : RExpr)) = false := rfl
@[simp] lemma hasVar_var (j : ℕ) : hasVar i (var j) = (j == i) := rfl
@[simp] lemma eval_log : eval ρ (log a) = Real.log (eval ρ a) := rfl
@[simp] lemma eval_exp : eval ρ (exp a) = Real.exp (eval ρ a) := rfl
@[simp] lemma eval_sqrt : eval ρ (sqrt a) = Real.sqrt (eval ρ a) := rfl
@[simp] lemma eval_abs : eval ρ (abs a) = |eval ρ a| := rfl
@[simp] lemma eval_pi : eval ρ pi = Real.pi := rfl
@[simp] lemma eval_lgamma : eval ρ (lgamma a) = Real.log (Real.Gamma (eval ρ a)) := rfl
end notation_lemmas

/-- an expression that does not contain variable `i` does not depend on `ρ i` -/
lemma eval_update_of_hasVar_false (i : ℕ) (ρ : ℕ → ℝ) (t : ℝ) (e : RExpr)
    (h : hasVar i e = false) : eval (Function.update ρ i t) e = eval ρ e := by
  induction e with
  | const q => rfl
  | var j =>
    have hj : j ≠ i := by simpa [hasVar] using h
    simp [eval, Function.update_of_ne hj]
  | add a b iha ihb =>
    simp only [hasVar, Bool.or_eq_false_iff] at h
    simp only [eval, iha h.1, ihb h.2]
  | sub a b iha ihb =>
    simp only [hasVar, Bool.or_eq_false_iff] at h
    simp only [eval, iha h.1, ihb h.2]
  | mul a b iha ihb =>
    simp only [hasVar, Bool.or_eq_false_iff] at h
    simp only [eval, iha h.1, ihb h.2]
  | div a b iha ihb =>
    simp only [hasVar, Bool.or_eq_false_iff] at h
    simp only [eval, iha h.1, ihb h.2]
  | neg a iha => simp only [eval, iha (by simpa [hasVar] using h)]
  | pow a n iha => simp only [eval, iha (by simpa [hasVar] using h)]
  | log a iha => simp only [eval, iha (by simpa [hasVar] using h)]
  | exp a iha => simp only [eval, iha (by simpa [hasVar] using h)]
  | sqrt a iha => simp only [eval, iha (by simpa [hasVar] using h)]
  | abs a iha => simp only [eval, iha (by simpa [hasVar] using h)]
  | pi => rfl
  | lgamma a iha => simp only [eval, iha (by simpa [hasVar] using h)]

/-- **Master theorem.**  Wherever `e` is `Safe`, the symbolic derivative `deriv i e` evaluates to
    the derivative of `t ↦ eval ρ[i ↦ t] e` at `t = ρ i`. -/
theorem hasDerivAt_deriv (i : ℕ) (ρ : ℕ → ℝ) (e : RExpr) (h : Safe i ρ e) :
    HasDerivAt (fun t => eval (Function.update ρ i t) e) (eval ρ (deriv i e)) (ρ i) := by
  have hρ : Function.update ρ i (ρ i) = ρ := Function.update_eq_self i ρ
  induction e with
  | const q => simpa [eval, deriv] using hasDerivAt_const (ρ i) ((q : ℚ) : ℝ)
  | var j =>
    by_cases hj : j = i
    · subst hj
      simpa [eval, deriv] using hasDerivAt_id' (ρ j)
    · simpa [eval, deriv, hj, Function.update_of_ne hj] using hasDerivAt_const (ρ i) (ρ j)
  | add a b iha ihb => exact (iha h.1).add (ihb h.2)
  | sub a b iha ihb => exact (iha h.1).sub (ihb h.2)
  | mul a b iha ihb =>
    have := (iha h.1).mul (ihb h.2)
    simp only [hρ] at this
    exact this
  | div a b iha ihb =>
    have hb : eval (Function.update ρ i (ρ i)) b ≠ 0 := by rw [hρ]; exact h.2.2
    have := (iha h.1).div (ihb h.2.1) hb
    simp only [hρ] at this
    exact this
  | neg a iha => exact (iha h).neg
  | pow a n iha =>
    have := (iha h).pow n
    simp only [hρ] at this
    refine this.congr_deriv ?_
    simp [eval, deriv]
  | log a iha =>
    have ha : eval (Function.update ρ i (ρ i)) a ≠ 0 := by rw [hρ]; exact ne_of_gt h.2
    have := (iha h.1).log ha
    simp only [hρ] at this
    exact this
  | exp a iha =>
    have := (iha h).exp
    simp only [hρ] at this
    exact this
  | sqrt a iha =>
    have ha : eval (Function.update ρ i (ρ i)) a ≠ 0 := by rw [hρ]; exact ne_of_gt h.2
    have := (iha h.1).sqrt ha
    simp only [hρ] at this
    exact this
  | abs a iha =>
    have ha : eval ρ a ≠ 0 := h.2
    have h1 : HasDerivAt (fun y : ℝ => |y|) (eval ρ a / |eval ρ a|) (eval ρ a) := by
      rcases lt_or_gt_of_ne ha with hneg | hpos
      · have := hasDerivAt_abs_neg hneg
        refine this.congr_deriv ?_
        rw [abs_of_neg hneg]; field_simp
      · have := hasDerivAt_abs_pos hpos
        refine this.congr_deriv ?_
        rw [abs_of_pos hpos]; field_simp
    have h2 : HasDerivAt (fun y : ℝ => |y|) (eval ρ a / |eval ρ a|)
        (eval (Function.update ρ i (ρ i)) a) := by rw [hρ]; exact h1
    exact h2.comp (ρ i) (iha h.1)
  | pi => simpa [eval, deriv] using hasDerivAt_const (ρ i) Real.pi
  | lgamma a _ =>
    have hc : (fun t => eval (Function.update ρ i t) (lgamma a)) = fun _ => eval ρ (lgamma a) := by
      funext t
      simp only [eval, eval_update_of_hasVar_false i ρ t a h.1]
    rw [hc]
    simpa [eval, deriv] using hasDerivAt_const (ρ i) (eval ρ (lgamma a))

/-- Corollary in the form used by the property files: a closed form `g` whose value agrees with
    the symbolic derivative is the derivative. -/
lemma hasDerivAt_of_eval_deriv_eq (i : ℕ) (ρ : ℕ → ℝ) (e g : RExpr) (h : Safe i ρ e)
    (hg : eval ρ (deriv i e) = eval ρ g) :
    HasDerivAt (fun t => eval (Function.update ρ i t) e) (eval ρ g) (ρ i) :=
  (hasDerivAt_deriv i ρ e h).congr_deriv hg

end CuqiVerif.RExpr
