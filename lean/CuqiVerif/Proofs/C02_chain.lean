import CuqiVerif.Model.C02_chain
import CuqiVerif.Props.C02

/-!
# C02 — helper definitions and lemmas for `Props/C02_chain.lean`

Generic facts about the loops of `Model/C02_chain.lean` (`smpSample`, `smpWarmup`, `runSession`,
`legSample`, `legSampleAdapt`): invariants of the transition state are invariants of the loops.
-/

namespace CuqiVerif.C02

open XVal

/-! ### the transitions on target FUNCTIONS (what the theorems quantify over) -/

/-- The same transitions as `stepLeaf`, with the target given as functions of the point instead of
    recorded values. -/
def stepFn (k : Kernel) (logd : Vec → XVal) (gradf : Vec → Vec) (intDtype : Bool) (st : St) (inp : Inp) :
    St × List Bool :=
  match k with
  | .expMH | .legMH =>
    let r := mhStep k logd st inp.z (inp.ells.headD nan); (r.1, [r.2])
  | .expPCN | .legPCN =>
    let r := pcnStep k logd inp.aux st inp.z (inp.ells.headD nan); (r.1, [r.2])
  | .expMALA | .legMALA =>
    let r := malaStep k logd gradf inp.aux st inp.z (inp.ells.headD nan); (r.1, [r.2])
  | .expCWMH | .legCWMH =>
    let r := cwStep k (fun _ => logd) st inp.z inp.ells intDtype; (r.1, r.2.1)

def Kernel.isMALA : Kernel → Bool
  | .expMALA | .legMALA => true
  | _ => false

/-- The cached values describe the current point: cached log-density (log-likelihood for pCN) is the
    target's value at the point, and for MALA the cached gradient is the gradient there. -/
def Coherent (k : Kernel) (logd : Vec → XVal) (gradf : Vec → Vec) (st : St) : Prop :=
  st.logd = logd st.x ∧ (k.isMALA = true → st.grad = gradf st.x)

/-- the chain of states visited from `st0` under the inputs (`st0` first) -/
def chainOf {ι : Type} (step : St → ι → St × List Bool) : St → List ι → List St
  | st0, [] => [st0]
  | st0, inp :: rest => st0 :: chainOf step (step st0 inp).1 rest

/-- the accept rows produced along the chain -/
def accOf {ι : Type} (step : St → ι → St × List Bool) : St → List ι → List (List Bool)
  | _, [] => []
  | st0, inp :: rest => (step st0 inp).2 :: accOf step (step st0 inp).1 rest

lemma chainOf_length {ι : Type} (step : St → ι → St × List Bool) (st0 : St) (inputs : List ι) :
    (chainOf step st0 inputs).length = inputs.length + 1 := by
  induction inputs generalizing st0 with
  | nil => rfl
  | cons inp rest ih => simp [chainOf, ih]

lemma accOf_length {ι : Type} (step : St → ι → St × List Bool) (st0 : St) (inputs : List ι) :
    (accOf step st0 inputs).length = inputs.length := by
  induction inputs generalizing st0 with
  | nil => rfl
  | cons inp rest ih => simp [accOf, ih]

lemma chainOf_all {ι : Type} (step : St → ι → St × List Bool) (P : St → Prop)
    (hstep : ∀ st inp, P st → P (step st inp).1) (st0 : St) (inputs : List ι) (h : P st0) :
    ∀ st ∈ chainOf step st0 inputs, P st := by
  induction inputs generalizing st0 with
  | nil => intro st hst; simp [chainOf] at hst; exact hst ▸ h
  | cons inp rest ih =>
    intro st hst
    simp only [chainOf, List.mem_cons] at hst
    rcases hst with rfl | hst
    · exact h
    · exact ih _ (hstep _ _ h) st hst

lemma chainOf_link {ι : Type} (step : St → ι → St × List Bool) (st0 : St) (inputs : List ι) (i : Nat)
    (hi : i < inputs.length) :
    ∃ st, (chainOf step st0 inputs)[i]? = some st ∧
      (chainOf step st0 inputs)[i + 1]? = some (step st inputs[i]).1 := by
  induction inputs generalizing st0 i with
  | nil => simp at hi
  | cons inp rest ih =>
    cases i with
    | zero =>
      refine ⟨st0, by simp [chainOf], ?_⟩
      cases rest <;> simp [chainOf]
    | succ i =>
      have hi' : i < rest.length := by simpa using hi
      obtain ⟨st, h1, h2⟩ := ih (step st0 inp).1 i hi'
      exact ⟨st, by simpa [chainOf] using h1, by simpa [chainOf] using h2⟩

/-- the legacy loop computes `chainOf` / `accOf` -/
lemma legAdvance_fold {ι : Type} (step : St → ι → St × List Bool) (inputs : List ι) (L : Leg) :
    (inputs.foldl (legAdvance step) L).chain = L.chain ++ (chainOf step L.cur inputs).tail ∧
    (inputs.foldl (legAdvance step) L).acc = L.acc ++ accOf step L.cur inputs := by
  induction inputs generalizing L with
  | nil => simp [chainOf, accOf]
  | cons inp rest ih =>
    simp only [List.foldl_cons]
    obtain ⟨h1, h2⟩ := ih (legAdvance step L inp)
    refine ⟨?_, ?_⟩
    · rw [h1]
      cases rest <;> simp [legAdvance, chainOf]
    · rw [h2]; simp [legAdvance, accOf]

/-! ### the experimental loops -/

lemma smpSample_invariant {ι : Type} (step : St → ι → St × List Bool) (P : St → Prop)
    (hstep : ∀ st inp, P st → P (step st inp).1) (s : Smp) (inputs : List ι) (h : P s.st) :
    P (smpSample step s inputs).st := by
  unfold smpSample
  induction inputs generalizing s with
  | nil => simpa using h
  | cons inp rest ih =>
    simp only [List.foldl_cons]
    apply ih
    exact hstep _ _ h

lemma smpTune_st (tn : Tuner) (wk : Window) (dim T i : Nat) (zi : Rat) (v : Vec) (s : Smp) :
    (smpTune tn wk dim T i zi v s).st = s.st ∨ (smpTune tn wk dim T i zi v s).st = { s.st with scale := v } := by
  unfold smpTune
  cases tn <;> simp

lemma smpWarmupBody_invariant {ι : Type} (tn : Tuner) (wk : Window) (dim T : Nat) (step : St → ι → St × List Bool)
    (zi : Nat → Rat) (ns : Nat → Vec) (P : St → Prop)
    (hstep : ∀ st inp, P st → P (step st inp).1) (hscale : ∀ st v, P st → P { st with scale := v })
    (s : Smp) (idx : Nat) (inp : ι) (h : P s.st) :
    P (smpWarmupBody tn wk dim T step zi ns s idx inp).st := by
  unfold smpWarmupBody
  simp only
  split
  · show P (smpTune _ _ _ _ _ _ _ _).st
    rcases smpTune_st tn wk dim T (idx / T) (zi (idx / T)) (ns s.nUpd) { s with st := (step s.st inp).1 } with h1 | h1
    · rw [h1]; exact hstep _ _ h
    · rw [h1]; exact hscale _ _ (hstep _ _ h)
  · exact hstep _ _ h

lemma smpWarmupFrom_invariant {ι : Type} (tn : Tuner) (wk : Window) (dim T : Nat) (step : St → ι → St × List Bool)
    (zi : Nat → Rat) (ns : Nat → Vec) (P : St → Prop)
    (hstep : ∀ st inp, P st → P (step st inp).1) (hscale : ∀ st v, P st → P { st with scale := v })
    (idx : Nat) (s : Smp) (inputs : List ι) (h : P s.st) :
    P (smpWarmupFrom tn wk dim T step zi ns idx s inputs).st := by
  induction inputs generalizing idx s with
  | nil => simpa [smpWarmupFrom] using h
  | cons inp rest ih =>
    simp only [smpWarmupFrom]
    apply ih
    exact smpWarmupBody_invariant tn wk dim T step zi ns P hstep hscale s idx inp h

/-! ### coherence of the caches is preserved by every transition -/

lemma cwSimple_fold_coherent (k : Kernel) (logd : Vec → XVal) (xall : Vec) (ells : List XVal) (js : List Nat)
    (s : Vec × XVal) (h : s.2 = logd s.1) :
    (js.foldl (cwSimple k (fun _ => logd) xall ells) s).2 = logd (js.foldl (cwSimple k (fun _ => logd) xall ells) s).1 := by
  induction js generalizing s with
  | nil => simpa using h
  | cons j js ih =>
    simp only [List.foldl_cons]
    apply ih
    unfold cwSimple
    simp only
    split
    · rfl
    · exact h

lemma stepFn_coherent (k : Kernel) (logd : Vec → XVal) (gradf : Vec → Vec) (intDtype : Bool) (st : St) (inp : Inp)
    (h : Coherent k logd gradf st) : Coherent k logd gradf (stepFn k logd gradf intDtype st inp).1 := by
  obtain ⟨h1, h2⟩ := h
  cases k <;> simp only [stepFn, Coherent, Kernel.isMALA] at h2 ⊢
  case expMH | legMH =>
    rcases mhStep_frame _ logd st inp.z (inp.ells.headD nan) with ⟨_, e⟩ | ⟨_, e⟩ <;> rw [e] <;> simp [h1]
  case expPCN | legPCN =>
    rcases pcnStep_frame _ logd inp.aux st inp.z (inp.ells.headD nan) with ⟨_, e⟩ | ⟨_, e⟩ <;> rw [e] <;> simp [h1]
  case expMALA | legMALA =>
    rcases malaStep_frame _ logd gradf inp.aux st inp.z (inp.ells.headD nan) with ⟨_, e⟩ | ⟨_, e⟩ <;> rw [e] <;>
      simp [h1, h2]
  case expCWMH | legCWMH =>
    rw [cwStep_eq_fold]
    simp only
    refine ⟨?_, by simp⟩
    exact cwSimple_fold_coherent _ logd _ _ _ (st.x, st.logd) h1

lemma stepFn_scale (k : Kernel) (logd : Vec → XVal) (gradf : Vec → Vec) (intDtype : Bool) (st : St) (inp : Inp) :
    (stepFn k logd gradf intDtype st inp).1.scale = st.scale := by
  cases k <;> simp only [stepFn]
  case expMH | legMH =>
    rcases mhStep_frame _ logd st inp.z (inp.ells.headD nan) with ⟨_, e⟩ | ⟨_, e⟩ <;> rw [e]
  case expPCN | legPCN =>
    rcases pcnStep_frame _ logd inp.aux st inp.z (inp.ells.headD nan) with ⟨_, e⟩ | ⟨_, e⟩ <;> rw [e]
  case expMALA | legMALA =>
    rcases malaStep_frame _ logd gradf inp.aux st inp.z (inp.ells.headD nan) with ⟨_, e⟩ | ⟨_, e⟩ <;> rw [e]
  case expCWMH | legCWMH =>
    rw [cwStep_eq_fold]

lemma coherent_rescale (k : Kernel) (logd : Vec → XVal) (gradf : Vec → Vec) (st : St) (v : Vec)
    (h : Coherent k logd gradf st) : Coherent k logd gradf { st with scale := v } := h

/-! ### tuning keeps `log lambd` finite -/

def AllFinite (l : List XVal) : Prop := ∀ L ∈ l, L.isFinite = true

lemma colMean_fin (w : List (List Bool)) (j : Nat) (hw : w ≠ []) : ∃ h : Rat, colMean w j = fin h := by
  unfold colMean
  have : w.isEmpty = false := by cases w <;> simp_all
  simp [this]

lemma rmStep_finite (L : XVal) (zeta star : Rat) (hat : XVal) (hL : L.isFinite = true) (hh : ∃ h, hat = fin h) :
    (rmStep L zeta star hat).isFinite = true := by
  obtain ⟨h, rfl⟩ := hh
  cases L <;> simp_all [rmStep, XVal.add, XVal.isFinite]

lemma tuneUpdate_finite (star zeta : Rat) (w : List (List Bool)) (l : List XVal) (hw : w ≠ []) (hl : AllFinite l) :
    AllFinite (tuneUpdate star zeta w l) := by
  intro L hL
  unfold tuneUpdate at hL
  rw [List.mem_mapIdx] at hL
  obtain ⟨i, hi, rfl⟩ := hL
  exact rmStep_finite _ _ _ _ (hl _ (List.getElem_mem hi)) (colMean_fin w i hw)

lemma tuneUpdate_length (star zeta : Rat) (w : List (List Bool)) (l : List XVal) :
    (tuneUpdate star zeta w l).length = l.length := by
  simp [tuneUpdate]

lemma cut_ne_nil (wk : Window) (acc : List (List Bool)) (T i : Nat) (hT : 0 < T) (hlen : i * T < acc.length) :
    wk.cut acc T i ≠ [] := by
  cases wk <;> simp only [Window.cut]
  · intro h
    have := congrArg List.length h
    simp at this
    omega
  · intro h
    have := congrArg List.length h
    simp at this
    omega

/-! ### the component loop on recorded values vs on the target function -/

/-- The recorded values `f` agree with `g` at every point the `g`-run of the component loop queries:
    at component `j` the loop evaluates `x_star` with coordinate `j` replaced. -/
def AgreeOn (k : Kernel) (f g : Nat → Vec → XVal) (xall : Vec) (ells : List XVal) : List Nat → CWLoop → Prop
  | [], _ => True
  | j :: js, L =>
    f j (L.xstar.set j (xall.getD j 0)) = g j (L.xstar.set j (xall.getD j 0)) ∧
      AgreeOn k f g xall ells js (cwBody k g xall ells L j)

lemma cwBody_congr (k : Kernel) (f g : Nat → Vec → XVal) (xall : Vec) (ells : List XVal) (L : CWLoop) (j : Nat)
    (h : f j (L.xstar.set j (xall.getD j 0)) = g j (L.xstar.set j (xall.getD j 0))) :
    cwBody k f xall ells L j = cwBody k g xall ells L j := by
  unfold cwBody
  simp only [h]

lemma cwFold_congr (k : Kernel) (f g : Nat → Vec → XVal) (xall : Vec) (ells : List XVal) (js : List Nat) (L : CWLoop)
    (h : AgreeOn k f g xall ells js L) :
    js.foldl (cwBody k f xall ells) L = js.foldl (cwBody k g xall ells) L := by
  induction js generalizing L with
  | nil => rfl
  | cons j js ih =>
    obtain ⟨h1, h2⟩ := h
    simp only [List.foldl_cons]
    rw [cwBody_congr k f g xall ells L j h1]
    exact ih _ h2

/-- the loop state `cwStep` starts from -/
def cwLoop0 (st : St) : CWLoop := { xt := st.x, xstar := st.x, evalT := st.logd, acc := [], queries := [] }

lemma cwStep_congr (k : Kernel) (f g : Nat → Vec → XVal) (st : St) (z : Vec) (ells : List XVal) (b : Bool)
    (h : AgreeOn k f g ((cwPropose st z).map (coerce b)) ells (List.range st.x.length) (cwLoop0 st)) :
    cwStep k f st z ells b = cwStep k g st z ells b := by
  unfold cwStep
  simp only
  have := cwFold_congr k f g _ ells _ _ h
  unfold cwLoop0 at this
  rw [this]

/-! ### histories with re-initialisation -/

lemma runPhase_invariant {ι : Type} (tn : Tuner) (wk : Window) (dim : Nat) (step : St → ι → St × List Bool)
    (P : St → Prop) (hstep : ∀ st inp, P st → P (step st inp).1)
    (hscale : ∀ st v, P st → P { st with scale := v }) (fresh s : Smp) (ph : Phase ι) (h : P s.st) :
    P (runPhase tn wk dim step fresh s ph).st := by
  cases ph with
  | sample inputs => exact smpSample_invariant step P hstep s inputs h
  | warmup T zi ns inputs => exact smpWarmupFrom_invariant tn wk dim T step zi ns P hstep hscale 0 s inputs h
  | rescale v => exact hscale _ _ h
  | reload => exact h

end CuqiVerif.C02
