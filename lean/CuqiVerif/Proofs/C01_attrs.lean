import CuqiVerif.Model.C01_attrs
import CuqiVerif.Proofs.C01
import Mathlib.Data.List.Perm.Subperm
import Mathlib.Tactic.Tauto

/-!
Helper definitions and lemmas for `Props/C01_attrs.lean`: the *specification* `bindAttr` /
`bindD` (what a distribution looks like once the environment `env` has been given to it), and the
proof that one `Distribution._condition` call moves `bindD env d₀` to `bindD env' d₀`.
-/
namespace CuqiVerif.C01

variable {V K : Type}

/-! ### keyword lists -/

lemma kwKeys_restrict_nodup (kw : Kw V) (names : List Name) (h : (kwKeys kw).Nodup) :
    (kwKeys (restrict kw names)).Nodup := by
  unfold kwKeys restrict at *
  exact (List.Sublist.map _ List.filter_sublist).nodup h

/-- `len(var_args) == len(accepted_keywords)` says: every accepted keyword was found -/
lemma restrict_length_eq_iff (kw : Kw V) (acc : List Name) (hkw : (kwKeys kw).Nodup) (hacc : acc.Nodup) :
    (restrict kw acc).length = acc.length ↔ ∀ n ∈ acc, n ∈ kwKeys kw := by
  have hlen : (restrict kw acc).length = (kwKeys (restrict kw acc)).length := by simp [kwKeys]
  have hnd := kwKeys_restrict_nodup kw acc hkw
  have hsub : kwKeys (restrict kw acc) ⊆ acc := kwKeys_restrict_subset kw acc
  constructor
  · intro h n hn
    have hp : (kwKeys (restrict kw acc)).Perm acc :=
      (List.subperm_of_subset hnd hsub).perm_of_length_le (by omega)
    exact ((mem_kwKeys_restrict kw acc n).1 (hp.mem_iff.2 hn)).1
  · intro h
    have h1 := (List.subperm_of_subset hnd hsub).length_le
    have hsub2 : acc ⊆ kwKeys (restrict kw acc) := fun n hn => (mem_kwKeys_restrict kw acc n).2 ⟨h n hn, hn⟩
    have h2 := (List.subperm_of_subset hacc hsub2).length_le
    omega

lemma kwGet_canon (sig : List Name) (g : Name → Option V) (n : Name) :
    kwGet (canon sig g) n = if n ∈ sig then g n else none := by
  induction sig with
  | nil => simp [canon, kwGet]
  | cons m r ih =>
    unfold canon at ih ⊢
    cases hg : g m with
    | none =>
      simp only [List.filterMap_cons, hg, Option.map_none, List.mem_cons]
      rw [ih]
      by_cases hnm : n = m
      · subst hnm; simp [hg]
      · simp [hnm]
    | some v =>
      simp only [List.filterMap_cons, hg, Option.map_some, kwGet, List.mem_cons]
      by_cases hnm : m = n
      · subst hnm; simp [hg]
      · rw [ih]; simp [hnm, Ne.symm hnm]

lemma canon_congr (sig : List Name) (g g' : Name → Option V) (h : ∀ n ∈ sig, g n = g' n) :
    canon sig g = canon sig g' := by
  unfold canon
  apply List.filterMap_congr
  intro n hn
  rw [h n hn]

lemma mem_remArgs_canon (sig : List Name) (g : Name → Option V) (n : Name) :
    n ∈ remArgs sig (canon sig g) ↔ n ∈ sig ∧ g n = none := by
  unfold remArgs
  simp only [List.mem_filter, Bool.not_eq_eq_eq_not, Bool.not_true, List.contains_eq_mem, decide_eq_false_iff_not]
  constructor
  · rintro ⟨hs, hk⟩
    refine ⟨hs, ?_⟩
    have := (kwGet_eq_none_iff (canon sig g) n).2 hk
    rw [kwGet_canon] at this
    simpa [hs] using this
  · rintro ⟨hs, hg⟩
    refine ⟨hs, ?_⟩
    apply (kwGet_eq_none_iff (canon sig g) n).1
    rw [kwGet_canon]; simp [hs, hg]

lemma remArgs_nodup (sig : List Name) (b : Kw V) (h : sig.Nodup) : (remArgs sig b).Nodup :=
  h.filter _

/-! ### the specification -/

/-- what a *fresh* mutable variable (as given to the constructor) looks like after the
    environment `env` has been made known to the distribution -/
def bindAttr (env : Name → Option V) (key : Name) : Attr V → Attr V
  | .val a => .val a
  | .none => match env key with | some v => .val (.given v) | none => .none
  | .fn id sig _ =>
    if sig.all (fun n => (env n).isSome) then .val (.app id (sig.filterMap env))
    else .fn id sig (canon sig env)

/-- the names through which `env` reaches a fresh mutable variable -/
def Attr.reads (key : Name) : Attr V → List Name
  | .val _ => []
  | .none => [key]
  | .fn _ sig _ => sig

lemma bindAttr_congr (env env' : Name → Option V) (key : Name) (a : Attr V)
    (h : ∀ n ∈ a.reads key, env n = env' n) : bindAttr env key a = bindAttr env' key a := by
  cases a with
  | val x => rfl
  | none => simp [bindAttr, h key (by simp [Attr.reads])]
  | fn id sig b =>
    have h' : ∀ n ∈ sig, env n = env' n := fun n hn => h n (by simpa [Attr.reads] using hn)
    have h1 : sig.all (fun n => (env n).isSome) = sig.all (fun n => (env' n).isSome) := by
      rw [Bool.eq_iff_iff]; simp only [List.all_eq_true]
      constructor <;> intro hh n hn
      · rw [← h' n hn]; exact hh n hn
      · rw [h' n hn]; exact hh n hn
    have h2 : sig.filterMap env = sig.filterMap env' := List.filterMap_congr h'
    simp [bindAttr, h1, h2, canon_congr sig env env' h']

/-- **One round of the loop on a mutable variable in state `bindAttr env`** gives the state
    `bindAttr env'`, `env'` = `env` completed by the keywords. -/
lemma condAttr_bind (env env' : Name → Option V) (kw : Kw V) (key : Name) (a : Attr V)
    (hkw : (kwKeys kw).Nodup)
    (hfresh : ∀ id sig b, a = .fn id sig b → sig.Nodup)
    (henv' : ∀ n ∈ a.reads key, env' n = match env n with | some v => some v | none => kwGet kw n)
    (hdirect : kwGet kw key ≠ none → env key = none ∧ (a = .none ∨ ∃ id sig b, a = .fn id sig b ∧ key ∈ sig)) :
    (condAttr kw key (bindAttr env key a)).1 = bindAttr env' key a := by
  cases a with
  | val x =>
    have hk : kwGet kw key = none := by
      by_contra hne
      rcases (hdirect hne).2 with h | ⟨_, _, _, h, _⟩ <;> cases h
    simp [bindAttr, condAttr, hk]
  | none =>
    have he := henv' key (by simp [Attr.reads])
    cases hek : env key with
    | some v =>
      have hk : kwGet kw key = none := by
        by_contra hne
        have := (hdirect hne).1; rw [hek] at this; cases this
      rw [hek] at he
      simp [bindAttr, hek, he, condAttr, hk]
    | none =>
      rw [hek] at he
      simp only [bindAttr, hek, he, condAttr]
      cases kwGet kw key <;> rfl
  | fn id sig b =>
    have hsn : sig.Nodup := hfresh id sig b rfl
    have he : ∀ n ∈ sig, env' n = match env n with | some v => some v | none => kwGet kw n :=
      fun n hn => henv' n (by simpa [Attr.reads] using hn)
    by_cases hall : sig.all (fun n => (env n).isSome) = true
    · -- everything known already: the variable holds a value, nothing happens
      have hall' := List.all_eq_true.1 hall
      have hk : kwGet kw key = none := by
        by_contra hne
        obtain ⟨h0, h1⟩ := hdirect hne
        rcases h1 with h | ⟨_, sig', _, h, hks⟩
        · cases h
        · cases h
          have := hall' key hks; rw [h0] at this; cases this
      have hee : ∀ n ∈ sig, env n = env' n := by
        intro n hn
        have h1 := hall' n hn
        rw [he n hn]
        cases hn' : env n with
        | none => rw [hn'] at h1; cases h1
        | some v => rfl
      rw [← bindAttr_congr env env' key (.fn id sig b) (by simpa [Attr.reads] using hee)]
      simp [bindAttr, hall, condAttr, hk]
    · -- a callable with open arguments
      have hopen : ∃ n ∈ sig, env n = none := by
        by_contra hcon
        apply hall
        apply List.all_eq_true.2
        intro n hn
        cases hn' : env n with
        | none => exact absurd ⟨n, hn, hn'⟩ hcon
        | some v => rfl
      set bound := canon sig env with hbound
      set acc := remArgs sig bound with hacc
      have hmemacc : ∀ n, n ∈ acc ↔ n ∈ sig ∧ env n = none := fun n => mem_remArgs_canon sig env n
      have haccnd : acc.Nodup := remArgs_nodup sig bound hsn
      have hg : ∀ n ∈ sig, kwGet (bound ++ restrict kw acc) n = env' n := by
        intro n hn
        rw [kwGet_append, kwGet_canon, kwGet_restrict, he n hn]
        simp only [hn, if_true]
        cases hn' : env n with
        | some v => rfl
        | none => simp [(hmemacc n).2 ⟨hn, hn'⟩]
      have hstate : bindAttr env key (.fn id sig b) = .fn id sig bound := by
        simp [bindAttr, hall, hbound]
      rw [hstate]
      show (condAttr kw key (.fn id sig bound)).1 = _
      unfold condAttr
      show (if ((restrict kw acc).length == acc.length) = true then _ else _ : Attr V × List Name).1 = _
      by_cases hA : ((restrict kw acc).length == acc.length) = true
      · rw [if_pos hA]
        have hfound := (restrict_length_eq_iff kw acc hkw haccnd).1 (by simpa using hA)
        have hall2 : sig.all (fun n => (env' n).isSome) = true := by
          apply List.all_eq_true.2
          intro n hn
          rw [he n hn]
          cases hn' : env n with
          | some v => rfl
          | none =>
            exact (kwGet_isSome_iff kw n).2 (hfound n ((hmemacc n).2 ⟨hn, hn'⟩))
        have hfm : sig.filterMap (kwGet (bound ++ restrict kw acc)) = sig.filterMap env' := List.filterMap_congr hg
        simp only [bindAttr, hall2, if_true]
        show Attr.val (.app id (sig.filterMap (kwGet (bound ++ restrict kw acc)))) = _
        rw [hfm]
      · rw [if_neg hA]
        have hnotfound : ¬ ∀ n ∈ acc, n ∈ kwKeys kw := fun h =>
          hA (by simpa using (restrict_length_eq_iff kw acc hkw haccnd).2 h)
        have hall2 : ¬ sig.all (fun n => (env' n).isSome) = true := by
          intro h2
          apply hnotfound
          intro n hn
          obtain ⟨hs, hnn⟩ := (hmemacc n).1 hn
          have := List.all_eq_true.1 h2 n hs
          rw [he n hs, hnn] at this
          exact (kwGet_isSome_iff kw n).1 this
        have hcan : canon sig (kwGet (bound ++ restrict kw acc)) = canon sig env' := canon_congr _ _ _ hg
        show (if (restrict kw acc).length > 0 then _ else _ : Attr V × List Name).1 = _
        by_cases hB : (restrict kw acc).length > 0
        · rw [if_pos hB]
          simp only [bindAttr, hall2, if_false]
          show Attr.fn id sig (canon sig (kwGet (bound ++ restrict kw acc))) = _
          rw [hcan]
          simp
        · rw [if_neg hB]
          have hva : restrict kw acc = [] := List.length_eq_zero_iff.1 (by omega)
          have hnk : ∀ n ∈ acc, n ∉ kwKeys kw := by
            intro n hn hk
            have := (mem_kwKeys_restrict kw acc n).2 ⟨hk, hn⟩
            rw [hva] at this; simp [kwKeys] at this
          have hk : kwGet kw key = none := by
            by_contra hne
            obtain ⟨h0, h1⟩ := hdirect hne
            rcases h1 with h | ⟨_, sig', _, h, hks⟩
            · cases h
            · cases h
              exact hnk key ((hmemacc key).2 ⟨hks, h0⟩) ((kwGet_isSome_iff kw key).1 (by cases hh : kwGet kw key <;> simp_all))
          have hee : ∀ n ∈ sig, env n = env' n := by
            intro n hn
            rw [he n hn]
            cases hn' : env n with
            | some v => rfl
            | none =>
              exact ((kwGet_eq_none_iff kw n).2 (hnk n ((hmemacc n).2 ⟨hn, hn'⟩))).symm
          rw [← bindAttr_congr env env' key (.fn id sig b) (by simpa [Attr.reads] using hee), hstate]
          simp [hk]

/-! ### the whole distribution -/

def bindAttrs (env : Name → Option V) (as : Attrs V) : Attrs V :=
  as.map (fun ka => (ka.1, bindAttr env ka.1 ka.2))

/-- the distribution `d` after `env` has been made known to it -/
def bindD (env : Name → Option V) (d : ADist V K) : ADist V K := { d with attrs := bindAttrs env d.attrs }

lemma mem_dedupInto (acc l : List Name) (k : Name) : k ∈ dedupInto acc l ↔ k ∈ acc ∨ k ∈ l := by
  induction l generalizing acc with
  | nil => simp [dedupInto]
  | cons m r ih =>
    unfold dedupInto
    by_cases hc : acc.contains m = true
    · have hm : m ∈ acc := by simpa using hc
      rw [if_pos hc, ih]
      constructor
      · rintro (h | h); exact Or.inl h; exact Or.inr (List.mem_cons_of_mem _ h)
      · rintro (h | h)
        · exact Or.inl h
        · rcases List.mem_cons.1 h with rfl | h
          · exact Or.inl hm
          · exact Or.inr h
    · rw [if_neg hc, ih]
      simp only [List.mem_append, List.mem_singleton, List.mem_cons]
      tauto

lemma mem_indirectVars (as : Attrs V) (k : Name) : k ∈ indirectVars as ↔ ∃ ka ∈ as, k ∈ ka.2.args := by
  unfold indirectVars
  rw [mem_dedupInto]
  simp [List.mem_flatMap]

lemma mem_noneVars (as : Attrs V) (k : Name) : k ∈ noneVars as ↔ (k, Attr.none) ∈ as := by
  unfold noneVars
  simp only [List.mem_map, List.mem_filter]
  constructor
  · rintro ⟨⟨k', a⟩, ⟨hm, hn⟩, rfl⟩
    cases a <;> simp [Attr.isNone] at hn
    exact hm
  · intro h; exact ⟨(k, .none), ⟨h, rfl⟩, rfl⟩

/-- keywords processed by one round of the loop -/
lemma mem_condAttr_processed (kw : Kw V) (key : Name) (a : Attr V) (k : Name) :
    k ∈ (condAttr kw key a).2 ↔ (k = key ∧ k ∈ kwKeys kw) ∨ (k ∈ kwKeys kw ∧ k ∈ a.args) := by
  have hfil : ∀ (l : List Name), kwKeys (kw.filter (fun kv => l.contains kv.1)) = kwKeys (restrict kw l) := fun _ => rfl
  cases hk : kwGet kw key with
  | none =>
    have hnot : key ∉ kwKeys kw := (kwGet_eq_none_iff kw key).1 hk
    have hkk : k = key → k ∉ kwKeys kw := fun h => h ▸ hnot
    cases a with
    | val x => simp only [condAttr, hk, Attr.args]; simp; exact hkk
    | none => simp only [condAttr, hk, Attr.args]; simp; exact hkk
    | fn id sig b =>
      simp only [condAttr, hk, Attr.args]
      split_ifs <;> simp only [List.nil_append, hfil, mem_kwKeys_restrict] <;> tauto
  | some v =>
    have hin : key ∈ kwKeys kw := (kwGet_isSome_iff kw key).1 (by simp [hk])
    have hkk : k = key → k ∈ kwKeys kw := fun h => h ▸ hin
    cases a with
    | val x => simp only [condAttr, hk, Attr.args]; simp; tauto
    | none => simp only [condAttr, hk, Attr.args]; simp; tauto
    | fn id sig b =>
      simp only [condAttr, hk, Attr.args]
      split_ifs <;> simp only [List.mem_append, List.mem_singleton, hfil, mem_kwKeys_restrict] <;> tauto

lemma dedupInto_filter (p : Name → Bool) (acc l : List Name) :
    (dedupInto acc l).filter p = dedupInto (acc.filter p) (l.filter p) := by
  induction l generalizing acc with
  | nil => simp [dedupInto]
  | cons k ks ih =>
    by_cases hp : p k = true
    · by_cases hc : k ∈ acc
      · have hc' : k ∈ acc.filter p := List.mem_filter.2 ⟨hc, hp⟩
        simp [dedupInto, hc, hc', hp, ih]
      · have hc' : k ∉ acc.filter p := fun h => hc (List.mem_filter.1 h).1
        simp [dedupInto, hc, hc', hp, ih, List.filter_append]
    · by_cases hc : k ∈ acc
      · simp [dedupInto, hc, hp, ih]
      · simp [dedupInto, hc, hp, ih, List.filter_append]


lemma indirectVars_filter' (p : Name → Bool) (as bs : Attrs V)
    (h : List.Forall₂ (fun a b => b.2.args = a.2.args.filter p) as bs) :
    indirectVars bs = (indirectVars as).filter p := by
  unfold indirectVars
  rw [dedupInto_filter]
  congr 1
  induction h with
  | nil => rfl
  | cons hab _ ih => simp [List.flatMap_cons, List.filter_append, hab, ih]

lemma remArgs_canon' (sig : List Name) (g : Name → Option V) :
    remArgs sig (canon sig g) = sig.filter (fun n => (g n).isNone) := by
  unfold remArgs
  apply List.filter_congr
  intro n hn
  have : n ∈ kwKeys (canon sig g) ↔ (g n).isSome := by
    simp only [kwKeys, canon, List.mem_map, List.mem_filterMap, Option.map_eq_some_iff]
    constructor
    · rintro ⟨⟨k, v⟩, ⟨m, _, w, hw, heq⟩, rfl⟩
      simp only [Prod.mk.injEq] at heq
      obtain ⟨rfl, rfl⟩ := heq
      simp [hw]
    · intro hs
      obtain ⟨v, hv⟩ := Option.isSome_iff_exists.1 hs
      exact ⟨(n, v), ⟨n, hn, v, hv, rfl⟩, rfl⟩
  cases hg : g n with
  | none => simp [hg] at this; simp [this]
  | some v => simp [hg] at this; simp [this]


lemma noneVars_cons (k : Name) (a : Attr V) (r : Attrs V) :
    noneVars ((k, a) :: r) = (if a.isNone = true then [k] else []) ++ noneVars r := by
  unfold noneVars
  by_cases h : a.isNone = true <;> simp [List.filter_cons, h]

lemma isNone_bindAttr (env : Name → Option V) (k : Name) (a : Attr V) :
    (bindAttr env k a).isNone = (a.isNone && (env k).isNone) := by
  cases a with
  | val x => rfl
  | none => cases he : env k <;> simp [bindAttr, he, Attr.isNone]
  | fn id sig b =>
    by_cases hall : sig.all (fun n => (env n).isSome) = true <;> simp [bindAttr, hall, Attr.isNone]

lemma noneVars_bind (env : Name → Option V) (as : Attrs V) :
    noneVars (bindAttrs env as) = (noneVars as).filter (fun n => (env n).isNone) := by
  induction as with
  | nil => rfl
  | cons ka r ih =>
    obtain ⟨k, a⟩ := ka
    have hc : bindAttrs env ((k, a) :: r) = (k, bindAttr env k a) :: bindAttrs env r := rfl
    rw [hc, noneVars_cons, noneVars_cons, ih, isNone_bindAttr, List.filter_append]
    congr 1
    by_cases h1 : a.isNone = true <;> by_cases h2 : (env k).isNone = true <;> simp [h1, h2, List.filter_cons]

lemma args_bindAttr (env : Name → Option V) (key : Name) (a : Attr V)
    (hfresh : ∀ id sig b, a = .fn id sig b → b = []) :
    (bindAttr env key a).args = a.args.filter (fun n => (env n).isNone) := by
  cases a with
  | val x => rfl
  | none => cases he : env key <;> simp [bindAttr, he, Attr.args]
  | fn id sig b =>
    have hb : b = [] := hfresh id sig b rfl
    subst hb
    have hsig : remArgs sig ([] : Kw V) = sig := by simp [remArgs, kwKeys]
    by_cases hall : sig.all (fun n => (env n).isSome) = true
    · have : sig.filter (fun n => (env n).isNone) = [] := by
        apply List.filter_eq_nil_iff.2
        intro n hn
        have := List.all_eq_true.1 hall n hn
        cases h : env n <;> simp_all
      simp [bindAttr, hall, Attr.args, hsig, this]
    · simp only [bindAttr, hall, Attr.args, hsig]
      exact remArgs_canon' sig env

/-- **conditioning variables after binding** = the original ones that `env` does not know, same order -/
lemma acondVars_bind (env : Name → Option V) (as : Attrs V)
    (hfresh : ∀ ka ∈ as, ∀ id sig b, ka.2 = .fn id sig b → b = []) :
    acondVars (bindAttrs env as) = (acondVars as).filter (fun n => (env n).isNone) := by
  unfold acondVars
  rw [List.filter_append, noneVars_bind]
  congr 1
  apply indirectVars_filter'
  unfold bindAttrs
  induction as with
  | nil => exact List.Forall₂.nil
  | cons ka r ih =>
    refine List.Forall₂.cons ?_ (ih (fun ka' h => hfresh ka' (List.mem_cons_of_mem _ h)))
    exact args_bindAttr env ka.1 ka.2 (hfresh ka List.mem_cons_self)

/-! ### ingredients of the result-level refinement -/

lemma dedupInto_nodup (acc l : List Name) (h : acc.Nodup) : (dedupInto acc l).Nodup := by
  induction l generalizing acc with
  | nil => simpa [dedupInto] using h
  | cons m r ih =>
    unfold dedupInto
    by_cases hc : acc.contains m = true
    · rw [if_pos hc]; exact ih acc h
    · rw [if_neg hc]
      apply ih
      have hm : m ∉ acc := by simpa using hc
      rw [List.nodup_append]
      refine ⟨h, by simp, ?_⟩
      intro a ha b hb
      simp only [List.mem_singleton] at hb
      subst hb
      rintro rfl
      exact hm ha

lemma kwKeys_zip_nodup (l : List Name) (args : List V) (h : l.Nodup) : (kwKeys (l.zip args)).Nodup := by
  induction l generalizing args with
  | nil => simp [kwKeys]
  | cons k r ih =>
    cases args with
    | nil => simp [kwKeys]
    | cons a as =>
      have hk : k ∉ r := (List.nodup_cons.1 h).1
      have : kwKeys ((k :: r).zip (a :: as)) = k :: kwKeys (r.zip as) := by simp [kwKeys]
      rw [this, List.nodup_cons]
      exact ⟨fun hin => hk (kwKeys_zip_subset r as k hin), ih as (List.nodup_cons.1 h).2⟩

lemma parseDist_ok (cv : List Name) (args : List V) (kw kw' : Kw V) (h : parseDist cv args kw = .ok kw') :
    kw' = kw ++ (cv ++ [mainKey]).zip args ∧ ∀ k ∈ kwKeys ((cv ++ [mainKey]).zip args), k ∉ kwKeys kw := by
  unfold parseDist at h
  by_cases h1 : args.length > cv.length + 1
  · rw [if_pos h1] at h; cases h
  · rw [if_neg h1] at h
    by_cases h2 : ((cv ++ [mainKey]).zip args).any (fun kv => (kwKeys kw).contains kv.1) = true
    · change (if ((cv ++ [mainKey]).zip args).any (fun kv => (kwKeys kw).contains kv.1) = true then _ else _) = _ at h
      rw [if_pos h2] at h; cases h
    · change (if ((cv ++ [mainKey]).zip args).any (fun kv => (kwKeys kw).contains kv.1) = true then _ else _) = _ at h
      rw [if_neg h2] at h
      refine ⟨by cases h; rfl, ?_⟩
      intro k hk hin
      apply h2
      simp only [kwKeys, List.mem_map] at hk
      obtain ⟨kv, hkv, rfl⟩ := hk
      exact List.any_eq_true.2 ⟨kv, hkv, by simpa using hin⟩

/-- keywords processed by the whole loop = the keywords that are conditioning variables -/
lemma processed_iff (as : Attrs V) (kw : Kw V) (k : Name) (hk : k ∈ kwKeys kw)
    (hmut : k ∈ as.map (·.1) → k ∈ acondVars as) :
    k ∈ (as.map (fun ka => (ka.1, condAttr kw ka.1 ka.2))).flatMap (fun kr => kr.2.2) ↔ k ∈ acondVars as := by
  simp only [List.mem_flatMap, List.mem_map]
  constructor
  · rintro ⟨kr, ⟨ka, hka, rfl⟩, hmem⟩
    rcases (mem_condAttr_processed kw ka.1 ka.2 k).1 hmem with ⟨rfl, _⟩ | ⟨_, hargs⟩
    · exact hmut (List.mem_map.2 ⟨ka, hka, rfl⟩)
    · exact List.mem_append_right _ ((mem_indirectVars as k).2 ⟨ka, hka, hargs⟩)
  · intro hcv
    rcases List.mem_append.1 hcv with hn | hi
    · refine ⟨_, ⟨(k, Attr.none), (mem_noneVars as k).1 hn, rfl⟩, ?_⟩
      exact (mem_condAttr_processed kw k .none k).2 (Or.inl ⟨rfl, hk⟩)
    · obtain ⟨ka, hka, hargs⟩ := (mem_indirectVars as k).1 hi
      exact ⟨_, ⟨ka, hka, rfl⟩, (mem_condAttr_processed kw ka.1 ka.2 k).2 (Or.inr ⟨hk, hargs⟩)⟩

/-- a bound fresh variable that is neither `None` nor has open arguments holds a value -/
lemma bindAttr_val_of (env : Name → Option V) (k : Name) (a : Attr V)
    (hfresh : ∀ id sig b, a = .fn id sig b → b = [])
    (h1 : (bindAttr env k a).isNone = false) (h2 : (bindAttr env k a).args = []) :
    ∃ v, bindAttr env k a = .val v := by
  cases a with
  | val x => exact ⟨x, rfl⟩
  | none =>
    cases he : env k with
    | some v => exact ⟨.given v, by simp [bindAttr, he]⟩
    | none => simp [bindAttr, he, Attr.isNone] at h1
  | fn id sig b =>
    by_cases hall : sig.all (fun n => (env n).isSome) = true
    · exact ⟨.app id (sig.filterMap env), by simp [bindAttr, hall]⟩
    · exfalso
      rw [args_bindAttr env k _ hfresh] at h2
      have hb : b = [] := hfresh id sig b rfl
      subst hb
      have hsig : remArgs sig ([] : Kw V) = sig := by simp [remArgs, kwKeys]
      simp only [Attr.args, hsig] at h2
      apply hall
      apply List.all_eq_true.2
      intro n hn
      have := List.filter_eq_nil_iff.1 h2 n hn
      cases h : env n <;> simp_all

/-- **definedness of the attribute values**: no conditioning variable left ⇒ every mutable variable holds a value -/
lemma avals_defined (env : Name → Option V) (as : Attrs V)
    (hfresh : ∀ ka ∈ as, ∀ id sig b, ka.2 = .fn id sig b → b = [])
    (h : acondVars (bindAttrs env as) = []) : ∃ vs, avals (bindAttrs env as) = some vs := by
  have hn : noneVars (bindAttrs env as) = [] := (List.append_eq_nil_iff.1 h).1
  have hi : indirectVars (bindAttrs env as) = [] := (List.append_eq_nil_iff.1 h).2
  have hall : ∀ ka ∈ as, ∃ v, bindAttr env ka.1 ka.2 = .val v := by
    intro ka hka
    apply bindAttr_val_of env ka.1 ka.2 (hfresh ka hka)
    · by_contra hne
      have hT : (bindAttr env ka.1 ka.2).isNone = true := by simpa using hne
      have : ka.1 ∈ noneVars (bindAttrs env as) := by
        unfold noneVars bindAttrs
        exact List.mem_map.2 ⟨(ka.1, bindAttr env ka.1 ka.2), List.mem_filter.2 ⟨List.mem_map.2 ⟨ka, hka, rfl⟩, hT⟩, rfl⟩
      rw [hn] at this; cases this
    · by_contra hne
      obtain ⟨n, hnmem⟩ := List.exists_mem_of_ne_nil _ hne
      have : n ∈ indirectVars (bindAttrs env as) :=
        (mem_indirectVars _ n).2 ⟨(ka.1, bindAttr env ka.1 ka.2), List.mem_map.2 ⟨ka, hka, rfl⟩, hnmem⟩
      rw [hi] at this; cases this
  clear h hn hi hfresh
  induction as with
  | nil => exact ⟨[], rfl⟩
  | cons ka r ih =>
    obtain ⟨v, hv⟩ := hall ka List.mem_cons_self
    obtain ⟨vs, hvs⟩ := ih (fun kb hkb => hall kb (List.mem_cons_of_mem _ hkb))
    refine ⟨(ka.1, v) :: vs, ?_⟩
    have : bindAttrs env (ka :: r) = (ka.1, .val v) :: bindAttrs env r := by simp [bindAttrs, hv]
    rw [this]
    simp [avals, hvs]

lemma bindAttrs_congr (env env' : Name → Option V) (as : Attrs V)
    (h : ∀ ka ∈ as, ∀ n ∈ ka.2.reads ka.1, env n = env' n) : bindAttrs env as = bindAttrs env' as := by
  unfold bindAttrs
  apply List.map_congr_left
  intro ka hka
  rw [bindAttr_congr env env' ka.1 ka.2 (h ka hka)]


end CuqiVerif.C01
