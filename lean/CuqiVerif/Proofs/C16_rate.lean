import CuqiVerif.Proofs.C16_precond
import Mathlib.Data.Finset.Max

/-!
# C16 — helper lemmas for the rate theorems (`Props/C16_rate.lean`)

Part 1 (abstract, any linearly ordered field, bilinear forms `IsIP`): convexity of
`F = ½‖A·−b‖² + g` along segments, the sharp form of the fundamental proximal-gradient inequality,
the `τ_k`-weighted telescoping step of Beck–Teboulle and its induction, and the Fejér-type
inequality of an over-relaxed proximal-gradient step with its summation.
Part 2: what the model's `fistaGo … adaptive = true` computes (`fistaYfrom`, `fistaY`).
-/

set_option linter.unusedSectionVars false
set_option linter.unusedVariables false

namespace CuqiVerif.C16

open Finset

section RateGeneric
variable {K : Type} [Field K] [LinearOrder K] [IsStrictOrderedRing K]
variable {E F : Type} [AddCommGroup E] [Module K E] [AddCommGroup F] [Module K F]
variable {ipE : E → E → K} {ipF : F → F → K} {A : E →ₗ[K] F} {At : F →ₗ[K] E} (b : F)

lemma IsIP.smul_sq (h : IsIP ipE) (c : K) (a : E) : ipE (c • a) (c • a) = c ^ 2 * ipE a a := by
  rw [h.smul_left, h.smul_right]; ring

lemma IsIP.neg_sq (h : IsIP ipE) (a : E) : ipE (-a) (-a) = ipE a a := by
  rw [h.neg_left, h.neg_right, neg_neg]

lemma IsIP.sub_sq_comm (h : IsIP ipE) (a c : E) : ipE (a - c) (a - c) = ipE (c - a) (c - a) := by
  rw [← h.neg_sq (a - c), neg_sub]

/-- `½‖A·−b‖²` is convex along segments -/
lemma lsq_convex_seg (hE : IsIP ipE) (hF : IsIP ipF) (hadj : ∀ d w, ipF (A d) w = ipE d (At w))
    (x z : E) (θ : K) (h0 : 0 ≤ θ) (h1 : θ ≤ 1) :
    lsq ipF A b (x + θ • (z - x)) ≤ lsq ipF A b x + θ * (lsq ipF A b z - lsq ipF A b x) := by
  have e1 := lsq_expand ipE ipF A At b hF hadj hE x (z - x) θ
  have e2 := lsq_expand ipE ipF A At b hF hadj hE x (z - x) 1
  have ez : x + (1 : K) • (z - x) = z := by rw [one_smul]; abel
  rw [ez] at e2
  have hc := hF.nonneg (A (z - x))
  have hp := mul_nonneg (mul_nonneg h0 (sub_nonneg.2 h1)) hc
  rw [e1, e2]
  nlinarith

/-- `F = ½‖A·−b‖² + g` is convex along segments of `C` -/
lemma obj_convex_seg (hE : IsIP ipE) (hF : IsIP ipF) (hadj : ∀ d w, ipF (A d) w = ipE d (At w))
    {C : Set E} {g : E → K} (hCg : ConvexData C g) (x z : E) (hx : x ∈ C) (hz : z ∈ C)
    (θ : K) (h0 : 0 ≤ θ) (h1 : θ ≤ 1) :
    lsq ipF A b (x + θ • (z - x)) + g (x + θ • (z - x))
      ≤ (lsq ipF A b x + g x) + θ * ((lsq ipF A b z + g z) - (lsq ipF A b x + g x)) := by
  have h2 := lsq_convex_seg b hE hF hadj x z θ h0 h1
  have h3 := hCg.conv x hx z hz θ h0 h1
  linarith

/-- **fundamental proximal-gradient inequality, sharp form** (no Lipschitz hypothesis; exact for the
    quadratic data term): `p` the proximal point of `y − t Aᵀ(Ay − b)`, `z ∈ C`:
    `2t (F(p) − F(z)) ≤ (‖z−y‖² − t‖A(z−y)‖²) − (‖p−y‖² − t‖A(p−y)‖²) − ‖z−p‖²` -/
lemma proxgrad_three_point_sharp (hE : IsIP ipE) (hF : IsIP ipF)
    (hadj : ∀ d w, ipF (A d) w = ipE d (At w))
    {C : Set E} {g : E → K} (hCg : ConvexData C g) {t : K} (ht : 0 < t) {y p z : E} (hz : z ∈ C)
    (hp : IsProxPoint ipE C g t (y - t • lsqGrad A At b y) p) :
    2 * t * ((lsq ipF A b p + g p) - (lsq ipF A b z + g z))
      ≤ (ipE (z - y) (z - y) - t * ipF (A (z - y)) (A (z - y)))
        - (ipE (p - y) (p - y) - t * ipF (A (p - y)) (A (p - y))) - ipE (z - p) (z - p) := by
  set G := lsqGrad A At b y with hG
  set d := p - y with hd
  have hs := hp.strong hE hCg ht.le z hz
  have e1 : p - (y - t • G) = d + t • G := by rw [hd]; abel
  have e2 : z - (y - t • G) = (z - y) + t • G := by abel
  rw [e1, e2, hE.expand, hE.expand] at hs
  have e5 : p = y + (1 : K) • d := by rw [one_smul, hd]; abel
  have e6 : z = y + (1 : K) • (z - y) := by rw [one_smul]; abel
  have hlp := lsq_expand ipE ipF A At b hF hadj hE y d 1
  rw [← e5, ← hG] at hlp
  have hlz := lsq_expand ipE ipF A At b hF hadj hE y (z - y) 1
  rw [← e6, ← hG] at hlz
  have hc1 : ipE G d = ipE d G := hE.comm _ _
  have hc2 : ipE G (z - y) = ipE (z - y) G := hE.comm _ _
  rw [hlp, hlz, hc1, hc2]
  nlinarith

/-! ### Beck–Teboulle: the `τ`-weighted step and its telescoping -/

/-- one weighted step, pure algebra: from the three-point inequality at the convex combination
    `w = x + θ(z⋆ − x)`, `θ τ = 1`, and convexity of the objective along that segment -/
lemma bt_step (hE : IsIP ipE) {x xn y zs w : E} {τ θ t Φx Φxn Φw Φz : K}
    (ht : 0 ≤ t) (hθ : θ * τ = 1) (hw : w = x + θ • (zs - x))
    (h3 : 2 * t * (Φxn - Φw) ≤ ipE (w - y) (w - y) - ipE (w - xn) (w - xn))
    (hc : Φw ≤ Φx + θ * (Φz - Φx)) :
    2 * t * (τ ^ 2 * (Φxn - Φz) - (τ ^ 2 - τ) * (Φx - Φz))
      + ipE (τ • xn - (τ - 1) • x - zs) (τ • xn - (τ - 1) • x - zs)
      ≤ ipE (τ • y - (τ - 1) • x - zs) (τ • y - (τ - 1) • x - zs) := by
  have hτw : τ • w = (τ - 1) • x + zs := by
    rw [hw, smul_add, smul_smul, mul_comm τ θ, hθ, one_smul]; module
  have e1 : τ • (w - y) = -(τ • y - (τ - 1) • x - zs) := by rw [smul_sub, hτw]; abel
  have e2 : τ • (w - xn) = -(τ • xn - (τ - 1) • x - zs) := by rw [smul_sub, hτw]; abel
  have n1 : τ ^ 2 * ipE (w - y) (w - y)
      = ipE (τ • y - (τ - 1) • x - zs) (τ • y - (τ - 1) • x - zs) := by
    rw [← hE.smul_sq, e1, hE.neg_sq]
  have n2 : τ ^ 2 * ipE (w - xn) (w - xn)
      = ipE (τ • xn - (τ - 1) • x - zs) (τ • xn - (τ - 1) • x - zs) := by
    rw [← hE.smul_sq, e2, hE.neg_sq]
  have hτ2 : 0 ≤ τ ^ 2 := sq_nonneg τ
  have h3' := mul_le_mul_of_nonneg_left h3 hτ2
  have e : τ ^ 2 * θ = τ := by rw [pow_two, mul_assoc, mul_comm τ θ, hθ, mul_one]
  have hc' : τ ^ 2 * Φw ≤ τ ^ 2 * Φx + τ * (Φz - Φx) := by
    have h := mul_le_mul_of_nonneg_left hc hτ2
    have e' : τ ^ 2 * (Φx + θ * (Φz - Φx)) = τ ^ 2 * Φx + (τ ^ 2 * θ) * (Φz - Φx) := by ring
    rw [e', e] at h; exact h
  have hc'' := mul_le_mul_of_nonneg_left hc' (by linarith : (0 : K) ≤ 2 * t)
  rw [← n1, ← n2]
  nlinarith

/-- **the `τ_k`-weighted telescoping of Beck–Teboulle**, abstract sequences: `x (k+1)` the proximal
    point of the gradient step at `y k`, `y (k+1) = x (k+1) + β_k (x (k+1) − x k)`,
    `β_k τ_{k+1} = τ_k − 1`, `τ_0 = 1 ≤ τ_k`, `τ_{k+1}² − τ_{k+1} ≤ τ_k²`, `z⋆` a minimiser over `C` -/
lemma bt_rate_core (hE : IsIP ipE) (hF : IsIP ipF) (hadj : ∀ d w, ipF (A d) w = ipE d (At w))
    {C : Set E} {g : E → K} (hCg : ConvexData C g) {t L : K} (ht : 0 < t)
    (hL : ∀ d, ipF (A d) (A d) ≤ L * ipE d d) (htL : t * L ≤ 1)
    (x y : ℕ → E) (β τ : ℕ → K)
    (hx : ∀ k, IsProxPoint ipE C g t (y k - t • lsqGrad A At b (y k)) (x (k + 1)))
    (hy0 : y 0 = x 0)
    (hy : ∀ k, y (k + 1) = x (k + 1) + β k • (x (k + 1) - x k))
    (hτ0 : τ 0 = 1) (hτ1 : ∀ k, 1 ≤ τ k)
    (hβ : ∀ k, β k * τ (k + 1) = τ k - 1)
    (hτ : ∀ k, τ (k + 1) ^ 2 - τ (k + 1) ≤ τ k ^ 2)
    (zs : E) (hzs : zs ∈ C) (hmin : ∀ z ∈ C, lsq ipF A b zs + g zs ≤ lsq ipF A b z + g z) (k : ℕ) :
    2 * t * (τ k ^ 2 * ((lsq ipF A b (x (k + 1)) + g (x (k + 1))) - (lsq ipF A b zs + g zs)))
      + ipE (τ k • x (k + 1) - (τ k - 1) • x k - zs) (τ k • x (k + 1) - (τ k - 1) • x k - zs)
      ≤ ipE (x 0 - zs) (x 0 - zs) := by
  induction k with
  | zero =>
    have h3 := proxgrad_three_point b hE hF hadj hCg ht hL htL hzs (hx 0)
    have e : τ 0 • x (0 + 1) - (τ 0 - 1) • x 0 - zs = x (0 + 1) - zs := by rw [hτ0]; module
    rw [e, hτ0, hE.sub_sq_comm (x (0 + 1)) zs, hE.sub_sq_comm (x 0) zs]
    rw [hy0] at h3
    linarith
  | succ k ih =>
    have hτpos : 0 < τ (k + 1) := lt_of_lt_of_le one_pos (hτ1 _)
    have hθ : (τ (k + 1))⁻¹ * τ (k + 1) = 1 := inv_mul_cancel₀ hτpos.ne'
    have hθ0 : 0 ≤ (τ (k + 1))⁻¹ := inv_nonneg.2 hτpos.le
    have hθ1 : (τ (k + 1))⁻¹ ≤ 1 := inv_le_one_of_one_le₀ (hτ1 _)
    have hxC : x (k + 1) ∈ C := (hx k).1
    have hwC := hCg.seg (x (k + 1)) hxC zs hzs _ hθ0 hθ1
    have h3 := proxgrad_three_point b hE hF hadj hCg ht hL htL hwC (hx (k + 1))
    have hc := obj_convex_seg b hE hF hadj hCg (x (k + 1)) zs hxC hzs _ hθ0 hθ1
    have hs := bt_step hE ht.le hθ rfl h3 hc
    have eu : τ (k + 1) • y (k + 1) - (τ (k + 1) - 1) • x (k + 1) - zs
        = τ k • x (k + 1) - (τ k - 1) • x k - zs := by
      rw [hy k, smul_add, smul_smul, mul_comm (τ (k + 1)) (β k), hβ k]; module
    rw [eu] at hs
    have hv := hmin (x (k + 1)) hxC
    have hv' : (τ (k + 1) ^ 2 - τ (k + 1))
          * ((lsq ipF A b (x (k + 1)) + g (x (k + 1))) - (lsq ipF A b zs + g zs))
        ≤ τ k ^ 2 * ((lsq ipF A b (x (k + 1)) + g (x (k + 1))) - (lsq ipF A b zs + g zs)) :=
      mul_le_mul_of_nonneg_right (hτ k) (by linarith)
    have hv'' := mul_le_mul_of_nonneg_left hv' (by linarith : (0 : K) ≤ 2 * t)
    have e2 : k + 1 + 1 = k + 2 := rfl
    linarith

/-! ### The over-relaxed proximal-gradient step (what `FISTA.solve` with `adaptive=True` performs) -/

/-- `⟨u,v⟩ − t⟨Au,Av⟩` is again a symmetric bilinear form with non-negative squares when `tL ≤ 1` -/
lemma ipM_isIP (hE : IsIP ipE) (hF : IsIP ipF) {t L : K} (ht : 0 ≤ t)
    (hL : ∀ d, ipF (A d) (A d) ≤ L * ipE d d) (htL : t * L ≤ 1) :
    IsIP (fun u v : E => ipE u v - t * ipF (A u) (A v)) where
  add_left a c d := by
    show ipE (a + c) d - t * ipF (A (a + c)) (A d) = _
    rw [map_add, hE.add_left, hF.add_left]; ring
  smul_left s a c := by
    show ipE (s • a) c - t * ipF (A (s • a)) (A c) = _
    rw [map_smul, hE.smul_left, hF.smul_left]; ring
  comm a c := by
    show ipE a c - t * ipF (A a) (A c) = ipE c a - t * ipF (A c) (A a)
    rw [hE.comm a c, hF.comm (A a) (A c)]
  nonneg a := by
    show 0 ≤ ipE a a - t * ipF (A a) (A a)
    have h1 := mul_le_mul_of_nonneg_left (hL a) ht
    have h2 := mul_le_mul_of_nonneg_right htL (hE.nonneg a)
    nlinarith

/-- Fejér-type inequality of one relaxed step `y⁺ = p + β(p − y)`, `β ≥ 0`, for any form `M`:
    from `s ≤ ‖z−y‖²_M − ‖p−y‖²_M − N`, `‖z−p‖²_M ≤ N` -/
lemma relax_step {ipM : E → E → K} (hM : IsIP ipM) {y p z yn : E} {β s N : K}
    (hyn : yn = p + β • (p - y)) (hβ : 0 ≤ β)
    (h3 : s ≤ ipM (z - y) (z - y) - ipM (p - y) (p - y) - N) (hN : ipM (z - p) (z - p) ≤ N) :
    ipM (z - yn) (z - yn) + (1 + β) * s + (1 - β ^ 2) * ipM (p - y) (p - y)
      ≤ ipM (z - y) (z - y) := by
  have e1 : z - yn = (z - p) + (-β) • (p - y) := by rw [hyn]; module
  have e2 : z - y = (z - p) + (1 : K) • (p - y) := by module
  have x1 := hM.expand (z - p) (p - y) (-β)
  have x2 := hM.expand (z - p) (p - y) 1
  rw [← e1] at x1
  rw [← e2] at x2
  have h4 : ipM (z - p) (z - p) + s + ipM (p - y) (p - y) ≤ ipM (z - y) (z - y) := by linarith
  have h5 := mul_le_mul_of_nonneg_left h4 (by linarith : (0 : K) ≤ 1 + β)
  rw [x1]
  nlinarith

/-- summation of `relax_step` along `y (k+1) = p k + β_k (p k − y k)`, `p k` the proximal point of
    the gradient step at `y k`, `0 ≤ β_k ≤ 1`, `tL ≤ 1`: for every `z ∈ C` and every `n`
    `Σ_{j<n} (1+β_j)·2t·(F(p_j) − F(z)) ≤ ‖z − y_0‖²` -/
lemma relax_sum (hE : IsIP ipE) (hF : IsIP ipF) (hadj : ∀ d w, ipF (A d) w = ipE d (At w))
    {C : Set E} {g : E → K} (hCg : ConvexData C g) {t L : K} (ht : 0 < t)
    (hL : ∀ d, ipF (A d) (A d) ≤ L * ipE d d) (htL : t * L ≤ 1)
    (p y : ℕ → E) (β : ℕ → K)
    (hp : ∀ k, IsProxPoint ipE C g t (y k - t • lsqGrad A At b (y k)) (p k))
    (hy : ∀ k, y (k + 1) = p k + β k • (p k - y k))
    (hβ0 : ∀ k, 0 ≤ β k) (hβ1 : ∀ k, β k ≤ 1)
    (z : E) (hz : z ∈ C) (n : ℕ) :
    (ipE (z - y n) (z - y n) - t * ipF (A (z - y n)) (A (z - y n)))
      + ∑ j ∈ range n, (1 + β j) * (2 * t * ((lsq ipF A b (p j) + g (p j)) - (lsq ipF A b z + g z)))
      ≤ ipE (z - y 0) (z - y 0) := by
  have hM := ipM_isIP (A := A) hE hF ht.le hL htL
  induction n with
  | zero =>
    have := mul_nonneg ht.le (hF.nonneg (A (z - y 0)))
    simp only [range_zero, sum_empty, add_zero]
    linarith
  | succ n ih =>
    rw [sum_range_succ]
    have h3 := proxgrad_three_point_sharp b hE hF hadj hCg ht hz (hp n)
    have hN : (fun u v : E => ipE u v - t * ipF (A u) (A v)) (z - p n) (z - p n)
        ≤ ipE (z - p n) (z - p n) := by
      have := mul_nonneg ht.le (hF.nonneg (A (z - p n)))
      show ipE (z - p n) (z - p n) - t * ipF (A (z - p n)) (A (z - p n)) ≤ _
      linarith
    have hr := relax_step hM (hy n) (hβ0 n) h3 hN
    have hd := hM.nonneg (p n - y n)
    have hb : 0 ≤ 1 - β n ^ 2 := by nlinarith [hβ0 n, hβ1 n]
    have hbd := mul_nonneg hb hd
    linarith

end RateGeneric

/-! ## Part 2: the model's loop with `adaptive = true` -/
section FistaLoop
variable {K V W : Type} [Field K] [LinearOrder K] [IsStrictOrderedRing K]
variable (oV : VOps K V) (oW : VOps K W) (fwd : V → W) (adj : W → V) (b : W)
  (prox : V → K → V) (t abstol : K) (maxit : ℕ)

/-- the points at which `FISTA.solve` (`adaptive=True`) evaluates the proximal-gradient map, started
    at `x` with the loop counter at `k0`: `Y_0 = x`, `Y_{i+1} = fistaExtrap (k0+i+1) (T Y_i) (Y_i)`
    — the code's `x_new + ((k-1)/(k+2))*(x_new - x_old)` with `x_old` the *extrapolated* point -/
def fistaYfrom (k0 : ℕ) (x : V) : ℕ → V
  | 0 => x
  | i + 1 => fistaExtrap oV (k0 + i + 1)
      (proxGradStep oV oW fwd adj b prox t (fistaYfrom k0 x i)) (fistaYfrom k0 x i)

/-- the same from the start: `Y_0 = x0`, counter 0 -/
def fistaY (x0 : V) : ℕ → V := fistaYfrom oV oW fwd adj b prox t 0 x0

lemma fistaYfrom_shift (k0 : ℕ) (x : V) (i : ℕ) :
    fistaYfrom oV oW fwd adj b prox t (k0 + 1)
        (fistaExtrap oV (k0 + 1) (proxGradStep oV oW fwd adj b prox t x) x) i
      = fistaYfrom oV oW fwd adj b prox t k0 x (i + 1) := by
  induction i with
  | zero => rfl
  | succ i ih =>
    show fistaExtrap oV (k0 + 1 + i + 1) _ _ = fistaExtrap oV (k0 + (i + 1) + 1) _ _
    rw [ih]
    have e : k0 + 1 + i + 1 = k0 + (i + 1) + 1 := by omega
    rw [e]

/-- what `fistaGo … adaptive = true` returns: the proximal-gradient map at `Y_j`, counter `k+j+1`;
    it returned before the fuel ran out only because the stopping test fired -/
lemma fistaGo_adaptive (fuel : ℕ) (x : V) (k : ℕ) :
    ∃ j, j ≤ fuel ∧ fistaGo oV oW fwd adj b prox t abstol maxit true fuel x k
      = (proxGradStep oV oW fwd adj b prox t (fistaYfrom oV oW fwd adj b prox t k x j), k + j + 1)
      ∧ (j < fuel →
          fistaSmall (oV.nrm2 (oV.sub
            (proxGradStep oV oW fwd adj b prox t (fistaYfrom oV oW fwd adj b prox t k x j))
            (fistaYfrom oV oW fwd adj b prox t k x j))) abstol = true ∨ maxit ≤ k + j + 1) := by
  induction fuel generalizing x k with
  | zero => exact ⟨0, le_rfl, rfl, fun h => absurd h (lt_irrefl 0)⟩
  | succ n ih =>
    unfold fistaGo
    simp only [if_true]
    split_ifs with hstop
    · refine ⟨0, Nat.zero_le _, rfl, fun _ => ?_⟩
      simpa [fistaYfrom, Bool.or_eq_true] using hstop
    · obtain ⟨j, hj, e, hs⟩ := ih (fistaExtrap oV (k + 1) (proxGradStep oV oW fwd adj b prox t x) x) (k + 1)
      refine ⟨j + 1, by omega, ?_, fun hlt => ?_⟩
      · rw [e, fistaYfrom_shift]
        congr 1; omega
      · have := hs (by omega)
        rw [fistaYfrom_shift] at this
        rcases this with h | h
        · exact Or.inl h
        · exact Or.inr (by omega)

end FistaLoop

end CuqiVerif.C16
