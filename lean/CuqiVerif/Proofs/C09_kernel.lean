import CuqiVerif.Model.C09
import CuqiVerif.Proofs.C09
import Mathlib.Probability.Kernel.Invariance
import Mathlib.Probability.Kernel.Composition.MeasureCompProd
import Mathlib.Probability.Kernel.Disintegration.StandardBorel
import Mathlib.MeasureTheory.Constructions.Pi

/-!
# C09 — Gibbs invariance on general state spaces: definitions and helper lemmas

Definitions used by the theorems of `Props/C09_kernel.lean`:

* `iterK K m` (`m` transitions of a Markov kernel), `sweepOf K steps l` (the fold over a list of
  blocks: for each block in turn `steps i` transitions of its update kernel `K i` — the shape of
  `Model/C09.lean: sweep = names.foldl blockUpdate`, `stepLoop`),
* two blocks `A × B`: `fstK`, `sndK` (update one coordinate by a draw from a kernel that sees the
  whole current state), `twoK`,
* any family of blocks `∀ j, α j`: `Rest α i` (the other blocks), `rest`, `split`, `glue`,
  `blockK i k` (block `i` := a draw from `k x`, `x` the whole current state), `sweepK`,
  `IsFullConditional π i κ` (`κ` is a regular conditional distribution of block `i` given the
  others, in Mathlib's disintegration form `π.map split = π.map rest ⊗ₘ κ`), `CondInvariantK`
  (for almost every value of the other blocks the block sampler leaves that conditional
  invariant, `Kernel.Invariant`), `exactK` (the exact Gibbs draw),
* the bridge to the executable model: `Draw.next`, `DrivenSteps`, `DrivenSweep`, `DrivenRun`
  (the stream of transitions fed to the model is the one a family of deterministic transition
  functions produces), `modelStep`, `sweepFn`.
-/
namespace CuqiVerif.C09

open MeasureTheory ProbabilityTheory

set_option linter.unusedSectionVars false

/-! ## a kernel that moves along the fibres of `glue` and preserves the conditional on each fibre -/

section fibred
variable {X C A : Type*} [MeasurableSpace X] [MeasurableSpace C] [MeasurableSpace A]

/-- The core computation.  `π` is the image under `glue : C × A → X` of `μ ⊗ₘ κ` (context `c ~ μ`,
    then block value `a ~ κ c`); `K` replaces the block value by a draw from `k` (which sees the whole
    state) and keeps the context.  If for `μ`-almost every context `c` the transition
    `a ↦ k (glue (c, a))` leaves `κ c` invariant, then `K` leaves `π` invariant. -/
lemma invariant_of_fibred (glue : C × A → X) (hglue : Measurable glue)
    (μ : Measure C) [SFinite μ] (κ : Kernel C A) [IsSFiniteKernel κ]
    (k : Kernel X A) (K : Kernel X X)
    (hK : ∀ c a, K (glue (c, a)) = (k (glue (c, a))).map (fun b => glue (c, b)))
    (hk : ∀ᵐ c ∂μ, Kernel.Invariant
      (k.comap (fun a => glue (c, a)) (hglue.comp measurable_prodMk_left)) (κ c)) :
    Kernel.Invariant K ((μ ⊗ₘ κ).map glue) := by
  rw [Kernel.Invariant]
  ext s hs
  rw [Measure.bind_apply hs K.aemeasurable, lintegral_map (K.measurable_coe hs) hglue,
    Measure.lintegral_compProd (f := fun p => K (glue p) s) ((K.measurable_coe hs).comp hglue),
    Measure.map_apply hglue hs, Measure.compProd_apply (hglue hs)]
  apply lintegral_congr_ae
  filter_upwards [hk] with c hc
  have hgc : Measurable (fun a => glue (c, a)) := hglue.comp measurable_prodMk_left
  calc ∫⁻ a, K (glue (c, a)) s ∂κ c
      = ∫⁻ a, k (glue (c, a)) ((fun b => glue (c, b)) ⁻¹' s) ∂κ c := by
        simp_rw [hK, Measure.map_apply hgc hs]
    _ = ((k.comap (fun a => glue (c, a)) hgc) ∘ₘ κ c) ((fun b => glue (c, b)) ⁻¹' s) := by
        rw [Measure.bind_apply (hgc hs) (Kernel.aemeasurable _)]
        simp only [Kernel.comap_apply]
    _ = κ c (Prod.mk c ⁻¹' (glue ⁻¹' s)) := by rw [hc]; rfl

end fibred

/-! ## iterated kernels and sweeps -/

section sweeps
variable {X : Type*} [MeasurableSpace X] {ι : Type*}

/-- `m` transitions of `K` -/
noncomputable def iterK (K : Kernel X X) : ℕ → Kernel X X
  | 0 => Kernel.id
  | m + 1 => K ∘ₖ iterK K m

/-- The sweep over the list of blocks `l` (any order, repetitions allowed): for each block `i` of
    the list in turn, `steps i` transitions of its update kernel `K i`.  Same fold as
    `Model/C09.lean: sweep = names.foldl blockUpdate` with `stepLoop … (nsteps n)` inside. -/
noncomputable def sweepOf (K : ι → Kernel X X) (steps : ι → ℕ) (l : List ι) : Kernel X X :=
  l.foldl (fun acc i => iterK (K i) (steps i) ∘ₖ acc) Kernel.id

lemma invariant_id (π : Measure X) : Kernel.Invariant (Kernel.id : Kernel X X) π := Measure.id_comp

lemma invariant_iterK {K : Kernel X X} {π : Measure X} (h : Kernel.Invariant K π) (m : ℕ) :
    Kernel.Invariant (iterK K m) π := by
  induction m with
  | zero => exact invariant_id π
  | succ m ih => exact h.comp ih

lemma invariant_foldl (K : ι → Kernel X X) (steps : ι → ℕ) (π : Measure X) (l : List ι)
    (h : ∀ i ∈ l, Kernel.Invariant (K i) π) (K0 : Kernel X X) (h0 : Kernel.Invariant K0 π) :
    Kernel.Invariant (l.foldl (fun acc i => iterK (K i) (steps i) ∘ₖ acc) K0) π := by
  induction l generalizing K0 with
  | nil => exact h0
  | cons i l ih =>
    rw [List.foldl_cons]
    exact ih (fun j hj => h j (List.mem_cons_of_mem _ hj)) _
      ((invariant_iterK (h i (List.mem_cons_self)) (steps i)).comp h0)

lemma invariant_sweepOf (K : ι → Kernel X X) (steps : ι → ℕ) (π : Measure X) (l : List ι)
    (h : ∀ i ∈ l, Kernel.Invariant (K i) π) : Kernel.Invariant (sweepOf K steps l) π :=
  invariant_foldl K steps π l h _ (invariant_id π)

instance isMarkov_iterK (K : Kernel X X) [IsMarkovKernel K] (m : ℕ) : IsMarkovKernel (iterK K m) := by
  induction m with
  | zero => exact inferInstanceAs (IsMarkovKernel Kernel.id)
  | succ m ih => exact inferInstanceAs (IsMarkovKernel (K ∘ₖ iterK K m))

lemma isMarkov_foldl (K : ι → Kernel X X) [∀ i, IsMarkovKernel (K i)] (steps : ι → ℕ) (l : List ι)
    (K0 : Kernel X X) [IsMarkovKernel K0] :
    IsMarkovKernel (l.foldl (fun acc i => iterK (K i) (steps i) ∘ₖ acc) K0) := by
  induction l generalizing K0 with
  | nil => exact inferInstanceAs (IsMarkovKernel K0)
  | cons i l ih =>
    rw [List.foldl_cons]
    exact ih _

instance isMarkov_sweepOf (K : ι → Kernel X X) [∀ i, IsMarkovKernel (K i)] (steps : ι → ℕ)
    (l : List ι) : IsMarkovKernel (sweepOf K steps l) := isMarkov_foldl K steps l _

/-! ### deterministic kernels: the kernel-level sweep is the point-level fold -/

lemma comp_apply_of_dirac {K1 K2 : Kernel X X} {x y : X} (h : K1 x = Measure.dirac y) :
    (K2 ∘ₖ K1) x = K2 y := by
  rw [Kernel.comp_apply, h, Measure.dirac_bind K2.measurable]

lemma iterK_dirac {K : Kernel X X} {F : X → X} (h : ∀ x, K x = Measure.dirac (F x)) (m : ℕ) (x : X) :
    iterK K m x = Measure.dirac (F^[m] x) := by
  induction m with
  | zero => simp [iterK, Kernel.id_apply]
  | succ m ih =>
    rw [iterK, comp_apply_of_dirac ih, h, Function.iterate_succ_apply']

lemma foldl_dirac {K : ι → Kernel X X} {F : ι → X → X} (h : ∀ i x, K i x = Measure.dirac (F i x))
    (steps : ι → ℕ) (l : List ι) (K0 : Kernel X X) (x y : X) (h0 : K0 x = Measure.dirac y) :
    (l.foldl (fun acc i => iterK (K i) (steps i) ∘ₖ acc) K0) x
      = Measure.dirac (l.foldl (fun z i => (F i)^[steps i] z) y) := by
  induction l generalizing K0 y with
  | nil => exact h0
  | cons i l ih =>
    rw [List.foldl_cons, List.foldl_cons]
    apply ih
    rw [comp_apply_of_dirac h0, iterK_dirac (h i)]

lemma sweepOf_dirac {K : ι → Kernel X X} {F : ι → X → X} (h : ∀ i x, K i x = Measure.dirac (F i x))
    (steps : ι → ℕ) (l : List ι) (x : X) :
    sweepOf K steps l x = Measure.dirac (l.foldl (fun z i => (F i)^[steps i] z) x) :=
  foldl_dirac h steps l _ x x (by simp [Kernel.id_apply])

end sweeps

/-! ## two blocks -/

section two
variable {A B : Type*} [MeasurableSpace A] [MeasurableSpace B]

/-- update of the second block: `(a, b) ↦ (a, b')`, `b' ~ k (a, b)` -/
noncomputable def sndK (k : Kernel (A × B) B) : Kernel (A × B) (A × B) :=
  Kernel.deterministic Prod.fst measurable_fst ×ₖ k

/-- update of the first block: `(a, b) ↦ (a', b)`, `a' ~ k (a, b)` -/
noncomputable def fstK (k : Kernel (A × B) A) : Kernel (A × B) (A × B) :=
  k ×ₖ Kernel.deterministic Prod.snd measurable_snd

/-- the two block updates as a family indexed by `Bool` (`false`: first block, `true`: second) -/
noncomputable def twoK (kA : Kernel (A × B) A) (kB : Kernel (A × B) B) : Bool → Kernel (A × B) (A × B)
  | false => fstK kA
  | true => sndK kB

lemma sndK_apply (k : Kernel (A × B) B) [IsSFiniteKernel k] (x : A × B) :
    sndK k x = (k x).map (Prod.mk x.1) := by
  rw [sndK, Kernel.prod_apply, Kernel.deterministic_apply, Measure.dirac_prod]

lemma fstK_apply (k : Kernel (A × B) A) [IsSFiniteKernel k] (x : A × B) :
    fstK k x = (k x).map (fun a => (a, x.2)) := by
  rw [fstK, Kernel.prod_apply, Kernel.deterministic_apply, Measure.prod_dirac]

instance (k : Kernel (A × B) B) [IsMarkovKernel k] : IsMarkovKernel (sndK k) := by
  unfold sndK; infer_instance

instance (k : Kernel (A × B) A) [IsMarkovKernel k] : IsMarkovKernel (fstK k) := by
  unfold fstK; infer_instance

instance (kA : Kernel (A × B) A) (kB : Kernel (A × B) B) [IsMarkovKernel kA] [IsMarkovKernel kB]
    (b : Bool) : IsMarkovKernel (twoK kA kB b) := by
  cases b <;> (unfold twoK; infer_instance)

lemma invariant_sndK (μ : Measure A) [SFinite μ] (κ : Kernel A B) [IsSFiniteKernel κ]
    (k : Kernel (A × B) B) [IsSFiniteKernel k]
    (hk : ∀ᵐ a ∂μ, Kernel.Invariant (k.comap (Prod.mk a) measurable_prodMk_left) (κ a)) :
    Kernel.Invariant (sndK k) (μ ⊗ₘ κ) := by
  have := invariant_of_fibred (X := A × B) id measurable_id μ κ k (sndK k)
    (fun c a => by rw [sndK_apply]; rfl) hk
  rwa [Measure.map_id] at this

lemma invariant_fstK (ν : Measure B) [SFinite ν] (η : Kernel B A) [IsSFiniteKernel η]
    (k : Kernel (A × B) A) [IsSFiniteKernel k]
    (hk : ∀ᵐ b ∂ν, Kernel.Invariant (k.comap (fun a => (a, b)) measurable_prodMk_right) (η b)) :
    Kernel.Invariant (fstK k) ((ν ⊗ₘ η).map Prod.swap) :=
  invariant_of_fibred (X := A × B) Prod.swap measurable_swap ν η k (fstK k)
    (fun c a => by rw [fstK_apply]; rfl) hk

end two

/-! ## any family of blocks -/

section pi
variable {ι : Type*} [DecidableEq ι] {α : ι → Type*} [∀ i, MeasurableSpace (α i)]

/-- the values of all blocks except `i` -/
abbrev Rest (α : ι → Type*) (i : ι) := ∀ j : {j : ι // j ≠ i}, α j

/-- forget block `i` -/
def rest (i : ι) (x : ∀ j, α j) : Rest α i := fun j => x j

/-- `(other blocks, block i)` -/
def split (i : ι) (x : ∀ j, α j) : Rest α i × α i := (rest i x, x i)

/-- the state with the other blocks at `p.1` and block `i` at `p.2` -/
def glue (i : ι) (p : Rest α i × α i) : ∀ j, α j :=
  fun j => if h : j = i then h ▸ p.2 else p.1 ⟨j, h⟩

lemma measurable_rest (i : ι) : Measurable (rest (α := α) i) :=
  measurable_pi_iff.2 fun _ => measurable_pi_apply _

lemma measurable_split (i : ι) : Measurable (split (α := α) i) :=
  (measurable_rest i).prodMk (measurable_pi_apply i)

lemma measurable_glue (i : ι) : Measurable (glue (α := α) i) := by
  refine measurable_pi_iff.2 fun j => ?_
  by_cases h : j = i
  · subst h
    simpa [glue] using measurable_snd
  · simp only [glue, h, dite_false]
    exact (measurable_pi_apply _).comp measurable_fst

lemma measurable_glue_right (i : ι) (c : Rest α i) : Measurable (fun a : α i => glue i (c, a)) :=
  (measurable_glue i).comp measurable_prodMk_left

@[simp] lemma glue_split (i : ι) (x : ∀ j, α j) : glue i (split i x) = x := by
  funext j
  by_cases h : j = i
  · subst h; simp [glue, split]
  · simp [glue, split, rest, h]

@[simp] lemma split_glue (i : ι) (p : Rest α i × α i) : split i (glue i p) = p := by
  rcases p with ⟨c, a⟩
  ext j
  · have : (j : ι) ≠ i := j.2
    simp [split, rest, glue, this]
  · simp [split, glue]

@[simp] lemma rest_glue (i : ι) (c : Rest α i) (a : α i) : rest i (glue i (c, a)) = c :=
  congrArg Prod.fst (split_glue i (c, a))

@[simp] lemma glue_self (i : ι) (c : Rest α i) (a : α i) : glue i (c, a) i = a :=
  congrArg Prod.snd (split_glue i (c, a))

lemma update_glue (i : ι) (c : Rest α i) (a b : α i) :
    Function.update (glue i (c, a)) i b = glue i (c, b) := by
  funext j
  by_cases h : j = i
  · subst h; simp [glue]
  · simp [glue, h]

/-- The update of block `i`: the new value of block `i` is drawn from `k x`, where `x` is the whole
    current state (so the block sampler sees the most recent values of the other blocks *and* its
    own current value); all other blocks are kept. -/
noncomputable def blockK (i : ι) (k : Kernel (∀ j, α j) (α i)) : Kernel (∀ j, α j) (∀ j, α j) :=
  (Kernel.id ×ₖ k).map (fun p => Function.update p.1 i p.2)

lemma blockK_apply (i : ι) (k : Kernel (∀ j, α j) (α i)) [IsSFiniteKernel k] (x : ∀ j, α j) :
    blockK i k x = (k x).map (Function.update x i) := by
  rw [blockK, Kernel.map_apply _ measurable_update', Kernel.prod_apply, Kernel.id_apply,
    Measure.dirac_prod, Measure.map_map measurable_update' measurable_prodMk_left]
  rfl

instance isMarkov_blockK (i : ι) (k : Kernel (∀ j, α j) (α i)) [IsMarkovKernel k] :
    IsMarkovKernel (blockK i k) := by
  unfold blockK
  exact Kernel.IsMarkovKernel.map _ measurable_update'

/-- the Gibbs sweep: `sweepOf` applied to the block updates -/
noncomputable def sweepK (ks : ∀ i, Kernel (∀ j, α j) (α i)) (steps : ι → ℕ) (l : List ι) :
    Kernel (∀ j, α j) (∀ j, α j) :=
  sweepOf (fun i => blockK i (ks i)) steps l

/-- `κ` is (a version of) the conditional distribution of block `i` given the other blocks under
    `π`: `π` disintegrates as (law of the other blocks) `⊗ₘ κ`. -/
def IsFullConditional (π : Measure (∀ j, α j)) (i : ι) (κ : Kernel (Rest α i) (α i)) : Prop :=
  π.map (split i) = (π.map (rest i)) ⊗ₘ κ

/-- For almost every value `c` of the other blocks, the block sampler — as a transition on block
    `i` alone, `a ↦ k (c with block i := a)` — leaves the conditional distribution `κ c` invariant. -/
def CondInvariantK (π : Measure (∀ j, α j)) (i : ι) (κ : Kernel (Rest α i) (α i))
    (k : Kernel (∀ j, α j) (α i)) : Prop :=
  ∀ᵐ c ∂(π.map (rest i)),
    Kernel.Invariant (k.comap (fun a => glue i (c, a)) (measurable_glue_right i c)) (κ c)

/-- the exact Gibbs draw: block `i` ~ `κ (other blocks)`, whatever its current value -/
noncomputable def exactK (i : ι) (κ : Kernel (Rest α i) (α i)) : Kernel (∀ j, α j) (α i) :=
  κ.comap (rest i) (measurable_rest i)

instance (i : ι) (κ : Kernel (Rest α i) (α i)) [IsMarkovKernel κ] : IsMarkovKernel (exactK i κ) := by
  unfold exactK; infer_instance

lemma eq_map_glue (π : Measure (∀ j, α j)) (i : ι) (κ : Kernel (Rest α i) (α i))
    (hdis : IsFullConditional π i κ) : π = ((π.map (rest i)) ⊗ₘ κ).map (glue i) := by
  rw [← hdis, Measure.map_map (measurable_glue i) (measurable_split i)]
  have : glue (α := α) i ∘ split i = id := funext (glue_split i)
  rw [this, Measure.map_id]

lemma invariant_blockK (π : Measure (∀ j, α j)) [SFinite π] (i : ι) (κ : Kernel (Rest α i) (α i))
    [IsSFiniteKernel κ] (hdis : IsFullConditional π i κ) (k : Kernel (∀ j, α j) (α i))
    [IsSFiniteKernel k] (hk : CondInvariantK π i κ k) : Kernel.Invariant (blockK i k) π := by
  have := invariant_of_fibred (glue i) (measurable_glue i) (π.map (rest i)) κ k (blockK i k)
    (fun c a => by
      rw [blockK_apply]
      congr 1
      funext b
      exact update_glue i c a b) hk
  rwa [← eq_map_glue π i κ hdis] at this

lemma condInvariantK_exactK (π : Measure (∀ j, α j)) (i : ι) (κ : Kernel (Rest α i) (α i))
    [IsMarkovKernel κ] : CondInvariantK π i κ (exactK i κ) := by
  refine Filter.Eventually.of_forall fun c => ?_
  rw [Kernel.Invariant]
  ext s hs
  rw [Measure.bind_apply hs (Kernel.aemeasurable _)]
  simp [exactK, Kernel.comap_apply]

lemma isFullConditional_condKernel (π : Measure (∀ j, α j)) [IsFiniteMeasure π] (i : ι)
    [StandardBorelSpace (α i)] [Nonempty (α i)] :
    IsFullConditional π i (π.map (split i)).condKernel := by
  have h := (π.map (split i)).disintegrate (π.map (split i)).condKernel
  have hfst : (π.map (split i)).fst = π.map (rest i) := by
    rw [Measure.fst, Measure.map_map measurable_fst (measurable_split i)]
    rfl
  rw [hfst] at h
  exact h.symm

lemma blockK_dirac (i : ι) (f : (∀ j, α j) → α i) (hf : Measurable f) (x : ∀ j, α j) :
    blockK i (Kernel.deterministic f hf) x = Measure.dirac (Function.update x i (f x)) := by
  rw [blockK_apply, Kernel.deterministic_apply]
  exact Measure.map_dirac' (measurable_update x) _

end pi

/-! ## bridge to the executable model (`Model/C09.lean`) -/

section model
variable {N V : Type} [DecidableEq N]

/-- where a transition ends: the proposed point if the sampler moved, else the current point -/
def Draw.next (d : Draw V) (cur : V) : V := if d.acc then d.value else cur

lemma step_currentPoint (s : Smp N V) (d : Draw V) :
    (s.step d).currentPoint = d.next s.currentPoint := by
  unfold Smp.step Draw.next
  split <;> rfl

/-- the `k` transitions the model's `stepLoop` consumes from position `pos` on are those of the
    transition function `φ` (each one ends at `φ (current point)`) -/
def DrivenSteps (φ : V → V) (ds : Nat → Draw V) : Nat → Nat → Smp N V → Prop
  | 0, _, _ => True
  | k + 1, pos, s =>
    (ds pos).next s.currentPoint = φ s.currentPoint ∧ DrivenSteps φ ds k (pos + 1) (s.step (ds pos))

/-- Every transition the model consumes while sweeping over the blocks `l` from state `g` is the
    one prescribed by `Φ n tgt` — the (deterministic) transition function of block `n`'s sampler
    when handed the target with conditioning dictionary `tgt` — at the sampler's current point. -/
def DrivenSweep (Φ : N → List (N × V) → V → V) (ds : Nat → Draw V) : List N → HG N V → Prop
  | [], _ => True
  | n :: l, g =>
    DrivenSteps (Φ n (others g.names g.cur n)) ds (g.nsteps n) g.pos (startSmp g n)
      ∧ DrivenSweep Φ ds l (blockUpdate ds g n)

/-- the same for `k` sweeps of `sampleN` -/
def DrivenRun (Φ : N → List (N × V) → V → V) (ds : Nat → Draw V) : Nat → HG N V → Prop
  | 0, _ => True
  | k + 1, g => DrivenSweep Φ ds g.names g ∧ DrivenRun Φ ds k (store (sweep ds g))

/-- one transition of block `n` on the whole state: block `n` moves to `Φ n (others …) (y n)` -/
def modelStep (Φ : N → List (N × V) → V → V) (names : List N) (n : N) (y : N → V) : N → V :=
  upd y n (Φ n (others names y n) (y n))

/-- the block transition as a function of the whole state (what is plugged into `blockK`) -/
def modelDraw (Φ : N → List (N × V) → V → V) (names : List N) (n : N) (y : N → V) : V :=
  Φ n (others names y n) (y n)

/-- the sweep as a function on states: the point-level fold -/
def sweepFn (Φ : N → List (N × V) → V → V) (names : List N) (steps : N → Nat) (l : List N)
    (y : N → V) : N → V :=
  l.foldl (fun z n => (modelStep Φ names n)^[steps n] z) y

lemma upd_eq_update (y : N → V) (n : N) (a : V) : upd y n a = Function.update y n a := by
  funext m
  simp [upd, Function.update_apply]

lemma upd_self (y : N → V) (n : N) : upd y n (y n) = y := by
  funext m
  by_cases h : m = n <;> simp [upd, h]

lemma upd_upd (y : N → V) (n : N) (a b : V) : upd (upd y n a) n b = upd y n b := by
  funext m
  by_cases h : m = n <;> simp [upd, h]

lemma others_upd (names : List N) (y : N → V) (n : N) (a : V) :
    others names (upd y n a) n = others names y n := by
  unfold others
  apply List.map_congr_left
  intro m hm
  have : m ≠ n := by simpa using (List.mem_filter.1 hm).2
  simp [upd, this]

lemma stepEnd_of_driven (φ : V → V) (ds : Nat → Draw V) (k pos : Nat) (s : Smp N V)
    (h : DrivenSteps φ ds k pos s) : (stepEnd ds k pos s).currentPoint = φ^[k] s.currentPoint := by
  induction k generalizing pos s with
  | zero => rfl
  | succ k ih =>
    obtain ⟨h1, h2⟩ := h
    rw [stepEnd, ih _ _ h2, step_currentPoint, h1, Function.iterate_succ_apply]

lemma modelStep_iterate (Φ : N → List (N × V) → V → V) (names : List N) (n : N) (k : Nat)
    (y : N → V) :
    (modelStep Φ names n)^[k] y = upd y n ((Φ n (others names y n))^[k] (y n)) := by
  induction k generalizing y with
  | zero => simp [upd_self]
  | succ k ih =>
    rw [Function.iterate_succ_apply, ih, Function.iterate_succ_apply]
    simp [modelStep, others_upd, upd_upd, upd]

lemma blockUpdate_cur_of_driven (Φ : N → List (N × V) → V → V) (ds : Nat → Draw V) (g : HG N V)
    (n : N) (hs : Sync g)
    (h : DrivenSteps (Φ n (others g.names g.cur n)) ds (g.nsteps n) g.pos (startSmp g n)) :
    (blockUpdate ds g n).cur = (modelStep Φ g.names n)^[g.nsteps n] g.cur := by
  rw [blockUpdate_cur, stepEnd_of_driven _ _ _ _ _ h, modelStep_iterate, startSmp, prologue_point,
    hs n]

lemma sweepL_cur_of_driven (Φ : N → List (N × V) → V → V) (ds : Nat → Draw V) (l : List N)
    (g : HG N V) (hs : Sync g) (h : DrivenSweep Φ ds l g) :
    (sweepL ds l g).cur = sweepFn Φ g.names g.nsteps l g.cur := by
  induction l generalizing g with
  | nil => rfl
  | cons n l ih =>
    obtain ⟨h1, h2⟩ := h
    rw [sweepL_cons, ih _ (sync_blockUpdate ds g n hs) h2, blockUpdate_cur_of_driven Φ ds g n hs h1]
    simp [sweepFn]

@[simp] lemma store_nsteps (g : HG N V) : (store g).nsteps = g.nsteps := rfl

lemma sampleN_cur_of_driven (Φ : N → List (N × V) → V → V) (ds : Nat → Draw V) (k : Nat)
    (g : HG N V) (hs : Sync g) (h : DrivenRun Φ ds k g) :
    (sampleN ds k g).cur = (sweepFn Φ g.names g.nsteps g.names)^[k] g.cur := by
  induction k generalizing g with
  | zero => rfl
  | succ k ih =>
    obtain ⟨h1, h2⟩ := h
    have hs' : Sync (store (sweep ds g)) := sync_store _ (sync_sweepL ds _ g hs)
    rw [sampleN, ih _ hs' h2, Function.iterate_succ_apply]
    simp [sweep_eq_sweepL, sweepL_cur_of_driven Φ ds g.names g hs h1]

/-! ### legacy `Gibbs` -/

/-- every transition the legacy model consumes while sweeping over `l` is the one `Φ n tgt`
    prescribes for the fresh sampler built on the target `tgt`, started at the block's value -/
def LDrivenSweep (Φ : N → List (N × V) → V → V) (ds : Nat → V) (names : List N) :
    List N → LSt N V → Prop
  | [], _ => True
  | n :: l, st =>
    ds st.2.1 = Φ n (others names st.1 n) (st.1 n) ∧ LDrivenSweep Φ ds names l (lblock ds names st n)

lemma legacyKernel_eq (x0 d : V) : legacyKernel x0 d = d := by
  simp [legacyKernel, sample2]

lemma lsweepL_cur_of_driven (Φ : N → List (N × V) → V → V) (ds : Nat → V) (names l : List N)
    (st : LSt N V) (h : LDrivenSweep Φ ds names l st) :
    (lsweepL ds names l st).1 = sweepFn Φ names (fun _ => 1) l st.1 := by
  induction l generalizing st with
  | nil => rfl
  | cons n l ih =>
    obtain ⟨h1, h2⟩ := h
    rw [lsweepL_cons, ih _ h2]
    simp [sweepFn, lblock, legacyKernel_eq, h1, modelStep]

end model

end CuqiVerif.C09
