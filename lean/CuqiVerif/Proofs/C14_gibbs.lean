import CuqiVerif.Model.C14
import CuqiVerif.Model.C14_gibbs
import CuqiVerif.Proofs.C14

/-!
# C14 — helper lemmas for the HybridGibbs model (`Model/C14_gibbs.lean`)
-/
namespace CuqiVerif.C14

/-- the rows `_store_samples` records during `n` sweeps started at `(s, ds)` -/
def sweepTrace {S P D : Type} (sweep : S → List D → S × P × List D) : Nat → S → List D → List P
  | 0, _, _ => []
  | n + 1, s, ds =>
    let res := sweep s ds
    res.2.1 :: sweepTrace sweep n res.1 res.2.2

theorem iterStore_trace {S P D : Type} (sweep : S → List D → S × P × List D) (n : Nat) :
    ∀ (s : S) (rec : List P) (ds : List D),
      (iterStore sweep n (s, rec, ds)).2.1 = rec ++ sweepTrace sweep n s ds := by
  induction n with
  | zero => intro s rec ds; simp [iterStore, sweepTrace]
  | succ k ih =>
    intro s rec ds
    simp only [iterStore, sweepTrace]
    rw [ih]
    simp

theorem sweepTrace_length {S P D : Type} (sweep : S → List D → S × P × List D) (n : Nat) :
    ∀ (s : S) (ds : List D), (sweepTrace sweep n s ds).length = n := by
  induction n with
  | zero => intro s ds; rfl
  | succ k ih => intro s ds; simp [sweepTrace, ih]

/-- the stored rows do not influence the sweeps: object and stream after `n` sweeps -/
theorem iterStore_state {S P D : Type} (sweep : S → List D → S × P × List D) (n : Nat) :
    ∀ (s : S) (rec rec' : List P) (ds : List D),
      (iterStore sweep n (s, rec, ds)).1 = (iterStore sweep n (s, rec', ds)).1 ∧
      (iterStore sweep n (s, rec, ds)).2.2 = (iterStore sweep n (s, rec', ds)).2.2 := by
  induction n with
  | zero => intro s rec rec' ds; simp [iterStore]
  | succ k ih => intro s rec rec' ds; simp only [iterStore]; exact ih _ _ _ _

theorem blockSteps_frame {D A : Type} (sp : Spec D A) (k : Nat) :
    ∀ (r : Run D A) (ds : List D),
      (blockSteps sp k r ds).1.samples = r.samples ∧ (blockSteps sp k r ds).1.initialized = r.initialized ∧
      (blockSteps sp k r ds).1.events = r.events ∧ (blockSteps sp k r ds).1.acc.length = r.acc.length + k ∧
      r.acc <+: (blockSteps sp k r ds).1.acc := by
  induction k with
  | zero => intro r ds; simp [blockSteps]
  | succ j ih =>
    intro r ds
    simp only [blockSteps]
    obtain ⟨h1, h2, h3, h4, h5⟩ := ih { r with obj := (sp.step r.obj ds).1, acc := r.acc ++ [(sp.step r.obj ds).2.1] } (sp.step r.obj ds).2.2
    refine ⟨h1, h2, h3, ?_, ?_⟩
    · rw [h4]; simp; omega
    · exact List.IsPrefix.trans (by simp) h5

/-- the block steps are the transitions of the sampler object: acceptance records appended in order,
    object and stream those after `k` transitions -/
theorem blockSteps_transitions {D A : Type} (sp : Spec D A) (k : Nat) :
    ∀ (r : Run D A) (ds : List D),
      (blockSteps sp k r ds).1.acc = r.acc ++ (transitions sp.step k r.obj ds).map Prod.snd := by
  induction k with
  | zero => intro r ds; simp [blockSteps, transitions]
  | succ j ih =>
    intro r ds
    simp only [blockSteps, transitions]
    rw [ih]
    simp

theorem hgSweepFrom_cur_length {D A : Type} (bs : List (Block D A)) :
    ∀ (i : Nat) (s : HGS D A) (ds : List D),
      (hgSweepFrom i bs s ds).1.cur.length = s.cur.length ∧ (hgSweepFrom i bs s ds).1.runs.length = s.runs.length := by
  induction bs with
  | nil => intro i s ds; simp [hgSweepFrom]
  | cons b rest ih =>
    intro i s ds
    simp only [hgSweepFrom]
    obtain ⟨h1, h2⟩ := ih (i + 1) (hgBlock b i s ds).1 (hgBlock b i s ds).2
    rw [h1, h2]
    unfold hgBlock
    cases s.runs[i]? <;> simp

theorem withIdx_length {α : Type} (l : List α) : ∀ i, (withIdx i l).length = l.length := by
  induction l with
  | nil => intro i; rfl
  | cons a as ih => intro i; simp [withIdx, ih]

theorem withIdx_mem {α : Type} (l : List α) : ∀ (i : Nat) (p : Nat × α), p ∈ withIdx i l → p.2 ∈ l := by
  induction l with
  | nil => intro i p h; simp [withIdx] at h
  | cons a as ih =>
    intro i p h
    simp only [withIdx, List.mem_cons] at h
    rcases h with h | h
    · subst h; simp
    · exact List.mem_cons_of_mem _ (ih _ _ h)

/-! ### legacy Gibbs: the states visited by `n` consecutive sweeps -/

def glTrace {P D : Type} (sweep : P → List D → P × List D) : Nat → P → List D → List P
  | 0, _, _ => []
  | n + 1, c, ds => (sweep c ds).1 :: glTrace sweep n (sweep c ds).1 (sweep c ds).2

/-- state and stream after `n` sweeps -/
def glEnd {P D : Type} (sweep : P → List D → P × List D) : Nat → P → List D → P × List D
  | 0, c, ds => (c, ds)
  | n + 1, c, ds => glEnd sweep n (sweep c ds).1 (sweep c ds).2

theorem glTrace_length {P D : Type} (sweep : P → List D → P × List D) (n : Nat) :
    ∀ (c : P) (ds : List D), (glTrace sweep n c ds).length = n := by
  induction n with
  | zero => intro c ds; rfl
  | succ k ih => intro c ds; simp [glTrace, ih]

theorem gll_eq {P D : Type} (sweep : P → List D → P × List D) (n : Nat) :
    ∀ (c : P) (rec : List P) (ds : List D),
      gibbsLegacyLoop sweep n c (rec, ds) = (rec ++ glTrace sweep n c ds, (glEnd sweep n c ds).2) := by
  induction n with
  | zero => intro c rec ds; simp [gibbsLegacyLoop, glTrace, glEnd]
  | succ k ih => intro c rec ds; simp [gibbsLegacyLoop, glTrace, glEnd, ih]

theorem glTrace_last {P D : Type} (sweep : P → List D → P × List D) (n : Nat) :
    ∀ (c : P) (ds : List D), (glTrace sweep n c ds).getLast?.getD c = (glEnd sweep n c ds).1 := by
  induction n with
  | zero => intro c ds; rfl
  | succ k ih =>
    intro c ds
    simp only [glTrace, glEnd]
    rw [← ih (sweep c ds).1 (sweep c ds).2]
    cases h : glTrace sweep k (sweep c ds).1 (sweep c ds).2 with
    | nil => simp
    | cons a as =>
      simp only [List.getLast?_cons_cons]
      cases hl : (a :: as).getLast? with
      | none => exact absurd (List.getLast?_eq_none_iff.mp hl) (by simp)
      | some x => rfl

theorem glTrace_last_succ {P D : Type} (sweep : P → List D → P × List D) (n : Nat) (c : P) (ds : List D) :
    (glTrace sweep (n + 1) c ds).getLast? = some (glEnd sweep (n + 1) c ds).1 := by
  have h := glTrace_last sweep (n + 1) c ds
  cases hl : (glTrace sweep (n + 1) c ds).getLast? with
  | none =>
    have : (glTrace sweep (n + 1) c ds) = [] := List.getLast?_eq_none_iff.mp hl
    simp [glTrace] at this
  | some x => rw [hl] at h; simpa using h

theorem glEnd_add {P D : Type} (sweep : P → List D → P × List D) (n m : Nat) :
    ∀ (c : P) (ds : List D),
      glEnd sweep (n + m) c ds = glEnd sweep m (glEnd sweep n c ds).1 (glEnd sweep n c ds).2 := by
  induction n with
  | zero => intro c ds; simp [glEnd]
  | succ k ih =>
    intro c ds
    have : k + 1 + m = (k + m) + 1 := by omega
    rw [this]; simp only [glEnd]; exact ih _ _

theorem glTrace_add {P D : Type} (sweep : P → List D → P × List D) (n m : Nat) :
    ∀ (c : P) (ds : List D),
      glTrace sweep (n + m) c ds =
        glTrace sweep n c ds ++ glTrace sweep m (glEnd sweep n c ds).1 (glEnd sweep n c ds).2 := by
  induction n with
  | zero => intro c ds; simp [glTrace, glEnd]
  | succ k ih =>
    intro c ds
    have : k + 1 + m = (k + m) + 1 := by omega
    rw [this]; simp only [glTrace, glEnd, List.cons_append]; rw [ih]

end CuqiVerif.C14
