import CuqiVerif.Props.C12

/-!
# C12 — vocabulary and helper lemmas for `Props/C12_full.lean`

Everything here is about the definitions of `Model/C12.lean` (`toFun`, `toPar`, `applyOne`,
`gradientOne`, `geomEq`) for an arbitrary carrier.  Only `lemma`s and `def`s: the audited property
statements are the `theorem`s of `Props/C12_full.lean`.
-/

namespace CuqiVerif.C12

variable {α β : Type}

/-! ## the in-scope representations of one vector -/

/-- The four ways the property lets a caller hand the parameter vector `x` of a geometry `G` to the
    model: plain parameters (`is_par=True`), plain function values `par2fun x` with `is_par=False`,
    a CUQIarray of the geometry `G` flagged parameters, a CUQIarray of `G` flagged function values —
    for the two CUQIarray forms together with an arbitrary value `b` of the `is_par` argument
    (the code must not look at it). -/
inductive RepKind
  | plainPar
  | plainFun
  | arrPar (b : Bool)
  | arrFun (b : Bool)
  deriving DecidableEq, Repr

/-- the array that is passed -/
def RepKind.val (G : Geom α) (x : α) : RepKind → Val α
  | .plainPar => ⟨x, none⟩
  | .plainFun => ⟨G.p2f x, none⟩
  | .arrPar _ => ⟨x, some ⟨true, G.gid⟩⟩
  | .arrFun _ => ⟨G.p2f x, some ⟨false, G.gid⟩⟩

/-- the `is_par` argument that is passed with it -/
def RepKind.flag : RepKind → Bool
  | .plainPar => true
  | .plainFun => false
  | .arrPar b => b
  | .arrFun b => b

/-- `type(x) is CUQIarray` -/
def RepKind.isArr : RepKind → Bool
  | .plainPar => false
  | .plainFun => false
  | .arrPar _ => true
  | .arrFun _ => true

/-- the numbers passed are function values -/
def RepKind.isFun : RepKind → Bool
  | .plainPar => false
  | .plainFun => true
  | .arrPar _ => false
  | .arrFun _ => true

/-- "wrapped like the input": a CUQIarray flagged parameters on the geometry `gid`, or a plain array -/
def wrapTag (isArr : Bool) (gid : Nat) : Option Tag := if isArr then some ⟨true, gid⟩ else none

/-- tag of `_2fun` of an in-scope representation: function values on the geometry, or plain -/
def funTag (isArr : Bool) (gid : Nat) : Option Tag := if isArr then some ⟨false, gid⟩ else none

lemma rep_isSome (G : Geom α) (x : α) (k : RepKind) : (k.val G x).tag.isSome = k.isArr := by
  cases k <;> rfl

/-! ## user callables that may raise -/

/-- A user callable of one argument that acts on the numbers by the *partial* function `F₀` (it
    raises exactly when `F₀` does, with the same class) and, like every numpy expression, returns a
    plain array or an array that inherits the subclass attributes of its argument.  `FuncLike` of
    `Props/C12.lean` is the total case. -/
def FuncLikeE (func : Val α → Except Err (Val β)) (F₀ : α → Except Err β) : Prop :=
  ∀ v, (∃ e, F₀ v.data = .error e ∧ func v = .error e)
     ∨ (∃ w t, F₀ v.data = .ok w ∧ func v = .ok ⟨w, t⟩ ∧ (t = none ∨ t = v.tag))

lemma FuncLike.toE {func : Val α → Except Err (Val β)} {F₀ : α → β} (h : FuncLike func F₀) :
    FuncLikeE func (fun a => .ok (F₀ a)) := by
  intro v
  obtain ⟨t, h1, h2⟩ := h v
  exact Or.inr ⟨_, t, rfl, h1, h2⟩

/-- Same for a callable of two arguments (`gradient(direction, wrt)`), which may raise. -/
def GradLikeE (gf : Val β → Val α → Except Err (Val α)) (g₀ : β → α → Except Err α) : Prop :=
  ∀ a b, (∃ e, g₀ a.data b.data = .error e ∧ gf a b = .error e)
       ∨ (∃ w t, g₀ a.data b.data = .ok w ∧ gf a b = .ok ⟨w, t⟩ ∧ (t = none ∨ t = a.tag ∨ t = b.tag))

lemma GradLike.toE {gf : Val β → Val α → Except Err (Val α)} {g₀ : β → α → α} (h : GradLike gf g₀) :
    GradLikeE gf (fun a b => .ok (g₀ a b)) := by
  intro a b
  obtain ⟨t, h1, h2⟩ := h a b
  exact Or.inr ⟨_, t, rfl, h1, h2⟩

/-! ## `geomEq` -/

lemma geomEq_flag_irrel (b b' : Bool) (g : Nat) (G : Geom α) : geomEq ⟨b, g⟩ G = geomEq ⟨b', g⟩ G := rfl

lemma selfOK_iff' (G : Geom α) : SelfOK G ↔ G.eqRaises.lookup G.gid = none := by
  constructor
  · intro h
    have := h true
    unfold geomEq at this
    cases hl : G.eqRaises.lookup G.gid with
    | none => rfl
    | some e => simp [hl] at this
  · exact selfOK_of_noRaise G

lemma crossOK_iff' (g : Nat) (G : Geom α) :
    CrossOK g G ↔ G.eqRaises.lookup g = none
      ∧ (g = G.gid ∨ ∀ m, G.eqTrue.lookup g = some m → m.f2p = G.f2p) := by
  constructor
  · rintro ⟨o, ho, hm⟩
    have h1 := ho true
    unfold geomEq at h1
    cases hl : G.eqRaises.lookup g with
    | some e => simp [hl] at h1
    | none =>
      refine ⟨rfl, ?_⟩
      by_cases hg : g = G.gid
      · exact Or.inl hg
      · right
        intro m hm'
        simp [hl, hg, hm'] at h1
        exact hm m h1.symm
  · rintro ⟨hl, h⟩
    by_cases hg : g = G.gid
    · subst hg
      refine ⟨some G.maps, ?_, ?_⟩
      · intro b; simp [geomEq, hl]
      · intro m hm; cases hm; rfl
    · refine ⟨G.eqTrue.lookup g, ?_, ?_⟩
      · intro b; simp [geomEq, hl, hg]
      · intro m hm
        rcases h with h | h
        · exact absurd h hg
        · exact h m hm

/-! ## `_2fun` and `_2par` on the in-scope representations -/

/-- `_2fun` of every in-scope representation is `par2fun x`, flagged function values on the
    geometry for a CUQIarray, plain otherwise (`SelfOK` is only needed for the CUQIarray forms) -/
lemma toFun_rep (G : Geom α) (x : α) (k : RepKind) (hs : k.isArr = true → SelfOK G) :
    toFun G (k.val G x) k.flag = .ok ⟨G.p2f x, funTag k.isArr G.gid⟩ := by
  cases k with
  | plainPar => simp [toFun, RepKind.val, RepKind.flag, RepKind.isArr, funTag]
  | plainFun => simp [toFun, RepKind.val, RepKind.flag, RepKind.isArr, funTag]
  | arrPar b =>
    have hs := hs rfl
    simp [toFun, RepKind.val, RepKind.flag, RepKind.isArr, funTag, hs true, arrFunvals, Geom.maps]
  | arrFun b =>
    have hs := hs rfl
    simp [toFun, RepKind.val, RepKind.flag, RepKind.isArr, funTag, hs false, arrFunvals, Geom.maps]

/-- `_2par(…, to_CUQIarray=False)` of every in-scope representation is `x` (the round trip is only
    needed for the two function-value forms) -/
lemma toPar_rep (G : Geom α) (x : α) (k : RepKind) (hs : k.isArr = true → SelfOK G)
    (hrt : k.isFun = true → G.f2p (G.p2f x) = .ok x) :
    toPar G (k.val G x) false k.flag = .ok ⟨x, wrapTag k.isArr G.gid⟩ := by
  cases k with
  | plainPar => simp [toPar, RepKind.val, RepKind.flag, RepKind.isArr, wrapTag]
  | plainFun =>
    have hrt := hrt rfl
    simp [toPar, RepKind.val, RepKind.flag, RepKind.isArr, wrapTag, hrt]
  | arrPar b =>
    have hs := hs rfl
    simp [toPar, RepKind.val, RepKind.flag, RepKind.isArr, wrapTag, hs true, arrParameters]
  | arrFun b =>
    have hs := hs rfl
    have hrt := hrt rfl
    simp [toPar, RepKind.val, RepKind.flag, RepKind.isArr, wrapTag, hs false, arrParameters, Geom.maps, hrt]

/-- what `_2par(…, to_CUQIarray=False)` of a function-value form does when `fun2par` raises -/
lemma toPar_rep_error (G : Geom α) (x : α) (k : RepKind) (hs : k.isArr = true → SelfOK G)
    (hk : k.isFun = true) (e : Err) (he : G.f2p (G.p2f x) = .error e) :
    toPar G (k.val G x) false k.flag = .error e := by
  cases k with
  | plainPar => cases hk
  | arrPar b => cases hk
  | plainFun => simp [toPar, RepKind.val, RepKind.flag, he]
  | arrFun b =>
    have hs := hs rfl
    simp [toPar, RepKind.val, RepKind.flag, hs false, arrParameters, Geom.maps, he]

/-! ## the final `_2par` of `forward` and `gradient` -/

/-- final `_2par(out, geometry, to_CUQIarray=toArr, is_par=False)` of a plain array -/
lemma toPar_fun_plain (G : Geom α) (w : α) (toArr : Bool) :
    toPar G ⟨w, none⟩ toArr false = G.f2p w >>= fun p => pure ⟨p, wrapTag toArr G.gid⟩ := by
  cases toArr <;> simp only [toPar, wrapTag, Bool.not_false, if_true, Bool.false_eq_true, if_false, bind_assoc,
    pure_bind]

/-- … of function values on the geometry itself -/
lemma toPar_fun_self (G : Geom α) (hs : SelfOK G) (w : α) (toArr : Bool) :
    toPar G ⟨w, some ⟨false, G.gid⟩⟩ toArr false = G.f2p w >>= fun p => pure ⟨p, some ⟨true, G.gid⟩⟩ := by
  cases toArr <;> simp only [toPar, hs false, ok_bind, arrParameters, Geom.maps, Bool.false_eq_true, if_false] <;>
    cases G.f2p w <;> rfl

/-- … of function values on a geometry object `g` whose comparison with `G` is well behaved -/
lemma toPar_fun_cross (G : Geom α) (g : Nat) (hc : CrossOK g G) (w : α) :
    toPar G ⟨w, some ⟨false, g⟩⟩ true false = G.f2p w >>= fun p => pure ⟨p, some ⟨true, G.gid⟩⟩ := by
  obtain ⟨o, ho, hm⟩ := hc
  simp only [toPar, ho false, ok_bind]
  cases o with
  | none => simp [bind_assoc]
  | some m => simp [arrParameters, hm m rfl, bind_assoc]

/-- A tag that `_2par(…, is_par=True)` reads as "already parameters": no tag, or the comparison of
    its geometry with `G` does not raise and, if it says "equal" (the array's own geometry having the
    maps `own`), the array's own flag is `is_par=True` or `own.fun2par` is the identity (flat
    identity-like geometries).  A tag `⟨false, g⟩` with `g == G` and a proper `fun2par` is the stale
    flag of finding 2. -/
def ParTagOK (G : Geom α) (t : Option Tag) : Prop :=
  ∀ tg, t = some tg → ∃ o, geomEq tg G = .ok o ∧
    ∀ own, o = some own → (tg.isPar = true ∨ ∀ v, own.f2p v = .ok v)

lemma parTagOK_none (G : Geom α) : ParTagOK G none := by
  intro tg h; cases h

lemma parTagOK_self (G : Geom α) (hs : SelfOK G) : ParTagOK G (some ⟨true, G.gid⟩) := by
  intro tg h; cases h
  exact ⟨_, hs true, fun _ _ => Or.inl rfl⟩

/-- final `_2par(grad, geometry, to_CUQIarray=toArr, is_par=True)` of a value with a harmless tag:
    the numbers are returned unchanged, wrapped iff `toArr` -/
lemma toPar_par_ok (G : Geom α) (v : α) (t : Option Tag) (toArr : Bool) (ht : ParTagOK G t) :
    ∃ t', toPar G ⟨v, t⟩ toArr true = .ok ⟨v, t'⟩ ∧ (toArr = true → t' = some ⟨true, G.gid⟩) := by
  cases t with
  | none =>
    cases toArr
    · exact ⟨none, by simp [toPar], by simp⟩
    · exact ⟨some ⟨true, G.gid⟩, by simp [toPar], by simp⟩
  | some tg =>
    obtain ⟨o, ho, hp⟩ := ht tg rfl
    cases o with
    | none =>
      cases toArr
      · exact ⟨some tg, by simp [toPar, ho], by simp⟩
      · exact ⟨some ⟨true, G.gid⟩, by simp [toPar, ho], by simp⟩
    | some own =>
      have hval : arrParameters own v tg = .ok ⟨v, some ⟨true, tg.geom⟩⟩ := by
        rcases hp own rfl with hp | hp
        · simp [arrParameters, hp]
        · by_cases hb : tg.isPar = true
          · simp [arrParameters, hb]
          · simp [arrParameters, hb, hp v]
      cases toArr
      · exact ⟨some ⟨true, tg.geom⟩, by simp [toPar, ho, hval], by simp⟩
      · exact ⟨some ⟨true, G.gid⟩, by simp [toPar, ho, hval], by simp⟩

/-! ## `gradient` on in-scope representations, up to the user callables -/

/-- `gradient` for in-scope representations of direction and linearisation point, once the checks
    have passed: conversions done, what remains is the gradient function, the geometry's
    `gradient` and the final `_2par`. -/
lemma gradientOne_reps (m : ModelObj α β) (gf : Val β → Val α → Except Err (Val α))
    (hgf : m.gradientFunc = some gf) (hF : Formable m) (kd kw : RepKind) (d : β) (x : α)
    (hsR : kd.isArr = true → SelfOK m.rangeGeom) (hsD : kw.isArr = true → SelfOK m.domainGeom)
    (hrt : kw.isFun = true → m.domainGeom.f2p (m.domainGeom.p2f x) = .ok x) :
    gradientOne m (kd.val m.rangeGeom d) (kw.val m.domainGeom x) kd.flag kw.flag =
      (gf ⟨m.rangeGeom.p2f d, funTag kd.isArr m.rangeGeom.gid⟩
          ⟨m.domainGeom.p2f x, funTag kw.isArr m.domainGeom.gid⟩ >>= fun g =>
       match m.domainGeom.grad with
       | some gg => toPar m.domainGeom (gg g ⟨x, wrapTag kw.isArr m.domainGeom.gid⟩) kd.isArr true
       | none => toPar m.domainGeom g kd.isArr false) := by
  rw [gradientOne_formable m gf hgf hF, toPar_rep _ x kw hsD hrt, ok_bind, toFun_rep _ x kw hsD, ok_bind,
    toFun_rep _ d kd hsR, ok_bind, rep_isSome]
  rfl

/-- The numbers `gradient` must return for the direction `d` (parameters of the range geometry) at
    the parameter `x`, for a gradient function that may raise (`gradData` of `Props/C12.lean` is the
    total case): the user's direction-Jacobian product at `par2fun_D x`, then the geometry's
    `gradient` at the parameter `x` if it has one, else `fun2par_D`. -/
def gradDataE (D : Geom α) (R : Geom β) (g₀ : β → α → Except Err α) (gg₀ : Option (α → α → α)) (d : β) (x : α) :
    Except Err α :=
  g₀ (R.p2f d) (D.p2f x) >>= fun g =>
    match gg₀ with
    | none => D.f2p g
    | some gg₀ => pure (gg₀ g x)

lemma gradDataE_total (D : Geom α) (R : Geom β) (g₀ : β → α → α) (gg₀ : Option (α → α → α)) (d : β) (x : α) :
    gradDataE D R (fun a b => .ok (g₀ a b)) gg₀ d x = gradData D R g₀ gg₀ d x := by
  cases gg₀ <;> rfl

/-- the geometry's `gradient` attribute exists iff `gg₀` is given, and then acts on the numbers by it -/
def GeomGradMatches (D : Geom α) (gg₀ : Option (α → α → α)) : Prop :=
  match D.grad, gg₀ with
  | some gg, some gg₀ => GeomGradLike gg gg₀
  | none, none => True
  | _, _ => False

lemma GeomGradSafe.like {gg : Val α → Val α → Val α} {gg₀ : α → α → α} (h : GeomGradSafe gg gg₀) :
    GeomGradLike gg gg₀ := by
  intro a b
  obtain ⟨h1, h2⟩ := h a b
  exact ⟨h1, h2.elim Or.inl (fun h => Or.inr (Or.inr h))⟩

/-- a returned value whose numbers are `want` and whose tag is `t` -/
lemma data_of_tagged {γ : Type} (want : Except Err γ) (r : Except Err (Val γ)) (t : Option Tag)
    (h : r = (want >>= fun p => pure ⟨p, t⟩)) :
    (r >>= fun v => pure v.data) = want ∧ ∀ v, r = .ok v → v.tag = t := by
  subst h
  cases want with
  | error e => exact ⟨rfl, fun v hv => by cases hv⟩
  | ok p => exact ⟨rfl, fun v hv => by cases hv; rfl⟩

/-- **Core of the gradient theorems.**  In a formable configuration, for in-scope representations
    of direction and point, with user callables that act on the numbers by `g₀` / `gg₀`, `gradient`
    returns `gradDataE` with some tag `t` (`⟨true, domain geometry⟩` when the direction is a
    CUQIarray), provided the two final `_2par` calls see harmless tags:
    `hcross` — identity-like domain, gradient inheriting the subclass of a CUQIarray direction: the
    comparison range-geometry == domain-geometry is well behaved;
    `hpath` — domain geometry with `gradient`: the tag of its result is read as parameters. -/
lemma gradientOne_reps_value (m : ModelObj α β) (gf : Val β → Val α → Except Err (Val α))
    (g₀ : β → α → Except Err α) (hgf : m.gradientFunc = some gf) (hG : GradLikeE gf g₀) (hF : Formable m)
    (gg₀ : Option (α → α → α)) (hgg : GeomGradMatches m.domainGeom gg₀)
    (kd kw : RepKind) (d : β) (x : α)
    (hsR : kd.isArr = true → SelfOK m.rangeGeom) (hsD : kw.isArr = true → SelfOK m.domainGeom)
    (hrt : kw.isFun = true → m.domainGeom.f2p (m.domainGeom.p2f x) = .ok x)
    (hcross : m.domainGeom.grad = none → kd.isArr = true →
      (∃ w, gf ⟨m.rangeGeom.p2f d, funTag kd.isArr m.rangeGeom.gid⟩
               ⟨m.domainGeom.p2f x, funTag kw.isArr m.domainGeom.gid⟩
             = .ok ⟨w, some ⟨false, m.rangeGeom.gid⟩⟩) → CrossOK m.rangeGeom.gid m.domainGeom)
    (hpath : ∀ gg, m.domainGeom.grad = some gg → ∀ w t,
      gf ⟨m.rangeGeom.p2f d, funTag kd.isArr m.rangeGeom.gid⟩
         ⟨m.domainGeom.p2f x, funTag kw.isArr m.domainGeom.gid⟩ = .ok ⟨w, t⟩ →
      ParTagOK m.domainGeom (gg ⟨w, t⟩ ⟨x, wrapTag kw.isArr m.domainGeom.gid⟩).tag) :
    ∃ t, gradientOne m (kd.val m.rangeGeom d) (kw.val m.domainGeom x) kd.flag kw.flag
          = (gradDataE m.domainGeom m.rangeGeom g₀ gg₀ d x >>= fun p => pure ⟨p, t⟩)
       ∧ (kd.isArr = true → t = some ⟨true, m.domainGeom.gid⟩) := by
  rw [gradientOne_reps m gf hgf hF kd kw d x hsR hsD hrt]
  rcases hG ⟨m.rangeGeom.p2f d, funTag kd.isArr m.rangeGeom.gid⟩
      ⟨m.domainGeom.p2f x, funTag kw.isArr m.domainGeom.gid⟩ with ⟨e, h1, h2⟩ | ⟨w, t, h1, h2, ht⟩
  · refine ⟨some ⟨true, m.domainGeom.gid⟩, ?_, fun _ => rfl⟩
    simp only at h1
    rw [h2]
    simp [gradDataE, h1]
  · simp only at h1 ht
    rw [h2, ok_bind]
    unfold GeomGradMatches at hgg
    cases hgr : m.domainGeom.grad with
    | none =>
      cases gg₀ with
      | some _ => simp [hgr] at hgg
      | none =>
        have hdata : gradDataE m.domainGeom m.rangeGeom g₀ none d x = m.domainGeom.f2p w := by
          simp [gradDataE, h1]
        rw [hdata]
        dsimp only
        have plain : ∀ b : Bool, ∃ t', toPar m.domainGeom ⟨w, none⟩ b false
              = (m.domainGeom.f2p w >>= fun p => pure ⟨p, t'⟩) ∧ (b = true → t' = some ⟨true, m.domainGeom.gid⟩) :=
          fun b => ⟨wrapTag b m.domainGeom.gid, toPar_fun_plain _ _ _, fun h => by simp [wrapTag, h]⟩
        rcases ht with rfl | rfl | rfl
        · exact plain _
        · cases hk : kd.isArr
          · simpa [funTag, hk] using plain false
          · have hc := hcross hgr hk ⟨w, by simpa [funTag, hk] using h2⟩
            exact ⟨_, by simpa [funTag] using toPar_fun_cross m.domainGeom m.rangeGeom.gid hc w, fun _ => rfl⟩
        · cases hk : kw.isArr
          · simpa [funTag] using plain kd.isArr
          · exact ⟨_, by simpa [funTag] using toPar_fun_self m.domainGeom (hsD hk) w kd.isArr, fun _ => rfl⟩
    | some gg =>
      cases gg₀ with
      | none => simp [hgr] at hgg
      | some gg0 =>
        simp only [hgr] at hgg
        have hp := hpath gg hgr w t h2
        obtain ⟨hd, -⟩ := hgg ⟨w, t⟩ ⟨x, wrapTag kw.isArr m.domainGeom.gid⟩
        have hdata : gradDataE m.domainGeom m.rangeGeom g₀ (some gg0) d x = .ok (gg0 w x) := by
          simp [gradDataE, h1]
        rw [hdata]
        dsimp only at hd ⊢
        generalize gg ⟨w, t⟩ ⟨x, wrapTag kw.isArr m.domainGeom.gid⟩ = v at hd hp ⊢
        obtain ⟨vd, vt⟩ := v
        dsimp only at hd hp
        subst hd
        obtain ⟨t', h1', h2'⟩ := toPar_par_ok m.domainGeom (gg0 w x) vt kd.isArr hp
        exact ⟨t', by rw [h1']; rfl, h2'⟩

/-! ## tag rules (the callables of the driver) -/

/-- the tag `lift2 r` gives its result -/
def ruleTag : TagRule → Option Tag → Option Tag → Option Tag
  | .strip, _, _ => none
  | .arg1, a, _ => a
  | .arg2, _, b => b

lemma lift2_eq {γ δ ε : Type} (r : TagRule) (f : γ → δ → ε) (a : Val γ) (b : Val δ) :
    lift2 r f a b = ⟨f a.data b.data, ruleTag r a.tag b.tag⟩ := by
  cases r <;> rfl

end CuqiVerif.C12
