import CuqiVerif.Model.C13_state
import CuqiVerif.Proofs.C13_shapes
import Mathlib.Data.List.Basic

/-!
# helper lemmas for `Props/C13_state.lean` (object histories of `KLExpansion` / `StepExpansion`)
-/

namespace CuqiVerif.C13

/-! ## KLExpansion: the cache invariant -/

/-- fresh diagonal scalings for `m` modes -/
def klFresh (law : ℕ → ℚ) (m : ℕ) : List ℚ := (List.range m).map law
/-- fresh inverse scalings for `m` modes -/
def klFreshInv (law : ℕ → ℚ) (m : ℕ) : List ℚ := (List.range m).map fun i => (law i)⁻¹

/-- whatever is cached is what a fresh computation *for that length* would give -/
def KLObj.Coherent (o : KLObj) : Prop :=
  (∀ l, o.coefs = some l → l = klFresh o.law l.length) ∧
  (∀ l, o.coefsInv = some l → l = klFreshInv o.law l.length ∧ l.length ≠ 0)

/-- the attributes without a setter are those of `o₀` -/
def KLObj.SameParams (o o₀ : KLObj) : Prop :=
  o.numModes = o₀.numModes ∧ o.law = o₀.law ∧ o.τ = o₀.τ

lemma klFresh_length (law : ℕ → ℚ) (m : ℕ) : (klFresh law m).length = m := by simp [klFresh]
lemma klFreshInv_length (law : ℕ → ℚ) (m : ℕ) : (klFreshInv law m).length = m := by simp [klFreshInv]

lemma klFresh_inv (law : ℕ → ℚ) (m : ℕ) : (klFresh law m).map (fun c => c⁻¹) = klFreshInv law m := by
  simp [klFresh, klFreshInv, List.map_map, Function.comp_def]

lemma lget_klFresh (law : ℕ → ℚ) (m i : ℕ) (h : i < m) : lget (klFresh law m) i = law i := by
  simp [lget, klFresh, List.getD_eq_getElem?_getD, h]

lemma lget_klFreshInv (law : ℕ → ℚ) (m i : ℕ) (h : i < m) : lget (klFreshInv law m) i = (law i)⁻¹ := by
  simp [lget, klFreshInv, List.getD_eq_getElem?_getD, h]

lemma init_coherent (g nm : Option ℕ) (law : ℕ → ℚ) (τ : ℚ) : (KLObj.init g nm law τ).Coherent := by
  constructor <;> intro l h <;> simp [KLObj.init] at h

lemma cacheValid_some {c : Option (List ℚ)} {m : ℕ} (h : cacheValid c m = true) :
    ∃ l, c = some l ∧ l.length = m := by
  cases c with
  | none => simp [cacheValid] at h
  | some l => exact ⟨l, rfl, by simpa [cacheValid] using h⟩

lemma getCoefs_zero (o : KLObj) (hm : o.m = 0) : o.getCoefs = (none, o) := by
  simp [KLObj.getCoefs, hm]

lemma getCoefs_valid (o : KLObj) (hm : o.m ≠ 0) (hv : cacheValid o.coefs o.m = true) :
    o.getCoefs = (o.coefs, o) := by
  simp [KLObj.getCoefs, hm, hv]

lemma getCoefs_refresh (o : KLObj) (hm : o.m ≠ 0) (hv : ¬ cacheValid o.coefs o.m = true) :
    o.getCoefs = (some (klFresh o.law o.m), { o with coefs := some (klFresh o.law o.m) }) := by
  simp [KLObj.getCoefs, hm, hv, klFresh]

/-- `coefs`: value, and what it leaves behind -/
lemma getCoefs_spec (o : KLObj) (h : o.Coherent) :
    o.getCoefs.1 = (if o.m = 0 then none else some (klFresh o.law o.m)) ∧
    o.getCoefs.2.Coherent ∧ o.getCoefs.2.grid = o.grid ∧ o.getCoefs.2.SameParams o := by
  by_cases hm : o.m = 0
  · rw [getCoefs_zero o hm]
    exact ⟨by simp [hm], h, rfl, ⟨rfl, rfl, rfl⟩⟩
  · by_cases hv : cacheValid o.coefs o.m = true
    · obtain ⟨l, hl, hlen⟩ := cacheValid_some hv
      rw [getCoefs_valid o hm hv]
      refine ⟨?_, h, rfl, ⟨rfl, rfl, rfl⟩⟩
      simp only [hm, if_false]
      rw [hl, h.1 l hl, hlen]
    · rw [getCoefs_refresh o hm hv]
      refine ⟨by simp [hm], ⟨?_, ?_⟩, rfl, ⟨rfl, rfl, rfl⟩⟩
      · intro l hl
        have : klFresh o.law o.m = l := by simpa using hl
        subst this
        simp [klFresh_length]
      · exact h.2

lemma getCoefsInv_valid (o : KLObj) (hv : cacheValid o.coefsInv o.m = true) :
    o.getCoefsInv = (o.coefsInv, o) := by
  simp [KLObj.getCoefsInv, hv]

lemma getCoefsInv_none (o o' : KLObj) (hv : ¬ cacheValid o.coefsInv o.m = true)
    (hc : o.getCoefs = (none, o')) : o.getCoefsInv = (none, o') := by
  simp [KLObj.getCoefsInv, hv, hc]

lemma getCoefsInv_some (o o' : KLObj) (l : List ℚ) (hv : ¬ cacheValid o.coefsInv o.m = true)
    (hc : o.getCoefs = (some l, o')) :
    o.getCoefsInv = (some (l.map fun c => c⁻¹), { o' with coefsInv := some (l.map fun c => c⁻¹) }) := by
  simp [KLObj.getCoefsInv, hv, hc]

/-- `coefs_inverse`: value (`none` = raises, exactly when there are no modes), and what it leaves behind -/
lemma getCoefsInv_spec (o : KLObj) (h : o.Coherent) :
    o.getCoefsInv.1 = (if o.m = 0 then none else some (klFreshInv o.law o.m)) ∧
    o.getCoefsInv.2.Coherent ∧ o.getCoefsInv.2.grid = o.grid ∧ o.getCoefsInv.2.SameParams o := by
  by_cases hv : cacheValid o.coefsInv o.m = true
  · obtain ⟨l, hl, hlen⟩ := cacheValid_some hv
    rw [getCoefsInv_valid o hv]
    refine ⟨?_, h, rfl, ⟨rfl, rfl, rfl⟩⟩
    have hne : o.m ≠ 0 := by rw [← hlen]; exact (h.2 l hl).2
    simp only [hne, if_false]
    rw [hl, (h.2 l hl).1, hlen]
  · obtain ⟨h1, h2, h3, h4⟩ := getCoefs_spec o h
    rcases hc : o.getCoefs with ⟨c, o'⟩
    rw [hc] at h1 h2 h3 h4
    simp only at h1 h2 h3 h4
    by_cases hm : o.m = 0
    · simp only [hm, if_true] at h1 ⊢
      subst h1
      rw [getCoefsInv_none o o' hv hc]
      exact ⟨rfl, h2, h3, h4⟩
    · simp only [hm, if_false] at h1 ⊢
      subst h1
      rw [getCoefsInv_some o o' _ hv hc]
      refine ⟨by simp [klFresh_inv], ⟨h2.1, ?_⟩, h3, h4⟩
      intro l hl
      have : (klFresh o.law o.m).map (fun c => c⁻¹) = l := by simpa using hl
      subst this
      have hlaw : o'.law = o.law := h4.2.1
      simp [klFresh_inv, klFreshInv_length, hlaw, hm]

/-- without a grid (or with an empty one) there are no modes -/
lemma m_zero_of_grid_none (o : KLObj) (h : o.grid = none) : o.m = 0 := by
  unfold KLObj.m klNumModes
  rw [h]
  cases o.numModes with
  | none => rfl
  | some k => by_cases hk : k > 0 <;> simp [hk] <;> omega

lemma m_le_grid (o : KLObj) : o.m ≤ o.grid.getD 0 := by
  unfold KLObj.m klNumModes
  cases o.numModes with
  | none => exact Nat.le_refl _
  | some k => by_cases hk : k > o.grid.getD 0 <;> simp [hk] <;> omega

/-- both results undefined, or both defined and the same numpy array -/
def OptEqv : Option Arr → Option Arr → Prop
  | some a, some b => a.Eqv b
  | none, none => True
  | _, _ => False

lemma par2funPre_none (o : KLObj) (x : Arr) (hb : batchOf o.m x = none) : o.par2funPre x = (none, o) := by
  simp [KLObj.par2funPre, hb]

lemma par2funPre_zero (o : KLObj) (x : Arr) (ns : ℕ) (hb : batchOf o.m x = some ns) (hm : o.m = 0) :
    o.par2funPre x = (none, o) := by
  unfold KLObj.par2funPre
  rw [hb]
  simp [hm]

lemma par2funPre_some (o o' : KLObj) (x : Arr) (ns n : ℕ) (l : List ℚ) (hb : batchOf o.m x = some ns) (hm : o.m ≠ 0)
    (hc : o.getCoefs = (some l, o')) (hg : o.grid = some n) :
    o.par2funPre x = (some ⟨[n, ns], fun t => if t / ns < o.m then lget l (t / ns) * x.get (t / ns * ns + t % ns) / o.τ else 0⟩, o') := by
  simp [KLObj.par2funPre, hb, hm, hc, hg]

/-- `par2fun` through the cache = the stateless `klPre` at the current attributes -/
lemma par2funPre_spec (o : KLObj) (h : o.Coherent) (x : Arr) :
    (o.par2funPre x).1 = klPre o.law o.τ (o.grid.getD 0) o.m x ∧
    (o.par2funPre x).2.Coherent ∧ (o.par2funPre x).2.grid = o.grid ∧ (o.par2funPre x).2.SameParams o := by
  obtain ⟨h1, h2, h3, h4⟩ := getCoefs_spec o h
  cases hb : batchOf o.m x with
  | none =>
    rw [par2funPre_none o x hb]
    exact ⟨by simp [klPre, hb], h, rfl, ⟨rfl, rfl, rfl⟩⟩
  | some ns =>
    by_cases hm : o.m = 0
    · rw [par2funPre_zero o x ns hb hm]
      exact ⟨by unfold klPre; rw [hb]; simp [hm], h, rfl, ⟨rfl, rfl, rfl⟩⟩
    · simp only [hm, if_false] at h1
      rcases hc : o.getCoefs with ⟨c, o'⟩
      rw [hc] at h1 h2 h3 h4
      simp only at h1 h2 h3 h4
      subst h1
      cases hg : o.grid with
      | none => exact absurd (m_zero_of_grid_none o hg) hm
      | some n =>
        rw [par2funPre_some o o' x ns n _ hb hm hc hg]
        refine ⟨?_, h2, by rw [h3, hg], h4⟩
        simp only [klPre, hb, hm, if_false, Option.getD_some]
        congr 1
        congr 1
        funext t
        by_cases ht : t / ns < o.m
        · simp only [ht, if_true, lget_klFresh o.law o.m _ ht]
        · simp only [ht, if_false]

lemma fun2parPost_nogrid (o : KLObj) (fs : List ℕ) (d : Arr) (hg : o.grid = none) : o.fun2parPost fs d = (none, o) := by
  simp [KLObj.fun2parPost, hg]

lemma fun2parPost_badshape (o : KLObj) (fs : List ℕ) (d : Arr) (n : ℕ) (hg : o.grid = some n)
    (hb : batchOf n ⟨fs, fun _ => 0⟩ = none) : o.fun2parPost fs d = (none, o) := by
  simp [KLObj.fun2parPost, hg, hb]

lemma fun2parPost_zero (o : KLObj) (fs : List ℕ) (d : Arr) (ns : ℕ) (hg : o.grid = some 0)
    (hb : batchOf 0 ⟨fs, fun _ => 0⟩ = some ns) : o.fun2parPost fs d = (none, o) := by
  simp [KLObj.fun2parPost, hg, hb]

lemma fun2parPost_noinv (o o' : KLObj) (fs : List ℕ) (d : Arr) (n ns : ℕ) (hg : o.grid = some n)
    (hb : batchOf n ⟨fs, fun _ => 0⟩ = some ns) (hn : n ≠ 0) (hc : o.getCoefsInv = (none, o')) :
    o.fun2parPost fs d = (none, o') := by
  simp [KLObj.fun2parPost, hg, hb, hn, hc]

lemma fun2parPost_some (o o' : KLObj) (fs : List ℕ) (d : Arr) (n ns : ℕ) (li : List ℚ) (hg : o.grid = some n)
    (hb : batchOf n ⟨fs, fun _ => 0⟩ = some ns) (hn : n ≠ 0) (hc : o.getCoefsInv = (some li, o')) :
    o.fun2parPost fs d = (if d.shape ≠ [n, ns] then (none, o') else
      (some (Arr.squeeze ⟨[o.m, ns], fun t => lget li (t / ns) * d.get (t / ns * ns + t % ns) * o.τ / (2 * (n : ℚ))⟩), o')) := by
  simp [KLObj.fun2parPost, hg, hb, hn, hc]

/-- `fun2par` through the cache = the stateless `klPost` at the current attributes (when the shape test passes) -/
lemma fun2parPost_spec (o : KLObj) (h : o.Coherent) (fshape : List ℕ) (d : Arr) :
    (∀ n ns, o.grid = some n → batchOf n ⟨fshape, fun _ => 0⟩ = some ns → n ≠ 0 → d.shape = [n, ns] →
      OptEqv (o.fun2parPost fshape d).1 (klPost o.law o.τ n o.m d)) ∧
    (o.fun2parPost fshape d).2.Coherent ∧ (o.fun2parPost fshape d).2.grid = o.grid ∧
    (o.fun2parPost fshape d).2.SameParams o := by
  obtain ⟨h1, h2, h3, h4⟩ := getCoefsInv_spec o h
  cases hg : o.grid with
  | none =>
    rw [fun2parPost_nogrid o fshape d hg]
    exact ⟨fun n ns hn => (by cases hn), h, hg, ⟨rfl, rfl, rfl⟩⟩
  | some n =>
    cases hb : batchOf n ⟨fshape, fun _ => 0⟩ with
    | none =>
      rw [fun2parPost_badshape o fshape d n hg hb]
      exact ⟨fun n' ns' hn hb' => (by cases hn; rw [hb] at hb'; cases hb'), h, hg, ⟨rfl, rfl, rfl⟩⟩
    | some ns =>
      by_cases hn0 : n = 0
      · subst hn0
        rw [fun2parPost_zero o fshape d ns hg hb]
        exact ⟨fun n' ns' hn _ hne => (by cases hn; exact absurd rfl hne), h, hg, ⟨rfl, rfl, rfl⟩⟩
      · rcases hc : o.getCoefsInv with ⟨c, o'⟩
        rw [hc] at h1 h2 h3 h4
        simp only at h1 h2 h3 h4
        by_cases hm : o.m = 0
        · simp only [hm, if_true] at h1
          subst h1
          rw [fun2parPost_noinv o o' fshape d n ns hg hb hn0 hc]
          refine ⟨?_, h2, by rw [h3, hg], h4⟩
          intro n' ns' hn hb' _ hd
          cases hn
          rw [hb] at hb'; cases hb'
          simp [klPost, hd, hm, OptEqv]
        · simp only [hm, if_false] at h1
          subst h1
          rw [fun2parPost_some o o' fshape d n ns _ hg hb hn0 hc]
          by_cases hd : d.shape = [n, ns]
          · rw [if_neg (not_not.2 hd)]
            refine ⟨?_, h2, by rw [h3, hg], h4⟩
            intro n' ns' hn hb' _ _
            cases hn
            rw [hb] at hb'; cases hb'
            simp only [klPost, hd, ne_eq, not_true_eq_false, hm, or_self, if_false, OptEqv]
            refine ⟨rfl, ?_⟩
            intro t ht
            simp only [Arr.size, Arr.squeeze, prod_squeezeShape, prod_two] at ht
            simp only [Arr.squeeze]
            have hns : 0 < ns := Nat.pos_of_ne_zero (by rintro rfl; simp at ht)
            have : t / ns < o.m := (Nat.div_lt_iff_lt_mul hns).2 ht
            rw [lget_klFreshInv o.law o.m _ this]
          · rw [if_pos hd]
            refine ⟨?_, h2, by rw [h3, hg], h4⟩
            intro n' ns' hn hb' _ hd'
            cases hn
            rw [hb] at hb'; cases hb'
            exact absurd hd' hd

/-- one use of the object keeps the cache coherent and the setter-less attributes -/
lemma step_spec (o : KLObj) (h : o.Coherent) (op : KLOp) :
    (o.step op).Coherent ∧ (o.step op).SameParams o := by
  cases op with
  | setGrid g => exact ⟨h, ⟨rfl, rfl, rfl⟩⟩
  | coefs => exact ⟨(getCoefs_spec o h).2.1, (getCoefs_spec o h).2.2.2⟩
  | coefsInv => exact ⟨(getCoefsInv_spec o h).2.1, (getCoefsInv_spec o h).2.2.2⟩
  | par2fun x => exact ⟨(par2funPre_spec o h x).2.1, (par2funPre_spec o h x).2.2.2⟩
  | fun2par fs d => exact ⟨(fun2parPost_spec o h fs d).2.1, (fun2parPost_spec o h fs d).2.2.2⟩

lemma KLObj.SameParams.trans {a b c : KLObj} (h : a.SameParams b) (h' : b.SameParams c) : a.SameParams c :=
  ⟨h.1.trans h'.1, h.2.1.trans h'.2.1, h.2.2.trans h'.2.2⟩

lemma run_spec (ops : List KLOp) : ∀ (o : KLObj), o.Coherent → (o.run ops).Coherent ∧ (o.run ops).SameParams o := by
  induction ops with
  | nil => intro o h; exact ⟨h, ⟨rfl, rfl, rfl⟩⟩
  | cons op ops ih =>
    intro o h
    obtain ⟨hc, hp⟩ := step_spec o h op
    obtain ⟨hc', hp'⟩ := ih (o.step op) hc
    exact ⟨hc', hp'.trans hp⟩

/-! ## StepExpansion: the stored index sets -/

/-- results of `fun2par`: the same error, or the same numpy array -/
def ExcEqv : Except String Arr → Except String Arr → Prop
  | .ok a, .ok b => a.Eqv b
  | .error e, .error e' => e = e'
  | _, _ => False

lemma regrid_indices (gs : List (List ℚ)) : ∀ o : StepObj,
    (gs.foldl StepObj.setGrid o).indices = o.indices ∧ (gs.foldl StepObj.setGrid o).s = o.s ∧
    (gs.foldl StepObj.setGrid o).proj = o.proj ∧ (gs.foldl StepObj.setGrid o).grid = gs.getLastD o.grid := by
  induction gs with
  | nil => intro o; exact ⟨rfl, rfl, rfl, rfl⟩
  | cons g gs ih =>
    intro o
    obtain ⟨h1, h2, h3, h4⟩ := ih (o.setGrid g)
    refine ⟨h1, h2, h3, ?_⟩
    rw [List.foldl_cons, h4]
    cases gs with
    | nil => rfl
    | cons a l => simp [List.getLastD, StepObj.setGrid]

/-- the maps read only `s`, `proj`, `indices` and the *length* of the grid -/
lemma StepObj.par2fun_congr (o o' : StepObj) (hs : o.s = o'.s) (hi : o.indices = o'.indices)
    (hl : o.grid.length = o'.grid.length) (x : Arr) : o.par2fun x = o'.par2fun x := by
  unfold StepObj.par2fun StepObj.outOfRange StepObj.idx
  rw [hs, hi, hl]

lemma StepObj.fun2par_congr (o o' : StepObj) (hs : o.s = o'.s) (hp : o.proj = o'.proj) (hi : o.indices = o'.indices)
    (hl : o.grid.length = o'.grid.length) (x : Arr) : o.fun2par x = o'.fun2par x := by
  unfold StepObj.fun2par StepObj.outOfRange StepObj.idx
  rw [hs, hi, hl, hp]

lemma init_fields {grid : List ℚ} {bounds : Option (List ℚ)} {s : ℕ} {pr : Option Proj} {o : StepObj}
    (h : StepObj.init? grid bounds s pr = some o) :
    o.grid = grid ∧ o.s = s ∧ o.proj = pr ∧
    o.indices = stepIndices (stepB grid bounds s) (lget grid) grid.length s := by
  unfold StepObj.init? at h
  split at h
  · cases h; exact ⟨rfl, rfl, rfl, rfl⟩
  · cases h

lemma stepIndices_getD (b g : ℕ → ℚ) (n s i : ℕ) (hi : i < s) :
    (stepIndices b g n s).getD i [] = (List.range n).filter fun k => inStep b (g k) i := by
  simp [stepIndices, List.getD_eq_getElem?_getD, hi]

lemma stepIndices_getD_ge (b g : ℕ → ℚ) (n s i : ℕ) (hi : s ≤ i) :
    (stepIndices b g n s).getD i [] = [] := by
  simp [stepIndices, List.getD_eq_getElem?_getD, hi]

/-- the overwrite loop over the stored index sets of a fresh object is the interval-test loop of the stateless model -/
lemma fillByIndices_fresh (b g : ℕ → ℚ) (n s : ℕ) (p : ℕ → ℚ) (k : ℕ) (hk : k < n) :
    fillByIndices (fun i => (stepIndices b g n s).getD i []) s p k = stepFill b s p (g k) := by
  unfold fillByIndices stepFill
  apply List.foldl_ext
  intro acc i hi
  have his : i < s := List.mem_range.1 hi
  show (if ((stepIndices b g n s).getD i []).contains k = true then p i else acc) = _
  rw [stepIndices_getD b g n s i his]
  by_cases hin : inStep b (g k) i = true
  · have : ((List.range n).filter fun k => inStep b (g k) i).contains k = true := by
      simp [List.contains_iff_mem, List.mem_filter, hk, hin]
    rw [this, hin]
  · have : ((List.range n).filter fun k => inStep b (g k) i).contains k = false := by
      rw [Bool.eq_false_iff]
      intro hc
      simp [List.contains_iff_mem, List.mem_filter] at hc
      exact hin hc.2
    rw [this]
    simp [hin]

lemma fresh_not_outOfRange {grid : List ℚ} {bounds : Option (List ℚ)} {s : ℕ} {pr : Option Proj} {o : StepObj}
    (h : StepObj.init? grid bounds s pr = some o) : o.outOfRange = false := by
  obtain ⟨hg, hs, _, hi⟩ := init_fields h
  unfold StepObj.outOfRange StepObj.idx
  rw [hg, hs, hi, Bool.eq_false_iff]
  intro hc
  simp only [List.any_eq_true, List.mem_range, decide_eq_true_eq] at hc
  obtain ⟨i, his, k, hk, hle⟩ := hc
  rw [stepIndices_getD _ _ _ _ i his] at hk
  have := (List.mem_filter.1 hk).1
  have := List.mem_range.1 this
  omega

lemma any_range_congr (s : ℕ) (p q : ℕ → Bool) (h : ∀ i, i < s → p i = q i) :
    (List.range s).any p = (List.range s).any q := by
  rw [Bool.eq_iff_iff]
  simp only [List.any_eq_true, List.mem_range]
  constructor
  · rintro ⟨i, hi, hp⟩; exact ⟨i, hi, by rw [← h i hi]; exact hp⟩
  · rintro ⟨i, hi, hq⟩; exact ⟨i, hi, by rw [h i hi]; exact hq⟩

lemma init_accepts {grid : List ℚ} {bounds : Option (List ℚ)} {s : ℕ} {pr : Option Proj} {o : StepObj}
    (h : StepObj.init? grid bounds s pr = some o) : 2 ≤ grid.length ∧ s ≤ grid.length := by
  unfold StepObj.init? at h
  split at h
  · rename_i ha
    simp only [stepAccepts, Bool.and_eq_true, decide_eq_true_eq] at ha
    exact ⟨ha.1.2, ha.1.1⟩
  · cases h

end CuqiVerif.C13
