import CuqiVerif.Props.C10
import Mathlib.Probability.Distributions.Gamma
import Mathlib.MeasureTheory.Measure.WithDensity
import Mathlib.MeasureTheory.Function.AEEqOfLIntegral
import Mathlib.MeasureTheory.Measure.OpenPos
import Mathlib.MeasureTheory.Measure.Lebesgue.EqHaar
import Mathlib.Analysis.Complex.ExponentialBounds
import Mathlib.Analysis.SpecialFunctions.Pow.Continuity
import Mathlib.MeasureTheory.Integral.Bochner.ContinuousLinearMap

/-!
# C10 — helper definitions and lemmas for the *law* theorems (`Props/C10_law.lean`)

1. the normalised conditional posterior of the hyper-parameter as a *measure* (`hyperPosterior`),
   its normalising integral, and the identification with Mathlib's `gammaMeasure`;
2. injectivity of `(shape, rate) ↦ gammaMeasure shape rate`;
3. real-number versions of the two tolerance tests and the band lemmas for `p ↦ 10 ^ p`.
-/

open MeasureTheory ProbabilityTheory Real Set
open scoped ENNReal

namespace CuqiVerif.C10

/-! ## 1. The conditional posterior of the hyper-parameter as a measure -/

/-- **Un-normalised conditional posterior density of the hyper-parameter `s`:**
    `likelihood(data | s) · prior(s)` where the likelihood of a Gaussian / GMRF with precision
    `s · P₁`, reported rank `r` and misfit `q = (Ax-b)ᵀP₁(Ax-b)` is `K · s^{r/2} · e^{-s q/2}`
    (`K > 0` collects everything that does not depend on `s`: `(2π)^{-r/2} pdet(P₁)^{1/2}`) and
    the prior is Mathlib's Gamma density `gammaPDFReal α β`.  The `s`-dependent factor is the
    expression of `posterior_kernel` (Props/C10). -/
noncomputable def hyperPostPDFReal (K r q α β s : ℝ) : ℝ :=
  K * (s ^ (r / 2) * Real.exp (-(s * q / 2))) * gammaPDFReal α β s

/-- the same, `ℝ≥0∞`-valued -/
noncomputable def hyperPostPDF (K r q α β s : ℝ) : ℝ≥0∞ := ENNReal.ofReal (hyperPostPDFReal K r q α β s)

/-- **the normalising integral** `∫_{(0,∞)} likelihood(data | s) · prior(s) ds` -/
noncomputable def hyperNormConst (K r q α β : ℝ) : ℝ≥0∞ := ∫⁻ s in Ioi 0, hyperPostPDF K r q α β s

/-- **The exact conditional law of the hyper-parameter given the data:** the measure on `(0, ∞)`
    with density `likelihood · prior`, divided by its total mass. -/
noncomputable def hyperPosterior (K r q α β : ℝ) : Measure ℝ :=
  (hyperNormConst K r q α β)⁻¹ • (volume.restrict (Ioi 0)).withDensity (hyperPostPDF K r q α β)

/-- the closed form of the normalising integral -/
noncomputable def hyperConst (K r q α β : ℝ) : ℝ :=
  K * (β ^ α / Real.Gamma α) * (Real.Gamma (r / 2 + α) / (q / 2 + β) ^ (r / 2 + α))

lemma hyperConst_pos {K r q α β : ℝ} (hK : 0 < K) (hα : 0 < α) (hβ : 0 < β) (hr : 0 ≤ r) (hq : 0 ≤ q) :
    0 < hyperConst K r q α β := by
  have h1 : 0 < r / 2 + α := by positivity
  have h2 : 0 < q / 2 + β := by positivity
  have := Real.Gamma_pos_of_pos hα
  have := Real.Gamma_pos_of_pos h1
  have := Real.rpow_pos_of_pos hβ α
  have := Real.rpow_pos_of_pos h2 (r / 2 + α)
  unfold hyperConst
  positivity

/-- **likelihood × Gamma prior = constant × Gamma(r/2+α, q/2+β) density**, pointwise on `s > 0` -/
lemma hyperPostPDFReal_eq {K r q α β s : ℝ} (hα : 0 < α) (hβ : 0 < β) (hr : 0 ≤ r) (hq : 0 ≤ q)
    (hs : 0 < s) :
    hyperPostPDFReal K r q α β s = hyperConst K r q α β * gammaPDFReal (r / 2 + α) (q / 2 + β) s := by
  have h1 : 0 < r / 2 + α := by positivity
  have h2 : 0 < q / 2 + β := by positivity
  have g1 := (Real.Gamma_pos_of_pos hα).ne'
  have g2 := (Real.Gamma_pos_of_pos h1).ne'
  have p2 := (Real.rpow_pos_of_pos h2 (r / 2 + α)).ne'
  have e1 : s ^ (r / 2 + α - 1) = s ^ (r / 2) * s ^ (α - 1) := by
    rw [← Real.rpow_add hs]; congr 1; ring
  have e2 : Real.exp (-((q / 2 + β) * s)) = Real.exp (-(s * q / 2)) * Real.exp (-(β * s)) := by
    rw [← Real.exp_add]; congr 1; ring
  unfold hyperPostPDFReal hyperConst gammaPDFReal
  rw [if_pos hs.le, if_pos hs.le, e1, e2]
  field_simp

lemma measurable_hyperPostPDF (K r q α β : ℝ) : Measurable (hyperPostPDF K r q α β) := by
  unfold hyperPostPDF hyperPostPDFReal
  refine ENNReal.measurable_ofReal.comp ?_
  exact ((measurable_const.mul ((measurable_id.pow_const _).mul
    ((measurable_id.mul_const _).div_const _).neg.exp)).mul (measurable_gammaPDFReal α β))

lemma measurable_gammaPDF (a r : ℝ) : Measurable (gammaPDF a r) :=
  (measurable_gammaPDFReal a r).ennreal_ofReal

/-- the Gamma density has all its mass on `(0, ∞)` -/
lemma lintegral_Ioi_gammaPDF {a r : ℝ} (ha : 0 < a) (hr : 0 < r) :
    ∫⁻ x in Ioi 0, gammaPDF a r x = 1 := by
  have h := lintegral_gammaPDF_eq_one ha hr
  rw [← lintegral_add_compl _ (measurableSet_Ioi (a := (0 : ℝ))), compl_Ioi] at h
  have hz : ∫⁻ x in Iic 0, gammaPDF a r x = 0 := by
    rw [← setLIntegral_congr (Iio_ae_eq_Iic (a := (0 : ℝ)))]
    exact lintegral_gammaPDF_of_nonpos le_rfl
  rwa [hz, add_zero] at h

/-- `gammaMeasure` lives on `(0, ∞)` -/
lemma gammaMeasure_eq_restrict (a r : ℝ) :
    gammaMeasure a r = (volume.restrict (Ioi 0)).withDensity (gammaPDF a r) := by
  rw [← withDensity_indicator measurableSet_Ioi, gammaMeasure]
  refine withDensity_congr_ae ?_
  have h0 : ∀ᵐ x : ℝ, x ∉ ({0} : Set ℝ) := (measure_eq_zero_iff_ae_notMem).1 Real.volume_singleton
  filter_upwards [h0] with x hx
  rcases lt_trichotomy x 0 with h | h | h
  · rw [indicator_of_notMem (by simpa using h.le), gammaPDF_of_neg h]
  · exact absurd h hx
  · rw [indicator_of_mem (by simpa using h)]

lemma hyperPostPDF_ae_eq {K r q α β : ℝ} (hK : 0 < K) (hα : 0 < α) (hβ : 0 < β) (hr : 0 ≤ r)
    (hq : 0 ≤ q) :
    ∀ᵐ s ∂(volume.restrict (Ioi (0 : ℝ))), hyperPostPDF K r q α β s
      = (ENNReal.ofReal (hyperConst K r q α β) • gammaPDF (r / 2 + α) (q / 2 + β)) s := by
  refine (ae_restrict_iff' measurableSet_Ioi).2 (ae_of_all _ fun s hs => ?_)
  rw [Pi.smul_apply, smul_eq_mul, hyperPostPDF, gammaPDF,
    ← ENNReal.ofReal_mul (hyperConst_pos hK hα hβ hr hq).le, hyperPostPDFReal_eq hα hβ hr hq hs]

/-- **value of the normalising integral** -/
lemma hyperNormConst_eq {K r q α β : ℝ} (hK : 0 < K) (hα : 0 < α) (hβ : 0 < β) (hr : 0 ≤ r)
    (hq : 0 ≤ q) :
    hyperNormConst K r q α β = ENNReal.ofReal (hyperConst K r q α β) := by
  have h1 : 0 < r / 2 + α := by positivity
  have h2 : 0 < q / 2 + β := by positivity
  unfold hyperNormConst
  rw [lintegral_congr_ae (hyperPostPDF_ae_eq hK hα hβ hr hq)]
  simp only [Pi.smul_apply, smul_eq_mul]
  rw [lintegral_const_mul _ (measurable_gammaPDF _ _), lintegral_Ioi_gammaPDF h1 h2, mul_one]

/-- **the normalised conditional is the Gamma measure** -/
lemma hyperPosterior_eq {K r q α β : ℝ} (hK : 0 < K) (hα : 0 < α) (hβ : 0 < β) (hr : 0 ≤ r)
    (hq : 0 ≤ q) :
    hyperPosterior K r q α β = gammaMeasure (r / 2 + α) (q / 2 + β) := by
  have hC := hyperConst_pos hK hα hβ hr hq
  unfold hyperPosterior
  rw [hyperNormConst_eq hK hα hβ hr hq, withDensity_congr_ae (hyperPostPDF_ae_eq hK hα hβ hr hq),
    withDensity_smul _ (measurable_gammaPDF _ _), smul_smul,
    ENNReal.inv_mul_cancel (by simpa using hC) ENNReal.ofReal_ne_top, one_smul,
    ← gammaMeasure_eq_restrict]

/-! ## 2. Different parameters, different Gamma measures -/

lemma continuousOn_gammaPDFReal (a r : ℝ) : ContinuousOn (gammaPDFReal a r) (Ioi 0) := by
  have h : ContinuousOn (fun x : ℝ => r ^ a / Real.Gamma a * x ^ (a - 1) * Real.exp (-(r * x))) (Ioi 0) := by
    refine ((continuousOn_const).mul (continuousOn_id.rpow_const fun x hx => Or.inl (ne_of_gt hx))).mul ?_
    exact (Real.continuous_exp.comp ((continuous_const.mul continuous_id).neg)).continuousOn
  refine h.congr fun x hx => ?_
  unfold gammaPDFReal
  rw [if_pos (le_of_lt hx)]

/-- **`gammaMeasure` is injective in (shape, rate)**: two Gamma laws with different shapes (or
    rates) are different measures. -/
lemma gammaMeasure_inj {a r a' r' : ℝ} (ha : 0 < a) (hr : 0 < r) (ha' : 0 < a') (hr' : 0 < r')
    (h : gammaMeasure a r = gammaMeasure a' r') : a = a' ∧ r = r' := by
  unfold gammaMeasure at h
  rw [withDensity_eq_iff_of_sigmaFinite (measurable_gammaPDF _ _).aemeasurable
    (measurable_gammaPDF _ _).aemeasurable] at h
  have hreal : gammaPDFReal a r =ᵐ[volume] gammaPDFReal a' r' := by
    filter_upwards [h] with x hx
    unfold gammaPDF at hx
    exact (ENNReal.ofReal_eq_ofReal_iff (gammaPDFReal_nonneg ha hr x) (gammaPDFReal_nonneg ha' hr' x)).1 hx
  have heq : EqOn (gammaPDFReal a r) (gammaPDFReal a' r') (Ioi 0) :=
    Measure.eqOn_open_of_ae_eq (ae_restrict_of_ae hreal) isOpen_Ioi
      (continuousOn_gammaPDFReal a r) (continuousOn_gammaPDFReal a' r')
  have hprop : ∃ C, ∀ s : ℝ, 0 < s → Real.log (gammaPDFReal a r s) - logKernel (a' - 1) r' s = C := by
    refine ⟨a' * Real.log r' - Real.log (Real.Gamma a'), fun s hs => ?_⟩
    rw [heq hs, log_gammaPDFReal ha' hr' hs]
    ring
  obtain ⟨h1, h2⟩ := (conj_proportional_iff ha hr _ _).1 hprop
  exact ⟨by linarith, h2⟩

/-- **mean of the Gamma law:** `∫ x d Gamma(a, r) = a / r` -/
lemma gammaMeasure_mean {a r : ℝ} (ha : 0 < a) (hr : 0 < r) : ∫ x, x ∂(gammaMeasure a r) = a / r := by
  rw [gammaMeasure_eq_restrict, integral_withDensity_eq_integral_toReal_smul (measurable_gammaPDF a r)
    (ae_of_all _ fun x => ENNReal.ofReal_lt_top)]
  have h : ∀ x ∈ Ioi (0:ℝ), (gammaPDF a r x).toReal • x
      = r ^ a / Real.Gamma a * (x ^ ((a + 1) - 1) * Real.exp (-(r * x))) := by
    intro x hx
    have hx0 : (0:ℝ) < x := hx
    rw [gammaPDF, ENNReal.toReal_ofReal (gammaPDFReal_nonneg ha hr x), gammaPDFReal, if_pos hx0.le, smul_eq_mul]
    have e : x ^ (a + 1 - 1) = x ^ (a - 1) * x := by
      rw [show a + 1 - 1 = (a - 1) + 1 by ring, Real.rpow_add_one hx0.ne']
    rw [e]; ring
  rw [setIntegral_congr_fun measurableSet_Ioi h, integral_const_mul,
    integral_rpow_mul_exp_neg_mul_Ioi (by linarith) hr, Real.Gamma_add_one ha.ne',
    one_div, Real.inv_rpow hr.le, Real.rpow_add_one hr.ne']
  have := (Real.Gamma_pos_of_pos ha).ne'
  have := (Real.rpow_pos_of_pos hr a).ne'
  field_simp

/-! ## 3. The tolerance tests over `ℝ`, and the band lemmas for `t ↦ 10 ^ t` -/

/-- `np.allclose(a, b)` for real scalars (`atol = 1e-8`, `rtol = 1e-5`): the generic version of
    which the model's `allcloseTol` is the `ℚ` instance (`allcloseTol_iff_real`). -/
def allcloseR (a b : ℝ) : Prop := |a - b| ≤ 1 / 100000000 + 1 / 100000 * |b|

/-- `math.isclose(a, b)` for reals (`rel_tol = 1e-9`, `abs_tol = 0`); `iscloseTol` is its `ℚ` instance. -/
def iscloseR (a b : ℝ) : Prop := |a - b| ≤ 1 / 1000000000 * max |a| |b|

lemma allcloseTol_iff_real (a b : ℚ) : allcloseTol a b = true ↔ allcloseR (a : ℝ) (b : ℝ) := by
  rw [allcloseTol_iff, ← Rat.cast_le (K := ℝ)]
  unfold allcloseR
  push_cast
  rfl

lemma iscloseTol_iff_real (a b : ℚ) : iscloseTol a b = true ↔ iscloseR (a : ℝ) (b : ℝ) := by
  rw [iscloseTol_iff, ← Rat.cast_le (K := ℝ)]
  unfold iscloseR
  push_cast
  rfl

/-- the three identity probes on a real function -/
def identityProbeR (f : ℝ → ℝ) : Prop := allcloseR (f 1) 1 ∧ allcloseR (f 10) 10 ∧ allcloseR (f 100) 100

/-- the three reciprocal probes on a real function -/
def reciprocalProbeR (f : ℝ → ℝ) : Prop :=
  iscloseR (f 1) (1 / 1) ∧ iscloseR (f 10) (1 / 10) ∧ iscloseR (f 100) (1 / 100)

lemma log_ten_gt : (2.07 : ℝ) < Real.log 10 := by
  have h8 : Real.log 8 = 3 * Real.log 2 := by
    rw [show (8 : ℝ) = 2 ^ 3 by norm_num, Real.log_pow]; norm_num
  have h : Real.log 8 ≤ Real.log 10 := Real.log_le_log (by norm_num) (by norm_num)
  have := Real.log_two_gt_d9
  linarith

lemma log_ten_lt : Real.log 10 < (2.78 : ℝ) := by
  have h16 : Real.log 16 = 4 * Real.log 2 := by
    rw [show (16 : ℝ) = 2 ^ 4 by norm_num, Real.log_pow]; norm_num
  have h : Real.log 10 ≤ Real.log 16 := Real.log_le_log (by norm_num) (by norm_num)
  have := Real.log_two_lt_d9
  linarith

/-- `10^t ≥ 1 + t log 10` -/
lemma ten_rpow_ge (t : ℝ) : 1 + t * Real.log 10 ≤ (10 : ℝ) ^ t := by
  rw [Real.rpow_def_of_pos (by norm_num)]
  linarith [Real.add_one_le_exp (Real.log 10 * t)]

/-- `10^t ≤ 1 / (1 - t log 10)` -/
lemma ten_rpow_le {t : ℝ} (ht : t * Real.log 10 < 1) : (10 : ℝ) ^ t ≤ 1 / (1 - t * Real.log 10) := by
  rw [Real.rpow_def_of_pos (by norm_num)]
  have h := Real.add_one_le_exp (-(Real.log 10 * t))
  have hpos : 0 < 1 - t * Real.log 10 := by linarith
  rw [Real.exp_neg] at h
  rw [le_div_iff₀ hpos]
  have he := Real.exp_pos (Real.log 10 * t)
  have h2 := mul_le_mul_of_nonneg_left h he.le
  rw [mul_inv_cancel₀ he.ne'] at h2
  nlinarith

lemma rpow_ten_band_upper {t δ : ℝ} (hδ : 0 ≤ δ) (h : (10 : ℝ) ^ t ≤ 1 + δ) : t ≤ δ / 2.07 := by
  rcases le_or_gt t 0 with ht | ht
  · exact ht.trans (by positivity)
  · have h1 := ten_rpow_ge t
    have h2 := log_ten_gt
    rw [le_div_iff₀ (by norm_num)]
    nlinarith

lemma rpow_ten_band_lower {t δ : ℝ} (hδ : 0 ≤ δ) (hδ1 : δ < 1) (h : 1 - δ ≤ (10 : ℝ) ^ t) :
    -(δ / (1 - δ) / 2.07) ≤ t := by
  have hpos : 0 < 1 - δ := by linarith
  have hx : (10 : ℝ) ^ (-t) ≤ 1 + δ / (1 - δ) := by
    rw [Real.rpow_neg (by norm_num)]
    have h10 : 0 < (10 : ℝ) ^ t := Real.rpow_pos_of_pos (by norm_num) t
    calc ((10 : ℝ) ^ t)⁻¹ ≤ (1 - δ)⁻¹ := inv_anti₀ hpos h
      _ = 1 + δ / (1 - δ) := by field_simp; ring
  have := rpow_ten_band_upper (div_nonneg hδ hpos.le) hx
  linarith

/-- **`10^t` within `1 ± δ` forces `|t| ≤ δ/(1-δ)/2.07`** (strict monotonicity of `t ↦ 10^t`, quantified) -/
lemma abs_le_of_ten_rpow_window {t δ B : ℝ} (hδ : 0 ≤ δ) (hδ1 : δ < 1) (hlo : 1 - δ ≤ (10 : ℝ) ^ t)
    (hhi : (10 : ℝ) ^ t ≤ 1 + δ) (hB : δ / (1 - δ) / 2.07 ≤ B) : |t| ≤ B := by
  have hpos : 0 < 1 - δ := by linarith
  have h1 := rpow_ten_band_upper hδ hhi
  have h2 := rpow_ten_band_lower hδ hδ1 hlo
  have h3 : δ / 2.07 ≤ δ / (1 - δ) / 2.07 := by
    apply div_le_div_of_nonneg_right _ (by norm_num)
    rw [le_div_iff₀ hpos]; nlinarith
  exact abs_le.2 ⟨by linarith, by linarith⟩

/-- from windows for `c` and `c · 10^p` to a window for `10^p` -/
lemma rpow_window {c p cL cU TL TU : ℝ} (hcL : 0 < cL) (h1 : cL ≤ c) (h2 : c ≤ cU)
    (h3 : TL ≤ c * (10 : ℝ) ^ p) (h4 : c * (10 : ℝ) ^ p ≤ TU) :
    TL / cU ≤ (10 : ℝ) ^ p ∧ (10 : ℝ) ^ p ≤ TU / cL := by
  have hX : 0 < (10 : ℝ) ^ p := Real.rpow_pos_of_pos (by norm_num) p
  have hc : 0 < c := hcL.trans_le h1
  constructor
  · rw [div_le_iff₀ (hc.trans_le h2)]; nlinarith
  · rw [le_div_iff₀ hcL]; nlinarith

/-- what `math.isclose` gives about `v` when the reference `b` is positive -/
lemma iscloseR_bound {v b : ℝ} (hb : 0 < b) (h : iscloseR v b) :
    |v - b| ≤ b * (1.000000002 / 1000000000) := by
  unfold iscloseR at h
  have hm : max |v| |b| ≤ |v - b| + b := by
    rw [abs_of_pos hb]
    refine max_le ?_ (by linarith [abs_nonneg (v - b)])
    calc |v| = |(v - b) + b| := by ring_nf
      _ ≤ |v - b| + |b| := abs_add_le _ _
      _ = |v - b| + b := by rw [abs_of_pos hb]
  have := mul_le_mul_of_nonneg_left hm (show (0 : ℝ) ≤ 1 / 1000000000 by norm_num)
  nlinarith [abs_nonneg (v - b)]

/-- **identity probes, real exponent, with a relative evaluation error `η ≤ 10⁻⁹` of the probe
    values:** passing the probes at 1 and 10 forces `|p - 1| ≤ 10⁻⁵` and `|c - 1| ≤ 1.002·10⁻⁵`. -/
lemma identity_band {c p v1 v10 η : ℝ} (hc : 0 < c) (hη : η ≤ 1 / 1000000000)
    (e1 : |v1 - c| ≤ η * c) (e10 : |v10 - c * (10 : ℝ) ^ p| ≤ η * (c * (10 : ℝ) ^ p))
    (h1 : allcloseR v1 1) (h10 : allcloseR v10 10) :
    |p - 1| ≤ 1 / 100000 ∧ |c - 1| ≤ 1.002 / 100000 := by
  unfold allcloseR at h1 h10
  rw [abs_one] at h1
  rw [show |(10 : ℝ)| = 10 by norm_num] at h10
  have hT : 0 < c * (10 : ℝ) ^ p := mul_pos hc (Real.rpow_pos_of_pos (by norm_num) p)
  obtain ⟨a1, b1⟩ := abs_le.1 h1
  obtain ⟨a10, b10⟩ := abs_le.1 h10
  obtain ⟨c1, d1⟩ := abs_le.1 e1
  obtain ⟨c10, d10⟩ := abs_le.1 e10
  have hηc : η * c ≤ 1 / 1000000000 * c := mul_le_mul_of_nonneg_right hη hc.le
  have hηT : η * (c * (10 : ℝ) ^ p) ≤ 1 / 1000000000 * (c * (10 : ℝ) ^ p) :=
    mul_le_mul_of_nonneg_right hη hT.le
  have cL : (0.99998998 : ℝ) ≤ c := by linarith
  have cU : c ≤ (1.00001002 : ℝ) := by linarith
  have TL : (9.9998999 : ℝ) ≤ c * (10 : ℝ) ^ p := by linarith
  have TU : c * (10 : ℝ) ^ p ≤ (10.0001001 : ℝ) := by linarith
  obtain ⟨w1, w2⟩ := rpow_window (by norm_num) cL cU TL TU
  have hX : (10 : ℝ) ^ (p - 1) = (10 : ℝ) ^ p / 10 := Real.rpow_sub_one (by norm_num) p
  refine ⟨?_, abs_le.2 ⟨by linarith, by linarith⟩⟩
  refine abs_le_of_ten_rpow_window (δ := 2.004 / 100000) (by norm_num) (by norm_num) ?_ ?_ (by norm_num)
  · rw [hX, le_div_iff₀ (by norm_num)]
    refine le_trans ?_ w1
    norm_num
  · rw [hX, div_le_iff₀ (by norm_num)]
    refine le_trans w2 ?_
    norm_num

/-- **reciprocal probes, real exponent, relative evaluation error `η ≤ 10⁻¹²`:** passing the probes
    at 1 and 10 forces `|p + 1| ≤ 10⁻⁹` and `|c - 1| ≤ 1.002·10⁻⁹`. -/
lemma reciprocal_band {c p v1 v10 η : ℝ} (hc : 0 < c) (hη : η ≤ 1 / 1000000000000)
    (e1 : |v1 - c| ≤ η * c) (e10 : |v10 - c * (10 : ℝ) ^ p| ≤ η * (c * (10 : ℝ) ^ p))
    (h1 : iscloseR v1 (1 / 1)) (h10 : iscloseR v10 (1 / 10)) :
    |p + 1| ≤ 1 / 1000000000 ∧ |c - 1| ≤ 1.002 / 1000000000 := by
  have h1' := iscloseR_bound (by norm_num) h1
  have h10' := iscloseR_bound (by norm_num) h10
  have hT : 0 < c * (10 : ℝ) ^ p := mul_pos hc (Real.rpow_pos_of_pos (by norm_num) p)
  obtain ⟨a1, b1⟩ := abs_le.1 h1'
  obtain ⟨a10, b10⟩ := abs_le.1 h10'
  obtain ⟨c1, d1⟩ := abs_le.1 e1
  obtain ⟨c10, d10⟩ := abs_le.1 e10
  have hηc : η * c ≤ 1 / 1000000000000 * c := mul_le_mul_of_nonneg_right hη hc.le
  have hηT : η * (c * (10 : ℝ) ^ p) ≤ 1 / 1000000000000 * (c * (10 : ℝ) ^ p) :=
    mul_le_mul_of_nonneg_right hη hT.le
  have cL : (1 - 1.002 / 1000000000 : ℝ) ≤ c := by linarith
  have cU : c ≤ (1 + 1.002 / 1000000000 : ℝ) := by linarith
  have TL : ((1 - 1.002 / 1000000000) / 10 : ℝ) ≤ c * (10 : ℝ) ^ p := by linarith
  have TU : c * (10 : ℝ) ^ p ≤ ((1 + 1.002 / 1000000000) / 10 : ℝ) := by linarith
  obtain ⟨w1, w2⟩ := rpow_window (by norm_num) cL cU TL TU
  have hX : (10 : ℝ) ^ (p + 1) = (10 : ℝ) ^ p * 10 := Real.rpow_add_one (by norm_num) p
  refine ⟨?_, abs_le.2 ⟨by linarith, by linarith⟩⟩
  refine abs_le_of_ten_rpow_window (δ := 2.005 / 1000000000) (by norm_num) (by norm_num) ?_ ?_ (by norm_num)
  · rw [hX]
    have : (1 - 2.005 / 1000000000 : ℝ) ≤ (1 - 1.002 / 1000000000) / 10 / (1 + 1.002 / 1000000000) * 10 := by
      norm_num
    nlinarith
  · rw [hX]
    have : ((1 + 1.002 / 1000000000) / 10 / (1 - 1.002 / 1000000000) * 10 : ℝ) ≤ 1 + 2.005 / 1000000000 := by
      norm_num
    nlinarith

/-- the window of `10^t` for a tiny positive `t` -/
lemma ten_rpow_small {t : ℝ} (ht0 : 0 ≤ t) (ht : t ≤ 2 / 1000000) :
    1 ≤ (10 : ℝ) ^ t ∧ (10 : ℝ) ^ t ≤ 1 + 6 / 1000000 * (t * 500000) := by
  have hl := log_ten_lt
  have hg := log_ten_gt
  have hlt : t * Real.log 10 < 1 := by nlinarith
  refine ⟨Real.one_le_rpow (by norm_num) ht0, (ten_rpow_le hlt).trans ?_⟩
  have hpos : 0 < 1 - t * Real.log 10 := by linarith
  rw [div_le_iff₀ hpos]
  have hk : 0 ≤ 3 - Real.log 10 - 3 * t * Real.log 10 := by nlinarith
  nlinarith [mul_nonneg ht0 hk]

end CuqiVerif.C10
