import CuqiVerif.Proofs.C08_law
import Mathlib.MeasureTheory.Integral.Lebesgue.Map
import Mathlib.MeasureTheory.Integral.Lebesgue.Add
import Mathlib.MeasureTheory.Integral.Lebesgue.Countable
import Mathlib.Dynamics.Ergodic.MeasurePreserving
import Mathlib.MeasureTheory.MeasurableSpace.Instances
import Mathlib.MeasureTheory.Group.Arithmetic
import Mathlib.MeasureTheory.Constructions.Polish.Basic
import Mathlib.MeasureTheory.Function.SpecialFunctions.Basic
import Mathlib.MeasureTheory.Measure.WithDensity
import Mathlib.Probability.Kernel.Invariance
import Mathlib.MeasureTheory.Integral.Pi
import Mathlib.Analysis.SpecialFunctions.Gaussian.GaussianIntegral

/-!
# C08 — from the orbit to phase space: definitions and helper lemmas

* `OrbitKernel μ φ adm P` — a measure preserving `ℤ`-action `φ` on `(Z, μ)`, a measurable set `adm`
  of admissible points and orbit-level transition weights `P z i j` (probability that the transition
  on the orbit of `z` moves from index `i` to index `j`) that are shift covariant, reversible on
  admissible indices, stochastic with support in admissible indices, and measurable in `z`.
* `phaseK φ P z B = Σ_k P z 0 k · 1_B(φ k z)` — the induced transition kernel on phase space.
* `OrbitKernel.detailed_balance`, `OrbitKernel.invariant` — the lifting lemma.
* `OrbitKernel.kernel` — the same transition as a Mathlib `ProbabilityTheory.Kernel` (Markov,
  `IsReversible`, `Invariant`).
* `orbAlong φ D z` — the `Orb` of `Proofs/C08_orbit.lean` read off along the orbit of `z` from
  functions `D.S, D.nd, D.g, D.ut j` of the phase-space point; shift covariance, non-negativity,
  finite support and measurability of `z ↦ (orbAlong φ D z).P M i k`.
* `zact Φ k = Φ^k`; `nuts_orbitKernel` — the NUTS weights satisfy the hypotheses of the lifting lemma.
* `ctxData`, `ptAct`, `nutsStepD_pr_eq_phaseK` — the model's context as phase-space data; the law of
  the model's randomised transition is the induced phase-space kernel.
* `slice_mixture` (integrating out the slice variable), `marginal_invariant` (momentum refresh and
  projection to the position).
* `lfEquiv`, `hamR`, `noUturnR`, `nutsDataR`, `nutsKR`, `nutsTR`, `stdNormalDensity` — leapfrog on
  `ℝⁿ × ℝⁿ`, the code's tests over `ℝ`, the transition with the slice variable included.
-/

namespace CuqiVerif.C08
open MeasureTheory
open scoped ENNReal

/-! ## the general lifting lemma -/
section Lift
variable {Z : Type*} [MeasurableSpace Z]

/-- hypotheses of the lifting lemma -/
structure OrbitKernel (μ : Measure Z) (φ : ℤ → Z → Z) (adm : Set Z) (P : Z → ℤ → ℤ → ℝ≥0∞) : Prop where
  /-- `φ` is an action of `ℤ` … -/
  act_zero : ∀ z, φ 0 z = z
  act_add : ∀ a b z, φ (a + b) z = φ a (φ b z)
  /-- … by measure preserving maps -/
  pres : ∀ k, MeasurePreserving (φ k) μ μ
  adm_meas : MeasurableSet adm
  /-- (1) re-indexing the orbit from `φ m z` shifts the indices by `m` -/
  shift : ∀ m z i j, P (φ m z) i j = P z (i + m) (j + m)
  /-- (2) detailed balance between admissible indices of one orbit -/
  rev : ∀ z i j, φ i z ∈ adm → φ j z ∈ adm → P z i j = P z j i
  /-- (3) rows of admissible starts are probability vectors supported on admissible indices -/
  stoch : ∀ z ∈ adm, ∑' k, P z 0 k = 1
  supp : ∀ z ∈ adm, ∀ k, φ k z ∉ adm → P z 0 k = 0
  /-- (4) measurability in the starting point -/
  meas : ∀ k, Measurable (fun z => P z 0 k)

/-- the phase-space transition kernel induced by orbit-level weights:
    from `z` move to `φ k z` with probability `P z 0 k` -/
noncomputable def phaseK (φ : ℤ → Z → Z) (P : Z → ℤ → ℤ → ℝ≥0∞) (z : Z) (B : Set Z) : ℝ≥0∞ :=
  ∑' k : ℤ, P z 0 k * B.indicator 1 (φ k z)

variable {μ : Measure Z} {φ : ℤ → Z → Z} {adm : Set Z} {P : Z → ℤ → ℤ → ℝ≥0∞}

/-- flow of mass from `adm ∩ A` to `adm ∩ B` through the index shift `k` -/
noncomputable def flowK (μ : Measure Z) (φ : ℤ → Z → Z) (adm : Set Z) (P : Z → ℤ → ℤ → ℝ≥0∞)
    (A B : Set Z) (k : ℤ) : ℝ≥0∞ :=
  ∫⁻ z, (adm ∩ A).indicator 1 z * (P z 0 k * (adm ∩ B).indicator 1 (φ k z)) ∂μ

lemma OrbitKernel.phaseK_measurable (h : OrbitKernel μ φ adm P) {B : Set Z} (hB : MeasurableSet B) :
    Measurable (fun z => phaseK φ P z B) := by
  unfold phaseK
  refine Measurable.tsum (fun k => (h.meas k).mul ?_)
  exact (measurable_one.indicator hB).comp (h.pres k).measurable

lemma OrbitKernel.setLIntegral_phaseK (h : OrbitKernel μ φ adm P) {A B : Set Z}
    (hA : MeasurableSet A) (hB : MeasurableSet B) :
    ∫⁻ z in adm ∩ A, phaseK φ P z B ∂μ = ∑' k, flowK μ φ adm P A B k := by
  have hAA := h.adm_meas.inter hA
  have hBB := h.adm_meas.inter hB
  unfold flowK
  rw [← lintegral_tsum, ← lintegral_indicator hAA]
  · congr 1
    funext z
    by_cases hz : z ∈ adm ∩ A
    · rw [Set.indicator_of_mem hz]
      unfold phaseK
      apply tsum_congr
      intro k
      rw [Set.indicator_of_mem hz (1 : Z → ℝ≥0∞), Pi.one_apply, one_mul]
      by_cases hk : φ k z ∈ adm
      · congr 1
        by_cases hkB : φ k z ∈ B
        · have hkk : φ k z ∈ adm ∩ B := ⟨hk, hkB⟩
          rw [Set.indicator_of_mem hkB, Set.indicator_of_mem hkk]
        · have hkk : φ k z ∉ adm ∩ B := fun hh => hkB hh.2
          rw [Set.indicator_of_notMem hkB, Set.indicator_of_notMem hkk]
      · rw [h.supp z hz.1 k hk, zero_mul, zero_mul]
    · rw [Set.indicator_of_notMem hz]
      simp [Set.indicator_of_notMem hz]
  · intro k
    refine Measurable.aemeasurable ?_
    refine (measurable_one.indicator hAA).mul ((h.meas k).mul ?_)
    exact (measurable_one.indicator hBB).comp (h.pres k).measurable

lemma OrbitKernel.flow_symm (h : OrbitKernel μ φ adm P) {A B : Set Z}
    (hA : MeasurableSet A) (hB : MeasurableSet B) (k : ℤ) :
    flowK μ φ adm P A B k = flowK μ φ adm P B A (-k) := by
  have hAA := h.adm_meas.inter hA
  have hBB := h.adm_meas.inter hB
  -- the integrand as a function of `w = φ k z`
  let f : Z → ℝ≥0∞ := fun w =>
    (adm ∩ A).indicator 1 (φ (-k) w) * (P (φ (-k) w) 0 k * (adm ∩ B).indicator 1 w)
  have hback : ∀ z, φ (-k) (φ k z) = z := by
    intro z; rw [← h.act_add, neg_add_cancel, h.act_zero]
  have hf : Measurable f := by
    refine ((measurable_one.indicator hAA).comp (h.pres (-k)).measurable).mul (Measurable.mul ?_ ?_)
    · exact (h.meas k).comp (h.pres (-k)).measurable
    · exact measurable_one.indicator hBB
  have h1 : flowK μ φ adm P A B k = ∫⁻ z, f (φ k z) ∂μ := by
    unfold flowK
    congr 1; funext z
    simp only [f, hback]
  rw [h1, (h.pres k).lintegral_comp hf]
  unfold flowK
  congr 1; funext w
  simp only [f]
  by_cases hw : w ∈ adm ∩ B
  · by_cases hv : φ (-k) w ∈ adm ∩ A
    · rw [Set.indicator_of_mem hw, Set.indicator_of_mem hv]
      simp only [Pi.one_apply, one_mul, mul_one]
      rw [h.shift, zero_add, add_neg_cancel]
      apply h.rev w (-k) 0 hv.1
      rw [h.act_zero]; exact hw.1
    · rw [Set.indicator_of_notMem hv]; simp
  · rw [Set.indicator_of_notMem hw]; simp

/-- **detailed balance on phase space** -/
lemma OrbitKernel.detailed_balance (h : OrbitKernel μ φ adm P) {A B : Set Z}
    (hA : MeasurableSet A) (hB : MeasurableSet B) :
    ∫⁻ z in adm ∩ A, phaseK φ P z B ∂μ = ∫⁻ z in adm ∩ B, phaseK φ P z A ∂μ := by
  rw [h.setLIntegral_phaseK hA hB, h.setLIntegral_phaseK hB hA]
  rw [← (Equiv.neg ℤ).tsum_eq (fun k => flowK μ φ adm P B A k)]
  apply tsum_congr
  intro k
  exact h.flow_symm hA hB k

lemma OrbitKernel.phaseK_univ (h : OrbitKernel μ φ adm P) (z : Z) (hz : z ∈ adm) :
    phaseK φ P z Set.univ = 1 := by
  unfold phaseK
  simp only [Set.indicator_univ, Pi.one_apply, mul_one]
  exact h.stoch z hz

/-- **invariance of `μ` restricted to the admissible set** -/
lemma OrbitKernel.invariant (h : OrbitKernel μ φ adm P) {B : Set Z} (hB : MeasurableSet B) :
    ∫⁻ z in adm, phaseK φ P z B ∂μ = μ (adm ∩ B) := by
  have := h.detailed_balance MeasurableSet.univ hB
  rw [Set.inter_univ] at this
  rw [this, setLIntegral_congr_fun (h.adm_meas.inter hB) (g := fun _ => 1)
    (fun z hz => h.phaseK_univ z hz.1), setLIntegral_one]

/-! ### the same statement with Mathlib's `ProbabilityTheory.Kernel` -/

/-- the transition as a measure: from an admissible `z` the weights `P z 0 k` on the points `φ k z`;
    a non-admissible `z` (never visited by the chain) stays where it is -/
noncomputable def phaseMeasure (φ : ℤ → Z → Z) (adm : Set Z) (P : Z → ℤ → ℤ → ℝ≥0∞) (z : Z) : Measure Z :=
  open Classical in
  if z ∈ adm then Measure.sum (fun k : ℤ => P z 0 k • Measure.dirac (φ k z)) else Measure.dirac z

lemma phaseMeasure_apply_adm (φ : ℤ → Z → Z) (adm : Set Z) (P : Z → ℤ → ℤ → ℝ≥0∞) {z : Z}
    (hz : z ∈ adm) {B : Set Z} (hB : MeasurableSet B) : phaseMeasure φ adm P z B = phaseK φ P z B := by
  unfold phaseMeasure phaseK
  rw [if_pos hz, Measure.sum_apply _ hB]
  apply tsum_congr
  intro k
  rw [Measure.smul_apply, Measure.dirac_apply' _ hB, smul_eq_mul]

lemma phaseMeasure_apply_not_adm (φ : ℤ → Z → Z) (adm : Set Z) (P : Z → ℤ → ℤ → ℝ≥0∞) {z : Z}
    (hz : z ∉ adm) {B : Set Z} (hB : MeasurableSet B) :
    phaseMeasure φ adm P z B = B.indicator 1 z := by
  unfold phaseMeasure
  rw [if_neg hz, Measure.dirac_apply' _ hB]

lemma OrbitKernel.phaseMeasure_measurable (h : OrbitKernel μ φ adm P) :
    Measurable (phaseMeasure φ adm P) := by
  classical
  refine Measure.measurable_of_measurable_coe _ (fun B hB => ?_)
  have : (fun z => phaseMeasure φ adm P z B)
      = fun z => if z ∈ adm then phaseK φ P z B else B.indicator 1 z := by
    funext z
    by_cases hz : z ∈ adm
    · rw [if_pos hz, phaseMeasure_apply_adm φ adm P hz hB]
    · rw [if_neg hz, phaseMeasure_apply_not_adm φ adm P hz hB]
  rw [this]
  exact Measurable.ite h.adm_meas (h.phaseK_measurable hB) (measurable_one.indicator hB)

/-- the phase-space transition as a Mathlib kernel -/
noncomputable def OrbitKernel.kernel (h : OrbitKernel μ φ adm P) : ProbabilityTheory.Kernel Z Z where
  toFun := phaseMeasure φ adm P
  measurable' := h.phaseMeasure_measurable

lemma OrbitKernel.kernel_apply (h : OrbitKernel μ φ adm P) (z : Z) :
    h.kernel z = phaseMeasure φ adm P z := rfl

instance OrbitKernel.kernel_markov (h : OrbitKernel μ φ adm P) :
    ProbabilityTheory.IsMarkovKernel h.kernel where
  isProbabilityMeasure := by
    intro z
    constructor
    rw [h.kernel_apply]
    by_cases hz : z ∈ adm
    · rw [phaseMeasure_apply_adm φ adm P hz MeasurableSet.univ, h.phaseK_univ z hz]
    · rw [phaseMeasure_apply_not_adm φ adm P hz MeasurableSet.univ]; simp

lemma OrbitKernel.kernel_reversible (h : OrbitKernel μ φ adm P) :
    ProbabilityTheory.Kernel.IsReversible h.kernel (μ.restrict adm) := by
  intro A B hA hB
  rw [Measure.restrict_restrict hA, Measure.restrict_restrict hB, Set.inter_comm A, Set.inter_comm B]
  rw [setLIntegral_congr_fun (h.adm_meas.inter hA) (g := fun z => phaseK φ P z B)
      (fun z hz => by rw [h.kernel_apply, phaseMeasure_apply_adm φ adm P hz.1 hB]),
    setLIntegral_congr_fun (h.adm_meas.inter hB) (g := fun z => phaseK φ P z A)
      (fun z hz => by rw [h.kernel_apply, phaseMeasure_apply_adm φ adm P hz.1 hA])]
  exact h.detailed_balance hA hB

lemma OrbitKernel.kernel_invariant (h : OrbitKernel μ φ adm P) :
    ProbabilityTheory.Kernel.Invariant h.kernel (μ.restrict adm) :=
  h.kernel_reversible.invariant

end Lift

/-! ## the orbit-level NUTS kernel read off along the orbits of a phase-space map -/

/-- what NUTS looks at, as functions of the phase-space point: `S z` — in the slice; `nd z` — not
    diverged; `g z` — passes the finiteness guard; `ut j z` — the no-U-turn test passes for the
    block of `2^j` consecutive orbit points whose first point is `z`. -/
structure PhaseData (Z : Type*) where
  S : Z → Bool
  nd : Z → Bool
  ut : ℕ → Z → Bool
  g : Z → Bool

section Along
variable {Z : Type*}

/-- the orbit-level data (`Orb`) of the trajectory through `z`, index `k` ↔ point `φ k z` -/
def orbAlong (φ : ℤ → Z → Z) (D : PhaseData Z) (z : Z) : Orb where
  S := fun k => D.S (φ k z)
  nd := fun k => D.nd (φ k z)
  ut := fun j a => D.ut j (φ a z)
  g := fun k => D.g (φ k z)

/-- **re-indexing the orbit**: the data along the orbit of `φ m z` are those along the orbit of `z`
    shifted by `m` -/
lemma orbAlong_isShift (φ : ℤ → Z → Z) (hadd : ∀ a b z, φ (a + b) z = φ a (φ b z)) (D : PhaseData Z)
    (m : ℤ) (z : Z) : (orbAlong φ D (φ m z)).IsShift (orbAlong φ D z) m := by
  constructor
  · intro k; simp only [orbAlong, hadd]
  · intro k; simp only [orbAlong, hadd]
  · intro j a; simp only [orbAlong, hadd]
  · intro k; simp only [orbAlong, hadd]

end Along

/-! ### non-negativity and finite support of `Orb.P` -/

lemma Orb.unif_nonneg (o : Orb) (a : ℤ) (j : ℕ) (k : ℤ) : 0 ≤ o.unif a j k := by
  unfold Orb.unif; split <;> positivity

lemma Orb.acc_nonneg (o : Orb) (j : ℕ) (aO aN : ℤ) : 0 ≤ o.acc j aO aN := by
  unfold Orb.acc; split
  · exact le_min zero_le_one (by positivity)
  · exact le_refl _

lemma Orb.acc_le_one (o : Orb) (j : ℕ) (aO aN : ℤ) : o.acc j aO aN ≤ 1 := by
  unfold Orb.acc; split
  · exact min_le_left _ _
  · exact zero_le_one

lemma Orb.sum_unif_le_one (o : Orb) (a : ℤ) (j : ℕ) :
    ∑ t ∈ Finset.range (2 ^ j), o.unif a j (a + t) ≤ 1 := by
  have h1 : ∀ t ∈ Finset.range (2 ^ j), o.unif a j (a + t)
      ≤ (if o.S (a + t) = true then (1 : ℚ) else 0) / (cnt o.S a (2 ^ j) : ℚ) := by
    intro t _
    unfold Orb.unif
    by_cases hS : o.S (a + t) = true
    · rw [if_pos hS]; split
      · exact le_refl _
      · positivity
    · rw [if_neg hS, if_neg (fun hh => hS hh.2.2.1)]; simp
  refine le_trans (Finset.sum_le_sum h1) ?_
  rw [← Finset.sum_div]
  have : (∑ t ∈ Finset.range (2 ^ j), if o.S (a + t) = true then (1 : ℚ) else 0)
      = (cnt o.S a (2 ^ j) : ℚ) := by
    unfold cnt; push_cast; rfl
  rw [this]
  exact div_self_le_one _

lemma Orb.stay_nonneg (o : Orb) (j : ℕ) (aO aN : ℤ) : 0 ≤ o.stay j aO aN := by
  unfold Orb.stay
  have h1 := o.acc_nonneg j aO aN
  have h2 := o.acc_le_one j aO aN
  have h3 := o.sum_unif_le_one aN j
  have h4 : 0 ≤ ∑ t ∈ Finset.range (2 ^ j), o.unif aN j (aN + t) :=
    Finset.sum_nonneg (fun t _ => o.unif_nonneg _ _ _)
  nlinarith

lemma Orb.walk_nonneg (o : Orb) (r : ℕ) (st : OSt) (h : ∀ x, 0 ≤ st.dist x) (k : ℤ) :
    0 ≤ o.walk r st k := by
  induction r generalizing st with
  | zero => exact h k
  | succ r ih =>
    have hb : ∀ b x, 0 ≤ (o.body b st).dist x := by
      intro b x
      simp only [Orb.body]
      exact add_nonneg (mul_nonneg (o.stay_nonneg _ _ _) (h x))
        (mul_nonneg (o.acc_nonneg _ _ _) (o.unif_nonneg _ _ _))
    simp only [Orb.walk]
    split
    · have := ih _ (hb true); have := ih _ (hb false); positivity
    · exact h k

lemma Orb.P_nonneg (o : Orb) (M : ℕ) (i k : ℤ) : 0 ≤ o.P M i k := by
  unfold Orb.P
  apply o.walk_nonneg
  intro x; simp only [oinit]; split <;> norm_num

/-- `M` doublings move the index by less than `2^M` -/
lemma Orb.P_zero_far (o : Orb) (M : ℕ) (i k : ℤ)
    (hk : k ∉ Finset.Ico (i + 1 - 2 ^ M) (i + 2 ^ M)) : o.P M i k = 0 := by
  have h1 := o.P_mass M i _ (Finset.Subset.refl _)
  have h2 := o.P_mass M i (insert k (Finset.Ico (i + 1 - 2 ^ M) (i + 2 ^ M)))
    (Finset.subset_insert _ _)
  rw [Finset.sum_insert hk, h1] at h2
  linarith

/-! ### measurability of `z ↦ (orbAlong φ D z).P M i k` -/
section Meas
variable {Z : Type*} [MeasurableSpace Z]

/-- any function of two measurable maps into countable discrete spaces is measurable -/
lemma measurable_comp2 {α β γ : Type*} [MeasurableSpace α] [MeasurableSpace β] [MeasurableSpace γ]
    [Countable α] [Countable β] [MeasurableSingletonClass α] [MeasurableSingletonClass β]
    (h : α → β → γ) {f : Z → α} {g : Z → β} (hf : Measurable f) (hg : Measurable g) :
    Measurable (fun z => h (f z) (g z)) :=
  (Measurable.of_discrete (f := fun p : α × β => h p.1 p.2)).comp (hf.prodMk hg)

lemma measurable_comp1 {α γ : Type*} [MeasurableSpace α] [MeasurableSpace γ]
    [Countable α] [MeasurableSingletonClass α]
    (h : α → γ) {f : Z → α} (hf : Measurable f) : Measurable (fun z => h (f z)) :=
  (Measurable.of_discrete (f := h)).comp hf

/-- measurability of the ingredients -/
structure PhaseData.Meas (D : PhaseData Z) : Prop where
  S : Measurable D.S
  nd : Measurable D.nd
  ut : ∀ j, Measurable (D.ut j)
  g : Measurable D.g

variable {φ : ℤ → Z → Z} {D : PhaseData Z}

lemma orbAlong_good_meas (hφ : ∀ k, Measurable (φ k)) (hD : D.Meas) (j : ℕ) :
    ∀ a, Measurable (fun z => (orbAlong φ D z).good j a) := by
  induction j with
  | zero => intro a; exact hD.nd.comp (hφ a)
  | succ j ih =>
    intro a
    simp only [Orb.good]
    exact measurable_comp2 (· && ·) (measurable_comp2 (· && ·) (ih a) (ih _))
      ((hD.ut (j + 1)).comp (hφ a))

lemma orbAlong_cnt_meas (hφ : ∀ k, Measurable (φ k)) (hD : D.Meas) (a : ℤ) (n : ℕ) :
    Measurable (fun z => cnt (orbAlong φ D z).S a n) := by
  induction n with
  | zero => simp only [cnt, Finset.range_zero, Finset.sum_empty]; exact measurable_const
  | succ n ih =>
    simp only [cnt_succ]
    exact measurable_comp2 (fun (x : ℕ) (b : Bool) => x + if b = true then 1 else 0) ih
      (hD.S.comp (hφ (a + n)))

lemma orbAlong_unif_meas (hφ : ∀ k, Measurable (φ k)) (hD : D.Meas) (a : ℤ) (j : ℕ) (k : ℤ) :
    Measurable (fun z => (orbAlong φ D z).unif a j k) := by
  unfold Orb.unif
  exact measurable_comp2
    (fun (p : Bool × Bool) (n : ℕ) =>
      if a ≤ k ∧ k < a + 2 ^ j ∧ p.1 = true ∧ p.2 = true then 1 / (n : ℚ) else 0)
    ((hD.S.comp (hφ k)).prodMk (hD.g.comp (hφ k))) (orbAlong_cnt_meas hφ hD a (2 ^ j))

lemma orbAlong_acc_meas (hφ : ∀ k, Measurable (φ k)) (hD : D.Meas) (j : ℕ) (aO aN : ℤ) :
    Measurable (fun z => (orbAlong φ D z).acc j aO aN) := by
  have h := measurable_comp2
    (fun (b : Bool) (p : ℕ × ℕ) => if b = true then min 1 ((p.1 : ℚ) / (p.2 : ℚ)) else 0)
    (orbAlong_good_meas hφ hD j aN)
    ((orbAlong_cnt_meas hφ hD aN (2 ^ j)).prodMk (orbAlong_cnt_meas hφ hD aO (2 ^ j)))
  have e : (fun z => (orbAlong φ D z).acc j aO aN) = fun z =>
      (fun (b : Bool) (p : ℕ × ℕ) => if b = true then min 1 ((p.1 : ℚ) / (p.2 : ℚ)) else 0)
        ((orbAlong φ D z).good j aN)
        (cnt (orbAlong φ D z).S aN (2 ^ j), cnt (orbAlong φ D z).S aO (2 ^ j)) := by
    funext z; simp only [Orb.acc]
  rw [e]; exact h

lemma measurable_rat_sum {ι : Type*} (s : Finset ι) (f : ι → Z → ℚ) (hf : ∀ i ∈ s, Measurable (f i)) :
    Measurable (fun z => ∑ i ∈ s, f i z) := by
  classical
  induction s using Finset.induction_on with
  | empty => simp only [Finset.sum_empty]; exact measurable_const
  | insert a s ha ih =>
    simp only [Finset.sum_insert ha]
    exact measurable_comp2 (· + ·) (hf a (Finset.mem_insert_self _ _))
      (ih (fun i hi => hf i (Finset.mem_insert_of_mem hi)))

lemma orbAlong_stay_meas (hφ : ∀ k, Measurable (φ k)) (hD : D.Meas) (j : ℕ) (aO aN : ℤ) :
    Measurable (fun z => (orbAlong φ D z).stay j aO aN) := by
  unfold Orb.stay
  exact measurable_comp2 (fun x y : ℚ => 1 - x * y) (orbAlong_acc_meas hφ hD j aO aN)
    (measurable_rat_sum _ _ (fun t _ => orbAlong_unif_meas hφ hD aN j _))

/-- a loop state depending measurably on the phase-space point (block fixed) -/
structure MeasSt (st : Z → OSt) : Prop where
  lo : ∃ l, ∀ z, (st z).lo = l
  j : ∃ j, ∀ z, (st z).j = j
  s : Measurable (fun z => (st z).s)
  dist : ∀ x, Measurable (fun z => (st z).dist x)

lemma orbAlong_body_meas (hφ : ∀ k, Measurable (φ k)) (hD : D.Meas) (b : Bool) (st : Z → OSt)
    (hst : MeasSt st) : MeasSt (fun z => (orbAlong φ D z).body b (st z)) := by
  obtain ⟨l, hl⟩ := hst.lo
  obtain ⟨j, hj⟩ := hst.j
  refine ⟨⟨if b then l - 2 ^ j else l, fun z => by simp only [Orb.body, hl, hj]⟩,
    ⟨j + 1, fun z => by simp only [Orb.body, hj]⟩, ?_, ?_⟩
  · simp only [Orb.body, hl, hj]
    exact measurable_comp2 (· && ·) (orbAlong_good_meas hφ hD j _)
      ((hD.ut (j + 1)).comp (hφ _))
  · intro x
    simp only [Orb.body, hl, hj]
    exact measurable_comp2 (· + ·)
      (measurable_comp2 (· * ·) (orbAlong_stay_meas hφ hD j _ _) (hst.dist x))
      (measurable_comp2 (· * ·) (orbAlong_acc_meas hφ hD j _ _) (orbAlong_unif_meas hφ hD _ j x))

lemma orbAlong_walk_meas (hφ : ∀ k, Measurable (φ k)) (hD : D.Meas) (r : ℕ) :
    ∀ (st : Z → OSt), MeasSt st → ∀ k, Measurable (fun z => (orbAlong φ D z).walk r (st z) k) := by
  induction r with
  | zero => intro st hst k; exact hst.dist k
  | succ r ih =>
    intro st hst k
    have hT := ih _ (orbAlong_body_meas hφ hD true st hst) k
    have hF := ih _ (orbAlong_body_meas hφ hD false st hst) k
    have hset : MeasurableSet {z | (st z).s = true} := hst.s (measurableSet_singleton true)
    have : (fun z => (orbAlong φ D z).walk (r + 1) (st z) k)
        = fun z => if (st z).s = true then
            1 / 2 * (orbAlong φ D z).walk r ((orbAlong φ D z).body true (st z)) k
              + 1 / 2 * (orbAlong φ D z).walk r ((orbAlong φ D z).body false (st z)) k
          else (st z).dist k := by
      funext z
      simp only [Orb.walk]
      split <;> rfl
    rw [this]
    exact Measurable.ite hset
      (measurable_comp2 (fun x y : ℚ => 1 / 2 * x + 1 / 2 * y) hT hF) (hst.dist k)

/-- **hypothesis (4) of the lifting lemma holds for NUTS**: the orbit-level transition probability
    is a measurable function of the starting point -/
lemma orbAlong_P_meas (hφ : ∀ k, Measurable (φ k)) (hD : D.Meas) (M : ℕ) (i k : ℤ) :
    Measurable (fun z => (orbAlong φ D z).P M i k) := by
  unfold Orb.P
  apply orbAlong_walk_meas hφ hD M (fun _ => oinit i)
  exact ⟨⟨i, fun _ => rfl⟩, ⟨0, fun _ => rfl⟩, measurable_const, fun _ => measurable_const⟩

end Meas

/-! ## the `ℤ`-action generated by a measure preserving bijection -/
section Action
variable {Z : Type*} [MeasurableSpace Z]

/-- `zact Φ k = Φ^k` (`k : ℤ`) -/
def zact (Φ : Z ≃ᵐ Z) (k : ℤ) : Z → Z := ⇑((Φ.toEquiv : Equiv.Perm Z) ^ k)

lemma zact_zero (Φ : Z ≃ᵐ Z) (z : Z) : zact Φ 0 z = z := by simp [zact]

lemma zact_add (Φ : Z ≃ᵐ Z) (a b : ℤ) (z : Z) : zact Φ (a + b) z = zact Φ a (zact Φ b z) := by
  simp only [zact, zpow_add, Equiv.Perm.mul_apply]

lemma zact_one (Φ : Z ≃ᵐ Z) (z : Z) : zact Φ 1 z = Φ z := by simp [zact]

lemma zact_neg_one (Φ : Z ≃ᵐ Z) (z : Z) : zact Φ (-1) z = Φ.symm z := by
  simp only [zact, zpow_neg_one]; rfl

lemma zact_succ (Φ : Z ≃ᵐ Z) (k : ℤ) : zact Φ (k + 1) = zact Φ k ∘ Φ := by
  funext z; rw [zact_add, zact_one]; rfl

lemma zact_pred (Φ : Z ≃ᵐ Z) (k : ℤ) : zact Φ (k - 1) = zact Φ k ∘ Φ.symm := by
  funext z; rw [sub_eq_add_neg, zact_add, zact_neg_one]; rfl

lemma zact_pres (Φ : Z ≃ᵐ Z) {μ : Measure Z} (hΦ : MeasurePreserving Φ μ μ) (k : ℤ) :
    MeasurePreserving (zact Φ k) μ μ := by
  induction k using Int.induction_on with
  | zero =>
    have : zact Φ 0 = id := funext (zact_zero Φ)
    rw [this]; exact MeasurePreserving.id μ
  | succ n ih => rw [zact_succ]; exact ih.comp hΦ
  | pred n ih => rw [zact_pred]; exact ih.comp (hΦ.symm Φ)

lemma zact_measurable (Φ : Z ≃ᵐ Z) (k : ℤ) : Measurable (zact Φ k) := by
  induction k using Int.induction_on with
  | zero =>
    have : zact Φ 0 = id := funext (zact_zero Φ)
    rw [this]; exact measurable_id
  | succ n ih => rw [zact_succ]; exact ih.comp Φ.measurable
  | pred n ih => rw [zact_pred]; exact ih.comp Φ.symm.measurable

lemma measurable_decide {p : Z → Prop} [DecidablePred p] (h : MeasurableSet {z | p z}) :
    Measurable (fun z => decide (p z)) := by
  apply measurable_to_bool
  have : (fun z => decide (p z)) ⁻¹' {true} = {z | p z} := by
    ext z; simp
  rw [this]; exact h

end Action

/-! ## the NUTS weights satisfy the hypotheses of the lifting lemma -/
section Nuts
variable {Z : Type*} [MeasurableSpace Z]

/-- admissible points: in the slice and passing the guard -/
def admSet (D : PhaseData Z) : Set Z := {z | D.S z = true ∧ D.g z = true}

/-- orbit-level NUTS transition probabilities along the orbit of `z`, as extended non-negative reals -/
noncomputable def nutsP (φ : ℤ → Z → Z) (D : PhaseData Z) (M : ℕ) (z : Z) (i j : ℤ) : ℝ≥0∞ :=
  ENNReal.ofReal (((orbAlong φ D z).P M i j : ℚ) : ℝ)

lemma admSet_meas {D : PhaseData Z} (hD : D.Meas) : MeasurableSet (admSet D) := by
  have h1 : MeasurableSet {z | D.S z = true} := hD.S (measurableSet_singleton true)
  have h2 : MeasurableSet {z | D.g z = true} := hD.g (measurableSet_singleton true)
  exact h1.inter h2

omit [MeasurableSpace Z] in
lemma nutsP_row_sum (φ : ℤ → Z → Z) (D : PhaseData Z) (M : ℕ) (z : Z) (i : ℤ) :
    ∑' k, nutsP φ D M z i k = 1 := by
  unfold nutsP
  rw [tsum_eq_sum (s := Finset.Ico (i + 1 - 2 ^ M) (i + 2 ^ M))]
  · rw [← ENNReal.ofReal_sum_of_nonneg]
    · rw [← Rat.cast_sum, (orbAlong φ D z).P_mass M i _ (Finset.Subset.refl _)]; simp
    · intro k _; exact_mod_cast (orbAlong φ D z).P_nonneg M i k
  · intro k hk
    rw [(orbAlong φ D z).P_zero_far M i k hk]; simp

/-- **(1)–(4) hold for the NUTS weights** built along the orbits of a measure preserving `ℤ`-action
    from measurable phase-space data with `S ⊆ nd` -/
lemma nuts_orbitKernel {μ : Measure Z} (φ : ℤ → Z → Z) (h0 : ∀ z, φ 0 z = z)
    (hadd : ∀ a b z, φ (a + b) z = φ a (φ b z)) (hpres : ∀ k, MeasurePreserving (φ k) μ μ)
    (D : PhaseData Z) (hD : D.Meas) (hSnd : ∀ z, D.S z = true → D.nd z = true) (M : ℕ) :
    OrbitKernel μ φ (admSet D) (nutsP φ D M) where
  act_zero := h0
  act_add := hadd
  pres := hpres
  adm_meas := admSet_meas hD
  shift := by
    intro m z i j
    unfold nutsP
    rw [(orbAlong_isShift φ hadd D m z).P M i j]
  rev := by
    intro z i j hi hj
    unfold nutsP
    rw [(orbAlong φ D z).P_sym (fun x hx => hSnd _ hx) M i j hi.1 hi.2 hj.1 hj.2]
  stoch := fun z _ => nutsP_row_sum φ D M z 0
  supp := by
    intro z hz k hk
    have hne : k ≠ 0 := by rintro rfl; rw [h0] at hk; exact hk hz
    unfold nutsP
    rw [(orbAlong φ D z).P_zero_of M 0 k hne hk]; simp
  meas := by
    intro k
    exact ENNReal.measurable_ofReal.comp
      (measurable_comp1 (fun q : ℚ => (q : ℝ))
        (orbAlong_P_meas (fun k => (hpres k).measurable) hD M 0 k))

omit [MeasurableSpace Z] in
/-- the induced phase-space kernel is a finite sum -/
lemma phaseK_nutsP_eq_sum (φ : ℤ → Z → Z) (D : PhaseData Z) (M : ℕ) (z : Z) (B : Set Z) :
    phaseK φ (nutsP φ D M) z B
      = ∑ k ∈ Finset.Ico (1 - 2 ^ M : ℤ) (2 ^ M), nutsP φ D M z 0 k * B.indicator 1 (φ k z) := by
  unfold phaseK
  apply tsum_eq_sum
  intro k hk
  unfold nutsP
  rw [(orbAlong φ D z).P_zero_far M 0 k (by simpa using hk)]; simp

end Nuts

/-! ## the model's context as phase-space data -/
section Model
variable {Z : Type}

/-- the action `k, z ↦ z_k` of the model's orbit indexing -/
def ptAct (c : Ctx Z) (k : ℤ) (z : Z) : Z := pt c z k

lemma ptAct_zero (c : Ctx Z) (z : Z) : ptAct c 0 z = z := rfl

lemma ptAct_add (c : Ctx Z) (h : StepInverse c) (a b : ℤ) (z : Z) :
    ptAct c (a + b) z = ptAct c a (ptAct c b z) := by
  simp only [ptAct, pt_add c h, add_comm]

/-- what the model's `Ctx` and guard look at, as functions of the phase-space point -/
def ctxData (c : Ctx Z) (guard : Z → Bool) : PhaseData Z where
  S := inSlice c
  nd := notDiverged c
  ut := fun j z => c.noUturn z (pt c z (2 ^ j - 1))
  g := guard

/-- the `Orb` of `Proofs/C08_orbit.lean` (`orbOf`) is the data of `ctxData` along the orbit -/
lemma orbOf_eq_orbAlong (c : Ctx Z) (h : StepInverse c) (guard : Z → Bool) (z : Z) :
    orbOf c guard z = orbAlong (ptAct c) (ctxData c guard) z := by
  simp only [orbOf, orbAlong, ctxData, ptAct, pt_add c h]
  congr 1
  funext j a
  congr 2; ring

variable [MeasurableSpace Z]

/-- the integrator as a measurable bijection -/
def stepEquiv (c : Ctx Z) (h : StepInverse c) (m1 : Measurable (c.step 1))
    (m2 : Measurable (c.step (-1))) : Z ≃ᵐ Z where
  toFun := c.step 1
  invFun := c.step (-1)
  left_inv := h.1
  right_inv := h.2
  measurable_toFun := m1
  measurable_invFun := m2

lemma ptAct_eq_zact (c : Ctx Z) (h : StepInverse c) (m1 : Measurable (c.step 1))
    (m2 : Measurable (c.step (-1))) (k : ℤ) (z : Z) :
    ptAct c k z = zact (stepEquiv c h m1 m2) k z := by
  induction k using Int.induction_on with
  | zero => rw [zact_zero]; rfl
  | succ n ih =>
    rw [add_comm, zact_add, zact_one, ← ih, add_comm]
    exact (pt_succ c h z n).symm
  | pred n ih =>
    rw [sub_eq_add_neg, add_comm, zact_add, zact_neg_one, ← ih, add_comm, ← sub_eq_add_neg]
    exact (pt_pred c h z (-n)).symm

lemma ptAct_pres (c : Ctx Z) (h : StepInverse c) {μ : Measure Z}
    (hp : MeasurePreserving (c.step 1) μ μ) (m2 : Measurable (c.step (-1))) (k : ℤ) :
    MeasurePreserving (ptAct c k) μ μ := by
  have : ptAct c k = zact (stepEquiv c h hp.measurable m2) k :=
    funext (ptAct_eq_zact c h hp.measurable m2 k)
  rw [this]
  exact zact_pres _ hp k

omit [MeasurableSpace Z] in
open Classical in
/-- the probability that the model's randomised transition started at an in-slice `z` ends in `B`
    is the phase-space kernel induced by the orbit-level weights -/
lemma nutsStepD_pr_eq_phaseK (c : Ctx Z) (h : StepInverse c) (guard : Z → Bool) (md : ℕ) (z : Z)
    (hz : inSlice c z = true) (B : Set Z) :
    ENNReal.ofReal (((nutsStepD c guard md z).E (fun st => if st.cur ∈ B then 1 else 0) : ℚ) : ℝ)
      = phaseK (ptAct c) (nutsP (ptAct c) (ctxData c guard) (md + 1)) z B := by
  rw [phaseK_nutsP_eq_sum]
  have := nutsStepD_law_from c h guard z md (fun w => if w ∈ B then 1 else 0) 0 hz
    (Finset.Ico (1 - 2 ^ (md + 1) : ℤ) (2 ^ (md + 1))) (by
      apply Finset.Ico_subset_Ico <;> simp)
  rw [show pt c z 0 = z from rfl] at this
  rw [this, Rat.cast_sum, ENNReal.ofReal_sum_of_nonneg]
  · apply Finset.sum_congr rfl
    intro k _
    unfold nutsP
    rw [← orbOf_eq_orbAlong c h]
    by_cases hk : pt c z k ∈ B
    · have hk' : ptAct c k z ∈ B := hk
      rw [if_pos hk, Set.indicator_of_mem hk']; simp
    · have hk' : ptAct c k z ∉ B := hk
      rw [if_neg hk, Set.indicator_of_notMem hk']; simp
  · intro k _
    have := (orbOf c guard z).P_nonneg (md + 1) 0 k
    have h2 : (0 : ℚ) ≤ (if pt c z k ∈ B then 1 else 0) := by split <;> norm_num
    exact_mod_cast mul_nonneg this h2

/-- measurability of the model's data -/
lemma ctxData_meas (c : Ctx Z) (h : StepInverse c) (guard : Z → Bool)
    (m1 : Measurable (c.step 1)) (m2 : Measurable (c.step (-1)))
    (hS : Measurable (inSlice c)) (hnd : Measurable (notDiverged c))
    (hut : Measurable (fun p : Z × Z => c.noUturn p.1 p.2)) (hg : Measurable guard) :
    (ctxData c guard).Meas where
  S := hS
  nd := hnd
  ut := by
    intro j
    have hm : Measurable (fun z => pt c z (2 ^ j - 1)) := by
      have : (fun z => pt c z (2 ^ j - 1)) = zact (stepEquiv c h m1 m2) (2 ^ j - 1) :=
        funext (ptAct_eq_zact c h m1 m2 (2 ^ j - 1))
      rw [this]; exact zact_measurable _ _
    exact hut.comp (measurable_id.prodMk hm)
  g := hg

end Model

/-! ## joint measurability in a parameter (the slice level) -/
section Joint
variable {Z : Type*}

/-- the action on `ℝ × Z` that leaves the parameter fixed -/
def liftAct (φ : ℤ → Z → Z) (k : ℤ) (q : ℝ × Z) : ℝ × Z := (q.1, φ k q.2)

/-- a family of phase-space data indexed by a real parameter, as data on `ℝ × Z` -/
def liftData (D : ℝ → PhaseData Z) : PhaseData (ℝ × Z) where
  S := fun q => (D q.1).S q.2
  nd := fun q => (D q.1).nd q.2
  ut := fun j q => (D q.1).ut j q.2
  g := fun q => (D q.1).g q.2

lemma orbAlong_lift (φ : ℤ → Z → Z) (D : ℝ → PhaseData Z) (q : ℝ × Z) :
    orbAlong (liftAct φ) (liftData D) q = orbAlong φ (D q.1) q.2 := rfl

variable [MeasurableSpace Z]

/-- the orbit-level NUTS probability is jointly measurable in (parameter, point) -/
lemma orbAlong_P_meas_joint (φ : ℤ → Z → Z) (hφ : ∀ k, Measurable (φ k)) (D : ℝ → PhaseData Z)
    (hD : (liftData D).Meas) (M : ℕ) (i k : ℤ) :
    Measurable (fun q : ℝ × Z => (orbAlong φ (D q.1) q.2).P M i k) := by
  have h := orbAlong_P_meas (φ := liftAct φ) (D := liftData D)
    (fun k => measurable_fst.prodMk ((hφ k).comp measurable_snd)) hD M i k
  simpa only [orbAlong_lift] using h

end Joint

/-! ## integrating out the slice variable -/
section Slice
variable {Z : Type*} [MeasurableSpace Z]

/-- the region `{(z, u) | z ∈ G, 0 < u ≤ p z}` under the graph of `p` -/
def underGraph (p : Z → ℝ) (G : Set Z) : Set (Z × ℝ) := {q | q.1 ∈ G ∧ 0 < q.2 ∧ q.2 ≤ p q.1}

lemma underGraph_meas {p : Z → ℝ} (hp : Measurable p) {G : Set Z} (hG : MeasurableSet G) :
    MeasurableSet (underGraph p G) := by
  have h1 : MeasurableSet {q : Z × ℝ | q.1 ∈ G} := hG.preimage measurable_fst
  have h2 : MeasurableSet {q : Z × ℝ | 0 < q.2} := measurableSet_lt measurable_const measurable_snd
  have h3 : MeasurableSet {q : Z × ℝ | q.2 ≤ p q.1} :=
    measurableSet_le measurable_snd (hp.comp measurable_fst)
  exact h1.inter (h2.inter h3)

/-- the `u`-integral over `(0, p z]` as an integral of an indicator of the region under the graph -/
lemma lintegral_Ioc_eq_underGraph (μ : Measure Z) (p : Z → ℝ) {G : Set Z} (hG : MeasurableSet G)
    (F : Z × ℝ → ℝ≥0∞) :
    ∫⁻ z in G, ∫⁻ u in Set.Ioc 0 (p z), F (z, u) ∂volume ∂μ
      = ∫⁻ z, ∫⁻ u, (underGraph p G).indicator F (z, u) ∂volume ∂μ := by
  rw [← lintegral_indicator hG]
  congr 1; funext z
  by_cases hz : z ∈ G
  · rw [Set.indicator_of_mem hz, ← lintegral_indicator measurableSet_Ioc]
    congr 1; funext u
    by_cases hu : u ∈ Set.Ioc 0 (p z)
    · have : (z, u) ∈ underGraph p G := ⟨hz, hu.1, hu.2⟩
      rw [Set.indicator_of_mem hu, Set.indicator_of_mem this]
    · have : (z, u) ∉ underGraph p G := fun h => hu ⟨h.2.1, h.2.2⟩
      rw [Set.indicator_of_notMem hu, Set.indicator_of_notMem this]
  · rw [Set.indicator_of_notMem hz]
    have : ∀ u, (underGraph p G).indicator F (z, u) = 0 :=
      fun u => Set.indicator_of_notMem (fun h => hz h.1) _
    simp only [this, lintegral_zero]

omit [MeasurableSpace Z] in
lemma lintegral_Ioc_pointwise (p : Z → ℝ) (F : Z × ℝ → ℝ≥0∞) (z : Z) :
    ∫⁻ u in Set.Ioc 0 (p z), F (z, u) ∂volume
      = ∫⁻ u, (underGraph p Set.univ).indicator F (z, u) ∂volume := by
  rw [← lintegral_indicator measurableSet_Ioc]
  congr 1; funext u
  by_cases hu : u ∈ Set.Ioc 0 (p z)
  · have : (z, u) ∈ underGraph p Set.univ := ⟨Set.mem_univ _, hu.1, hu.2⟩
    rw [Set.indicator_of_mem hu, Set.indicator_of_mem this]
  · have : (z, u) ∉ underGraph p Set.univ := fun h => hu ⟨h.2.1, h.2.2⟩
    rw [Set.indicator_of_notMem hu, Set.indicator_of_notMem this]

/-- the `u`-average is a measurable function of the point -/
lemma lintegral_Ioc_measurable {p : Z → ℝ} (hp : Measurable p) {F : Z × ℝ → ℝ≥0∞} (hF : Measurable F) :
    Measurable (fun z => ∫⁻ u in Set.Ioc 0 (p z), F (z, u) ∂volume) := by
  simp only [lintegral_Ioc_pointwise]
  exact (hF.indicator (underGraph_meas hp MeasurableSet.univ)).lintegral_prod_right'

/-- **Integrating out the slice variable.**  If for every level `u > 0` the kernel `K u` leaves `μ`
    restricted to `{u ≤ p} ∩ G` invariant (tested on `B`), then drawing `u` uniformly from `(0, p z]`
    and applying `K u` leaves the measure with density `p` (on `G`) invariant (unnormalised form). -/
lemma slice_mixture (μ : Measure Z) [SFinite μ] (p : Z → ℝ) (hp : Measurable p) {G B : Set Z}
    (hG : MeasurableSet G) (hB : MeasurableSet B) (K : ℝ → Z → ℝ≥0∞)
    (hK : Measurable (fun q : Z × ℝ => K q.2 q.1))
    (hinv : ∀ u, 0 < u → ∫⁻ z in {z | u ≤ p z} ∩ G, K u z ∂μ = μ (({z | u ≤ p z} ∩ G) ∩ B)) :
    ∫⁻ z in G, ∫⁻ u in Set.Ioc 0 (p z), K u z ∂volume ∂μ
      = ∫⁻ z in G ∩ B, ENNReal.ofReal (p z) ∂μ := by
  have hE := underGraph_meas hp hG
  have hE' := underGraph_meas hp (hG.inter hB)
  have hlev : ∀ u, MeasurableSet {z | u ≤ p z} := fun u => measurableSet_le measurable_const hp
  rw [lintegral_Ioc_eq_underGraph μ p hG (fun q => K q.2 q.1)]
  rw [lintegral_lintegral_swap (f := fun z u => (underGraph p G).indicator (fun q => K q.2 q.1) (z, u))
    ((hK.indicator hE).aemeasurable)]
  -- level by level
  have hstep : ∀ u : ℝ, ∫⁻ z, (underGraph p G).indicator (fun q => K q.2 q.1) (z, u) ∂μ
      = ∫⁻ z, (underGraph p (G ∩ B)).indicator (fun _ => (1 : ℝ≥0∞)) (z, u) ∂μ := by
    intro u
    by_cases hu : 0 < u
    · have e1 : (fun z => (underGraph p G).indicator (fun q => K q.2 q.1) (z, u))
          = ({z | u ≤ p z} ∩ G).indicator (fun z => K u z) := by
        funext z
        by_cases hz : z ∈ {z | u ≤ p z} ∩ G
        · have : (z, u) ∈ underGraph p G := ⟨hz.2, hu, hz.1⟩
          rw [Set.indicator_of_mem hz, Set.indicator_of_mem this]
        · have : (z, u) ∉ underGraph p G := fun h => hz ⟨h.2.2, h.1⟩
          rw [Set.indicator_of_notMem hz, Set.indicator_of_notMem this]
      have e2 : (fun z => (underGraph p (G ∩ B)).indicator (fun _ => (1 : ℝ≥0∞)) (z, u))
          = (({z | u ≤ p z} ∩ G) ∩ B).indicator 1 := by
        funext z
        by_cases hz : z ∈ ({z | u ≤ p z} ∩ G) ∩ B
        · have : (z, u) ∈ underGraph p (G ∩ B) := ⟨⟨hz.1.2, hz.2⟩, hu, hz.1.1⟩
          rw [Set.indicator_of_mem hz, Set.indicator_of_mem this]; rfl
        · have : (z, u) ∉ underGraph p (G ∩ B) := fun h => hz ⟨⟨h.2.2, h.1.1⟩, h.1.2⟩
          rw [Set.indicator_of_notMem hz, Set.indicator_of_notMem this]
      rw [e1, e2, lintegral_indicator ((hlev u).inter hG), hinv u hu,
        lintegral_indicator_one (((hlev u).inter hG).inter hB)]
    · have e1 : ∀ z, (underGraph p G).indicator (fun q => K q.2 q.1) (z, u) = 0 :=
        fun z => Set.indicator_of_notMem (fun h => hu h.2.1) _
      have e2 : ∀ z, (underGraph p (G ∩ B)).indicator (fun _ => (1 : ℝ≥0∞)) (z, u) = 0 :=
        fun z => Set.indicator_of_notMem (fun h => hu h.2.1) _
      simp only [e1, e2]
  simp only [hstep]
  rw [← lintegral_lintegral_swap
    (f := fun z u => (underGraph p (G ∩ B)).indicator (fun _ => (1 : ℝ≥0∞)) (z, u))
    ((measurable_const.indicator hE').aemeasurable)]
  rw [← lintegral_Ioc_eq_underGraph μ p (hG.inter hB) (fun _ => (1 : ℝ≥0∞))]
  congr 1; funext z
  rw [setLIntegral_one, Real.volume_Ioc, sub_zero]

end Slice

/-! ## momentum refresh and projection to the position -/
section Marginal
variable {X R : Type*} [MeasurableSpace X] [MeasurableSpace R]

/-- If a transition on `X × R` (tested on `C ×ˢ univ`) leaves the measure with product density
    `f x · h r` invariant, then "draw `r` with density `h`, apply the transition, forget `r`" leaves
    the measure with density `f` invariant (up to the total mass of `h`). -/
lemma marginal_invariant (μX : Measure X) (μR : Measure R) [SFinite μX] [SFinite μR]
    (f : X → ℝ≥0∞) (hf : Measurable f) (h : R → ℝ≥0∞) (hh : Measurable h)
    (T : X × R → ℝ≥0∞) (hT : Measurable T) {C : Set X} (hC : MeasurableSet C)
    (hinv : ∫⁻ z, T z ∂((μX.prod μR).withDensity (fun z => f z.1 * h z.2))
      = ((μX.prod μR).withDensity (fun z => f z.1 * h z.2)) (C ×ˢ Set.univ)) :
    ∫⁻ x, f x * (∫⁻ r, h r * T (x, r) ∂μR) ∂μX = (∫⁻ r, h r ∂μR) * ∫⁻ x in C, f x ∂μX := by
  have hd : Measurable (fun z : X × R => f z.1 * h z.2) :=
    (hf.comp measurable_fst).mul (hh.comp measurable_snd)
  have hm : ∀ x, Measurable (fun r => h r * T (x, r)) :=
    fun x => hh.mul (hT.comp measurable_prodMk_left)
  have e1 : ∫⁻ x, f x * (∫⁻ r, h r * T (x, r) ∂μR) ∂μX
      = ∫⁻ x, ∫⁻ r, (fun z : X × R => f z.1 * h z.2 * T z) (x, r) ∂μR ∂μX := by
    congr 1; funext x
    rw [← lintegral_const_mul _ (hm x)]
    congr 1; funext r
    simp only [mul_assoc]
  have hg : Measurable (fun z : X × R => f z.1 * h z.2 * T z) := hd.mul hT
  rw [e1, ← lintegral_prod (fun z : X × R => f z.1 * h z.2 * T z) hg.aemeasurable]
  have e2 : ∫⁻ z, (fun z : X × R => f z.1 * h z.2 * T z) z ∂(μX.prod μR)
      = ∫⁻ z, T z ∂((μX.prod μR).withDensity (fun z => f z.1 * h z.2)) := by
    rw [lintegral_withDensity_eq_lintegral_mul _ hd hT]
    rfl
  rw [e2, hinv, withDensity_apply _ (hC.prod MeasurableSet.univ),
    setLIntegral_prod _ hd.aemeasurable, Measure.restrict_univ]
  have e3 : ∀ x, ∫⁻ r, f x * h r ∂μR = f x * ∫⁻ r, h r ∂μR :=
    fun x => lintegral_const_mul _ hh
  simp only [e3]
  rw [lintegral_mul_const _ hf, mul_comm]

end Marginal

/-! ## leapfrog on `ℝⁿ × ℝⁿ` -/
section Leapfrog
variable {ι : Type*} [Fintype ι]

/-- the leapfrog map as a measurable bijection of phase space (`leapfrogFn_reversible`) -/
noncomputable def lfEquiv (g : (ι → ℝ) → (ι → ℝ)) (hg : Measurable g) (e : ℝ) :
    ((ι → ℝ) × (ι → ℝ)) ≃ᵐ ((ι → ℝ) × (ι → ℝ)) where
  toFun := leapfrogFn g e
  invFun := leapfrogFn g (-e)
  left_inv := leapfrogFn_reversible g e
  right_inv := fun p => by
    have := leapfrogFn_reversible g (-e) p
    rwa [neg_neg] at this
  measurable_toFun := (leapfrog_volume g hg e).measurable
  measurable_invFun := (leapfrog_volume g hg (-e)).measurable

/-- joint log-density of position and momentum, the code's `Ham = logd - 0.5 * r·r` (cf. `psHam`) -/
noncomputable def hamR (logp : (ι → ℝ) → ℝ) (z : (ι → ℝ) × (ι → ℝ)) : ℝ :=
  logp z.1 - 1 / 2 * ∑ i, z.2 i ^ 2

/-- the code's no-U-turn test on the two ends of a block (cf. `psNoUturn`) -/
noncomputable def noUturnR (zm zp : (ι → ℝ) × (ι → ℝ)) : Bool :=
  decide (0 ≤ ∑ i, (zp.1 i - zm.1 i) * zm.2 i) && decide (0 ≤ ∑ i, (zp.1 i - zm.1 i) * zp.2 i)

/-- what NUTS looks at on `ℝⁿ × ℝⁿ`: slice `log u ≤ Ham`, divergence `log u < Δmax + Ham`, U-turn test
    between the first and the last point of a block of `2^j` iterates of `Φ`; no guard needed (real
    values are finite) -/
noncomputable def nutsDataR (Φ : ((ι → ℝ) × (ι → ℝ)) ≃ᵐ ((ι → ℝ) × (ι → ℝ))) (logp : (ι → ℝ) → ℝ)
    (logu dmax : ℝ) : PhaseData ((ι → ℝ) × (ι → ℝ)) where
  S := fun z => decide (logu ≤ hamR logp z)
  nd := fun z => decide (logu < dmax + hamR logp z)
  ut := fun j z => noUturnR z (zact Φ (2 ^ j - 1) z)
  g := fun _ => true

lemma hamR_measurable (logp : (ι → ℝ) → ℝ) (hl : Measurable logp) : Measurable (hamR logp) := by
  unfold hamR
  refine (hl.comp measurable_fst).sub (measurable_const.mul ?_)
  refine Finset.measurable_sum _ (fun i _ => ?_)
  exact ((measurable_pi_apply i).comp measurable_snd).pow_const 2

lemma noUturnR_measurable :
    Measurable (fun p : ((ι → ℝ) × (ι → ℝ)) × ((ι → ℝ) × (ι → ℝ)) => noUturnR p.1 p.2) := by
  unfold noUturnR
  have c1 : ∀ i, Measurable (fun p : ((ι → ℝ) × (ι → ℝ)) × ((ι → ℝ) × (ι → ℝ)) => p.2.1 i - p.1.1 i) :=
    fun i => ((measurable_pi_apply i).comp (measurable_fst.comp measurable_snd)).sub
      ((measurable_pi_apply i).comp (measurable_fst.comp measurable_fst))
  have h1 : Measurable (fun p : ((ι → ℝ) × (ι → ℝ)) × ((ι → ℝ) × (ι → ℝ)) =>
      ∑ i, (p.2.1 i - p.1.1 i) * p.1.2 i) :=
    Finset.measurable_sum _ (fun i _ => (c1 i).mul
      ((measurable_pi_apply i).comp (measurable_snd.comp measurable_fst)))
  have h2 : Measurable (fun p : ((ι → ℝ) × (ι → ℝ)) × ((ι → ℝ) × (ι → ℝ)) =>
      ∑ i, (p.2.1 i - p.1.1 i) * p.2.2 i) :=
    Finset.measurable_sum _ (fun i _ => (c1 i).mul
      ((measurable_pi_apply i).comp (measurable_snd.comp measurable_snd)))
  exact measurable_comp2 (· && ·)
    (measurable_decide (measurableSet_le measurable_const h1))
    (measurable_decide (measurableSet_le measurable_const h2))

lemma noUturnR_zact_measurable (Φ : ((ι → ℝ) × (ι → ℝ)) ≃ᵐ ((ι → ℝ) × (ι → ℝ))) (n : ℤ) :
    Measurable (fun z : (ι → ℝ) × (ι → ℝ) => noUturnR z (zact Φ n z)) := by
  have h2 := (measurable_id (α := (ι → ℝ) × (ι → ℝ))).prodMk (zact_measurable Φ n)
  have h3 := noUturnR_measurable.comp h2
  simp only [Function.comp_def, id] at h3
  exact h3

lemma nutsDataR_meas (Φ : ((ι → ℝ) × (ι → ℝ)) ≃ᵐ ((ι → ℝ) × (ι → ℝ))) (logp : (ι → ℝ) → ℝ)
    (hl : Measurable logp) (logu dmax : ℝ) : (nutsDataR Φ logp logu dmax).Meas := by
  have hH := hamR_measurable logp hl
  have h1 : Measurable (fun z : (ι → ℝ) × (ι → ℝ) => decide (logu ≤ hamR logp z)) :=
    measurable_decide (measurableSet_le measurable_const hH)
  have h2 : Measurable (fun z : (ι → ℝ) × (ι → ℝ) => decide (logu < dmax + hamR logp z)) :=
    measurable_decide (measurableSet_lt measurable_const (measurable_const.add hH))
  have h3 : ∀ j : ℕ, Measurable (fun z : (ι → ℝ) × (ι → ℝ) => noUturnR z (zact Φ (2 ^ j - 1) z)) :=
    fun j => noUturnR_zact_measurable Φ (2 ^ j - 1)
  exact ⟨h1, h2, h3, measurable_const⟩

lemma nutsDataR_S_nd (Φ : ((ι → ℝ) × (ι → ℝ)) ≃ᵐ ((ι → ℝ) × (ι → ℝ))) (logp : (ι → ℝ) → ℝ)
    (logu dmax : ℝ) (hd : 0 < dmax) (z : (ι → ℝ) × (ι → ℝ))
    (h : (nutsDataR Φ logp logu dmax).S z = true) : (nutsDataR Φ logp logu dmax).nd z = true := by
  simp only [nutsDataR, decide_eq_true_eq] at h ⊢
  linarith

lemma nutsDataR_adm (Φ : ((ι → ℝ) × (ι → ℝ)) ≃ᵐ ((ι → ℝ) × (ι → ℝ))) (logp : (ι → ℝ) → ℝ)
    (logu dmax : ℝ) : admSet (nutsDataR Φ logp logu dmax) = {z | logu ≤ hamR logp z} := by
  ext z; simp [admSet, nutsDataR]

/-- the phase-space NUTS kernel on `ℝⁿ × ℝⁿ` at slice level `log u = l`: probability of ending in `B` -/
noncomputable def nutsKR (Φ : ((ι → ℝ) × (ι → ℝ)) ≃ᵐ ((ι → ℝ) × (ι → ℝ))) (logp : (ι → ℝ) → ℝ)
    (dmax : ℝ) (M : ℕ) (l : ℝ) (z : (ι → ℝ) × (ι → ℝ)) (B : Set ((ι → ℝ) × (ι → ℝ))) : ℝ≥0∞ :=
  ∑' k : ℤ, ENNReal.ofReal (((orbAlong (zact Φ) (nutsDataR Φ logp l dmax) z).P M 0 k : ℚ) : ℝ)
    * B.indicator 1 (zact Φ k z)

lemma nutsDataR_lift_meas (Φ : ((ι → ℝ) × (ι → ℝ)) ≃ᵐ ((ι → ℝ) × (ι → ℝ))) (logp : (ι → ℝ) → ℝ)
    (hl : Measurable logp) (dmax : ℝ) : (liftData (fun l => nutsDataR Φ logp l dmax)).Meas := by
  have hH := hamR_measurable logp hl
  have h1 : Measurable (fun q : ℝ × ((ι → ℝ) × (ι → ℝ)) => decide (q.1 ≤ hamR logp q.2)) :=
    measurable_decide (measurableSet_le measurable_fst (hH.comp measurable_snd))
  have h2 : Measurable (fun q : ℝ × ((ι → ℝ) × (ι → ℝ)) => decide (q.1 < dmax + hamR logp q.2)) :=
    measurable_decide (measurableSet_lt measurable_fst (measurable_const.add (hH.comp measurable_snd)))
  have h3 : ∀ j : ℕ, Measurable (fun q : ℝ × ((ι → ℝ) × (ι → ℝ)) =>
      noUturnR q.2 (zact Φ (2 ^ j - 1) q.2)) :=
    fun j => (noUturnR_zact_measurable Φ (2 ^ j - 1)).comp measurable_snd
  exact ⟨h1, h2, h3, measurable_const⟩

lemma nutsKR_meas_joint (Φ : ((ι → ℝ) × (ι → ℝ)) ≃ᵐ ((ι → ℝ) × (ι → ℝ))) (logp : (ι → ℝ) → ℝ)
    (hl : Measurable logp) (dmax : ℝ) (M : ℕ) {B : Set ((ι → ℝ) × (ι → ℝ))} (hB : MeasurableSet B) :
    Measurable (fun q : ((ι → ℝ) × (ι → ℝ)) × ℝ => nutsKR Φ logp dmax M (Real.log q.2) q.1 B) := by
  unfold nutsKR
  refine Measurable.tsum (fun k => Measurable.mul ?_ ?_)
  · have hj := orbAlong_P_meas_joint (zact Φ) (zact_measurable Φ)
      (fun l => nutsDataR Φ logp l dmax) (nutsDataR_lift_meas Φ logp hl dmax) M 0 k
    have hc : Measurable (fun q : ((ι → ℝ) × (ι → ℝ)) × ℝ => (Real.log q.2, q.1)) :=
      (Real.measurable_log.comp measurable_snd).prodMk measurable_fst
    exact ENNReal.measurable_ofReal.comp
      (measurable_comp1 (fun x : ℚ => (x : ℝ)) (hj.comp hc))
  · exact (measurable_one.indicator hB).comp ((zact_measurable Φ k).comp measurable_fst)

/-- slice level fixed: invariance of `μ` on `{u ≤ exp Ham}` -/
lemma nutsKR_level_invariant (μ : Measure ((ι → ℝ) × (ι → ℝ)))
    (Φ : ((ι → ℝ) × (ι → ℝ)) ≃ᵐ ((ι → ℝ) × (ι → ℝ))) (hΦ : MeasurePreserving Φ μ μ)
    (logp : (ι → ℝ) → ℝ) (hl : Measurable logp) (dmax : ℝ) (hd : 0 < dmax) (M : ℕ)
    {B : Set ((ι → ℝ) × (ι → ℝ))} (hB : MeasurableSet B) (u : ℝ) (hu : 0 < u) :
    ∫⁻ z in {z | u ≤ Real.exp (hamR logp z)} ∩ Set.univ, nutsKR Φ logp dmax M (Real.log u) z B ∂μ
      = μ (({z | u ≤ Real.exp (hamR logp z)} ∩ Set.univ) ∩ B) := by
  have hK := nuts_orbitKernel (μ := μ) (zact Φ) (zact_zero _) (zact_add _) (zact_pres Φ hΦ)
    (nutsDataR Φ logp (Real.log u) dmax) (nutsDataR_meas Φ logp hl _ dmax)
    (nutsDataR_S_nd _ logp _ dmax hd) M
  have hset : {z | u ≤ Real.exp (hamR logp z)} ∩ Set.univ
      = admSet (nutsDataR Φ logp (Real.log u) dmax) := by
    rw [nutsDataR_adm, Set.inter_univ]
    ext z; exact (Real.log_le_iff_le_exp hu).symm
  rw [hset]
  exact hK.invariant hB

/-- slice variable integrated out (unnormalised form) -/
lemma nutsKR_target (μ : Measure ((ι → ℝ) × (ι → ℝ))) [SFinite μ]
    (Φ : ((ι → ℝ) × (ι → ℝ)) ≃ᵐ ((ι → ℝ) × (ι → ℝ))) (hΦ : MeasurePreserving Φ μ μ)
    (logp : (ι → ℝ) → ℝ) (hl : Measurable logp) (dmax : ℝ) (hd : 0 < dmax) (M : ℕ)
    {B : Set ((ι → ℝ) × (ι → ℝ))} (hB : MeasurableSet B) :
    ∫⁻ z, ∫⁻ u in Set.Ioc 0 (Real.exp (hamR logp z)),
        nutsKR Φ logp dmax M (Real.log u) z B ∂volume ∂μ
      = ∫⁻ z in B, ENNReal.ofReal (Real.exp (hamR logp z)) ∂μ := by
  have := slice_mixture μ (fun z => Real.exp (hamR logp z))
    (Real.measurable_exp.comp (hamR_measurable logp hl)) MeasurableSet.univ hB
    (fun u z => nutsKR Φ logp dmax M (Real.log u) z B) (nutsKR_meas_joint Φ logp hl dmax M hB)
    (nutsKR_level_invariant μ Φ hΦ logp hl dmax hd M hB)
  rwa [Measure.restrict_univ, Set.univ_inter] at this

/-- density of the joint target `exp(Ham)` as an extended non-negative real -/
noncomputable def densR (logp : (ι → ℝ) → ℝ) (z : (ι → ℝ) × (ι → ℝ)) : ℝ≥0∞ :=
  ENNReal.ofReal (Real.exp (hamR logp z))

lemma densR_measurable (logp : (ι → ℝ) → ℝ) (hl : Measurable logp) : Measurable (densR logp) :=
  ENNReal.measurable_ofReal.comp (Real.measurable_exp.comp (hamR_measurable logp hl))

lemma densR_ne_zero (logp : (ι → ℝ) → ℝ) (z : (ι → ℝ) × (ι → ℝ)) : densR logp z ≠ 0 := by
  unfold densR
  rw [Ne, ENNReal.ofReal_eq_zero, not_le]; exact Real.exp_pos _

lemma densR_ne_top (logp : (ι → ℝ) → ℝ) (z : (ι → ℝ) × (ι → ℝ)) : densR logp z ≠ ∞ :=
  ENNReal.ofReal_ne_top

/-- **the trajectory part of one NUTS transition** with the slice variable drawn afresh:
    `u ~ U(0, exp Ham(z)]`, then the phase-space kernel at level `log u`; probability of ending in `B` -/
noncomputable def nutsTR (Φ : ((ι → ℝ) × (ι → ℝ)) ≃ᵐ ((ι → ℝ) × (ι → ℝ))) (logp : (ι → ℝ) → ℝ)
    (dmax : ℝ) (M : ℕ) (z : (ι → ℝ) × (ι → ℝ)) (B : Set ((ι → ℝ) × (ι → ℝ))) : ℝ≥0∞ :=
  (densR logp z)⁻¹ * ∫⁻ u in Set.Ioc 0 (Real.exp (hamR logp z)),
    nutsKR Φ logp dmax M (Real.log u) z B ∂volume

lemma nutsTR_measurable (Φ : ((ι → ℝ) × (ι → ℝ)) ≃ᵐ ((ι → ℝ) × (ι → ℝ))) (logp : (ι → ℝ) → ℝ)
    (hl : Measurable logp) (dmax : ℝ) (M : ℕ) {B : Set ((ι → ℝ) × (ι → ℝ))} (hB : MeasurableSet B) :
    Measurable (fun z => nutsTR Φ logp dmax M z B) := by
  unfold nutsTR
  refine (densR_measurable logp hl).inv.mul ?_
  exact lintegral_Ioc_measurable (p := fun z => Real.exp (hamR logp z))
    (Real.measurable_exp.comp (hamR_measurable logp hl))
    (F := fun q => nutsKR Φ logp dmax M (Real.log q.2) q.1 B) (nutsKR_meas_joint Φ logp hl dmax M hB)

/-- the transition is a probability kernel: total mass one from every point -/
lemma nutsTR_univ (Φ : ((ι → ℝ) × (ι → ℝ)) ≃ᵐ ((ι → ℝ) × (ι → ℝ))) (logp : (ι → ℝ) → ℝ)
    (dmax : ℝ) (M : ℕ) (z : (ι → ℝ) × (ι → ℝ)) : nutsTR Φ logp dmax M z Set.univ = 1 := by
  unfold nutsTR
  have h1 : ∀ u ∈ Set.Ioc 0 (Real.exp (hamR logp z)),
      nutsKR Φ logp dmax M (Real.log u) z Set.univ = 1 := by
    intro u _
    unfold nutsKR
    simp only [Set.indicator_univ, Pi.one_apply, mul_one]
    exact nutsP_row_sum (zact Φ) (nutsDataR Φ logp (Real.log u) dmax) M z 0
  rw [setLIntegral_congr_fun measurableSet_Ioc h1, setLIntegral_one, Real.volume_Ioc, sub_zero]
  exact ENNReal.inv_mul_cancel (densR_ne_zero logp z) (densR_ne_top logp z)

/-- **invariance of the joint target** `exp(Ham) · μ` (normalised form) -/
lemma nutsTR_invariant (μ : Measure ((ι → ℝ) × (ι → ℝ))) [SFinite μ]
    (Φ : ((ι → ℝ) × (ι → ℝ)) ≃ᵐ ((ι → ℝ) × (ι → ℝ))) (hΦ : MeasurePreserving Φ μ μ)
    (logp : (ι → ℝ) → ℝ) (hl : Measurable logp) (dmax : ℝ) (hd : 0 < dmax) (M : ℕ)
    {B : Set ((ι → ℝ) × (ι → ℝ))} (hB : MeasurableSet B) :
    ∫⁻ z, nutsTR Φ logp dmax M z B ∂(μ.withDensity (densR logp)) = (μ.withDensity (densR logp)) B := by
  rw [lintegral_withDensity_eq_lintegral_mul _ (densR_measurable logp hl)
    (nutsTR_measurable Φ logp hl dmax M hB), withDensity_apply _ hB]
  have ht := nutsKR_target μ Φ hΦ logp hl dmax hd M hB
  change _ = ∫⁻ z in B, densR logp z ∂μ at ht
  rw [← ht]
  congr 1; funext z
  simp only [Pi.mul_apply, nutsTR]
  exact ENNReal.mul_inv_cancel_left (densR_ne_zero logp z) (densR_ne_top logp z)

/-- the joint density factorises: target density of the position times Gaussian weight of the momentum -/
lemma densR_factor (logp : (ι → ℝ) → ℝ) (z : (ι → ℝ) × (ι → ℝ)) :
    densR logp z = ENNReal.ofReal (Real.exp (logp z.1))
      * ENNReal.ofReal (Real.exp (-(1 / 2 * ∑ i, z.2 i ^ 2))) := by
  unfold densR hamR
  rw [← ENNReal.ofReal_mul (Real.exp_pos _).le, ← Real.exp_add, sub_eq_add_neg]

/-- **momentum refresh and projection**: invariance of the position target (unnormalised Gaussian weight) -/
lemma nutsTR_position_invariant
    (Φ : ((ι → ℝ) × (ι → ℝ)) ≃ᵐ ((ι → ℝ) × (ι → ℝ)))
    (hΦ : MeasurePreserving Φ ((volume : Measure (ι → ℝ)).prod volume) (volume.prod volume))
    (logp : (ι → ℝ) → ℝ) (hl : Measurable logp) (dmax : ℝ) (hd : 0 < dmax) (M : ℕ)
    {C : Set (ι → ℝ)} (hC : MeasurableSet C) :
    ∫⁻ x, ENNReal.ofReal (Real.exp (logp x))
        * (∫⁻ r, ENNReal.ofReal (Real.exp (-(1 / 2 * ∑ i, r i ^ 2)))
            * nutsTR Φ logp dmax M (x, r) (C ×ˢ Set.univ) ∂volume) ∂volume
      = (∫⁻ r : ι → ℝ, ENNReal.ofReal (Real.exp (-(1 / 2 * ∑ i, r i ^ 2))) ∂volume)
        * ∫⁻ x in C, ENNReal.ofReal (Real.exp (logp x)) ∂volume := by
  have hB : MeasurableSet (C ×ˢ (Set.univ : Set (ι → ℝ))) := hC.prod MeasurableSet.univ
  have hf : Measurable (fun x : ι → ℝ => ENNReal.ofReal (Real.exp (logp x))) :=
    ENNReal.measurable_ofReal.comp (Real.measurable_exp.comp hl)
  have hh : Measurable (fun r : ι → ℝ => ENNReal.ofReal (Real.exp (-(1 / 2 * ∑ i, r i ^ 2)))) := by
    refine ENNReal.measurable_ofReal.comp (Real.measurable_exp.comp ?_)
    refine (measurable_const.mul (Finset.measurable_sum _ (fun i _ => ?_))).neg
    exact (measurable_pi_apply i).pow_const 2
  have hdens : densR logp = fun z => ENNReal.ofReal (Real.exp (logp z.1))
      * ENNReal.ofReal (Real.exp (-(1 / 2 * ∑ i, z.2 i ^ 2))) := funext (densR_factor logp)
  have hinv := nutsTR_invariant ((volume : Measure (ι → ℝ)).prod volume) Φ hΦ logp hl dmax hd M hB
  rw [hdens] at hinv
  exact marginal_invariant volume volume _ hf _ hh
    (fun z => nutsTR Φ logp dmax M z (C ×ˢ Set.univ)) (nutsTR_measurable Φ logp hl dmax M hB) hC hinv

/-- total mass of the Gaussian weight: `∫ exp(−½|r|²) dr = (2π)^{n/2}` -/
lemma gaussian_weight_mass :
    ∫⁻ r : ι → ℝ, ENNReal.ofReal (Real.exp (-(1 / 2 * ∑ i, r i ^ 2))) ∂volume
      = ENNReal.ofReal (Real.sqrt (2 * Real.pi) ^ Fintype.card ι) := by
  have hprod : ∀ r : ι → ℝ, Real.exp (-(1 / 2 * ∑ i, r i ^ 2))
      = ∏ i, Real.exp (-(1 / 2) * r i ^ 2) := by
    intro r
    rw [← Real.exp_sum]
    congr 1
    rw [Finset.mul_sum, ← Finset.sum_neg_distrib]
    apply Finset.sum_congr rfl
    intro i _; ring
  simp only [hprod]
  have hint : Integrable (fun r : ι → ℝ => ∏ i, Real.exp (-(1 / 2) * r i ^ 2)) volume :=
    Integrable.fintype_prod (f := fun _ x => Real.exp (-(1 / 2) * x ^ 2)) (μ := fun _ => volume)
      (fun _ => integrable_exp_neg_mul_sq (by norm_num))
  rw [← ofReal_integral_eq_lintegral_ofReal hint
    (Filter.Eventually.of_forall (fun r => Finset.prod_nonneg (fun i _ => (Real.exp_pos _).le)))]
  congr 1
  have := integral_fintype_prod_volume_eq_pow (ι := ι) (fun x : ℝ => Real.exp (-(1 / 2) * x ^ 2))
  rw [this, integral_gaussian]
  congr 2
  rw [div_div_eq_mul_div, div_one, mul_comm]

/-- density of the standard normal distribution on `ℝⁿ` -/
noncomputable def stdNormalDensity (r : ι → ℝ) : ℝ≥0∞ :=
  (ENNReal.ofReal (Real.sqrt (2 * Real.pi) ^ Fintype.card ι))⁻¹
    * ENNReal.ofReal (Real.exp (-(1 / 2 * ∑ i, r i ^ 2)))

lemma gaussian_const_ne_zero :
    ENNReal.ofReal (Real.sqrt (2 * Real.pi) ^ Fintype.card ι) ≠ 0 := by
  rw [Ne, ENNReal.ofReal_eq_zero, not_le]
  have : 0 < Real.sqrt (2 * Real.pi) := Real.sqrt_pos.mpr (by positivity)
  positivity

lemma stdNormalDensity_mass : ∫⁻ r : ι → ℝ, stdNormalDensity r ∂volume = 1 := by
  unfold stdNormalDensity
  rw [lintegral_const_mul' _ _ (ENNReal.inv_ne_top.mpr gaussian_const_ne_zero), gaussian_weight_mass]
  exact ENNReal.inv_mul_cancel gaussian_const_ne_zero ENNReal.ofReal_ne_top

/-- **momentum `r ~ N(0, I)`, slice variable, trajectory, projection**: the position target is invariant -/
lemma nutsTR_position_invariant_normalised
    (Φ : ((ι → ℝ) × (ι → ℝ)) ≃ᵐ ((ι → ℝ) × (ι → ℝ)))
    (hΦ : MeasurePreserving Φ ((volume : Measure (ι → ℝ)).prod volume) (volume.prod volume))
    (logp : (ι → ℝ) → ℝ) (hl : Measurable logp) (dmax : ℝ) (hd : 0 < dmax) (M : ℕ)
    {C : Set (ι → ℝ)} (hC : MeasurableSet C) :
    ∫⁻ x, ENNReal.ofReal (Real.exp (logp x))
        * (∫⁻ r, stdNormalDensity r * nutsTR Φ logp dmax M (x, r) (C ×ˢ Set.univ) ∂volume) ∂volume
      = ∫⁻ x in C, ENNReal.ofReal (Real.exp (logp x)) ∂volume := by
  have h := nutsTR_position_invariant Φ hΦ logp hl dmax hd M hC
  rw [gaussian_weight_mass] at h
  have hc0 := gaussian_const_ne_zero (ι := ι)
  have hct : ENNReal.ofReal (Real.sqrt (2 * Real.pi) ^ Fintype.card ι) ≠ ∞ := ENNReal.ofReal_ne_top
  have e1 : ∀ x : ι → ℝ, ENNReal.ofReal (Real.exp (logp x))
        * (∫⁻ r, stdNormalDensity r * nutsTR Φ logp dmax M (x, r) (C ×ˢ Set.univ) ∂volume)
      = (ENNReal.ofReal (Real.sqrt (2 * Real.pi) ^ Fintype.card ι))⁻¹
        * (ENNReal.ofReal (Real.exp (logp x))
          * (∫⁻ r, ENNReal.ofReal (Real.exp (-(1 / 2 * ∑ i, r i ^ 2)))
            * nutsTR Φ logp dmax M (x, r) (C ×ˢ Set.univ) ∂volume)) := by
    intro x
    unfold stdNormalDensity
    simp only [mul_assoc]
    rw [lintegral_const_mul' _ _ (ENNReal.inv_ne_top.mpr hc0)]
    ring
  simp only [e1]
  rw [lintegral_const_mul' _ _ (ENNReal.inv_ne_top.mpr hc0), h]
  rw [← mul_assoc, ENNReal.inv_mul_cancel hc0 hct, one_mul]

end Leapfrog

end CuqiVerif.C08
