import CuqiVerif.Props.C04
import Mathlib.MeasureTheory.Function.JacobianOneDim
import Mathlib.Probability.Distributions.Gamma
import Mathlib.Probability.Distributions.Gaussian.Real
import Mathlib.MeasureTheory.Integral.Pi
import Mathlib.MeasureTheory.Integral.Bochner.Basic
import Mathlib.MeasureTheory.Measure.Lebesgue.Basic
import Mathlib.MeasureTheory.Group.Integral

/-!
# C04 — helper lemmas for the normalisation theorems (`Props/C04_norm.lean`)

* change of variables `x ↦ 1/(x-loc)` carrying Mathlib's gamma density to the InverseGamma density;
* change of variables `x ↦ exp x` carrying the Gaussian density to the Lognormal density;
* passage between `∫⁻ ofReal f = 1` and the Bochner integral `∫ f = 1`;
* guarded products (`if all components inside the support then exp(Σ) else 0 = Π component densities`).
-/
open Finset MeasureTheory ProbabilityTheory
open scoped ENNReal NNReal
namespace CuqiVerif.C04
open CuqiVerif RExpr

/-! ## InverseGamma: `x ↦ (x - loc)⁻¹` -/

/-- documented InverseGamma density on `x > loc` (value only; no guard) -/
noncomputable def invGammaFormula (a loc sc x : ℝ) : ℝ :=
  (x - loc) ^ (-a - 1) * Real.exp (-sc / (x - loc)) / (sc ^ (-a) * Real.Gamma a)

lemma image_inv_sub_Ioi (loc : ℝ) : (fun x : ℝ => (x - loc)⁻¹) '' Set.Ioi loc = Set.Ioi 0 := by
  ext y
  simp only [Set.mem_image, Set.mem_Ioi]
  constructor
  · rintro ⟨x, hx, rfl⟩
    exact inv_pos.mpr (by linarith)
  · intro hy
    refine ⟨loc + y⁻¹, by have := inv_pos.mpr hy; linarith, ?_⟩
    simp

lemma injOn_inv_sub (loc : ℝ) : Set.InjOn (fun x : ℝ => (x - loc)⁻¹) (Set.Ioi loc) := by
  intro x _ y _ h
  have := inv_injective h
  linarith

lemma hasDeriv_inv_sub (loc x : ℝ) (hx : x ∈ Set.Ioi loc) :
    HasDerivWithinAt (fun x : ℝ => (x - loc)⁻¹) (-((x - loc) ^ 2)⁻¹) (Set.Ioi loc) x := by
  have hne : x - loc ≠ 0 := by
    have : loc < x := hx
    exact (sub_pos.mpr this).ne'
  have h1 : HasDerivAt (fun x : ℝ => x - loc) 1 x := (hasDerivAt_id x).sub_const loc
  have := (hasDerivAt_inv hne).comp x h1
  rw [mul_one] at this
  exact this.hasDerivWithinAt

/-- the Jacobian identity: `|d/dx (x-loc)⁻¹| · gammaPDFReal a sc ((x-loc)⁻¹)` is the InverseGamma formula -/
lemma invGamma_jacobian (a loc sc x : ℝ) (hx : loc < x) (hsc : 0 < sc) :
    |(-((x - loc) ^ 2)⁻¹)| * gammaPDFReal a sc ((x - loc)⁻¹) = invGammaFormula a loc sc x := by
  have hu : 0 < x - loc := sub_pos.mpr hx
  set u := x - loc with hu_def
  have hinv : 0 ≤ u⁻¹ := (inv_pos.mpr hu).le
  rw [abs_neg, abs_of_pos (by positivity)]
  unfold gammaPDFReal invGammaFormula
  rw [if_pos hinv, ← hu_def]
  have h1 : (u⁻¹) ^ (a - 1) = u ^ (1 - a) := by
    rw [Real.inv_rpow hu.le, ← Real.rpow_neg hu.le]; congr 1; ring
  have h2 : u ^ (-a - 1) = u ^ (1 - a) * (u ^ 2)⁻¹ := by
    have : (u ^ 2)⁻¹ = u ^ (-2 : ℝ) := by
      rw [Real.rpow_neg hu.le]; norm_num
    rw [this, ← Real.rpow_add hu]; congr 1; ring
  have h3 : sc ^ (-a) = (sc ^ a)⁻¹ := Real.rpow_neg hsc.le a
  have h4 : -(sc * u⁻¹) = -sc / u := by field_simp
  rw [h1, h2, h3, h4]
  have hsa : 0 < sc ^ a := Real.rpow_pos_of_pos hsc a
  field_simp

lemma lintegral_gammaPDF_Ioi {a r : ℝ} (ha : 0 < a) (hr : 0 < r) :
    ∫⁻ y in Set.Ioi 0, gammaPDF a r y = 1 := by
  rw [← lintegral_gammaPDF_eq_one ha hr, setLIntegral_congr Ioi_ae_eq_Ici]
  refine setLIntegral_eq_of_support_subset ?_
  intro y hy
  by_contra hny
  exact hy (gammaPDF_of_neg (not_le.mp hny))

/-- change of variables: the InverseGamma formula integrates to one over `(loc, ∞)` -/
lemma lintegral_invGammaFormula (a loc sc : ℝ) (ha : 0 < a) (hsc : 0 < sc) :
    ∫⁻ x in Set.Ioi loc, ENNReal.ofReal (invGammaFormula a loc sc x) = 1 := by
  have hcv := lintegral_image_eq_lintegral_abs_deriv_mul (s := Set.Ioi loc) measurableSet_Ioi
    (f := fun x : ℝ => (x - loc)⁻¹) (f' := fun x => -((x - loc) ^ 2)⁻¹)
    (hasDeriv_inv_sub loc) (injOn_inv_sub loc) (gammaPDF a sc)
  rw [image_inv_sub_Ioi, lintegral_gammaPDF_Ioi ha hsc] at hcv
  rw [hcv]
  refine setLIntegral_congr_fun measurableSet_Ioi fun x hx => ?_
  rw [← invGamma_jacobian a loc sc x hx hsc, gammaPDF, ENNReal.ofReal_mul (abs_nonneg _)]

/-! ## Lognormal: `x ↦ exp x` -/

/-- Lognormal density on `x > 0` (value only): `N(log x; m, v) / x` -/
noncomputable def lognormalFormula (m : ℝ) (v : ℝ≥0) (x : ℝ) : ℝ := gaussianPDFReal m v (Real.log x) / x

lemma lintegral_lognormalFormula (m : ℝ) (v : ℝ≥0) (hv : v ≠ 0) :
    ∫⁻ x in Set.Ioi 0, ENNReal.ofReal (lognormalFormula m v x) = 1 := by
  have hcv := lintegral_image_eq_lintegral_abs_deriv_mul (s := Set.univ) MeasurableSet.univ
    (f := Real.exp) (f' := Real.exp) (fun x _ => (Real.hasDerivAt_exp x).hasDerivWithinAt)
    (Real.exp_injective.injOn) (fun x => ENNReal.ofReal (lognormalFormula m v x))
  rw [Set.image_univ, Real.range_exp] at hcv
  rw [hcv, Measure.restrict_univ, ← lintegral_gaussianPDFReal_eq_one m hv]
  refine lintegral_congr fun x => ?_
  rw [← ENNReal.ofReal_mul (abs_nonneg _), abs_of_pos (Real.exp_pos x)]
  congr 1
  unfold lognormalFormula
  rw [Real.log_exp]
  have := Real.exp_pos x
  field_simp

/-! ## `∫⁻ ofReal f = 1` ⇒ Bochner `∫ f = 1` -/

lemma integral_eq_one_of_lintegral (f : ℝ → ℝ) (hm : AEStronglyMeasurable f volume) (hnn : ∀ x, 0 ≤ f x)
    (h : ∫⁻ x, ENNReal.ofReal (f x) = 1) : ∫ x, f x = 1 := by
  rw [integral_eq_lintegral_of_nonneg_ae (Filter.Eventually.of_forall hnn) hm, h]
  simp

lemma lintegral_eq_one_of_integral {α : Type*} [MeasurableSpace α] {μ : Measure α} (f : α → ℝ)
    (hnn : ∀ x, 0 ≤ f x) (h : ∫ x, f x ∂μ = 1) : ∫⁻ x, ENNReal.ofReal (f x) ∂μ = 1 := by
  rw [← ofReal_integral_eq_lintegral_ofReal (integrable_of_integral_eq_one h) (Filter.Eventually.of_forall hnn), h]
  simp

/-! ## guarded products -/

/-- `if every component is inside its support then exp(Σ_i e_i) else 0` is the product of the guarded
    component densities -/
lemma guarded_exp_sum_eq_prod {n : ℕ} (P : Fin n → Prop) (e f : Fin n → ℝ) [Decidable (∀ i, P i)]
    (hin : ∀ i, P i → Real.exp (e i) = f i) (hout : ∀ i, ¬ P i → f i = 0) :
    (if ∀ i, P i then Real.exp (∑ i, e i) else 0) = ∏ i, f i := by
  split_ifs with h
  · rw [Real.exp_sum]
    exact Finset.prod_congr rfl fun i _ => hin i (h i)
  · rw [not_forall] at h
    obtain ⟨i, hi⟩ := h
    exact (Finset.prod_eq_zero (Finset.mem_univ i) (hout i hi)).symm

/-- the common length of the broadcast when the variable and every parameter have `n` entries -/
lemma bcLen_ofFn_map {n : ℕ} (x : Fin n → ℝ) (ps : List (Fin n → ℝ)) :
    bcLen (List.ofFn x) (ps.map List.ofFn) = n := by
  unfold bcLen
  have : ∀ (l : List (Fin n → ℝ)) (k : ℕ), k = n →
      ((l.map List.ofFn).map List.length).foldl max k = n := by
    intro l
    induction l with
    | nil => intro k hk; simpa using hk
    | cons a t ih =>
      intro k hk
      simp only [List.map_cons, List.foldl_cons, List.length_ofFn]
      exact ih _ (by simp [hk])
  exact this ps _ (by simp)

lemma iid_ofFn_map_eq_sum {n : ℕ} (comp : RExpr) (x : Fin n → ℝ) (ps : List (Fin n → ℝ)) :
    iid eval 0 comp (List.ofFn x) (ps.map List.ofFn)
      = ∑ i : Fin n, eval (env 0 (List.ofFn x) (ps.map List.ofFn) i) comp := by
  unfold iid
  rw [sumTo_eq_sum, bcLen_ofFn_map, Finset.sum_range]

/-! ## Gaussian with diagonal covariance -/

/-- extend a vector indexed by `Fin n` to the `ℕ`-indexed form the model's folds use -/
def extFin {n : ℕ} (x : Fin n → ℝ) : ℕ → ℝ := fun i => if h : i < n then x ⟨i, h⟩ else 0

@[simp] lemma extFin_val {n : ℕ} (x : Fin n → ℝ) (i : Fin n) : extFin x (i : ℕ) = x i := by
  simp [extFin]

/-- one Gaussian factor as an exponential -/
lemma gaussianPDFReal_eq_exp (m v z : ℝ) (hv : 0 < v) :
    gaussianPDFReal m (Real.toNNReal v) z
      = Real.exp (-(1 / 2 * (Real.log (2 * Real.pi) + Real.log v)) + -(1 / 2 * (1 / v * (z - m) ^ 2))) := by
  simp only [gaussianPDFReal, Real.coe_toNNReal _ hv.le]
  have h2pi : (0:ℝ) < 2 * Real.pi := by positivity
  rw [Real.exp_add]
  congr 1
  · rw [Real.sqrt_eq_rpow, ← Real.rpow_neg (by positivity), Real.rpow_def_of_pos (by positivity),
      Real.log_mul (by positivity) hv.ne']
    congr 1
    ring
  · congr 1
    field_simp

/-- extend a square matrix indexed by `Fin n` to the `ℕ × ℕ`-indexed form the model's folds use -/
def extMat {n : ℕ} (R : Matrix (Fin n) (Fin n) ℝ) : ℕ → ℕ → ℝ :=
  fun i j => if h : i < n ∧ j < n then R ⟨i, h.1⟩ ⟨j, h.2⟩ else 0

@[simp] lemma extMat_val {n : ℕ} (R : Matrix (Fin n) (Fin n) ℝ) (i j : Fin n) :
    extMat R (i : ℕ) (j : ℕ) = R i j := by
  simp [extMat]

lemma extFin_sub {n : ℕ} (z m : Fin n → ℝ) : (fun i => extFin z i - extFin m i) = extFin (z - m) := by
  funext i
  unfold extFin
  split_ifs <;> simp

/-- the model's `‖R u‖²` fold is the squared norm of the matrix–vector product -/
lemma normSqR_extMat {n : ℕ} (R : Matrix (Fin n) (Fin n) ℝ) (u : Fin n → ℝ) :
    normSqR n n (extMat R) (extFin u) = ∑ k, (Matrix.mulVec R u k) ^ 2 := by
  rw [normSqR_eq, Finset.sum_range]
  refine Finset.sum_congr rfl fun k _ => ?_
  rw [Finset.sum_range, ← pow_two]
  simp only [extMat_val, extFin_val, Matrix.mulVec, dotProduct]

/-! ## linear change of variables on `ℝⁿ` -/

open Matrix in
lemma integral_comp_mulVec {n : ℕ} (R : Matrix (Fin n) (Fin n) ℝ) (hR : R.det ≠ 0)
    (g : (Fin n → ℝ) → ℝ) (hg : Measurable g) (m : Fin n → ℝ) :
    ∫ z : Fin n → ℝ, g (R *ᵥ (z - m)) = |R.det|⁻¹ * ∫ w, g w := by
  have h1 : ∫ z : Fin n → ℝ, g (R *ᵥ (z - m)) = ∫ z : Fin n → ℝ, g (R *ᵥ z) :=
    integral_sub_right_eq_self (fun z => g (R *ᵥ z)) m
  have hmeas : Measurable (toLin' R) := (LinearMap.continuous_on_pi _).measurable
  have h2 : ∫ z : Fin n → ℝ, g (R *ᵥ z) = ∫ w, g w ∂(Measure.map (toLin' R) volume) := by
    rw [integral_map hmeas.aemeasurable hg.aestronglyMeasurable]
    simp only [toLin'_apply]
  rw [h1, h2, Real.map_matrix_volume_pi_eq_smul_volume_pi hR, integral_smul_measure,
    ENNReal.toReal_ofReal (abs_nonneg _), abs_inv, smul_eq_mul]

end CuqiVerif.C04
