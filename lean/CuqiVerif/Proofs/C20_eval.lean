import CuqiVerif.Model.C20_eval
import CuqiVerif.Props.C20_rank

/-!
# C20 — helper lemmas for `Props/C20_eval.lean`

Bridges between the executable rational definitions of `Model/C20_eval.lean` (`List.foldl`
accumulations over `ℚ`) and the Mathlib-side objects of `Props/C20.lean` / `Props/C20_rank.lean`
(`apply`, `toMatrix`, `scaledMatrix`, `lmrfLogpdf` …).
-/
open Finset

namespace CuqiVerif.C20

/-- value over `ℝ` of a `LogForm`: `const + piCoef·log π + Σ c·log a` -/
noncomputable def LogForm.eval (f : LogForm) : ℝ :=
  (f.const : ℝ) + (f.piCoef : ℝ) * Real.log Real.pi
    + (f.logs.map (fun p => (p.1 : ℝ) * Real.log (p.2 : ℝ))).sum

/-- the string the code compares `bc_type` with -/
def BC.toStr : BC → String
  | .zero => "zero" | .periodic => "periodic" | .neumann => "neumann"
  | .backward => "backward" | .none => "none"

lemma ofString_toStr (bc : BC) : BC.ofString bc.toStr = some bc := by
  cases bc <;> rfl

lemma foldlQ_range_eq_sum (f : ℕ → ℚ) (n : ℕ) :
    (List.range n).foldl (fun acc k => acc + f k) 0 = ∑ k ∈ range n, f k := by
  induction n with
  | zero => rfl
  | succ n ih => rw [List.range_succ, List.foldl_append, ih, Finset.sum_range_succ]; rfl

lemma sumRange_eq_sum (n : ℕ) (f : ℕ → ℚ) : sumRange n f = ∑ k ∈ range n, f k :=
  foldlQ_range_eq_sum f n

/-- the model's rational `M @ v` is `apply` of `Props/C20.lean` over `ℚ` -/
lemma applyQ_eq_apply (M : FMat) (v : ℕ → ℚ) (i : ℕ) : applyQ M v i = apply M v i := by
  unfold applyQ apply
  exact foldlQ_range_eq_sum (fun j => (M.e i j : ℚ) * v j) M.cols

/-- casting the model's rational `M @ v` into `ℝ` -/
lemma applyQ_cast (M : FMat) (v : ℕ → ℚ) (i : ℕ) :
    ((applyQ M v i : ℚ) : ℝ) = apply M (fun j => (v j : ℝ)) i := by
  rw [applyQ_eq_apply]
  unfold apply
  push_cast
  rfl

lemma absQ_eq_abs (r : ℚ) : absQ r = |r| := by
  unfold absQ
  split_ifs with h
  · exact (abs_of_neg h).symm
  · exact (abs_of_nonneg (not_lt.1 h)).symm

lemma list_sum_map_range (n : ℕ) (g : ℕ → ℝ) :
    ((List.range n).map g).sum = ∑ k ∈ range n, g k := by
  induction n with
  | zero => rfl
  | succ n ih => rw [List.range_succ, List.map_append, List.sum_append, ih, Finset.sum_range_succ]; simp

end CuqiVerif.C20
