import CuqiVerif.Model.C03
import CuqiVerif.Proofs.RExpr
import Mathlib.Algebra.BigOperators.Group.Finset.Basic
import Mathlib.Algebra.BigOperators.Ring.Finset
import Mathlib.Analysis.Calculus.Deriv.Add
import Mathlib.Analysis.Calculus.Deriv.Mul
import Mathlib.Analysis.Calculus.Deriv.Comp
import Mathlib.Analysis.Calculus.Deriv.Slope
import Mathlib.Data.Fintype.OfMap
import Mathlib.Data.Fintype.Basic
import Mathlib.Data.Fintype.Prod
import Mathlib.Tactic.Ring
import Mathlib.Tactic.FieldSimp
import Mathlib.Tactic.Positivity
import Mathlib.Tactic.Linarith

/-!
# C03 — helper lemmas

* `env4 x a b c` — the environment of a scalar component (`var 0 = x`, parameters `var 1..3`) and
  `comp_hasDerivAt`, the master theorem `RExpr.hasDerivAt_deriv` specialised to it.
* `sumTo_eq_sum`, `matVec_eq`, … — the executable folds of `Model/C03.lean` as `Finset` sums.
* `hasDerivAt_sum_comp`, `hasDerivAt_linForm`, `hasDerivAt_quad_curve` — calculus under finite sums.
-/
open Finset
namespace CuqiVerif.C03
open CuqiVerif RExpr

/-! finite enumerations of the decision-table types (so that table theorems are closed by `decide`) -/
instance : Fintype Family := Fintype.ofList
  [.gaussian, .gmrf, .cmrf, .cauchy, .beta, .invgamma, .lognormal, .smoothedLaplace, .mhn, .uniform,
   .userWithGrad, .userNoGrad, .other] (by intro x; cases x <;> simp)
instance : Fintype Geom := Fintype.ofList [.identity, .nonIdWithGrad, .nonIdNoGrad] (by intro x; cases x <;> simp)
instance : Fintype Cond := Fintype.ofList [.no, .callable, .model] (by intro x; cases x <;> simp)
instance : Fintype PrecForm := Fintype.ofList
  [.na, .matrix, .precScalarDim1, .precScalarDimN, .precVector, .sqrtprec] (by intro x; cases x <;> simp)
instance : Fintype Status := Fintype.ofList
  [.value, .valueFD, .raises, .nan, .none, .notVector] (by intro x; cases x <;> simp)

/-- environment `x, p1, p2, p3` of a scalar component -/
def env4 (x a b c : ℝ) : ℕ → ℝ := fun k => match k with | 0 => x | 1 => a | 2 => b | _ => c

lemma update_env4 (x a b c t : ℝ) : Function.update (env4 x a b c) 0 t = env4 t a b c := by
  funext k
  rcases k with _ | _ | _ | k <;> simp [env4, Function.update]

@[simp] lemma env4_0 (x a b c : ℝ) : env4 x a b c 0 = x := rfl
@[simp] lemma env4_1 (x a b c : ℝ) : env4 x a b c 1 = a := rfl
@[simp] lemma env4_2 (x a b c : ℝ) : env4 x a b c 2 = b := rfl
@[simp] lemma env4_3 (x a b c : ℝ) : env4 x a b c 3 = c := rfl

/-- the master theorem on a component formula in the variables `var 0 … var 3` -/
lemma comp_hasDerivAt (f g : RExpr) (x a b c : ℝ) (hs : Safe 0 (env4 x a b c) f)
    (hg : eval (env4 x a b c) (RExpr.deriv 0 f) = eval (env4 x a b c) g) :
    HasDerivAt (fun t => eval (env4 t a b c) f) (eval (env4 x a b c) g) x := by
  have := hasDerivAt_of_eval_deriv_eq 0 (env4 x a b c) f g hs hg
  simpa [update_env4] using this

section sums
variable {R : Type} [CommRing R]

lemma sumTo_eq_sum (n : ℕ) (f : ℕ → R) : sumTo n f = ∑ j ∈ range n, f j := by
  unfold sumTo
  induction n with
  | zero => simp
  | succ k ih => rw [List.range_succ, List.foldl_append, ih, Finset.sum_range_succ]; rfl

lemma matVec_eq (n : ℕ) (M : ℕ → ℕ → R) (z : ℕ → R) (k : ℕ) :
    matVec n M z k = ∑ j ∈ range n, M k j * z j := by
  simp [matVec, sumTo_eq_sum]

lemma vjp_eq (m : ℕ) (J : ℕ → ℕ → R) (dir : ℕ → R) (l : ℕ) :
    vjp m J dir l = ∑ j ∈ range m, dir j * J j l := by
  simp [vjp, sumTo_eq_sum]

lemma gaussQuad_eq (n : ℕ) (P : ℕ → ℕ → R) (x μ : ℕ → R) :
    gaussQuad n P x μ = ∑ a ∈ range n, (x a - μ a) * ∑ b ∈ range n, P a b * (x b - μ b) := by
  simp [gaussQuad, sumTo_eq_sum, matVec_eq]

lemma gaussGrad_eq (n : ℕ) (P : ℕ → ℕ → R) (x μ : ℕ → R) (i : ℕ) :
    gaussGrad n P x μ i = -∑ b ∈ range n, P i b * (x b - μ b) := by
  simp [gaussGrad, matVec_eq]
end sums

/-- sum of scalar functions of scalar functions: the chain rule under a finite sum -/
lemma hasDerivAt_sum_comp (m : ℕ) (u : ℕ → ℝ → ℝ) (u' : ℕ → ℝ) (ℓ : ℕ → ℝ → ℝ) (ℓ' : ℕ → ℝ) (t0 : ℝ)
    (hu : ∀ k < m, HasDerivAt (u k) (u' k) t0)
    (hℓ : ∀ k < m, HasDerivAt (ℓ k) (ℓ' k) (u k t0)) :
    HasDerivAt (fun t => ∑ k ∈ range m, ℓ k (u k t)) (∑ k ∈ range m, ℓ' k * u' k) t0 := by
  apply HasDerivAt.fun_sum
  intro k hk
  have hk' : k < m := Finset.mem_range.mp hk
  exact (hℓ k hk').comp t0 (hu k hk')

/-- a coordinate of the shifted, updated point -/
lemma hasDerivAt_update_sub (x μ : ℕ → ℝ) (i a : ℕ) :
    HasDerivAt (fun t => Function.update x i t a - μ a) (if a = i then 1 else 0) (x i) := by
  by_cases h : a = i
  · subst h
    simpa using (hasDerivAt_id' (x a)).sub_const (μ a)
  · simpa [h, Function.update_of_ne h] using hasDerivAt_const (x i) (x a - μ a)

/-- a linear form of the shifted, updated point -/
lemma hasDerivAt_linForm (n : ℕ) (row : ℕ → ℝ) (x μ : ℕ → ℝ) (i : ℕ) (hi : i < n) :
    HasDerivAt (fun t => ∑ b ∈ range n, row b * (Function.update x i t b - μ b)) (row i) (x i) := by
  have h : HasDerivAt (fun t => ∑ b ∈ range n, row b * (Function.update x i t b - μ b))
      (∑ b ∈ range n, row b * (if b = i then 1 else 0)) (x i) := by
    apply HasDerivAt.fun_sum
    intro b _
    exact (hasDerivAt_update_sub x μ i b).const_mul (row b)
  refine h.congr_deriv ?_
  simp [Finset.sum_ite_eq', hi]

/-- **Quadratic form along a curve.**  For symmetric `P`, data `d` and a curve `F` in the range with
    velocity `J`, the derivative of `t ↦ -½ (d - F t)ᵀ P (d - F t)` is `Σ_a J a · (P (d - F t₀))_a`. -/
lemma hasDerivAt_quad_curve (m : ℕ) (P : ℕ → ℕ → ℝ) (hP : ∀ a b, P a b = P b a) (d : ℕ → ℝ)
    (F : ℕ → ℝ → ℝ) (J : ℕ → ℝ) (t0 : ℝ) (hF : ∀ a < m, HasDerivAt (F a) (J a) t0) :
    HasDerivAt (fun t => -(∑ a ∈ range m, (d a - F a t) * ∑ b ∈ range m, P a b * (d b - F b t)) / 2)
      (∑ a ∈ range m, (∑ b ∈ range m, P a b * (d b - F b t0)) * J a) t0 := by
  have hdev : ∀ a < m, HasDerivAt (fun t => d a - F a t) (-(J a)) t0 := fun a ha =>
    (hF a ha).const_sub (d a)
  have hL : ∀ a, HasDerivAt (fun t => ∑ b ∈ range m, P a b * (d b - F b t))
      (∑ b ∈ range m, P a b * (-(J b))) t0 := by
    intro a
    apply HasDerivAt.fun_sum
    intro b hb
    exact (hdev b (Finset.mem_range.mp hb)).const_mul (P a b)
  have hq : HasDerivAt (fun t => ∑ a ∈ range m, (d a - F a t) * ∑ b ∈ range m, P a b * (d b - F b t))
      (∑ a ∈ range m, ((-(J a)) * (∑ b ∈ range m, P a b * (d b - F b t0))
        + (d a - F a t0) * ∑ b ∈ range m, P a b * (-(J b)))) t0 := by
    apply HasDerivAt.fun_sum
    intro a ha
    exact (hdev a (Finset.mem_range.mp ha)).mul (hL a)
  have := (hq.neg).div_const 2
  refine this.congr_deriv ?_
  -- algebra: the two halves coincide by symmetry of P
  have hswap : ∑ a ∈ range m, (d a - F a t0) * ∑ b ∈ range m, P a b * (-(J b))
      = ∑ a ∈ range m, (-(J a)) * ∑ b ∈ range m, P a b * (d b - F b t0) := by
    simp only [Finset.mul_sum]
    rw [Finset.sum_comm]
    apply Finset.sum_congr rfl; intro a _
    apply Finset.sum_congr rfl; intro b _
    rw [hP b a]; ring
  rw [Finset.sum_add_distrib, hswap]
  simp only [neg_mul, Finset.sum_neg_distrib]
  have : ∀ a, (∑ b ∈ range m, P a b * (d b - F b t0)) * J a = J a * ∑ b ∈ range m, P a b * (d b - F b t0) :=
    fun a => mul_comm _ _
  simp only [this]
  ring

end CuqiVerif.C03
