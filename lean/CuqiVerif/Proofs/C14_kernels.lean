import CuqiVerif.Model.C14
import CuqiVerif.Model.C02
import CuqiVerif.Model.C08
import CuqiVerif.Proofs.C14
import CuqiVerif.Generated.C14Tables
import Mathlib.Tactic.Lemma

/-!
# C14 — the library samplers' transition kernels as instances of the C14 sampler model

Definitions (encodings of rational data into `Val`, the record-backed step `StepSpec`, the six
instances MH / PCN / MALA / ULA / CWMH / NUTS built from the executable step functions of
`Model/C02.lean` and `Model/C08.lean`) and helper lemmas.  The audited theorems are in
`Props/C14_kernels.lean`.
-/
namespace CuqiVerif.C14

open CuqiVerif

/-! ## 1. attribute values: exact rationals, IEEE values -/

/-- a vector of rationals as `Val.ints [num₀, den₀, num₁, den₁, …]` -/
def encVecL : List Rat → List Int
  | [] => []
  | q :: rest => q.num :: (q.den : Int) :: encVecL rest

def decVecL : List Int → List Rat
  | n :: d :: rest => mkRat n d.toNat :: decVecL rest
  | _ => []

def encVec (v : List Rat) : Val := .ints (encVecL v)

def decVec : Val → List Rat
  | .ints l => decVecL l
  | _ => []

/-- a scalar attribute (`scale`, `_epsilon`, …) is held as a one-entry vector, read with `headD 0`
    exactly like `C02.scalar` -/
def encQ (q : Rat) : Val := encVec [q]
def decQ (v : Val) : Rat := (decVec v).headD 0

lemma decVecL_encVecL (v : List Rat) : decVecL (encVecL v) = v := by
  induction v with
  | nil => rfl
  | cons q rest ih => simp [encVecL, decVecL, ih, Rat.mkRat_self]

@[simp] lemma decVec_encVec (v : List Rat) : decVec (encVec v) = v := decVecL_encVecL v

@[simp] lemma decQ_encQ (q : Rat) : decQ (encQ q) = q := by simp [decQ, encQ]

lemma encVec_ne_unset (v : List Rat) : encVec v ≠ Val.unset := by simp [encVec]

/-- the IEEE values of `Model/C02.lean` (`current_target_logd`, `current_likelihood_logd`) -/
def encX : C02.XVal → Val
  | .nan => .ints [0]
  | .neginf => .ints [1]
  | .posinf => .ints [2]
  | .fin q => .ints [3, q.num, (q.den : Int)]

def decX : Val → C02.XVal
  | .ints [t] => if t = 1 then .neginf else if t = 2 then .posinf else .nan
  | .ints [t, n, d] => if t = 3 then .fin (mkRat n d.toNat) else .nan
  | _ => .nan

@[simp] lemma decX_encX (x : C02.XVal) : decX (encX x) = x := by
  cases x <;> simp [encX, decX, Rat.mkRat_self]

/-- the IEEE values of `Model/C08.lean` (NUTS' `current_target_logd`, `_current_alpha_ratio`) -/
def encR : C08.XR → Val
  | .nan => .ints [0]
  | .ninf => .ints [1]
  | .pinf => .ints [2]
  | .fin q => .ints [3, q.num, (q.den : Int)]

def decR : Val → C08.XR
  | .ints [t] => if t = 1 then .ninf else if t = 2 then .pinf else .nan
  | .ints [t, n, d] => if t = 3 then .fin (mkRat n d.toNat) else .nan
  | _ => .nan

@[simp] lemma decR_encR (x : C08.XR) : decR (encR x) = x := by
  cases x <;> simp [encR, decR, Rat.mkRat_self]

/-! ## 2. record-backed steps -/

/-- A sampler class' `step`, given as: the state keys of the class, the attributes the method
    reads before assigning them, the attributes it assigns, and the transition as a function of
    the *values* of the read attributes and the draw stream, returning per written attribute
    either a new value or `none` (= this call does not assign it, e.g. on rejection), the
    acceptance record and the rest of the stream.  Everything that is not an attribute value —
    target density, gradient, float square root — is a Lean-level parameter of the instance
    (the *configuration*: `_target`, `_proposal`, numpy). -/
structure StepSpec (D A : Type) where
  stateKeys : List String
  reads : List String
  writes : List String
  kern : List Val → List D → List (Option Val) × A × List D

/-- pair the write keys with the values produced (dropping the `none`s) -/
def collect : List String → List (Option Val) → List (String × Val)
  | k :: ks, some v :: vs => (k, v) :: collect ks vs
  | _ :: ks, none :: vs => collect ks vs
  | _, _ => []

/-- `setattr` for each pair, in order -/
def applyWrites (o : Obj) : List (String × Val) → Obj
  | [] => o
  | (k, v) :: rest => applyWrites (o.set k v) rest

/-- the object-level `step` of a `StepSpec` (this is the `step` field of a `Spec`) -/
def StepSpec.step {D A : Type} (s : StepSpec D A) (o : Obj) (ds : List D) : Obj × A × List D :=
  let r := s.kern (s.reads.map o.get) ds
  (applyWrites o (collect s.writes r.1), r.2.1, r.2.2)

/-- A sampler class of `Model/C14.lean` whose `step` is a `StepSpec`. -/
def StepSpec.toSpec {D A : Type} (s : StepSpec D A) (init : Obj → Obj) (initAcc : Obj → List A)
    (tune : Obj → List A → Nat → Nat → Obj) (preSample preWarmup : Obj → Obj) : Spec D A :=
  { stateKeys := s.stateKeys, init := init, initAcc := initAcc, step := s.step, tune := tune,
    preSample := preSample, preWarmup := preWarmup }

lemma collect_keys (ks : List String) (vs : List (Option Val)) (k : String) (v : Val)
    (h : (k, v) ∈ collect ks vs) : k ∈ ks := by
  induction ks generalizing vs with
  | nil => cases vs <;> simp [collect] at h
  | cons a as ih =>
    cases vs with
    | nil => simp [collect] at h
    | cons w ws =>
      cases w with
      | none => simp only [collect] at h; exact List.mem_cons_of_mem _ (ih ws h)
      | some x =>
        simp only [collect, List.mem_cons, Prod.mk.injEq] at h
        rcases h with h | h
        · simp [h.1]
        · exact List.mem_cons_of_mem _ (ih ws h)

lemma get_applyWrites_of_not_mem (ws : List (String × Val)) (o : Obj) (k : String)
    (h : ∀ v, (k, v) ∉ ws) : (applyWrites o ws).get k = o.get k := by
  induction ws generalizing o with
  | nil => rfl
  | cons a rest ih =>
    obtain ⟨k', v'⟩ := a
    simp only [applyWrites]
    rw [ih _ (fun v hv => h v (List.mem_cons_of_mem _ hv)), get_set]
    have : k ≠ k' := fun e => h v' (by simp [e])
    simp [this]

/-- applying the same writes to two objects preserves agreement on every key, and creates
    agreement on the written ones -/
lemma get_applyWrites_congr (ws : List (String × Val)) (o o' : Obj) (k : String)
    (h : o.get k = o'.get k ∨ ∃ v, (k, v) ∈ ws) :
    (applyWrites o ws).get k = (applyWrites o' ws).get k := by
  induction ws generalizing o o' with
  | nil =>
    rcases h with h | ⟨v, hv⟩
    · exact h
    · simp at hv
  | cons a rest ih =>
    obtain ⟨k', v'⟩ := a
    simp only [applyWrites]
    apply ih
    by_cases hk : k = k'
    · left; simp [get_set, hk]
    · rcases h with h | ⟨v, hv⟩
      · left; simp [get_set, hk, h]
      · right
        refine ⟨v, ?_⟩
        simp only [List.mem_cons, Prod.mk.injEq] at hv
        rcases hv with hv | hv
        · exact absurd hv.1 hk
        · exact hv

lemma reads_congr (ks : List String) (o o' : Obj) (h : AgreeOn ks o o') :
    ks.map o.get = ks.map o'.get := by
  apply List.map_congr_left
  intro k hk
  exact h k hk

/-- **dependence**: objects agreeing on `reads` make the same transition, draw the same numbers,
    and agree afterwards on every key on which they agreed before *and* on every key written. -/
lemma StepSpec.step_dep {D A : Type} (s : StepSpec D A) (o o' : Obj) (ds : List D)
    (h : AgreeOn s.reads o o') :
    (s.step o ds).2 = (s.step o' ds).2 ∧
    ∀ k, (o.get k = o'.get k ∨ ∃ v, (k, v) ∈ collect s.writes (s.kern (s.reads.map o.get) ds).1) →
      (s.step o ds).1.get k = (s.step o' ds).1.get k := by
  have e := reads_congr s.reads o o' h
  constructor
  · simp only [StepSpec.step, e]
  · intro k hk
    simp only [StepSpec.step, ← e]
    exact get_applyWrites_congr _ o o' k hk

/-- **frame**: an attribute that is not in `writes` keeps its value -/
lemma StepSpec.step_frame {D A : Type} (s : StepSpec D A) (o : Obj) (ds : List D) (k : String)
    (hk : k ∉ s.writes) : (s.step o ds).1.get k = o.get k := by
  simp only [StepSpec.step]
  apply get_applyWrites_of_not_mem
  intro v hv
  exact hk (collect_keys _ _ _ _ hv)

/-- hypothesis `hdep` of `resume_bisim` for a `StepSpec`, with `W = writes` and any `R ⊇ reads`
    such that every written attribute is either in `R` (so that when a call leaves it alone —
    rejection — the old values agree) or assigned by every call. -/
lemma StepSpec.hdep {D A : Type} (s : StepSpec D A) (R : List String)
    (hRR : ∀ k, k ∈ s.reads → k ∈ R)
    (hW : ∀ (o : Obj) (ds : List D) k, k ∈ s.writes →
      k ∈ R ∨ ∃ v, (k, v) ∈ collect s.writes (s.kern (s.reads.map o.get) ds).1)
    (o o' : Obj) (ds : List D) (h : AgreeOn R o o') :
    (s.step o ds).2 = (s.step o' ds).2 ∧ AgreeOn s.writes (s.step o ds).1 (s.step o' ds).1 := by
  obtain ⟨h1, h2⟩ := s.step_dep o o' ds (h.mono hRR)
  refine ⟨h1, ?_⟩
  intro k hk
  rcases hW o ds k hk with hr | hw
  · exact h2 k (Or.inl (h k hr))
  · exact h2 k (Or.inr hw)

/-- **congruence on any key set containing the reads** (in particular the state keys) -/
lemma StepSpec.step_congr {D A : Type} (s : StepSpec D A) (K : List String)
    (hK : ∀ k, k ∈ s.reads → k ∈ K) (o o' : Obj) (ds : List D) (h : AgreeOn K o o') :
    (s.step o ds).2 = (s.step o' ds).2 ∧ AgreeOn K (s.step o ds).1 (s.step o' ds).1 := by
  obtain ⟨h1, h2⟩ := s.step_dep o o' ds (h.mono hK)
  exact ⟨h1, fun k hk => h2 k (Or.inl (h k hk))⟩

/-! ## 3. the instances

Attribute names are the canonical ones of `Generated/C14Tables.lean`; `stateKeys` of every
instance **is** the generated list (`Gen.cls_X.stateKeys`), so the theorems below are about the
`_STATE_KEYS` of the current source.  -/

abbrev Vec := C02.Vec

/-! ### MH (`cuqi/experimental/mcmc/_mh.py`, `MH.step`) — `C02.mhStep`

draw = `(xi, log u)`: the proposal sample and `np.log(np.random.rand())`. -/

def mhReads : List String := ["current_point", "current_target_logd", "scale"]
def mhWrites : List String := ["current_point", "current_target_logd"]

def mhKern (logd : Vec → C02.XVal) :
    List Val → List (Vec × C02.XVal) → List (Option Val) × Bool × List (Vec × C02.XVal)
  | [x, l, s], (xi, ell) :: rest =>
    let r := C02.mhStep .expMH logd ⟨decVec x, decX l, [], decVec s⟩ xi ell
    if r.2 then ([some (encVec r.1.x), some (encX r.1.logd)], true, rest)
    else ([none, none], false, rest)
  | _, ds => ([], false, ds)

def mhStepSpec (logd : Vec → C02.XVal) : StepSpec (Vec × C02.XVal) Bool :=
  { stateKeys := Gen.cls_MH.stateKeys, reads := mhReads, writes := mhWrites, kern := mhKern logd }

/-- `ProposalBasedSampler.initialize` + `MH._initialize` -/
def mhInit (logd : Vec → C02.XVal) (o : Obj) : Obj :=
  (((o.set "current_point" (o.get "initial_point")).set "scale" (o.get "initial_scale")).set
    "current_target_logd" (encX (logd (decVec (o.get "initial_point"))))).set "_scale_temp" (o.get "initial_scale")

/-- the sampler class; `tune` is arbitrary (not modelled: the sampling phase never calls it) -/
def mhSpec (logd : Vec → C02.XVal) (tune : Obj → List Bool → Nat → Nat → Obj) : Spec (Vec × C02.XVal) Bool :=
  (mhStepSpec logd).toSpec (mhInit logd) (fun _ => [true]) tune id id

/-! ### PCN (`_pcn.py`, `PCN.step`) — `C02.pcnStep`; `sqrtf` = the float `np.sqrt` -/

def pcnReads : List String := ["current_point", "current_likelihood_logd", "scale"]
def pcnWrites : List String := ["current_point", "current_likelihood_logd"]

def pcnKern (loglik : Vec → C02.XVal) (sqrtf : Rat → Rat) :
    List Val → List (Vec × C02.XVal) → List (Option Val) × Bool × List (Vec × C02.XVal)
  | [x, l, s], (xi, ell) :: rest =>
    let st : C02.St := ⟨decVec x, decX l, [], decVec s⟩
    let r := C02.pcnStep .expPCN loglik (sqrtf (1 - C02.scalar st * C02.scalar st)) st xi ell
    if r.2 then ([some (encVec r.1.x), some (encX r.1.logd)], true, rest)
    else ([none, none], false, rest)
  | _, ds => ([], false, ds)

def pcnStepSpec (loglik : Vec → C02.XVal) (sqrtf : Rat → Rat) : StepSpec (Vec × C02.XVal) Bool :=
  { stateKeys := Gen.cls_PCN.stateKeys, reads := pcnReads, writes := pcnWrites, kern := pcnKern loglik sqrtf }

/-- `PCN._initialize` (`lambd = scale`; `star_acc`, `_dim` are not state) -/
def pcnInit (loglik : Vec → C02.XVal) (o : Obj) : Obj :=
  (((o.set "current_point" (o.get "initial_point")).set "scale" (o.get "initial_scale")).set
    "current_likelihood_logd" (encX (loglik (decVec (o.get "initial_point"))))).set "lambd" (o.get "initial_scale")

def pcnSpec (loglik : Vec → C02.XVal) (sqrtf : Rat → Rat) (tune : Obj → List Bool → Nat → Nat → Obj) :
    Spec (Vec × C02.XVal) Bool :=
  (pcnStepSpec loglik sqrtf).toSpec (pcnInit loglik) (fun _ => [true]) tune id id

/-! ### MALA (`_langevin_algorithm.py`, `MALA.step` + `_accept_or_reject`) — `C02.malaStep`

draw = `(z, log u)`: the standard normals behind `Normal(0, sqrt(scale)).sample()` and the uniform. -/

def malaReads : List String := ["current_point", "current_target_logd", "current_target_grad", "scale"]
def malaWrites : List String := ["current_point", "current_target_logd", "current_target_grad"]

def malaKern (logd : Vec → C02.XVal) (gradf : Vec → Vec) (sqrtf : Rat → Rat) :
    List Val → List (Vec × C02.XVal) → List (Option Val) × Bool × List (Vec × C02.XVal)
  | [x, l, g, s], (z, ell) :: rest =>
    let st : C02.St := ⟨decVec x, decX l, decVec g, decVec s⟩
    let r := C02.malaStep .expMALA logd gradf (sqrtf (C02.scalar st)) st z ell
    if r.2 then ([some (encVec r.1.x), some (encX r.1.logd), some (encVec r.1.grad)], true, rest)
    else ([none, none, none], false, rest)
  | _, ds => ([], false, ds)

def malaStepSpec (logd : Vec → C02.XVal) (gradf : Vec → Vec) (sqrtf : Rat → Rat) : StepSpec (Vec × C02.XVal) Bool :=
  { stateKeys := Gen.cls_MALA.stateKeys, reads := malaReads, writes := malaWrites, kern := malaKern logd gradf sqrtf }

/-- `ULA._initialize` (shared by MALA) -/
def ulaInit (logd : Vec → C02.XVal) (gradf : Vec → Vec) (o : Obj) : Obj :=
  (((o.set "current_point" (o.get "initial_point")).set "scale" (o.get "initial_scale")).set
    "current_target_logd" (encX (logd (decVec (o.get "initial_point"))))).set
    "current_target_grad" (encVec (gradf (decVec (o.get "initial_point"))))

def malaSpec (logd : Vec → C02.XVal) (gradf : Vec → Vec) (sqrtf : Rat → Rat) : Spec (Vec × C02.XVal) Bool :=
  (malaStepSpec logd gradf sqrtf).toSpec (ulaInit logd gradf) (fun _ => [true]) (fun o _ _ _ => o) id id

/-! ### ULA (`ULA.step` + `ULA._accept_or_reject`): the MALA proposal, accepted unless the value at
the proposal is NaN/±inf.  Not in `Model/C02.lean`; defined here from `C02.malaPropose` and shown to
be `C02.malaStep` at `log u = -inf` (`ulaStep_eq_malaStep`). draw = `z`. -/

def ulaStep (logd : Vec → C02.XVal) (gradf : Vec → Vec) (sigma : Rat) (st : C02.St) (z : Vec) : C02.St × Bool :=
  let xs := C02.malaPropose st sigma z
  let t := logd xs
  if !t.isNan && !t.isInf then ({ st with x := xs, logd := t, grad := gradf xs }, true) else (st, false)

def ulaReads : List String := ["current_point", "current_target_grad", "scale"]
def ulaWrites : List String := ["current_point", "current_target_logd", "current_target_grad"]

def ulaKern (logd : Vec → C02.XVal) (gradf : Vec → Vec) (sqrtf : Rat → Rat) :
    List Val → List Vec → List (Option Val) × Bool × List Vec
  | [x, g, s], z :: rest =>
    let st : C02.St := ⟨decVec x, .nan, decVec g, decVec s⟩
    let r := ulaStep logd gradf (sqrtf (C02.scalar st)) st z
    if r.2 then ([some (encVec r.1.x), some (encX r.1.logd), some (encVec r.1.grad)], true, rest)
    else ([none, none, none], false, rest)
  | _, ds => ([], false, ds)

def ulaStepSpec (logd : Vec → C02.XVal) (gradf : Vec → Vec) (sqrtf : Rat → Rat) : StepSpec Vec Bool :=
  { stateKeys := Gen.cls_ULA.stateKeys, reads := ulaReads, writes := ulaWrites, kern := ulaKern logd gradf sqrtf }

def ulaSpec (logd : Vec → C02.XVal) (gradf : Vec → Vec) (sqrtf : Rat → Rat) : Spec Vec Bool :=
  (ulaStepSpec logd gradf sqrtf).toSpec (ulaInit logd gradf) (fun _ => [true]) (fun o _ _ _ => o) id id

/-! ### CWMH (`_cwmh.py`, `CWMH.step`) — `C02.cwStep`

draw = `(z, [log u₀, log u₁, …])`; acceptance record = one flag per component; both written
attributes are assigned by every call (`self.current_target_logd = target_eval_t;
self.current_point = x_t`). -/

def cwReads : List String := ["_scale", "current_point", "current_target_logd"]
def cwWrites : List String := ["current_point", "current_target_logd"]

def cwKern (logd : Vec → C02.XVal) :
    List Val → List (Vec × List C02.XVal) → List (Option Val) × List Bool × List (Vec × List C02.XVal)
  | [s, x, l], (z, ells) :: rest =>
    let r := C02.cwStep .expCWMH (fun _ p => logd p) ⟨decVec x, decX l, [], decVec s⟩ z ells
    ([some (encVec r.1.x), some (encX r.1.logd)], r.2.1, rest)
  | _, ds => ([], [], ds)

def cwStepSpec (logd : Vec → C02.XVal) : StepSpec (Vec × List C02.XVal) (List Bool) :=
  { stateKeys := Gen.cls_CWMH.stateKeys, reads := cwReads, writes := cwWrites, kern := cwKern logd }

/-- `ProposalBasedSampler.initialize` + `CWMH._initialize` (scalar scale broadcast to `dim`) -/
def cwInit (logd : Vec → C02.XVal) (o : Obj) : Obj :=
  let x := decVec (o.get "initial_point")
  let s := decVec (o.get "initial_scale")
  let sv := encVec (if s.length = 1 then List.replicate x.length (s.headD 0) else s)
  (((o.set "current_point" (o.get "initial_point")).set "_scale" sv).set
    "current_target_logd" (encX (logd x))).set "_scale_temp" sv

def cwSpec (logd : Vec → C02.XVal) (tune : Obj → List (List Bool) → Nat → Nat → Obj) :
    Spec (Vec × List C02.XVal) (List Bool) :=
  (cwStepSpec logd).toSpec (cwInit logd) (fun o => [List.replicate (decVec (o.get "initial_point")).length true]) tune id id

/-! ### NUTS (`_hmc.py`, `NUTS.step`, `tune`, `_pre_sample`, `_pre_warmup`, `_initialize`) — `C08.nutsStep`

Stream of rationals consumed in the order of the code: `dim` standard normals (momentum), one
`Exp(1)` draw, then the uniforms of the doubling loop (data-dependent number; `C08.popU`
convention for an exhausted stream).  Start values exactly as `Driver/C08.lean` builds them:
`Ham = logd_k - ½ r·r`, `log_u = Ham - e`.  The C08 model needs a finite `logd_k`
(driver: `err-nonfinite-start`); for a non-finite one the instance makes no move and assigns
only what the code assigns unconditionally. -/

structure NutsCfg where
  /-- `eps logu ham0 ↦` leapfrog / Hamiltonian / U-turn test (driver: `C08.psCtx target`) -/
  ctx : Rat → Rat → Rat → C08.Ctx C08.PS
  /-- `alpha / n_alpha` of the last doubling as a function of `Ham` and its leaves (involves
      `np.exp`; `Driver/C08` exposes the exact `ΔH` list, the harness computes the statistic) -/
  alpha : Rat → List C08.PS → C08.XR
  /-- `target.logd`, `target.gradient` (for `_initialize`) -/
  logd : Vec → C08.XR
  grad : Vec → Vec
  /-- result of `_FindGoodEpsilon` when `step_size is None` (draws a momentum: random) -/
  eps0 : Rat
  /-- float functions used by `tune` and `_initialize`: `exp`, `log`, `sqrt(k)`, `k**(-0.75)` -/
  expf : Rat → Rat
  logf : Rat → Rat
  sqrtk : Nat → Rat
  powk : Nat → Rat

def popN : Nat → List Rat → List Rat × List Rat
  | 0, ds => ([], ds)
  | n + 1, ds =>
    let a := C08.popU ds
    let b := popN n a.2
    (a.1 :: b.1, b.2)

def nutsReads : List String :=
  ["_epsilon", "_epsilon_bar", "_max_depth", "current_point", "current_target_grad", "current_target_logd"]
def nutsWrites : List String :=
  ["_current_alpha_ratio", "_epsilon", "_num_tree_node", "current_point", "current_target_grad", "current_target_logd"]

/-- the doubling loop of one `NUTS.step` started from the attribute values -/
def nutsRun (cfg : NutsCfg) (e md x g : Val) (l0 : Rat) (ds : List Rat) : Rat × C08.Loop C08.PS :=
  let xv := decVec x
  let m := popN xv.length ds
  let ex := C08.popU m.2
  let ham0 := l0 - (1/2) * C08.dotQ m.1 m.1
  let logu := ham0 - ex.1
  (ham0, C08.nutsStep (cfg.ctx (decQ e) logu ham0) (fun z => z.logd.isFinite) (getInt md).toNat
    ⟨xv, m.1, .fin l0, decVec g⟩ ex.2)

def nutsKern (cfg : NutsCfg) : List Val → List Rat → List (Option Val) × Bool × List Rat
  | [e, eb, md, x, g, l], ds =>
    match decR l with
    | .fin l0 =>
      let R := nutsRun cfg e md x g l0 ds
      let L := R.2
      ([some (encR (cfg.alpha R.1 L.last)),            -- self._current_alpha_ratio = alpha/n_alpha
        some eb,                                        -- self._epsilon = self._epsilon_bar
        some (.int L.nodes),                            -- self._num_tree_node
        if L.acc then some (encVec L.cur.x) else none,
        if L.acc then some (encVec L.cur.grad) else none,
        if L.acc then some (encR L.cur.logd) else none], L.acc, L.us)
    | _ => ([some (encR .nan), some eb, some (.int 0), none, none, none], false, ds)
  | _, ds => ([], false, ds)

def nutsStepSpec (cfg : NutsCfg) : StepSpec Rat Bool :=
  { stateKeys := Gen.cls_NUTS.stateKeys, reads := nutsReads, writes := nutsWrites, kern := nutsKern cfg }

/-- `Sampler.initialize` + `NUTS._initialize` (`_max_depth`, `_step_size`, `_opt_acc_rate` are
    constructor attributes and are not assigned here) -/
def nutsInit (cfg : NutsCfg) (o : Obj) : Obj :=
  let x := decVec (o.get "initial_point")
  let eps := if o.get "_step_size" = .none then cfg.eps0 else decQ (o.get "_step_size")
  ((((((((o.set "current_point" (o.get "initial_point")).set "_current_alpha_ratio" (encR .nan)).set
    "current_target_logd" (encR (cfg.logd x))).set "current_target_grad" (encVec (cfg.grad x))).set
    "_epsilon" (encQ eps)).set "_epsilon_bar" .unset).set "_mu" (encQ (cfg.logf (10 * eps)))).set
    "_H_bar" (encQ 0)).set "_num_tree_node" (.int 0)

/-- `_pre_sample`: `if self._epsilon_bar == "unset": self._epsilon_bar = self._epsilon` -/
def nutsPreSample (o : Obj) : Obj :=
  if o.get "_epsilon_bar" = .unset then o.set "_epsilon_bar" (o.get "_epsilon") else o

/-- `_pre_warmup`: `if self._epsilon_bar == "unset": self._epsilon_bar = 1` -/
def nutsPreWarmup (o : Obj) : Obj :=
  if o.get "_epsilon_bar" = .unset then o.set "_epsilon_bar" (encQ 1) else o

def nutsTuneReads : List String := ["_H_bar", "_current_alpha_ratio", "_epsilon_bar", "_mu", "_opt_acc_rate"]
def nutsTuneWrites : List String := ["_H_bar", "_epsilon", "_epsilon_bar"]

/-- dual averaging (`NUTS.tune`), `k = update_count + 1`, `gamma = 0.05`, `t_0 = 10`; a non-finite
    `_current_alpha_ratio` propagates as NaN (held as `None`) -/
def nutsTuneKern (cfg : NutsCfg) (cnt : Nat) : List Val → List (Option Val)
  | [hb, a, eb, mu, opt] =>
    match decR a with
    | .fin al =>
      let k : Nat := cnt + 1
      let eta1 : Rat := 1 / ((k : Rat) + 10)
      let hbar := (1 - eta1) * decQ hb + eta1 * (decQ opt - al)
      let eps := cfg.expf (decQ mu - (cfg.sqrtk k / (1/20)) * hbar)
      let eta := cfg.powk k
      let ebar := cfg.expf (eta * cfg.logf eps + (1 - eta) * cfg.logf (decQ eb))
      [some (encQ hbar), some (encQ eps), some (encQ ebar)]
    | _ => [some .none, some .none, some .none]
  | _ => []

def nutsTune (cfg : NutsCfg) (o : Obj) (_acc : List Bool) (_skip : Nat) (cnt : Nat) : Obj :=
  applyWrites o (collect nutsTuneWrites (nutsTuneKern cfg cnt (nutsTuneReads.map o.get)))

def nutsSpec (cfg : NutsCfg) : Spec Rat Bool :=
  (nutsStepSpec cfg).toSpec (nutsInit cfg) (fun _ => [true]) (nutsTune cfg) nutsPreSample nutsPreWarmup

/-! ## 4. loops under a congruence on the state keys -/

lemma transitions_length {D A : Type} (step : Obj → List D → Obj × A × List D) (n : Nat) (o : Obj) (ds : List D) :
    (transitions step n o ds).length = n := by
  induction n generalizing o ds with
  | zero => rfl
  | succ k ih => simp [transitions, ih]

lemma transitions_congr {D A : Type} (step : Obj → List D → Obj × A × List D) (S : List String)
    (hcong : ∀ o o' ds, AgreeOn S o o' → (step o ds).2 = (step o' ds).2 ∧ AgreeOn S (step o ds).1 (step o' ds).1)
    (hpoint : "current_point" ∈ S) (n : Nat) (a b : Obj) (ds : List D) (h : AgreeOn S a b) :
    transitions step n a ds = transitions step n b ds := by
  induction n generalizing a b ds with
  | zero => rfl
  | succ k ih =>
    obtain ⟨h2, hS⟩ := hcong a b ds h
    simp only [transitions]
    have hp : point (step a ds).1 = point (step b ds).1 := hS _ hpoint
    have hacc : (step a ds).2.1 = (step b ds).2.1 := by rw [h2]
    have hstream : (step a ds).2.2 = (step b ds).2.2 := by rw [h2]
    rw [hp, hacc, hstream, ih _ _ _ hS]

lemma sampleLoop_congr {D A : Type} (sp : Spec D A) (S : List String)
    (hcong : ∀ o o' ds, AgreeOn S o o' → (sp.step o ds).2 = (sp.step o' ds).2 ∧ AgreeOn S (sp.step o ds).1 (sp.step o' ds).1)
    (n : Nat) (a b : Run D A) (h : AgreeOn S a.obj b.obj) (hs : a.stream = b.stream) :
    AgreeOn S (sampleLoop sp n a).obj (sampleLoop sp n b).obj ∧
      (sampleLoop sp n a).stream = (sampleLoop sp n b).stream := by
  induction n generalizing a b with
  | zero => exact ⟨h, hs⟩
  | succ k ih =>
    simp only [sampleLoop]
    apply ih
    · simp only [oneStep, hs]
      exact (hcong a.obj b.obj b.stream h).2
    · simp only [oneStep, hs]
      rw [(hcong a.obj b.obj b.stream h).1]

lemma sampleLoop_stream_obj {D A : Type} (sp : Spec D A) (n : Nat) (a b : Run D A)
    (ho : a.obj = b.obj) (hs : a.stream = b.stream) :
    (sampleLoop sp n a).obj = (sampleLoop sp n b).obj ∧ (sampleLoop sp n a).stream = (sampleLoop sp n b).stream := by
  induction n generalizing a b with
  | zero => exact ⟨ho, hs⟩
  | succ k ih =>
    simp only [sampleLoop]
    apply ih <;> simp [oneStep, ho, hs]

/-! ## 5. statements shared by the per-class theorems -/

/-- conclusion of the run-level resume theorems: checkpoint after `sample(p)` on `r`, load into
    `f`, continue with the stream where the original stopped — for every `m` the `m` new stored
    samples / acceptance records of the resumed sampler are those of the uninterrupted
    `sample(p+m)`, the streams end at the same place, the objects agree on the state keys. -/
def ResumesExactly {D A : Type} (sp : Spec D A) (r f : Run D A) (p : Nat) : Prop :=
  ∃ f', loadCheckpoint sp (saveCheckpoint sp (sample sp p r)).2 f = some f' ∧
    f'.samples = (ensureInit sp f).samples ∧
    ∀ m, ∃ tail : List (Val × A), tail.length = m ∧
      (sample sp (p + m) r).samples = (sample sp p r).samples ++ tail.map Prod.fst ∧
      (sample sp (p + m) r).acc = (sample sp p r).acc ++ tail.map Prod.snd ∧
      (sample sp m { f' with stream := (sample sp p r).stream }).samples = f'.samples ++ tail.map Prod.fst ∧
      (sample sp m { f' with stream := (sample sp p r).stream }).acc = f'.acc ++ tail.map Prod.snd ∧
      (sample sp m { f' with stream := (sample sp p r).stream }).stream = (sample sp (p + m) r).stream ∧
      AgreeOn sp.stateKeys (sample sp m { f' with stream := (sample sp p r).stream }).obj
        (sample sp (p + m) r).obj

/-- the instance's read / write sets against the sets extracted from the current Python source:
    * every attribute the instance reads (writes) is reported as read (written) by `step`;
    * every *carried* read of the source's `step` is a read of the instance or a named
      configuration attribute, every write of the source's `step` is a write of the instance
      (so a source change that adds a read or a write falsifies this);
    * the instance's reads are `_STATE_KEYS`; the configuration attributes are assigned by the
      constructor and by none of `step`, `tune`, `_pre_sample`, `_pre_warmup`, and are not
      initialised from a random source. -/
def tableConsistent (t : Gen.ClassTable) (reads writes cfg : List String) : Bool :=
  reads.all (fun k => t.stepReads.contains k) &&
  writes.all (fun k => t.stepWrites.contains k) &&
  t.stepCarried.all (fun k => reads.contains k || cfg.contains k) &&
  t.stepWrites.all (fun k => writes.contains k) &&
  reads.all (fun k => t.stateKeys.contains k) &&
  cfg.all (fun k => t.ctorKeys.contains k && !t.randomInitKeys.contains k &&
    !(t.stepWrites ++ t.tuneWrites ++ t.preSampleWrites ++ t.preWarmupWrites).contains k)

/-! ## 6. per-class lemmas -/

lemma metropolis_reject (k : C02.Kernel) (st : C02.St) (xs : Vec) (t : C02.XVal) (gs : Vec) (ratio ell : C02.XVal)
    (h : (C02.metropolis k st xs t gs ratio ell).2 = false) : (C02.metropolis k st xs t gs ratio ell).1 = st := by
  unfold C02.metropolis at h ⊢
  split at h
  · cases h
  · rename_i hc; simp [hc]

lemma metropolis_scale (k : C02.Kernel) (st : C02.St) (xs : Vec) (t : C02.XVal) (gs : Vec) (ratio ell : C02.XVal) :
    (C02.metropolis k st xs t gs ratio ell).1.scale = st.scale := by
  unfold C02.metropolis
  split <;> rfl

/-- writes ⊆ R: the `hW` hypothesis of `StepSpec.hdep` for the Metropolis family -/
lemma hW_of_subset {D A : Type} (s : StepSpec D A) (R : List String) (h : ∀ k, k ∈ s.writes → k ∈ R) :
    ∀ (o : Obj) (ds : List D) k, k ∈ s.writes →
      k ∈ R ∨ ∃ v, (k, v) ∈ collect s.writes (s.kern (s.reads.map o.get) ds).1 :=
  fun _ _ k hk => Or.inl (h k hk)

lemma mh_hR : ∀ k, k ∈ mhReads → k ∈ Gen.cls_MH.stateKeys := by decide
lemma mh_hWR : ∀ k, k ∈ mhWrites → k ∈ mhReads := by decide
lemma pcn_hR : ∀ k, k ∈ pcnReads → k ∈ Gen.cls_PCN.stateKeys := by decide
lemma pcn_hWR : ∀ k, k ∈ pcnWrites → k ∈ pcnReads := by decide
lemma mala_hR : ∀ k, k ∈ malaReads → k ∈ Gen.cls_MALA.stateKeys := by decide
lemma mala_hWR : ∀ k, k ∈ malaWrites → k ∈ malaReads := by decide
lemma ula_hR : ∀ k, k ∈ ulaReads → k ∈ Gen.cls_ULA.stateKeys := by decide
lemma cw_hR : ∀ k, k ∈ cwReads → k ∈ Gen.cls_CWMH.stateKeys := by decide
lemma cw_hWR : ∀ k, k ∈ cwWrites → k ∈ cwReads := by decide
lemma nuts_hR : ∀ k, k ∈ nutsReads → k ∈ Gen.cls_NUTS.stateKeys := by decide

/-! #### simulation: the instance's `step` is the C02 / C08 step on the decoded record -/

lemma mh_step_sim (logd : Vec → C02.XVal) (o : Obj) (x : Vec) (l : C02.XVal) (s : Vec)
    (hx : o.get "current_point" = encVec x) (hl : o.get "current_target_logd" = encX l)
    (hs : o.get "scale" = encVec s) (xi : Vec) (ell : C02.XVal) (rest : List (Vec × C02.XVal)) :
    ((mhStepSpec logd).step o ((xi, ell) :: rest)).2 = ((C02.mhStep .expMH logd ⟨x, l, [], s⟩ xi ell).2, rest) ∧
    ((mhStepSpec logd).step o ((xi, ell) :: rest)).1.get "current_point" = encVec (C02.mhStep .expMH logd ⟨x, l, [], s⟩ xi ell).1.x ∧
    ((mhStepSpec logd).step o ((xi, ell) :: rest)).1.get "current_target_logd" = encX (C02.mhStep .expMH logd ⟨x, l, [], s⟩ xi ell).1.logd ∧
    ((mhStepSpec logd).step o ((xi, ell) :: rest)).1.get "scale" = encVec (C02.mhStep .expMH logd ⟨x, l, [], s⟩ xi ell).1.scale := by
  have hsc : (C02.mhStep .expMH logd ⟨x, l, [], s⟩ xi ell).1.scale = s := metropolis_scale ..
  simp only [StepSpec.step, mhStepSpec, mhReads, mhWrites, List.map, hx, hl, hs, mhKern, decVec_encVec, decX_encX, hsc]
  by_cases h : (C02.mhStep .expMH logd ⟨x, l, [], s⟩ xi ell).2 = true
  · simp [h, collect, applyWrites, get_set, hs]
  · have h' : (C02.mhStep .expMH logd ⟨x, l, [], s⟩ xi ell).2 = false := by simpa using h
    have hr : (C02.mhStep .expMH logd ⟨x, l, [], s⟩ xi ell).1 = ⟨x, l, [], s⟩ := metropolis_reject _ _ _ _ _ _ _ h'
    simp [h', hr, collect, applyWrites, hx, hl, hs]

lemma pcn_step_sim (loglik : Vec → C02.XVal) (sqrtf : Rat → Rat) (o : Obj) (x : Vec) (l : C02.XVal) (s : Vec)
    (hx : o.get "current_point" = encVec x) (hl : o.get "current_likelihood_logd" = encX l)
    (hs : o.get "scale" = encVec s) (xi : Vec) (ell : C02.XVal) (rest : List (Vec × C02.XVal)) :
    ((pcnStepSpec loglik sqrtf).step o ((xi, ell) :: rest)).2 =
      ((C02.pcnStep .expPCN loglik (sqrtf (1 - s.headD 0 * s.headD 0)) ⟨x, l, [], s⟩ xi ell).2, rest) ∧
    ((pcnStepSpec loglik sqrtf).step o ((xi, ell) :: rest)).1.get "current_point" =
      encVec (C02.pcnStep .expPCN loglik (sqrtf (1 - s.headD 0 * s.headD 0)) ⟨x, l, [], s⟩ xi ell).1.x ∧
    ((pcnStepSpec loglik sqrtf).step o ((xi, ell) :: rest)).1.get "current_likelihood_logd" =
      encX (C02.pcnStep .expPCN loglik (sqrtf (1 - s.headD 0 * s.headD 0)) ⟨x, l, [], s⟩ xi ell).1.logd ∧
    ((pcnStepSpec loglik sqrtf).step o ((xi, ell) :: rest)).1.get "scale" = encVec s := by
  simp only [StepSpec.step, pcnStepSpec, pcnReads, pcnWrites, List.map, hx, hl, hs, pcnKern, decVec_encVec, decX_encX, C02.scalar]
  generalize sqrtf (1 - s.headD 0 * s.headD 0) = c
  by_cases h : (C02.pcnStep .expPCN loglik c ⟨x, l, [], s⟩ xi ell).2 = true
  · simp [h, collect, applyWrites, get_set, hs]
  · have h' : (C02.pcnStep .expPCN loglik c ⟨x, l, [], s⟩ xi ell).2 = false := by simpa using h
    have hr : (C02.pcnStep .expPCN loglik c ⟨x, l, [], s⟩ xi ell).1 = ⟨x, l, [], s⟩ :=
      metropolis_reject _ _ _ _ _ _ _ h'
    simp [h', hr, collect, applyWrites, hx, hl, hs]

lemma mala_step_sim (logd : Vec → C02.XVal) (gradf : Vec → Vec) (sqrtf : Rat → Rat) (o : Obj)
    (x : Vec) (l : C02.XVal) (g s : Vec)
    (hx : o.get "current_point" = encVec x) (hl : o.get "current_target_logd" = encX l)
    (hg : o.get "current_target_grad" = encVec g)
    (hs : o.get "scale" = encVec s) (z : Vec) (ell : C02.XVal) (rest : List (Vec × C02.XVal)) :
    ((malaStepSpec logd gradf sqrtf).step o ((z, ell) :: rest)).2 =
      ((C02.malaStep .expMALA logd gradf (sqrtf (s.headD 0)) ⟨x, l, g, s⟩ z ell).2, rest) ∧
    ((malaStepSpec logd gradf sqrtf).step o ((z, ell) :: rest)).1.get "current_point" =
      encVec (C02.malaStep .expMALA logd gradf (sqrtf (s.headD 0)) ⟨x, l, g, s⟩ z ell).1.x ∧
    ((malaStepSpec logd gradf sqrtf).step o ((z, ell) :: rest)).1.get "current_target_logd" =
      encX (C02.malaStep .expMALA logd gradf (sqrtf (s.headD 0)) ⟨x, l, g, s⟩ z ell).1.logd ∧
    ((malaStepSpec logd gradf sqrtf).step o ((z, ell) :: rest)).1.get "current_target_grad" =
      encVec (C02.malaStep .expMALA logd gradf (sqrtf (s.headD 0)) ⟨x, l, g, s⟩ z ell).1.grad ∧
    ((malaStepSpec logd gradf sqrtf).step o ((z, ell) :: rest)).1.get "scale" = encVec s := by
  simp only [StepSpec.step, malaStepSpec, malaReads, malaWrites, List.map, hx, hl, hg, hs, malaKern, decVec_encVec, decX_encX, C02.scalar]
  generalize sqrtf (s.headD 0) = c
  by_cases h : (C02.malaStep .expMALA logd gradf c ⟨x, l, g, s⟩ z ell).2 = true
  · simp [h, collect, applyWrites, get_set, hs]
  · have h' : (C02.malaStep .expMALA logd gradf c ⟨x, l, g, s⟩ z ell).2 = false := by simpa using h
    have hr : (C02.malaStep .expMALA logd gradf c ⟨x, l, g, s⟩ z ell).1 = ⟨x, l, g, s⟩ :=
      metropolis_reject _ _ _ _ _ _ _ h'
    simp [h', hr, collect, applyWrites, hx, hl, hg, hs]

lemma le_neginf_pyMin0 (r : C02.XVal) : C02.XVal.le .neginf (C02.XVal.pyMin0 r) = true := by
  unfold C02.XVal.pyMin0
  split <;> cases r <;> simp_all [C02.XVal.le, C02.XVal.lt]

/-- `ULA.step` is `MALA.step` with the Metropolis test switched off (`log u = -inf`) -/
lemma ulaStep_eq (logd : Vec → C02.XVal) (gradf : Vec → Vec) (sigma : Rat) (st : C02.St) (z : Vec) :
    ulaStep logd gradf sigma st z = C02.malaStep .expMALA logd gradf sigma st z .neginf := by
  simp only [ulaStep, C02.malaStep, C02.metropolis, C02.accepts, C02.acceptsG, le_neginf_pyMin0,
    C02.Kernel.guardNan, C02.Kernel.guardInf, Bool.true_and, Bool.not_true, Bool.false_or]

lemma ulaStep_reject (logd : Vec → C02.XVal) (gradf : Vec → Vec) (sigma : Rat) (st : C02.St) (z : Vec)
    (h : (ulaStep logd gradf sigma st z).2 = false) : (ulaStep logd gradf sigma st z).1 = st := by
  rw [ulaStep_eq] at h ⊢
  exact metropolis_reject _ _ _ _ _ _ _ h

/-- for ULA the bisimulation set is `reads` plus `current_target_logd`, which `step` assigns on
    acceptance without reading it -/
def ulaR : List String := "current_target_logd" :: ulaReads
lemma ula_hRR : ∀ k, k ∈ ulaReads → k ∈ ulaR := by decide
lemma ula_hRS : ∀ k, k ∈ ulaR → k ∈ Gen.cls_ULA.stateKeys := by decide
lemma ula_hWR : ∀ k, k ∈ ulaWrites → k ∈ ulaR := by decide

lemma ula_step_sim (logd : Vec → C02.XVal) (gradf : Vec → Vec) (sqrtf : Rat → Rat) (o : Obj)
    (x g s : Vec)
    (hx : o.get "current_point" = encVec x) (hg : o.get "current_target_grad" = encVec g)
    (hs : o.get "scale" = encVec s) (z : Vec) (rest : List Vec) :
    ((ulaStepSpec logd gradf sqrtf).step o (z :: rest)).2 =
      ((ulaStep logd gradf (sqrtf (s.headD 0)) ⟨x, .nan, g, s⟩ z).2, rest) ∧
    ((ulaStepSpec logd gradf sqrtf).step o (z :: rest)).1.get "current_point" =
      encVec (ulaStep logd gradf (sqrtf (s.headD 0)) ⟨x, .nan, g, s⟩ z).1.x ∧
    ((ulaStepSpec logd gradf sqrtf).step o (z :: rest)).1.get "current_target_grad" =
      encVec (ulaStep logd gradf (sqrtf (s.headD 0)) ⟨x, .nan, g, s⟩ z).1.grad ∧
    ((ulaStepSpec logd gradf sqrtf).step o (z :: rest)).1.get "current_target_logd" =
      (if (ulaStep logd gradf (sqrtf (s.headD 0)) ⟨x, .nan, g, s⟩ z).2
        then encX (ulaStep logd gradf (sqrtf (s.headD 0)) ⟨x, .nan, g, s⟩ z).1.logd
        else o.get "current_target_logd") ∧
    ((ulaStepSpec logd gradf sqrtf).step o (z :: rest)).1.get "scale" = encVec s := by
  simp only [StepSpec.step, ulaStepSpec, ulaReads, ulaWrites, List.map, hx, hg, hs, ulaKern, decVec_encVec, C02.scalar]
  generalize sqrtf (s.headD 0) = c
  by_cases h : (ulaStep logd gradf c ⟨x, .nan, g, s⟩ z).2 = true
  · simp [h, collect, applyWrites, get_set, hs]
  · have h' : (ulaStep logd gradf c ⟨x, .nan, g, s⟩ z).2 = false := by simpa using h
    have hr : (ulaStep logd gradf c ⟨x, .nan, g, s⟩ z).1 = ⟨x, .nan, g, s⟩ := ulaStep_reject _ _ _ _ _ h'
    simp [h', hr, collect, applyWrites, hx, hg, hs]

lemma cw_step_sim (logd : Vec → C02.XVal) (o : Obj) (x : Vec) (l : C02.XVal) (s : Vec)
    (hx : o.get "current_point" = encVec x) (hl : o.get "current_target_logd" = encX l)
    (hs : o.get "_scale" = encVec s) (z : Vec) (ells : List C02.XVal) (rest : List (Vec × List C02.XVal)) :
    ((cwStepSpec logd).step o ((z, ells) :: rest)).2 =
      ((C02.cwStep .expCWMH (fun _ p => logd p) ⟨x, l, [], s⟩ z ells).2.1, rest) ∧
    ((cwStepSpec logd).step o ((z, ells) :: rest)).1.get "current_point" =
      encVec (C02.cwStep .expCWMH (fun _ p => logd p) ⟨x, l, [], s⟩ z ells).1.x ∧
    ((cwStepSpec logd).step o ((z, ells) :: rest)).1.get "current_target_logd" =
      encX (C02.cwStep .expCWMH (fun _ p => logd p) ⟨x, l, [], s⟩ z ells).1.logd ∧
    ((cwStepSpec logd).step o ((z, ells) :: rest)).1.get "_scale" =
      encVec (C02.cwStep .expCWMH (fun _ p => logd p) ⟨x, l, [], s⟩ z ells).1.scale := by
  simp only [StepSpec.step, cwStepSpec, cwReads, cwWrites, List.map, hx, hl, hs, cwKern, decVec_encVec, decX_encX]
  simp [collect, applyWrites, get_set, hs, C02.cwStep]

/-! NUTS -/

lemma nutsKern_shape (cfg : NutsCfg) (e eb md x g l : Val) (ds : List Rat) :
    ∃ a n p q r, (nutsKern cfg [e, eb, md, x, g, l] ds).1 = [some a, some eb, some n, p, q, r] := by
  simp only [nutsKern]
  split <;> exact ⟨_, _, _, _, _, rfl⟩

lemma nuts_hW (cfg : NutsCfg) :
    ∀ (o : Obj) (ds : List Rat) k, k ∈ (nutsStepSpec cfg).writes →
      k ∈ nutsReads ∨ ∃ v, (k, v) ∈ collect (nutsStepSpec cfg).writes
          ((nutsStepSpec cfg).kern ((nutsStepSpec cfg).reads.map o.get) ds).1 := by
  intro o ds k hk
  simp only [nutsStepSpec, nutsReads, nutsWrites, List.map] at hk ⊢
  obtain ⟨a, n, p, q, r, hsh⟩ := nutsKern_shape cfg (o.get "_epsilon") (o.get "_epsilon_bar") (o.get "_max_depth")
    (o.get "current_point") (o.get "current_target_grad") (o.get "current_target_logd") ds
  rw [hsh]
  simp only [List.mem_cons, List.not_mem_nil, or_false] at hk
  rcases hk with rfl | rfl | rfl | rfl | rfl | rfl
  · right; exact ⟨a, by simp [collect]⟩
  · left; simp
  · right; exact ⟨n, by simp [collect]⟩
  · left; simp
  · left; simp
  · left; simp

lemma loopBody_cur_of_not_acc {Z : Type} (c : C08.Ctx Z) (guard : Z → Bool) (st : C08.Loop Z) (z0 : Z)
    (h : st.acc = false → st.cur = z0) (ha : (C08.loopBody c guard st).acc = false) :
    (C08.loopBody c guard st).cur = z0 := by
  simp only [C08.loopBody] at ha ⊢
  simp only [Bool.or_eq_false_iff] at ha
  rw [ha.2]
  simp [h ha.1]

lemma loop_cur_of_not_acc {Z : Type} (c : C08.Ctx Z) (guard : Z → Bool) (md fuel : Nat) (st : C08.Loop Z) (z0 : Z)
    (h : st.acc = false → st.cur = z0) (ha : (C08.loop c guard md fuel st).acc = false) :
    (C08.loop c guard md fuel st).cur = z0 := by
  induction fuel generalizing st with
  | zero => exact h ha
  | succ k ih =>
    simp only [C08.loop] at ha ⊢
    split
    · rename_i hc
      rw [if_pos hc] at ha
      exact ih _ (loopBody_cur_of_not_acc c guard st z0 h) ha
    · rename_i hc
      rw [if_neg hc] at ha
      exact h ha

/-- a transition that reports `acc = 0` left the point (and its caches) alone -/
lemma nutsStep_cur_of_not_acc {Z : Type} (c : C08.Ctx Z) (guard : Z → Bool) (md : Nat) (z0 : Z) (us : List Rat)
    (ha : (C08.nutsStep c guard md z0 us).acc = false) : (C08.nutsStep c guard md z0 us).cur = z0 :=
  loop_cur_of_not_acc c guard md _ _ z0 (fun _ => rfl) ha

lemma loopBody_guard {Z : Type} (c : C08.Ctx Z) (guard : Z → Bool) (st : C08.Loop Z)
    (h : guard st.cur = true) : guard (C08.loopBody c guard st).cur = true := by
  simp only [C08.loopBody]
  generalize (if (C08.popU st.us).1 < 1 / 2 then (1 : Int) else -1) = v
  generalize C08.buildTree c v st.j (if v = -1 then st.zminus else st.zplus) (C08.popU st.us).2 = b
  obtain ⟨t, us1⟩ := b
  simp only
  by_cases hts : t.s = true
  · simp only [hts, if_true]
    by_cases hacc : (decide ((C08.popU us1).1 * (st.n : Rat) < (t.n : Rat)) && decide ((C08.popU us1).1 < 1) && guard t.cand) = true
    · simp only [hacc, if_true]
      simp only [Bool.and_eq_true] at hacc
      exact hacc.2
    · simp only [hacc]; exact h
  · simp only [hts]; exact h

lemma loop_guard {Z : Type} (c : C08.Ctx Z) (guard : Z → Bool) (md fuel : Nat) (st : C08.Loop Z)
    (h : guard st.cur = true) : guard (C08.loop c guard md fuel st).cur = true := by
  induction fuel generalizing st with
  | zero => exact h
  | succ k ih =>
    simp only [C08.loop]
    split
    · exact ih _ (loopBody_guard c guard st h)
    · exact h

/-- the point after a transition passes the finiteness guard if the start does -/
lemma nutsStep_guard {Z : Type} (c : C08.Ctx Z) (guard : Z → Bool) (md : Nat) (z0 : Z) (us : List Rat)
    (h : guard z0 = true) : guard (C08.nutsStep c guard md z0 us).cur = true :=
  loop_guard c guard md _ _ h
/-- the doubling loop `NUTS.step` runs from decoded attribute values, spelled out as the
    `C08.nutsStep` call of `Driver/C08.lean` -/
def nutsLoop (cfg : NutsCfg) (eps : Rat) (md : Nat) (x g : Vec) (l0 : Rat) (ds : List Rat) : Rat × C08.Loop C08.PS :=
  let m := popN x.length ds
  let ex := C08.popU m.2
  let ham0 := l0 - (1/2) * C08.dotQ m.1 m.1
  (ham0, C08.nutsStep (cfg.ctx eps (ham0 - ex.1) ham0) (fun z => z.logd.isFinite) md ⟨x, m.1, .fin l0, g⟩ ex.2)

lemma nutsRun_enc (cfg : NutsCfg) (eps : Rat) (md : Nat) (x g : Vec) (l0 : Rat) (ds : List Rat) :
    nutsRun cfg (encQ eps) (.int md) (encVec x) (encVec g) l0 ds = nutsLoop cfg eps md x g l0 ds := by
  simp [nutsRun, nutsLoop, getInt]

lemma nuts_step_sim (cfg : NutsCfg) (o : Obj) (eps : Rat) (eb : Val) (md : Nat) (x g : Vec) (l0 : Rat)
    (he : o.get "_epsilon" = encQ eps) (heb : o.get "_epsilon_bar" = eb)
    (hmd : o.get "_max_depth" = .int md) (hx : o.get "current_point" = encVec x)
    (hg : o.get "current_target_grad" = encVec g) (hl : o.get "current_target_logd" = encR (.fin l0))
    (ds : List Rat) :
    ((nutsStepSpec cfg).step o ds).2 = ((nutsLoop cfg eps md x g l0 ds).2.acc, (nutsLoop cfg eps md x g l0 ds).2.us) ∧
    ((nutsStepSpec cfg).step o ds).1.get "current_point" = encVec (nutsLoop cfg eps md x g l0 ds).2.cur.x ∧
    ((nutsStepSpec cfg).step o ds).1.get "current_target_grad" = encVec (nutsLoop cfg eps md x g l0 ds).2.cur.grad ∧
    ((nutsStepSpec cfg).step o ds).1.get "current_target_logd" = encR (nutsLoop cfg eps md x g l0 ds).2.cur.logd ∧
    ((nutsStepSpec cfg).step o ds).1.get "_epsilon" = eb ∧
    ((nutsStepSpec cfg).step o ds).1.get "_epsilon_bar" = eb ∧
    ((nutsStepSpec cfg).step o ds).1.get "_num_tree_node" = .int (nutsLoop cfg eps md x g l0 ds).2.nodes ∧
    ((nutsStepSpec cfg).step o ds).1.get "_current_alpha_ratio" =
      encR (cfg.alpha (nutsLoop cfg eps md x g l0 ds).1 (nutsLoop cfg eps md x g l0 ds).2.last) := by
  simp only [StepSpec.step, nutsStepSpec, nutsReads, nutsWrites, List.map, he, heb, hmd, hx, hg, hl, nutsKern,
    decR_encR, nutsRun_enc]
  generalize hL : nutsLoop cfg eps md x g l0 ds = R
  by_cases h : R.2.acc = true
  · simp [h, collect, applyWrites, get_set, heb]
  · have h' : R.2.acc = false := by simpa using h
    have hcur : R.2.cur = ⟨x, (popN x.length ds).1, .fin l0, g⟩ := by
      rw [← hL] at h' ⊢
      exact nutsStep_cur_of_not_acc _ _ _ _ _ h'
    simp [h', hcur, collect, applyWrites, get_set, heb, hx, hg, hl]

/-! #### NUTS: `_pre_sample`, `tune`, warm-up -/

/-- the sampling-phase invariant of NUTS: `_epsilon_bar` has been set -/
def nutsInv (o : Obj) : Prop := o.get "_epsilon_bar" ≠ .unset

lemma nuts_inv_step (cfg : NutsCfg) (o : Obj) (ds : List Rat) (h : nutsInv o) :
    nutsInv ((nutsStepSpec cfg).step o ds).1 := by
  unfold nutsInv
  rw [(nutsStepSpec cfg).step_frame o ds "_epsilon_bar" (by show "_epsilon_bar" ∉ nutsWrites; decide)]
  exact h

lemma nuts_preSample_fix (o : Obj) (h : nutsInv o) : nutsPreSample o = o := by
  unfold nutsPreSample
  rw [if_neg h]

lemma nuts_inv_agree (o o' : Obj) (h : AgreeOn Gen.cls_NUTS.stateKeys o o') (hi : nutsInv o) : nutsInv o' := by
  unfold nutsInv at *
  rw [← h "_epsilon_bar" (by decide)]
  exact hi

lemma nuts_preSample_inv (o : Obj) (h : o.get "_epsilon" ≠ .unset ∨ o.get "_epsilon_bar" ≠ .unset) :
    nutsInv (nutsPreSample o) := by
  unfold nutsInv nutsPreSample
  by_cases hb : o.get "_epsilon_bar" = .unset
  · rw [if_pos hb, get_set]
    simp only [if_true]
    rcases h with h | h
    · exact h
    · exact absurd hb h
  · rw [if_neg hb]; exact hb

lemma nutsInit_epsilon (cfg : NutsCfg) (o : Obj) : (nutsInit cfg o).get "_epsilon" ≠ .unset := by
  simp [nutsInit, get_set, encQ, encVec]

lemma nutsTune_congr (cfg : NutsCfg) (o o' : Obj) (acc acc' : List Bool) (sk cnt : Nat)
    (h : AgreeOn nutsTuneReads o o') (k : String) (hk : o.get k = o'.get k) :
    (nutsTune cfg o acc sk cnt).get k = (nutsTune cfg o' acc' sk cnt).get k := by
  simp only [nutsTune, ← reads_congr nutsTuneReads o o' h]
  exact get_applyWrites_congr _ o o' k (Or.inl hk)

/-- the keys on which two NUTS objects must agree to warm up identically: the state keys plus
    `_mu` (assigned once by `_initialize`, from the initial step size) and `_opt_acc_rate`
    (constructor) — **not** `_current_alpha_ratio` -/
def nutsWarmKeys : List String := "_mu" :: "_opt_acc_rate" :: Gen.cls_NUTS.stateKeys

lemma nutsPreWarmup_congr (o o' : Obj) (h : AgreeOn nutsWarmKeys o o') :
    AgreeOn nutsWarmKeys (nutsPreWarmup o) (nutsPreWarmup o') := by
  have hb := h "_epsilon_bar" (by decide)
  unfold nutsPreWarmup
  rw [← hb]
  by_cases hu : o.get "_epsilon_bar" = .unset
  · simp only [hu, if_true]
    intro k hk
    simp only [get_set]
    split
    · rfl
    · exact h k hk
  · simp only [hu, if_false]; exact h

lemma nuts_step_warm (cfg : NutsCfg) (o o' : Obj) (ds : List Rat) (h : AgreeOn nutsWarmKeys o o') :
    ((nutsStepSpec cfg).step o ds).2 = ((nutsStepSpec cfg).step o' ds).2 ∧
      AgreeOn ("_current_alpha_ratio" :: nutsWarmKeys) ((nutsStepSpec cfg).step o ds).1 ((nutsStepSpec cfg).step o' ds).1 := by
  have hr : AgreeOn (nutsStepSpec cfg).reads o o' := h.mono (by show ∀ k, k ∈ nutsReads → k ∈ nutsWarmKeys; decide)
  obtain ⟨h1, h2⟩ := (nutsStepSpec cfg).step_dep o o' ds hr
  refine ⟨h1, ?_⟩
  intro k hk
  rcases List.mem_cons.mp hk with rfl | hk
  · apply h2
    right
    simp only [nutsStepSpec, nutsReads, nutsWrites, List.map]
    obtain ⟨a, n, p, q, r, hsh⟩ := nutsKern_shape cfg (o.get "_epsilon") (o.get "_epsilon_bar") (o.get "_max_depth")
      (o.get "current_point") (o.get "current_target_grad") (o.get "current_target_logd") ds
    rw [hsh]
    exact ⟨a, by simp [collect]⟩
  · exact h2 k (Or.inl (h k hk))

/-- one iteration of the warm-up loop (step, `tune` at tuning intervals, store) on two NUTS
    objects agreeing on `nutsWarmKeys` -/
lemma nuts_warmStep_congr (cfg : NutsCfg) (ti idx : Nat) (a b : Run Rat Bool)
    (h : AgreeOn nutsWarmKeys a.obj b.obj) (hs : a.stream = b.stream) :
    AgreeOn nutsWarmKeys (warmStep (nutsSpec cfg) ti idx a).obj (warmStep (nutsSpec cfg) ti idx b).obj ∧
    (warmStep (nutsSpec cfg) ti idx a).stream = (warmStep (nutsSpec cfg) ti idx b).stream ∧
    ∃ pt ac, (warmStep (nutsSpec cfg) ti idx a).samples = a.samples ++ [pt] ∧
      (warmStep (nutsSpec cfg) ti idx b).samples = b.samples ++ [pt] ∧
      (warmStep (nutsSpec cfg) ti idx a).acc = a.acc ++ [ac] ∧
      (warmStep (nutsSpec cfg) ti idx b).acc = b.acc ++ [ac] := by
  obtain ⟨h1, h2⟩ := nuts_step_warm cfg a.obj b.obj b.stream h
  have hobj : AgreeOn nutsWarmKeys (warmStep (nutsSpec cfg) ti idx a).obj (warmStep (nutsSpec cfg) ti idx b).obj := by
    simp only [warmStep, nutsSpec, StepSpec.toSpec, hs]
    by_cases ht : (idx + 1) % ti = 0
    · simp only [ht, if_true]
      intro k hk
      exact nutsTune_congr cfg _ _ _ _ _ _ (h2.mono (by decide)) k (h2 k (List.mem_cons_of_mem _ hk))
    · simp only [ht, if_false]
      exact h2.mono (fun k hk => List.mem_cons_of_mem _ hk)
  refine ⟨hobj, ?_, point (warmStep (nutsSpec cfg) ti idx a).obj, ((nutsStepSpec cfg).step a.obj a.stream).2.1, ?_, ?_, ?_, ?_⟩
  · simp only [warmStep, nutsSpec, StepSpec.toSpec, hs]; rw [h1]
  · simp [warmStep]
  · have hp : point (warmStep (nutsSpec cfg) ti idx a).obj = point (warmStep (nutsSpec cfg) ti idx b).obj :=
      hobj "current_point" (by decide)
    rw [hp]; simp [warmStep]
  · simp [warmStep, nutsSpec, StepSpec.toSpec]
  · simp only [warmStep, nutsSpec, StepSpec.toSpec, hs]; rw [h1]

lemma nuts_warmLoop_congr (cfg : NutsCfg) (ti : Nat) (k : Nat) : ∀ (idx : Nat) (a b : Run Rat Bool),
    AgreeOn nutsWarmKeys a.obj b.obj → a.stream = b.stream →
    AgreeOn nutsWarmKeys (warmLoop (nutsSpec cfg) ti k idx a).obj (warmLoop (nutsSpec cfg) ti k idx b).obj ∧
    (warmLoop (nutsSpec cfg) ti k idx a).stream = (warmLoop (nutsSpec cfg) ti k idx b).stream ∧
    ∃ tail : List (Val × Bool), tail.length = k ∧
      (warmLoop (nutsSpec cfg) ti k idx a).samples = a.samples ++ tail.map Prod.fst ∧
      (warmLoop (nutsSpec cfg) ti k idx b).samples = b.samples ++ tail.map Prod.fst ∧
      (warmLoop (nutsSpec cfg) ti k idx a).acc = a.acc ++ tail.map Prod.snd ∧
      (warmLoop (nutsSpec cfg) ti k idx b).acc = b.acc ++ tail.map Prod.snd := by
  induction k with
  | zero => intro idx a b h hs; exact ⟨h, hs, [], rfl, by simp [warmLoop]⟩
  | succ j ih =>
    intro idx a b h hs
    obtain ⟨g1, g2, pt, ac, e1, e2, e3, e4⟩ := nuts_warmStep_congr cfg ti idx a b h hs
    obtain ⟨i1, i2, tail, hl, f1, f2, f3, f4⟩ := ih (idx + 1) _ _ g1 g2
    simp only [warmLoop]
    refine ⟨i1, i2, (pt, ac) :: tail, by simp [hl], ?_, ?_, ?_, ?_⟩
    · rw [f1, e1]; simp
    · rw [f2, e2]; simp
    · rw [f3, e3]; simp
    · rw [f4, e4]; simp

/-! ## 7. concrete instances used by the `example`s and the counterexamples -/

/-- standard normal log-density (up to a constant), exact -/
def exLogd (v : Vec) : C02.XVal := .fin (-(1/2) * C02.sqNorm v)
def exGrad (v : Vec) : Vec := v.map (fun a => -a)
/-- a stand-in for the float square root that is exact on the values used (`1/4 ↦ 1/2`, `3/4 ↦ 7/8`) -/
def exSqrt (q : Rat) : Rat := if q = 1/4 then 1/2 else if q = 3/4 then 7/8 else q
def exCtor : Obj := (Obj.empty.set "initial_point" (encVec [0, 1])).set "initial_scale" (encVec [1/2])
def exCtorMala : Obj := (Obj.empty.set "initial_point" (encVec [0, 1])).set "initial_scale" (encVec [1/4])

def exTarget : C08.Target := { P := [[1]], b := [0], wall := none }
def exCfg : NutsCfg :=
  { ctx := C08.psCtx exTarget, alpha := fun _ _ => .fin (1/2), logd := exTarget.logd, grad := exTarget.grad,
    eps0 := 1/4, expf := fun q => q, logf := fun q => q, sqrtk := fun k => (k : Rat), powk := fun _ => 1/2 }
/-- `NUTS(target, initial_point=[1], max_depth=1, step_size=0.5, opt_acc_rate=0.6)` -/
def exNutsCtor : Obj :=
  (((Obj.empty.set "initial_point" (encVec [1])).set "_max_depth" (.int 1)).set "_step_size" (encQ (1/2))).set
    "_opt_acc_rate" (encQ (3/5))
def exStream : List Rat := [1, 5, 1/4, 0, 0, 1, 5, 3/4, 0, 0, 0, 0, 0]

end CuqiVerif.C14
