import CuqiVerif.Model.C14
import CuqiVerif.Model.C02
import CuqiVerif.Model.C08
import CuqiVerif.Proofs.C14
import CuqiVerif.Generated.C14Tables
import Mathlib.Tactic.Lemma

/-!
# C14 — the library samplers' transition kernels as instances of the C14 sampler model

Definitions (encodings of rational data into `Val`, the record-backed step `StepSpec`, the six
instances MH / PCN / MALA / ULA / CWMH / NUTS built from the executable step functions of
`Model/C02.lean` and `Model/C08.lean`) and helper lemmas.  The audited theorems are in
`Props/C14_kernels.lean`.
-/
namespace CuqiVerif.C14

open CuqiVerif

/-! ## 1. attribute values: exact rationals, IEEE values -/

/-- a vector of rationals as `Val.ints [num₀, den₀, num₁, den₁, …]` -/
def encVecL : List Rat → List Int
  | [] => []
  | q :: rest => q.num :: (q.den : Int) :: encVecL rest

def decVecL : List Int → List Rat
  | n :: d :: rest => mkRat n d.toNat :: decVecL rest
  | _ => []

def encVec (v : List Rat) : Val := .ints (encVecL v)

def decVec : Val → List Rat
  | .ints l => decVecL l
  | _ => []

/-- a scalar attribute (`scale`, `_epsilon`, …) is held as a one-entry vector, read with `headD 0`
    exactly like `C02.scalar` -/
def encQ (q : Rat) : Val := encVec [q]
def decQ (v : Val) : Rat := (decVec v).headD 0

lemma decVecL_encVecL (v : List Rat) : decVecL (encVecL v) = v := by
  induction v with
  | nil => rfl
  | cons q rest ih => simp [encVecL, decVecL, ih, Rat.mkRat_self]

@[simp] lemma decVec_encVec (v : List Rat) : decVec (encVec v) = v := decVecL_encVecL v

@[simp] lemma decQ_encQ (q : Rat) : decQ (encQ q) = q := by simp [decQ, encQ]

lemma encVec_ne_unset (v : List Rat) : encVec v ≠ Val.unset := by simp [encVec]

/-- the IEEE values of `Model/C02.lean` (`current_target_logd`, `current_likelihood_logd`) -/
def encX : C02.XVal → Val
  | .nan => .ints [0]
  | .neginf => .ints [1]
  | .posinf => .ints [2]
  | .fin q => .ints [3, q.num, (q.den : Int)]

def decX : Val → C02.XVal
  | .ints [t] => if t = 1 then .neginf else if t = 2 then .posinf else .nan
  | .ints [t, n, d] => if t = 3 then .fin (mkRat n d.toNat) else .nan
  | _ => .nan

@[simp] lemma decX_encX (x : C02.XVal) : decX (encX x) = x := by
  cases x <;> simp [encX, decX, Rat.mkRat_self]

/-- the IEEE values of `Model/C08.lean` (NUTS' `current_target_logd`, `_current_alpha_ratio`) -/
def encR : C08.XR → Val
  | .nan => .ints [0]
  | .ninf => .ints [1]
  | .pinf => .ints [2]
  | .fin q => .ints [3, q.num, (q.den : Int)]

def decR : Val → C08.XR
  | .ints [t] => if t = 1 then .ninf else if t = 2 then .pinf else .nan
  | .ints [t, n, d] => if t = 3 then .fin (mkRat n d.toNat) else .nan
  | _ => .nan

@[simp] lemma decR_encR (x : C08.XR) : decR (encR x) = x := by
  cases x <;> simp [encR, decR, Rat.mkRat_self]

/-! ## 2. record-backed steps -/

/-- A sampler class' `step`, given as: the state keys of the class, the attributes the method
    reads before assigning them, the attributes it assigns, and the transition as a function of
    the *values* of the read attributes and the draw stream, returning per written attribute
    either a new value or `none` (= this call does not assign it, e.g. on rejection), the
    acceptance record and the rest of the stream.  Everything that is not an attribute value —
    target density, gradient, float square root — is a Lean-level parameter of the instance
    (the *configuration*: `_target`, `_proposal`, numpy). -/
structure StepSpec (D A : Type) where
  stateKeys : List String
  reads : List String
  writes : List String
  kern : List Val → List D → List (Option Val) × A × List D

/-- pair the write keys with the values produced (dropping the `none`s) -/
def collect : List String → List (Option Val) → List (String × Val)
  | k :: ks, some v :: vs => (k, v) :: collect ks vs
  | _ :: ks, none :: vs => collect ks vs
  | _, _ => []

/-- `setattr` for each pair, in order -/
def applyWrites (o : Obj) : List (String × Val) → Obj
  | [] => o
  | (k, v) :: rest => applyWrites (o.set k v) rest

/-- the object-level `step` of a `StepSpec` (this is the `step` field of a `Spec`) -/
def StepSpec.step {D A : Type} (s : StepSpec D A) (o : Obj) (ds : List D) : Obj × A × List D :=
  let r := s.kern (s.reads.map o.get) ds
  (applyWrites o (collect s.writes r.1), r.2.1, r.2.2)

/-- A sampler class of `Model/C14.lean` whose `step` is a `StepSpec`. -/
def StepSpec.toSpec {D A : Type} (s : StepSpec D A) (init : Obj → Obj) (initAcc : Obj → List A)
    (tune : Obj → List A → Nat → Nat → Obj) (preSample preWarmup : Obj → Obj) : Spec D A :=
  { stateKeys := s.stateKeys, init := init, initAcc := initAcc, step := s.step, tune := tune,
    preSample := preSample, preWarmup := preWarmup }

lemma collect_keys (ks : List String) (vs : List (Option Val)) (k : String) (v : Val)
    (h : (k, v) ∈ collect ks vs) : k ∈ ks := by
  induction ks generalizing vs with
  | nil => cases vs <;> simp [collect] at h
  | cons a as ih =>
    cases vs with
    | nil => simp [collect] at h
    | cons w ws =>
      cases w with
      | none => simp only [collect] at h; exact List.mem_cons_of_mem _ (ih ws h)
      | some x =>
        simp only [collect, List.mem_cons, Prod.mk.injEq] at h
        rcases h with h | h
        · simp [h.1]
        · exact List.mem_cons_of_mem _ (ih ws h)

lemma get_applyWrites_of_not_mem (ws : List (String × Val)) (o : Obj) (k : String)
    (h : ∀ v, (k, v) ∉ ws) : (applyWrites o ws).get k = o.get k := by
  induction ws generalizing o with
  | nil => rfl
  | cons a rest ih =>
    obtain ⟨k', v'⟩ := a
    simp only [applyWrites]
    rw [ih _ (fun v hv => h v (List.mem_cons_of_mem _ hv)), get_set]
    have : k ≠ k' := fun e => h v' (by simp [e])
    simp [this]

/-- applying the same writes to two objects preserves agreement on every key, and creates
    agreement on the written ones -/
lemma get_applyWrites_congr (ws : List (String × Val)) (o o' : Obj) (k : String)
    (h : o.get k = o'.get k ∨ ∃ v, (k, v) ∈ ws) :
    (applyWrites o ws).get k = (applyWrites o' ws).get k := by
  induction ws generalizing o o' with
  | nil =>
    rcases h with h | ⟨v, hv⟩
    · exact h
    · simp at hv
  | cons a rest ih =>
    obtain ⟨k', v'⟩ := a
    simp only [applyWrites]
    apply ih
    by_cases hk : k = k'
    · left; simp [get_set, hk]
    · rcases h with h | ⟨v, hv⟩
      · left; simp [get_set, hk, h]
      · right
        refine ⟨v, ?_⟩
        simp only [List.mem_cons, Prod.mk.injEq] at hv
        rcases hv with hv | hv
        · exact absurd hv.1 hk
        · exact hv

lemma reads_congr (ks : List String) (o o' : Obj) (h : AgreeOn ks o o') :
    ks.map o.get = ks.map o'.get := by
  apply List.map_congr_left
  intro k hk
  exact h k hk

/-- **dependence**: objects agreeing on `reads` make the same transition, draw the same numbers,
    and agree afterwards on every key on which they agreed before *and* on every key written. -/
lemma StepSpec.step_dep {D A : Type} (s : StepSpec D A) (o o' : Obj) (ds : List D)
    (h : AgreeOn s.reads o o') :
    (s.step o ds).2 = (s.step o' ds).2 ∧
    ∀ k, (o.get k = o'.get k ∨ ∃ v, (k, v) ∈ collect s.writes (s.kern (s.reads.map o.get) ds).1) →
      (s.step o ds).1.get k = (s.step o' ds).1.get k := by
  have e := reads_congr s.reads o o' h
  constructor
  · simp only [StepSpec.step, e]
  · intro k hk
    simp only [StepSpec.step, ← e]
    exact get_applyWrites_congr _ o o' k hk

/-- **frame**: an attribute that is not in `writes` keeps its value -/
lemma StepSpec.step_frame {D A : Type} (s : StepSpec D A) (o : Obj) (ds : List D) (k : String)
    (hk : k ∉ s.writes) : (s.step o ds).1.get k = o.get k := by
  simp only [StepSpec.step]
  apply get_applyWrites_of_not_mem
  intro v hv
  exact hk (collect_keys _ _ _ _ hv)

/-- hypothesis `hdep` of `resume_bisim` for a `StepSpec`, with `R = reads`, `W = writes`: needs
    that every written attribute is either also read (so that when a call leaves it alone —
    rejection — the old values agree) or assigned by every call. -/
lemma StepSpec.hdep {D A : Type} (s : StepSpec D A)
    (hW : ∀ (o : Obj) (ds : List D) k, k ∈ s.writes →
      k ∈ s.reads ∨ ∃ v, (k, v) ∈ collect s.writes (s.kern (s.reads.map o.get) ds).1)
    (o o' : Obj) (ds : List D) (h : AgreeOn s.reads o o') :
    (s.step o ds).2 = (s.step o' ds).2 ∧ AgreeOn s.writes (s.step o ds).1 (s.step o' ds).1 := by
  obtain ⟨h1, h2⟩ := s.step_dep o o' ds h
  refine ⟨h1, ?_⟩
  intro k hk
  rcases hW o ds k hk with hr | hw
  · exact h2 k (Or.inl (h k hr))
  · exact h2 k (Or.inr hw)

/-- **congruence on any key set containing the reads** (in particular the state keys) -/
lemma StepSpec.step_congr {D A : Type} (s : StepSpec D A) (K : List String)
    (hK : ∀ k, k ∈ s.reads → k ∈ K) (o o' : Obj) (ds : List D) (h : AgreeOn K o o') :
    (s.step o ds).2 = (s.step o' ds).2 ∧ AgreeOn K (s.step o ds).1 (s.step o' ds).1 := by
  obtain ⟨h1, h2⟩ := s.step_dep o o' ds (h.mono hK)
  exact ⟨h1, fun k hk => h2 k (Or.inl (h k hk))⟩

/-! ## 3. the instances

Attribute names are the canonical ones of `Generated/C14Tables.lean`; `stateKeys` of every
instance **is** the generated list (`Gen.cls_X.stateKeys`), so the theorems below are about the
`_STATE_KEYS` of the current source.  -/

abbrev Vec := C02.Vec

/-! ### MH (`cuqi/experimental/mcmc/_mh.py`, `MH.step`) — `C02.mhStep`

draw = `(xi, log u)`: the proposal sample and `np.log(np.random.rand())`. -/

def mhReads : List String := ["current_point", "current_target_logd", "scale"]
def mhWrites : List String := ["current_point", "current_target_logd"]

def mhKern (logd : Vec → C02.XVal) :
    List Val → List (Vec × C02.XVal) → List (Option Val) × Bool × List (Vec × C02.XVal)
  | [x, l, s], (xi, ell) :: rest =>
    let r := C02.mhStep .expMH logd ⟨decVec x, decX l, [], decVec s⟩ xi ell
    if r.2 then ([some (encVec r.1.x), some (encX r.1.logd)], true, rest)
    else ([none, none], false, rest)
  | _, ds => ([], false, ds)

def mhStepSpec (logd : Vec → C02.XVal) : StepSpec (Vec × C02.XVal) Bool :=
  { stateKeys := Gen.cls_MH.stateKeys, reads := mhReads, writes := mhWrites, kern := mhKern logd }

/-- `ProposalBasedSampler.initialize` + `MH._initialize` -/
def mhInit (logd : Vec → C02.XVal) (o : Obj) : Obj :=
  (((o.set "current_point" (o.get "initial_point")).set "scale" (o.get "initial_scale")).set
    "current_target_logd" (encX (logd (decVec (o.get "initial_point"))))).set "_scale_temp" (o.get "initial_scale")

/-- the sampler class; `tune` is arbitrary (not modelled: the sampling phase never calls it) -/
def mhSpec (logd : Vec → C02.XVal) (tune : Obj → List Bool → Nat → Nat → Obj) : Spec (Vec × C02.XVal) Bool :=
  (mhStepSpec logd).toSpec (mhInit logd) (fun _ => [true]) tune id id

/-! ### PCN (`_pcn.py`, `PCN.step`) — `C02.pcnStep`; `sqrtf` = the float `np.sqrt` -/

def pcnReads : List String := ["current_point", "current_likelihood_logd", "scale"]
def pcnWrites : List String := ["current_point", "current_likelihood_logd"]

def pcnKern (loglik : Vec → C02.XVal) (sqrtf : Rat → Rat) :
    List Val → List (Vec × C02.XVal) → List (Option Val) × Bool × List (Vec × C02.XVal)
  | [x, l, s], (xi, ell) :: rest =>
    let st : C02.St := ⟨decVec x, decX l, [], decVec s⟩
    let r := C02.pcnStep .expPCN loglik (sqrtf (1 - C02.scalar st * C02.scalar st)) st xi ell
    if r.2 then ([some (encVec r.1.x), some (encX r.1.logd)], true, rest)
    else ([none, none], false, rest)
  | _, ds => ([], false, ds)

def pcnStepSpec (loglik : Vec → C02.XVal) (sqrtf : Rat → Rat) : StepSpec (Vec × C02.XVal) Bool :=
  { stateKeys := Gen.cls_PCN.stateKeys, reads := pcnReads, writes := pcnWrites, kern := pcnKern loglik sqrtf }

/-- `PCN._initialize` (`lambd = scale`; `star_acc`, `_dim` are not state) -/
def pcnInit (loglik : Vec → C02.XVal) (o : Obj) : Obj :=
  (((o.set "current_point" (o.get "initial_point")).set "scale" (o.get "initial_scale")).set
    "current_likelihood_logd" (encX (loglik (decVec (o.get "initial_point"))))).set "lambd" (o.get "initial_scale")

def pcnSpec (loglik : Vec → C02.XVal) (sqrtf : Rat → Rat) (tune : Obj → List Bool → Nat → Nat → Obj) :
    Spec (Vec × C02.XVal) Bool :=
  (pcnStepSpec loglik sqrtf).toSpec (pcnInit loglik) (fun _ => [true]) tune id id

/-! ### MALA (`_langevin_algorithm.py`, `MALA.step` + `_accept_or_reject`) — `C02.malaStep`

draw = `(z, log u)`: the standard normals behind `Normal(0, sqrt(scale)).sample()` and the uniform. -/

def malaReads : List String := ["current_point", "current_target_logd", "current_target_grad", "scale"]
def malaWrites : List String := ["current_point", "current_target_logd", "current_target_grad"]

def malaKern (logd : Vec → C02.XVal) (gradf : Vec → Vec) (sqrtf : Rat → Rat) :
    List Val → List (Vec × C02.XVal) → List (Option Val) × Bool × List (Vec × C02.XVal)
  | [x, l, g, s], (z, ell) :: rest =>
    let st : C02.St := ⟨decVec x, decX l, decVec g, decVec s⟩
    let r := C02.malaStep .expMALA logd gradf (sqrtf (C02.scalar st)) st z ell
    if r.2 then ([some (encVec r.1.x), some (encX r.1.logd), some (encVec r.1.grad)], true, rest)
    else ([none, none, none], false, rest)
  | _, ds => ([], false, ds)

def malaStepSpec (logd : Vec → C02.XVal) (gradf : Vec → Vec) (sqrtf : Rat → Rat) : StepSpec (Vec × C02.XVal) Bool :=
  { stateKeys := Gen.cls_MALA.stateKeys, reads := malaReads, writes := malaWrites, kern := malaKern logd gradf sqrtf }

/-- `ULA._initialize` (shared by MALA) -/
def ulaInit (logd : Vec → C02.XVal) (gradf : Vec → Vec) (o : Obj) : Obj :=
  (((o.set "current_point" (o.get "initial_point")).set "scale" (o.get "initial_scale")).set
    "current_target_logd" (encX (logd (decVec (o.get "initial_point"))))).set
    "current_target_grad" (encVec (gradf (decVec (o.get "initial_point"))))

def malaSpec (logd : Vec → C02.XVal) (gradf : Vec → Vec) (sqrtf : Rat → Rat) : Spec (Vec × C02.XVal) Bool :=
  (malaStepSpec logd gradf sqrtf).toSpec (ulaInit logd gradf) (fun _ => [true]) (fun o _ _ _ => o) id id

/-! ### ULA (`ULA.step` + `ULA._accept_or_reject`): the MALA proposal, accepted unless the value at
the proposal is NaN/±inf.  Not in `Model/C02.lean`; defined here from `C02.malaPropose` and shown to
be `C02.malaStep` at `log u = -inf` (`ulaStep_eq_malaStep`). draw = `z`. -/

def ulaStep (logd : Vec → C02.XVal) (gradf : Vec → Vec) (sigma : Rat) (st : C02.St) (z : Vec) : C02.St × Bool :=
  let xs := C02.malaPropose st sigma z
  let t := logd xs
  if !t.isNan && !t.isInf then ({ st with x := xs, logd := t, grad := gradf xs }, true) else (st, false)

def ulaReads : List String := ["current_point", "current_target_grad", "scale"]
def ulaWrites : List String := ["current_point", "current_target_logd", "current_target_grad"]

def ulaKern (logd : Vec → C02.XVal) (gradf : Vec → Vec) (sqrtf : Rat → Rat) :
    List Val → List Vec → List (Option Val) × Bool × List Vec
  | [x, g, s], z :: rest =>
    let st : C02.St := ⟨decVec x, .nan, decVec g, decVec s⟩
    let r := ulaStep logd gradf (sqrtf (C02.scalar st)) st z
    if r.2 then ([some (encVec r.1.x), some (encX r.1.logd), some (encVec r.1.grad)], true, rest)
    else ([none, none, none], false, rest)
  | _, ds => ([], false, ds)

def ulaStepSpec (logd : Vec → C02.XVal) (gradf : Vec → Vec) (sqrtf : Rat → Rat) : StepSpec Vec Bool :=
  { stateKeys := Gen.cls_ULA.stateKeys, reads := ulaReads, writes := ulaWrites, kern := ulaKern logd gradf sqrtf }

def ulaSpec (logd : Vec → C02.XVal) (gradf : Vec → Vec) (sqrtf : Rat → Rat) : Spec Vec Bool :=
  (ulaStepSpec logd gradf sqrtf).toSpec (ulaInit logd gradf) (fun _ => [true]) (fun o _ _ _ => o) id id

/-! ### CWMH (`_cwmh.py`, `CWMH.step`) — `C02.cwStep`

draw = `(z, [log u₀, log u₁, …])`; acceptance record = one flag per component; both written
attributes are assigned by every call (`self.current_target_logd = target_eval_t;
self.current_point = x_t`). -/

def cwReads : List String := ["_scale", "current_point", "current_target_logd"]
def cwWrites : List String := ["current_point", "current_target_logd"]

def cwKern (logd : Vec → C02.XVal) :
    List Val → List (Vec × List C02.XVal) → List (Option Val) × List Bool × List (Vec × List C02.XVal)
  | [s, x, l], (z, ells) :: rest =>
    let r := C02.cwStep .expCWMH (fun _ p => logd p) ⟨decVec x, decX l, [], decVec s⟩ z ells
    ([some (encVec r.1.x), some (encX r.1.logd)], r.2.1, rest)
  | _, ds => ([], [], ds)

def cwStepSpec (logd : Vec → C02.XVal) : StepSpec (Vec × List C02.XVal) (List Bool) :=
  { stateKeys := Gen.cls_CWMH.stateKeys, reads := cwReads, writes := cwWrites, kern := cwKern logd }

/-- `ProposalBasedSampler.initialize` + `CWMH._initialize` (scalar scale broadcast to `dim`) -/
def cwInit (logd : Vec → C02.XVal) (o : Obj) : Obj :=
  let x := decVec (o.get "initial_point")
  let s := decVec (o.get "initial_scale")
  let sv := encVec (if s.length = 1 then List.replicate x.length (s.headD 0) else s)
  (((o.set "current_point" (o.get "initial_point")).set "_scale" sv).set
    "current_target_logd" (encX (logd x))).set "_scale_temp" sv

def cwSpec (logd : Vec → C02.XVal) (tune : Obj → List (List Bool) → Nat → Nat → Obj) :
    Spec (Vec × List C02.XVal) (List Bool) :=
  (cwStepSpec logd).toSpec (cwInit logd) (fun o => [List.replicate (decVec (o.get "initial_point")).length true]) tune id id

/-! ### NUTS (`_hmc.py`, `NUTS.step`, `tune`, `_pre_sample`, `_pre_warmup`, `_initialize`) — `C08.nutsStep`

Stream of rationals consumed in the order of the code: `dim` standard normals (momentum), one
`Exp(1)` draw, then the uniforms of the doubling loop (data-dependent number; `C08.popU`
convention for an exhausted stream).  Start values exactly as `Driver/C08.lean` builds them:
`Ham = logd_k - ½ r·r`, `log_u = Ham - e`.  The C08 model needs a finite `logd_k`
(driver: `err-nonfinite-start`); for a non-finite one the instance makes no move and assigns
only what the code assigns unconditionally. -/

structure NutsCfg where
  /-- `eps logu ham0 ↦` leapfrog / Hamiltonian / U-turn test (driver: `C08.psCtx target`) -/
  ctx : Rat → Rat → Rat → C08.Ctx C08.PS
  /-- `alpha / n_alpha` of the last doubling as a function of `Ham` and its leaves (involves
      `np.exp`; `Driver/C08` exposes the exact `ΔH` list, the harness computes the statistic) -/
  alpha : Rat → List C08.PS → C08.XR
  /-- `target.logd`, `target.gradient` (for `_initialize`) -/
  logd : Vec → C08.XR
  grad : Vec → Vec
  /-- result of `_FindGoodEpsilon` when `step_size is None` (draws a momentum: random) -/
  eps0 : Rat
  /-- float functions used by `tune` and `_initialize`: `exp`, `log`, `sqrt(k)`, `k**(-0.75)` -/
  expf : Rat → Rat
  logf : Rat → Rat
  sqrtk : Nat → Rat
  powk : Nat → Rat

def popN : Nat → List Rat → List Rat × List Rat
  | 0, ds => ([], ds)
  | n + 1, ds =>
    let a := C08.popU ds
    let b := popN n a.2
    (a.1 :: b.1, b.2)

def nutsReads : List String :=
  ["_epsilon", "_epsilon_bar", "_max_depth", "current_point", "current_target_grad", "current_target_logd"]
def nutsWrites : List String :=
  ["_current_alpha_ratio", "_epsilon", "_num_tree_node", "current_point", "current_target_grad", "current_target_logd"]

/-- the doubling loop of one `NUTS.step` started from the attribute values -/
def nutsRun (cfg : NutsCfg) (e md x g : Val) (l0 : Rat) (ds : List Rat) : Rat × C08.Loop C08.PS :=
  let xv := decVec x
  let m := popN xv.length ds
  let ex := C08.popU m.2
  let ham0 := l0 - (1/2) * C08.dotQ m.1 m.1
  let logu := ham0 - ex.1
  (ham0, C08.nutsStep (cfg.ctx (decQ e) logu ham0) (fun z => z.logd.isFinite) (getInt md).toNat
    ⟨xv, m.1, .fin l0, decVec g⟩ ex.2)

def nutsKern (cfg : NutsCfg) : List Val → List Rat → List (Option Val) × Bool × List Rat
  | [e, eb, md, x, g, l], ds =>
    match decR l with
    | .fin l0 =>
      let R := nutsRun cfg e md x g l0 ds
      let L := R.2
      ([some (encR (cfg.alpha R.1 L.last)),            -- self._current_alpha_ratio = alpha/n_alpha
        some eb,                                        -- self._epsilon = self._epsilon_bar
        some (.int L.nodes),                            -- self._num_tree_node
        if L.acc then some (encVec L.cur.x) else none,
        if L.acc then some (encVec L.cur.grad) else none,
        if L.acc then some (encR L.cur.logd) else none], L.acc, L.us)
    | _ => ([some (encR .nan), some eb, some (.int 0), none, none, none], false, ds)
  | _, ds => ([], false, ds)

def nutsStepSpec (cfg : NutsCfg) : StepSpec Rat Bool :=
  { stateKeys := Gen.cls_NUTS.stateKeys, reads := nutsReads, writes := nutsWrites, kern := nutsKern cfg }

/-- `Sampler.initialize` + `NUTS._initialize` (`_max_depth`, `_step_size`, `_opt_acc_rate` are
    constructor attributes and are not assigned here) -/
def nutsInit (cfg : NutsCfg) (o : Obj) : Obj :=
  let x := decVec (o.get "initial_point")
  let eps := if o.get "_step_size" = .none then cfg.eps0 else decQ (o.get "_step_size")
  ((((((((o.set "current_point" (o.get "initial_point")).set "_current_alpha_ratio" (encR .nan)).set
    "current_target_logd" (encR (cfg.logd x))).set "current_target_grad" (encVec (cfg.grad x))).set
    "_epsilon" (encQ eps)).set "_epsilon_bar" .unset).set "_mu" (encQ (cfg.logf (10 * eps)))).set
    "_H_bar" (encQ 0)).set "_num_tree_node" (.int 0)

/-- `_pre_sample`: `if self._epsilon_bar == "unset": self._epsilon_bar = self._epsilon` -/
def nutsPreSample (o : Obj) : Obj :=
  if o.get "_epsilon_bar" = .unset then o.set "_epsilon_bar" (o.get "_epsilon") else o

/-- `_pre_warmup`: `if self._epsilon_bar == "unset": self._epsilon_bar = 1` -/
def nutsPreWarmup (o : Obj) : Obj :=
  if o.get "_epsilon_bar" = .unset then o.set "_epsilon_bar" (encQ 1) else o

def nutsTuneReads : List String := ["_H_bar", "_current_alpha_ratio", "_epsilon_bar", "_mu", "_opt_acc_rate"]
def nutsTuneWrites : List String := ["_H_bar", "_epsilon", "_epsilon_bar"]

/-- dual averaging (`NUTS.tune`), `k = update_count + 1`, `gamma = 0.05`, `t_0 = 10`; a non-finite
    `_current_alpha_ratio` propagates as NaN (held as `None`) -/
def nutsTuneKern (cfg : NutsCfg) (cnt : Nat) : List Val → List (Option Val)
  | [hb, a, eb, mu, opt] =>
    match decR a with
    | .fin al =>
      let k : Nat := cnt + 1
      let eta1 : Rat := 1 / ((k : Rat) + 10)
      let hbar := (1 - eta1) * decQ hb + eta1 * (decQ opt - al)
      let eps := cfg.expf (decQ mu - (cfg.sqrtk k / (1/20)) * hbar)
      let eta := cfg.powk k
      let ebar := cfg.expf (eta * cfg.logf eps + (1 - eta) * cfg.logf (decQ eb))
      [some (encQ hbar), some (encQ eps), some (encQ ebar)]
    | _ => [some .none, some .none, some .none]
  | _ => []

def nutsTune (cfg : NutsCfg) (o : Obj) (_acc : List Bool) (_skip : Nat) (cnt : Nat) : Obj :=
  applyWrites o (collect nutsTuneWrites (nutsTuneKern cfg cnt (nutsTuneReads.map o.get)))

def nutsSpec (cfg : NutsCfg) : Spec Rat Bool :=
  (nutsStepSpec cfg).toSpec (nutsInit cfg) (fun _ => [true]) (nutsTune cfg) nutsPreSample nutsPreWarmup

/-! ## 4. loops under a congruence on the state keys -/

lemma transitions_length {D A : Type} (step : Obj → List D → Obj × A × List D) (n : Nat) (o : Obj) (ds : List D) :
    (transitions step n o ds).length = n := by
  induction n generalizing o ds with
  | zero => rfl
  | succ k ih => simp [transitions, ih]

lemma transitions_congr {D A : Type} (step : Obj → List D → Obj × A × List D) (S : List String)
    (hcong : ∀ o o' ds, AgreeOn S o o' → (step o ds).2 = (step o' ds).2 ∧ AgreeOn S (step o ds).1 (step o' ds).1)
    (hpoint : "current_point" ∈ S) (n : Nat) (a b : Obj) (ds : List D) (h : AgreeOn S a b) :
    transitions step n a ds = transitions step n b ds := by
  induction n generalizing a b ds with
  | zero => rfl
  | succ k ih =>
    obtain ⟨h2, hS⟩ := hcong a b ds h
    simp only [transitions]
    have hp : point (step a ds).1 = point (step b ds).1 := hS _ hpoint
    have hacc : (step a ds).2.1 = (step b ds).2.1 := by rw [h2]
    have hstream : (step a ds).2.2 = (step b ds).2.2 := by rw [h2]
    rw [hp, hacc, hstream, ih _ _ _ hS]

lemma sampleLoop_congr {D A : Type} (sp : Spec D A) (S : List String)
    (hcong : ∀ o o' ds, AgreeOn S o o' → (sp.step o ds).2 = (sp.step o' ds).2 ∧ AgreeOn S (sp.step o ds).1 (sp.step o' ds).1)
    (n : Nat) (a b : Run D A) (h : AgreeOn S a.obj b.obj) (hs : a.stream = b.stream) :
    AgreeOn S (sampleLoop sp n a).obj (sampleLoop sp n b).obj ∧
      (sampleLoop sp n a).stream = (sampleLoop sp n b).stream := by
  induction n generalizing a b with
  | zero => exact ⟨h, hs⟩
  | succ k ih =>
    simp only [sampleLoop]
    apply ih
    · simp only [oneStep, hs]
      exact (hcong a.obj b.obj b.stream h).2
    · simp only [oneStep, hs]
      rw [(hcong a.obj b.obj b.stream h).1]

lemma sampleLoop_stream_obj {D A : Type} (sp : Spec D A) (n : Nat) (a b : Run D A)
    (ho : a.obj = b.obj) (hs : a.stream = b.stream) :
    (sampleLoop sp n a).obj = (sampleLoop sp n b).obj ∧ (sampleLoop sp n a).stream = (sampleLoop sp n b).stream := by
  induction n generalizing a b with
  | zero => exact ⟨ho, hs⟩
  | succ k ih =>
    simp only [sampleLoop]
    apply ih <;> simp [oneStep, ho, hs]

end CuqiVerif.C14
