import CuqiVerif.Props.C20
import Mathlib.LinearAlgebra.Matrix.Rank
import Mathlib.LinearAlgebra.Dimension.Constructions
import Mathlib.Algebra.BigOperators.Fin

/-!
# C20 — helper lemmas for the rank theorems (`Props/C20_rank.lean`)

`toMatrix M` is the model matrix `M : FMat` (of `Model/C20.lean`) as a Mathlib
`Matrix (Fin M.rows) (Fin M.cols) K` (integer entries cast into the field `K`).
`ext0 v` extends a `Fin`-indexed vector by zero to the `ℕ → K` vectors the theorems of
`Props/C20.lean` are stated for; `toMatrix_mulVec_apply` says `mulVec` *is* `apply`.

The generic lemmas `ker_eq_*_of_null` turn a null-space characterisation in the style of
`Props/C20.lean` (`(∀ i < rows, apply M x i = 0) ↔ ∀ i < cols, x i = …`) into an equality of
submodules `LinearMap.ker (toMatrix M).mulVecLin = span K (Set.range gens)` with an explicit family
of generators, and `rank_add_of_ker_span` is rank–nullity for such a description.
-/
open Finset

namespace CuqiVerif.C20

variable {K : Type*} [Field K]

/-- the model matrix as a Mathlib matrix over `K` -/
def toMatrix (M : FMat) : Matrix (Fin M.rows) (Fin M.cols) K := fun i j => (M.e i j : K)

/-- the precision `gram D = DᵀD` as a Mathlib matrix over `K`, indexed by the columns of `D`
    (entrywise the same as `toMatrix (gram D)`; this form avoids the definitional unfolding
    `(gram D).rows = D.cols` in types) -/
def precMatrix (D : FMat) : Matrix (Fin D.cols) (Fin D.cols) K := fun i j => ((gram D).e i j : K)

/-- extend a `Fin`-indexed vector by zero -/
def ext0 {n : ℕ} (v : Fin n → K) : ℕ → K := fun j => if h : j < n then v ⟨j, h⟩ else 0

/-- restrict a sequence to its first `n` entries -/
def restr (n : ℕ) (g : ℕ → K) : Fin n → K := fun j => g j

lemma ext0_coe {n : ℕ} (v : Fin n → K) (j : Fin n) : ext0 v (j : ℕ) = v j := by
  simp [ext0, j.2]

lemma ext0_lt {n : ℕ} (v : Fin n → K) {j : ℕ} (h : j < n) : ext0 v j = v ⟨j, h⟩ := by
  simp [ext0, h]

lemma ext0_restr {n : ℕ} (g : ℕ → K) {j : ℕ} (h : j < n) : ext0 (restr n g) j = g j := by
  simp [ext0, restr, h]

/-- `apply` only reads the first `cols` entries -/
lemma apply_congr_lt (M : FMat) (x y : ℕ → K) (h : ∀ j, j < M.cols → x j = y j) (i : ℕ) :
    apply M x i = apply M y i :=
  Finset.sum_congr rfl fun j hj => by rw [h j (mem_range.1 hj)]

/-- **bridge:** Mathlib's `mulVec` on `toMatrix M` is the `apply` of `Props/C20.lean` -/
lemma toMatrix_mulVec_apply (M : FMat) (v : Fin M.cols → K) (i : Fin M.rows) :
    (toMatrix M).mulVec v i = apply M (ext0 v) i := by
  unfold apply Matrix.mulVec dotProduct
  rw [← Fin.sum_univ_eq_sum_range (fun j => ((M.e i j : ℤ) : K) * ext0 v j) M.cols]
  exact Finset.sum_congr rfl fun j _ => by rw [ext0_coe]; rfl

lemma mem_ker_toMatrix_iff (M : FMat) (v : Fin M.cols → K) :
    v ∈ LinearMap.ker (toMatrix (K := K) M).mulVecLin
      ↔ ∀ i, i < M.rows → apply M (ext0 v) i = 0 := by
  rw [LinearMap.mem_ker, Matrix.mulVecLin_apply]
  constructor
  · intro h i hi
    rw [← toMatrix_mulVec_apply M v ⟨i, hi⟩, h]; rfl
  · intro h
    funext i
    rw [toMatrix_mulVec_apply]; exact h i i.2

/-! ## rank–nullity -/

/-- rank–nullity for a matrix whose kernel is spanned by `k` independent vectors -/
lemma rank_add_of_ker_span {m n k : ℕ} (A : Matrix (Fin m) (Fin n) K) (b : Fin k → Fin n → K)
    (hli : LinearIndependent K b)
    (hker : LinearMap.ker A.mulVecLin = Submodule.span K (Set.range b)) :
    A.rank + k = n := by
  have h := LinearMap.finrank_range_add_finrank_ker A.mulVecLin
  rw [hker, finrank_span_eq_card hli, Fintype.card_fin, Module.finrank_fin_fun] at h
  exact h

/-- a matrix with trivial kernel has full column rank -/
lemma rank_of_ker_bot {m n : ℕ} (A : Matrix (Fin m) (Fin n) K)
    (hker : LinearMap.ker A.mulVecLin = ⊥) : A.rank = n := by
  have h := LinearMap.finrank_range_add_finrank_ker A.mulVecLin
  rw [hker, finrank_bot, Module.finrank_fin_fun, add_zero] at h
  exact h

lemma finrank_ker_of_span {m n k : ℕ} (A : Matrix (Fin m) (Fin n) K) (b : Fin k → Fin n → K)
    (hli : LinearIndependent K b)
    (hker : LinearMap.ker A.mulVecLin = Submodule.span K (Set.range b)) :
    Module.finrank K (LinearMap.ker A.mulVecLin) = k := by
  rw [hker, finrank_span_eq_card hli, Fintype.card_fin]

/-! ## generators of the null spaces -/

/-- the constant vector `1` -/
def genConst (m : ℕ) : Fin 1 → Fin m → K := ![restr m fun _ => 1]

/-- the constant vector `1` and the ramp `i ↦ i` -/
def genAffine (m : ℕ) : Fin 2 → Fin m → K := ![restr m fun _ => 1, restr m fun i => (i : K)]

/-- on the `n × n` image (pixel `j = a·n + c`, `a = j / n`, `c = j % n`): `1`, `c`, `a`, `a·c` -/
def genBilinear (n m : ℕ) : Fin 4 → Fin m → K :=
  ![restr m fun _ => 1, restr m fun j => ((j % n : ℕ) : K), restr m fun j => ((j / n : ℕ) : K),
    restr m fun j => ((j / n : ℕ) : K) * ((j % n : ℕ) : K)]

lemma genConst_li {m : ℕ} (hm : 1 ≤ m) : LinearIndependent K (genConst (K := K) m) := by
  rw [Fintype.linearIndependent_iff]
  intro g hg i
  have h0 := congrFun hg ⟨0, by omega⟩
  simp [genConst, restr] at h0
  fin_cases i; exact h0

lemma genAffine_li {m : ℕ} (hm : 2 ≤ m) : LinearIndependent K (genAffine (K := K) m) := by
  rw [Fintype.linearIndependent_iff]
  intro g hg i
  have h0 := congrFun hg ⟨0, by omega⟩
  have h1 := congrFun hg ⟨1, by omega⟩
  simp [genAffine, restr, Fin.sum_univ_two] at h0 h1
  rw [h0, zero_add] at h1
  fin_cases i
  · exact h0
  · exact h1

lemma genBilinear_li {n : ℕ} (hn : 2 ≤ n) :
    LinearIndependent K (genBilinear (K := K) n (n * n)) := by
  have hnn : n + 1 < n * n := by nlinarith
  rw [Fintype.linearIndependent_iff]
  intro g hg i
  have h0 := congrFun hg ⟨0, by omega⟩
  have h1 := congrFun hg ⟨1, by omega⟩
  have h2 := congrFun hg ⟨n, by omega⟩
  have h3 := congrFun hg ⟨n + 1, by omega⟩
  have e3 : 1 / n = 0 := Nat.div_eq_of_lt (by omega)
  have e4 : 1 % n = 1 := Nat.mod_eq_of_lt (by omega)
  have e5 : n / n = 1 := Nat.div_self (by omega)
  have e6 : (n + 1) / n = 1 := by
    have := div_block (m := n) (a := 1) (r := 1) (by omega); rwa [Nat.one_mul] at this
  have e7 : (n + 1) % n = 1 := by
    have := mod_block (m := n) (a := 1) (r := 1) (by omega); rwa [Nat.one_mul] at this
  simp [genBilinear, restr, Fin.sum_univ_four, e3, e4, e5, e6, e7] at h0 h1 h2 h3
  rw [h0, zero_add] at h1 h2
  rw [h0, h1, h2] at h3
  simp at h3
  fin_cases i
  · exact h0
  · exact h1
  · exact h2
  · exact h3

/-! ## from a null-space characterisation (`Props/C20.lean` style) to the kernel as a submodule -/

lemma ker_eq_bot_of_null (M : FMat)
    (h : ∀ x : ℕ → K, (∀ i, i < M.rows → apply M x i = 0) ↔ ∀ i, i < M.cols → x i = 0) :
    LinearMap.ker (toMatrix (K := K) M).mulVecLin = ⊥ := by
  rw [Submodule.eq_bot_iff]
  intro v hv
  have := (h _).1 ((mem_ker_toMatrix_iff M v).1 hv)
  funext j
  rw [← ext0_coe v j]; exact this j j.2

lemma ker_eq_span_const_of_null (M : FMat)
    (h : ∀ x : ℕ → K, (∀ i, i < M.rows → apply M x i = 0) ↔ ∀ i, i < M.cols → x i = x 0) :
    LinearMap.ker (toMatrix (K := K) M).mulVecLin
      = Submodule.span K (Set.range (genConst (K := K) M.cols)) := by
  ext v
  rw [mem_ker_toMatrix_iff, h, Submodule.mem_span_range_iff_exists_fun]
  constructor
  · intro hv
    refine ⟨fun _ => ext0 v 0, ?_⟩
    funext j
    simp only [genConst, restr, Fin.sum_univ_one, Matrix.cons_val_zero, Pi.smul_apply,
      smul_eq_mul, mul_one]
    rw [← ext0_coe v j]; exact (hv j j.2).symm
  · rintro ⟨c, rfl⟩ i hi
    have h0 : 0 < M.cols := by omega
    rw [ext0_lt _ hi, ext0_lt _ h0]
    simp [genConst, restr]

lemma ker_eq_span_affine_of_null (M : FMat)
    (h : ∀ x : ℕ → K, (∀ i, i < M.rows → apply M x i = 0)
      ↔ ∀ i, i < M.cols → x i = x 0 + (i : K) * (x 1 - x 0)) :
    LinearMap.ker (toMatrix (K := K) M).mulVecLin
      = Submodule.span K (Set.range (genAffine (K := K) M.cols)) := by
  ext v
  rw [mem_ker_toMatrix_iff, h, Submodule.mem_span_range_iff_exists_fun]
  constructor
  · intro hv
    refine ⟨![ext0 v 0, ext0 v 1 - ext0 v 0], ?_⟩
    funext j
    simp only [genAffine, restr, Fin.sum_univ_two, Matrix.cons_val_zero, Matrix.cons_val_one,
      Pi.smul_apply, Pi.add_apply, smul_eq_mul, mul_one]
    rw [← ext0_coe v j, hv j j.2]; ring
  · rintro ⟨c, rfl⟩ i hi
    rcases Nat.eq_zero_or_pos i with hi0 | hi0
    · subst hi0; simp
    · have h0 : 0 < M.cols := by omega
      have h1 : 1 < M.cols := by omega
      rw [ext0_lt _ hi, ext0_lt _ h0, ext0_lt _ h1]
      simp [genAffine, restr, Fin.sum_univ_two]
      ring

lemma ker_eq_span_bilinear_of_null (M : FMat) (n : ℕ) (hn : 2 ≤ n) (hc : M.cols = n * n)
    (h : ∀ x : ℕ → K, (∀ i, i < M.rows → apply M x i = 0)
      ↔ ∀ j, j < n * n → x j = x 0 + ((j % n : ℕ) : K) * (x 1 - x 0)
          + ((j / n : ℕ) : K) * (x n - x 0)
          + ((j / n : ℕ) : K) * ((j % n : ℕ) : K) * (x (n + 1) - x n - x 1 + x 0)) :
    LinearMap.ker (toMatrix (K := K) M).mulVecLin
      = Submodule.span K (Set.range (genBilinear (K := K) n M.cols)) := by
  have hnn : n + 1 < n * n := by nlinarith
  have e3 : 1 / n = 0 := Nat.div_eq_of_lt (by omega)
  have e4 : 1 % n = 1 := Nat.mod_eq_of_lt (by omega)
  have e5 : n / n = 1 := Nat.div_self (by omega)
  have e6 : (n + 1) / n = 1 := by
    have := div_block (m := n) (a := 1) (r := 1) (by omega); rwa [Nat.one_mul] at this
  have e7 : (n + 1) % n = 1 := by
    have := mod_block (m := n) (a := 1) (r := 1) (by omega); rwa [Nat.one_mul] at this
  ext v
  rw [mem_ker_toMatrix_iff, h, Submodule.mem_span_range_iff_exists_fun]
  constructor
  · intro hv
    refine ⟨![ext0 v 0, ext0 v 1 - ext0 v 0, ext0 v n - ext0 v 0,
      ext0 v (n + 1) - ext0 v n - ext0 v 1 + ext0 v 0], ?_⟩
    funext j
    simp only [genBilinear, restr, Fin.sum_univ_four, Matrix.cons_val_zero, Matrix.cons_val_one,
      Matrix.cons_val, Pi.smul_apply, Pi.add_apply, smul_eq_mul, mul_one]
    rw [← ext0_coe v j, hv j (hc ▸ j.2)]; ring
  · rintro ⟨c, rfl⟩ j hj
    have hj' : j < M.cols := hc ▸ hj
    rw [ext0_lt _ hj', ext0_lt _ (show 0 < M.cols by omega), ext0_lt _ (show 1 < M.cols by omega),
      ext0_lt _ (show n < M.cols by omega), ext0_lt _ (show n + 1 < M.cols by omega)]
    simp [genBilinear, restr, Fin.sum_univ_four, e3, e4, e5, e6, e7]
    ring

/-- pixels `a·n + c` (`a, c < n`) are exactly the indices `< n·n` -/
lemma forall_pixel_iff (n : ℕ) (P : ℕ → Prop) :
    (∀ a, a < n → ∀ c, c < n → P (a * n + c)) ↔ ∀ j, j < n * n → P j := by
  constructor
  · intro h j hj
    have hpos : 0 < n := by
      rcases Nat.eq_zero_or_pos n with h0 | h0
      · subst h0; omega
      · exact h0
    have := h (j / n) ((Nat.div_lt_iff_lt_mul hpos).2 hj) (j % n) (Nat.mod_lt _ hpos)
    rwa [Nat.mul_comm, Nat.div_add_mod] at this
  · intro h a ha c hc
    refine h _ ?_
    calc a * n + c < a * n + n := by omega
      _ = (a + 1) * n := (Nat.succ_mul _ _).symm
      _ ≤ n * n := Nat.mul_le_mul_right _ ha

/-! ## the model's operators: null-space characterisations in uniform shape -/

section models
variable [CharZero K]

/-- combinations with trivial null space -/
def KerTrivial (order : ℕ) (bc : BC) : Prop :=
  order = 0 ∨ (order = 1 ∧ (bc = .zero ∨ bc = .backward ∨ bc = .none)) ∨ (2 ≤ order ∧ bc = .zero)

/-- combinations (and sizes) whose null space is the constants -/
def KerConst (order : ℕ) (bc : BC) (n : ℕ) : Prop :=
  (order = 1 ∧ bc = .periodic ∧ 2 ≤ n) ∨ (order = 1 ∧ bc = .neumann)
    ∨ (2 ≤ order ∧ bc = .periodic ∧ 3 ≤ n)

/-- combinations whose null space is the affine sequences -/
def KerAffine (order : ℕ) (bc : BC) : Prop := 2 ≤ order ∧ bc = .neumann

lemma diffOp_cols_of_class {order : ℕ} {bc : BC} {n : ℕ}
    (h : KerTrivial order bc ∨ KerConst order bc n ∨ KerAffine order bc) :
    (diffOp order bc n).cols = n := by
  rcases h with h | h | h
  · rcases h with rfl | ⟨rfl, rfl | rfl | rfl⟩ | ⟨h2, rfl⟩
    · rfl
    · rfl
    · rfl
    · rfl
    · obtain ⟨k, rfl⟩ : ∃ k, order = k + 2 := ⟨order - 2, by omega⟩; rfl
  · rcases h with ⟨rfl, rfl, _⟩ | ⟨rfl, rfl⟩ | ⟨h2, rfl, _⟩
    · rfl
    · rfl
    · obtain ⟨k, rfl⟩ : ∃ k, order = k + 2 := ⟨order - 2, by omega⟩; rfl
  · obtain ⟨h2, rfl⟩ := h
    obtain ⟨k, rfl⟩ : ∃ k, order = k + 2 := ⟨order - 2, by omega⟩; rfl

omit [CharZero K] in
lemma diffOp_null_trivial {order : ℕ} {bc : BC} (h : KerTrivial order bc) (n : ℕ) (x : ℕ → K) :
    (∀ i, i < (diffOp order bc n).rows → apply (diffOp order bc n) x i = 0)
      ↔ ∀ i, i < (diffOp order bc n).cols → x i = 0 := by
  rcases h with rfl | ⟨rfl, rfl | rfl | rfl⟩ | ⟨h2, rfl⟩
  · exact firstOrder_none_null_iff n x
  · exact firstOrder_zero_null_iff n x
  · exact firstOrder_backward_null_iff n x
  · exact firstOrder_none_null_iff n x
  · obtain ⟨k, rfl⟩ : ∃ k, order = k + 2 := ⟨order - 2, by omega⟩
    exact secondOrder_zero_null_iff n x

lemma diffOp_null_const {order : ℕ} {bc : BC} {n : ℕ} (h : KerConst order bc n) (x : ℕ → K) :
    (∀ i, i < (diffOp order bc n).rows → apply (diffOp order bc n) x i = 0)
      ↔ ∀ i, i < (diffOp order bc n).cols → x i = x 0 := by
  rcases h with ⟨rfl, rfl, hn⟩ | ⟨rfl, rfl⟩ | ⟨h2, rfl, hn⟩
  · exact firstOrder_periodic_null_iff n hn x
  · exact firstOrder_neumann_null_iff n x
  · obtain ⟨k, rfl⟩ : ∃ k, order = k + 2 := ⟨order - 2, by omega⟩
    exact secondOrder_periodic_null_iff n hn x

omit [CharZero K] in
lemma diffOp_null_affine {order : ℕ} {bc : BC} (h : KerAffine order bc) (n : ℕ) (x : ℕ → K) :
    (∀ i, i < (diffOp order bc n).rows → apply (diffOp order bc n) x i = 0)
      ↔ ∀ i, i < (diffOp order bc n).cols → x i = x 0 + (i : K) * (x 1 - x 0) := by
  obtain ⟨h2, rfl⟩ := h
  obtain ⟨k, rfl⟩ : ∃ k, order = k + 2 := ⟨order - 2, by omega⟩
  exact secondOrder_neumann_null_iff n x

/-- `nullity1D` is the number of generators of the class -/
lemma nullity1D_of_class {order : ℕ} {bc : BC} {n : ℕ} :
    (KerTrivial order bc → nullity1D order bc = 0) ∧ (KerConst order bc n → nullity1D order bc = 1)
      ∧ (KerAffine order bc → nullity1D order bc = 2) := by
  refine ⟨?_, ?_, ?_⟩
  · rintro (rfl | ⟨rfl, rfl | rfl | rfl⟩ | ⟨h2, rfl⟩)
    · cases bc <;> rfl
    · rfl
    · rfl
    · rfl
    · obtain ⟨k, rfl⟩ : ∃ k, order = k + 2 := ⟨order - 2, by omega⟩; rfl
  · rintro (⟨rfl, rfl, _⟩ | ⟨rfl, rfl⟩ | ⟨h2, rfl, _⟩)
    · rfl
    · rfl
    · obtain ⟨k, rfl⟩ : ∃ k, order = k + 2 := ⟨order - 2, by omega⟩; rfl
  · rintro ⟨h2, rfl⟩
    obtain ⟨k, rfl⟩ : ∃ k, order = k + 2 := ⟨order - 2, by omega⟩; rfl

/-- every combination the code accepts falls in one of the three classes -/
lemma class_of_accepted {order : ℕ} {bc : BC} {n : ℕ}
    (hacc : order ≤ 1 ∨ secondOrderAccepts bc = true)
    (hper : bc = .periodic → (order = 1 → 2 ≤ n) ∧ (2 ≤ order → 3 ≤ n)) :
    KerTrivial order bc ∨ KerConst order bc n ∨ KerAffine order bc := by
  unfold KerTrivial KerConst KerAffine
  rcases Nat.lt_or_ge order 2 with ho | ho
  · have : order = 0 ∨ order = 1 := by omega
    rcases this with rfl | rfl
    · exact Or.inl (Or.inl rfl)
    · cases bc
      · exact Or.inl (Or.inr (Or.inl ⟨rfl, Or.inl rfl⟩))
      · exact Or.inr (Or.inl (Or.inl ⟨rfl, rfl, (hper rfl).1 rfl⟩))
      · exact Or.inr (Or.inl (Or.inr (Or.inl ⟨rfl, rfl⟩)))
      · exact Or.inl (Or.inr (Or.inl ⟨rfl, Or.inr (Or.inl rfl)⟩))
      · exact Or.inl (Or.inr (Or.inl ⟨rfl, Or.inr (Or.inr rfl)⟩))
  · have hacc' : secondOrderAccepts bc = true := by
      rcases hacc with h | h
      · omega
      · exact h
    cases bc
    · exact Or.inl (Or.inr (Or.inr ⟨ho, rfl⟩))
    · exact Or.inr (Or.inl (Or.inr (Or.inr ⟨ho, rfl, (hper rfl).2 ho⟩)))
    · exact Or.inr (Or.inr ⟨ho, rfl⟩)
    · exact absurd hacc' (by decide)
    · exact absurd hacc' (by decide)

end models

/-! ## 2-D -/

/-- pixels again, with the row/column of the pixel made explicit -/
lemma forall_pixel_iff' (n : ℕ) (Q : ℕ → ℕ → ℕ → Prop) :
    (∀ a, a < n → ∀ c, c < n → Q a c (a * n + c)) ↔ ∀ j, j < n * n → Q (j / n) (j % n) j := by
  constructor
  · intro h j hj
    have hpos : 0 < n := by
      rcases Nat.eq_zero_or_pos n with h0 | h0
      · subst h0; omega
      · exact h0
    have := h (j / n) ((Nat.div_lt_iff_lt_mul hpos).2 hj) (j % n) (Nat.mod_lt _ hpos)
    rwa [Nat.mul_comm, Nat.div_add_mod] at this
  · intro h a ha c hc
    have hlt : a * n + c < n * n :=
      calc a * n + c < a * n + n := by omega
        _ = (a + 1) * n := (Nat.succ_mul _ _).symm
        _ ≤ n * n := Nat.mul_le_mul_right _ ha
    have := h _ hlt
    rwa [div_block hc, mod_block hc] at this

section models2D
variable [CharZero K]

lemma diffOp2D_cols_of_class {order : ℕ} {bc : BC} {n : ℕ}
    (h : KerTrivial order bc ∨ KerConst order bc n ∨ KerAffine order bc) :
    (diffOp2D order bc n).cols = n * n := by
  show n * (diffOp order bc n).cols = n * n
  rw [diffOp_cols_of_class h]

omit [CharZero K] in
lemma diffOp2D_null_trivial {order : ℕ} {bc : BC} (h : KerTrivial order bc) (n : ℕ) (x : ℕ → K) :
    (∀ i, i < (diffOp2D order bc n).rows → apply (diffOp2D order bc n) x i = 0)
      ↔ ∀ j, j < (diffOp2D order bc n).cols → x j = 0 := by
  have hc := diffOp_cols_of_class (n := n) (Or.inl h)
  rw [diffOp2D_cols_of_class (Or.inl h)]
  exact (lift2D_null_trivial (diffOp order bc n) n hc
    (fun y => by have := diffOp_null_trivial h n y; rwa [hc] at this) x).trans
    (forall_pixel_iff n (fun j => x j = 0))

lemma diffOp2D_null_const {order : ℕ} {bc : BC} {n : ℕ} (h : KerConst order bc n) (x : ℕ → K) :
    (∀ i, i < (diffOp2D order bc n).rows → apply (diffOp2D order bc n) x i = 0)
      ↔ ∀ j, j < (diffOp2D order bc n).cols → x j = x 0 := by
  have hc := diffOp_cols_of_class (n := n) (Or.inr (Or.inl h))
  rw [diffOp2D_cols_of_class (Or.inr (Or.inl h))]
  exact (lift2D_null_const (diffOp order bc n) n hc
    (fun y => by have := diffOp_null_const h y; rwa [hc] at this) x).trans
    (forall_pixel_iff n (fun j => x j = x 0))

omit [CharZero K] in
lemma diffOp2D_null_bilinear {order : ℕ} {bc : BC} (h : KerAffine order bc) (n : ℕ) (x : ℕ → K) :
    (∀ i, i < (diffOp2D order bc n).rows → apply (diffOp2D order bc n) x i = 0)
      ↔ ∀ j, j < n * n → x j = x 0 + ((j % n : ℕ) : K) * (x 1 - x 0)
          + ((j / n : ℕ) : K) * (x n - x 0)
          + ((j / n : ℕ) : K) * ((j % n : ℕ) : K) * (x (n + 1) - x n - x 1 + x 0) := by
  obtain ⟨h2, rfl⟩ := h
  obtain ⟨k, rfl⟩ : ∃ k, order = k + 2 := ⟨order - 2, by omega⟩
  exact (diffOp2D_order2_neumann_null_iff n x).trans
    (forall_pixel_iff' n (fun a c j => x j = x 0 + (c : K) * (x 1 - x 0) + (a : K) * (x n - x 0)
      + (a : K) * (c : K) * (x (n + 1) - x n - x 1 + x 0)))

end models2D

end CuqiVerif.C20
