import CuqiVerif.Props.C16_precond

/-!
# C16 — helper lemmas for `Props/C16_stops.lean` (session-3 extension)
Cauchy–Schwarz for the abstract forms `IsIP`, counting lemmas for the loops at negative tolerances.
-/

set_option linter.unusedSectionVars false
set_option linter.unusedVariables false

namespace CuqiVerif.C16

variable {K : Type} [Field K] [LinearOrder K] [IsStrictOrderedRing K]

section IP
variable {E : Type} [AddCommGroup E] [Module K E] {ip : E → E → K}

/-- Cauchy–Schwarz for a symmetric bilinear form with non-negative squares (no definiteness needed) -/
lemma IsIP.cauchy_schwarz (h : IsIP ip) (u w : E) : ip u w ^ 2 ≤ ip u u * ip w w := by
  have hc := h.nonneg w
  have hu := h.nonneg u
  rcases hc.lt_or_eq with hpos | hzero
  · have key := h.nonneg (u + (-(ip u w) / ip w w) • w)
    rw [h.expand] at key
    have hne : ip w w ≠ 0 := ne_of_gt hpos
    have : ip u u + -(ip u w) / ip w w * (2 * ip u w) + (-(ip u w) / ip w w) ^ 2 * ip w w
        = ip u u - ip u w ^ 2 / ip w w := by
      field_simp; ring
    rw [this] at key
    have h2 : ip u w ^ 2 / ip w w ≤ ip u u := by linarith
    rw [div_le_iff₀ hpos] at h2
    linarith
  · rw [← hzero, mul_zero]
    by_contra hcon
    have hd : ip u w ≠ 0 := by
      intro h0; apply hcon; rw [h0]; simp
    have key := h.nonneg (u + (-(ip u u + 1) / (2 * ip u w)) • w)
    rw [h.expand, ← hzero, mul_zero, add_zero] at key
    have : ip u u + -(ip u u + 1) / (2 * ip u w) * (2 * ip u w) = -1 := by
      field_simp; ring
    rw [this] at key
    linarith

/-- `⟨u,w⟩ ≤ D·a` from `‖u‖² ≤ D²`, `‖w‖² ≤ a²` -/
lemma IsIP.ip_le_of_sq_le (h : IsIP ip) (u w : E) (D a : K) (hD : 0 ≤ D) (ha : 0 ≤ a)
    (hu : ip u u ≤ D ^ 2) (hw : ip w w ≤ a ^ 2) : ip u w ≤ D * a := by
  have cs := h.cauchy_schwarz u w
  have h1 : ip u w ^ 2 ≤ (D * a) ^ 2 := by
    calc ip u w ^ 2 ≤ ip u u * ip w w := cs
      _ ≤ D ^ 2 * a ^ 2 := mul_le_mul hu hw (h.nonneg w) (sq_nonneg D)
      _ = (D * a) ^ 2 := by ring
  have h2 : 0 ≤ D * a := mul_nonneg hD ha
  exact le_trans (le_abs_self _) (abs_le_of_sq_le_sq h1 h2)

end IP

section Count
variable {V W M : Type}

/-- CGLS at `tol < 0` and `γ₀ ≠ 0`: the flag is never set, every pass of the budget is made -/
lemma cglsLoop_neg_tol (oV : VOps K V) (oW : VOps K W) (fwd : V → W) (adj : W → V) (shift tol eps gamma0 : K)
    (htol : tol < 0) (hg : gamma0 ≠ 0) (fuel : ℕ) (st : CGState K V W) (hf : st.flag = false) :
    (cglsLoop oV oW fwd adj shift tol eps gamma0 fuel st).k = st.k + fuel ∧
    (cglsLoop oV oW fwd adj shift tol eps gamma0 fuel st).flag = false := by
  induction fuel generalizing st with
  | zero => simp [cglsLoop, hf]
  | succ n ih =>
    unfold cglsLoop
    simp only [hf, Bool.false_eq_true, if_false]
    have hfl : (cglsStep oV oW fwd adj shift tol eps gamma0 st).flag = false := by
      simp [cglsStep, cgFlag, htol, hg]
    have := ih _ hfl
    have hk : (cglsStep oV oW fwd adj shift tol eps gamma0 st).k = st.k + 1 := rfl
    rw [hk] at this
    exact ⟨by omega, this.2⟩

lemma pcglsLoop_neg_tol (oV : VOps K V) (oW : VOps K W) (fwd : V → W) (adj : W → V) (tol eps gamma0 : K)
    (pinv pinvT : V → V) (htol : tol < 0) (hg : gamma0 ≠ 0) (fuel : ℕ) (st : CGState K V W) (hf : st.flag = false) :
    (pcglsLoop oV oW fwd adj tol eps pinv pinvT gamma0 fuel st).k = st.k + fuel ∧
    (pcglsLoop oV oW fwd adj tol eps pinv pinvT gamma0 fuel st).flag = false := by
  induction fuel generalizing st with
  | zero => simp [pcglsLoop, hf]
  | succ n ih =>
    unfold pcglsLoop
    simp only [hf, Bool.false_eq_true, if_false]
    have hfl : (pcglsStep oV oW fwd adj tol eps pinv pinvT gamma0 st).flag = false := by
      simp [pcglsStep, cgFlag, htol, hg]
    have := ih _ hfl
    have hk : (pcglsStep oV oW fwd adj tol eps pinv pinvT gamma0 st).k = st.k + 1 := rfl
    rw [hk] at this
    exact ⟨by omega, this.2⟩

/-- LM at `gradtol < 0` and `g₀ ≠ 0`: the gradient test never stops the loop -/
lemma lmLoop_neg_gradtol (oV : VOps K V) (oW : VOps K W) (res : V → W) (jac : V → M) (jtv : M → W → V)
    (insolve : M → K → V → V) (nu0 gradtol ng02 : K) (hg : gradtol < 0) (h0 : ng02 ≠ 0) (fuel : ℕ) (st : LMState K V W M) :
    (lmLoop oV oW res jac jtv insolve nu0 gradtol ng02 fuel st).i = st.i + fuel := by
  induction fuel generalizing st with
  | zero => simp [lmLoop]
  | succ n ih =>
    unfold lmLoop
    have : lmCont st.ng2 ng02 gradtol = true := by simp [lmCont, h0, hg]
    rw [this]
    simp only [if_true]
    rw [ih, lmStep_i]
    omega

end Count

end CuqiVerif.C16
