import Mathlib.Analysis.SpecialFunctions.Trigonometric.Basic
import Mathlib.Algebra.BigOperators.Group.Finset.Basic
import Mathlib.Algebra.BigOperators.Field
import Mathlib.Data.Fintype.BigOperators
import Mathlib.LinearAlgebra.Matrix.SemiringInverse
import Mathlib.Tactic.Ring
import Mathlib.Tactic.Linarith
import Mathlib.Tactic.FieldSimp
import Mathlib.Tactic.Positivity
import Mathlib.Tactic.NormNum

/-!
# C13 (dst) — helper lemmas: finite trigonometric sums behind the DST-II / DST-III pair

Everything is over `ℝ` with Mathlib's `Real.sin`, `Real.cos`, `Real.pi`.  The sampling angles are
written `(2n+1)·θ` with `θ = π·d/(2N)`; `n` ranges over `range N`.
-/

namespace CuqiVerif.C13

open Real Finset

/-- telescoping: `2 sin θ · Σ_{n<N} cos((2n+1)θ) = sin(2Nθ)` -/
lemma two_sin_mul_sum_cos_odd (θ : ℝ) (N : ℕ) :
    2 * sin θ * ∑ n ∈ range N, cos ((2 * (n : ℝ) + 1) * θ) = sin (2 * (N : ℝ) * θ) := by
  induction N with
  | zero => simp
  | succ N ih =>
    rw [sum_range_succ, mul_add, ih]
    have h1 : 2 * ((N + 1 : ℕ) : ℝ) * θ = (2 * (N : ℝ) + 1) * θ + θ := by push_cast; ring
    have h2 : 2 * (N : ℝ) * θ = (2 * (N : ℝ) + 1) * θ - θ := by ring
    rw [h1, h2, sin_add, sin_sub]
    ring

/-- `Σ_{n<N} cos((2n+1)·πd/(2N)) = 0` for every integer `0 < d < 2N` -/
lemma sum_cos_odd_eq_zero (N d : ℕ) (hd : 0 < d) (hdN : d < 2 * N) :
    ∑ n ∈ range N, cos ((2 * (n : ℝ) + 1) * (π * (d : ℝ) / (2 * (N : ℝ)))) = 0 := by
  have hN : (0 : ℝ) < N := by exact_mod_cast (by omega : 0 < N)
  have hd' : (0 : ℝ) < d := by exact_mod_cast hd
  have hpos : 0 < π * (d : ℝ) / (2 * (N : ℝ)) := by positivity
  have hlt : π * (d : ℝ) / (2 * (N : ℝ)) < π := by
    rw [div_lt_iff₀ (by positivity)]
    have : (d : ℝ) < 2 * N := by exact_mod_cast hdN
    nlinarith [pi_pos]
  have hs := sin_pos_of_pos_of_lt_pi hpos hlt
  have h := two_sin_mul_sum_cos_odd (π * (d : ℝ) / (2 * (N : ℝ))) N
  have h0 : sin (2 * (N : ℝ) * (π * (d : ℝ) / (2 * (N : ℝ)))) = 0 := by
    have : 2 * (N : ℝ) * (π * (d : ℝ) / (2 * (N : ℝ))) = d * π := by field_simp
    rw [this, sin_nat_mul_pi]
  rw [h0] at h
  rcases mul_eq_zero.mp h with h | h
  · exfalso; linarith
  · exact h

/-- `d = 0`: the sum is `N` -/
lemma sum_cos_odd_zero (N : ℕ) :
    ∑ n ∈ range N, cos ((2 * (n : ℝ) + 1) * (π * ((0 : ℕ) : ℝ) / (2 * (N : ℝ)))) = N := by
  simp

/-- `d = 2N`: every term is `cos((2n+1)π) = -1`, the sum is `-N` -/
lemma sum_cos_odd_twoN (N : ℕ) (hN : 0 < N) :
    ∑ n ∈ range N, cos ((2 * (n : ℝ) + 1) * (π * ((2 * N : ℕ) : ℝ) / (2 * (N : ℝ)))) = -(N : ℝ) := by
  have hN' : (N : ℝ) ≠ 0 := by exact_mod_cast hN.ne'
  have hterm : ∀ n : ℕ, cos ((2 * (n : ℝ) + 1) * (π * ((2 * N : ℕ) : ℝ) / (2 * (N : ℝ)))) = -1 := by
    intro n
    have : (2 * (n : ℝ) + 1) * (π * ((2 * N : ℕ) : ℝ) / (2 * (N : ℝ))) = (n : ℝ) * (2 * π) + π := by
      push_cast; field_simp
    rw [this, cos_nat_mul_two_pi_add_pi]
  rw [sum_congr rfl fun n _ => hterm n]
  simp

/-- product-to-sum under the sum sign, for `b ≤ a` (natural-number subtraction is exact) -/
lemma sum_sin_sin_eq (N a b : ℕ) (hba : b ≤ a) :
    ∑ n ∈ range N, sin ((2 * (n : ℝ) + 1) * (π * (a : ℝ) / (2 * (N : ℝ)))) *
        sin ((2 * (n : ℝ) + 1) * (π * (b : ℝ) / (2 * (N : ℝ)))) =
      (∑ n ∈ range N, cos ((2 * (n : ℝ) + 1) * (π * ((a - b : ℕ) : ℝ) / (2 * (N : ℝ)))) -
        ∑ n ∈ range N, cos ((2 * (n : ℝ) + 1) * (π * ((a + b : ℕ) : ℝ) / (2 * (N : ℝ))))) / 2 := by
  rw [← sum_sub_distrib, sum_div]
  refine sum_congr rfl fun n _ => ?_
  have h1 : (2 * (n : ℝ) + 1) * (π * ((a - b : ℕ) : ℝ) / (2 * (N : ℝ))) =
      (2 * (n : ℝ) + 1) * (π * (a : ℝ) / (2 * (N : ℝ))) - (2 * (n : ℝ) + 1) * (π * (b : ℝ) / (2 * (N : ℝ))) := by
    rw [Nat.cast_sub hba]; ring
  have h2 : (2 * (n : ℝ) + 1) * (π * ((a + b : ℕ) : ℝ) / (2 * (N : ℝ))) =
      (2 * (n : ℝ) + 1) * (π * (a : ℝ) / (2 * (N : ℝ))) + (2 * (n : ℝ) + 1) * (π * (b : ℝ) / (2 * (N : ℝ))) := by
    push_cast; ring
  rw [h1, h2, cos_sub, cos_add]
  ring

/-- orthogonality for `b ≤ a` -/
lemma sum_sin_sin_of_le (N a b : ℕ) (hb : 0 < b) (hba : b ≤ a) (haN : a ≤ N) :
    ∑ n ∈ range N, sin ((2 * (n : ℝ) + 1) * (π * (a : ℝ) / (2 * (N : ℝ)))) *
        sin ((2 * (n : ℝ) + 1) * (π * (b : ℝ) / (2 * (N : ℝ)))) =
      if a = b then (if a = N then (N : ℝ) else (N : ℝ) / 2) else 0 := by
  rw [sum_sin_sin_eq N a b hba]
  by_cases hab : a = b
  · subst hab
    rw [if_pos rfl, Nat.sub_self, sum_cos_odd_zero]
    by_cases haN' : a = N
    · subst haN'
      rw [if_pos rfl, ← two_mul, sum_cos_odd_twoN a (by omega)]
      ring
    · rw [if_neg haN', sum_cos_odd_eq_zero N (a + a) (by omega) (by omega)]
      ring
  · rw [if_neg hab, sum_cos_odd_eq_zero N (a - b) (by omega) (by omega),
      sum_cos_odd_eq_zero N (a + b) (by omega) (by omega)]
    ring

/-- **discrete sine orthogonality** on the half-integer sample points: for `1 ≤ a, b ≤ N`,
    `Σ_{n<N} sin((2n+1)πa/(2N)) · sin((2n+1)πb/(2N)) = [a=b]·(N if a = N else N/2)` -/
lemma sum_sin_sin (N a b : ℕ) (ha : 0 < a) (hb : 0 < b) (haN : a ≤ N) (hbN : b ≤ N) :
    ∑ n ∈ range N, sin ((2 * (n : ℝ) + 1) * (π * (a : ℝ) / (2 * (N : ℝ)))) *
        sin ((2 * (n : ℝ) + 1) * (π * (b : ℝ) / (2 * (N : ℝ)))) =
      if a = b then (if a = N then (N : ℝ) else (N : ℝ) / 2) else 0 := by
  rcases le_total b a with h | h
  · exact sum_sin_sin_of_le N a b hb h haN
  · have := sum_sin_sin_of_le N b a ha h hbN
    rw [show (∑ n ∈ range N, sin ((2 * (n : ℝ) + 1) * (π * (a : ℝ) / (2 * (N : ℝ)))) *
        sin ((2 * (n : ℝ) + 1) * (π * (b : ℝ) / (2 * (N : ℝ))))) =
        ∑ n ∈ range N, sin ((2 * (n : ℝ) + 1) * (π * (b : ℝ) / (2 * (N : ℝ)))) *
        sin ((2 * (n : ℝ) + 1) * (π * (a : ℝ) / (2 * (N : ℝ)))) from
        sum_congr rfl fun n _ => mul_comm _ _, this]
    by_cases hab : a = b
    · subst hab; rfl
    · rw [if_neg hab, if_neg (Ne.symm hab)]

/-- the alternating term of DST-III is the `a = N` sine: `sin((2n+1)·πN/(2N)) = (-1)^n` -/
lemma sin_odd_half_pi (N n : ℕ) (hN : 0 < N) :
    sin ((2 * (n : ℝ) + 1) * (π * (N : ℝ) / (2 * (N : ℝ)))) = (-1) ^ n := by
  have hN' : (N : ℝ) ≠ 0 := by exact_mod_cast hN.ne'
  have : (2 * (n : ℝ) + 1) * (π * (N : ℝ) / (2 * (N : ℝ))) = (n : ℝ) * π + π / 2 := by
    field_simp
  rw [this, sin_add_pi_div_two, cos_nat_mul_pi]

/-! ### dual orthogonality (sum over the frequency index), via "a left inverse of a square matrix is a
right inverse" -/

/-- the matrix applied by the unnormalised DST-II (`dst`), scaled by `1/(2N)` -/
noncomputable def dstMat (N : ℕ) : Matrix (Fin N) (Fin N) ℝ := fun k n =>
  (2 * (N : ℝ))⁻¹ * (2 * sin ((2 * ((n : ℕ) : ℝ) + 1) * (π * (((k : ℕ) + 1 : ℕ) : ℝ) / (2 * (N : ℝ)))))

/-- the matrix applied by the unnormalised DST-III (`idst`): weight 1 on the last column, 2 elsewhere -/
noncomputable def idstMat (N : ℕ) : Matrix (Fin N) (Fin N) ℝ := fun n j =>
  (if (j : ℕ) + 1 = N then (1 : ℝ) else 2) *
    sin ((2 * ((n : ℕ) : ℝ) + 1) * (π * (((j : ℕ) + 1 : ℕ) : ℝ) / (2 * (N : ℝ))))

lemma dstMat_mul_idstMat (N : ℕ) : dstMat N * idstMat N = 1 := by
  ext k j
  have hN : 0 < N := Nat.lt_of_le_of_lt (Nat.zero_le _) k.isLt
  have hN' : (N : ℝ) ≠ 0 := by exact_mod_cast hN.ne'
  rw [Matrix.mul_apply]
  have := Fin.sum_univ_eq_sum_range (fun n : ℕ =>
    (2 * (N : ℝ))⁻¹ * (2 * sin ((2 * (n : ℝ) + 1) * (π * (((k : ℕ) + 1 : ℕ) : ℝ) / (2 * (N : ℝ))))) *
      ((if (j : ℕ) + 1 = N then (1 : ℝ) else 2) *
        sin ((2 * (n : ℝ) + 1) * (π * (((j : ℕ) + 1 : ℕ) : ℝ) / (2 * (N : ℝ)))))) N
  simp only [dstMat, idstMat]
  rw [this]
  have hterm : ∀ n ∈ range N,
      (2 * (N : ℝ))⁻¹ * (2 * sin ((2 * (n : ℝ) + 1) * (π * (((k : ℕ) + 1 : ℕ) : ℝ) / (2 * (N : ℝ))))) *
        ((if (j : ℕ) + 1 = N then (1 : ℝ) else 2) *
          sin ((2 * (n : ℝ) + 1) * (π * (((j : ℕ) + 1 : ℕ) : ℝ) / (2 * (N : ℝ))))) =
      ((2 * (N : ℝ))⁻¹ * 2 * (if (j : ℕ) + 1 = N then (1 : ℝ) else 2)) *
        (sin ((2 * (n : ℝ) + 1) * (π * (((k : ℕ) + 1 : ℕ) : ℝ) / (2 * (N : ℝ)))) *
          sin ((2 * (n : ℝ) + 1) * (π * (((j : ℕ) + 1 : ℕ) : ℝ) / (2 * (N : ℝ))))) := by
    intro n _; ring
  rw [sum_congr rfl hterm, ← mul_sum,
    sum_sin_sin N (k + 1) (j + 1) (by omega) (by omega) (by have := k.isLt; omega) (by have := j.isLt; omega)]
  by_cases hkj : k = j
  · subst hkj
    rw [Matrix.one_apply_eq, if_pos rfl]
    by_cases hl : (k : ℕ) + 1 = N
    · rw [if_pos hl, if_pos hl]; field_simp
    · rw [if_neg hl, if_neg hl]; field_simp
  · have : (k : ℕ) + 1 ≠ (j : ℕ) + 1 := fun h => hkj (Fin.ext (by omega))
    rw [Matrix.one_apply_ne hkj, if_neg this, mul_zero]

lemma idstMat_mul_dstMat (N : ℕ) : idstMat N * dstMat N = 1 :=
  mul_eq_one_comm.mp (dstMat_mul_idstMat N)

/-- **dual orthogonality**: for sample indices `n, m < N`,
    `Σ_{j<N} w_j sin((2n+1)π(j+1)/(2N)) · 2 sin((2m+1)π(j+1)/(2N)) = 2N·[n = m]`, `w_j = 1` for
    `j = N-1` and `2` otherwise -/
lemma sum_sin_sin_dual (N n m : ℕ) (hn : n < N) (hm : m < N) :
    ∑ j ∈ range N, (if j + 1 = N then (1 : ℝ) else 2) *
        sin ((2 * (n : ℝ) + 1) * (π * ((j + 1 : ℕ) : ℝ) / (2 * (N : ℝ)))) *
        (2 * sin ((2 * (m : ℝ) + 1) * (π * ((j + 1 : ℕ) : ℝ) / (2 * (N : ℝ))))) =
      if n = m then 2 * (N : ℝ) else 0 := by
  have hN' : (N : ℝ) ≠ 0 := by exact_mod_cast (by omega : N ≠ 0)
  have h := congrFun (congrFun (idstMat_mul_dstMat N) ⟨n, hn⟩) ⟨m, hm⟩
  rw [Matrix.mul_apply] at h
  simp only [dstMat, idstMat] at h
  have h2 := Fin.sum_univ_eq_sum_range (fun j : ℕ =>
    (if j + 1 = N then (1 : ℝ) else 2) *
        sin ((2 * (n : ℝ) + 1) * (π * ((j + 1 : ℕ) : ℝ) / (2 * (N : ℝ)))) *
      ((2 * (N : ℝ))⁻¹ * (2 * sin ((2 * (m : ℝ) + 1) * (π * ((j + 1 : ℕ) : ℝ) / (2 * (N : ℝ))))))) N
  rw [h2] at h
  have hterm : ∀ j ∈ range N, (if j + 1 = N then (1 : ℝ) else 2) *
        sin ((2 * (n : ℝ) + 1) * (π * ((j + 1 : ℕ) : ℝ) / (2 * (N : ℝ)))) *
        (2 * sin ((2 * (m : ℝ) + 1) * (π * ((j + 1 : ℕ) : ℝ) / (2 * (N : ℝ))))) =
      (2 * (N : ℝ)) * ((if j + 1 = N then (1 : ℝ) else 2) *
        sin ((2 * (n : ℝ) + 1) * (π * ((j + 1 : ℕ) : ℝ) / (2 * (N : ℝ)))) *
      ((2 * (N : ℝ))⁻¹ * (2 * sin ((2 * (m : ℝ) + 1) * (π * ((j + 1 : ℕ) : ℝ) / (2 * (N : ℝ))))))) := by
    intro j _; field_simp
  rw [sum_congr rfl hterm, ← mul_sum, h]
  by_cases hnm : n = m
  · subst hnm; simp
  · have : (⟨n, hn⟩ : Fin N) ≠ ⟨m, hm⟩ := fun h => hnm (Fin.mk.inj h)
    simp [Matrix.one_apply_ne this, hnm]

end CuqiVerif.C13
