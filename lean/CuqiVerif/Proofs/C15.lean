import CuqiVerif.Model.C15
import Mathlib.Algebra.BigOperators.Group.Finset.Basic
import Mathlib.Algebra.BigOperators.Ring.Finset
import Mathlib.Algebra.BigOperators.Fin
import Mathlib.Data.Matrix.Mul
import Mathlib.Tactic.Ring
import Mathlib.Tactic.Abel
import Mathlib.Tactic.FieldSimp
import Mathlib.Algebra.Order.Field.Basic
import Mathlib.Tactic.Linarith
import Mathlib.Tactic.NormNum

/-!
# C15 — helper lemmas

* `sumTo` is a `Finset.sum`; bridges from the model's entry-function matrices to Mathlib `Matrix`.
* what a successful `NArr.solve` / `mapDirect` returned (unfolding of the numpy-level operations).
* matrix-level algebra: Tarantola's closed form satisfies the information-form normal equations;
  exact second-order expansion of the Gaussian log-posterior.
-/
open Finset

set_option linter.unusedSectionVars false
set_option linter.unusedVariables false

namespace CuqiVerif.C15

section sums
variable {R : Type} [AddCommMonoid R]

lemma sumTo_eq_sum (n : ℕ) (f : ℕ → R) : sumTo n f = ∑ k ∈ range n, f k := by
  induction n with
  | zero => simp [sumTo]
  | succ n ih => rw [sumTo, ih, Finset.sum_range_succ]

lemma sumTo_eq_univ (n : ℕ) (f : ℕ → R) : sumTo n f = ∑ k : Fin n, f k := by
  rw [sumTo_eq_sum, Finset.sum_range]

lemma sumTo_congr (n : ℕ) (f g : ℕ → R) (h : ∀ k, k < n → f k = g k) : sumTo n f = sumTo n g := by
  rw [sumTo_eq_sum, sumTo_eq_sum]
  exact Finset.sum_congr rfl fun k hk => h k (mem_range.mp hk)

end sums

lemma bidx_lt {a i : ℕ} (h : i < a) : bidx a i = i := by
  unfold bidx
  split
  · omega
  · rfl

lemma bdim_self (a : ℕ) : bdim a a = some a := by simp [bdim]

/-! ## bridge to Mathlib matrices -/

section bridge
variable {R : Type} [CommRing R]

/-- the `m × n` Mathlib matrix of an entry function -/
def toM (m n : ℕ) (A : ℕ → ℕ → R) : Matrix (Fin m) (Fin n) R := fun i j => A i j
/-- the length-`n` vector of an entry function -/
def toV (n : ℕ) (x : ℕ → R) : Fin n → R := fun i => x i

lemma toV_mvec (m k : ℕ) (A : ℕ → ℕ → R) (x : ℕ → R) :
    toV m (mvec k A x) = (toM m k A).mulVec (toV k x) := by
  funext i
  simp [toV, mvec, toM, Matrix.mulVec, dotProduct, sumTo_eq_univ]

lemma toM_sysMat (m n : ℕ) (A Cx Ce : ℕ → ℕ → R) :
    toM m m (sysMat n A Cx Ce) = toM m n A * toM n n Cx * (toM m n A).transpose + toM m m Ce := by
  ext i j
  simp [toM, sysMat, Matrix.mul_apply, Matrix.add_apply, sumTo_eq_univ]

lemma toV_assemble (m n : ℕ) (A Cx : ℕ → ℕ → R) (x0 s : ℕ → R) :
    toV n (assemble m n A Cx x0 s)
      = toV n x0 + (toM n n Cx).mulVec ((toM m n A).transpose.mulVec (toV m s)) := by
  funext j
  simp only [toV, assemble, toM, Matrix.mulVec, dotProduct, sumTo_eq_univ, Pi.add_apply, Matrix.transpose_apply]

lemma toV_normalResidual (m n : ℕ) (A We Wx : ℕ → ℕ → R) (x0 b x : ℕ → R) :
    toV n (normalResidual m n A We Wx x0 b x)
      = (toM m n A).transpose.mulVec ((toM m m We).mulVec (toV m b - (toM m n A).mulVec (toV n x)))
        - (toM n n Wx).mulVec (toV n x - toV n x0) := by
  funext j
  simp only [toV, normalResidual, toM, mvec, Matrix.mulVec, dotProduct, sumTo_eq_univ, Pi.sub_apply, Matrix.transpose_apply]

lemma toM_eq_one_iff (n : ℕ) (P : ℕ → ℕ → R) :
    toM n n P = 1 ↔ ∀ i j, i < n → j < n → P i j = if i = j then 1 else 0 := by
  constructor
  · intro h i j hi hj
    have := congrFun (congrFun h ⟨i, hi⟩) ⟨j, hj⟩
    simpa [toM, Matrix.one_apply, Fin.ext_iff] using this
  · intro h
    ext i j
    simp [toM, Matrix.one_apply, Fin.ext_iff, h i j i.isLt j.isLt]

lemma toM_mmul (m k n : ℕ) (A B : ℕ → ℕ → R) :
    toM m n (fun i j => sumTo k (fun l => A i l * B l j)) = toM m k A * toM k n B := by
  ext i j
  simp [toM, Matrix.mul_apply, sumTo_eq_univ]

end bridge

/-! ## what successful numpy-level calls returned -/

section unfold
variable {R : Type} [CommRing R] [DecidableEq R]

lemma solve_ok (slv : Solver R) (r : ℕ) (F : ℕ → ℕ → R) (g : ℕ → R) (y : NArr R)
    (h : NArr.solve slv (.m r r F) (.v r g) = .ok y) :
    ∃ x, y = .v r x ∧ ∀ i, i < r → sumTo r (fun k => F i k * x k) = g i := by
  unfold NArr.solve at h
  simp only [ne_eq, not_true_eq_false, ↓reduceIte] at h
  split at h
  · cases h
  · rename_i x hx
    split at h
    · rename_i hall
      refine ⟨x, ?_, ?_⟩
      · cases h; rfl
      · intro i hi
        have := (List.all_eq_true.mp hall) i (List.mem_range.mpr hi)
        simpa using this
    · cases h

end unfold

/-! ## matrix-level algebra -/

section matrix
variable {K : Type} [Field K] {m n : ℕ}

open Matrix

/-- Tarantola's closed form `x0 + Cx Aᵀ (A Cx Aᵀ + Ce)⁻¹ (b − A x0)` is a stationary point of the
    log-posterior with precisions `We`, `Wx` (left inverses of `Ce`, `Cx`). -/
lemma tarantola_stationary (A : Matrix (Fin m) (Fin n) K) (Ce We : Matrix (Fin m) (Fin m) K)
    (Cx Wx : Matrix (Fin n) (Fin n) K) (x0 : Fin n → K) (b s : Fin m → K)
    (hWe : We * Ce = 1) (hWx : Wx * Cx = 1)
    (hs : (A * Cx * Aᵀ + Ce) *ᵥ s = b - A *ᵥ x0) :
    Aᵀ *ᵥ (We *ᵥ (b - A *ᵥ (x0 + Cx *ᵥ (Aᵀ *ᵥ s)))) - Wx *ᵥ ((x0 + Cx *ᵥ (Aᵀ *ᵥ s)) - x0) = 0 := by
  have h1 : (x0 + Cx *ᵥ (Aᵀ *ᵥ s)) - x0 = Cx *ᵥ (Aᵀ *ᵥ s) := by abel
  have h2 : Wx *ᵥ (Cx *ᵥ (Aᵀ *ᵥ s)) = Aᵀ *ᵥ s := by
    rw [Matrix.mulVec_mulVec, hWx, Matrix.one_mulVec]
  have h3 : b - A *ᵥ (x0 + Cx *ᵥ (Aᵀ *ᵥ s)) = Ce *ᵥ s := by
    have : b = (A * Cx * Aᵀ + Ce) *ᵥ s + A *ᵥ x0 := by rw [hs]; abel
    rw [Matrix.mulVec_add, Matrix.mulVec_mulVec, Matrix.mulVec_mulVec]
    conv_lhs => rw [this]
    rw [Matrix.add_mulVec, Matrix.mul_assoc]
    abel
  have h4 : We *ᵥ (Ce *ᵥ s) = s := by rw [Matrix.mulVec_mulVec, hWe, Matrix.one_mulVec]
  rw [h1, h2, h3, h4, sub_self]

end matrix

section quad
variable {K : Type} [Field K] [CharZero K] {m n : ℕ}
open Matrix

/-- un-normalised Gaussian log-posterior `−½ (b−Ax)ᵀWe(b−Ax) − ½ (x−x0)ᵀWx(x−x0)` -/
def logPost (A : Matrix (Fin m) (Fin n) K) (We : Matrix (Fin m) (Fin m) K) (Wx : Matrix (Fin n) (Fin n) K)
    (x0 : Fin n → K) (b : Fin m → K) (x : Fin n → K) : K :=
  -(1/2) * ((b - A *ᵥ x) ⬝ᵥ (We *ᵥ (b - A *ᵥ x))) - (1/2) * ((x - x0) ⬝ᵥ (Wx *ᵥ (x - x0)))

/-- its gradient `AᵀWe(b − Ax) − Wx(x − x0)` -/
def gradPost (A : Matrix (Fin m) (Fin n) K) (We : Matrix (Fin m) (Fin m) K) (Wx : Matrix (Fin n) (Fin n) K)
    (x0 : Fin n → K) (b : Fin m → K) (x : Fin n → K) : Fin n → K :=
  Aᵀ *ᵥ (We *ᵥ (b - A *ᵥ x)) - Wx *ᵥ (x - x0)

/-- curvature `dᵀ(AᵀWeA + Wx)d` -/
def curv (A : Matrix (Fin m) (Fin n) K) (We : Matrix (Fin m) (Fin m) K) (Wx : Matrix (Fin n) (Fin n) K)
    (d : Fin n → K) : K :=
  (A *ᵥ d) ⬝ᵥ (We *ᵥ (A *ᵥ d)) + d ⬝ᵥ (Wx *ᵥ d)

lemma quad_sub {p : ℕ} (W : Matrix (Fin p) (Fin p) K) (hW : Wᵀ = W) (u d : Fin p → K) :
    (u - d) ⬝ᵥ (W *ᵥ (u - d)) = u ⬝ᵥ (W *ᵥ u) - 2 * (d ⬝ᵥ (W *ᵥ u)) + d ⬝ᵥ (W *ᵥ d) := by
  have hsymm : u ⬝ᵥ (W *ᵥ d) = d ⬝ᵥ (W *ᵥ u) := by
    rw [Matrix.dotProduct_mulVec, ← Matrix.mulVec_transpose, hW, dotProduct_comm]
  rw [Matrix.mulVec_sub, sub_dotProduct, dotProduct_sub, dotProduct_sub, hsymm]
  ring

lemma quad_add {p : ℕ} (W : Matrix (Fin p) (Fin p) K) (hW : Wᵀ = W) (u d : Fin p → K) :
    (u + d) ⬝ᵥ (W *ᵥ (u + d)) = u ⬝ᵥ (W *ᵥ u) + 2 * (d ⬝ᵥ (W *ᵥ u)) + d ⬝ᵥ (W *ᵥ d) := by
  have hsymm : u ⬝ᵥ (W *ᵥ d) = d ⬝ᵥ (W *ᵥ u) := by
    rw [Matrix.dotProduct_mulVec, ← Matrix.mulVec_transpose, hW, dotProduct_comm]
  rw [Matrix.mulVec_add, add_dotProduct, dotProduct_add, dotProduct_add, hsymm]
  ring

/-- exact expansion of the log-posterior around any point: linear term = gradient, quadratic term
    = −½ curvature -/
lemma logPost_expand (A : Matrix (Fin m) (Fin n) K) (We : Matrix (Fin m) (Fin m) K) (Wx : Matrix (Fin n) (Fin n) K)
    (hWe : Weᵀ = We) (hWx : Wxᵀ = Wx) (x0 : Fin n → K) (b : Fin m → K) (x d : Fin n → K) :
    logPost A We Wx x0 b (x + d)
      = logPost A We Wx x0 b x + d ⬝ᵥ gradPost A We Wx x0 b x - (1/2) * curv A We Wx d := by
  unfold logPost gradPost curv
  have e1 : b - A *ᵥ (x + d) = (b - A *ᵥ x) - A *ᵥ d := by rw [Matrix.mulVec_add]; abel
  have e2 : x + d - x0 = (x - x0) + d := by abel
  rw [e1, e2, quad_sub We hWe, quad_add Wx hWx, dotProduct_sub]
  have e3 : d ⬝ᵥ (Aᵀ *ᵥ (We *ᵥ (b - A *ᵥ x))) = (A *ᵥ d) ⬝ᵥ (We *ᵥ (b - A *ᵥ x)) := by
    rw [Matrix.dotProduct_mulVec, Matrix.vecMul_transpose]
  rw [e3]
  field_simp
  ring

end quad

end CuqiVerif.C15
