-- Root of the `CuqiVerif` library: only the shared, import-free infrastructure.
-- Per-property modules (Model/Cxx, Props/Cxx) are built by name (`lake build CuqiVerif.Props.C20`).
import CuqiVerif.Model.Proto
import CuqiVerif.Model.QMat
