-- Root of the `CuqiVerif` library.  Model files are import-free; Props files import single Mathlib modules.
import CuqiVerif.Model.Proto
import CuqiVerif.Model.QMat
import CuqiVerif.Model.C20
