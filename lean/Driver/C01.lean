import CuqiVerif.Model.Proto
import CuqiVerif.Model.C01
import CuqiVerif.Model.C01_attrs
open CuqiVerif CuqiVerif.Proto CuqiVerif.C01

/-!
Line protocol (one *program* per line; tokens separated by single spaces):

  `prog <dens> ... -- <call> ...`

* `F;name;dim;params;table`        an unconditioned distribution of the joint
* `L;name;dim;params;data;table`   the same distribution already turned into a likelihood by `dist(name=data)`
    `params` = `a,b` (or `.`), `table` = `v0&v1&..=val|...` : log-density (leaf oracle) at the values
    of `name :: params`; every value is a rational vector `1/2,3` (`_` = empty vector)
* `BayesianProblem`: `D;.;kw` set_data, `P;pos;kw` / `AL;pos;kw` / `AP;pos;kw` = `problem.posterior` /
    `.likelihood` / `.prior` `.logd(*pos, **kw)`
* calls: `C;pos;kw` condition, `c;pos;kw` condition but keep the old object (probe), `E;pos;kw` evaluate `logd`, `S` `_as_stacked()`, `N;name` set the name
    `pos` = `v&v` (or `.`), `kw` = `k=v&k=v` (or `.`)

Output: `;`-separated records, first the constructor (`kind:names` or `err:Class`), then one per call:
`kind:names` after a conditioning call, `val:q` after an evaluation, `err:Class`, or `?` when the
model would call a leaf log-density at values outside its table (e.g. a mis-split stacked vector).
-/

/-- log-density value with a counter of leaf look-ups outside the table -/
structure LV where
  v : Rat
  miss : Nat

instance : Add LV := ⟨fun a b => ⟨a.v + b.v, a.miss + b.miss⟩⟩
instance : Zero LV := ⟨⟨0, 0⟩⟩

abbrev Val := List Rat

def parseVal (s : String) : Option Val := parseVec s

def parseNames (s : String) : Option (List String) :=
  if s = "." then some [] else some (s.splitOn ",")

def parseEntry (s : String) : Option (List Val × Rat) :=
  match s.splitOn "=" with
  | [ks, v] => do
    let keys ← (ks.splitOn "&").mapM parseVal
    let r ← parseRat v
    pure (keys, r)
  | _ => none

def parseTable (s : String) : Option (List (List Val × Rat)) :=
  if s = "." then some [] else (s.splitOn "|").mapM parseEntry

def tableGet : List (List Val × Rat) → List Val → Option Rat
  | [], _ => none
  | (k, v) :: r, key => if k = key then some v else tableGet r key

def mkFactor (name : String) (dim : Nat) (params : List String) (tbl : List (List Val × Rat)) : Factor Val LV where
  name := name
  params := params
  dim := dim
  f := fun env =>
    match (name :: params).mapM env with
    | none => ⟨0, 1⟩
    | some key => match tableGet tbl key with
      | some r => ⟨r, 0⟩
      | none => ⟨0, 1⟩

def parseDens (s : String) : Option (Dens Val LV) :=
  match s.splitOn ";" with
  | ["F", name, dim, params, tbl] => do
    let d ← dim.toNat?
    let ps ← parseNames params
    let t ← parseTable tbl
    pure (fresh (mkFactor name d ps t))
  | ["L", name, dim, params, data, tbl] => do
    let d ← dim.toNat?
    let ps ← parseNames params
    let t ← parseTable tbl
    let dv ← parseVal data
    pure (toLik (mkFactor name d ps t) (fun _ => none) 0 dv)
  | _ => none

def parsePos (s : String) : Option (List Val) :=
  if s = "." then some [] else (s.splitOn "&").mapM parseVal

def parseKw (s : String) : Option (Kw Val) :=
  if s = "." then some [] else
    (s.splitOn "&").mapM (fun e => match e.splitOn "=" with
      | [k, v] => (fun x => (k, x)) <$> parseVal v
      | _ => none)

def fmtNames (l : List String) : String := if l.isEmpty then "." else ",".intercalate l

def fmtObj (o : Obj Val LV) : String := o.kind ++ ":" ++ fmtNames o.paramNames

def fmtErr (e : Err) : String := "err:" ++ e.toString

/-- run the calls; on an error the current object is unchanged -/
def runCalls : Obj Val LV → List String → List String → Option (List String × Obj Val LV)
  | o, [], acc => some (acc.reverse, o)
  | o, c :: cs, acc =>
    match c.splitOn ";" with
    | [op, pos, kw] =>
      match parsePos pos, parseKw kw with
      | some p, some k =>
        if op = "C" then
          match o.cond p k with
          | .ok o' => runCalls o' cs (fmtObj o' :: acc)
          | .error e => runCalls o cs (fmtErr e :: acc)
        else if op = "c" then   -- probe: report the result of the conditioning call, keep the object
          match o.cond p k with
          | .ok o' => runCalls o cs (fmtObj o' :: acc)
          | .error e => runCalls o cs (fmtErr e :: acc)
        else if op = "E" then
          match o.logd p k with
          | .ok r => runCalls o cs ((if r.miss = 0 then "val:" ++ fmtRat r.v else "?") :: acc)
          | .error e => runCalls o cs (fmtErr e :: acc)
        else if op = "D" then   -- BayesianProblem.set_data(**kw)
          match o.setData k with
          | .ok o' => runCalls o' cs (fmtObj o' :: acc)
          | .error e => runCalls o cs (fmtErr e :: acc)
        else if op = "P" || op = "AL" || op = "AP" then
          -- problem.posterior / .likelihood / .prior followed by .logd(*pos, **kw); the target is kept
          match (if op = "P" then o.posterior else if op = "AL" then o.likelihood else o.prior) with
          | .error e => runCalls o cs (fmtErr e :: acc)
          | .ok part =>
            match part.logd p k with
            | .ok r => runCalls o cs ((if r.miss = 0 then "val:" ++ fmtRat r.v else "?") :: acc)
            | .error e => runCalls o cs (fmtErr e :: acc)
        else none
      | _, _ => none
    | ["Q"] =>   -- accessors: _get_fixed_variables(), dim, get_density(name) for every density
      match o with
      | .joint fl ds =>
        let kindOf (d : Dens Val LV) : String := match d with | .dist .. => "D" | .lik .. => "L" | .eval .. => "E"
        let dens := ds.map (fun d => match d.name with
          | some n => (match getDensity ds n with | .ok d' => n ++ "=" ++ kindOf d' | .error _ => n ++ "=?")
          | none => "?")
        match flavorDim fl ds with
        | .error e => runCalls o cs (fmtErr e :: acc)
        | .ok dims =>
          let rec_ := "q:" ++ fmtNames ((jointFixed ds).map (fun n => n.getD "?")) ++ "!" ++ fmtNatList dims
            ++ "!" ++ fmtNames dens
          runCalls o cs (rec_ :: acc)
      | _ => runCalls o cs ("err:AttributeError" :: acc)
    | ["S"] =>
      match o.asStacked with
      | .ok o' => runCalls o' cs (fmtObj o' :: acc)
      | .error e => runCalls o cs (fmtErr e :: acc)
    | ["N", n] =>
      match o.setName n with
      | .ok o' => runCalls o' cs (fmtObj o' :: acc)
      | .error e => runCalls o cs (fmtErr e :: acc)
    | _ => none

def splitAtSep : List String → List String → List String × List String
  | [], acc => (acc.reverse, [])
  | "--" :: r, acc => (acc.reverse, r)
  | t :: r, acc => splitAtSep r (t :: acc)

/-! ### attribute-level programs on ONE distribution (`Model/C01_attrs.lean`)

  `attr <name> <attr> ... -- <call> ...`

* `<attr>` = `key=N` (`None`), `key=V<tag>` (a constant), `key=F<id>:a,b` (callable `id` with
  non-default arguments `a,b`; `F<id>:.` for none)
* calls: `C;pos;kw` condition and go on with the result, `c;pos;kw` condition, keep the object, `E;pos;kw` `logd`

Output records (`;`-separated, first the initial object):
`Kind!names!key:state|key:state[!data]`, `EvaluatedDensity!.!<terms>`, `val:<terms>`, `err:Class`, with
state = `N` | `Vc<tag>` | `Vg<vec>` | `Va<id>(<vec>&..)` | `F<id>(k=<vec>&..~rem,names)` and
`<terms>` = `+`-separated `pdf[key:state|..]@<vec>` (the family's logpdf with these attribute values at this point).
-/

/-- symbolic log-density values: a sum of family `logpdf` calls -/
abbrev SymK := List String

instance : Add SymK := ⟨fun a b => a ++ b⟩
instance : Zero SymK := ⟨[]⟩

def fmtAVal : AVal Val → String
  | .const t => "Vc" ++ toString t
  | .given v => "Vg" ++ fmtVec v
  | .app f vs => "Va" ++ toString f ++ "(" ++ "&".intercalate (vs.map fmtVec) ++ ")"

def fmtAttr : Attr Val → String
  | .val a => fmtAVal a
  | .none => "N"
  | .fn f sig bound =>
    "F" ++ toString f ++ "(" ++ "&".intercalate (bound.map (fun kv => kv.1 ++ "=" ++ fmtVec kv.2)) ++ "~"
      ++ ",".intercalate (remArgs sig bound) ++ ")"

def fmtAttrs (as : List (String × String)) : String :=
  if as.isEmpty then "." else "|".intercalate (as.map (fun ka => ka.1 ++ ":" ++ ka.2))

def symPdf (vs : List (Name × AVal Val)) (x : Val) : SymK :=
  ["pdf[" ++ fmtAttrs (vs.map (fun ka => (ka.1, fmtAVal ka.2))) ++ "]@" ++ fmtVec x]

def fmtSym (k : SymK) : String := if k.isEmpty then "0" else "+".intercalate k

def fmtARes : ARes Val SymK → String
  | .dist d => "Distribution!" ++ fmtNames (acondVars d.attrs ++ [d.name]) ++ "!"
      ++ fmtAttrs (d.attrs.map (fun ka => (ka.1, fmtAttr ka.2)))
  | .lik d data => "Likelihood!" ++ fmtNames (acondVars d.attrs) ++ "!"
      ++ fmtAttrs (d.attrs.map (fun ka => (ka.1, fmtAttr ka.2))) ++ "!" ++ fmtVec data
  | .eval _ v => "EvaluatedDensity!.!" ++ fmtSym v

def parseAttr (s : String) : Option (Name × Attr Val) :=
  match s.splitOn "=" with
  | [k, r] =>
    if r = "N" then some (k, .none)
    else if r.startsWith "V" then (r.drop 1).toNat?.map (fun t => (k, .val (.const t)))
    else if r.startsWith "F" then
      match (r.drop 1).toString.splitOn ":" with
      | [id, sig] => do
        let i ← id.toNat?
        let sg ← parseNames sig
        pure (k, .fn i sg [])
      | _ => none
    else none
  | _ => none

def runACalls : ARes Val SymK → List String → List String → Option (List String)
  | _, [], acc => some acc.reverse
  | o, c :: cs, acc =>
    match c.splitOn ";" with
    | [op, pos, kw] =>
      match parsePos pos, parseKw kw with
      | some p, some k =>
        if op = "C" then
          match o.cond p k with
          | .ok o' => runACalls o' cs (fmtARes o' :: acc)
          | .error e => runACalls o cs (fmtErr e :: acc)
        else if op = "c" then
          match o.cond p k with
          | .ok o' => runACalls o cs (fmtARes o' :: acc)
          | .error e => runACalls o cs (fmtErr e :: acc)
        else if op = "E" then
          match o.logd p k with
          | .ok r => runACalls o cs (("val:" ++ fmtSym r) :: acc)
          | .error e => runACalls o cs (fmtErr e :: acc)
        else none
      | _, _ => none
    | _ => none

def step : List String → String
  | "attr" :: name :: rest =>
    let (atoks, calls) := splitAtSep rest []
    match atoks.mapM parseAttr with
    | none => "bad-op"
    | some as =>
      let o : ARes Val SymK := .dist { name := name, attrs := as, pdf := symPdf, c := 0 }
      match runACalls o calls [fmtARes o] with
      | some recs => ";".intercalate recs
      | none => "bad-op"
  | "prog" :: rest =>
    let (dtoks, calls) := splitAtSep rest []
    match dtoks.mapM parseDens with
    | none => "bad-op"
    | some ds =>
      match mkJoint ds with
      | .error e => fmtErr e
      | .ok o =>
        match runCalls o calls [fmtObj o] with
        | some (recs, _) => ";".intercalate recs
        | none => "bad-op"
  /- staged assembly: `prog2 <dens> -- <calls> ++ <dens> -- <calls>`: the first joint is built and conditioned, the densities
     of the result (those of a joint, or the single density with its constants) are put, followed by the fresh densities of the
     second group, into a second `JointDistribution(...)`, on which the second list of calls runs -/
  | "prog2" :: rest =>
    let (st1, st2) := (fun (p : List String × List String) => p) (
      let rec go : List String → List String → List String × List String
        | [], acc => (acc.reverse, [])
        | "++" :: r, acc => (acc.reverse, r)
        | t :: r, acc => go r (t :: acc)
      go rest [])
    let (d1, c1) := splitAtSep st1 []
    let (d2, c2) := splitAtSep st2 []
    match d1.mapM parseDens, d2.mapM parseDens with
    | some ds1, some ds2 =>
      match mkJoint ds1 with
      | .error e => fmtErr e
      | .ok o1 =>
        match runCalls o1 c1 [fmtObj o1] with
        | none => "bad-op"
        | some (recs1, o1') =>
          let pieces : Option (List (Dens Val LV)) := match o1' with
            | .joint _ ds => some ds
            | .single d => some [d]
            | _ => none
          match pieces with
          | none => "bad-op"
          | some ps =>
            match mkJoint (ps ++ ds2) with
            | .error e => ";".intercalate (recs1 ++ [fmtErr e])
            | .ok o2 =>
              match runCalls o2 c2 [fmtObj o2] with
              | some (recs2, _) => ";".intercalate (recs1 ++ recs2)
              | none => "bad-op"
    | _, _ => "bad-op"
  | _ => "bad-op"

def main : IO Unit := runDriver step
