import CuqiVerif.Model.Proto
import CuqiVerif.Model.C11
import CuqiVerif.Model.C11_geom
import CuqiVerif.Model.C11_gibbs
import CuqiVerif.Model.C11_args
open CuqiVerif CuqiVerif.Proto CuqiVerif.C11

/-!
  Line protocol (one program per line):  `prog <objects> <ops>`

  objects  `;`-separated, in address order:  `cls:field=val,field=val`   (cls = class letter)
  values   `n<int>` | `r<addr>` | `R<a.b.c>` | `u<key>` | `f<id>/<free.free>` | `i<a.b>` | `-`
  ops      `;`-separated: `c:<obj>:<kw>` condition, `l:<obj>:<kw>` logd, `g:<obj>` gradient, `s:<obj>` sample,
           `t:<obj>:<data>` to_likelihood, `a:<model>:<dist>` model(dist), `G:<obj>:<sweeps>` Gibbs conditioning stream,
           `j:<obj>,<obj>,…` JointDistribution(objs)
           `<obj>` = `@k` (address k) or `$k` (object returned by op number k); kw = `k=v&k=v` or `.`
  output   per op `kind:parnames:name:allocs:escapes:fp` joined by `;` then `|` and the end-of-program
           sibling check (`1` iff the fingerprint of every object returned by an op is the one it had when returned).
-/

def clsOfLetter : String → Option Cls
  | "d" => some .dist | "n" => some .lognormal | "r" => some .reggauss | "L" => some .lik | "E" => some .eval
  | "J" => some .joint | "P" => some .post | "M" => some .mlp | "A" => some .model | "g" => some .geom | "c" => some .cache
  | "a" => some .arr
  | _ => none

def fldOfName : String → Option Fld
  | "fam" => some .fam | "name" => some .name | "const" => some .const | "orig" => some .orig | "geom" => some .geom
  | "s0" => some (.slot 0) | "s1" => some (.slot 1) | "s2" => some (.slot 2) | "s3" => some (.slot 3)
  | "distr" => some .distr | "data" => some .data | "value" => some .value | "dens" => some .dens | "lik" => some .lik
  | "prior" => some .prior | "gauss" => some .gauss | "args" => some .args | "mvars" => some .mvars | "vname" => some .vname
  | "cacheG" => some .cacheG | "cmean" => some .cmean | "ccov" => some .ccov | "syncName" => some .syncName
  | "cval" => some .cval | "arrv" => some .arrv
  | _ => none

def natList (s : String) : Option (List Nat) :=
  if s = "" then some [] else (s.splitOn ".").mapM (·.toNat?)

def parseVal (s : String) : Option Val :=
  if s = "-" then some .none
  else
    let rest := (s.drop 1).toString
    match (s.take 1).toString with
    | "n" => Val.num <$> rest.toInt?
    | "r" => Val.ref <$> rest.toNat?
    | "R" => Val.refs <$> natList rest
    | "u" => Val.unset <$> rest.toNat?
    | "i" => Val.ids <$> natList rest
    | "f" => (match rest.splitOn "/" with
              | [id, free] => do
                  let i ← id.toNat?
                  let fr ← natList free
                  some (Val.fn i fr [])
              | _ => none)
    | _ => none

def parseObj (s : String) : Option Obj :=
  match s.splitOn ":" with
  | [c, fs] => do
      let cls ← clsOfLetter c
      let pairs ← (if fs = "" then some [] else (fs.splitOn ",").mapM (fun p =>
        match p.splitOn "=" with
        | [f, v] => do
            let fld ← fldOfName f
            let val ← parseVal v
            some (fld, val)
        | _ => none))
      some (Obj.ofList cls pairs)
  | _ => none

def parseKw (s : String) : Option Kw :=
  if s = "." then some [] else (s.splitOn "&").mapM (fun p =>
    match p.splitOn "=" with
    | [k, v] => do
        let kk ← k.toNat?
        let vv ← v.toInt?
        some (kk, vv)
    | _ => none)

/-- resolve `@k` / `$k` given the results of the previous ops -/
def resolve (results : Array Res) (s : String) : Option Nat :=
  let rest := (s.drop 1).toString
  match (s.take 1).toString with
  | "@" => rest.toNat?
  | "$" => do
      let k ← rest.toNat?
      match results.getD k .err with
      | .obj a => some a
      | _ => none
  | _ => none

inductive POp | op (o : Op) | xop (o : XOp) | gibbs (a : Nat) (sweeps : Nat) | sampler (a : Nat) (hybrid : Bool) (nb ns : Nat) | skip | cfg

def parseOp (results : Array Res) (s : String) : Option POp :=
  match s.splitOn ":" with
  | ["c", o, kw] => (match resolve results o, parseKw kw with
                     | some a, some k => some (.op (.cond a k)) | none, some _ => some .skip | _, _ => none)
  | ["l", o, kw] => (match resolve results o, parseKw kw with
                     | some a, some k => some (.op (.logd a k)) | none, some _ => some .skip | _, _ => none)
  | ["g", o] => (match resolve results o with | some a => some (.op (.grad a)) | none => some .skip)
  | ["s", o] => (match resolve results o with | some a => some (.op (.sample a)) | none => some .skip)
  | ["t", o, d] => (match resolve results o, d.toInt? with
                    | some a, some k => some (.op (.tolik a k)) | none, some _ => some .skip | _, _ => none)
  | ["a", m, d] => (match resolve results m, resolve results d with
                    | some a, some b => some (.op (.apply a b)) | _, _ => some .skip)
  | ["j", os] => (match (os.splitOn ",").mapM (resolve results) with
                  | some as => some (.op (.mkjoint as)) | none => some .skip)
  -- configuration step of the harness (`enable_FD` / `disable_FD`): not an operation of the property; no modelled
  -- operation reads or writes the finite-difference option, so the heap is unchanged
  | ["F", _, _] => some .cfg
  -- positional forms: `p:<obj>:<v.v | ->:<kw>` = obj(*args, **kw); `q:<model>:<ref,ref | ->:<key=ref&… | .>` = model(*pos, **kw)
  | ["p", o, args, kw] => (match resolve results o, (if args = "-" then some [] else (args.splitOn ".").mapM (·.toInt?)), parseKw kw with
                           | some a, some as, some k => some (.xop (.condArgs a as k)) | none, some _, some _ => some .skip | _, _, _ => none)
  | ["q", m, pos, kw] =>
    let posL := if pos = "-" then some [] else (pos.splitOn ",").mapM (resolve results)
    let kwL := if kw = "." then some [] else (kw.splitOn "&").mapM (fun p => match p.splitOn "=" with
      | [k, r] => do
          let kk ← k.toNat?
          let d ← resolve results r
          some (kk, d)
      | _ => none)
    (match resolve results m, posL, kwL with
     | some a, some ps, some ks => some (.xop (.applyArgs a ps ks)) | _, _, _ => some .skip)
  -- a real sampler run: `S:<obj>:<L|H>:<Nb>:<Ns>` (legacy Gibbs / HybridGibbs constructor + warmup + sampling)
  | ["S", o, kind, nb, ns] => (match resolve results o, nb.toNat?, ns.toNat? with
                               | some a, some b, some n => if kind = "L" then some (.sampler a false b n) else if kind = "H" then some (.sampler a true b n) else none
                               | none, some _, some _ => some .skip | _, _, _ => none)
  | ["G", o, n] => (match resolve results o, n.toNat? with
                    | some a, some k => some (.gibbs a k) | none, some _ => some .skip | _, _ => none)
  | _ => none

def fuel : Nat := 4

def parNamesAny (s : St) (a : Nat) : List Nat :=
  match s.cls a with
  | .joint | .mlp => (match s.get a .dens with | .refs ds => s.jointParNames ds | _ => [])
  | .post => (match s.get a .prior with | .ref p => s.parNamesDens p | _ => [])
  | .model => (match s.get a .args with | .ids ns => ns | _ => [])
  | _ => s.parNamesDens a

def fmtNats (l : List Nat) : String := if l.isEmpty then "-" else ".".intercalate (l.map toString)

def fmtName (v : Val) : String := match valNat v with | some k => toString k | none => "-"

def fmtEsc (l : List (Nat × Fld)) : String :=
  if l.isEmpty then "-" else ",".intercalate (l.map (fun w => s!"{w.1}.{w.2.toString}"))

def allocLetters (s0 s1 : St) : String :=
  String.join ((List.range (s1.size - s0.size)).map (fun i => (s1.cls (s0.size + i)).letter))

/-- fingerprints of the original objects (addresses below `n0`) -/
def fpOrig (n0 : Nat) (s : St) : List String := (List.range n0).map (fun a => (fp n0 fuel s a).toString)

def describe (n0 : Nat) (fp0 : List String) (s0 s1 : St) (r : Res) : String :=
  let esc := fmtEsc (escapes s0.size s1 s0.log.length)
  let al := allocLetters s0 s1
  let ok := fmtBool (fpOrig n0 s1 == fp0)
  match r with
  | .err => s!"e:::{al}:{esc}:{ok}"
  | .unit => s!"u:::{al}:{esc}:{ok}"
  | .val _ => s!"v:::{al}:{esc}:{ok}"
  | .obj a =>
    let fresh := if a < s0.size then "=" else "+"
    s!"{(s1.cls a).letter}{fresh}:{fmtNats (parNamesAny s1 a)}:{fmtName (s1.nameAny a)}:{al}:{esc}:{ok}"

structure PAcc where
  s : St
  results : Array Res
  outs : Array String
  /-- (address, watermark, fingerprint when returned) of every object returned by an op -/
  made : List (Nat × Nat × String)
  bad : Bool

def stepOp (n0 : Nat) (fp0 : List String) (acc : PAcc) (txt : String) : PAcc :=
  match parseOp acc.results txt with
  | none => { acc with bad := true }
  | some .skip => { acc with results := acc.results.push .err, outs := acc.outs.push "skip" }
  | some .cfg => { acc with results := acc.results.push .unit, outs := acc.outs.push "cfg" }
  | some (.xop o) =>
    let (s1, r) := acc.s.runX o
    let made := match r with
      | .obj a => if a < acc.s.size then acc.made else (a, s1.size, (fp s1.size fuel s1 a).toString) :: acc.made
      | _ => acc.made
    { acc with s := s1, results := acc.results.push r, outs := acc.outs.push (describe n0 fp0 acc.s s1 r), made := made }
  | some (.op o) =>
    let (s1, r) := acc.s.run o
    let made := match r with
      | .obj a => if a < acc.s.size then acc.made else (a, s1.size, (fp s1.size fuel s1 a).toString) :: acc.made
      | _ => acc.made
    { acc with s := s1, results := acc.results.push r, outs := acc.outs.push (describe n0 fp0 acc.s s1 r), made := made }
  | some (.sampler a hybrid nb ns) =>
    -- the stream the sampler issues; the "values" are the chain indices of the samples passed (Gauss-Seidel order)
    let (s1, r) := acc.s.run (.cond a [])
    match r with
    | .obj t =>
      let pars := s1.targetParNames t
      let ver := if hybrid then versionHybrid pars else versionLegacy pars
      let val := fun k p q => (ver k p q : Int)
      let (s2, _) := if hybrid then acc.s.hybridGibbs a nb ns val else acc.s.legacyGibbs a nb ns val
      let nsw := (if hybrid then 1 else 0) + nb + ns
      let calls := (List.range nsw).flatMap (fun k => pars.map (fun p =>
        s!"{p}>" ++ ".".intercalate ((pars.filter (· ≠ p)).map (fun q => s!"{q}={ver k p q}"))))
      let esc := fmtEsc (escapes acc.s.size s2 acc.s.log.length)
      let ok := fmtBool (fpOrig n0 s2 == fp0)
      let tOk := fmtBool ((fp s1.size fuel s2 t).toString == (fp s1.size fuel s1 t).toString)
      let fresh := fmtBool (decide (acc.s.size ≤ t))
      { acc with s := s2, results := acc.results.push .unit,
                 outs := acc.outs.push s!"S:{fmtNats pars}:{(streamOps t pars val nsw).length}:{fresh}:{(s1.cls t).letter}:{esc}:{ok}{tOk}:{",".intercalate calls}" }
    | _ => { acc with s := s1, results := acc.results.push .err, outs := acc.outs.push "e:::::" }
  | some (.gibbs a sweeps) =>
    -- `target()` then the conditioning stream; values vary with sweep and parameter
    let (s1, r) := acc.s.run (.cond a [])
    match r with
    | .obj t =>
      let pars := parNamesAny s1 t
      let ops := gibbsOps t pars (fun k q => (k : Int) * 7 + (q : Int) + 1) sweeps
      let s2 := s1.runAll ops
      let esc := fmtEsc (escapes acc.s.size s2 acc.s.log.length)
      let ok := fmtBool (fpOrig n0 s2 == fp0)
      let tOk := fmtBool ((fp s1.size fuel s2 t).toString == (fp s1.size fuel s1 t).toString)
      { acc with s := s2, results := acc.results.push .unit,
                 outs := acc.outs.push s!"G:{fmtNats pars}:{ops.length}:{s2.size - acc.s.size}:{esc}:{ok}{tOk}" }
    | _ => { acc with s := s1, results := acc.results.push .err, outs := acc.outs.push "e:::::" }

def runProg (objs ops : String) : String :=
  match (objs.splitOn ";").mapM parseObj with
  | none => "bad-op"
  | some os =>
    let s0 : St := { heap := os.toArray, log := [] }
    let n0 := s0.size
    let fp0 := fpOrig n0 s0
    let acc := (ops.splitOn ";").foldl (stepOp n0 fp0) { s := s0, results := #[], outs := #[], made := [], bad := false }
    if acc.bad then "bad-op"
    else
      let sib := acc.made.all (fun (a, n, f) => (fp n fuel acc.s a).toString == f)
      ";".intercalate acc.outs.toList ++ "|" ++ fmtBool sib


/-!
  Second line protocol — lazily inferred geometry (`Model/C11_geom.lean`):  `geo <objects> <ops>`

  objects  `;`-separated; distributions, geometries and models have separate address spaces (order of appearance):
             `D:<family>:<name>:<geometry address>:<slots>`   slots `,`-separated `u<key>` | `f<free.free>` | `v<len>`, or `-`
             `G:<par_dim or ->`       `M:<domain dim>`
  ops      `;`-separated: `c:<dist>:<kw>` condition (kw = `key=len&key=len` or `.`), `d:<dist>` dim, `g:<dist>` gradient,
           `s:<dist>` sample, `l:<dist>:<kw>` logd, `a:<model>:<dist>` model(dist);  `<dist>` = `@k` | `$k` (result of op k)
  output   per op `<result>:<receiver's _geometry re-bound 0/1>` joined by `;`, then `|` and, for every original and every
           distribution returned by an op (in that order), `<canonical geometry id>.<par_dim or ->.<_variable_name or ->`.
-/
namespace GeoDrv
open CuqiVerif.C11.Geo

def famOf : String → Option Fam
  | "gamma" => some .gamma | "beta" => some .beta | "cauchy" => some .cauchy | "invgamma" => some .invgamma
  | "laplace" => some .laplace | "normal" => some .normal
  | _ => none

def parseMV (s : String) : Option MV :=
  let rest := (s.drop 1).toString
  match (s.take 1).toString with
  | "u" => MV.unset <$> rest.toNat?
  | "v" => MV.val <$> rest.toNat?
  | "f" => (fun fr => MV.fn fr 0) <$> natList rest
  | _ => none

inductive PObj | d (x : D) | g (x : G) | m (x : M)

def parseObj (s : String) : Option PObj :=
  match s.splitOn ":" with
  | ["D", fam, name, geo, slots] => do
      let f ← famOf fam
      let n ← name.toNat?
      let g ← geo.toNat?
      let sl ← (if slots = "-" then some [] else (slots.splitOn ",").mapM parseMV)
      some (.d ⟨f, n, g, sl⟩)
  | ["G", dim] => if dim = "-" then some (.g ⟨none, none⟩) else (fun k => PObj.g ⟨some k, none⟩) <$> dim.toNat?
  | ["M", dom] => (fun k => PObj.m ⟨k, []⟩) <$> dom.toNat?
  | _ => none

def parseKw (s : String) : Option Geo.Kw :=
  if s = "." then some [] else (s.splitOn "&").mapM (fun p =>
    match p.splitOn "=" with
    | [k, v] => do
        let kk ← k.toNat?
        let vv ← v.toNat?
        some (kk, vv)
    | _ => none)

def resolveD (results : Array Geo.Res) (s : String) : Option Nat :=
  let rest := (s.drop 1).toString
  match (s.take 1).toString with
  | "@" => rest.toNat?
  | "$" => do
      let k ← rest.toNat?
      match results.getD k (.err .valueError) with
      | .objD a => some a
      | _ => none
  | _ => none

def resolveM (results : Array Geo.Res) (s : String) : Option Nat :=
  let rest := (s.drop 1).toString
  match (s.take 1).toString with
  | "@" => rest.toNat?
  | "$" => do
      let k ← rest.toNat?
      match results.getD k (.err .valueError) with
      | .objM a => some a
      | _ => none
  | _ => none

def parseOp (results : Array Geo.Res) (s : String) : Option (Option Geo.Op) :=
  match s.splitOn ":" with
  | ["c", o, kw] => (match resolveD results o, parseKw kw with
                     | some a, some k => some (some (.cond a k)) | none, some _ => some none | _, _ => none)
  | ["l", o, kw] => (match resolveD results o, parseKw kw with
                     | some a, some k => some (some (.logd a k)) | none, some _ => some none | _, _ => none)
  | ["d", o] => some ((resolveD results o).map Geo.Op.dim)
  | ["g", o] => some ((resolveD results o).map Geo.Op.grad)
  | ["s", o] => some ((resolveD results o).map Geo.Op.sample)
  | ["a", m, o] => (match resolveM results m, resolveD results o with
                    | some mm, some a => some (some (.apply mm a)) | _, _ => some none)
  | _ => none

def fmtRes : Geo.Res → String
  | .dim n => s!"n{n}" | .objD _ => "D" | .objM _ => "M" | .val => "v"
  | .err .typeError => "eT" | .err .valueError => "eV" | .err .notImplemented => "eN"

def fmtOpt : Option Nat → String | some k => toString k | none => "-"

structure Acc where
  s : Geo.St
  results : Array Geo.Res
  outs : Array String
  tracked : Array Nat
  bad : Bool

def stepOp (acc : Acc) (txt : String) : Acc :=
  match parseOp acc.results txt with
  | none => { acc with bad := true }
  | some none => { acc with results := acc.results.push (.err .valueError), outs := acc.outs.push "skip" }
  | some (some op) =>
    if op.recv ≥ acc.s.nD then { acc with bad := true } else
    let g0 := (acc.s.dist op.recv).geo
    let (s1, r) := acc.s.run op
    let rebound := fmtBool ((s1.dist op.recv).geo != g0)
    let tracked := match r with | .objD a => acc.tracked.push a | _ => acc.tracked
    { acc with s := s1, results := acc.results.push r, outs := acc.outs.push s!"{fmtRes r}:{rebound}", tracked := tracked }

def summary (s : Geo.St) (tracked : List Nat) : String :=
  let geos := tracked.map (fun a => (s.dist a).geo)
  let canon := geos.foldl (fun (acc : List Nat) g => if acc.contains g then acc else acc ++ [g]) []
  ",".intercalate (tracked.map (fun a =>
    let g := (s.dist a).geo
    s!"{(canon.idxOf g)}.{fmtOpt (s.geo g).dim}.{fmtOpt (s.geo g).vname}"))

def runProg (objs ops : String) : String :=
  match (objs.splitOn ";").mapM parseObj with
  | none => "bad-op"
  | some os =>
    let ds := os.filterMap (fun o => match o with | .d x => some x | _ => none)
    let gs := os.filterMap (fun o => match o with | .g x => some x | _ => none)
    let ms := os.filterMap (fun o => match o with | .m x => some x | _ => none)
    if ds.any (fun d => d.geo ≥ gs.length) then "bad-op" else
    let s0 : Geo.St := { nD := ds.length, dist := fun a => ds.getD a default, nG := gs.length, geo := fun a => gs.getD a default,
                         nM := ms.length, mdl := fun a => ms.getD a default, log := [] }
    let acc := (ops.splitOn ";").foldl stepOp { s := s0, results := #[], outs := #[], tracked := (List.range ds.length).toArray, bad := false }
    if acc.bad then "bad-op" else ";".intercalate acc.outs.toList ++ "|" ++ summary acc.s acc.tracked.toList

end GeoDrv

def step : List String → String
  | ["prog", objs, ops] => runProg objs ops
  | ["geo", objs, ops] => GeoDrv.runProg objs ops
  | _ => "bad-op"

def main : IO Unit := runDriver step
