import CuqiVerif.Model.Proto
import CuqiVerif.Model.QMat
import CuqiVerif.Model.RExpr
import CuqiVerif.Model.C07
import CuqiVerif.Model.C17
import CuqiVerif.Model.C17_psf
import CuqiVerif.Model.C17_phantom
import CuqiVerif.Model.C17_grids
import CuqiVerif.Model.C17_state
import CuqiVerif.Model.C17_options
open CuqiVerif CuqiVerif.Proto CuqiVerif.C07 CuqiVerif.C17

/-!
Line protocol of the C17 model (R = Rat).

  dc1   <BC> <n> <P>            -> `asm=<mat> doc=<mat>`  stored `Deconvolution1D` matrix / matrix of the documented operator | `err`
  dc1x  <BC> <n> <P> <x>        -> `asm=<vec> doc=<vec>`  stored matrix applied to x / `docConv1` (function form) | `err`
  leg   <n> <P>                 -> `asm=<mat> doc=<mat>`  legacy Toeplitz matrix / documented circulant | `err`
  legh  <n> <h>                 -> the same for a named legacy PSF given by its wrapped kernel `h` (leaf)
  dc2   <BC> <n> <P> <X>        -> `docConv2` applied to the flattened image X (function form) | `err` | `err:nonsquare`
  dc2m  <BC> <n> <P>            -> `asm=<mat> doc=<mat>`  C07's `conv2` matrix / columns of `docConv2` on unit images
  poisson <N> <dx> <kappa> <rhs> <obs> -> `same=<0|1> u=<vec>` (solution of the documented system restricted to obs) | `singular`
  heat  <N> <endpoint> <maxTime> <u0> <obs> -> `iters=<k> same=<0|1> u=<vec>`
  heatk <N> <dx> <dt> <k> <u0> <obs> -> `same=<0|1> u=<vec>` (given step count/size)
  abel  <n> <endpoint>          -> `asm=<mat> doc=<mat>` squares of the entries
  wang  <x0> <x1>               -> `f=<q> j=<q>,<q> d=<q>,<q>` (forward, coded Jacobian, symbolic derivative)
  wangopt <data|none> <std|none> -> `data=<q> std=<q>` the data / noise level the problem must use
  noise <type> <sigma> <y> <xi> -> `path=<vec> doc=<vec>` | `err:zero-cov` | `err:type`
  snr   <sigma> <snr> <tol> <y> <xi> -> `ok=<0|1> data=<vec>`
  quad  <cov> <dev>             -> `Σ dev²/cov`  (cov of length 1 is broadcast)
  comp  <problem>               -> `model=… data=… exactSolution=… exactData=… info=<0|1> misc=<0|1> path=…`
  cap   <word>                  -> python `str.capitalize`
  psf1  <dim> <name> <param|none> <size|none> <gtab|_> -> `P=<vec> c=<k>` | `nan` | `raises:<cls>`  named 1-D PSF through the option glue
                                   (gtab: leaf values exp(-n/(2 p^2)), n = 0,1,2,…, only read for 'gauss')
  psf2  <name> <param> <size> <gtab|_>                 -> `P=<mat> c=<i>,<j>` | `nan` | `raises:<cls>`
  dc1n  <BC> <dim> <name> <param|none> <size|none> <gtab|_> -> `asm=<mat>` stored Deconvolution1D matrix for a named PSF | `err` | `nan` | `raises:<cls>`
  docdef1 <size> <param>        -> `P=<vec>` documented closed disc about entry size/2, normalised | `nan`
  docdef2 <size> <param>        -> `P=<mat>` | `nan`
  grids poisson <dim> <endpoint>      -> `src=<vec> sol=<vec> dom=<vec> fd=<vec>`  (source nodes, grid_sol, field grid, nodes of the difference scheme)
  grids heat <dim> <endpoint> <maxTime> -> `x=<vec> k=<iters> t=<vec>`
  grids abel <n> <endpoint>           -> `t=<vec> geom=<vec>`
  hist  <lik,data,model,prior> <ops>  -> `lik=<id> data=<id> model=<id> prior=<id> refused=<n>` after the history; ops `;`-separated: `P<id>` (tp.prior = …), `L<lik>,<data>,<model>` (tp.likelihood = …), `D` (set_data)
  d1opts <dim> <legacy 0|1> <BC> <PSF_size|none> <PSF> <PSF_param==0 0|1> <phantom> <phantom refused 0|1> <noise_type> -> `ok` | `raises:<cls>`
                                   PSF / phantom: `A<ndim>,<len>` (ndarray) | `S<string>` | `O` (anything else)
  d2opts <BC> <PSF: Q|N|S<name>|O> <PSF_param==0 0|1> <phantom: I<ndim>|V<len>|S<0|1><name>|O> <noise_type> -> `ok` | `raises:<cls>`  (Deconvolution2D)
  phantom <name> <dim> <param|none> -> `x=<vec>` | `nan` | `raises:<cls>` | `leaf` (not an exactly computable phantom)
-/

abbrev Q := Rat

def toArr (m : List (List Rat)) : Array (Array Rat) := (m.map List.toArray).toArray
def vecFn (v : List Rat) : Nat → Q := let a := v.toArray; fun i => a.getD i 0
def matFn (m : List (List Rat)) : Nat → Nat → Q := let a := toArr m; fun i j => (a.getD i #[]).getD j 0
def tab (n : Nat) (f : Nat → Q) : List Q := (List.range n).map f
def fmtL (M : LMat Q) : String := if M.rows = 0 ∨ M.cols = 0 then "_" else fmtMat M.toList

def rectangular (m : List (List Rat)) : Option (Nat × Nat) :=
  match m with
  | [] => some (0, 0)
  | r :: rs => if rs.all (fun x => x.length == r.length) then some (m.length, r.length) else none

def objS : Obj → String
  | .model => "model" | .data => "data" | .prior => "prior" | .dataDist => "dataDist"
  | .likelihood => "likelihood" | .posterior => "posterior" | .exactSolution => "exactSolution"
  | .exactData => "exactData" | .info => "info" | .absent => "None"

def parseProblem : String → Option Problem
  | "Deconvolution1D" => some .deconv1D | "Deconvolution2D" => some .deconv2D
  | "Poisson1D" => some .poisson1D | "Heat1D" => some .heat1D | "Abel1D" => some .abel1D
  | "WangCubic" => some .wangCubic | _ => none

def pick (v : List Q) (idx : List Nat) : List Q := let a := v.toArray; idx.map (fun i => a.getD i 0)

/-- leaf `t ↦ exp(-t/2)` from the table `v_n = exp(-n/(2p²))`: `g (n/p²) = v_n` -/
def gLeaf (tab : List Rat) (p : Rat) : Rat → Rat :=
  let a := tab.toArray
  fun t => let n := t * (p * p); if n.den = 1 ∧ 0 ≤ n.num then a.getD n.num.toNat 0 else 0

def parseOptRat (t : String) : Option (Option Rat) := if t = "none" then some none else (parseRat t).map some
def parseOptNat (t : String) : Option (Option Nat) := if t = "none" then some none else t.toNat?.map some
def parseTab (t : String) : Option (List Rat) := if t = "_" then some [] else parseVec t
def piLeaf : Rat := 22 / 7

def fmtPsf1 (size : Nat) : Psf1 Rat → String
  | .ok P c => s!"P={fmtVec (tab size P)} c={c}"
  | .nan _ => "nan"
  | .raises cls => s!"raises:{cls}"

def fmtPsf2 (size : Nat) : Psf2 Rat → String
  | .ok P c0 c1 => s!"P={fmtMat ((List.range size).map (fun i => tab size (P i)))} c={c0},{c1}"
  | .nan _ _ => "nan"
  | .raises cls => s!"raises:{cls}"

/-- gauss / moffat divide by `PSF_param**2`: a zero parameter is not a modelled input -/
def zeroParamUnmodelled (name : String) (p : Rat) : Bool :=
  p == 0 && (name.toLower == "gauss" || name.toLower == "moffat")

def parsePOp (t : String) : Option POp :=
  if t = "D" then some .setData
  else if t.startsWith "P" then (t.drop 1).toString.toNat?.map .setPrior
  else if t.startsWith "L" then
    match ((t.drop 1).toString.splitOn ",").map String.toNat? with
    | [some l, some d, some m] => some (.setLik l d m)
    | _ => none
  else none

def parseArg (t : String) : Option Arg :=
  if t = "O" then some .other
  else if t.startsWith "S" then some (.str (t.drop 1).toString)
  else if t.startsWith "A" then
    match ((t.drop 1).toString.splitOn ",").map String.toNat? with
    | [some nd, some len] => some (.array nd len)
    | _ => none
  else none

def parseBit (t : String) : Option Bool := if t = "1" then some true else if t = "0" then some false else none

def step : List String → String
  | ["dc1", bc, n, p] =>
    match n.toNat?, parseVec p with
    | some n, some P =>
      match bc1d bc.toLower with
      | some m => s!"asm={fmtL (deconv1dMatrix m P.length (vecFn P) n).force} doc={fmtL (conv1 m P.length (vecFn P) n).force}"
      | none => "err"
    | _, _ => "bad-op"
  | ["dc1x", bc, n, p, x] =>
    match n.toNat?, parseVec p, parseVec x with
    | some n, some P, some x =>
      if x.length ≠ n then "err:shape" else
      match bc1d bc.toLower with
      | some m =>
        let A := (deconv1dMatrix m P.length (vecFn P) n).force
        s!"asm={fmtVec (tab n (A.apply (vecFn x)))} doc={fmtVec (tab n (docConv1 m P.length (vecFn P) n (vecFn x)))}"
      | none => "err"
    | _, _, _ => "bad-op"
  | ["leg", n, p] =>
    match n.toNat?, parseVec p with
    | some n, some P =>
      if !legacyAccepts n P.length then "err" else
      s!"asm={fmtL (legacyMatrix n (vecFn P))} doc={fmtL (docCirculant n (vecFn P))}"
    | _, _ => "bad-op"
  | ["legh", n, h] =>
    match n.toNat?, parseVec h with
    | some n, some h =>
      if !legacyAccepts n h.length then "err" else
      s!"asm={fmtL (legacyFromH n (vecFn h))} doc={fmtL (docCirculantH n (vecFn h))}"
    | _, _ => "bad-op"
  | ["dc2", bc, n, p, x] =>
    match n.toNat?, parseMat p, parseVec x with
    | some n, some P, some x =>
      match bc2d bc.toLower, rectangular P with
      | some m, some (r, c) =>
        if r ≠ c then "err:nonsquare" else
        if x.length ≠ n * n then "err:shape" else
        let X : Nat → Nat → Q := fun i j => vecFn x (i * n + j)
        let B := docConv2 m r (matFn P) n X
        fmtVec (tab (n * n) (flat n B))
      | none, _ => "err"
      | _, none => "bad-op"
    | _, _, _ => "bad-op"
  | ["dc2m", bc, n, p] =>
    match n.toNat?, parseMat p with
    | some n, some P =>
      match bc2d bc.toLower, rectangular P with
      | some m, some (r, c) =>
        if r ≠ c then "err:nonsquare" else
        let A := (conv2 m r (matFn P) n).force
        -- column j of the documented operator: docConv2 on the unit image j
        let cols : List (List Q) := (List.range (n * n)).map (fun j =>
          tab (n * n) (flat n (docConv2 m r (matFn P) n (fun a b => if a * n + b = j then 1 else 0))))
        s!"asm={fmtL A} doc={fmtMat (QMat.transposeN (n * n) cols)}"
      | none, _ => "err"
      | _, none => "bad-op"
    | _, _ => "bad-op"
  | ["poisson", n, dx, k, rhs, obs] =>
    match n.toNat?, parseRat dx, parseVec k, parseVec rhs, parseNatList obs with
    | some N, some dx, some κ, some rhs, some obs =>
      if κ.length ≠ N + 1 ∨ rhs.length ≠ N ∨ dx = 0 then "err:shape" else
      let asm := (poissonAsm N dx (vecFn κ)).toList
      let doc := (poissonDoc N dx (vecFn κ)).toList
      match QMat.solve doc rhs with
      | some u => if QMat.solves doc u rhs then s!"same={fmtBool (asm == doc)} u={fmtVec (pick u obs)}" else "singular"
      | none => "singular"
    | _, _, _, _, _ => "bad-op"
  | ["heat", n, ep, mt, u0, obs] =>
    match n.toNat?, parseRat ep, parseRat mt, parseVec u0, parseNatList obs with
    | some N, some ep, some mt, some u0, some obs =>
      if u0.length ≠ N ∨ ep ≤ 0 ∨ mt < 0 then "err:shape" else
      let dx : Q := ep / ((N : Q) + 1)
      let k := heatMaxIter mt dx
      let dt := heatDt mt k
      -- run the code-faithful loop and the documented recurrence side by side (tabulated each level)
      let run (stepF : (Nat → Q) → Nat → Q) : List Q :=
        (List.range k).foldl (fun u _ => tab N (stepF (vecFn u))) u0
      let M := (heatStepMat N dx dt).force
      let ua := run (fun u i => M.apply u i + dt * 0)
      let ud := run (heatDocStep N dx dt)
      s!"iters={k} same={fmtBool (ua == ud)} u={fmtVec (pick ua obs)}"
    | _, _, _, _, _ => "bad-op"
  | ["heatk", n, dx, dt, k, u0, obs] =>
    match n.toNat?, parseRat dx, parseRat dt, k.toNat?, parseVec u0, parseNatList obs with
    | some N, some dx, some dt, some k, some u0, some obs =>
      if u0.length ≠ N ∨ dx = 0 then "err:shape" else
      let M := (heatStepMat N dx dt).force
      let ua := (List.range k).foldl (fun u _ => tab N (fun i => M.apply (vecFn u) i + dt * 0)) u0
      let ud := (List.range k).foldl (fun u _ => tab N (heatDocStep N dx dt (vecFn u))) u0
      s!"same={fmtBool (ua == ud)} u={fmtVec (pick ua obs)}"
    | _, _, _, _, _, _ => "bad-op"
  | ["abel", n, ep] =>
    match n.toNat?, parseRat ep with
    | some n, some ep => if n = 0 ∨ ep = 0 then "err" else s!"asm={fmtL (abelSq n ep)} doc={fmtL (abelDocSq n ep)}"
    | _, _ => "bad-op"
  | ["wang", a, b] =>
    match parseRat a, parseRat b with
    | some a, some b =>
      let ρ := RExpr.envQ [a, b]
      let ev (e : RExpr) : String := match RExpr.evalQ ρ e with | some q => fmtRat q | none => "nan"
      s!"f={ev wangF} j={",".intercalate (wangJ.map ev)} d={ev (RExpr.deriv 0 wangF)},{ev (RExpr.deriv 1 wangF)}"
    | _, _ => "bad-op"
  | ["wangopt", d, sd] =>
    let po (t : String) : Option (Option Rat) := if t = "none" then some none else (parseRat t).map some
    match po d, po sd with
    | some d, some sd => s!"data={fmtRat (wangData d)} std={fmtRat (wangStd sd)}"
    | _, _ => "bad-op"
  | ["noise", ty, s, y, xi] =>
    match parseRat s, parseVec y, parseVec xi with
    | some σ, some y, some ξ =>
      if y.length ≠ ξ.length then "err:shape" else
      match noiseType ty.toLower with
      | none => "err:type"
      | some scaled =>
        let n := y.length
        let cov : Nat → Q := if scaled then covScaled σ (vecFn y) else covGaussian σ
        if (tab n cov).any (· == 0) then "err:zero-cov" else
        s!"path={fmtVec (tab n (samplePath sqrtQ cov (vecFn y) (vecFn ξ)))} doc={fmtVec (tab n (docData scaled absQ (absQ σ) (vecFn y) (vecFn ξ)))}"
    | _, _, _ => "bad-op"
  | ["snr", s, snr, tol, y, xi] =>
    match parseRat s, parseRat snr, parseRat tol, parseVec y, parseVec xi with
    | some σ, some snr, some tol, some y, some ξ =>
      if y.length ≠ ξ.length then "err:shape" else
      s!"ok={fmtBool (snrSigmaOk σ snr tol y)} data={fmtVec (tab y.length (dataNormal σ (vecFn y) (vecFn ξ)))}"
    | _, _, _, _, _ => "bad-op"
  | ["quad", c, d] =>
    match parseVec c, parseVec d with
    | some c, some d =>
      let c := if c.length = 1 then List.replicate d.length (c.headD 1) else c
      if c.length ≠ d.length ∨ c.any (· == 0) then "err:shape" else fmtRat (quadForm c d)
    | _, _ => "bad-op"
  | ["comp", p] =>
    match parseProblem p with
    | some p =>
      let c := getComponents p
      let t := mkTarget p.path
      s!"model={objS c.model} data={objS c.data} exactSolution={objS c.exactSolution} exactData={objS c.exactData} info={fmtBool c.hasInfoString} misc={fmtBool c.hasMisc} likdist={objS t.likelihood.dist} prior={objS t.getPrior}"
    | none => "err"
  | ["cap", w] => capitalize w
  | ["psf1", dim, name, par, size, gt] =>
    match dim.toNat?, parseOptRat par, parseOptNat size, parseTab gt with
    | some dim, some par, some size, some gt =>
      let p := psfParam1 par 10
      if zeroParamUnmodelled name p then "err:param0" else
      let sz := psfSize1 dim size
      if sz = 0 then "err:size0" else
      fmtPsf1 sz (namedPSF1D (gLeaf gt p) piLeaf dim name par size)
    | _, _, _, _ => "bad-op"
  | ["psf2", name, par, size, gt] =>
    match parseRat par, size.toNat?, parseTab gt with
    | some p, some sz, some gt =>
      if zeroParamUnmodelled name p then "err:param0" else
      if sz = 0 then "err:size0" else
      fmtPsf2 sz (namedPSF2D (gLeaf gt p) piLeaf name p sz)
    | _, _, _ => "bad-op"
  | ["dc1n", bc, dim, name, par, size, gt] =>
    match dim.toNat?, parseOptRat par, parseOptNat size, parseTab gt with
    | some dim, some par, some size, some gt =>
      let p := psfParam1 par 10
      if zeroParamUnmodelled name p then "err:param0" else
      if psfSize1 dim size = 0 ∨ dim = 0 then "err:size0" else
      match bc1d bc.toLower with
      | none => "err"
      | some m =>
        match namedPSF1D (gLeaf gt p) piLeaf dim name par size with
        | .ok P _ =>
          -- the PSF is tabulated once (its entries are the model's `createPSF1` / `defocusPSF1` values)
          let Pt := vecFn (tab (psfSize1 dim size) P)
          s!"asm={fmtL (deconv1dMatrix m (psfSize1 dim size) Pt dim).force}"
        | .nan _ => "nan"
        | .raises cls => s!"raises:{cls}"
    | _, _, _, _ => "bad-op"
  | ["grids", "poisson", dim, ep] =>
    match dim.toNat?, parseRat ep with
    | some dim, some ep =>
      if dim < 2 then "err:dim" else
      s!"src={fmtVec (tab (dim - 1) (poissonSrcGrid dim ep))} sol={fmtVec (tab (dim - 1) (poissonSolGrid dim ep))} dom={fmtVec (tab dim (poissonDomGrid dim ep))} fd={fmtVec (tab (dim - 1) (poissonFdNode dim ep))}"
    | _, _ => "bad-op"
  | ["grids", "heat", dim, ep, mt] =>
    match dim.toNat?, parseRat ep, parseRat mt with
    | some dim, some ep, some mt =>
      if dim < 1 ∨ ep ≤ 0 ∨ mt < 0 then "err:dim" else
      let k := heatMaxIter mt (heatDxQ dim ep)
      s!"x={fmtVec (tab dim (heatGrid dim ep))} k={k} t={fmtVec (tab (k + 1) (heatTime mt k))}"
    | _, _, _ => "bad-op"
  | ["grids", "abel", n, ep] =>
    match n.toNat?, parseRat ep with
    | some n, some ep =>
      if n < 1 then "err:dim" else s!"t={fmtVec (tab n (abelTvec n ep))} geom={fmtVec (tab n (abelGeomGrid n ep))}"
    | _, _ => "bad-op"
  | ["hist", init, ops] =>
    match (init.splitOn ",").map String.toNat?, (if ops = "_" then some [] else (ops.splitOn ";").mapM parsePOp) with
    | [some l, some d, some m, some p], some ops =>
      let r := (PState.mk l d m p).run ops
      s!"lik={r.1.lik} data={r.1.likData} model={r.1.likModel} prior={r.1.prior} refused={r.2} comp={r.1.components.1},{r.1.components.2}"
    | _, _ => "bad-op"
  | ["d1opts", dim, leg, bc, sz, psf, pz, ph, pr, noise] =>
    match dim.toNat?, parseBit leg, parseOptNat sz, parseArg psf, parseBit pz, parseArg ph, parseBit pr with
    | some dim, some leg, some sz, some psf, some pz, some ph, some pr =>
      match deconv1dRefusal { dim := dim, legacy := leg, bc := bc, psfSize := sz, psf := psf, psfParamZero := pz, phantom := ph, phantomRefused := pr, noise := noise } with
      | none => "ok"
      | some cls => s!"raises:{cls}"
    | _, _, _, _, _, _, _ => "bad-op"
  | ["d2opts", bc, psf, pz, ph, noise] =>
    let psfA : Option Psf2Arg :=
      if psf = "Q" then some .square else if psf = "N" then some .nonsquare else if psf = "O" then some .other
      else if psf.startsWith "S" then some (.str (psf.drop 1).toString) else none
    let phA : Option Phantom2Arg :=
      if ph = "O" then some .other
      else if ph.startsWith "I" then (ph.drop 1).toString.toNat?.map .image
      else if ph.startsWith "V" then (ph.drop 1).toString.toNat?.map .vector
      else if ph.startsWith "S1" then some (.str (ph.drop 2).toString true)
      else if ph.startsWith "S0" then some (.str (ph.drop 2).toString false)
      else none
    match psfA, parseBit pz, phA with
    | some psfA, some pz, some phA =>
      match deconv2dRefusal { bc := bc, psf := psfA, psfParamZero := pz, phantom := phA, noise := noise } with
      | none => "ok"
      | some cls => s!"raises:{cls}"
    | _, _, _ => "bad-op"
  | ["phantom", name, dim, par] =>
    match dim.toNat?, parseOptRat par with
    | some dim, some par =>
      match phantomExact dim name par with
      | none => "leaf"
      | some (.ok x) => if x.isEmpty then "x=_" else s!"x={fmtVec x}"
      | some .nan => "nan"
      | some (.raises cls) => s!"raises:{cls}"
    | _, _ => "bad-op"
  | ["docdef1", size, par] =>
    match size.toNat?, parseRat par with
    | some sz, some p =>
      if sz = 0 then "err:size0" else
      if sumTo sz (fun j => if docDiscIn1 (sz / 2) p (j : Int) then (1 : Rat) else 0) = 0 then "nan" else
      s!"P={fmtVec (tab sz (docDefocus1 sz p))}"
    | _, _ => "bad-op"
  | ["docdef2", size, par] =>
    match size.toNat?, parseRat par with
    | some sz, some p =>
      if sz = 0 then "err:size0" else
      if sumTo sz (fun a => sumTo sz (fun b => if docDiscIn2 (sz / 2) p (a : Int) (b : Int) then (1 : Rat) else 0)) = 0 then "nan" else
      s!"P={fmtMat ((List.range sz).map (fun i => tab sz (docDefocus2 sz p i)))}"
    | _, _ => "bad-op"
  | _ => "bad-op"

def main : IO Unit := runDriver step
