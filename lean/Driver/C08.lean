import CuqiVerif.Model.Proto
import CuqiVerif.Model.C08
import CuqiVerif.Model.C08Adapt
import CuqiVerif.Model.C08_stat
import CuqiVerif.Model.C08_abort
import CuqiVerif.Model.C08_history
import CuqiVerif.Model.C08_config
import CuqiVerif.Model.C08_quartic
open CuqiVerif CuqiVerif.Proto CuqiVerif.C08

/-
  nuts <guard:0|1> <maxDepth> <eps> <P> <b> <wall|none> <x> <r> <e> <uniforms>
    -> acc | x_next | nodes | consumed | j | n | diffs(leaves of last doubling, H'-H0 or `nan`) | margin | logd_next | grad_next
  trace <same arguments as nuts> -> idx:n:n' for every doubling with s'=1 (idx = position of its acceptance draw), or `_`
  leapfrog <eps> <P> <b> <x> <r>  -> x' | r' | grad'
  adaptexp <log eps0> <mu> <delta> <Nb> <interval> <N> <alphas> <sqrt k> <k^-kappa>  -> log step sizes used | log eps | log eps_bar | H_bar
  adaptleg <log eps0> <mu> <delta> <Nb> <Nrest> <alphas> <sqrt k> <k^-kappa>          -> same (legacy schedule)
  findeps <P> <b> <wall> <x> <r> <log2> <fuel> -> epsilon | none
  tree <v> <j> <eps> <P> <b> <wall> <x> <r> <logu> <ham0> <uniforms>
    -> n | s | cand.x | leaves.x (matrix) | nodes | consumed
  treestat <same arguments as tree>   (the 13-tuple `_BuildTree` returns, statistic accumulated symbolically)
    -> zminus.x | zminus.r | zminus.grad | zplus.x | zplus.r | zplus.grad | cand.x | cand.logd | cand.grad | n | s
       | ones | exps | zeros | nans | n_alpha | nodes | consumed | margin
  abortprofile <same arguments as nuts> -> leaves:acc per executed doubling (comma separated)
  nutsabort <same arguments as nuts> <k>  (the target raises at its k-th evaluation of the transition)
    -> done (fewer than k evaluations) | cur.x | cur.logd | cur.grad | acc | completed doublings
  abortresume <same arguments as nuts> <k> <r2> <e2> <uniforms2>   (interrupted at evaluation k, then one more transition of the resumed sampler)
    -> done | <nutsabort output> :: <nuts output of the transition from the abort state with momentum r2, slice offset e2, draws uniforms2>
  history <guard> <maxDepth> <eps> <P> <b> <wall> <x0> then per operation: `S <r> <e> <uniforms>` | `R` (reinitialize) | `C` (state round trip, same object) | `CO <x0'> <eps0'>` (into another object) | `T <P> <b> <wall> <here>` (target replaced; here=1: initial_point = current_point; then reinitialize())
    -> per operation, joined by ` :: `: x | logd | grad | acc | consumed | margin | max_depth in force | step size in force   (acc/consumed/margin `-` for R and C)
  config <maxdepth|stepsize|optacc|legacy> <value> [Nb]   value: none T F i:<n> n:<n> (numpy int) f:<q> nan inf -inf cx str
    -> ok <value> | TypeError | ValueError | adaptive | findonly | fixed <value>
  nutsq <guard> <maxDepth> <eps> <P> <b> <c> <x> <r> <e> <uniforms>   (quartic target -x'Px/2 + b'x - c/4 sum x^4) -> same fields as nuts
  nutsstat <same arguments as nuts>   -> ones | exps | zeros | nans | n_alpha | margin   (of the last doubling executed; `unset` if none)
-/
def fmtXR : XR → String
  | .fin q => fmtRat q
  | .nan => "nan"
  | .pinf => "inf"
  | .ninf => "-inf"

/-- wall spec: `none` or `<threshold>:<nan|inf|-inf>` -/
def parseWall (s : String) : Option (Option Rat × XR) :=
  if s = "none" then some (none, .nan) else
  match s.splitOn ":" with
  | [w, k] =>
    match parseRat w, k with
    | some w, "nan" => some (some w, .nan)
    | some w, "inf" => some (some w, .pinf)
    | some w, "-inf" => some (some w, .ninf)
    | _, _ => none
  | _ => none

/-- the top-level acceptance draws of one transition: for every doubling whose sub-tree ended with `s' = 1`
    the position (in the uniform script) of the `rand()` compared with `n'/n`, and the two counts.
    The trajectory does not depend on those draws, so the harness may move them to either side of `n'/n`. -/
def accTrace (c : Ctx PS) (guard : PS → Bool) (maxDepth total : Nat) : Nat → Loop PS → List String
  | 0, _ => []
  | fuel + 1, st =>
    if st.s && decide (st.j ≤ maxDepth) then
      let (ud, us0) := popU st.us
      let v : Int := if ud < 1/2 then 1 else -1
      let (t, us1) := buildTree c v st.j (if v = -1 then st.zminus else st.zplus) us0
      let here := if t.s then [s!"{total - us1.length}:{st.n}:{t.n}"] else []
      here ++ accTrace c guard maxDepth total fuel (loopBody c guard st)
    else []

/-- output of the `nuts` op for a transition from `(x, r)` (start log-density must be finite) -/
def nutsLine (t : Target) (g md : Nat) (eps : Rat) (x r : List Rat) (e : Rat) (us : List Rat) : String :=
  match t.logd x with
  | .fin l0 =>
    let z0 : PS := { x := x, r := r, logd := .fin l0, grad := t.grad x }
    let ham0 := l0 - (1/2) * dotQ r r
    let logu := ham0 - e
    let c := psCtx t eps logu ham0
    let guard : PS → Bool := if g = 1 then (fun z => z.logd.isFinite) else (fun _ => true)
    let st := nutsStep c guard md z0 us
    let diffs := st.last.map (fun z => fmtXR ((c.ham z).subRat ham0))
    let mg := margin c (st.last)
    s!"{fmtBool st.acc} | {fmtVec st.cur.x} | {st.nodes} | {us.length - st.us.length} | {st.j} | {st.n} | {",".intercalate diffs} | {fmtRat mg} | {fmtXR st.cur.logd} | {fmtVec st.cur.grad}"
  | _ => "err-nonfinite-start"

/-- parse the operations of a `history` line -/
def parseOps : List String → Option (List HOp)
  | [] => some []
  | "R" :: rest => (parseOps rest).map (HOp.reinit :: ·)
  | "C" :: rest => (parseOps rest).map (HOp.restore none :: ·)
  | "CO" :: x0' :: eps0' :: rest =>
    match parseVec x0', parseRat eps0', parseOps rest with
    | some x0', some eps0', some ops => some (HOp.restore (some (x0', eps0')) :: ops)
    | _, _, _ => none
  | "S" :: r :: e :: us :: rest =>
    match parseVec r, parseRat e, parseVec us, parseOps rest with
    | some r, some e, some us, some ops => some (HOp.step r e us :: ops)
    | _, _, _, _ => none
  | _ => none

/-- operations of a `history` line including `T <P> <b> <wall> <here>` (target replaced, then restart) -/
def parseOps2 : List String → Option (List HOp2)
  | [] => some []
  | "R" :: rest => (parseOps2 rest).map (HOp2.op HOp.reinit :: ·)
  | "C" :: rest => (parseOps2 rest).map (HOp2.op (HOp.restore none) :: ·)
  | "CO" :: x0' :: eps0' :: rest =>
    match parseVec x0', parseRat eps0', parseOps2 rest with
    | some x0', some eps0', some ops => some (HOp2.op (HOp.restore (some (x0', eps0'))) :: ops)
    | _, _, _ => none
  | "S" :: r :: e :: us :: rest =>
    match parseVec r, parseRat e, parseVec us, parseOps2 rest with
    | some r, some e, some us, some ops => some (HOp2.op (HOp.step r e us) :: ops)
    | _, _, _, _ => none
  | "T" :: P :: b :: wall :: here :: rest =>
    match parseMat P, parseVec b, parseWall wall, parseNat here, parseOps2 rest with
    | some P, some b, some wall, some here, some ops =>
      some (HOp2.retarget { P := P, b := b, wall := wall.1, wallVal := wall.2 } (here = 1) :: ops)
    | _, _, _, _, _ => none
  | _ => none

def historyOut (guard : PS → Bool) : Target × HState → List HOp2 → List String
  | _, [] => []
  | ts, op :: ops =>
    let ts' := hApply2 guard ts op
    let s' := ts'.2
    let info := match op with
      | .op (.step r e us) =>
        match hStepLoop ts.1 guard ts.2 r e us with
        | some (c, st) => s!"{fmtBool st.acc} | {us.length - st.us.length} | {fmtRat (margin c st.last)}"
        | none => "err | err | 0"
      | _ => "- | - | -"
    s!"{fmtVec s'.x} | {fmtXR s'.logd} | {fmtVec s'.grad} | {info} | {s'.md} | {fmtRat s'.eps}" :: historyOut guard ts' ops

def parsePyVal (s : String) : Option PyVal :=
  match s with
  | "none" => some .none | "T" => some (.bool true) | "F" => some (.bool false)
  | "nan" => some .nan | "inf" => some .pinf | "-inf" => some .ninf | "cx" => some .complex | "str" => some .str
  | _ => match s.splitOn ":" with
    | ["i", n] => (parseInt n).map .int
    | ["n", n] => (parseInt n).map .npint
    | ["f", q] => (parseRat q).map .float
    | _ => none

def fmtPyVal : PyVal → String
  | .none => "none" | .bool true => "T" | .bool false => "F" | .int n => s!"i:{n}" | .npint n => s!"n:{n}"
  | .float q => s!"f:{fmtRat q}" | .nan => "nan" | .pinf => "inf" | .ninf => "-inf" | .complex => "cx" | .str => "str"

def fmtVerdict {α} (f : α → String) : Verdict α → String
  | .ok v => s!"ok {f v}" | .typeError => "TypeError" | .valueError => "ValueError"

def step : List String → String
  | ["trace", g, md, eps, P, b, wall, x, r, e, us] =>
    match parseNat g, parseNat md, parseRat eps, parseMat P, parseVec b, parseWall wall,
          parseVec x, parseVec r, parseRat e, parseVec us with
    | some g, some md, some eps, some P, some b, some wall, some x, some r, some e, some us =>
      let t : Target := { P := P, b := b, wall := wall.1, wallVal := wall.2 }
      match t.logd x with
      | .fin l0 =>
        let z0 : PS := { x := x, r := r, logd := .fin l0, grad := t.grad x }
        let ham0 := l0 - (1/2) * dotQ r r
        let c := psCtx t eps (ham0 - e) ham0
        let guard : PS → Bool := if g = 1 then (fun z => z.logd.isFinite) else (fun _ => true)
        let tr := accTrace c guard md us.length (md + 1)
          { cur := z0, zminus := z0, zplus := z0, j := 0, s := true, n := 1, acc := false, last := [], nodes := 0, us := us }
        if tr.isEmpty then "_" else ",".intercalate tr
      | _ => "err-nonfinite-start"
    | _, _, _, _, _, _, _, _, _, _ => "bad-op"
  | ["nuts", g, md, eps, P, b, wall, x, r, e, us] =>
    match parseNat g, parseNat md, parseRat eps, parseMat P, parseVec b, parseWall wall,
          parseVec x, parseVec r, parseRat e, parseVec us with
    | some g, some md, some eps, some P, some b, some wall, some x, some r, some e, some us =>
      let t : Target := { P := P, b := b, wall := wall.1, wallVal := wall.2 }
      match t.logd x with
      | .fin l0 =>
        let z0 : PS := { x := x, r := r, logd := .fin l0, grad := t.grad x }
        let ham0 := l0 - (1/2) * dotQ r r
        let logu := ham0 - e
        let c := psCtx t eps logu ham0
        let guard : PS → Bool := if g = 1 then (fun z => z.logd.isFinite) else (fun _ => true)  -- g = 0: an unguarded loop (no interface uses it since the legacy repair)
        let st := nutsStep c guard md z0 us
        let diffs := st.last.map (fun z => fmtXR ((c.ham z).subRat ham0))
        let mg := margin c (st.last)
        s!"{fmtBool st.acc} | {fmtVec st.cur.x} | {st.nodes} | {us.length - st.us.length} | {st.j} | {st.n} | {",".intercalate diffs} | {fmtRat mg} | {fmtXR st.cur.logd} | {fmtVec st.cur.grad}"
      | _ => "err-nonfinite-start"
    | _, _, _, _, _, _, _, _, _, _ => "bad-op"
  | ["leapfrog", eps, P, b, x, r] =>
    match parseRat eps, parseMat P, parseVec b, parseVec x, parseVec r with
    | some eps, some P, some b, some x, some r =>
      let t : Target := { P := P, b := b, wall := none }
      let (x1, r1, g1) := leapfrog (1/2 : Rat) t.grad eps x r (t.grad x)
      s!"{fmtVec x1} | {fmtVec r1} | {fmtVec g1}"
    | _, _, _, _, _ => "bad-op"
  | ["tree", v, j, eps, P, b, wall, x, r, logu, ham0, us] =>
    match parseInt v, parseNat j, parseRat eps, parseMat P, parseVec b, parseWall wall,
          parseVec x, parseVec r, parseRat logu, parseRat ham0, parseVec us with
    | some v, some j, some eps, some P, some b, some wall, some x, some r, some logu, some ham0, some us =>
      let t : Target := { P := P, b := b, wall := wall.1, wallVal := wall.2 }
      let z0 : PS := { x := x, r := r, logd := t.logd x, grad := t.grad x }
      let c := psCtx t eps logu ham0
      let (tr, rest) := buildTree c v j z0 us
      s!"{tr.n} | {fmtBool tr.s} | {fmtVec tr.cand.x} | {fmtMat (tr.leaves.map (·.x))} | {tr.nodes} | {us.length - rest.length}"
    | _, _, _, _, _, _, _, _, _, _, _ => "bad-op"
  | ["treestat", v, j, eps, P, b, wall, x, r, logu, ham0, us] =>
    match parseInt v, parseNat j, parseRat eps, parseMat P, parseVec b, parseWall wall,
          parseVec x, parseVec r, parseRat logu, parseRat ham0, parseVec us with
    | some v, some j, some eps, some P, some b, some wall, some x, some r, some logu, some ham0, some us =>
      if v ≠ 1 ∧ v ≠ -1 then "bad-op" else
      let t : Target := { P := P, b := b, wall := wall.1, wallVal := wall.2 }
      let z0 : PS := { x := x, r := r, logd := t.logd x, grad := t.grad x }
      let c := psCtx t eps logu ham0
      let (tr, (a, m), rest) := buildTreeStat c (psWeight ham0) v j z0 us
      s!"{fmtVec tr.zminus.x} | {fmtVec tr.zminus.r} | {fmtVec tr.zminus.grad} | {fmtVec tr.zplus.x} | {fmtVec tr.zplus.r} | {fmtVec tr.zplus.grad} | {fmtVec tr.cand.x} | {fmtXR tr.cand.logd} | {fmtVec tr.cand.grad} | {tr.n} | {fmtBool tr.s} | {a.ones} | {fmtVec a.exps} | {a.zeros} | {a.nans} | {m} | {tr.nodes} | {us.length - rest.length} | {fmtRat (margin c tr.leaves)}"
    | _, _, _, _, _, _, _, _, _, _, _ => "bad-op"
  | ["nutsstat", g, md, eps, P, b, wall, x, r, e, us] =>
    match parseNat g, parseNat md, parseRat eps, parseMat P, parseVec b, parseWall wall,
          parseVec x, parseVec r, parseRat e, parseVec us with
    | some g, some md, some eps, some P, some b, some wall, some x, some r, some e, some us =>
      let t : Target := { P := P, b := b, wall := wall.1, wallVal := wall.2 }
      match t.logd x with
      | .fin l0 =>
        let z0 : PS := { x := x, r := r, logd := .fin l0, grad := t.grad x }
        let ham0 := l0 - (1/2) * dotQ r r
        let c := psCtx t eps (ham0 - e) ham0
        let guard : PS → Bool := if g = 1 then (fun z => z.logd.isFinite) else (fun _ => true)
        let (st, o) := nutsStepStat c (psWeight ham0) guard md z0 us
        match o with
        | some (a, m) => s!"{a.ones} | {fmtVec a.exps} | {a.zeros} | {a.nans} | {m} | {fmtRat (margin c st.last)}"
        | none => "unset"
      | _ => "err-nonfinite-start"
    | _, _, _, _, _, _, _, _, _, _ => "bad-op"
  | ["abortprofile", g, md, eps, P, b, wall, x, r, e, us] =>
    match parseNat g, parseNat md, parseRat eps, parseMat P, parseVec b, parseWall wall,
          parseVec x, parseVec r, parseRat e, parseVec us with
    | some g, some md, some eps, some P, some b, some wall, some x, some r, some e, some us =>
      let t : Target := { P := P, b := b, wall := wall.1, wallVal := wall.2 }
      match t.logd x with
      | .fin l0 =>
        let z0 : PS := { x := x, r := r, logd := .fin l0, grad := t.grad x }
        let ham0 := l0 - (1/2) * dotQ r r
        let c := psCtx t eps (ham0 - e) ham0
        let guard : PS → Bool := if g = 1 then (fun z => z.logd.isFinite) else (fun _ => true)
        let pr := loopProfile c guard md (md + 1)
          { cur := z0, zminus := z0, zplus := z0, j := 0, s := true, n := 1, acc := false, last := [], nodes := 0, us := us }
        if pr.isEmpty then "_" else ",".intercalate (pr.map (fun p => s!"{p.1}:{fmtBool p.2}"))
      | _ => "err-nonfinite-start"
    | _, _, _, _, _, _, _, _, _, _ => "bad-op"
  | ["nutsabort", g, md, eps, P, b, wall, x, r, e, us, k] =>
    match parseNat g, parseNat md, parseRat eps, parseMat P, parseVec b, parseWall wall,
          parseVec x, parseVec r, parseRat e, parseVec us, parseNat k with
    | some g, some md, some eps, some P, some b, some wall, some x, some r, some e, some us, some k =>
      if k = 0 then "bad-op" else
      let t : Target := { P := P, b := b, wall := wall.1, wallVal := wall.2 }
      match t.logd x with
      | .fin l0 =>
        let z0 : PS := { x := x, r := r, logd := .fin l0, grad := t.grad x }
        let ham0 := l0 - (1/2) * dotQ r r
        let c := psCtx t eps (ham0 - e) ham0
        let guard : PS → Bool := if g = 1 then (fun z => z.logd.isFinite) else (fun _ => true)
        match nutsAbort c guard md z0 us k with
        | some st => s!"{fmtVec st.cur.x} | {fmtXR st.cur.logd} | {fmtVec st.cur.grad} | {fmtBool st.acc} | {st.j}"
        | none => "done"
      | _ => "err-nonfinite-start"
    | _, _, _, _, _, _, _, _, _, _, _ => "bad-op"
  | ["abortresume", g, md, eps, P, b, wall, x, r, e, us, k, r2, e2, us2] =>
    match parseNat g, parseNat md, parseRat eps, parseMat P, parseVec b, parseWall wall,
          parseVec x, parseVec r, parseRat e, parseVec us, parseNat k, parseVec r2, parseRat e2, parseVec us2 with
    | some g, some md, some eps, some P, some b, some wall, some x, some r, some e, some us, some k, some r2, some e2, some us2 =>
      if k = 0 then "bad-op" else
      let t : Target := { P := P, b := b, wall := wall.1, wallVal := wall.2 }
      match t.logd x with
      | .fin l0 =>
        let z0 : PS := { x := x, r := r, logd := .fin l0, grad := t.grad x }
        let ham0 := l0 - (1/2) * dotQ r r
        let c := psCtx t eps (ham0 - e) ham0
        let guard : PS → Bool := if g = 1 then (fun z => z.logd.isFinite) else (fun _ => true)
        match nutsAbort c guard md z0 us k with
        | some st =>
          s!"{fmtVec st.cur.x} | {fmtXR st.cur.logd} | {fmtVec st.cur.grad} | {fmtBool st.acc} | {st.j} :: {nutsLine t g md eps st.cur.x r2 e2 us2}"
        | none => "done"
      | _ => "err-nonfinite-start"
    | _, _, _, _, _, _, _, _, _, _, _, _, _, _ => "bad-op"
  | "history" :: g :: md :: eps :: P :: b :: wall :: x0 :: ops =>
    match parseNat g, parseNat md, parseRat eps, parseMat P, parseVec b, parseWall wall, parseVec x0, parseOps2 ops with
    | some g, some md, some eps, some P, some b, some wall, some x0, some ops =>
      let t : Target := { P := P, b := b, wall := wall.1, wallVal := wall.2 }
      let guard : PS → Bool := if g = 1 then (fun z => z.logd.isFinite) else (fun _ => true)
      if ops.isEmpty then "bad-op" else
      match t.logd x0 with
      | .fin _ => " :: ".intercalate (historyOut guard (t, hInit t md eps x0) ops)
      | _ => "err-nonfinite-start"
    | _, _, _, _, _, _, _, _ => "bad-op"
  | ["config", "maxdepth", v] => match parsePyVal v with
    | some v => fmtVerdict (fun n => toString n) (setMaxDepth v) | none => "bad-op"
  | ["config", "stepsize", v] => match parsePyVal v with
    | some v => fmtVerdict fmtPyVal (setStepSize v) | none => "bad-op"
  | ["config", "optacc", v] => match parsePyVal v with
    | some v => fmtVerdict fmtPyVal (setOptAcc v) | none => "bad-op"
  | ["config", "legacy", v, nb] => match parsePyVal v, parseNat nb with
    | some v, some nb => match legacyMode v nb with
      | .valueError => "ValueError" | .adaptive => "adaptive" | .findOnly => "findonly" | .fixed w => s!"fixed {fmtPyVal w}"
    | _, _ => "bad-op"
  | ["nutsq", g, md, eps, P, b, cq, x, r, e, us] =>
    match parseNat g, parseNat md, parseRat eps, parseMat P, parseVec b, parseRat cq,
          parseVec x, parseVec r, parseRat e, parseVec us with
    | some g, some md, some eps, some P, some b, some cq, some x, some r, some e, some us =>
      let t : QTarget := { P := P, b := b, c := cq }
      match t.logd x with
      | .fin l0 =>
        let z0 : PS := { x := x, r := r, logd := .fin l0, grad := t.grad x }
        let ham0 := l0 - (1/2) * dotQ r r
        let c := qCtx t eps (ham0 - e) ham0
        let guard : PS → Bool := if g = 1 then (fun z => z.logd.isFinite) else (fun _ => true)
        let st := nutsStep c guard md z0 us
        let diffs := st.last.map (fun z => fmtXR ((c.ham z).subRat ham0))
        s!"{fmtBool st.acc} | {fmtVec st.cur.x} | {st.nodes} | {us.length - st.us.length} | {st.j} | {st.n} | {",".intercalate diffs} | {fmtRat (margin c st.last)} | {fmtXR st.cur.logd} | {fmtVec st.cur.grad}"
      | _ => "err-nonfinite-start"
    | _, _, _, _, _, _, _, _, _, _ => "bad-op"
  | ["adaptexp", le0, mu, delta, nb, interval, n, als, sqs, ets] =>
    match parseRat le0, parseRat mu, parseRat delta, parseNat nb, parseNat interval, parseNat n,
          parseVec als, parseVec sqs, parseVec ets with
    | some le0, some mu, some delta, some nb, some interval, some n, some als, some sqs, some ets =>
      if interval = 0 then "bad-op" else
      let w := warmupExp (DA.init le0 mu delta) nb interval (fun i => als.getD i 0) (fun k => sqs.getD (k - 1) 0) (fun k => ets.getD (k - 1) 0)
      let s := if n = 0 then w else sampleExp w n
      s!"{fmtVec s.used} | {fmtRat s.lEps} | {match s.lBar with | some b => fmtRat b | none => "unset"} | {fmtRat s.hBar}"
    | _, _, _, _, _, _, _, _, _ => "bad-op"
  | ["adaptleg", le0, mu, delta, nb, nrest, als, sqs, ets] =>
    match parseRat le0, parseRat mu, parseRat delta, parseNat nb, parseNat nrest,
          parseVec als, parseVec sqs, parseVec ets with
    | some le0, some mu, some delta, some nb, some nrest, some als, some sqs, some ets =>
      let s := runLeg (DA.init le0 mu delta) nb nrest (fun k => als.getD (k - 1) 0) (fun k => sqs.getD (k - 1) 0) (fun k => ets.getD (k - 1) 0)
      s!"{fmtVec s.used} | {fmtRat s.lEps} | {match s.lBar with | some b => fmtRat b | none => "unset"} | {fmtRat s.hBar}"
    | _, _, _, _, _, _, _, _ => "bad-op"
  | ["findeps", P, b, wall, x, r, log2, fuel] =>
    match parseMat P, parseVec b, parseWall wall, parseVec x, parseVec r, parseRat log2, parseNat fuel with
    | some P, some b, some wall, some x, some r, some log2, some fuel =>
      let t : Target := { P := P, b := b, wall := wall.1, wallVal := wall.2 }
      match findEps t x r log2 fuel with
      | some e => fmtRat e
      | none => "none"
    | _, _, _, _, _, _, _ => "bad-op"
  | _ => "bad-op"

def main : IO Unit := runDriver step
