import CuqiVerif.Model.Proto
import CuqiVerif.Model.C08
open CuqiVerif CuqiVerif.Proto CuqiVerif.C08

/-
  nuts <guard:0|1> <maxDepth> <eps> <P> <b> <wall|none> <x> <r> <e> <uniforms>
    -> acc | x_next | nodes | consumed | j | n | diffs(leaves of last doubling, H'-H0 or `nan`) | margin | logd_next | grad_next
  leapfrog <eps> <P> <b> <x> <r>  -> x' | r' | grad'
  tree <v> <j> <eps> <P> <b> <wall> <x> <r> <logu> <ham0> <uniforms>
    -> n | s | cand.x | leaves.x (matrix) | nodes | consumed
-/
def fmtXR : XR → String
  | .fin q => fmtRat q
  | .nan => "nan"
  | .pinf => "inf"
  | .ninf => "-inf"

/-- wall spec: `none` or `<threshold>:<nan|inf|-inf>` -/
def parseWall (s : String) : Option (Option Rat × XR) :=
  if s = "none" then some (none, .nan) else
  match s.splitOn ":" with
  | [w, k] =>
    match parseRat w, k with
    | some w, "nan" => some (some w, .nan)
    | some w, "inf" => some (some w, .pinf)
    | some w, "-inf" => some (some w, .ninf)
    | _, _ => none
  | _ => none

def step : List String → String
  | ["nuts", g, md, eps, P, b, wall, x, r, e, us] =>
    match parseNat g, parseNat md, parseRat eps, parseMat P, parseVec b, parseWall wall,
          parseVec x, parseVec r, parseRat e, parseVec us with
    | some g, some md, some eps, some P, some b, some wall, some x, some r, some e, some us =>
      let t : Target := { P := P, b := b, wall := wall.1, wallVal := wall.2 }
      match t.logd x with
      | .fin l0 =>
        let z0 : PS := { x := x, r := r, logd := .fin l0, grad := t.grad x }
        let ham0 := l0 - (1/2) * dotQ r r
        let logu := ham0 - e
        let c := psCtx t eps logu ham0
        let guard : PS → Bool := if g = 1 then (fun z => z.logd.isFinite) else (fun _ => true)  -- g = 0: an unguarded loop (no interface uses it since the legacy repair)
        let st := nutsStep c guard md z0 us
        let diffs := st.last.map (fun z => fmtXR ((c.ham z).subRat ham0))
        let mg := margin c (st.last)
        s!"{fmtBool st.acc} | {fmtVec st.cur.x} | {st.nodes} | {us.length - st.us.length} | {st.j} | {st.n} | {",".intercalate diffs} | {fmtRat mg} | {fmtXR st.cur.logd} | {fmtVec st.cur.grad}"
      | _ => "err-nonfinite-start"
    | _, _, _, _, _, _, _, _, _, _ => "bad-op"
  | ["leapfrog", eps, P, b, x, r] =>
    match parseRat eps, parseMat P, parseVec b, parseVec x, parseVec r with
    | some eps, some P, some b, some x, some r =>
      let t : Target := { P := P, b := b, wall := none }
      let (x1, r1, g1) := leapfrog (1/2 : Rat) t.grad eps x r (t.grad x)
      s!"{fmtVec x1} | {fmtVec r1} | {fmtVec g1}"
    | _, _, _, _, _ => "bad-op"
  | ["tree", v, j, eps, P, b, wall, x, r, logu, ham0, us] =>
    match parseInt v, parseNat j, parseRat eps, parseMat P, parseVec b, parseWall wall,
          parseVec x, parseVec r, parseRat logu, parseRat ham0, parseVec us with
    | some v, some j, some eps, some P, some b, some wall, some x, some r, some logu, some ham0, some us =>
      let t : Target := { P := P, b := b, wall := wall.1, wallVal := wall.2 }
      let z0 : PS := { x := x, r := r, logd := t.logd x, grad := t.grad x }
      let c := psCtx t eps logu ham0
      let (tr, rest) := buildTree c v j z0 us
      s!"{tr.n} | {fmtBool tr.s} | {fmtVec tr.cand.x} | {fmtMat (tr.leaves.map (·.x))} | {tr.nodes} | {us.length - rest.length}"
    | _, _, _, _, _, _, _, _, _, _, _ => "bad-op"
  | _ => "bad-op"

def main : IO Unit := runDriver step
