import CuqiVerif.Model.Proto
import CuqiVerif.Model.C09
open CuqiVerif CuqiVerif.Proto CuqiVerif.C09

/-!
  Line protocol of the C09 driver (one scenario per line, names are strings, values rational vectors).

  `hg NAMES FLAGS SIDS NSTEPS INIT CALLS DRAWS`
     NAMES  `d,l,x`              par_names order
     FLAGS  `000,011,110`        per name: isNuts hasCache cacheInState
     SIDS   `0,1,2`              identity of the sampler object assigned to each name (`-` = no key; `3!` = already initialized;
                                 one more entry = a key of the strategy that is not a parameter)
     NSTEPS `1,-,3`              num_sampling_steps (`-` = key absent)
     UINIT  `-;1;-`              `initial_point` given by the user (`-` = None)
     DINIT  `1;1;0,0,0`          the sampler's default initial point
     CALLS  `3,4@2:1:0`          sweeps per warmup/sample call; `@a:b:c` = num_sampling_steps re-assigned
                                 (all names, in NAMES order) before that call
     DRAWS  `1|3/2;0|1,1;…`      transitions in call order: `acc|point` (`_` = none)
  `lg NAMES INITPTS DIMS CALLS DRAWS`
     INITPTS `-;1,2;-`           `init_point` attribute of the block's density (`-` = absent)
     CALLS   `3:2,4:0`           `sample(Ns, Nb)` calls
     DRAWS   `1;2,3;…`           value returned by each `sampler.step(x)` in call order
-/

abbrev Val := List Rat

def fmtDict (d : List (String × Val)) : String :=
  if d.isEmpty then "_" else "&".intercalate (d.map (fun p => p.1 ++ "=" ++ fmtVec p.2))

def fmtCache : Option (Tag String Val) → String
  | none => "-"
  | some t => fmtDict t.tgt ++ "@" ++ fmtVec t.point

def fmtEv : Ev String Val → String
  | .visit n tgt start cache accLen => s!"V|{n}|{fmtDict tgt}|{fmtVec start}|{fmtCache cache}|{accLen}"
  | .step n b a => s!"S|{n}|{fmtVec b}|{fmtVec a}"
  | .store t => s!"T|{fmtDict t}"

def fmtLEv : LEv String Val → String
  | .step n tgt start r => s!"S|{n}|{fmtDict tgt}|{fmtVec start}|{fmtVec r}"
  | .store w i t => s!"T|{if w then "w" else "s"}|{i}|{fmtDict t}"

def parseFlag (s : String) : Option (Bool × Bool × Bool) :=
  match s.toList with
  | [a, b, c] =>
    let bit : Char → Option Bool := fun ch => if ch = '1' then some true else if ch = '0' then some false else none
    do let x ← bit a; let y ← bit b; let z ← bit c; pure (x, y, z)
  | _ => none

def parseOptInt (s : String) : Option (Option Int) :=
  if s = "-" then some none else (fun k => some k) <$> s.toInt?

def parseDraw (s : String) : Option (Draw Val) :=
  match s.splitOn "|" with
  | [a, v] => do
    let acc ← (if a = "1" then some true else if a = "0" then some false else none)
    let x ← parseVec v
    pure ⟨x, acc⟩
  | _ => none

def parseList {α : Type} (sep : String) (p : String → Option α) (s : String) : Option (List α) :=
  if s = "_" then some [] else (s.splitOn sep).mapM p

def lookup {α : Type} (names : List String) (vals : List α) (dflt : α) (n : String) : α :=
  match (names.zip vals).find? (fun p => p.1 == n) with
  | some p => p.2
  | none => dflt

def hasDup : List String → Bool
  | [] => false
  | a :: l => l.contains a || hasDup l

def parseOptVec (s : String) : Option (Option Val) :=
  if s = "-" then some none else (fun v => some v) <$> parseVec s

def parseHCall (k : Nat) (s : String) : Option (Nat × Option (List Int)) :=
  match s.splitOn "@" with
  | [a] => (fun n => (n, none)) <$> a.toNat?
  | [a, b] => do
    let n ← a.toNat?
    let ns ← (b.splitOn ":").mapM (fun t => t.toInt?)
    if ns.length = k then pure (n, some ns) else none
  | _ => none

/-- `3` / `-` (no key) / `3!` (the object is already initialized) -/
def parseSid (s : String) : Option (Option Nat × Bool) :=
  if s = "-" then some (none, false)
  else if s.endsWith "!" then (fun k => (some k, true)) <$> (s.dropEnd 1).toString.toNat?
  else (fun k => (some k, false)) <$> s.toNat?

def runHG (names : List String) (flags : List (Bool × Bool × Bool)) (sids : List (Option Nat × Bool))
    (nsteps : List (Option Int)) (uinit : List (Option Val)) (dinit : List Val) (calls : List (Nat × Option (List Int)))
    (draws : List (Draw Val)) : String :=
  let k := names.length
  if flags.length != k || (sids.length != k && sids.length != k + 1) || nsteps.length != k
      || uinit.length != k || dinit.length != k then "bad-op"
  else if names.isEmpty || hasDup names then "bad-op"
  else
    match validateStrategy names (lookup names ((sids.take k).map (·.1)) none) (sids.length == k + 1)
        (lookup names ((sids.take k).map (·.2)) false) with
    | some .keyError => "err|KeyError"
    | some .valueError => "err|ValueError"
    | none =>
      let init := initialPoints (lookup names uinit none) (lookup names dinit [])
      let g0 : HG String Val := construct names (lookup names nsteps none) init
        (lookup names flags (false, false, false))
      let ds : Nat → Draw Val := fun i => draws.getD i ⟨[], false⟩
      let runCall : HG String Val → (Nat × Option (List Int)) → HG String Val := fun g c =>
        let g' := match c.2 with
          | none => g
          | some ns => reconfigure g (lookup names ns 1)
        sampleN ds c.1 g'
      let g := calls.foldl runCall g0
      let need := g.pos
      if draws.length != need then s!"err|draws|{need}"
      else
        " ".intercalate (g.log.map fmtEv) ++ s!" # {g.pos} # " ++ " ".intercalate (g.stored.map fmtDict)
          ++ " # " ++ fmtDict (tuple names init)

def parseCall (s : String) : Option (Nat × Nat) :=
  match s.splitOn ":" with
  | [a, b] => do let x ← a.toNat?; let y ← b.toNat?; pure (x, y)
  | _ => none

def fmtCols (names : List String) : Option (List (String → Val)) → String
  | none => "absent"
  | some cols => if cols.isEmpty then "empty" else ";;".intercalate (cols.map (fun c => fmtDict (tuple names c)))

def runLG (names : List String) (ipts : List (Option Val)) (dims : List Nat) (calls : List (Nat × Nat))
    (draws : List Val) : String :=
  let k := names.length
  if ipts.length != k || dims.length != k then "bad-op"
  else if names.isEmpty || hasDup names then "bad-op"
  else
    let g0 : LG String Val := lconstruct names (lookup names ipts none)
      (fun n => List.replicate (lookup names dims 0 n) 1) (fun n => List.replicate (lookup names dims 0 n) 0)
    let ds : Nat → Val := fun i => draws.getD i []
    -- run the calls until one raises
    let r := calls.foldl (fun (acc : LG String Val × Option LErr) c =>
      match acc.2 with
      | some _ => acc
      | none => match lsample ds acc.1 c.1 c.2 with
        | .ok g => (g, none)
        | .error e => (acc.1, some e)) (g0, none)
    let g := r.1
    let need := g.pos
    let tail := match r.2 with
      | none => "ok"
      | some .indexError => "IndexError"
      | some .valueError => "ValueError"
    if r.2.isNone && draws.length != need then s!"err|draws|{need}"
    else if draws.length < need then s!"err|draws|{need}"
    else
      " ".intercalate (g.log.map fmtLEv) ++ s!" # {g.pos} {tail} # " ++ fmtCols names g.samples ++ " # " ++ fmtCols names g.warm

def step : List String → String
  | ["hg", names, flags, sids, nsteps, uinit, dinit, calls, draws] =>
    match parseList "," some names, parseList "," parseFlag flags, parseList "," parseSid sids,
          parseList "," parseOptInt nsteps, parseList ";" parseOptVec uinit, parseMat dinit,
          (parseList "," some names).bind (fun ns => parseList "," (parseHCall ns.length) calls), parseList ";" parseDraw draws with
    | some names, some flags, some sids, some nsteps, some uinit, some dinit, some calls, some draws =>
      runHG names flags sids nsteps uinit dinit calls draws
    | _, _, _, _, _, _, _, _ => "bad-op"
  | ["lg", names, ipts, dims, calls, draws] =>
    match parseList "," some names, parseList ";" parseOptVec ipts, parseNatList dims,
          parseList "," parseCall calls, parseList ";" parseVec draws with
    | some names, some ipts, some dims, some calls, some draws => runLG names ipts dims calls draws
    | _, _, _, _, _ => "bad-op"
  | _ => "bad-op"

def main : IO Unit := runDriver step
