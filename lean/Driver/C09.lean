import CuqiVerif.Model.Proto
import CuqiVerif.Model.C09
import CuqiVerif.Model.C09_target
import CuqiVerif.Model.C09_tune
import CuqiVerif.Model.C09_strategy
import CuqiVerif.Model.C09_shape
import CuqiVerif.Model.C09_array
import CuqiVerif.Model.C09_nuts
open CuqiVerif CuqiVerif.Proto CuqiVerif.C09

/-!
  Line protocol of the C09 driver (one scenario per line, names are strings, values rational vectors).

  `hg NAMES FLAGS SIDS NSTEPS INIT CALLS DRAWS`
     NAMES  `d,l,x`              par_names order
     FLAGS  `000,011,110`        per name: isNuts hasCache cacheInState
     SIDS   `0,1,2`              identity of the sampler object assigned to each name (`-` = no key; `3!` = already initialized;
                                 one more entry = a key of the strategy that is not a parameter)
     NSTEPS `1,-,3`              num_sampling_steps (`-` = key absent)
     UINIT  `-;1;-`              `initial_point` given by the user (`-` = None)
     DINIT  `1;1;0,0,0`          the sampler's default initial point
     CALLS  `3,W1/10!4@2:1:0`    sweeps per call: `k` = sample(k), `W<tune_freq>!k` = warmup(k, tune_freq) (tune_freq = the exact
                                 rational value of the float); `@a:b:c` = num_sampling_steps re-assigned (all names, in NAMES
                                 order) before that call
     output sections (` # `): events, draws consumed, stored tuples, initial points, tuning calls
                                 `nStored:pos:name:skip_len:update_count` (`_` = none)
     DRAWS  `1|3/2;0|1,1;…`      transitions in call order: `acc|point` (`_` = none)
  `lg NAMES INITPTS DIMS CALLS DRAWS`
     INITPTS `-;1,2;-`           `init_point` attribute of the block's density (`-` = absent)
     CALLS   `3:2,4:0`           `sample(Ns, Nb)` calls
     DRAWS   `1;2,3;…`           value returned by each `sampler.step(x)` in call order
  `nt ISNUTS STATE HISTORY ASSIGNED DEFAULTS ATTRS`  origin of every attribute after the per-sweep protocol (Model/C09_nuts.lean)
     lists `a,b,c` / `.`; output `attr=prev|point|fresh|dflt|unset,…`;  `nt nuts ATTRS` uses the model's own table for NUTS and
     also prints its `_STATE_KEYS|_HISTORY_KEYS`
  `ar DIM OPS`                    one block's sample array of legacy Gibbs (Model/C09_array.lean)
     OPS      `A3;S0:1,2;S1:3,4;L;A2;S3:5,6`  `A<Ns>` = `_allocate_samples(Ns)`, `S<i>:<v>` = `samples[:, i] = v`, `L` = `samples[:, -1]`
     output   `<result of every L: vector / IndexError / absent>;…|<dim>x<width>:<rows>` (`absent` = no attribute `samples`)
  `sh NAMES INIT SWEEPS`          type/shape of the objects HybridGibbs stores (Model/C09_shape.lean)
     INIT     `s,a3,l2`          kind of each sampler's `initial_point` object: `s` python scalar, `l<d>` list, `a<d1>x<d2>…` ndarray (`a` = 0-d)
     SWEEPS   `s,a3,a2;a1,a3,a2` per sweep the kind of each sampler's `current_point` at write-back (`_` = no sweep)
     output   `<stored kinds per sweep>;…|<n>=<shape of get_samples()[n] or ValueError>,…`
  `ls STRATEGY NAMES`             legacy `Gibbs.__init__` / the look-up in `step` (Model/C09_strategy.lean)
     STRATEGY `d+l=0;x=1;(q)=2`  keys in dictionary order: `a+b` = tuple key `('a','b')`, `(a)` = 1-tuple `('a',)`, plain name; `=id` of the sampler
     NAMES    `d,l,x`            par_names
     output   `<id or ->,…|<outcome of the first sweep: ok:<k blocks advanced> / KeyError:<k>:<name>>`
  `tv N PROBE CUR DATA FACTOR…`   VALUE of the object handed to block N at PROBE (Model/C09_target.lean + Model/C01.lean, leaf
                                 log-densities from the table recorded on the real densities)
     CUR / DATA `k=v&k=v` / `.`  current values of all blocks / observed data (values: rational vectors)
     FACTOR   `name;dim;params;table`  params `a,b` / `.`; table `v0&v1&…=val|…` = log-density of the unconditioned density at the
                                 values of `name :: params`
     output   `ok|<class>|<logd>` / `?` (a leaf outside the table) / `err|Class`
  `tc FACTORS DATA`               class of the sampler's target and what the constructors make of it (validate_targets & co.)
     output   `<class>|H0=<ok/AttributeError/ValueError>|H1=…|L=…|<n>:<dim of the geometry get_samples wraps n in>,…`
              (H0: some sampler without initial_point, H1: all given, L: legacy first sample call)
  `tg FACTORS DATA`               the objects handed to the block samplers (Model/C09_target.lean on top of Model/C01.lean)
     FACTORS `d:1:.|x:3:d|y:4:x+l|l:1:.`  the densities of the user's JointDistribution in order: name:dim:conditioning variables
     DATA    `y` / `.`            the variables the user conditioned on (observed data)
     output  `ok|<par_names>|<n>=<object handed to block n>|…` — `Posterior[L:y:x;D:x:.]`, `Distribution[D:w:.]`,
             `MultipleLikelihoodPosterior[D:d:.;L:x:d;L:w:d;E:y;…]`, `JointDistribution[…]`; `err|Class` when the constructor raises
-/

abbrev Val := List Rat

def fmtDict (d : List (String × Val)) : String :=
  if d.isEmpty then "_" else "&".intercalate (d.map (fun p => p.1 ++ "=" ++ fmtVec p.2))

def fmtCache : Option (Tag String Val) → String
  | none => "-"
  | some t => fmtDict t.tgt ++ "@" ++ fmtVec t.point

def fmtEv : Ev String Val → String
  | .visit n tgt start cache accLen => s!"V|{n}|{fmtDict tgt}|{fmtVec start}|{fmtCache cache}|{accLen}"
  | .step n b a => s!"S|{n}|{fmtVec b}|{fmtVec a}"
  | .store t => s!"T|{fmtDict t}"

def fmtLEv : LEv String Val → String
  | .step n tgt start r => s!"S|{n}|{fmtDict tgt}|{fmtVec start}|{fmtVec r}"
  | .store w i t => s!"T|{if w then "w" else "s"}|{i}|{fmtDict t}"

def parseFlag (s : String) : Option (Bool × Bool × Bool) :=
  match s.toList with
  | [a, b, c] =>
    let bit : Char → Option Bool := fun ch => if ch = '1' then some true else if ch = '0' then some false else none
    do let x ← bit a; let y ← bit b; let z ← bit c; pure (x, y, z)
  | _ => none

def parseOptInt (s : String) : Option (Option Int) :=
  if s = "-" then some none else (fun k => some k) <$> s.toInt?

def parseDraw (s : String) : Option (Draw Val) :=
  match s.splitOn "|" with
  | [a, v] => do
    let acc ← (if a = "1" then some true else if a = "0" then some false else none)
    let x ← parseVec v
    pure ⟨x, acc⟩
  | _ => none

def parseList {α : Type} (sep : String) (p : String → Option α) (s : String) : Option (List α) :=
  if s = "_" then some [] else (s.splitOn sep).mapM p

def lookup {α : Type} (names : List String) (vals : List α) (dflt : α) (n : String) : α :=
  match (names.zip vals).find? (fun p => p.1 == n) with
  | some p => p.2
  | none => dflt

def hasDup : List String → Bool
  | [] => false
  | a :: l => l.contains a || hasDup l

def parseOptVec (s : String) : Option (Option Val) :=
  if s = "-" then some none else (fun v => some v) <$> parseVec s

/-- `4` (sample) or `W<tune_freq>!4` (warmup) -/
def parseCount (a : String) : Option (Nat × Option Rat) :=
  if a.startsWith "W" then
    match (a.drop 1).toString.splitOn "!" with
    | [f, c] => do let tf ← parseRat f; let n ← c.toNat?; pure (n, some tf)
    | _ => none
  else (fun n => (n, none)) <$> a.toNat?

def parseHCall (k : Nat) (s : String) : Option (Nat × Option (List Int) × Option Rat) :=
  match s.splitOn "@" with
  | [a] => (fun c => (c.1, none, c.2)) <$> parseCount a
  | [a, b] => do
    let c ← parseCount a
    let ns ← (b.splitOn ":").mapM (fun t => t.toInt?)
    if ns.length = k then pure (c.1, some ns, c.2) else none
  | _ => none

def fmtTune (t : TuneEv String) : String := s!"{t.nStored}:{t.pos}:{t.name}:{t.skipLen}:{t.updateCount}"

/-- `3` / `-` (no key) / `3!` (the object is already initialized) -/
def parseSid (s : String) : Option (Option Nat × Bool) :=
  if s = "-" then some (none, false)
  else if s.endsWith "!" then (fun k => (some k, true)) <$> (s.dropEnd 1).toString.toNat?
  else (fun k => (some k, false)) <$> s.toNat?

def runHG (names : List String) (flags : List (Bool × Bool × Bool)) (sids : List (Option Nat × Bool))
    (nsteps : List (Option Int)) (uinit : List (Option Val)) (dinit : List Val) (calls : List (Nat × Option (List Int) × Option Rat))
    (draws : List (Draw Val)) : String :=
  let k := names.length
  if flags.length != k || (sids.length != k && sids.length != k + 1) || nsteps.length != k
      || uinit.length != k || dinit.length != k then "bad-op"
  else if names.isEmpty || hasDup names then "bad-op"
  else
    match validateStrategy names (lookup names ((sids.take k).map (·.1)) none) (sids.length == k + 1)
        (lookup names ((sids.take k).map (·.2)) false) with
    | some .keyError => "err|KeyError"
    | some .valueError => "err|ValueError"
    | none =>
      let init := initialPoints (lookup names uinit none) (lookup names dinit [])
      let g0 : HG String Val := construct names (lookup names nsteps none) init
        (lookup names flags (false, false, false))
      let ds : Nat → Draw Val := fun i => draws.getD i ⟨[], false⟩
      let runCall : HG String Val × List (TuneEv String) → (Nat × Option (List Int) × Option Rat) → HG String Val × List (TuneEv String) :=
        fun st c =>
        let g' := match c.2.1 with
          | none => st.1
          | some ns => reconfigure st.1 (lookup names ns 1)
        match c.2.2 with
        | none => (sampleN ds c.1 g', st.2)
        | some tf => let r := warmupN ds tf c.1 g'; (r.1, st.2 ++ r.2)
      let gt := calls.foldl runCall (g0, [])
      let g := gt.1
      let need := g.pos
      if draws.length != need then s!"err|draws|{need}"
      else
        " ".intercalate (g.log.map fmtEv) ++ s!" # {g.pos} # " ++ " ".intercalate (g.stored.map fmtDict)
          ++ " # " ++ fmtDict (tuple names init)
          ++ " # " ++ (if gt.2.isEmpty then "_" else " ".intercalate (gt.2.map fmtTune))

def parseCall (s : String) : Option (Nat × Nat) :=
  match s.splitOn ":" with
  | [a, b] => do let x ← a.toNat?; let y ← b.toNat?; pure (x, y)
  | _ => none

def fmtCols (names : List String) : Option (List (String → Val)) → String
  | none => "absent"
  | some cols => if cols.isEmpty then "empty" else ";;".intercalate (cols.map (fun c => fmtDict (tuple names c)))

def runLG (names : List String) (ipts : List (Option Val)) (dims : List Nat) (calls : List (Nat × Nat))
    (draws : List Val) : String :=
  let k := names.length
  if ipts.length != k || dims.length != k then "bad-op"
  else if names.isEmpty || hasDup names then "bad-op"
  else
    let g0 : LG String Val := lconstruct names (lookup names ipts none)
      (fun n => List.replicate (lookup names dims 0 n) 1) (fun n => List.replicate (lookup names dims 0 n) 0)
    let ds : Nat → Val := fun i => draws.getD i []
    -- run the calls until one raises
    let r := calls.foldl (fun (acc : LG String Val × Option LErr) c =>
      match acc.2 with
      | some _ => acc
      | none => match lsample ds acc.1 c.1 c.2 with
        | .ok g => (g, none)
        | .error e => (acc.1, some e)) (g0, none)
    let g := r.1
    let need := g.pos
    let tail := match r.2 with
      | none => "ok"
      | some .indexError => "IndexError"
      | some .valueError => "ValueError"
    if r.2.isNone && draws.length != need then s!"err|draws|{need}"
    else if draws.length < need then s!"err|draws|{need}"
    else
      " ".intercalate (g.log.map fmtLEv) ++ s!" # {g.pos} {tail} # " ++ fmtCols names g.samples ++ " # " ++ fmtCols names g.warm

/-! ### `tv`: value of the handed target through the C01 model on recorded leaf log-densities -/

/-- log-density value with a counter of leaf look-ups outside the table -/
structure LV where
  v : Rat
  miss : Nat

instance : Add LV := ⟨fun a b => ⟨a.v + b.v, a.miss + b.miss⟩⟩
instance : Zero LV := ⟨⟨0, 0⟩⟩

def parseKwV (s : String) : Option (C01.Kw Val) :=
  if s = "." then some [] else
    (s.splitOn "&").mapM (fun e => match e.splitOn "=" with
      | [k, v] => (fun x => (k, x)) <$> parseVec v
      | _ => none)

def parseTblEntry (s : String) : Option (List Val × Rat) :=
  match s.splitOn "=" with
  | [ks, v] => do
    let keys ← (ks.splitOn "&").mapM parseVec
    let r ← parseRat v
    pure (keys, r)
  | _ => none

def tblGet : List (List Val × Rat) → List Val → Option Rat
  | [], _ => none
  | (k, v) :: r, key => if k = key then some v else tblGet r key

def parseFactorV (s : String) : Option (C01.Factor Val LV) :=
  match s.splitOn ";" with
  | [name, dim, params, tbl] => do
    let d ← dim.toNat?
    let ps := if params = "." then [] else params.splitOn ","
    let t ← (if tbl = "." then some [] else (tbl.splitOn "|").mapM parseTblEntry)
    pure { name := name, params := ps, dim := d,
           f := fun env => match (name :: ps).mapM env with
             | none => ⟨0, 1⟩
             | some key => match tblGet t key with
               | some r => ⟨r, 0⟩
               | none => ⟨0, 1⟩ }
  | _ => none

def runTV (n : String) (probe : Val) (cur data : C01.Kw Val) (fs : List (C01.Factor Val LV)) : String :=
  match gibbsTarget fs data with
  | .error e => "err|" ++ e.toString
  | .ok P =>
    match handed P (fun m => (C01.kwGet cur m).getD []) n with
    | .error e => "err|" ++ e.toString
    | .ok o =>
      match o.logd [probe] [] with
      | .error e => "err|" ++ e.toString
      | .ok r => if r.miss = 0 then "ok|" ++ o.kind ++ "|" ++ fmtRat r.v else "?"

/-! ### `tg`: structure of the handed targets -/

def descNames (l : List String) : String := if l.isEmpty then "." else "+".intercalate l

def descDens : C01.Dens Val Rat → String
  | .dist F env _ => "D:" ++ F.name ++ ":" ++ descNames (C01.free F env)
  | .lik F env _ _ => "L:" ++ F.name ++ ":" ++ descNames (C01.free F env)
  | .eval n _ _ => "E:" ++ n.getD "?"

def descObj : C01.Obj Val Rat → String
  | .joint fl ds => (C01.Obj.joint fl ds).kind ++ "[" ++ ";".intercalate (ds.map descDens) ++ "]"
  | .post L P _ _ => "Posterior[" ++ descDens L ++ ";" ++ descDens P ++ "]"
  | .single d => (C01.Obj.single d).kind ++ "[" ++ descDens d ++ "]"
  | .none => "None"

def parseFactor (s : String) : Option (C01.Factor Val Rat) :=
  match s.splitOn ":" with
  | [name, dim, params] => do
    let d ← dim.toNat?
    if name.isEmpty then none
    else pure { name := name, params := if params = "." then [] else params.splitOn "+", dim := d, f := fun _ => 0 }
  | _ => none

def runTG (fs : List (C01.Factor Val Rat)) (data : List String) : String :=
  match gibbsTarget fs (data.map (fun n => (n, ([] : Val)))) with
  | .error e => "err|" ++ e.toString
  | .ok P =>
    let hs := handedAll P (fun _ => ([] : Val))
    "ok|" ++ (if (parNames P).isEmpty then "." else ",".intercalate (parNames P)) ++ "|" ++ descObj P ++
      String.join (hs.map (fun p => "|" ++ p.1 ++ "=" ++ (match p.2 with
        | .ok o => descObj o
        | .error e => "err:" ++ e.toString)))

/-! ### `nt`: kept / lost attributes -/

def fmtOrigin : Origin → String
  | .prev => "prev" | .point => "point" | .fresh => "fresh" | .dflt => "dflt" | .unset => "unset"

def parseNameList (s : String) : List String := if s = "." then [] else s.splitOn ","

/-! ### `ar`: one block's legacy sample array -/

inductive AOp | alloc (n : Nat) | store (i : Nat) (v : Val) | last

def parseAOp (s : String) : Option AOp :=
  if s = "L" then some .last
  else if s.startsWith "A" then AOp.alloc <$> (s.drop 1).toString.toNat?
  else if s.startsWith "S" then
    match (s.drop 1).toString.splitOn ":" with
    | [i, v] => do let k ← i.toNat?; let x ← parseVec v; pure (.store k x)
    | _ => none
  else none

def runAR (dim : Nat) : List AOp → Option (List (List Rat)) → List String → String
  | [], st, acc =>
    ";".intercalate acc.reverse ++ "|" ++ (match st with
      | none => "absent"
      | some A => s!"{A.length}x{widthA A}:" ++ fmtMat A)
  | .alloc n :: r, st, acc => runAR dim r (some (allocA 0 dim n st)) acc
  | .store i v :: r, st, acc =>
    match st with
    | none => "err|AttributeError"
    | some A =>
      if v.length != dim then "bad-op"
      else if i ≥ widthA A then "err|IndexError"
      else runAR dim r (some (setColA A i v)) acc
  | .last :: r, st, acc =>
    match st with
    | none => runAR dim r st ("absent" :: acc)
    | some A => runAR dim r st ((match lastColA 0 A with | some c => fmtVec c | none => "IndexError") :: acc)

/-! ### `sh`: kinds of the stored objects -/

def parseKind (s : String) : Option Kind :=
  if s = "s" then some .scalar
  else if s.startsWith "l" then Kind.plist <$> (s.drop 1).toString.toNat?
  else if s = "a" then some (.arr [])
  else if s.startsWith "a" then Kind.arr <$> ((s.drop 1).toString.splitOn "x").mapM (fun t => t.toNat?)
  else none

def fmtKind : Kind → String
  | .scalar => "s"
  | .plist l => s!"l{l}"
  | .arr sh => "a" ++ "x".intercalate (sh.map toString)

def fmtShape : Option (List Nat) → String
  | none => "ValueError"
  | some sh => "ok:" ++ "x".intercalate (sh.map toString)

def runSH (names : List String) (init : List Kind) (sweeps : List (List Kind)) : String :=
  let k := names.length
  if init.length != k || sweeps.any (fun sw => sw.length != k) || names.isEmpty || hasDup names then "bad-op"
  else
    let g0 := constructS names (lookup names init .scalar)
    let g := runS (sweeps.map (fun sw => lookup names sw .scalar)) g0
    let nsw := sweeps.length
    let stored := (List.range nsw).map (fun j => ",".intercalate (names.map (fun n => match (g.samples n)[j]? with
      | some kd => fmtKind kd
      | none => "?")))
    (if stored.isEmpty then "_" else ";".intercalate stored) ++ "|" ++
      ",".intercalate (names.map (fun n => n ++ "=" ++ fmtShape (getSamplesS g n)))

/-! ### `ls`: legacy strategy parsing -/

def parseSKey (s : String) : Option (SKey String × Nat) :=
  match s.splitOn "=" with
  | [k, v] => do
    let id ← v.toNat?
    if k.startsWith "(" && k.endsWith ")" then pure (SKey.many [((k.drop 1).dropEnd 1).toString], id)
    else if k.contains '+' then pure (SKey.many (k.splitOn "+"), id)
    else pure (SKey.one k, id)
  | _ => none

def runLS (strategy : List (SKey String × Nat)) (names : List String) : String :=
  let ids := names.map (fun n => match lassigned strategy n with | some i => toString i | none => "-")
  let st0 : (String → Val) × Nat × List (LEv String Val) := (fun _ => [], 0, [])
  let out := match lsweepChecked (fun n => (lassigned strategy n).isSome) (fun _ => ([] : Val)) names st0 with
    | .ok s => s!"ok:{s.2.1}"
    | .error s => s!"KeyError:{s.2.1}:{names.getD s.2.1 "?"}"
  ",".intercalate ids ++ "|" ++ out

def fmtCErr : Option CErr → String
  | none => "ok" | some .attributeError => "AttributeError" | some .valueError => "ValueError"

def runTC (fs : List (C01.Factor Val Rat)) (data : List String) : String :=
  match gibbsTarget fs (data.map (fun n => (n, ([] : Val)))) with
  | .error e => "err|" ++ e.toString
  | .ok P =>
    P.kind ++ "|H0=" ++ fmtCErr (hybridTargetVerdict P false) ++ "|H1=" ++ fmtCErr (hybridTargetVerdict P true)
      ++ "|L=" ++ fmtCErr (legacyTargetVerdict P) ++ "|" ++
      ",".intercalate ((parNames P).map (fun n => n ++ ":" ++ (match samplesGeometryDim P n with
        | some d => toString d | none => "-")))

def step : List String → String
  | ["tc", factors, data] =>
    match (factors.splitOn "|").mapM parseFactor with
    | some fs => runTC fs (if data = "." then [] else data.splitOn ",")
    | none => "bad-op"
  | ["nt", "nuts", attrs] =>
    ",".intercalate nutsStateKeys ++ "|" ++ ",".intercalate nutsHistoryKeys ++ "|" ++
      ",".intercalate ((parseNameList attrs).map (fun a => a ++ "=" ++ fmtOrigin (nutsOrigin a)))
  | ["nt", isNuts, st, hi, asg, dfl, attrs] =>
    if isNuts != "0" && isNuts != "1" then "bad-op"
    else ",".intercalate ((parseNameList attrs).map (fun a =>
      a ++ "=" ++ fmtOrigin (originAfterPrologue (isNuts == "1") (parseNameList st) (parseNameList hi)
        (parseNameList asg) (parseNameList dfl) a)))
  | "tv" :: n :: probe :: cur :: data :: factors =>
    match parseVec probe, parseKwV cur, parseKwV data, factors.mapM parseFactorV with
    | some p, some c, some d, some fs => runTV n p c d fs
    | _, _, _, _ => "bad-op"
  | ["ar", dim, ops] =>
    match dim.toNat?, (ops.splitOn ";").mapM parseAOp with
    | some d, some os => if d = 0 then "bad-op" else runAR d os none []
    | _, _ => "bad-op"
  | ["sh", names, init, sweeps] =>
    match parseList "," parseKind init, (if sweeps = "_" then some [] else (sweeps.splitOn ";").mapM (parseList "," parseKind)) with
    | some i, some sw => runSH (names.splitOn ",") i sw
    | _, _ => "bad-op"
  | ["ls", strategy, names] =>
    match (if strategy = "_" then some [] else (strategy.splitOn ";").mapM parseSKey) with
    | some st => if names.isEmpty then "bad-op" else runLS st (names.splitOn ",")
    | none => "bad-op"
  | ["tg", factors, data] =>
    match (factors.splitOn "|").mapM parseFactor with
    | some fs => runTG fs (if data = "." then [] else data.splitOn ",")
    | none => "bad-op"
  | ["hg", names, flags, sids, nsteps, uinit, dinit, calls, draws] =>
    match parseList "," some names, parseList "," parseFlag flags, parseList "," parseSid sids,
          parseList "," parseOptInt nsteps, parseList ";" parseOptVec uinit, parseMat dinit,
          (parseList "," some names).bind (fun ns => parseList "," (parseHCall ns.length) calls), parseList ";" parseDraw draws with
    | some names, some flags, some sids, some nsteps, some uinit, some dinit, some calls, some draws =>
      runHG names flags sids nsteps uinit dinit calls draws
    | _, _, _, _, _, _, _, _ => "bad-op"
  | ["lg", names, ipts, dims, calls, draws] =>
    match parseList "," some names, parseList ";" parseOptVec ipts, parseNatList dims,
          parseList "," parseCall calls, parseList ";" parseVec draws with
    | some names, some ipts, some dims, some calls, some draws => runLG names ipts dims calls draws
    | _, _, _, _, _ => "bad-op"
  | _ => "bad-op"

def main : IO Unit := runDriver step
