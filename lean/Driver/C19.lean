import CuqiVerif.Model.Proto
import CuqiVerif.Model.C19
import CuqiVerif.Model.C19_access
import CuqiVerif.Model.C19_index
open CuqiVerif CuqiVerif.Proto CuqiVerif.C19

/-! Line protocol of the C19 model.

  geometry spec (one token, fields separated by `:`)
    id:<d> | c1d:<d> | disc:<d>  default geometry / Continuous1D(d) / Discrete(d) (all maps identity)
    names:<a,b,c>               Discrete([...]) with explicit variable names
    img:<r>:<c>:<C|F>           Image2D((r,c), order)
    c2d:<r>:<c>                 Continuous2D((r,c))   (fun2vec / vec2fun raise NotImplementedError)
    step:<n>:<k>:<assign>       StepExpansion(n nodes, k steps); assign = step index of each node, `x` = unassigned
    map:<a>:<b>:<aff|affnoinv|sq>:<inner spec>   MappedGeometry(inner, map, imap)
    tab:<n>:<name>:<inv|noinv>:<par2fun table>:<fun2par table>   1-D geometry whose maps are given as recorded leaf data
                                (entry-coupling maps: softmax, x/‖x‖, centering, …); table = key>val|key>val
  samples state: <shape> <isPar> <isVec> <cols>   (cols: one row per sample, `_` = no samples)
-/

def prodNat (l : List Nat) : Nat := l.foldl (· * ·) 1

def defaultVars (n : Nat) : List String :=
  if n = 1 then ["v"] else (List.range n).map (fun i => "v" ++ toString i)

def idGeom (tag : String) (d : Nat) (vars : List String) : Geometry :=
  { tag := tag, parDim := d, funShape := [d], funvecDim := d, varNames := vars,
    par2fun := Conv.id.apply, fun2par := Conv.id.apply, fun2vec := Conv.id.apply, vec2fun := Conv.id.apply }

def parseAssign (s : String) : Option (List (Option Nat)) :=
  (s.splitOn ",").mapM (fun t => if t = "x" then some none else (t.toNat?).map some)

/-- `key>val|key>val` with comma-separated rational vectors; `_` = empty table -/
def parseTable (s : String) : Option (List (List Rat × List Rat)) :=
  if s = "_" then some [] else
  (s.splitOn "|").mapM (fun e => match e.splitOn ">" with
    | [k, v] => do let k ← parseVec k; let v ← parseVec v; pure (k, v)
    | _ => none)

partial def parseGeomFields (tag : String) : List String → Option Geometry
  | ["id", d] => do
      let d ← d.toNat?
      pure (idGeom tag d (defaultVars d))
  | ["c1d", d] => do
      let d ← d.toNat?
      pure (idGeom tag d (defaultVars d))
  | ["disc", d] => do
      let d ← d.toNat?
      pure (idGeom tag d (defaultVars d))
  | ["names", ns] =>
      let vars := ns.splitOn ","
      some (idGeom tag vars.length vars)
  | ["img", r, c, o] => do
      let r ← r.toNat?
      let c ← c.toNat?
      if o ≠ "C" ∧ o ≠ "F" then none
      let d := r * c
      -- image[i,j] = vec[i*c+j] (C) or vec[i + j*r] (F); function values are flattened in C order
      let fwd : Conv := if o = "C" then .id else
        .gather ((List.range d).map (fun k => some ((k / c) + (k % c) * r)))
      -- ravel(order): vec[m] = image[m % r, m / r] (F)
      let bwd : Conv := if o = "C" then .id else
        .gather ((List.range d).map (fun m => some ((m % r) * c + m / r)))
      pure { tag := tag, parDim := d, funShape := [r, c], funvecDim := d, varNames := defaultVars d,
             par2fun := fwd.apply, fun2par := bwd.apply, fun2vec := bwd.apply, vec2fun := fwd.apply }
  | ["c2d", r, c] => do
      let r ← r.toNat?
      let c ← c.toNat?
      let d := r * c
      pure { tag := tag, parDim := d, funShape := [r, c], funvecDim := d, varNames := defaultVars d,
             par2fun := Conv.id.apply, fun2par := Conv.id.apply,
             fun2vec := (Conv.fail "NotImplementedError").apply, vec2fun := (Conv.fail "NotImplementedError").apply }
  | ["step", n, k, a] => do
      let n ← n.toNat?
      let k ← k.toNat?
      let asg ← parseAssign a
      if asg.length ≠ n then none
      let groups := (List.range k).map (fun i => (List.range n).filter (fun j => asg.getD j none == some i))
      pure { tag := tag, parDim := k, funShape := [n], funvecDim := n, varNames := defaultVars k,
             par2fun := (Conv.gather asg).apply, fun2par := (Conv.groupMean groups).apply,
             fun2vec := Conv.id.apply, vec2fun := Conv.id.apply }
  | ["tab", n, name, inv, t1, t2] => do
      let n ← n.toNat?
      let tb1 ← parseTable t1
      let tb2 ← parseTable t2
      pure { tag := "tab:" ++ toString n ++ ":" ++ name ++ ":" ++ inv, parDim := n, funShape := [n], funvecDim := n,
             varNames := defaultVars n,
             par2fun := (Conv.table tb1).apply,
             fun2par := if inv = "inv" then (Conv.table tb2).apply else (Conv.fail "ValueError").apply,
             fun2vec := Conv.id.apply, vec2fun := Conv.id.apply }
  | "map" :: a :: b :: kind :: inner => do
      let a ← parseRat a
      let b ← parseRat b
      let g ← parseGeomFields tag inner
      let fwd : Conv ← match kind with
        | "aff" => some (.affine a b) | "affnoinv" => some (.affine a b) | "sq" => some .square | _ => none
      let imap : List Rat → Except String (List Rat) :=
        if kind = "aff" then (Conv.affine (1 / a) (-b / a)).apply else (Conv.fail "ValueError").apply
      pure { g with
             par2fun := fun p => do let f ← g.par2fun p; fwd.apply f,
             fun2par := fun f => do let w ← imap f; g.fun2par w }
  | _ => none

def parseGeom (s : String) : Option Geometry := parseGeomFields s (s.splitOn ":")

def parseBool (s : String) : Option Bool :=
  if s = "1" then some true else if s = "0" then some false else none

def parseSamples (g sh ip iv cols : String) : Option Samples := do
  let geom ← parseGeom g
  let shape ← parseNatList sh
  let isPar ← parseBool ip
  let isVec ← parseBool iv
  let cs ← parseMat cols
  pure { cols := cs, shape := shape, geom := geom, isPar := isPar, isVec := isVec }

def fmtState (s : Samples) : String :=
  s!"{fmtNatList s.shape}~{fmtBool s.isPar}~{fmtBool s.isVec}~{s.geom.tag}~{fmtMat s.cols}"

inductive Op | bt (b t : Int) | fv | vec | par
  | sub (i : SubIdx) | setVec (v : Bool) | setPar (v : Bool) | sub2 (i : SubIdx2)

def parseIntList (s : String) : Option (List Int) :=
  if s = "_" then some [] else (s.splitOn ",").mapM (·.toInt?)

def parseOp (s : String) : Option Op :=
  match s.splitOn ":" with
  | ["bt", b, t] => do let b ← b.toInt?; let t ← t.toInt?; pure (.bt b t)
  | ["fv"] => some .fv
  | ["vec"] => some .vec
  | ["par"] => some .par
  | ["sub", k] => do let k ← k.toInt?; pure (.sub (.num k))
  | ["subl", ks] => do let ks ← parseIntList ks; pure (.sub (.list ks))
  | ["setvec", v] => do let v ← parseBool v; pure (.setVec v)
  | ["setpar", v] => do let v ← parseBool v; pure (.setPar v)
  | ["sls", a, b, t] => do
      let f := fun (x : String) => if x = "N" then some (none : Option Int) else (x.toInt?).map some
      let a ← f a; let b ← f b; let t ← f t
      pure (.sub2 (.slice a b t))
  | ["mask", m] => do
      let bs ← (if m = "_" then some [] else m.toList.mapM (fun c => if c = '1' then some true else if c = '0' then some false else none))
      pure (.sub2 (.mask bs))
  | ["bsc", v] => do let v ← parseBool v; pure (.sub2 (.boolScalar v))
  | ["grid", g] => do
      let rows ← (g.splitOn "|").mapM parseIntList
      pure (.sub2 (.grid rows))
  | _ => none

def Op.run (s : Samples) : Op → Except String Samples
  | .bt b t => s.burnthin b t
  | .fv => s.funvals
  | .vec => s.vector
  | .par => s.parameters
  | .sub i => s.subSamples i
  | .setVec v => s.setIsVec v
  | .setPar v => .ok (s.setIsPar v)
  | .sub2 i => s.subSamples2 i

/-- run the ops in order; report the state after each one, stop at the first exception -/
def runSeq : Samples → List Op → List String
  | _, [] => []
  | s, o :: os =>
    match o.run s with
    | .error e => ["err:" ++ e]
    | .ok s' => fmtState s' :: runSeq s' os

def fmtDict (d : List (String × List Rat)) : String :=
  if d.isEmpty then "_" else ";".intercalate (d.map (fun kv => kv.1 ++ "=" ++ fmtVec kv.2))

def fmtDict3 (d : List (String × List (List Rat))) : String :=
  if d.isEmpty then "_" else ";".intercalate (d.map (fun kv => kv.1 ++ "=" ++ "/".intercalate (kv.2.map fmtVec)))

def fmtPos (p : List (Option Nat)) : String :=
  if p.isEmpty then "_" else ",".intercalate (p.map (fun o => match o with | some i => toString i | none => "x"))

/-- groups of 5 tokens → Samples -/
def parseChains : List String → Option (List Samples)
  | [] => some []
  | g :: sh :: ip :: iv :: cols :: rest => do
      let s ← parseSamples g sh ip iv cols
      let r ← parseChains rest
      pure (s :: r)
  | _ => none

def parseJoint : List String → Option (List (String × Samples))
  | [] => some []
  | k :: g :: sh :: ip :: iv :: cols :: rest => do
      let s ← parseSamples g sh ip iv cols
      let r ← parseJoint rest
      pure ((k, s) :: r)
  | _ => none

def parseSubIdx (s : String) : Option (Option SubIdx) :=
  match s.splitOn ":" with
  | ["none"] => some none
  | ["n", k] => do let k ← k.toInt?; pure (some (.num k))
  | ["l", ks] => do let ks ← parseIntList ks; pure (some (.list ks))
  | _ => none

def userKw (s : String) : Option (List String) :=
  if s = "0" then some [] else if s = "1" then some ["is_par"] else if s = "2" then some ["color", "plot_par"] else none

def fmtPlot (r : Except String (List Rat × Bool)) : String :=
  match r with
  | .error e => "err:" ++ e
  | .ok (v, ip) => fmtVec v ++ " " ++ fmtBool ip

/-- the access / glue operations of `Model/C19_access.lean` -/
def stepAccess : List String → String
  | ["init", g, sh, ip, iv, cols] =>
    match parseGeom g, parseNatList sh, parseBool ip, parseBool iv, parseMat cols with
    | some geom, some shape, some ip, some iv, some cs =>
      match Samples.init cs shape geom ip iv with
      | .error e => "err:" ++ e
      | .ok s => fmtState s
    | _, _, _, _, _ => "bad-op"
  | ["iter", g, sh, ip, iv, cols] =>
    match parseSamples g sh ip iv cols with
    | some s => fmtMat s.iter ++ " " ++ fmtNatList s.fullShape
    | none => "bad-op"
  | ["selidx", number, total, draw] =>
    match number.toNat?, total.toNat?, parseNatList draw with
    | some n, some t, some d =>
      if t ≤ n ∨ validDraw n t d then fmtNatList (selectIndices n t d) else "err:invalid-draw"
    | _, _, _ => "bad-op"
  | ["plot", g, sh, ip, iv, cols, idx, draw, kw] =>
    match parseSamples g sh ip iv cols, parseSubIdx idx, parseNatList draw, userKw kw with
    | some s, some idx, some draw, some kw =>
      match s.plotArg idx draw kw with
      | .error e => "err:" ++ e
      | .ok (cs, ip) => fmtMat cs ++ " " ++ fmtBool ip
    | _, _, _, _ => "bad-op"
  | ["plotstat", g, sh, ip, iv, cols, kind, p, kw] =>
    match parseSamples g sh ip iv cols, parseRat p, userKw kw with
    | some s, some p, some kw =>
      if s.cols.isEmpty then "nan" else
      match kind with
      | "mean" => fmtPlot (s.plotStat mean kw)
      | "median" => fmtPlot (s.plotStat median kw)
      | "variance" => fmtPlot (s.plotStat variance kw)
      | "width" => fmtPlot (s.plotCiWidth p kw)
      | _ => "bad-op"
    | _, _, _ => "bad-op"
  | ["arvizi", g, sh, ip, iv, cols, idx] =>
    match parseSamples g sh ip iv cols, (if idx = "all" then some none else (parseIntList idx).map some) with
    | some s, some idx =>
      match s.toArvizI idx with
      | .error e => "err:" ++ e
      | .ok d => fmtDict d
    | _, _ => "bad-op"
  | ["plotci", g, sh, ip, iv, cols, p, hasExact, kwIsPar, peIsPar, kwPP, pePP, g2d] =>
    let ob := fun (x : String) => if x = "n" then some (none : Option Bool) else (parseBool x).map some
    match parseSamples g sh ip iv cols, parseRat p, parseBool hasExact, parseBool kwIsPar, parseBool peIsPar, ob kwPP, ob pePP, parseBool g2d with
    | some s, some p, some he, some k1, some k2, some pp1, some pp2, some g2 =>
      if s.cols.isEmpty then "nan" else
      match s.plotCi p he k1 k2 pp1 pp2 g2 with
      | .error e => "err:" ++ e
      | .ok calls => " | ".intercalate (calls.map (fun c => match c with
          | .plot v ip => "P " ++ fmtVec v ++ " " ++ (match ip with | none => "n" | some b => fmtBool b)
          | .envelope lo up ip pp => "E " ++ fmtVec lo ++ " " ++ fmtVec up ++ " " ++ fmtBool ip ++ " " ++ fmtBool pp
          | .exact ip pp => "X " ++ fmtBool ip ++ " " ++ fmtBool pp))
    | _, _, _, _, _, _, _, _ => "bad-op"
  | "jointstat" :: rest =>
    match parseJoint rest with
    | some js =>
      if js.isEmpty then "_" else
      " | ".intercalate (((jointNs js).zip ((jointStat mean js).zip ((jointStat variance js).zip (jointStat median js)))).map
        (fun x => x.1.1 ++ ":" ++ toString x.1.2 ++ ":" ++ fmtVec x.2.1.2 ++ ":" ++ fmtVec x.2.2.1.2 ++ ":" ++ fmtVec x.2.2.2.2))
    | none => "bad-op"
  | "rhatb" :: how :: rest =>
    match parseChains rest with
    | some (s :: chains) =>
      let arg : Option ChainsArg := match how, chains with
        | "list", cs => some (.list cs)
        | "single", [c] => some (.single c)
        | "other", _ => some .other
        | _, _ => none
      match arg with
      | none => "bad-op"
      | some a =>
        match s.rhatInputA a with
        | .error e => "err:" ++ e
        | .ok (d, pos) => fmtDict3 d ++ " # " ++ fmtPos pos
    | _ => "bad-op"
  | _ => "bad-op"

def step : List String → String
  -- index set of the Python slice [b::t] on a sequence of length n
  | ["slice", n, b, t] =>
    match n.toNat?, b.toInt?, t.toInt? with
    | some n, some b, some t =>
      match sliceIdx n b t with
      | none => "err:ValueError"
      | some idx => fmtNatList idx
    | _, _, _ => "bad-op"
  | ["seq", g, sh, ip, iv, cols, ops] =>
    match parseSamples g sh ip iv cols, (ops.splitOn ";").mapM parseOp with
    | some s, some ops => " | ".intercalate (runSeq s ops)
    | _, _ => "bad-op"
  | ["stat", sh, cols, p] =>
    match parseNatList sh, parseMat cols, parseRat p with
    | some shape, some cs, some p =>
      let s : Samples := { cols := cs, shape := shape, geom := idGeom "" 0 [], isPar := true, isVec := true }
      if cs.isEmpty then "nan"
      else
        let base := s!"{fmtVec (s.stat mean)} {fmtVec (s.stat variance)} {fmtVec (s.stat median)}"
        match s.computeCi p, s.ciWidth p with
        | .ok (lo, up), .ok w => s!"{base} {fmtVec lo} {fmtVec up} {fmtVec w}"
        | _, _ => base ++ " err:ValueError"
    | _, _, _ => "bad-op"
  -- single percentile of a single chain (for the level sweep)
  | ["pct", xs, q] =>
    match parseVec xs, parseRat q with
    | some xs, some q => if xs.isEmpty then "nan" else if 0 ≤ q ∧ q ≤ 100 then fmtRat (percentile xs q) else "err:ValueError"
    | _, _ => "bad-op"
  | ["ess", g, sh, ip, iv, cols, idx] =>
    match parseSamples g sh ip iv cols, (if idx = "all" then some none else (parseNatList idx).map some) with
    | some s, some idx =>
      match s.toArviz idx with
      | .error e => "err:" ++ e
      | .ok d => fmtDict d
    | _, _ => "bad-op"
  | "rhat" :: rest =>
    match parseChains rest with
    | some (s :: chains) =>
      match s.rhatInput chains with
      | .error e => "err:" ++ e
      | .ok (d, pos) => fmtDict3 d ++ " # " ++ fmtPos pos
    | _ => "bad-op"
  | "joint" :: b :: t :: rest =>
    match b.toInt?, t.toInt?, parseJoint rest with
    | some b, some t, some js =>
      match jointBurnthin js b t with
      | .error e => "err:" ++ e
      | .ok js' => if js'.isEmpty then "_" else " | ".intercalate (js'.map (fun kv => kv.1 ++ ":" ++ fmtState kv.2))
    | _, _, _ => "bad-op"
  | l => stepAccess l

def main : IO Unit := runDriver step
