import CuqiVerif.Model.Proto
import CuqiVerif.Model.QMat
import CuqiVerif.Model.C20
import CuqiVerif.Model.C20Hist
open CuqiVerif CuqiVerif.Proto CuqiVerif.C20

def fmtIntMat (m : List (List Int)) : String :=
  fmtMat (m.map (fun r => r.map (fun (k : Int) => (k : Rat))))

def toQ (M : FMat) : QMat.Mat := M.toList.map (fun r => r.map (fun (k : Int) => (k : Rat)))

/-- Orders/BCs/sizes on which the real constructor raises. -/
def accepts (order : Nat) (bc : BC) (n : Nat) : Bool :=
  match order with
  | 0 => true
  | 1 => true
  | 2 => secondOrderAccepts bc && (bc != .periodic || n ≥ 2) && (bc != .neumann || n ≥ 2)
  | _ => false

/-- one GMRF object driven through a history: `p=<rat>` / `m=<vec>` re-assign, `q=<vec>` / `g=<vec>` / `S` / `T` read -/
def histRun (s : GState) : List String → List String → Option (List String)
  | [], acc => some acc.reverse
  | tok :: rest, acc =>
    match tok.splitOn "=" with
    | ["p", v] => match parseRat v with
      | some p => histRun (s.apply (.setPrec p)) rest acc
      | none => none
    | ["m", v] => match parseVec v with
      | some m => histRun (s.apply (.setMean m)) rest acc
      | none => none
    | ["q", v] => match parseVec v with
      | some x => histRun s rest (fmtRat (s.quad x) :: acc)
      | none => none
    | ["g", v] => match parseVec v with
      | some x => histRun s rest (fmtVec (s.grad x) :: acc)
      | none => none
    | ["S"] => histRun s rest (fmtMat s.scaledPrec :: acc)
    | ["T"] => histRun s rest (fmtVec s.precMean :: acc)
    | _ => none

def step : List String → String
  | ["gmrfhist", P, p0, m0, script] =>
    match parseMat P, parseRat p0, parseVec m0 with
    | some P, some p0, some m0 =>
      match histRun { P := P, prec := p0, mean := m0 } (script.splitOn "/") [] with
      | some outs => if outs.isEmpty then "_" else " | ".intercalate outs
      | none => "bad-op"
    | _, _, _ => "bad-op"
  | ["diff1", o, b, n] =>
    match o.toNat?, BC.ofString b, n.toNat? with
    | some o, some bc, some n => if accepts o bc n then fmtIntMat (diffOp o bc n).toList else "err"
    | _, _, _ => "bad-op"
  | ["diff2", o, b, n] =>
    match o.toNat?, BC.ofString b, n.toNat? with
    | some o, some bc, some n => if accepts o bc n then fmtIntMat (diffOp2D o bc n).toList else "err"
    | _, _, _ => "bad-op"
  | ["prec1", o, b, n] =>
    match o.toNat?, BC.ofString b, n.toNat? with
    | some o, some bc, some n => if accepts o bc n then fmtIntMat (gram (diffOp o bc n)).toList else "err"
    | _, _, _ => "bad-op"
  | ["prec2", o, b, n] =>
    match o.toNat?, BC.ofString b, n.toNat? with
    | some o, some bc, some n => if accepts o bc n then fmtIntMat (gram (diffOp2D o bc n)).toList else "err"
    | _, _, _ => "bad-op"
  -- declared rank, true rank of the exact precision, 1-D nullity formula
  | ["rank1", o, b, n] =>
    match o.toNat?, BC.ofString b, n.toNat? with
    | some o, some bc, some n =>
      if accepts o bc n then
        s!"{declaredRank bc n} {QMat.rank (toQ (gram (diffOp o bc n)))} {n - nullity1D o bc}"
      else "err"
    | _, _, _ => "bad-op"
  | ["rank2", o, b, n] =>
    match o.toNat?, BC.ofString b, n.toNat? with
    | some o, some bc, some n =>
      if accepts o bc n then
        s!"{declaredRank bc (n*n)} {QMat.rank (toQ (gram (diffOp2D o bc n)))}"
      else "err"
    | _, _, _ => "bad-op"
  | _ => "bad-op"

def main : IO Unit := runDriver step
