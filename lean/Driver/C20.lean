import CuqiVerif.Model.Proto
import CuqiVerif.Model.QMat
import CuqiVerif.Model.C20
import CuqiVerif.Model.C20Hist
import CuqiVerif.Model.C20_eval
import CuqiVerif.Model.C20_chol
open CuqiVerif CuqiVerif.Proto CuqiVerif.C20

def fmtIntMat (m : List (List Int)) : String :=
  fmtMat (m.map (fun r => r.map (fun (k : Int) => (k : Rat))))

def toQ (M : FMat) : QMat.Mat := M.toList.map (fun r => r.map (fun (k : Int) => (k : Rat)))

/-- Orders/BCs/sizes on which the real constructor raises. -/
def accepts (order : Nat) (bc : BC) (n : Nat) : Bool :=
  match order with
  | 0 => true
  | 1 => true
  | 2 => secondOrderAccepts bc && (bc != .periodic || n ≥ 2) && (bc != .neumann || n ≥ 2)
  | _ => false

/-- one GMRF object driven through a history: `p=<rat>` / `m=<vec>` re-assign, `q=<vec>` / `g=<vec>` / `S` / `T` read -/
def histRun (s : GState) : List String → List String → Option (List String)
  | [], acc => some acc.reverse
  | tok :: rest, acc =>
    match tok.splitOn "=" with
    | ["p", v] => match parseRat v with
      | some p => histRun (s.apply (.setPrec p)) rest acc
      | none => none
    | ["m", v] => match parseVec v with
      | some m => histRun (s.apply (.setMean m)) rest acc
      | none => none
    | ["q", v] => match parseVec v with
      | some x => histRun s rest (fmtRat (s.quad x) :: acc)
      | none => none
    | ["g", v] => match parseVec v with
      | some x => histRun s rest (fmtVec (s.grad x) :: acc)
      | none => none
    | ["S"] => histRun s rest (fmtMat s.scaledPrec :: acc)
    | ["T"] => histRun s rest (fmtVec s.precMean :: acc)
    | _ => none


/-! ### glue + evaluation ops (`Model/C20_eval.lean`) -/

def parseNodes (s : String) : Option NodesArg :=
  if s = "o" then some .other
  else match s.splitOn ":" with
  | ["i", v] => NodesArg.int <$> v.toInt?
  | ["t", v] => if v = "" then some (.tuple []) else NodesArg.tuple <$> (v.splitOn ",").mapM (·.toInt?)
  | _ => none

def fmtNodes : NodesArg → String
  | .int n => s!"i:{n}"
  | .tuple ns => "t:" ++ ",".intercalate (ns.map toString)
  | .other => "o"

def parseOptRat (s : String) : Option (Option Rat) :=
  if s = "None" then some none else some <$> parseRat s

def fmtQF (r : Except Refusal QFMat) : String :=
  match r with
  | .error e => "err:" ++ e.name
  | .ok M => s!"{M.rows} {M.cols} {fmtMat (if M.cols = 0 then [] else M.toList)}"

def fmtForm (f : LogForm) : String :=
  fmtRat f.const ++ ";" ++ fmtRat f.piCoef ++ ";" ++
    (if f.logs.isEmpty then "_" else ",".intercalate (f.logs.map fun (c, a) => fmtRat c ++ ":" ++ fmtRat a))

def vecFn (l : List Rat) : Nat → Rat := fun j => l.getD j 0

/-- one evaluation of a Markov-random-field prior: the broadcasting of `x - location`, the operator the
    constructor builds for (pd, order, bc, n), the log-density as a `LogForm` and the gradient -/
def mrfEval (fam : String) (pd : Nat) (order : Int) (bc : String) (n : Nat) (par : Rat) (x loc : List Rat) : String :=
  let nodes : NodesArg := if pd = 1 then .int n else .tuple [n, n]
  let Dres : Except Refusal FMat := if fam = "gmrf" then precDiffOp nodes bc order else intOp false nodes bc
  match Dres with
  | .error e => "err:" ++ e.name
  | .ok D =>
    match bshiftLen x.length loc.length with
    | none => "err:ValueError"
    | some len =>
      if len ≠ D.cols then "err:ValueError" else
      let d := bshift x.length (vecFn x) loc.length (vecFn loc)
      let cols := List.range D.cols
      if fam = "lmrf" then fmtForm (lmrfForm D par d) ++ " | -"
      else if fam = "cmrf" then fmtForm (cmrfForm D par d) ++ " | " ++ fmtVec (cols.map (cmrfGrad D par d))
      else match gmrfRank bc D.cols with
        | .error e => "err:" ++ e.name
        | .ok r => fmtForm (gmrfForm D r par d) ++ " | " ++ fmtVec (cols.map (gmrfGrad D par d))

def stepEval : List String → Option String
  | ["ctor1", nd, bc, dx] => do
    let nodes ← parseNodes nd; let dx ← parseOptRat dx
    some (fmtQF (firstCtor nodes bc dx))
  | ["ctor2", nd, bc, dx] => do
    let nodes ← parseNodes nd; let dx ← parseOptRat dx
    some (fmtQF (secondCtor nodes bc dx))
  | ["ctorP", nd, bc, o] => do
    let nodes ← parseNodes nd; let o ← o.toInt?
    some (fmtQF ((fun P => P.scale 1) <$> precCtor nodes bc o))
  | ["mrfnodes", sh] =>
    if sh = "None" then some (match mrfNodes none with | .error e => "err:" ++ e.name | .ok v => fmtNodes v)
    else do
      let l ← parseNatList sh
      some (match mrfNodes (some l) with | .error e => "err:" ++ e.name | .ok v => fmtNodes v)
  | ["gmrfrank", bc, dim] => do
    let dim ← dim.toNat?
    some (match gmrfRank bc dim with | .error e => "err:" ++ e.name | .ok r => toString r)
  | ["mrf", fam, pd, o, bc, n, par, x, loc] => do
    let pd ← pd.toNat?; let o ← o.toInt?; let n ← n.toNat?; let par ← parseRat par
    let x ← parseVec x; let loc ← parseVec loc
    if fam ≠ "lmrf" ∧ fam ≠ "cmrf" ∧ fam ≠ "gmrf" then none else
    if pd ≠ 1 ∧ pd ≠ 2 then none else
    some (mrfEval fam pd o bc n par x loc)
  | _ => none


/-! ### sparse_cholesky / GMRF factor ops (`Model/C20_chol.lean`) -/

/-- `cholP pd order bc n reg`: the factor `GMRF.__init__` asks `sparse_cholesky` for — of the model's own precision
    `gram (diffOp…)` (`reg = 0`, zero-boundary branch) or of `P + sqrt(eps)·I` (`reg = 1`, periodic / Neumann branch).
    Output `L | d | cert | closed`: `cert` = the exact re-multiplication check, `closed` = agreement with the closed form
    `tridiagL` / `tridiagD` (1-D, order 1, zero boundary; `-` elsewhere). -/
def cholP (pd order : Nat) (bc : BC) (n : Nat) (reg : Bool) : String :=
  if !accepts order bc n then "err" else
  let P := toQ (gram (if pd = 1 then diffOp order bc n else diffOp2D order bc n))
  let A := if reg then regularised P else P
  match sparseCholesky A with
  | none => "refused"
  | some (L, d) =>
    let cert := cholCheck A L d
    let closed :=
      if pd = 1 ∧ order = 1 ∧ bc = .zero ∧ !reg then
        fmtBool (L == QMat.ofFn n n tridiagL && d == (List.range n).map tridiagD)
      else "-"
    fmtMat L ++ " | " ++ fmtVec d ++ " | " ++ fmtBool cert ++ " | " ++ closed

def stepChol : List String → Option String
  | ["cholP", pd, o, b, n, reg] => do
    let pd ← pd.toNat?; let o ← o.toNat?; let bc ← BC.ofString b; let n ← n.toNat?
    if pd ≠ 1 ∧ pd ≠ 2 then none else
    some (cholP pd o bc n (reg = "1"))
  | ["sample0", pd, o, n, w] => do
    let pd ← pd.toNat?; let o ← o.toNat?; let n ← n.toNat?; let w ← parseVec w
    if pd ≠ 1 ∧ pd ≠ 2 then none else
    if !accepts o .zero n then some "err" else
    let P := toQ (gram (if pd = 1 then diffOp o .zero n else diffOp2D o .zero n))
    if w.length ≠ P.length then some "err" else
    some (match sampleZero P w with
      | none => "refused"
      | some (y, ok) => fmtVec y ++ " | " ++ fmtBool ok)
  | ["chol", A] => do
    let A ← parseMat A
    some (match sparseCholesky A with
      | none => "refused"
      | some (L, d) => fmtMat L ++ " | " ++ fmtVec d ++ " | " ++ fmtBool (cholCheck A L d) ++ " | -")
  | _ => none

def step : List String → String
  | ["gmrfhist", P, p0, m0, script] =>
    match parseMat P, parseRat p0, parseVec m0 with
    | some P, some p0, some m0 =>
      match histRun { P := P, prec := p0, mean := m0 } (script.splitOn "@") [] with
      | some outs => if outs.isEmpty then "_" else " | ".intercalate outs
      | none => "bad-op"
    | _, _, _ => "bad-op"
  | ["diff1", o, b, n] =>
    match o.toNat?, BC.ofString b, n.toNat? with
    | some o, some bc, some n => if accepts o bc n then fmtIntMat (diffOp o bc n).toList else "err"
    | _, _, _ => "bad-op"
  | ["diff2", o, b, n] =>
    match o.toNat?, BC.ofString b, n.toNat? with
    | some o, some bc, some n => if accepts o bc n then fmtIntMat (diffOp2D o bc n).toList else "err"
    | _, _, _ => "bad-op"
  | ["prec1", o, b, n] =>
    match o.toNat?, BC.ofString b, n.toNat? with
    | some o, some bc, some n => if accepts o bc n then fmtIntMat (gram (diffOp o bc n)).toList else "err"
    | _, _, _ => "bad-op"
  | ["prec2", o, b, n] =>
    match o.toNat?, BC.ofString b, n.toNat? with
    | some o, some bc, some n => if accepts o bc n then fmtIntMat (gram (diffOp2D o bc n)).toList else "err"
    | _, _, _ => "bad-op"
  -- declared rank, true rank of the exact precision, 1-D nullity formula
  | ["rank1", o, b, n] =>
    match o.toNat?, BC.ofString b, n.toNat? with
    | some o, some bc, some n =>
      if accepts o bc n then
        s!"{declaredRank bc n} {QMat.rank (toQ (gram (diffOp o bc n)))} {n - nullity1D o bc}"
      else "err"
    | _, _, _ => "bad-op"
  | ["rank2", o, b, n] =>
    match o.toNat?, BC.ofString b, n.toNat? with
    | some o, some bc, some n =>
      if accepts o bc n then
        s!"{declaredRank bc (n*n)} {QMat.rank (toQ (gram (diffOp2D o bc n)))}"
      else "err"
    | _, _, _ => "bad-op"
  | toks => ((stepEval toks).orElse (fun _ => stepChol toks)).getD "bad-op"

def main : IO Unit := runDriver step
