import CuqiVerif.Model.Proto
import CuqiVerif.Model.QMat
import CuqiVerif.Model.C20
open CuqiVerif CuqiVerif.Proto CuqiVerif.C20

def fmtIntMat (m : List (List Int)) : String :=
  fmtMat (m.map (fun r => r.map (fun (k : Int) => (k : Rat))))

def toQ (M : FMat) : QMat.Mat := M.toList.map (fun r => r.map (fun (k : Int) => (k : Rat)))

/-- Orders/BCs/sizes on which the real constructor raises. -/
def accepts (order : Nat) (bc : BC) (n : Nat) : Bool :=
  match order with
  | 0 => true
  | 1 => true
  | 2 => secondOrderAccepts bc && (bc != .periodic || n ≥ 2) && (bc != .neumann || n ≥ 2)
  | _ => false

def step : List String → String
  | ["diff1", o, b, n] =>
    match o.toNat?, BC.ofString b, n.toNat? with
    | some o, some bc, some n => if accepts o bc n then fmtIntMat (diffOp o bc n).toList else "err"
    | _, _, _ => "bad-op"
  | ["diff2", o, b, n] =>
    match o.toNat?, BC.ofString b, n.toNat? with
    | some o, some bc, some n => if accepts o bc n then fmtIntMat (diffOp2D o bc n).toList else "err"
    | _, _, _ => "bad-op"
  | ["prec1", o, b, n] =>
    match o.toNat?, BC.ofString b, n.toNat? with
    | some o, some bc, some n => if accepts o bc n then fmtIntMat (gram (diffOp o bc n)).toList else "err"
    | _, _, _ => "bad-op"
  | ["prec2", o, b, n] =>
    match o.toNat?, BC.ofString b, n.toNat? with
    | some o, some bc, some n => if accepts o bc n then fmtIntMat (gram (diffOp2D o bc n)).toList else "err"
    | _, _, _ => "bad-op"
  -- declared rank, true rank of the exact precision, 1-D nullity formula
  | ["rank1", o, b, n] =>
    match o.toNat?, BC.ofString b, n.toNat? with
    | some o, some bc, some n =>
      if accepts o bc n then
        s!"{declaredRank bc n} {QMat.rank (toQ (gram (diffOp o bc n)))} {n - nullity1D o bc}"
      else "err"
    | _, _, _ => "bad-op"
  | ["rank2", o, b, n] =>
    match o.toNat?, BC.ofString b, n.toNat? with
    | some o, some bc, some n =>
      if accepts o bc n then
        s!"{declaredRank bc (n*n)} {QMat.rank (toQ (gram (diffOp2D o bc n)))}"
      else "err"
    | _, _, _ => "bad-op"
  | _ => "bad-op"

def main : IO Unit := runDriver step
