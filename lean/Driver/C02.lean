import CuqiVerif.Model.Proto
import CuqiVerif.Model.C02
import CuqiVerif.Model.C02_chain
open CuqiVerif CuqiVerif.Proto CuqiVerif.C02

/-
  Line protocol of the C02 driver.  XVal tokens: `nan`, `-inf`, `inf`, or a rational.
    mh    K x logd scale xi ell tstar                      -> acc x' logd' xs
    pcn   K x loglik scale c xi ell tstar                  -> acc x' loglik' xs        | err-cert
    mala  K x logd grad scale sigma z ell tstar gstar      -> acc x' logd' grad' xs r  | err-cert
    cw    K x logd scales z ells tstars int|float          -> accbits x' logd' queries
    prop  isDistribution isSymmetric                       -> ok | err
    acc   K ell ratio tstar                                -> 0 | 1
    min0  r                                                -> XVal
  session-3 ops (the code around the transitions; `Model/C02_chain.lean`)
    pcnx  K cache scale ell tstar                          -> defined | nanprop acc cache'
    tune  K dim T i zetaInv logLam accRows                 -> logLam' logScale'          | err-cert
    tint  prod                                             -> max(int(prod), 1)
    sarg  adapt(0|1) scale|none                            -> scale | err
    leg   K int|float width dim S|A N Nb prodNa x0 logd0 grad0 scale0 logLam0 zetaInvs newScales inputs
                                                           -> points logds grads scales accRows trace nUpd | err | err-leaf | err-cert
    lstep K dim x logd grad scale nargs inp                 -> point | err            (legacy step / step_tune)
    exp   K int|float width dim x0 logd0 grad0 scale0 logLam0 zetaInvs newScales inits phases
                                                           -> x logd grad scale logLam accRows samples trace | err-leaf | err-cert
      inputs : transitions `z~ells~tstars~gstar~aux` joined by `|` (`_` = none)
      phases : `S:inputs`, `W:tune_freq*Nb:inputs`, `R:scale`, `L`, `I:x0:scale0:logLam0` (reinitialize), `T:x0:scale0:logLam0`
               (target = …; reinitialize) joined by `#`; inits : `t0~g0` per (re)initialisation joined by `|`
  The recorded target values (`tstar`, `gstar`, `tstars`) are what the implementation's target
  returned at its proposal(s); the model is the bookkeeping around them.
-/

def parseX (s : String) : Option XVal :=
  if s = "nan" then some .nan
  else if s = "-inf" then some .neginf
  else if s = "inf" then some .posinf
  else XVal.fin <$> parseRat s

def parseXs (s : String) : Option (List XVal) :=
  if s = "_" then some [] else (s.splitOn ",").mapM parseX

def fmtX : XVal → String
  | .nan => "nan" | .neginf => "-inf" | .posinf => "inf" | .fin q => fmtRat q

def parseK : String → Option Kernel
  | "expMH" => some .expMH | "expCWMH" => some .expCWMH | "expPCN" => some .expPCN
  | "expMALA" => some .expMALA | "legMH" => some .legMH | "legCWMH" => some .legCWMH
  | "legPCN" => some .legPCN | "legMALA" => some .legMALA | _ => none

def parseB : String → Option Bool
  | "1" => some true | "0" => some false | _ => none

def fmtBits (bs : List Bool) : String :=
  if bs.isEmpty then "_" else ",".intercalate (bs.map fmtBool)

def parseInp (s : String) : Option Inp :=
  match s.splitOn "~" with
  | [z, ells, ts, gs, aux] => do
    let z ← parseVec z
    let ells ← parseXs ells
    let ts ← parseXs ts
    let gs ← parseVec gs
    let aux ← parseRat aux
    some { z := z, ells := ells, ts := ts, gs := gs, aux := aux }
  | _ => none

def parseInps (s : String) : Option (List Inp) :=
  if s = "_" then some [] else (s.splitOn "|").mapM parseInp

def parseBitRows (s : String) : Option (List (List Bool)) :=
  if s = "_" then some [] else (s.splitOn ";").mapM (fun r => (r.splitOn ",").mapM parseB)

def fmtXs (v : List XVal) : String := if v.isEmpty then "_" else ",".intercalate (v.map fmtX)

def fmtXRows (m : List (List XVal)) : String := if m.isEmpty then "_" else ";".intercalate (m.map fmtXs)

def fmtBitRows (m : List (List Bool)) : String := if m.isEmpty then "_" else ";".intercalate (m.map fmtBits)

def parseDt (dt : String) : Option Bool :=
  if dt = "int" then some true else if dt = "float" then some false else none

/-- shape of one transition's inputs for kernel `k` in dimension `dim` -/
def inpOk (k : Kernel) (dim : Nat) (i : Inp) : Bool :=
  let w := if k = .expCWMH ∨ k = .legCWMH then dim else 1
  i.z.length == dim && i.ells.length == w && i.ts.length == w &&
    (if k = .expMALA ∨ k = .legMALA then i.gs.length == dim else true)

def zetasOk (zs : Vec) : Bool :=
  (zs.zipIdx.all (fun (z, n) => sqrtCert z ((n : Rat) + 1)))

def parsePhaseB (s : String) (zs : Vec) (ns : List Vec) : Option (Phase Inp) :=
  match s.splitOn ":" with
  | ["S", inps] => Phase.sample <$> parseInps inps
  | ["W", prod, inps] => do
    let p ← parseRat prod          -- the float product tune_freq*Nb; tune_interval = max(int(·), 1) is computed by the model
    let inps ← parseInps inps
    some (Phase.warmup (tuneInterval p) (fun n => zs.getD n 0) (fun n => ns.getD n []) inps)
  | ["R", v] => Phase.rescale <$> parseVec v
  | ["L"] => some Phase.reload
  | _ => none

def parsePhase (s : String) (zs : Vec) (ns : List Vec) : Option (PhaseT Nat Inp) :=
  match s.splitOn ":" with
  | ["I", x0, sc0, lam0] => do          -- reinitialize() (initial_point possibly re-assigned)
    some (PhaseT.reinit (← parseVec x0) (← parseVec sc0) (← parseXs lam0))
  | ["T", x0, sc0, lam0] => do          -- target = …; reinitialize()
    some (PhaseT.retarget 0 (← parseVec x0) (← parseVec sc0) (← parseXs lam0))
  | _ => PhaseT.base <$> parsePhaseB s zs ns

def phaseInputs : PhaseT Nat Inp → List Inp
  | .base (.sample i) => i
  | .base (.warmup _ _ _ i) => i
  | _ => []

/-- recorded values of the target at the (re)initialisation points: `t0~g0` joined by `|` -/
def parseInits (s : String) : Option (List (XVal × Vec)) :=
  if s = "_" then some [] else (s.splitOn "|").mapM (fun e =>
    match e.splitOn "~" with
    | [t, g] => do some ((← parseX t), (← parseVec g))
    | _ => none)

def step : List String → String
  | ["pcnx", k, cache, scale, ell, tstar] =>
    match parseK k, parseX cache, parseRat scale, parseX ell, parseX tstar with
    | some k, some cache, some s, some ell, some t =>
      if k = .expPCN ∨ k = .legPCN then
        if pcnContractionDefined s then "defined"
        else let r := pcnNanStep k cache t ell; s!"nanprop {fmtBool r.2} {fmtX r.1}"
      else "bad-op"
    | _, _, _, _, _ => "bad-op"
  | ["tune", k, dim, t, i, zi, lam, rows] =>
    match parseK k, parseNat dim, parseNat t, parseNat i, parseRat zi, parseXs lam, parseBitRows rows with
    | some k, some dim, some T, some i, some zi, some lam, some rows =>
      if T = 0 ∨ dim = 0 ∨ k.tuner = .none then "bad-op"
      else if !sqrtCert zi ((i : Rat) + 1) then "err-cert"
      else
        let lam' := tuneUpdate (k.tuner.star dim) (1 / zi) (k.window.cut rows T i) lam
        s!"{fmtXs lam'} {fmtXs (lam'.map capLog)}"
    | _, _, _, _, _, _, _ => "bad-op"
  | ["tint", p] =>
    match parseRat p with
    | some p => toString (tuneInterval p)
    | none => "bad-op"
  | ["sarg", a, sc] =>
    match parseB a, (if sc = "none" then some none else some <$> parseRat sc) with
    | some a, some sc => match legScaleArg a sc with
      | some v => fmtRat v
      | none => "err"
    | _, _ => "bad-op"
  | ["leg", k, dt, width, dim, mode, n, nb, prodNa, x0, logd0, grad0, scale0, lam0, zs, ns, inps] =>
    match parseK k, parseDt dt, parseNat width, parseNat dim, parseNat n, parseNat nb, parseRat prodNa, parseVec x0 with
    | some k, some isInt, some width, some dim, some N, some Nb, some prodNa, some x0 =>
      match parseX logd0, parseVec grad0, parseVec scale0, parseXs lam0, parseVec zs, parseMat ns, parseInps inps with
      | some logd0, some grad0, some scale0, some lam0, some zs, some ns, some inps =>
        if !(k = .legMH ∨ k = .legPCN ∨ k = .legMALA ∨ k = .legCWMH) ∨ x0.length ≠ dim ∨ dim = 0
            ∨ !(inps.all (inpOk k dim)) ∨ lam0.length ≠ width ∨ (mode ≠ "S" ∧ mode ≠ "A") then "bad-op"
        else if !zetasOk zs then "err-cert"
        else
          let st0 : St := { x := x0, logd := logd0, grad := grad0, scale := scale0 }
          let stp := stepLeafX k isInt
          let fmt (chain : List St) (acc : List (List Bool)) (trace : List (List XVal)) (nUpd : Nat) : String :=
            s!"{fmtMat (chain.map (·.x))} {fmtXs (chain.map (·.logd))} {fmtMat (chain.map (·.grad))} {fmtMat (chain.map (·.scale))} {fmtBitRows acc} {fmtXRows trace} {nUpd}"
          if mode = "S" then
            match legSample width stp st0 N Nb inps with
            | none => "err"
            | some (chain, acc) => fmt chain acc [] 0
          else
            match legSampleAdapt k.tuner width dim stp (fun n => zs.getD n 0) (fun n => ns.getD n []) st0 lam0 N Nb prodNa inps with
            | none => "err"
            | some (chain, acc, L) =>
              if L.nUpd > ns.length ∨ L.nUpd > zs.length then "err-leaf" else fmt chain acc L.trace L.nUpd
      | _, _, _, _, _, _, _ => "bad-op"
    | _, _, _, _, _, _, _, _ => "bad-op"
  | ["lstep", k, dim, x, logd, grad, scale, nargs, inp] =>
    match parseK k, parseNat dim, parseVec x, parseX logd, parseVec grad, parseVec scale, parseNat nargs, parseInp inp with
    | some k, some dim, some x, some logd, some grad, some scale, some nargs, some inp =>
      if !(k = .legMH ∨ k = .legPCN ∨ k = .legMALA ∨ k = .legCWMH) ∨ x.length ≠ dim ∨ dim = 0 ∨ !inpOk k dim inp then "bad-op"
      else
        match legStepTune (if k = .legCWMH then dim else 1) (stepLeaf k false) { x := x, logd := logd, grad := grad, scale := scale } inp nargs with
        | some v => fmtVec v
        | none => "err"
    | _, _, _, _, _, _, _, _ => "bad-op"
  | ["exp", k, dt, width, dim, x0, logd0, grad0, scale0, lam0, zs, ns, inits, phases] =>
    match parseK k, parseDt dt, parseNat width, parseNat dim, parseVec x0, parseX logd0, parseVec grad0 with
    | some k, some isInt, some width, some dim, some x0, some logd0, some grad0 =>
      match parseVec scale0, parseXs lam0, parseVec zs, parseMat ns, parseInits inits with
      | some scale0, some lam0, some zs, some ns, some inits =>
        match (if phases = "_" then some [] else (phases.splitOn "#").mapM (fun p => parsePhase p zs ns)) with
        | some phs =>
          if !(k = .expMH ∨ k = .expPCN ∨ k = .expMALA ∨ k = .expCWMH) ∨ x0.length ≠ dim ∨ dim = 0
              ∨ !(phs.all (fun p => (phaseInputs p).all (inpOk k dim))) ∨ lam0.length ≠ width then "bad-op"
          else if !zetasOk zs then "err-cert"
          else
            let st0 : St := { x := x0, logd := logd0, grad := grad0, scale := scale0 }
            let s0 := smpInit width st0 lam0
            let S := runSessionT k.tuner k.window dim width (fun _ => stepLeafX k isInt)
              (fun n _ _ => inits.getD n (.nan, [])) s0 { tgt := 0, s := s0, nInit := 0 } phs
            let s := S.s
            if s.nUpd > ns.length ∨ s.nUpd > zs.length ∨ S.nInit > inits.length then "err-leaf"
            else s!"{fmtVec s.st.x} {fmtX s.st.logd} {fmtVec s.st.grad} {fmtVec s.st.scale} {fmtXs s.logLam} {fmtBitRows s.acc} {fmtMat s.samples} {fmtXRows s.trace}"
        | none => "bad-op"
      | _, _, _, _, _ => "bad-op"
    | _, _, _, _, _, _, _ => "bad-op"
  | ["mh", k, x, logd, scale, xi, ell, tstar] =>
    match parseK k, parseVec x, parseX logd, parseRat scale, parseVec xi, parseX ell, parseX tstar with
    | some k, some x, some logd, some s, some xi, some ell, some t =>
      if (k = .expMH ∨ k = .legMH) ∧ x.length = xi.length ∧ x.length > 0 then
        let st : St := { x := x, logd := logd, grad := [], scale := [s] }
        let (st', a) := mhStep k (fun _ => t) st xi ell
        s!"{fmtBool a} {fmtVec st'.x} {fmtX st'.logd} {fmtVec (mhPropose st xi)}"
      else "bad-op"
    | _, _, _, _, _, _, _ => "bad-op"
  | ["pcn", k, x, logd, scale, c, xi, ell, tstar] =>
    match parseK k, parseVec x, parseX logd, parseRat scale, parseRat c, parseVec xi, parseX ell, parseX tstar with
    | some k, some x, some logd, some s, some c, some xi, some ell, some t =>
      if (k = .expPCN ∨ k = .legPCN) ∧ x.length = xi.length ∧ x.length > 0 then
        if !sqrtCert c (1 - s * s) then "err-cert" else
        let st : St := { x := x, logd := logd, grad := [], scale := [s] }
        let (st', a) := pcnStep k (fun _ => t) c st xi ell
        s!"{fmtBool a} {fmtVec st'.x} {fmtX st'.logd} {fmtVec (pcnPropose st c xi)}"
      else "bad-op"
    | _, _, _, _, _, _, _, _ => "bad-op"
  | ["mala", k, x, logd, grad, scale, sigma, z, ell, tstar, gstar] =>
    match parseK k, parseVec x, parseX logd, parseVec grad, parseRat scale, parseRat sigma, parseVec z,
          parseX ell, parseX tstar, parseVec gstar with
    | some k, some x, some logd, some g, some s, some sg, some z, some ell, some t, some gs =>
      if (k = .expMALA ∨ k = .legMALA) ∧ x.length = z.length ∧ x.length = g.length ∧ x.length = gs.length
          ∧ x.length > 0 ∧ s ≠ 0 then
        if !sqrtCert sg s then "err-cert" else
        let st : St := { x := x, logd := logd, grad := g, scale := [s] }
        let (st', a) := malaStep k (fun _ => t) (fun _ => gs) sg st z ell
        let xs := malaPropose st sg z
        let r := (t.sub logd).add (.fin (logProposal s x xs gs - logProposal s xs x g))
        s!"{fmtBool a} {fmtVec st'.x} {fmtX st'.logd} {fmtVec st'.grad} {fmtVec xs} {fmtX r}"
      else "bad-op"
    | _, _, _, _, _, _, _, _, _, _ => "bad-op"
  | ["cw", k, x, logd, scales, z, ells, tstars, dt] =>
    match parseK k, parseVec x, parseX logd, parseVec scales, parseVec z, parseXs ells, parseXs tstars,
          (if dt = "int" then some true else if dt = "float" then some false else none) with
    | some k, some x, some logd, some sc, some z, some ells, some ts, some isInt =>
      if (k = .expCWMH ∨ k = .legCWMH) ∧ x.length = z.length ∧ x.length = ells.length ∧ x.length = ts.length
          ∧ (sc.length = 1 ∨ sc.length = x.length) ∧ x.length > 0 then
        let st : St := { x := x, logd := logd, grad := [], scale := sc }
        let (st', acc, qs) := cwStep k (fun j _ => ts.getD j .nan) st z ells isInt
        s!"{fmtBits acc} {fmtVec st'.x} {fmtX st'.logd} {fmtMat qs}"
      else "bad-op"
    | _, _, _, _, _, _, _, _ => "bad-op"
  | ["prop", d, s] =>
    match parseB d, parseB s with
    | some d, some s => if proposalAccepted d s then "ok" else "err"
    | _, _ => "bad-op"
  | ["acc", k, ell, ratio, tstar] =>
    match parseK k, parseX ell, parseX ratio, parseX tstar with
    | some k, some ell, some r, some t => fmtBool (accepts k ell r t)
    | _, _, _, _ => "bad-op"
  | ["min0", r] =>
    match parseX r with
    | some r => fmtX (XVal.pyMin0 r)
    | none => "bad-op"
  | _ => "bad-op"

def main : IO Unit := runDriver step
