import CuqiVerif.Model.Proto
import CuqiVerif.Model.C02
open CuqiVerif CuqiVerif.Proto CuqiVerif.C02

/-
  Line protocol of the C02 driver.  XVal tokens: `nan`, `-inf`, `inf`, or a rational.
    mh    K x logd scale xi ell tstar                      -> acc x' logd' xs
    pcn   K x loglik scale c xi ell tstar                  -> acc x' loglik' xs        | err-cert
    mala  K x logd grad scale sigma z ell tstar gstar      -> acc x' logd' grad' xs r  | err-cert
    cw    K x logd scales z ells tstars int|float          -> accbits x' logd' queries
    prop  isDistribution isSymmetric                       -> ok | err
    acc   K ell ratio tstar                                -> 0 | 1
    min0  r                                                -> XVal
  The recorded target values (`tstar`, `gstar`, `tstars`) are what the implementation's target
  returned at its proposal(s); the model is the bookkeeping around them.
-/

def parseX (s : String) : Option XVal :=
  if s = "nan" then some .nan
  else if s = "-inf" then some .neginf
  else if s = "inf" then some .posinf
  else XVal.fin <$> parseRat s

def parseXs (s : String) : Option (List XVal) :=
  if s = "_" then some [] else (s.splitOn ",").mapM parseX

def fmtX : XVal → String
  | .nan => "nan" | .neginf => "-inf" | .posinf => "inf" | .fin q => fmtRat q

def parseK : String → Option Kernel
  | "expMH" => some .expMH | "expCWMH" => some .expCWMH | "expPCN" => some .expPCN
  | "expMALA" => some .expMALA | "legMH" => some .legMH | "legCWMH" => some .legCWMH
  | "legPCN" => some .legPCN | "legMALA" => some .legMALA | _ => none

def parseB : String → Option Bool
  | "1" => some true | "0" => some false | _ => none

def fmtBits (bs : List Bool) : String :=
  if bs.isEmpty then "_" else ",".intercalate (bs.map fmtBool)

def step : List String → String
  | ["mh", k, x, logd, scale, xi, ell, tstar] =>
    match parseK k, parseVec x, parseX logd, parseRat scale, parseVec xi, parseX ell, parseX tstar with
    | some k, some x, some logd, some s, some xi, some ell, some t =>
      if (k = .expMH ∨ k = .legMH) ∧ x.length = xi.length ∧ x.length > 0 then
        let st : St := { x := x, logd := logd, grad := [], scale := [s] }
        let (st', a) := mhStep k (fun _ => t) st xi ell
        s!"{fmtBool a} {fmtVec st'.x} {fmtX st'.logd} {fmtVec (mhPropose st xi)}"
      else "bad-op"
    | _, _, _, _, _, _, _ => "bad-op"
  | ["pcn", k, x, logd, scale, c, xi, ell, tstar] =>
    match parseK k, parseVec x, parseX logd, parseRat scale, parseRat c, parseVec xi, parseX ell, parseX tstar with
    | some k, some x, some logd, some s, some c, some xi, some ell, some t =>
      if (k = .expPCN ∨ k = .legPCN) ∧ x.length = xi.length ∧ x.length > 0 then
        if !sqrtCert c (1 - s * s) then "err-cert" else
        let st : St := { x := x, logd := logd, grad := [], scale := [s] }
        let (st', a) := pcnStep k (fun _ => t) c st xi ell
        s!"{fmtBool a} {fmtVec st'.x} {fmtX st'.logd} {fmtVec (pcnPropose st c xi)}"
      else "bad-op"
    | _, _, _, _, _, _, _, _ => "bad-op"
  | ["mala", k, x, logd, grad, scale, sigma, z, ell, tstar, gstar] =>
    match parseK k, parseVec x, parseX logd, parseVec grad, parseRat scale, parseRat sigma, parseVec z,
          parseX ell, parseX tstar, parseVec gstar with
    | some k, some x, some logd, some g, some s, some sg, some z, some ell, some t, some gs =>
      if (k = .expMALA ∨ k = .legMALA) ∧ x.length = z.length ∧ x.length = g.length ∧ x.length = gs.length
          ∧ x.length > 0 ∧ s ≠ 0 then
        if !sqrtCert sg s then "err-cert" else
        let st : St := { x := x, logd := logd, grad := g, scale := [s] }
        let (st', a) := malaStep k (fun _ => t) (fun _ => gs) sg st z ell
        let xs := malaPropose st sg z
        let r := (t.sub logd).add (.fin (logProposal s x xs gs - logProposal s xs x g))
        s!"{fmtBool a} {fmtVec st'.x} {fmtX st'.logd} {fmtVec st'.grad} {fmtVec xs} {fmtX r}"
      else "bad-op"
    | _, _, _, _, _, _, _, _, _, _ => "bad-op"
  | ["cw", k, x, logd, scales, z, ells, tstars, dt] =>
    match parseK k, parseVec x, parseX logd, parseVec scales, parseVec z, parseXs ells, parseXs tstars,
          (if dt = "int" then some true else if dt = "float" then some false else none) with
    | some k, some x, some logd, some sc, some z, some ells, some ts, some isInt =>
      if (k = .expCWMH ∨ k = .legCWMH) ∧ x.length = z.length ∧ x.length = ells.length ∧ x.length = ts.length
          ∧ (sc.length = 1 ∨ sc.length = x.length) ∧ x.length > 0 then
        let st : St := { x := x, logd := logd, grad := [], scale := sc }
        let (st', acc, qs) := cwStep k (fun j _ => ts.getD j .nan) st z ells isInt
        s!"{fmtBits acc} {fmtVec st'.x} {fmtX st'.logd} {fmtMat qs}"
      else "bad-op"
    | _, _, _, _, _, _, _, _ => "bad-op"
  | ["prop", d, s] =>
    match parseB d, parseB s with
    | some d, some s => if proposalAccepted d s then "ok" else "err"
    | _, _ => "bad-op"
  | ["acc", k, ell, ratio, tstar] =>
    match parseK k, parseX ell, parseX ratio, parseX tstar with
    | some k, some ell, some r, some t => fmtBool (accepts k ell r t)
    | _, _, _, _ => "bad-op"
  | ["min0", r] =>
    match parseX r with
    | some r => fmtX (XVal.pyMin0 r)
    | none => "bad-op"
  | _ => "bad-op"

def main : IO Unit := runDriver step
