import CuqiVerif.Model.Proto
import CuqiVerif.Model.QMat
import CuqiVerif.Model.C12
import CuqiVerif.Model.C12_linear
import CuqiVerif.Model.C12_ctor
import CuqiVerif.Model.C12_geomeq
import CuqiVerif.Model.C12_gradsamples
open CuqiVerif CuqiVerif.Proto CuqiVerif.C12

/-!
Line protocol of the C12 driver (fields of a token are separated by `:`; vectors `a,b`, matrices
`a,b;c,d`, see `Model/Proto.lean`).

  geometry  G := id:gid:ident:grad
               | perm:gid:ident:grad:π                 par2fun(p)[k] = p[π k]  (flat C-order function values)
               | lin:gid:ident:grad:E:P:keeps          par2fun = E·p, fun2par = P·f (`P = none`: not implemented)
               | map:gid:ident:grad:kind:imap:π|id     MappedGeometry(base, map[, imap]); kind = aff_a_b | sq | cube
               | mapn:gid:grad:E|id:k1+k2+…|_:nwrap    user geometry (par2fun = E·p or p, no fun2par) wrapped in nested MappedGeometry maps
      grad   := none | chs | chd | chx                 user attribute `gradient` = exact chain rule, tag rule strip/direction/wrt_par
  model     M := gen:gradkind:fstyle:A:B:C:c:arg       F(f) = A f + B f² + C f³ + c;  gradkind = none | jac | gs | gd | gw
               | linmat:A
               | linfun:fstyle:A:Adj:arg
               | pde:pdegrad:A0:b:Obs                   F(f) = Obs · (A0 + diag f)⁻¹ b;  pdegrad = none | jac | gs | gd | gw
               | heat:pdegrad:M:c                       F(f) = M f + c  (time stepping done by the harness' PDE, matrix as leaf data)
  input     I := nd:v | arr:isPar:gid:v | smp:isPar:gid:cols
-/

abbrev V := List Rat

def parseBool (s : String) : Option Bool :=
  if s = "1" then some true else if s = "0" then some false else none

/-- exact square root of a rational that is a perfect square -/
def ratSqrt? (q : Rat) : Option Rat :=
  if q < 0 then none else
  let n := q.num.toNat
  let d := q.den
  let sn := Nat.sqrt n
  let sd := Nat.sqrt d
  if sn * sn = n ∧ sd * sd = d then some (mkRat sn sd) else none

def permute (π : List Nat) (p : V) : V := π.map (fun k => p.getD k 0)
def invPerm (π : List Nat) : List Nat :=
  (List.range π.length).map (fun j => (π.idxOf j))

def parseTagRule2 (s : String) : Option TagRule :=
  if s = "s" then some .strip else if s = "d" then some .arg1 else if s = "x" ∨ s = "w" then some .arg2 else none

inductive MapKind | aff (a b : Rat) | sq | cube

def parseMapKind (s : String) : Option MapKind :=
  match s.splitOn "_" with
  | ["aff", a, b] => do
      let a ← parseRat a
      let b ← parseRat b
      if a = 0 then none else some (.aff a b)
  | ["sq"] => some .sq
  | ["cube"] => some .cube
  | _ => none

def MapKind.apply : MapKind → Rat → Rat
  | .aff a b, x => a * x + b
  | .sq, x => x * x
  | .cube, x => x * x * x

def MapKind.deriv : MapKind → Rat → Rat
  | .aff a _, _ => a
  | .sq, x => 2 * x
  | .cube, x => 3 * x * x

/-- the inverse map where it is exact in ℚ (`TypeError` marks "not representable": never generated) -/
def MapKind.inv : MapKind → Rat → Except Err Rat
  | .aff a b, y => pure ((y - b) / a)
  | .sq, y => match ratSqrt? y with | some r => pure r | none => throw .typeError
  | .cube, _ => throw .typeError

def parseGradRule (s : String) : Option (Option TagRule) :=
  if s = "none" then some none
  else if s = "chs" then some (some .strip)
  else if s = "chd" then some (some .arg1)
  else if s = "chx" then some (some .arg2)
  else none

def parsePerm (s : String) (n? : Option Nat := none) : Option (Option (List Nat)) :=
  if s = "id" then some none else do
    let π ← parseNatList s
    let _ := n?
    if (List.range π.length).all (fun j => π.contains j) then some (some π) else none

def parseGeom (tok : String) : Option (Geom V) :=
  match tok.splitOn ":" with
  | ["id", gid, ident, grad] => do
      let gid ← gid.toNat?
      let ident ← parseBool ident
      let gr ← parseGradRule grad
      some { gid := gid, p2f := id, f2p := pure, identityType := ident,
             grad := gr.map (fun r => lift2 r (fun g _ => g)), parDim := 0 }
  | ["perm", gid, ident, grad, π] => do
      let gid ← gid.toNat?
      let ident ← parseBool ident
      let gr ← parseGradRule grad
      let π ← parsePerm π
      let π := π.getD []
      let πi := invPerm π
      some { gid := gid, p2f := permute π, f2p := fun f => pure (permute πi f), identityType := ident,
             grad := gr.map (fun r => lift2 r (fun g _ => permute πi g)), parDim := π.length }
  | ["lin", gid, ident, grad, E, P, keeps] => do
      let gid ← gid.toNat?
      let ident ← parseBool ident
      let gr ← parseGradRule grad
      let E ← parseMat E
      let P ← if P = "none" then some none else (parseMat P).map some
      let keeps ← parseBool keeps
      let n := QMat.ncols E
      some { gid := gid, p2f := mulVec E
             -- `_reshape_fun2par_input` refuses an array that does not have the function shape
             f2p := fun f => match P with
               | some P => if f.length = E.length then pure (mulVec P f) else throw .valueError
               | none => throw .notImplemented
             identityType := ident
             grad := gr.map (fun r => lift2 r (fun g _ => vecMat n g E)), parDim := n
             p2fKeeps := keeps, f2pKeeps := keeps }
  | ["map", gid, ident, grad, kind, imap, π] => do
      let gid ← gid.toNat?
      let ident ← parseBool ident
      let gr ← parseGradRule grad
      let k ← parseMapKind kind
      let imap ← parseBool imap
      let π ← parsePerm π
      let bp2f : V → V := match π with | some π => permute π | none => id
      let bf2p : V → V := match π with | some π => permute (invPerm π) | none => id
      some { gid := gid, p2f := fun p => (bp2f p).map k.apply
             f2p := fun f => if imap then (f.mapM k.inv).map bf2p else throw .valueError
             identityType := ident
             grad := gr.map (fun r => lift2 r (fun g x => bf2p (hmul g ((bp2f x).map k.deriv))))
             parDim := (π.map List.length).getD 0 }
  -- a user geometry (linear `par2fun = E·p` or the identity, no `fun2par`) wrapped in zero or more elementwise
  -- maps applied in order (the last `nwrap` of them are `MappedGeometry` wrappers, never with `imap`); `grad` (only meaningful for the
  -- unwrapped user geometry, whose class has a `gradient` method) is the exact chain rule
  | ["mapn", gid, grad, E, kinds, nwrap] => do
      let gid ← gid.toNat?
      let nwrap ← nwrap.toNat?
      let gr ← parseGradRule grad
      let E ← if E = "id" then some none else (parseMat E).map some
      let ks ← if kinds = "_" then some [] else (kinds.splitOn "+").mapM parseMapKind
      let base : V → V := match E with | some E => mulVec E | none => id
      let baseT : V → V → V := fun g x => match E with | some E => vecMat x.length g E | none => g
      let applyKs : V → V := fun v => ks.foldl (fun v k => v.map k.apply) v
      let derivProd : V → V := fun v =>
        (ks.foldl (fun (acc : V × V) k => (acc.1.map k.apply, hmul acc.2 (acc.1.map k.deriv))) (v, v.map (fun _ => 1))).2
      some { gid := gid, p2f := fun p => applyKs (base p)
             f2p := fun _ => if nwrap = 0 then throw .notImplemented else throw .valueError
             identityType := false
             grad := gr.map (fun r => lift2 r (fun g x => baseT (hmul g (derivProd (base x))) x))
             parDim := 0 }
  | _ => none

/-- `F(f) = A f + B f² + C f³ + c` and its Jacobian `A + 2 B diag f + 3 C diag f²` -/
def polyF (A B C : QMat.Mat) (c : V) (f : V) : V :=
  vadd (vadd (vadd (mulVec A f) (mulVec B (hmul f f))) (mulVec C (hmul f (hmul f f)))) c

def polyJac (A B C : QMat.Mat) (f : V) : QMat.Mat :=
  (List.zip A (List.zip B C)).map (fun (ra, rb, rc) =>
    (List.zip (List.zip ra rb) (List.zip rc f)).map (fun ((a, b), (c, x)) => a + 2 * b * x + 3 * c * x * x))

/-- `Obs · (A0 + diag f)⁻¹ b` and the Jacobian `−Obs · S⁻¹ · diag u`, `u = S⁻¹ b` (exact, `none` if singular) -/
def poisSolve (A0 : QMat.Mat) (b f : V) : Option (QMat.Mat × V) := do
  let S := QMat.madd A0 (QMat.diag f)
  let Si ← QMat.inverse S
  if QMat.isInverse S Si then some (Si, QMat.mulVec Si b) else none

def parseGradKind (s : String) : Option (Option (Option TagRule)) :=
  -- none | jac (→ some none) | gs gd gw
  if s = "none" then some none
  else if s = "jac" then some (some none)
  else if s = "gs" then some (some (some .strip))
  else if s = "gd" then some (some (some .arg1))
  else if s = "gw" then some (some (some .arg2))
  else none

def parseModel (tok : String) (R D : Geom V) : Option (ModelObj V V) :=
  match tok.splitOn ":" with
  | ["gen", gk, fs, A, B, C, c, arg] => do
      let gk ← parseGradKind gk
      let keep ← parseBool fs
      let A ← parseMat A
      let B ← parseMat B
      let C ← parseMat C
      let c ← parseVec c
      let n := QMat.ncols A
      let fwd : Val V → Except Err (Val V) := fun v => pure (lift1 keep (polyF A B C c) v)
      let grad : Option (Val V → Val V → Except Err (Val V)) := match gk with
        | none => none
        | some none => some (fun d w => pure (jacobianWrapper n (polyJac A B C) d w))
        | some (some r) => some (fun d w => pure (lift2 r (fun d w => vecMat n d (polyJac A B C w)) d w))
      some (mkModel fwd grad R D arg)
  | ["linmat", A] => do
      let A ← parseMat A
      some (linearFromMatrix A (QMat.transposeN (QMat.ncols A) A) R D)
  | ["linfun", fs, A, Adj, arg] => do
      let keep ← parseBool fs
      let A ← parseMat A
      let Adj ← parseMat Adj
      some (linearFromFuncs (fun v => pure (lift1 keep (mulVec A) v)) (fun v => pure (lift1 keep (mulVec Adj) v)) R D arg)
  | ["pde", gk, A0, b, Obs] => do
      let gk ← parseGradKind gk
      let A0 ← parseMat A0
      let b ← parseVec b
      let Obs ← parseMat Obs
      let n := b.length
      let sol : V → V := fun f => match poisSolve A0 b f with
        | some (_, u) => mulVec Obs u | none => []
      let jac : V → QMat.Mat := fun f => match poisSolve A0 b f with
        | some (Si, u) => QMat.mscale (-1) (QMat.mul Obs (QMat.mul Si (QMat.diag u))) | none => []
      let pg : PdeGrad Rat := match gk with
        | none => .nothing
        | some none => .jacobianWrtParameter n jac
        | some (some r) => .gradientWrtParameter (lift2 r (fun d w => vecMat n d (jac w)))
      -- scipy.linalg.solve returns a plain array: the subclass is not propagated
      some (pdeModel (fun v => pure (lift1 false sol v)) pg R D)
  | ["heat", gk, M, c] => do
      let gk ← parseGradKind gk
      let M ← parseMat M
      let c ← parseVec c
      let n := QMat.ncols M
      let pg : PdeGrad Rat := match gk with
        | none => .nothing
        | some none => .jacobianWrtParameter n (fun _ => M)
        | some (some r) => .gradientWrtParameter (lift2 r (fun d _ => vecMat n d M))
      some (pdeModel (fun v => pure (lift1 false (fun f => vadd (mulVec M f) c) v)) pg R D)
  | _ => none

def parseVal (tok : String) : Option (Val V) :=
  match tok.splitOn ":" with
  | ["nd", v] => (parseVec v).map Val.plain
  | ["arr", p, g, v] => do
      let p ← parseBool p
      let g ← g.toNat?
      let v ← parseVec v
      some ⟨v, some ⟨p, g⟩⟩
  | _ => none

def parseInput (tok : String) : Option (Input V) :=
  match tok.splitOn ":" with
  | ["smp", p, g, cols] => do
      let p ← parseBool p
      let g ← g.toNat?
      let cols ← parseMat cols
      some (.samples cols p g)
  | _ => (parseVal tok).map .one

def parseGArg (tok : String) : Option (GArg V) :=
  if tok = "smp" then some .samples else (parseVal tok).map .one

def fmtVal (v : Val V) : String :=
  match v.tag with
  | none => s!"nd {fmtVec v.data}"
  | some t => s!"arr {fmtBool t.isPar} {t.geom} {fmtVec v.data}"

def fmtErr (e : Err) : String := s!"err {e.toString}"

def fmtOutput : Output V → String
  | .one y => fmtVal y
  | .samples cols g => s!"smp {g} {fmtMat cols}"

/-- `eqr` = two letters over T/F/I/K: the value of `D == R` and of `R == D` on the implementation
    (True / False / raises IndexError / raises KeyError); the left operand is the array's geometry -/
def withEqr (eqr : String) (D R : Geom V) : Option (Geom V × Geom V) :=
  let upd (G : Geom V) (O : Geom V) (c : Char) : Option (Geom V) :=
    let other := O.gid
    if c = 'T' then some { G with eqTrue := [(other, O.maps)] }
    else if c = 'F' then some G
    else if c = 'I' then some { G with eqRaises := [(other, Err.indexError)] }
    else if c = 'K' then some { G with eqRaises := [(other, Err.keyError)] }
    else none
  match eqr.toList with
  | [a, b] => do
      let R' ← upd R D a      -- tag of D compared with R
      let D' ← upd D R b      -- tag of R compared with D
      some (D', R')
  | _ => none

def parseLinModel (tok : String) (R D : Geom V) : Option (LinObj Rat) :=
  match tok.splitOn ":" with
  | ["linmat", A] => do
      let A ← parseMat A
      some (LinObj.ofMatrix A (QMat.transposeN (QMat.ncols A) A) R D)
  | ["linfun", fs, A, Adj, arg] => do
      let keep ← parseBool fs
      let A ← parseMat A
      let Adj ← parseMat Adj
      some (LinObj.ofFuncs (fun v => pure (lift1 keep (mulVec A) v)) (fun v => pure (lift1 keep (mulVec Adj) v)) R D arg)
  | _ => none

/-- `true` = `.T`, `false` = `get_matrix()` -/
def parsePath (s : String) : Option (List Bool) :=
  if s = "_" then some [] else
  (s.splitOn ",").mapM (fun o => if o = "T" then some true else if o = "g" then some false else none)

def fmtExcept {γ : Type} (f : γ → String) : Except Err γ → String
  | .ok v => f v
  | .error e => fmtErr e

/-! ### constructors and glue (`Model/C12_ctor.lean`) -/

def parseGeomArg (s : String) : Option GeomArg :=
  match s.splitOn ":" with
  | ["t", l] => if l = "_" then some (.tuple []) else (parseNatList l).map .tuple
  | ["i", n] => n.toInt?.map .int
  | ["g", g, d] => do some (.geometry (← g.toNat?) (← d.toNat?))
  | ["none"] => some .none
  | ["other"] => some .other
  | _ => none

def parseOptCallable (s : String) : Option OptCallable :=
  if s = "a" then some .absent else if s = "c" then some .callable else if s = "n" then some .notCallable else none

/-- `-` = no attribute, `_` = empty list, else comma-separated names -/
def parseCached (s : String) : Option (List String) :=
  if s = "-" then none else if s = "_" then some [] else some (s.splitOn ",")

/-- `_` or `name.0,name.1` (1 = has a default) -/
def parseParams (s : String) : Option (List (String × Bool)) :=
  if s = "_" then some [] else
  (s.splitOn ",").mapM (fun t => match t.splitOn "." with
    | [n, b] => (parseBool b).map (fun b => (n, b))
    | _ => none)

def fmtGeomRes : GeomRes → String
  | .default2D r c => s!"d2:{r}:{c}"
  | .default1D n => s!"d1:{n}"
  | .given g d => s!"g:{g}:{d}"

def fmtNames (l : List String) : String := if l.isEmpty then "_" else ",".intercalate l

def fmtCExcept {γ : Type} (f : γ → String) : Except CErr γ → String
  | .ok v => f v
  | .error e => s!"err {e.toString}"

def fmtGradSource : GradSource → String
  | .none => "none" | .userGradient => "gradient" | .jacobianWrapper => "jacobian"

def fmtInitRes (r : ModelInitRes) : String :=
  s!"ok {fmtGradSource r.gradSource} {fmtGeomRes r.range} {fmtGeomRes r.domain} {r.range.parDim} {r.domain.parDim} {fmtNames r.nonDefaultArgs}"

def parseLinForward (s : String) : Option LinForward :=
  match s.splitOn "|" with
  | ["c", cached, params] => do some (.callable (parseCached cached) (← parseParams params))
  | ["m", r, c] => do some (.matrix (← r.toNat?) (← c.toNat?))
  | ["n"] => some .noShape
  | _ => none

/-- `F|params`, `M|names`, `A|r|c`, `L`, `N`, `S`, `0` -/
def parsePyArg (s : String) : Option PyArg :=
  match s.splitOn "|" with
  | ["F", p] => (parseParams p).map .function
  | ["M", a] => some (.modelObject (if a = "_" then [] else a.splitOn ","))
  | ["A", r, c] => do some (.ndarray (← r.toNat?) (← c.toNat?))
  | ["L"] => some .listObj
  | ["N"] => some .number
  | ["S"] => some .strObj
  | ["0"] => some .noneObj
  | _ => none

def stepCtor : List String → Option String
  | ["ctorpy", f, g, j, ra, da] => do
      some (fmtCExcept fmtInitRes (modelInitPy (← parsePyArg f) (← parsePyArg g) (← parsePyArg j) (← parseGeomArg ra) (← parseGeomArg da)))
  | ["linctorpy", f, adj, ra, da] => do
      let r := linearInitPy (← parsePyArg f) (← parsePyArg adj) (← parseGeomArg ra) (← parseGeomArg da)
      some (fmtCExcept (fun (r : LinInitRes) =>
        s!"ok {fmtBool r.matrixBacked} {fmtGeomRes r.range} {fmtGeomRes r.domain} {r.range.parDim} {r.domain.parDim} {fmtNames r.nonDefaultArgs}") r)
  | ["ctor", fc, g, j, ra, da, cached, params] => do
      let a : ModelInitArgs := { forwardCallable := ← parseBool fc, gradient := ← parseOptCallable g, jacobian := ← parseOptCallable j,
                                 rangeArg := ← parseGeomArg ra, domainArg := ← parseGeomArg da,
                                 cached := parseCached cached, params := ← parseParams params }
      some (fmtCExcept fmtInitRes (modelInit a))
  | ["linctor", f, adj, ra, da] => do
      let r := linearInit (← parseLinForward f) (← parseOptCallable adj) (← parseGeomArg ra) (← parseGeomArg da)
      some (fmtCExcept (fun (r : LinInitRes) =>
        s!"ok {fmtBool r.matrixBacked} {fmtGeomRes r.range} {fmtGeomRes r.domain} {r.range.parDim} {r.domain.parDim} {fmtNames r.nonDefaultArgs}") r)
  | ["pdector", isPDE, ra, da] => do
      some (fmtCExcept fmtInitRes (pdeInit (← parseBool isPDE) (← parseGeomArg ra) (← parseGeomArg da)))
  | ["arrnew", ndim, len0, isPar, geom] => do
      let g ← if geom = "-" then some none else geom.toNat?.map some
      some (fmtCExcept fmtGeomRes (cuqiarrayNew (← ndim.toNat?) (← len0.toNat?) (← parseBool isPar) g))
  | ["iter", kind, data, ncols] => do
      let rows ← parseMat data
      let n ← ncols.toNat?
      let sd : SamplesData Rat ← if kind = "a" then some (.array rows n) else if kind = "l" then some (.list rows) else none
      some s!"it {sd.ns} {fmtMat sd.iter}"
  | _ => none

/-! ### geometry equality (`Model/C12_geomeq.lean`): values in prefix notation, fields separated by `~`
    A~rank~dims…~n~data… | S~n~items… | G~nmro~classes…~kind~parDim~nvars~key~value… -/

def parseManyA (p : List String → Option (AVal × List String)) : Nat → List String → Option (List AVal × List String)
  | 0, rest => some ([], rest)
  | n + 1, rest => do
      let (v, rest) ← p rest
      let (vs, rest) ← parseManyA p n rest
      some (v :: vs, rest)

def parseVarsA (p : List String → Option (AVal × List String)) : Nat → List String → Option (List (String × AVal) × List String)
  | 0, rest => some ([], rest)
  | n + 1, key :: rest => do
      let (v, rest) ← p rest
      let (vs, rest) ← parseVarsA p n rest
      some ((key, v) :: vs, rest)
  | _, _ => none

def parseAVal : Nat → List String → Option (AVal × List String)
  | 0, _ => none
  | _ + 1, "A" :: rk :: rest => do
      let rk ← rk.toNat?
      let shape ← (rest.take rk).mapM String.toNat?
      if shape.length ≠ rk then none else
      match rest.drop rk with
      | n :: rest => do
          let n ← n.toNat?
          let data := rest.take n
          if data.length ≠ n then none else some (.arr shape data, rest.drop n)
      | [] => none
  | f + 1, "S" :: n :: rest => do
      let (items, rest) ← parseManyA (parseAVal f) (← n.toNat?) rest
      some (.seq items, rest)
  | f + 1, "G" :: nm :: rest => do
      let nm ← nm.toNat?
      let mro ← (rest.take nm).mapM String.toNat?
      if mro.length ≠ nm then none else
      match rest.drop nm with
      | kind :: pd :: nv :: rest => do
          let (vars, rest) ← parseVarsA (parseAVal f) (← nv.toNat?) rest
          some (.geom mro (← kind.toNat?) (← pd.toNat?) vars, rest)
      | _ => none
  | _, _ => none

def parseGeomDesc (tok : String) : Option AVal :=
  let fields := tok.splitOn "~"
  match parseAVal (fields.length + 1) fields with
  | some (v, []) => some v
  | _ => none

def stepGeq : List String → Option String
  | ["geq", a, b] => do
      let a ← parseGeomDesc a
      let b ← parseGeomDesc b
      some (match geomEqD 8 a b with | some true => "T" | some false => "F" | none => "unmodelled")
  | _ => none

/-- gradient with a Samples `wrt`:  gradsw M D R dir(smp | value token) isWrtPar conv   (conv = pass | exception class of `fun2par(samples)`) -/
def parseObjConv (s : String) : ObjConv :=
  if s = "pass" then .passes
  else match [Err.notImplemented, Err.valueError, Err.typeError, Err.indexError, Err.keyError].find? (fun e => e.toString = s) with
    | some e => .raises e
    | none => .raisesOther s

def stepGradSw : List String → Option String
  | ["gradsw", m, d, r, dir, iwp, conv] => do
      let D ← parseGeom d
      let R ← parseGeom r
      let M ← parseModel m R D
      let dir ← parseGArg dir
      let iwp ← parseBool iwp
      some (match gradientFull M dir .samples true iwp (parseObjConv conv) with
        | .ok v => fmtVal v
        | .error e => s!"err {e.toString}")
  | _ => none

def step : List String → String
  -- forward on data: fwd M D R input isPar nPos kw(, separated or _)
  | ["fwd", m, d, r, eqr, x, isPar, nPos, kw] =>
    match (do let D ← parseGeom d; let R ← parseGeom r; withEqr eqr D R) with
    | some (D, R) =>
      match parseModel m R D, parseInput x, parseBool isPar, nPos.toNat? with
      | some M, some x, some isPar, some nPos =>
        let kw := if kw = "_" then [] else kw.splitOn ","
        match forward M nPos kw (.data x) isPar with
        | .ok (.data y) => fmtOutput y
        | .ok (.model _) => "bad-op"
        | .error e => fmtErr e
      | _, _, _, _ => "bad-op"
    | none => "bad-op"
  -- forward on a distribution: dist M D R domainDim distDim name nPos kw
  | ["dist", m, d, r, ddim, dim, name, nPos, kw] =>
    match parseGeom d, parseGeom r with
    | some D, some R =>
      match parseModel m R D, ddim.toNat?, dim.toNat?, nPos.toNat? with
      | some M, some ddim, some dim, some nPos =>
        let M := { M with domainGeom := { M.domainGeom with parDim := ddim } }
        let kw := if kw = "_" then [] else kw.splitOn ","
        match forward M nPos kw (.dist dim name) true with
        | .ok (.model M') =>
            -- the new object: argument names, and which other attributes still are the old ones
            let same := M'.extra == M.extra && M'.rangeGeom.gid == M.rangeGeom.gid && M'.domainGeom.gid == M.domainGeom.gid
              && M'.gradientFunc.isSome == M.gradientFunc.isSome
            s!"model {",".intercalate M'.nonDefaultArgs} {fmtBool same} {",".intercalate M.nonDefaultArgs}"
        | .ok (.data _) => "bad-op"
        | .error e => fmtErr e
      | _, _, _, _ => "bad-op"
    | _, _ => "bad-op"
  -- forward(distribution) followed by forward(data) on the RENAMED model under the new keyword:
  --   distfwd M D R eqr domainDim distDim name input isPar
  | ["distfwd", m, d, r, eqr, ddim, dim, name, x, isPar] =>
    match (do let D ← parseGeom d; let R ← parseGeom r; withEqr eqr D R) with
    | some (D, R) =>
      match parseModel m R D, ddim.toNat?, dim.toNat?, parseInput x, parseBool isPar with
      | some M, some ddim, some dim, some x, some isPar =>
        let M := { M with domainGeom := { M.domainGeom with parDim := ddim } }
        match forward M 1 [] (.dist dim name) true with
        | .ok (.model M') =>
          match forward M' 0 [name] (.data x) isPar with
          | .ok (.data y) => fmtOutput y
          | .ok (.model _) => "bad-op"
          | .error e => fmtErr e
        | .ok (.data _) => "bad-op"
        | .error e => fmtErr e
      | _, _, _, _, _ => "bad-op"
    | none => "bad-op"
  -- gradient: grad M D R dir wrt isDirPar isWrtPar
  | ["grad", m, d, r, eqr, dir, wrt, idp, iwp] =>
    match (do let D ← parseGeom d; let R ← parseGeom r; withEqr eqr D R) with
    | some (D, R) =>
      match parseModel m R D, parseGArg dir, parseGArg wrt, parseBool idp, parseBool iwp with
      | some M, some dir, some wrt, some idp, some iwp =>
        match gradient M dir wrt idp iwp with
        | some (.ok v) => fmtVal v
        | some (.error e) => fmtErr e
        | none => "unmodelled"
      | _, _, _, _, _ => "bad-op"
    | none => "bad-op"
  -- LinearModel object with a call path:  lin M D R eqr domainDim rangeDim path probe…
  --   path  = `_` or a comma-separated list of `g` (get_matrix() on the current object) and `T` (continue with `.T`)
  --   probe = fwd input isPar | adj input isPar | mm input | gm | grad dir wrt isDirPar isWrtPar | args
  | "lin" :: m :: d :: r :: eqr :: ddim :: rdim :: path :: probe =>
    match (do let D ← parseGeom d; let R ← parseGeom r; withEqr eqr D R), ddim.toNat?, rdim.toNat? with
    | some (D, R), some ddim, some rdim =>
      let D := { D with parDim := ddim }
      let R := { R with parDim := rdim }
      match parseLinModel m R D, parsePath path with
      | some M, some ops =>
        let cur := ops.foldl (fun (c : LinObj Rat) o => if o then c.T else c.afterGetMatrix) M
        match probe with
        | ["fwd", x, isPar] =>
          match parseInput x, parseBool isPar with
          | some x, some isPar => fmtExcept fmtOutput (cur.forward 1 [] x isPar)
          | _, _ => "bad-op"
        | ["adj", y, isPar] =>
          match parseInput y, parseBool isPar with
          | some y, some isPar => fmtExcept fmtOutput (cur.adjoint y isPar)
          | _, _ => "bad-op"
        | ["mm", x] =>
          match parseInput x with
          | some x => fmtExcept fmtOutput (cur.matmul x)
          | none => "bad-op"
        | ["gm"] => fmtExcept (fun (p : QMat.Mat × LinObj Rat) => s!"mat {p.1.length} {fmtMat p.1}") cur.getMatrix
        | ["grad", dir, wrt, idp, iwp] =>
          match parseGArg dir, parseGArg wrt, parseBool idp, parseBool iwp with
          | some dir, some wrt, some idp, some iwp =>
            match cur.gradient dir wrt idp iwp with
            | some r => fmtExcept fmtVal r
            | none => "unmodelled"
          | _, _, _, _ => "bad-op"
        | ["args"] => s!"args {",".intercalate cur.args} {fmtBool cur.matrix.isSome}"
        | _ => "bad-op"
      | _, _ => "bad-op"
    | _, _, _ => "bad-op"
  | l => (((stepCtor l).orElse (fun _ => stepGeq l)).orElse (fun _ => stepGradSw l)).getD "bad-op"

def main : IO Unit := runDriver step
