import CuqiVerif.Model.Proto
import CuqiVerif.Model.QMat
import CuqiVerif.Model.RExpr
import CuqiVerif.Model.C20
import CuqiVerif.Model.C05
import CuqiVerif.Model.C05_mhn
open CuqiVerif CuqiVerif.Proto CuqiVerif.QMat CuqiVerif.C05

def parseBool (s : String) : Option Bool :=
  match s with | "0" => some false | "1" => some true | _ => none

def fmtWrapped : Wrapped → String
  | .scalar => "scalar"
  | .array n => s!"array {n}"
  | .samples (.d1 n) => s!"samples1 {n}"
  | .samples (.d2 r c) => s!"samples2 {r} {c}"
  | .refused => "refused"

def fmtSolver : Solver → String
  | .sparse => "sparse" | .triLower => "tri" | .dense => "dense"


/-- max-abs difference of two matrices of the same shape (`none` on shape mismatch) -/
def maxDiff (A B : Mat) : Option Rat :=
  if A.length ≠ B.length then none else
  (List.zip A B).foldl (fun acc rs =>
    match acc with
    | none => none
    | some m =>
      if rs.1.length ≠ rs.2.length then none else
      some ((List.zipWith (fun a b => absQ (a - b)) rs.1 rs.2).foldl (fun x y => if x < y then y else x) m)) (some 0)

def rectangular (A : Mat) (r c : Nat) : Bool := A.length == r && A.all (fun row => row.length == c)

def step : List String → String
  -- Gaussian draw(s): sparse flag, mean, stored sqrtprec, the columns of `e` (one per row of the argument)
  | ["gauss", sp, mean, R, cols] =>
    match parseBool sp, parseVec mean, parseMat R, parseMat cols with
    | some sp, some mean, some R, some cols =>
      let n := R.length
      if !(rectangular R n n) || !(cols.all (fun c => c.length == n)) || !(mean.length == 1 || mean.length == n) then "err-shape"
      else match gaussSampleN sp mean R cols with
        | some S => fmtSolver (solverOf sp R) ++ " " ++ fmtMat S
        | none => "err"
    | _, _, _, _ => "bad-op"
  -- what solve_triangular(lower=False) would return on the same input (diagnostic for replays)
  | ["gauss-diagonly", R, e] =>
    match parseMat R, parseVec e with
    | some R, some e => fmtVec (diagOnlySolve R e)
    | _, _ => "bad-op"
  -- stored sqrtprec diagonal and implied precision diagonal for scalar/vector/diagonal parameters
  | ["dform", f, dim, v] =>
    match Form.ofString f, dim.toNat?, parseVec v with
    | some f, some dim, some v =>
      if !(v.length == 1 || v.length == dim) then "err-shape" else
      match (bcast dim v).mapM (diagSqrtprec f) with
      | some r => fmtVec r ++ " " ++ fmtVec ((bcast dim v).map (diagPrecision f))
      | none => "irr"
    | _, _, _ => "bad-op"
  | ["shape", fam, cond, dim, N] =>
    match Family.ofString fam, parseBool cond, dim.toNat?, N.toNat? with
    | some fam, some cond, some dim, some N => if N = 0 then "err" else fmtWrapped (sampleShape fam cond dim N)
    | _, _, _, _ => "bad-op"
  -- GMRF zero BC: mean, c = 1/sqrt(prec), U = chol.T (leaf), order, n, physical dim, columns of xi.
  -- The certificate Uᵀ U = P (exact model precision of C20) is checked to 1e-9.
  | ["gmrfz", mean, c, U, order, n, pd, cols] =>
    match parseVec mean, parseRat c, parseMat U, order.toNat?, n.toNat?, pd.toNat?, parseMat cols with
    | some mean, some c, some U, some order, some n, some pd, some cols =>
      let P := if pd = 2 then gmrfP2 order .zero n else gmrfP order .zero n
      let dim := P.length
      if !(rectangular U dim dim) || !(cols.all (fun x => x.length == dim)) then "err-shape" else
      match maxDiff (mul (transposeN dim U) U) P with
      | none => "err-shape"
      | some d =>
        if d > 1 / 1000000000 then "cert-fail" else
        match cols.mapM (gmrfZeroSample mean c U) with
        | some S => fmtMat S
        | none => "err"
    | _, _, _, _, _, _, _ => "bad-op"
  | ["gmrfn", mean, c, order, n, pd, cols] =>
    match parseVec mean, parseRat c, order.toNat?, n.toNat?, pd.toNat?, parseMat cols with
    | some mean, some c, some order, some n, some pd, some cols =>
      let P := if pd = 2 then gmrfP2 order .neumann n else gmrfP order .neumann n
      let D := if pd = 2 then gmrfD2 order .neumann n else gmrfD order .neumann n
      if !(cols.all (fun x => x.length == D.length)) then "err-shape" else
      match cols.mapM (gmrfNeumannSample mean c D P) with
      | some S => s!"{D.length} " ++ fmtMat S
      | none => "err"
    | _, _, _, _, _, _ => "bad-op"
  | ["gmrfp", mean, c, Fre, Fim, s, acols, bcols] =>
    match parseVec mean, parseRat c, parseMat Fre, parseMat Fim, parseVec s, parseMat acols, parseMat bcols with
    | some mean, some c, some Fre, some Fim, some s, some acols, some bcols =>
      let n := Fre.length
      if !(rectangular Fre n n) || !(rectangular Fim n n) || s.length != n || acols.length != bcols.length
         || !(acols.all (fun x => x.length == n)) || !(bcols.all (fun x => x.length == n)) || s.any (· == 0) then "err-shape"
      else fmtMat ((List.zip acols bcols).map (fun ab => gmrfPeriodicSample mean c Fre Fim s ab.1 ab.2))
    | _, _, _, _, _, _, _ => "bad-op"
  -- exact model precision / operator of GMRF (from the C20 model), for the oracle's bookkeeping
  | ["gmrfD", order, bc, n, pd] =>
    match order.toNat?, C20.BC.ofString bc, n.toNat?, pd.toNat? with
    | some order, some bc, some n, some pd => fmtMat (if pd = 2 then gmrfD2 order bc n else gmrfD order bc n)
    | _, _, _, _ => "bad-op"
  | ["gmrfP", order, bc, n, pd] =>
    match order.toNat?, C20.BC.ofString bc, n.toNat?, pd.toNat? with
    | some order, some bc, some n, some pd => fmtMat (if pd = 2 then gmrfP2 order bc n else gmrfP order bc n)
    | _, _, _, _ => "bad-op"
  | _ => "bad-op"


def fmtCall (c : GenCall) : String :=
  c.method ++ "|" ++ "|".intercalate (c.args.map fmtVec) ++ s!"|{c.size.1}x{c.size.2}"

def ev (e : RExpr) : String := RExpr.evalStr [] e
def cq (q : Rat) : RExpr := RExpr.const q

def plumbOut (fam : Family) (params : List (List Rat)) (N dim : Nat) (G : Mat) : String :=
  if !(params.all (fun v => v.length == 1 || v.length == dim)) then "err-shape" else
  if !(rectangular G N dim) then "err-shape" else
  match plumb fam params dim N with
  | some c =>
    let dens := match densityTuple fam params with
      | some t => "|".intercalate (t.map fmtVec)
      | none => "-"
    fmtCall c ++ " " ++ dens ++ " " ++ fmtMat (iidDraws G dim)
  | none => "err"

def step2 : List String → Option String
  | ["plumb", fam, N, dim, p1, p2, G] =>
    match Family.ofString fam, N.toNat?, dim.toNat?, parseVec p1, parseVec p2, parseMat G with
    | some fam, some N, some dim, some p1, some p2, some G => some (plumbOut fam [p1, p2] N dim G)
    | _, _, _, _, _, _ => some "bad-op"
  | ["plumb", fam, N, dim, p1, p2, p3, G] =>
    match Family.ofString fam, N.toNat?, dim.toNat?, parseVec p1, parseVec p2, parseVec p3, parseMat G with
    | some fam, some N, some dim, some p1, some p2, some p3, some G => some (plumbOut fam [p1, p2, p3] N dim G)
    | _, _, _, _, _, _, _ => some "bad-op"
  -- closed-form log-densities (one component), as floats
  | ["dens", fam, x, p1, p2] =>
    match parseRat x, parseRat p1, parseRat p2 with
    | some x, some p1, some p2 =>
      match fam with
      | "normal" => some (ev (normalLogpdf (cq x) (cq p1) (cq p2)))
      | "laplace" => some (ev (laplaceLogpdf (cq x) (cq p1) (cq p2)))
      | "uniform" => some (if x < p1 || x > p2 then "-inf" else ev (uniformLogpdf (cq p1) (cq p2)))
      | "cauchy" => some (ev (cauchyLogpdf (cq x) (cq p1) (cq p2)))
      | "gauss1" => some (ev (gauss1Logpdf (cq x) (cq p1) (cq p2)))
      | _ => some "bad-op"
    | _, _, _ => some "bad-op"
  | ["custom", N, dim, calls] =>
    match N.toNat?, dim.toNat?, parseMat calls with
    | some N, some dim, some calls =>
      match userDefinedSample dim N calls with
      | some S => some (fmtMat S)
      | none => some "err"
    | _, _, _ => some "bad-op"
  -- MHN: what the getters hand to `_MHN_sample`
  | ["mhnread", a, b, c] =>
    match parseRat a, parseRat b, parseRat c with
    | some a, some b, some c => let r := mhnRead a b c; some (fmtVec [r.1, r.2.1, r.2.2])
    | _, _, _ => some "bad-op"
  -- MHN scheme and proposal parameters for `_MHN_sample(alpha, beta, gamma)`
  | ["mhn", a, b, c] =>
    match parseRat a, parseRat b, parseRat c with
    | some a, some b, some c =>
      let (α, β, γ) := (cq a, cq b, cq c)
      match mhnScheme a b c with
      | .negGamma =>
        if c > 0 then some "err" else
        let m := if a ≤ 1 then cq 1 else Mhn.mode α β γ
        some ("ng " ++ ev m ++ " " ++ ev (α * Mhn.ngVal1 β γ m) ++ " " ++ ev (1 / Mhn.ngVal2 β γ m))
      | .posGamma1 =>
        some ("pg1 " ++ ev (Mhn.K1 α β γ) ++ " " ++ ev (Mhn.K2 α β γ) ++ " " ++ ev (Mhn.npLoc α β γ) ++ " " ++ ev (Mhn.npScale β)
              ++ " " ++ ev (Mhn.gpShape α) ++ " " ++ ev (Mhn.gpScale α β γ))
      | .gammaProposal => some ("gp " ++ ev (Mhn.gpShape α) ++ " " ++ ev (Mhn.gpScale α β γ))
    | _, _, _ => some "bad-op"
  -- one loop iteration: point X and log-acceptance bound for a given draw
  | ["mhnacc", kind, a, b, c, m, t] =>
    match parseRat a, parseRat b, parseRat c, parseRat m, parseRat t with
    | some a, some b, some c, some m, some t =>
      let (α, β, γ) := (cq a, cq b, cq c)
      match kind with
      | "gp" => some (ev (Mhn.gpX (cq t)) ++ " " ++ ev (Mhn.gpAccept α β γ (cq t)))
      | "np" => some (ev (cq t) ++ " " ++ ev (Mhn.npAccept α β γ (cq t)))
      | "ng" => some (ev (Mhn.ngX β γ (cq m) (cq t)) ++ " " ++ ev (Mhn.ngAccept β γ (cq m) (cq t)))
      | "ngmode" => let mm := Mhn.mode α β γ
                    some (ev (Mhn.ngX β γ mm (cq t)) ++ " " ++ ev (Mhn.ngAccept β γ mm (cq t)))
      | _ => some "bad-op"
    | _, _, _, _, _ => some "bad-op"
  | _ => none

/-! ### ModifiedHalfNormal: the whole sampler on a scripted stream (`Model/C05_mhn.lean`) -/
open CuqiVerif.C05.MhnRun in
def parsePVal (s : String) : Option PVal :=
  match s.splitOn ":" with
  | ["f", v] => PVal.pyfloat <$> parseRat v
  | ["n", v] => PVal.npscalar <$> parseRat v
  | ["s", v] => PVal.seq <$> parseVec v
  | _ => none

open CuqiVerif.C05.MhnRun in
def parseMArg (s : String) : Option MArg :=
  match s.splitOn ":" with
  | ["none"] => some .none
  | ["mode"] => some .mode
  | ["num", v] => MArg.num <$> parseRat v
  | _ => none

def parseStream (s : String) : Option (List (Rat × Rat)) :=
  match parseMat s with
  | some rows => rows.mapM (fun r => match r with | [t, u] => some (t, u) | _ => none)
  | none => none

open CuqiVerif.C05.MhnRun in
def fmtLoopCall (L : Loop) : String := L.method ++ ":" ++ ev L.arg1 ++ ":" ++ ev L.arg2

open CuqiVerif.C05.MhnRun in
def fmtRun (total : Nat) (calls : List String) : Except Err (List RExpr × List (Rat × Rat)) → String
  | .error e => "err:" ++ e.toString
  | .ok (xs, rest) => "ok " ++ (if xs.isEmpty then "_" else ",".intercalate (xs.map ev)) ++ s!" {total - rest.length} "
      ++ (if calls.isEmpty then "_" else ",".intercalate calls)

open CuqiVerif.C05.MhnRun in
def one (r : Except Err (RExpr × List (Rat × Rat))) : Except Err (List RExpr × List (Rat × Rat)) :=
  match r with | .error e => .error e | .ok (x, rest) => .ok ([x], rest)

open CuqiVerif.C05.MhnRun in
def loopCall (r : Except Err Loop) : List String :=
  match r with | .ok L => [fmtLoopCall L] | .error _ => []

open CuqiVerif.C05.MhnRun in
def runLoopE (r : Except Err Loop) (s : List (Rat × Rat)) : Except Err (List RExpr × List (Rat × Rat)) :=
  match r with | .error e => .error e | .ok L => one (L.run floatArith s)

open CuqiVerif.C05.MhnRun in
def step3 : List String → Option String
  -- public path: `ModifiedHalfNormal(a, b, c)._sample(N, rng)`
  | ["mhnrun", "sample", a, b, c, N, st] =>
    match parsePVal a, parsePVal b, parsePVal c, N.toNat?, parseStream st with
    | some a, some b, some c, some N, some st =>
      let calls := (List.range N).filterMap (fun i =>
        match paramsAt a b c i with
        | .ok (x, y, z) => (loopCall (mhnDispatch floatArith (cq x) (cq y) (cq z) .none)).head?
        | .error _ => none)
      some (fmtRun st.length calls (sampleN floatArith a b c N st))
    | _, _, _, _, _ => some "bad-op"
  | ["mhnrun", "private", a, b, c, m, st] =>
    match parseRat a, parseRat b, parseRat c, parseMArg m, parseStream st with
    | some a, some b, some c, some m, some st =>
      let d := mhnDispatch floatArith (cq a) (cq b) (cq c) m
      some (fmtRun st.length (loopCall d) (runLoopE d st))
    | _, _, _, _, _ => some "bad-op"
  | ["mhnrun", "pg1", a, b, c, st] =>
    match parseRat a, parseRat b, parseRat c, parseStream st with
    | some a, some b, some c, some st =>
      let d := positiveGamma1 floatArith (cq a) (cq b) (cq c)
      some (fmtRun st.length (loopCall d) (runLoopE d st))
    | _, _, _, _ => some "bad-op"
  | ["mhnrun", "ng", a, b, c, m, st] =>
    match parseRat a, parseRat b, parseRat c, parseMArg m, parseStream st with
    | some a, some b, some c, some m, some st =>
      let d := negativeGamma floatArith (cq a) (cq b) (cq c) m
      some (fmtRun st.length (loopCall d) (runLoopE d st))
    | _, _, _, _, _ => some "bad-op"
  | ["mhnrun", "gp", a, b, c, st] =>
    match parseRat a, parseRat b, parseRat c, parseStream st with
    | some a, some b, some c, some st =>
      let d : Except Err Loop := .ok (gammaProposalLoop (cq a) (cq b) (cq c))
      some (fmtRun st.length (loopCall d) (runLoopE d st))
    | _, _, _, _ => some "bad-op"
  | ["mhnrun", "np", a, b, c, st] =>
    match parseRat a, parseRat b, parseRat c, parseStream st with
    | some a, some b, some c, some st =>
      let d : Except Err Loop := .ok (normalProposalLoop (cq a) (cq b) (cq c))
      some (fmtRun st.length (loopCall d) (runLoopE d st))
    | _, _, _, _ => some "bad-op"
  | _ => none

open CuqiVerif.C05.MhnRun in
/-- point and log-acceptance bound of the selected loop at the proposal draws `ts` (used by the harness to place the
    uniforms well away from the decision threshold) -/
def fmtProbe (d : Except Err Loop) (ts : List Rat) : String :=
  match d with
  | .error e => "err:" ++ e.toString
  | .ok L => fmtLoopCall L ++ (if L.guardPos then " g " else " n ") ++
      (if ts.isEmpty then "_" else ",".intercalate (ts.map (fun t => ev (L.point (cq t)) ++ "|" ++ ev (L.bound (cq t)))))

open CuqiVerif.C05.MhnRun in
def step4 : List String → Option String
  | ["mhnprobe", "sample", a, b, c, i, ts] =>
    match parsePVal a, parsePVal b, parsePVal c, i.toNat?, parseVec ts with
    | some a, some b, some c, some i, some ts =>
      match paramsAt a b c i with
      | .error e => some ("err:" ++ e.toString)
      | .ok (x, y, z) => some (fmtProbe (mhnDispatch floatArith (cq x) (cq y) (cq z) .none) ts)
    | _, _, _, _, _ => some "bad-op"
  | ["mhnprobe", entry, a, b, c, m, ts] =>
    match parseRat a, parseRat b, parseRat c, parseMArg m, parseVec ts with
    | some a, some b, some c, some m, some ts =>
      let (α, β, γ) := (cq a, cq b, cq c)
      match entry with
      | "private" => some (fmtProbe (mhnDispatch floatArith α β γ m) ts)
      | "pg1" => some (fmtProbe (positiveGamma1 floatArith α β γ) ts)
      | "ng" => some (fmtProbe (negativeGamma floatArith α β γ m) ts)
      | "gp" => some (fmtProbe (.ok (gammaProposalLoop α β γ)) ts)
      | "np" => some (fmtProbe (.ok (normalProposalLoop α β γ)) ts)
      | _ => some "bad-op"
    | _, _, _, _, _ => some "bad-op"
  | _ => none

def stepAll (toks : List String) : String :=
  match step3 toks with
  | some r => r
  | none =>
  match step4 toks with
  | some r => r
  | none =>
  match step2 toks with
  | some r => r
  | none => step toks

def main : IO Unit := runDriver stepAll
