import CuqiVerif.Model.Proto
import CuqiVerif.Model.C13
import CuqiVerif.Model.C13_state
import CuqiVerif.Model.C13_ctor
open CuqiVerif CuqiVerif.Proto CuqiVerif.C13

/-! Line-protocol driver for the C13 model.  Arrays travel as two tokens `shape data`
    (`_` = 0-d shape / empty data); results are printed as `shape|data`. -/

def fmtArr (x : Arr) : String := fmtNatList x.shape ++ "|" ++ fmtVec x.toList

def parseArr (sh da : String) : Option Arr := do
  let s ← parseNatList sh
  let d ← parseVec da
  if d.length = prod s then some (Arr.ofList s d) else none

def parseBool : String → Option Bool
  | "1" => some true | "0" => some false | _ => none

def parseProj : String → Option Proj
  | "mean" => some .mean | "max" => some .max | "min" => some .min | _ => none

/-- geometry spec, `:`-separated fields; returns the geometry and whether the constructor accepts -/
partial def parseGeomF : List String → Option (Geom × Bool)
  | ["cont1d", n] => do some (.cont1D (← n.toNat?), true)
  | ["cont2d", a, b] => do some (.cont2D (← a.toNat?) (← b.toNat?), true)
  | ["image", a, b, o, v] => do
      let o ← (match o with | "F" => some true | "C" => some false | _ => none)
      some (.image (← a.toNat?) (← b.toNat?) o (← parseBool v), true)
  | ["discrete", n] => do some (.discrete (← n.toNat?), true)
  | ["step", grid, bounds, s, pr] => do
      let g ← parseVec grid
      let bs ← (if bounds = "-" then some none else (parseVec bounds).map some)
      let s ← s.toNat?
      let pr ← parseProj pr
      some (.step g bs s pr, stepAccepts (lget g) g.length s)
  | "mapped" :: sc :: sh :: inv :: rest => do
      let (g, ok) ← parseGeomF rest
      let sc ← parseRat sc
      if sc = 0 then none else
      some (.mapped g sc (← parseRat sh) (← parseBool inv), ok)
  | _ => none

def parseGeom (s : String) : Option (Geom × Bool) := parseGeomF (s.splitOn ":")

def fmtShapeOpt : Option (List Nat) → String
  | some s => fmtNatList s
  | none => "err"

def fmtIdx (l : List (List Nat)) : String :=
  if l.isEmpty then "none" else ";".intercalate (l.map fmtNatList)

def fmtSamples (s : Samples) : String :=
  fmtBool s.isPar ++ " " ++ fmtBool s.isVec ++ " " ++ fmtArr s.arr

def runSamples (g : Geom) : Samples → List String → List String
  | _, [] => []
  | s, op :: ops =>
    let r := match op with
      | "f" => s.funvals g
      | "v" => s.vector g
      | "p" => s.parameters g
      | _ => none
    match r with
    | some s' => fmtSamples s' :: runSamples g s' ops
    | none => ["err"]

def runCArr (g : Geom) : CArr → List String → List String
  | _, [] => []
  | c, op :: ops =>
    let r := match op with
      | "f" => c.funvals g
      | "p" => c.parameters g
      | _ => none
    match r with
    | some c' => (fmtBool c'.isPar ++ " " ++ fmtArr c'.arr) :: runCArr g c' ops
    | none => ["err"]

def arrEq (x y : Arr) : Bool := x.shape = y.shape && x.toList = y.toList

/-! ### object histories (`Model/C13_state.lean`): ops are `;`-separated, fields `:`-separated -/

def parseOptNat (s : String) : Option (Option Nat) :=
  if s = "-" then some none else s.toNat?.map some

def fmtOptVec : Option (List Rat) → String → String
  | some l, _ => fmtVec l
  | none, d => d

/-- `g:N|-`, `c`, `ci`, `s`, `p:shape:data`, `f:fshape:dshape:ddata` -/
def runKL : KLObj → List String → Option (List String)
  | _, [] => some []
  | o, op :: ops => do
    let (out, o') ← (match op.splitOn ":" with
      | ["g", n] => do let g ← parseOptNat n; some ("ok", o.setGrid g)
      | ["c"] => let r := o.getCoefs; some (fmtOptVec r.1 "None", r.2)
      | ["ci"] => let r := o.getCoefsInv; some (fmtOptVec r.1 "raise", r.2)
      | ["s"] => some (s!"m={o.m} fun={match o.grid with | some n => toString n | none => "None"}", o)
      | ["p", sh, da] => do
          let x ← parseArr sh da
          let r := o.par2funPre x
          some ((match r.1 with | some y => fmtArr y | none => "raise"), r.2)
      | ["f", fsh, dsh, dda] => do
          let fs ← parseNatList fsh
          let d ← parseArr dsh dda
          let r := o.fun2parPost fs d
          some ((match r.1 with | some y => fmtArr y | none => "raise"), r.2)
      | _ => none)
    let rest ← runKL o' ops
    some (out :: rest)

/-- `g:grid`, `s`, `p:shape:data`, `f:shape:data` -/
def runStepObj : StepObj → List String → Option (List String)
  | _, [] => some []
  | o, op :: ops => do
    let (out, o') ← (match op.splitOn ":" with
      | ["g", g] => do let g ← parseVec g; some ("ok", o.setGrid g)
      | ["s"] => some (s!"par={fmtNatList o.parShape} fun={fmtNatList o.funShape}", o)
      | ["p", sh, da] => do
          let x ← parseArr sh da
          some ((match o.par2fun x with | some y => fmtArr y | none => "raise"), o)
      | ["f", sh, da] => do
          let x ← parseArr sh da
          some ((match o.fun2par x with | .ok y => fmtArr y | .error e => e), o)
      | _ => none)
    let rest ← runStepObj o' ops
    some (out :: rest)

/-! ### constructor glue (`Model/C13_ctor.lean`) -/

partial def parseDimArg (s : String) : Option DimArg :=
  if s = "N" then some .none
  else if s = "o" then some .other
  else if s.startsWith "i" then (s.drop 1).toString.toInt?.map DimArg.int
  else if s.startsWith "t" then (parseDimArg (s.drop 1).toString).map DimArg.tuple1
  else if s.startsWith "T" then (s.drop 1).toString.toNat?.map DimArg.tupleN
  else if s.startsWith "l" then (parseVec (s.drop 1).toString).map DimArg.list
  else if s.startsWith "d" then (s.drop 1).toString.toNat?.map DimArg.nd
  else none

def fmtOptShape : Option (List Nat) → String
  | some sh => fmtNatList sh
  | none => "None"

def fmtOptNat : Option Nat → String
  | some n => toString n
  | none => "None"

def fmtShapes (sh : Shapes) : String :=
  s!"par={fmtOptShape sh.parShape} pardim={fmtOptNat sh.parDim} fun={fmtOptShape sh.funShape} fundim={fmtOptNat sh.funDim}"

def fmtOptGrid : Option (List Rat) → String
  | some g => fmtVec g
  | none => "None"

def ctor1dOut (a : DimArg) : String :=
  match cont1DCtor a with
  | none => "err"
  | some g => s!"grid={fmtOptGrid g} {fmtShapes (cont1DShapes g)}"

def ctorStep : List String → Option String
  | ["ctor1d", a] => (parseDimArg a).map ctor1dOut
  | ["ctor2d", a] => do
    let g ← (match a.splitOn ":" with
      | ["N"] => some Grid2Arg.none
      | ["w"] => some Grid2Arg.wrongLen
      | ["n"] => some Grid2Arg.noLen
      | ["p", x, y] => do some (Grid2Arg.pair (← parseDimArg x) (← parseDimArg y))
      | _ => none)
    match cont2DCtor g with
    | none => some "err"
    | some none => some s!"grid=None {fmtShapes ((cont2DShapes none).getD ⟨none, none, none, none⟩)}"
    | some (some (g0, g1)) =>
      some s!"grid={fmtOptGrid g0};{fmtOptGrid g1} {match cont2DShapes (some (g0, g1)) with | some sh => fmtShapes sh | none => "shapes-err"}"
  | ["ctorimg", sh, o, v] => do
    let sh ← parseNatList sh
    let v ← parseBool v
    match imageCtor sh o v with
    | none => some "err"
    | some ob => some (fmtShapes ob.shapes)
  | ["ctorimg", sh, o, v, op, xs, xd] => do
    let sh ← parseNatList sh
    let v ← parseBool v
    let x ← parseArr xs xd
    match imageCtor sh o v with
    | none => some "err"
    | some ob =>
      match op with
      | "par2fun" => some (match ob.par2fun x with | some y => fmtArr y | none => "raise")
      | "fun2par" => some (match ob.fun2par x with | some y => fmtArr y | none => "raise")
      | _ => none
  | ["ctordisc", a] => do
    let va ← (if a = "o" then some VarArg.other else if a = "x" then some VarArg.listOther
      else if a.startsWith "i" then (a.drop 1).toString.toInt?.map VarArg.int
      else if a.startsWith "s" then (a.drop 1).toString.toNat?.map fun k => VarArg.strs ((List.range k).map fun i => "n" ++ toString i)
      else none)
    match variablesOf va with
    | none => some "err"
    | some vs => some s!"vars={if vs.isEmpty then "_" else ",".intercalate vs} {fmtShapes (discreteShapes vs)}"
  | ["ctorvars", pd] => do
    let pd ← parseOptNat (if pd = "None" then "-" else pd)
    match defaultVariables pd with
    | none => some "err"
    | some vs => some (if vs.isEmpty then "_" else ",".intercalate vs)
  | ["defgeom", k, sh] => do
    let sh ← parseNatList sh
    match k with
    | "S" => some (ctor1dOut (samplesDefaultArg sh))
    | "A" => some (match carrDefaultArg sh with | some a => ctor1dOut a | none => "err")
    | _ => none
  | _ => none

def step : List String → String
  | "ctor1d" :: r => (ctorStep ("ctor1d" :: r)).getD "bad-op"
  | "ctor2d" :: r => (ctorStep ("ctor2d" :: r)).getD "bad-op"
  | "ctorimg" :: r => (ctorStep ("ctorimg" :: r)).getD "bad-op"
  | "ctordisc" :: r => (ctorStep ("ctordisc" :: r)).getD "bad-op"
  | "defgeom" :: r => (ctorStep ("defgeom" :: r)).getD "bad-op"
  | "ctorvars" :: r => (ctorStep ("ctorvars" :: r)).getD "bad-op"
  | ["klhist", cs, τ, nm, n0, ops] =>
    match parseVec cs, parseRat τ, parseOptNat nm, parseOptNat n0 with
    | some c, some τ, some nm, some n0 =>
      if τ = 0 then "bad-op" else
      match runKL (KLObj.init n0 nm (lget c) τ) (ops.splitOn ";") with
      | some outs => " # ".intercalate outs
      | none => "bad-op"
    | _, _, _, _ => "bad-op"
  | ["stephist", grid, bounds, s, pr, ops] =>
    match parseVec grid, (if bounds = "-" then some none else (parseVec bounds).map some), s.toNat? with
    | some g, some bs, some s =>
      match StepObj.init? g bs s (projOfString pr) with
      | none => "err"
      | some o =>
        match runStepObj o (ops.splitOn ";") with
        | some outs => " # ".intercalate outs
        | none => "bad-op"
    | _, _, _ => "bad-op"
  | ["shapes", gs] =>
    match parseGeom gs with
    | some (g, true) =>
      s!"par={fmtNatList g.parShape} pardim={prod g.parShape} fun={fmtShapeOpt g.funShape} vec={fmtShapeOpt g.funvecShape}"
    | some (_, false) => "err"
    | none => "bad-op"
  | ["map", gs, op, sh, da] =>
    match parseGeom gs, parseArr sh da with
    | some (g, true), some x =>
      -- a (top-level) StepExpansion is run as the object model `StepObj` (the code's `n_steps = 0` branch;
      -- equal to `Geom.step` for `n_steps ≠ 0`: `step_obj_fresh_par2fun/fun2par`)
      let so : Option StepObj := match g with
        | .step grid bs s pr => StepObj.init? grid bs s (some pr)
        | _ => none
      match op, so with
      | "par2fun", some o => (match o.par2fun x with | some y => fmtArr y | none => "raise")
      | "fun2par", some o => (match o.fun2par x with | .ok y => fmtArr y | .error e => e)
      | _, _ =>
      match op with
      | "par2fun" => match g.par2fun x with | some y => fmtArr y | none => "raise"
      | "vec2fun" => match g.vec2fun x with | some y => fmtArr y | none => "raise"
      | "fun2par" => match g.fun2par x with | .ok y => fmtArr y | .error e => e
      | "fun2vec" => match g.fun2vec x with | .ok y => fmtArr y | .error e => e
      | _ => "bad-op"
    | some (_, false), some _ => "err"
    | _, _ => "bad-op"
  | ["stepidx", gs] =>
    match parseGeom gs with
    | some (.step grid bs s _, ok) =>
      if !ok then "err" else
      s!"idx={fmtIdx (stepIndices (stepB grid bs s) (lget grid) grid.length s)} ideal={fmtIdx (stepIndicesIdeal grid.length s)}"
    | _ => "bad-op"
  | ["samples", gs, ip, iv, sh, da, ops] =>
    match parseGeom gs, parseBool ip, parseBool iv, parseArr sh da with
    | some (g, true), some ip, some iv, some x =>
      if ip && !iv then "err" else " # ".intercalate (runSamples g ⟨x, ip, iv⟩ (ops.splitOn ","))
    | some (_, false), some _, some _, some _ => "err"
    | _, _, _, _ => "bad-op"
  | ["carr", gs, ip, sh, da, ops] =>
    match parseGeom gs, parseBool ip, parseArr sh da with
    | some (g, true), some ip, some x =>
      match CArr.mk? x ip with
      | some c => " # ".intercalate (runCArr g c (ops.splitOn ","))
      | none => "err"
    | some (_, false), some _, some _ => "err"
    | _, _, _ => "bad-op"
  | ["klcoef", γ, n, nm] =>
    match γ.toNat?, n.toNat?, (if nm = "-" then some none else nm.toNat?.map some) with
    | some γ, some n, some nm =>
      let m := klNumModes nm n
      s!"{m} {fmtVec ((List.range m).map (klCoef γ))}"
    | _, _, _ => "bad-op"
  | ["klpre", cs, τ, n, sh, da] =>
    match parseVec cs, parseRat τ, n.toNat?, parseArr sh da with
    | some c, some τ, some n, some x =>
      if τ = 0 then "bad-op" else
      match klPre (lget c) τ n c.length x with | some y => fmtArr y | none => "raise"
    | _, _, _, _ => "bad-op"
  | ["klpost", cs, τ, n, sh, da] =>
    match parseVec cs, parseRat τ, n.toNat?, parseArr sh da with
    | some c, some τ, some n, some d =>
      if c.any (· = 0) then "bad-op" else
      match klPost (lget c) τ n c.length d with | some y => fmtArr y | none => "raise"
    | _, _, _, _ => "bad-op"
  -- closed-form F-order index maps against the general numpy F-order reshape/ravel
  | ["imgchk", a, b, sh, da] =>
    match a.toNat?, b.toNat?, parseArr sh da with
    | some a, some b, some x =>
      if a * b = 0 ∨ x.size % (a * b) ≠ 0 then "raise" else
      let ns := x.size / (a * b)
      let img := x.gather [a, b, ns] (liftBatch (imgFtoVec a b) ns)
      let c1 := arrEq img (reshapeFgen x [a, b, ns])
      let back := imageRavel true img
      let c2 := arrEq back ⟨[img.size], fun f => img.get (ravelC img.shape (unravelF img.shape f))⟩
      fmtBool (c1 && c2)
    | _, _, _ => "bad-op"
  | _ => "bad-op"

def main : IO Unit := runDriver step
